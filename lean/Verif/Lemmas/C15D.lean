/-
  C15 — lemmas of deepening round D:
  * the analytic gradient of the DISCRETISED model is the derivative of its log-likelihood;
  * the Jacobian handed to the optimiser (sum over the observations, amplitude block then lifetime block)
    is the gradient of the negative log-likelihood;
  * normalisation without upper limit (`t_max = inf`): continuous (limit of the integrals) and discretised (series).
-/
import Verif.Lemmas.C15
import Mathlib.Analysis.SpecificLimits.Basic
import Mathlib.MeasureTheory.Integral.IntegralEqImproper

namespace Verif.C15
open Verif

/-! ## generic calculus helpers -/

/-- `d/dx log (P/N) = P'/P − N'/N` -/
theorem hasDerivAt_log_div (P N : ℝ → ℝ) (P' N' x : ℝ) (hP : HasDerivAt P P' x) (hN : HasDerivAt N N' x)
    (hPpos : 0 < P x) (hNpos : 0 < N x) :
    HasDerivAt (fun y => Real.log (P y / N y)) (P' / P x - N' / N x) x := by
  have hq := (hP.div hN hNpos.ne').log (div_pos hPpos hNpos).ne'
  refine hq.congr_deriv ?_
  have := hPpos.ne'
  have := hNpos.ne'
  simp only [Pi.div_apply]
  field_simp

/-- `d/dτ e^{−x/τ} = e^{−x/τ} · x/τ²` -/
theorem hasDerivAt_exp_neg_div (x tau0 : ℝ) (ht : tau0 ≠ 0) :
    HasDerivAt (fun tau : ℝ => Real.exp (-x / tau)) (Real.exp (-x / tau0) * (x / tau0 ^ 2)) tau0 := by
  have h1 : HasDerivAt (fun tau : ℝ => -x / tau) ((0 * tau0 - -x * 1) / tau0 ^ 2) tau0 :=
    (hasDerivAt_const tau0 (-x)).div (hasDerivAt_id' tau0) ht
  exact h1.exp.congr_deriv (by ring)

/-! ## the analytic gradient of the discretised model -/

/-- numerator of the probability mass: `Σ a_i τ_i (1 − e^{-Δ/τ_i})² e^{-(t−Δ)/τ_i}` -/
noncomputable def specPd (comps : List (Comp ℝ)) (step t : ℝ) : ℝ :=
  (comps.map fun c => c.amp * c.tau * (1 - Real.exp (-step / c.tau)) ^ 2 * Real.exp (-(t - step) / c.tau)).sum

theorem specPmfDisc_eq (comps : List (Comp ℝ)) (tmin : ℝ) (tmax : Option ℝ) (step t : ℝ) :
    specPmfDisc comps tmin tmax step t = specPd comps step t / specNormDisc comps tmin tmax step := rfl

/-- textbook `∂/∂a_c log pmf = τ_c(1−x_c)² e^{-(t−Δ)/τ_c}/P − τ_c(1−x_c)(e^{-(tmin−Δ)/τ_c} − e^{-tmax/τ_c})/N` -/
noncomputable def specDaD (comps : List (Comp ℝ)) (t tmin : ℝ) (tmax : Option ℝ) (step : ℝ) (c : Comp ℝ) : ℝ :=
  (c.tau * (1 - Real.exp (-step / c.tau)) ^ 2 * Real.exp (-(t - step) / c.tau)) / specPd comps step t
    - (c.tau * (1 - Real.exp (-step / c.tau)) * (Real.exp (-(tmin - step) / c.tau) - specE tmax c.tau))
        / specNormDisc comps tmin tmax step

/-- `∂/∂τ [a τ (1−x)² e^{-(t−Δ)/τ}]`, `x = e^{-Δ/τ}` (product rule written out) -/
noncomputable def specDPdTau (a tau step t : ℝ) : ℝ :=
  a * ((1 - Real.exp (-step / tau)) ^ 2 * Real.exp (-(t - step) / tau)
    - 2 * (1 - Real.exp (-step / tau)) * (Real.exp (-step / tau) * step / tau) * Real.exp (-(t - step) / tau)
    + (1 - Real.exp (-step / tau)) ^ 2 * Real.exp (-(t - step) / tau) * (t - step) / tau)

/-- `∂/∂τ [a τ (1−x) (e^{-(tmin−Δ)/τ} − e^{-tmax/τ})]` (product rule written out) -/
noncomputable def specDNdTau (a tau step tmin : ℝ) (tmax : Option ℝ) : ℝ :=
  a * ((1 - Real.exp (-step / tau)) * (Real.exp (-(tmin - step) / tau) - specE tmax tau)
    - (Real.exp (-step / tau) * step / tau) * (Real.exp (-(tmin - step) / tau) - specE tmax tau)
    + (1 - Real.exp (-step / tau))
        * ((tmin - step) * Real.exp (-(tmin - step) / tau) - specME tmax tau) / tau)

/-- textbook `∂/∂τ_c log pmf = (∂P/∂τ_c)/P − (∂N/∂τ_c)/N` -/
noncomputable def specDtauD (comps : List (Comp ℝ)) (t tmin : ℝ) (tmax : Option ℝ) (step : ℝ) (c : Comp ℝ) : ℝ :=
  specDPdTau c.amp c.tau step t / specPd comps step t
    - specDNdTau c.amp c.tau step tmin tmax / specNormDisc comps tmin tmax step

theorem specPd_split (pre post : List (Comp ℝ)) (c : Comp ℝ) (step t : ℝ) :
    specPd (pre ++ c :: post) step t = specPd pre step t
      + (c.amp * c.tau * (1 - Real.exp (-step / c.tau)) ^ 2 * Real.exp (-(t - step) / c.tau)
          + specPd post step t) := by
  unfold specPd; simp [List.map_append, List.sum_append]

theorem specNormDisc_split (pre post : List (Comp ℝ)) (c : Comp ℝ) (tmin : ℝ) (tmax : Option ℝ) (step : ℝ) :
    specNormDisc (pre ++ c :: post) tmin tmax step = specNormDisc pre tmin tmax step
      + (c.amp * c.tau * (1 - Real.exp (-step / c.tau)) * (Real.exp (-(tmin - step) / c.tau) - specE tmax c.tau)
          + specNormDisc post tmin tmax step) := by
  unfold specNormDisc; simp [List.map_append, List.sum_append]

theorem specPd_pos (comps : List (Comp ℝ)) (hne : comps ≠ []) (hadm : Admissible comps)
    (step t : ℝ) (hs : 0 < step) : 0 < specPd comps step t :=
  sum_map_pos comps _ hne fun c hc =>
    mul_pos (mul_pos (mul_pos (hadm c hc).1 (hadm c hc).2)
      (pow_pos (discFactor_pos step c.tau hs (hadm c hc).2) 2)) (Real.exp_pos _)

theorem hasDerivAt_logpmf_amp (pre post : List (Comp ℝ)) (a0 tau t tmin : ℝ) (tmax : Option ℝ) (step : ℝ)
    (hP : 0 < specPd (pre ++ ⟨a0, tau⟩ :: post) step t)
    (hN : 0 < specNormDisc (pre ++ ⟨a0, tau⟩ :: post) tmin tmax step) :
    HasDerivAt (fun a => Real.log (specPmfDisc (pre ++ ⟨a, tau⟩ :: post) tmin tmax step t))
      (specDaD (pre ++ ⟨a0, tau⟩ :: post) t tmin tmax step ⟨a0, tau⟩) a0 := by
  have hPd : HasDerivAt (fun a => specPd (pre ++ ⟨a, tau⟩ :: post) step t)
      (tau * (1 - Real.exp (-step / tau)) ^ 2 * Real.exp (-(t - step) / tau)) a0 := by
    have h : HasDerivAt (fun a : ℝ => specPd pre step t
          + (a * (tau * (1 - Real.exp (-step / tau)) ^ 2 * Real.exp (-(t - step) / tau)) + specPd post step t))
        (0 + (1 * (tau * (1 - Real.exp (-step / tau)) ^ 2 * Real.exp (-(t - step) / tau)) + 0)) a0 :=
      (hasDerivAt_const a0 _).add (((hasDerivAt_id' a0).mul_const _).add (hasDerivAt_const a0 _))
    have hf : (fun a => specPd (pre ++ ⟨a, tau⟩ :: post) step t)
        = fun a : ℝ => specPd pre step t
          + (a * (tau * (1 - Real.exp (-step / tau)) ^ 2 * Real.exp (-(t - step) / tau)) + specPd post step t) :=
      funext fun a => by rw [specPd_split pre post ⟨a, tau⟩ step t]; ring
    rw [hf]
    exact h.congr_deriv (by ring)
  have hNd : HasDerivAt (fun a => specNormDisc (pre ++ ⟨a, tau⟩ :: post) tmin tmax step)
      (tau * (1 - Real.exp (-step / tau)) * (Real.exp (-(tmin - step) / tau) - specE tmax tau)) a0 := by
    have h : HasDerivAt (fun a : ℝ => specNormDisc pre tmin tmax step
          + (a * (tau * (1 - Real.exp (-step / tau)) * (Real.exp (-(tmin - step) / tau) - specE tmax tau))
              + specNormDisc post tmin tmax step))
        (0 + (1 * (tau * (1 - Real.exp (-step / tau)) * (Real.exp (-(tmin - step) / tau) - specE tmax tau)) + 0))
        a0 :=
      (hasDerivAt_const a0 _).add (((hasDerivAt_id' a0).mul_const _).add (hasDerivAt_const a0 _))
    have hf : (fun a => specNormDisc (pre ++ ⟨a, tau⟩ :: post) tmin tmax step)
        = fun a : ℝ => specNormDisc pre tmin tmax step
          + (a * (tau * (1 - Real.exp (-step / tau)) * (Real.exp (-(tmin - step) / tau) - specE tmax tau))
              + specNormDisc post tmin tmax step) :=
      funext fun a => by rw [specNormDisc_split pre post ⟨a, tau⟩ tmin tmax step]; ring
    rw [hf]
    exact h.congr_deriv (by ring)
  simp only [specPmfDisc_eq]
  exact hasDerivAt_log_div _ _ _ _ a0 hPd hNd hP hN

theorem hasDerivAt_logpmf_tau (pre post : List (Comp ℝ)) (a tau0 t tmin : ℝ) (tmax : Option ℝ) (step : ℝ)
    (ht : 0 < tau0)
    (hP : 0 < specPd (pre ++ ⟨a, tau0⟩ :: post) step t)
    (hN : 0 < specNormDisc (pre ++ ⟨a, tau0⟩ :: post) tmin tmax step) :
    HasDerivAt (fun tau => Real.log (specPmfDisc (pre ++ ⟨a, tau⟩ :: post) tmin tmax step t))
      (specDtauD (pre ++ ⟨a, tau0⟩ :: post) t tmin tmax step ⟨a, tau0⟩) tau0 := by
  have hne := ht.ne'
  -- `1 − x`, `x = e^{-Δ/τ}`
  have hdf : HasDerivAt (fun tau : ℝ => 1 - Real.exp (-step / tau))
      (-(Real.exp (-step / tau0) * (step / tau0 ^ 2))) tau0 := by
    exact ((hasDerivAt_const tau0 (1 : ℝ)).sub (hasDerivAt_exp_neg_div step tau0 hne)).congr_deriv (by ring)
  have hPd : HasDerivAt (fun tau => specPd (pre ++ ⟨a, tau⟩ :: post) step t)
      (specDPdTau a tau0 step t) tau0 := by
    have h := (hasDerivAt_const tau0 (specPd pre step t)).add
      (((((hasDerivAt_id' tau0).mul (hdf.mul hdf)).mul (hasDerivAt_exp_neg_div (t - step) tau0 hne)).const_mul a).add
        (hasDerivAt_const tau0 (specPd post step t)))
    have hf : (fun tau => specPd (pre ++ ⟨a, tau⟩ :: post) step t)
        = fun tau : ℝ => specPd pre step t
          + (a * (tau * ((1 - Real.exp (-step / tau)) * (1 - Real.exp (-step / tau)))
                * Real.exp (-(t - step) / tau)) + specPd post step t) :=
      funext fun tau => by rw [specPd_split pre post ⟨a, tau⟩ step t]; ring
    rw [hf]
    refine h.congr_deriv ?_
    unfold specDPdTau
    simp only [Pi.mul_apply]
    field_simp
    ring
  have hNd : HasDerivAt (fun tau => specNormDisc (pre ++ ⟨a, tau⟩ :: post) tmin tmax step)
      (specDNdTau a tau0 step tmin tmax) tau0 := by
    have h := (hasDerivAt_const tau0 (specNormDisc pre tmin tmax step)).add
      (((((hasDerivAt_id' tau0).mul hdf).mul
          ((hasDerivAt_exp_neg_div (tmin - step) tau0 hne).sub (hasDerivAt_specE tmax tau0 hne))).const_mul a).add
        (hasDerivAt_const tau0 (specNormDisc post tmin tmax step)))
    have hf : (fun tau => specNormDisc (pre ++ ⟨a, tau⟩ :: post) tmin tmax step)
        = fun tau : ℝ => specNormDisc pre tmin tmax step
          + (a * (tau * (1 - Real.exp (-step / tau))
                * (Real.exp (-(tmin - step) / tau) - specE tmax tau)) + specNormDisc post tmin tmax step) :=
      funext fun tau => by rw [specNormDisc_split pre post ⟨a, tau⟩ tmin tmax step]; ring
    rw [hf]
    refine h.congr_deriv ?_
    unfold specDNdTau
    simp only [Pi.mul_apply, Pi.sub_apply]
    field_simp
    ring
  simp only [specPmfDisc_eq]
  exact hasDerivAt_log_div _ _ _ _ tau0 hPd hNd hP hN

theorem maxExpTerm_real (tmax : Option ℝ) (tau : ℝ) (h : ∀ m, tmax = some m → m / tau < (1.0e10 : ℝ)) :
    maxExpTerm tmax tau = specE tmax tau := by
  cases tmax with
  | none => simp only [maxExpTerm, specE]; norm_num
  | some m =>
    simp only [maxExpTerm, specE, RealLike.lt, RealLike.exp, decide_eq_true_eq]
    rw [if_pos (h m rfl), neg_div]

theorem gradObsDisc_eq_spec (comps : List (Comp ℝ)) (hne : comps ≠ []) (hadm : Admissible comps)
    (hclip : ∀ c ∈ comps, (1.0e-14 : ℝ) ≤ c.amp) (t tmin : ℝ) (tmax : Option ℝ) (step : ℝ) (hs : 0 < step)
    (hwin : ∀ m, tmax = some m → tmin - step < m)
    (hvalid : ∀ c ∈ comps, ∀ m, tmax = some m → m / c.tau < (1.0e10 : ℝ)) :
    gradObsDisc comps t tmin tmax step
      = comps.map fun c => (specDaD comps t tmin tmax step c, specDtauD comps t tmin tmax step c) := by
  have hcs : (comps.map fun c => (⟨clipAmp c.amp, c.tau⟩ : Comp ℝ)) = comps := by
    conv_rhs => rw [← List.map_id comps]
    exact List.map_congr_left fun c hc => by rw [clipAmp_real _ (hclip c hc)]; rfl
  have h1 : ((1.0 : ℝ)) = 1 := by norm_num
  have h2 : ((2.0 : ℝ)) = 2 := by norm_num
  have hw : ∀ c ∈ comps, specE tmax c.tau < Real.exp (-(tmin - step) / c.tau) :=
    fun c hc => specE_lt (tmin - step) tmax c.tau (hadm c hc).2 hwin
  have hNpos := specNormDisc_pos comps hne hadm tmin step hs tmax hw
  have hPpos := specPd_pos comps hne hadm step t hs
  unfold gradObsDisc
  simp only [hcs]
  simp only [RealLike.exp, RealLike.log, h1, h2]
  -- the normalisation: `logsumexp` of the log-terms is `log N`
  have hterm : ∀ c ∈ comps, Real.exp (Real.log c.amp + Real.log c.tau
        + (Real.log (1 - Real.exp (-step / c.tau))
            + Real.log (Real.exp (-(tmin - step) / c.tau) - maxExpTerm tmax c.tau)))
      = c.amp * c.tau * (1 - Real.exp (-step / c.tau))
          * (Real.exp (-(tmin - step) / c.tau) - specE tmax c.tau) := by
    intro c hc
    obtain ⟨ha, ht⟩ := hadm c hc
    have hdf := discFactor_pos step c.tau hs ht
    have := hw c hc
    rw [maxExpTerm_real _ _ (hvalid c hc), Real.exp_add, Real.exp_add, Real.exp_add, Real.exp_log ha,
      Real.exp_log ht, Real.exp_log hdf, Real.exp_log (by linarith)]
    ring
  have hL : lse (comps.map fun c => Real.log c.amp + Real.log c.tau
        + (Real.log (1 - Real.exp (-step / c.tau))
            + Real.log (Real.exp (-(tmin - step) / c.tau) - maxExpTerm tmax c.tau)))
      = Real.log (specNormDisc comps tmin tmax step) := by
    rw [← Real.log_exp (lse _), exp_lse_map comps _ _ hne hterm]; rfl
  simp only [hL, neg_neg]
  have hexp : ∀ c ∈ comps, Real.exp (Real.log (specNormDisc comps tmin tmax step) + Real.log c.amp
        + Real.log c.tau + 2 * Real.log (1 - Real.exp (-step / c.tau)) - (t - step) / c.tau)
      = c.amp * c.tau * (1 - Real.exp (-step / c.tau)) ^ 2 * Real.exp (-(t - step) / c.tau)
          * specNormDisc comps tmin tmax step := by
    intro c hc
    obtain ⟨ha, ht⟩ := hadm c hc
    have hdf := discFactor_pos step c.tau hs ht
    rw [two_mul, sub_eq_add_neg, Real.exp_add, Real.exp_add, Real.exp_add, Real.exp_add, Real.exp_add,
      Real.exp_log hNpos, Real.exp_log ha, Real.exp_log ht, Real.exp_log hdf, neg_div]
    ring_nf
  have htot : Real.exp (lse (comps.map fun c => Real.log (specNormDisc comps tmin tmax step) + Real.log c.amp
        + Real.log c.tau + 2 * Real.log (1 - Real.exp (-step / c.tau)) - (t - step) / c.tau))
      = specPd comps step t * specNormDisc comps tmin tmax step := by
    rw [exp_lse_map comps _ _ hne hexp, sum_map_mul_const]; rfl
  have hsum : sumL (List.map Real.exp (comps.map fun c => Real.log (specNormDisc comps tmin tmax step)
        + Real.log c.amp + Real.log c.tau + 2 * Real.log (1 - Real.exp (-step / c.tau)) - (t - step) / c.tau))
      = specPd comps step t * specNormDisc comps tmin tmax step := by
    rw [sumL_eq_sum, List.map_map]
    unfold specPd
    rw [← sum_map_mul_const]
    congr 1
    exact List.map_congr_left hexp
  simp only [htot, hsum]
  refine List.map_congr_left fun c hc => ?_
  obtain ⟨ha, ht⟩ := hadm c hc
  have hdf := discFactor_pos step c.tau hs ht
  have hT : 0 < Real.exp (-(tmin - step) / c.tau) - specE tmax c.tau := by have := hw c hc; linarith
  have hNne := hNpos.ne'
  have hPne := hPpos.ne'
  have hdfne := hdf.ne'
  have htne := ht.ne'
  have hane := ha.ne'
  have hflip : (step - tmin) / c.tau = -(tmin - step) / c.tau := by ring
  rw [hexp c hc, maxExpTerm_real _ _ (hvalid c hc), maxBound_real _ _ (hvalid c hc), hflip,
    Real.exp_neg, Real.exp_log hNpos, Real.exp_add, Real.exp_add, Real.exp_add, Real.exp_add,
    Real.exp_log hdf, Real.exp_log hT, Real.exp_log ht, Real.exp_log ha]
  simp only [specDaD, specDtauD, specDPdTau, specDNdTau, Prod.mk.injEq]
  generalize Real.exp (-step / c.tau) = x at hdfne ⊢
  generalize Real.exp (-(tmin - step) / c.tau) = e1
  generalize Real.exp (-(t - step) / c.tau) = e2
  generalize specE tmax c.tau = e3
  generalize specME tmax c.tau = e4
  generalize specPd comps step t = P at hPne ⊢
  generalize specNormDisc comps tmin tmax step = N at hNne ⊢
  constructor
  · field_simp
    ring
  · field_simp
    ring

theorem logLikObs_eq_log_specDisc (comps : List (Comp ℝ)) (hne : comps ≠ []) (hadm : Admissible comps)
    (tmin step t : ℝ) (hs : 0 < step) (tmax : Option ℝ) (hwin : ∀ m, tmax = some m → tmin - step < m) :
    logLikObs comps ⟨t, tmin, tmax, some step⟩ = Real.log (specPmfDisc comps tmin tmax step t) := by
  have h := pmf_disc_eq_spec comps hne hadm tmin step t hs tmax
    fun c hc => specE_lt (tmin - step) tmax c.tau (hadm c hc).2 hwin
  unfold pmfDisc pdf at h
  simp only [RealLike.exp] at h
  rw [← h, Real.log_exp]

/-! ## the Jacobian: summation over the observations, amplitude block then lifetime block -/

theorem addPairs_length : ∀ (a b : List (ℝ × ℝ)), a.length = b.length → (addPairs a b).length = a.length
  | [], [], _ => rfl
  | [], _ :: _, h => by simp at h
  | _ :: _, [], h => by simp at h
  | (a, b) :: xs, (c, d) :: ys, h => by
    simp only [addPairs, List.length_cons, Nat.add_right_cancel_iff] at h ⊢
    exact addPairs_length xs ys h

theorem addPairs_getD : ∀ (a b : List (ℝ × ℝ)) (i : Nat), a.length = b.length →
    ((addPairs a b).getD i (0, 0)).1 = (a.getD i (0, 0)).1 + (b.getD i (0, 0)).1
    ∧ ((addPairs a b).getD i (0, 0)).2 = (a.getD i (0, 0)).2 + (b.getD i (0, 0)).2
  | [], [], i, _ => by simp [addPairs]
  | [], _ :: _, _, h => by simp at h
  | _ :: _, [], _, h => by simp at h
  | (a, b) :: xs, (c, d) :: ys, 0, _ => by simp [addPairs]
  | (a, b) :: xs, (c, d) :: ys, i + 1, h => by
    simp only [List.length_cons, Nat.add_right_cancel_iff] at h
    simpa [addPairs] using addPairs_getD xs ys i h

theorem foldl_addPairs {β : Type} (g : β → List (ℝ × ℝ)) (n : Nat) : ∀ (gs : List β) (acc : List (ℝ × ℝ)),
    (∀ o ∈ gs, (g o).length = n) → acc.length = n → ∀ i : Nat,
    ((gs.foldl (fun acc o => addPairs acc (g o)) acc).length = n)
    ∧ ((gs.foldl (fun acc o => addPairs acc (g o)) acc).getD i (0, 0)).1
        = (acc.getD i (0, 0)).1 + (gs.map fun o => ((g o).getD i (0, 0)).1).sum
    ∧ ((gs.foldl (fun acc o => addPairs acc (g o)) acc).getD i (0, 0)).2
        = (acc.getD i (0, 0)).2 + (gs.map fun o => ((g o).getD i (0, 0)).2).sum
  | [], acc, _, hacc, i => by simp [hacc]
  | o :: gs, acc, hg, hacc, i => by
    have ho : (g o).length = n := hg o (List.mem_cons_self ..)
    have hlen : (addPairs acc (g o)).length = n := by rw [addPairs_length acc (g o) (by omega), hacc]
    obtain ⟨h1, h2, h3⟩ := foldl_addPairs g n gs (addPairs acc (g o))
      (fun o' ho' => hg o' (List.mem_cons_of_mem _ ho')) hlen i
    obtain ⟨a1, a2⟩ := addPairs_getD acc (g o) i (by omega)
    simp only [List.foldl_cons, List.map_cons, List.sum_cons]
    refine ⟨h1, ?_, ?_⟩
    · rw [h2, a1]; ring
    · rw [h3, a2]; ring

theorem gradObs_length (comps : List (Comp ℝ)) (o : Obs ℝ) : (gradObs comps o).length = comps.length := by
  unfold gradObs
  cases o.step with
  | none => simp [gradObsCont]
  | some d => simp [gradObsDisc]

theorem jacobian_tot (comps : List (Comp ℝ)) (obs : List (Obs ℝ)) (i : Nat) :
    ((obs.foldl (fun acc o => addPairs acc (gradObs comps o)) (comps.map fun _ => ((0.0 : ℝ), (0.0 : ℝ)))).length
        = comps.length)
    ∧ ((obs.foldl (fun acc o => addPairs acc (gradObs comps o)) (comps.map fun _ => ((0.0 : ℝ), (0.0 : ℝ)))).getD
          i (0, 0)).1 = (obs.map fun o => ((gradObs comps o).getD i (0, 0)).1).sum
    ∧ ((obs.foldl (fun acc o => addPairs acc (gradObs comps o)) (comps.map fun _ => ((0.0 : ℝ), (0.0 : ℝ)))).getD
          i (0, 0)).2 = (obs.map fun o => ((gradObs comps o).getD i (0, 0)).2).sum := by
  obtain ⟨h1, h2, h3⟩ := foldl_addPairs (gradObs comps) comps.length obs
    (comps.map fun _ => ((0.0 : ℝ), (0.0 : ℝ))) (fun o _ => gradObs_length comps o) (by simp) i
  have hz : ((comps.map fun _ => ((0.0 : ℝ), (0.0 : ℝ))).getD i (0, 0)) = (0, 0) := by
    have h0 : ((0.0 : ℝ)) = 0 := by norm_num
    simp only [h0, List.getD_eq_getElem?_getD, List.getElem?_map]
    cases comps[i]? <;> simp
  rw [hz] at h2 h3
  exact ⟨h1, by rw [h2]; simp, by rw [h3]; simp⟩

theorem getD_block_fst (T : List (ℝ × ℝ)) (i : Nat) (hi : i < T.length) :
    ((T.map fun p => -p.1) ++ (T.map fun p => -p.2)).getD i 0 = -(T.getD i (0, 0)).1 := by
  rw [List.getD_eq_getElem?_getD, List.getElem?_append_left (by rw [List.length_map]; exact hi),
    List.getElem?_map, List.getD_eq_getElem?_getD, List.getElem?_eq_getElem hi]
  rfl

theorem getD_block_snd (T : List (ℝ × ℝ)) (i : Nat) (hi : i < T.length) :
    ((T.map fun p => -p.1) ++ (T.map fun p => -p.2)).getD (T.length + i) 0 = -(T.getD i (0, 0)).2 := by
  rw [List.getD_eq_getElem?_getD, List.getElem?_append_right (by rw [List.length_map]; omega),
    List.length_map, Nat.add_sub_cancel_left, List.getElem?_map, List.getD_eq_getElem?_getD,
    List.getElem?_eq_getElem hi]
  rfl

/-- entry `i` of the Jacobian (amplitude block): minus the sum over the observations of the per-observation
    amplitude term of component `i` -/
theorem jacobian_getD_amp (comps : List (Comp ℝ)) (obs : List (Obs ℝ)) (i : Nat) (hi : i < comps.length) :
    (jacobian comps obs).getD i 0 = -(obs.map fun o => ((gradObs comps o).getD i (0, 0)).1).sum := by
  obtain ⟨h1, h2, _⟩ := jacobian_tot comps obs i
  unfold jacobian
  simp only
  rw [← h2]
  exact getD_block_fst _ i (by rw [h1]; exact hi)

/-- entry `n + i` of the Jacobian (lifetime block) -/
theorem jacobian_getD_tau (comps : List (Comp ℝ)) (obs : List (Obs ℝ)) (i : Nat) (hi : i < comps.length) :
    (jacobian comps obs).getD (comps.length + i) 0
      = -(obs.map fun o => ((gradObs comps o).getD i (0, 0)).2).sum := by
  obtain ⟨h1, _, h3⟩ := jacobian_tot comps obs i
  unfold jacobian
  simp only
  rw [← h3, ← h1]
  exact getD_block_snd _ i (by rw [h1]; exact hi)

/-- the derivative of the negative log-likelihood along any differentiable path of parameter sets is minus the
    sum of the per-observation derivatives -/
theorem hasDerivAt_negLogLik (F : ℝ → List (Comp ℝ)) (obs : List (Obs ℝ)) (d : Obs ℝ → ℝ) (x : ℝ)
    (h : ∀ o ∈ obs, HasDerivAt (fun y => logLikObs (F y) o) (d o) x) :
    HasDerivAt (fun y => negLogLik (F y) obs) (-(obs.map d).sum) x := by
  have hs := hasDerivAt_sum_map obs (fun o y => logLikObs (F y) o) (fun o _ => d o) x h
  have hf : (fun y => negLogLik (F y) obs) = fun y => -((obs.map fun o => logLikObs (F y) o).sum) :=
    funext fun y => by unfold negLogLik; rw [sumL_eq_sum]
  rw [hf]
  exact hs.neg

/-- the hypotheses of the gradient theorems for one observation: a proper window (`tmin < tmax`, resp. `Δ > 0` and
    `tmin − Δ < tmax`) and the code's `t_max/τ < 1e10` mask inactive -/
def GradOk (comps : List (Comp ℝ)) (o : Obs ℝ) : Prop :=
  match o.step with
  | none => (∀ m, o.tmax = some m → o.tmin < m) ∧ ∀ c ∈ comps, ∀ m, o.tmax = some m → m / c.tau < (1.0e10 : ℝ)
  | some d => 0 < d ∧ (∀ m, o.tmax = some m → o.tmin - d < m)
      ∧ ∀ c ∈ comps, ∀ m, o.tmax = some m → m / c.tau < (1.0e10 : ℝ)

/-! ## normalisation without upper limit (`t_max = inf`) -/

section unbounded
open Filter Topology MeasureTheory Set

/-- `Σ a_i e^{−s/τ_i} → 0` as `s → ∞` (positive lifetimes) -/
theorem tendsto_survival (comps : List (Comp ℝ)) (hadm : Admissible comps) :
    Tendsto (fun s : ℝ => (comps.map fun c => c.amp * Real.exp (-s / c.tau)).sum) atTop (𝓝 0) := by
  induction comps with
  | nil => simp
  | cons c cs ih =>
    simp only [List.map_cons, List.sum_cons]
    have ht := (hadm c (List.mem_cons_self ..)).2
    have h1 : Tendsto (fun s : ℝ => -s / c.tau) atTop atBot := by
      have : (fun s : ℝ => -s / c.tau) = fun s : ℝ => -(s / c.tau) := funext fun s => by ring
      rw [this]
      exact tendsto_neg_atTop_atBot.comp (tendsto_id.atTop_div_const ht)
    have h2 : Tendsto (fun s : ℝ => c.amp * Real.exp (-s / c.tau)) atTop (𝓝 (c.amp * 0)) :=
      (Real.tendsto_exp_atBot.comp h1).const_mul c.amp
    have h3 := h2.add (ih fun c' hc' => hadm c' (List.mem_cons_of_mem _ hc'))
    simpa using h3

theorem specPdfCont_nonneg (comps : List (Comp ℝ)) (hadm : Admissible comps) (tmin : ℝ) (tmax : Option ℝ)
    (hN : 0 < specNormCont comps tmin tmax) (t : ℝ) : 0 ≤ specPdfCont comps tmin tmax t := by
  unfold specPdfCont
  refine div_nonneg (List.sum_nonneg ?_) hN.le
  intro x hx
  obtain ⟨c, hc, rfl⟩ := List.mem_map.1 hx
  exact (mul_pos (div_pos (hadm c hc).1 (hadm c hc).2) (Real.exp_pos _)).le

/-- the textbook density without upper limit integrates to one over `(tmin, ∞)` (improper integral) -/
theorem integral_Ioi_specPdfCont (comps : List (Comp ℝ)) (hne : comps ≠ []) (hadm : Admissible comps) (tmin : ℝ) :
    ∫ t in Ioi tmin, specPdfCont comps tmin none t = 1 := by
  have hNpos : 0 < specNormCont comps tmin none :=
    specNormCont_pos comps hne hadm tmin none fun c _ => by simp only [specE]; exact Real.exp_pos _
  set N := specNormCont comps tmin none with hNdef
  have hderiv : ∀ t ∈ Ici tmin,
      HasDerivAt (fun s => -((comps.map fun c => c.amp * Real.exp (-s / c.tau)).sum) / N)
        (specPdfCont comps tmin none t) t := by
    intro t _
    have h := hasDerivAt_sum_map comps (fun c s => c.amp * Real.exp (-s / c.tau))
      (fun c s => -(c.amp / c.tau * Real.exp (-s / c.tau))) t
      (fun c _ => hasDerivAt_amp_exp c.amp c.tau t)
    refine (h.neg.div_const N).congr_deriv ?_
    unfold specPdfCont
    rw [← hNdef]
    congr 1
    have : (comps.map fun c => -(c.amp / c.tau * Real.exp (-t / c.tau)))
        = comps.map fun c => (c.amp / c.tau * Real.exp (-t / c.tau)) * (-1) :=
      List.map_congr_left fun c _ => by ring
    rw [this, sum_map_mul_const]; ring
  have hlim : Tendsto (fun s => -((comps.map fun c => c.amp * Real.exp (-s / c.tau)).sum) / N) atTop (𝓝 (-0 / N)) :=
    ((tendsto_survival comps hadm).neg).div_const N
  rw [integral_Ioi_of_hasDerivAt_of_nonneg' hderiv
    (fun t _ => specPdfCont_nonneg comps hadm tmin none hNpos t) hlim]
  have hN0 : (comps.map fun c => c.amp * Real.exp (-tmin / c.tau)).sum = N := by
    rw [hNdef, specNormCont]
    congr 1
    exact List.map_congr_left fun c _ => by simp only [specE]; ring
  rw [hN0]
  have := hNpos.ne'
  field_simp
  ring

/-- geometric series over the components: `Σ_k Σ_i w_i x_i^k = Σ_i w_i/(1 − x_i)` for `0 ≤ x_i < 1` -/
theorem hasSum_geom_comps {β : Type} (comps : List β) (w x : β → ℝ) (hx : ∀ c ∈ comps, 0 ≤ x c ∧ x c < 1) :
    HasSum (fun k : ℕ => (comps.map fun c => w c * x c ^ k).sum) ((comps.map fun c => w c * (1 - x c)⁻¹).sum) := by
  induction comps with
  | nil => simp
  | cons c cs ih =>
    simp only [List.map_cons, List.sum_cons]
    obtain ⟨h0, h1⟩ := hx c (List.mem_cons_self ..)
    exact ((hasSum_geometric_of_lt_one h0 h1).mul_left (w c)).add
      (ih fun c' hc' => hx c' (List.mem_cons_of_mem _ hc'))

/-- the textbook probability masses without upper limit sum to one over `tmin, tmin + Δ, tmin + 2Δ, …` -/
theorem hasSum_specPmfDisc (comps : List (Comp ℝ)) (hne : comps ≠ []) (hadm : Admissible comps)
    (tmin step : ℝ) (hs : 0 < step) :
    HasSum (fun k : ℕ => specPmfDisc comps tmin none step (tmin + (k : ℝ) * step)) 1 := by
  have hNpos : 0 < specNormDisc comps tmin none step :=
    specNormDisc_pos comps hne hadm tmin step hs none fun c _ => by simp only [specE]; exact Real.exp_pos _
  set N := specNormDisc comps tmin none step with hNdef
  have hx : ∀ c ∈ comps, 0 ≤ Real.exp (-step / c.tau) ∧ Real.exp (-step / c.tau) < 1 := fun c hc =>
    ⟨(Real.exp_pos _).le, by have := discFactor_pos step c.tau hs (hadm c hc).2; linarith⟩
  have h := (hasSum_geom_comps comps
    (fun c => c.amp * c.tau * (1 - Real.exp (-step / c.tau)) ^ 2 * Real.exp (-(tmin - step) / c.tau))
    (fun c => Real.exp (-step / c.tau)) hx).mul_right N⁻¹
  have hfun : (fun k : ℕ => specPmfDisc comps tmin none step (tmin + (k : ℝ) * step))
      = fun k : ℕ => (comps.map fun c => (c.amp * c.tau * (1 - Real.exp (-step / c.tau)) ^ 2
          * Real.exp (-(tmin - step) / c.tau)) * Real.exp (-step / c.tau) ^ k).sum * N⁻¹ := by
    funext k
    unfold specPmfDisc
    rw [← hNdef, div_eq_mul_inv]
    congr 2
    exact List.map_congr_left fun c _ => by rw [exp_grid]; ring
  rw [hfun]
  have hval : (comps.map fun c => (c.amp * c.tau * (1 - Real.exp (-step / c.tau)) ^ 2
        * Real.exp (-(tmin - step) / c.tau)) * (1 - Real.exp (-step / c.tau))⁻¹).sum * N⁻¹ = 1 := by
    have : (comps.map fun c => (c.amp * c.tau * (1 - Real.exp (-step / c.tau)) ^ 2
        * Real.exp (-(tmin - step) / c.tau)) * (1 - Real.exp (-step / c.tau))⁻¹).sum = N := by
      rw [hNdef, specNormDisc]
      congr 1
      refine List.map_congr_left fun c hc => ?_
      have hd := (discFactor_pos step c.tau hs (hadm c hc).2).ne'
      simp only [specE]
      field_simp
      ring
    rw [this]
    exact mul_inv_cancel₀ hNpos.ne'
  rw [hval] at h
  exact h

end unbounded

/-! ## legacy mode `observed_minimum=True`: the minimum observation time is the shortest kept dwell of the kymograph -/

theorem foldl_min_spec : ∀ (l : List Rat) (m : Rat),
    (l.foldl (fun m y => if y < m then y else m) m = m ∨ l.foldl (fun m y => if y < m then y else m) m ∈ l)
    ∧ l.foldl (fun m y => if y < m then y else m) m ≤ m
    ∧ ∀ x ∈ l, l.foldl (fun m y => if y < m then y else m) m ≤ x
  | [], m => by simp
  | y :: ys, m => by
    simp only [List.foldl_cons]
    by_cases hy : y < m
    · simp only [hy, if_true]
      obtain ⟨h1, h2, h3⟩ := foldl_min_spec ys y
      refine ⟨?_, le_trans h2 hy.le, ?_⟩
      · rcases h1 with h1 | h1
        · right; rw [h1]; exact List.mem_cons_self ..
        · right; exact List.mem_cons_of_mem _ h1
      · intro x hx
        rcases List.mem_cons.1 hx with rfl | hx
        · exact h2
        · exact h3 x hx
    · simp only [hy, if_false]
      obtain ⟨h1, h2, h3⟩ := foldl_min_spec ys m
      refine ⟨?_, h2, ?_⟩
      · rcases h1 with h1 | h1
        · left; exact h1
        · right; exact List.mem_cons_of_mem _ h1
      · intro x hx
        rcases List.mem_cons.1 hx with rfl | hx
        · exact le_trans h2 (not_lt.1 hy)
        · exact h3 x hx

/-- `np.min` as the model computes it (running minimum) is the least element of a non-empty list -/
theorem minL_spec (l : List Rat) (hne : l ≠ []) : minL l ∈ l ∧ ∀ x ∈ l, minL l ≤ x := by
  cases l with
  | nil => exact absurd rfl hne
  | cons x xs =>
    simp only [minL]
    obtain ⟨h1, h2, h3⟩ := foldl_min_spec xs x
    refine ⟨?_, ?_⟩
    · rcases h1 with h1 | h1
      · rw [h1]; exact List.mem_cons_self ..
      · exact List.mem_cons_of_mem _ h1
    · intro y hy
      rcases List.mem_cons.1 hy with rfl | hy
      · exact h2
      · exact h3 y hy

/-- shortest dwell time among the kept tracks of kymograph `k` -/
def groupMin (excl : Bool) (tracks : List Track) (k : Nat) : Rat :=
  minL (((tracks.filter fun t => decide (t.kymo = k)).filter (keep excl)).map specDuration)

/-- the row a kept track contributes in the legacy mode: its duration, the shortest kept dwell of ITS kymograph,
    the kymograph's total duration, the line time -/
def specRowOm (excl : Bool) (tracks : List Track) (t : Track) : Row :=
  ⟨specDuration t, groupMin excl tracks t.kymo, (t.nLines : Rat) * t.lineTime, t.lineTime⟩

theorem extractGroup_rows_om (excl : Bool) (g0 : Track) (gs : List Track) (rows : List Row) (rem : Bool)
    (h : extractGroup excl true (g0 :: gs) = some (rows, rem)) :
    rows = ((g0 :: gs).filter (keep excl)).map fun t =>
      ⟨specDuration t, minL (((g0 :: gs).filter (keep excl)).map specDuration),
        (g0.nLines : Rat) * g0.lineTime, g0.lineTime⟩ := by
  unfold extractGroup at h
  simp only [kept_eq, if_true] at h
  have hnz : ((if excl then (g0 :: gs).filter Track.endsDefined else g0 :: gs).map Track.duration).filter
      (fun x => decide (0 < x)) = ((g0 :: gs).filter (keep excl)).map specDuration := by
    rw [List.filter_map, ← kept_eq]
    exact List.map_congr_left fun t _ => duration_eq t
  rw [hnz] at h
  split at h
  · rename_i hnil
    have : (g0 :: gs).filter (keep excl) = [] := by simpa using hnil
    simp only [Option.some.injEq, Prod.mk.injEq] at h
    rw [this, ← h.1]; rfl
  · simp only [Option.some.injEq, Prod.mk.injEq] at h
    rw [← h.1]
    exact List.map_congr_left fun t _ => by rw [duration_eq]

theorem extractGroup_om_isSome (excl : Bool) (G : List Track) : (extractGroup excl true G).isSome = true := by
  unfold extractGroup
  cases G with
  | nil => simp
  | cons g0 gs =>
    simp only [if_true]
    split <;> (split <;> rfl)

theorem extract_rows_perm_om (excl : Bool) (tracks : List Track) (hc : Consistent tracks)
    (rows : List Row) (rem : Bool) (h : extract excl true tracks = some (rows, rem)) :
    rows.Perm ((tracks.filter (keep excl)).map (specRowOm excl tracks)) := by
  unfold extract at h
  split at h
  · exact absurd h (by simp)
  · rename_i parts hparts
    simp only [Option.some.injEq, Prod.mk.injEq] at h
    have hm := (allSome_eq_some _ _).1 hparts
    have hflat : parts.flatMap (fun p => p.1)
        = (tracksByKymo tracks).flatMap (fun G => (G.filter (keep excl)).map (specRowOm excl tracks)) := by
      refine flatMap_of_map_eq _ _ _ _ parts hm ?_
      intro G hG p hp
      obtain ⟨k, g0, gs, hGk, hGc⟩ := mem_tracksByKymo tracks G hG
      obtain ⟨rows', rem'⟩ := p
      have hrows := extractGroup_rows_om excl g0 gs rows' rem' (by rw [← hGc]; exact hp)
      show rows' = _
      rw [hrows, ← hGc]
      refine List.map_congr_left fun t ht => ?_
      have htm : t ∈ tracks.filter (fun t => decide (t.kymo = k)) := by
        rw [← hGk]; exact List.mem_of_mem_filter ht
      have hg0 : g0 ∈ tracks.filter (fun t => decide (t.kymo = k)) := by
        rw [← hGk, hGc]; exact List.mem_cons_self ..
      obtain ⟨ht1, ht2⟩ := List.mem_filter.1 htm
      obtain ⟨hg1, hg2⟩ := List.mem_filter.1 hg0
      simp only [decide_eq_true_eq] at ht2 hg2
      have hgeo := hc t ht1 g0 hg1 (by rw [ht2, hg2])
      simp only [specRowOm, groupMin, hgeo.1, hgeo.2, ht2, ← hGk]
    rw [← h.1, hflat]
    unfold tracksByKymo
    rw [List.flatMap_map]
    have hcomm : (fun k => ((tracks.filter (fun t => decide (t.kymo = k))).filter (keep excl)).map (specRowOm excl tracks))
        = fun k => ((tracks.filter (keep excl)).filter (fun t => decide (t.kymo = k))).map (specRowOm excl tracks) := by
      funext k
      rw [List.filter_filter, List.filter_filter]
      congr 1
      exact List.filter_congr fun t _ => Bool.and_comm _ _
    rw [hcomm, ← List.map_flatMap]
    refine (perm_flatMap_filter_key (·.kymo) _ (nodup_uniqFirst _) _ ?_).map _
    intro t ht
    exact (mem_uniqFirst _ _).2 (List.mem_map.2 ⟨t, List.mem_of_mem_filter ht, rfl⟩)

/-- `groupMin` is attained by a kept track of the same kymograph and is below every such track's dwell time -/
theorem groupMin_least (excl : Bool) (tracks : List Track) (t : Track) (ht : t ∈ tracks) (hk : keep excl t = true) :
    (∃ u ∈ tracks, u.kymo = t.kymo ∧ keep excl u = true ∧ groupMin excl tracks t.kymo = specDuration u)
    ∧ ∀ u ∈ tracks, u.kymo = t.kymo → keep excl u = true → groupMin excl tracks t.kymo ≤ specDuration u := by
  have hmem : ∀ u, u ∈ (tracks.filter fun v => decide (v.kymo = t.kymo)).filter (keep excl)
      ↔ u ∈ tracks ∧ u.kymo = t.kymo ∧ keep excl u = true := by
    intro u
    simp only [List.mem_filter, decide_eq_true_eq, and_assoc]
  have hne : ((tracks.filter fun v => decide (v.kymo = t.kymo)).filter (keep excl)).map specDuration ≠ [] := by
    intro h
    have : t ∈ (tracks.filter fun v => decide (v.kymo = t.kymo)).filter (keep excl) := (hmem t).2 ⟨ht, rfl, hk⟩
    rw [List.map_eq_nil_iff] at h
    rw [h] at this
    simp at this
  obtain ⟨h1, h2⟩ := minL_spec _ hne
  constructor
  · obtain ⟨u, hu, hd⟩ := List.mem_map.1 h1
    obtain ⟨a, b, c⟩ := (hmem u).1 hu
    exact ⟨u, a, b, c, hd.symm⟩
  · intro u hu hku hkeep
    exact h2 _ (List.mem_map.2 ⟨u, (hmem u).2 ⟨hu, hku, hkeep⟩, rfl⟩)

theorem extract_om_ne_none (excl : Bool) (tracks : List Track) : extract excl true tracks ≠ none := by
  unfold extract
  split
  · rename_i h
    obtain ⟨G, _, hG⟩ := List.mem_map.1 ((allSome_eq_none _).1 h)
    have := extractGroup_om_isSome excl G
    rw [hG] at this
    simp at this
  · simp

/-! ## `_exponential_mle_optimize`: boolean-mask assignment and selection -/

theorem scatter_length {β : Type} : ∀ (ps : List β) (fs : List Bool) (xs : List β),
    (scatter ps fs xs).length = ps.length
  | [], _, _ => by simp [scatter]
  | _ :: _, [], _ => by simp [scatter]
  | p :: ps, false :: fs, xs => by simp [scatter, scatter_length ps fs xs]
  | p :: ps, true :: fs, [] => by simp [scatter, scatter_length ps fs []]
  | _ :: ps, true :: fs, x :: xs => by simp [scatter, scatter_length ps fs xs]

/-- selection after assignment gives back what was assigned: the optimiser's answer sits in the fitted slots -/
theorem gather_scatter {β : Type} : ∀ (ps : List β) (fs : List Bool) (xs : List β),
    fs.length = ps.length → xs.length = fs.count true → gather (scatter ps fs xs) fs = xs
  | [], [], xs, _, hx => by
    have : xs = [] := List.length_eq_zero_iff.1 (by simpa using hx)
    simp [scatter, gather, this]
  | [], _ :: _, _, hl, _ => by simp at hl
  | _ :: _, [], _, hl, _ => by simp at hl
  | p :: ps, false :: fs, xs, hl, hx => by
    simp only [scatter, gather]
    exact gather_scatter ps fs xs (by simpa using hl) (by simpa using hx)
  | p :: ps, true :: fs, [], _, hx => by simp at hx
  | _ :: ps, true :: fs, x :: xs, hl, hx => by
    simp only [scatter, gather, List.cons.injEq, true_and]
    exact gather_scatter ps fs xs (by simpa using hl) (by simpa using hx)

/-- assignment of the selection changes nothing: the start vector handed to the optimiser reproduces the initial guess -/
theorem scatter_gather {β : Type} : ∀ (ps : List β) (fs : List Bool), scatter ps fs (gather ps fs) = ps
  | [], _ => by simp [scatter]
  | _ :: _, [] => by simp [scatter]
  | p :: ps, false :: fs => by simp [scatter, gather, scatter_gather ps fs]
  | p :: ps, true :: fs => by simp [scatter, gather, scatter_gather ps fs]

/-- a parameter that is not fitted keeps its value whatever the optimiser answers -/
theorem scatter_fixed {β : Type} : ∀ (ps : List β) (fs : List Bool) (xs : List β) (i : Nat),
    fs.getD i false = false → (scatter ps fs xs)[i]? = ps[i]?
  | [], _, _, _, _ => by simp [scatter]
  | _ :: _, [], _, _, _ => by simp [scatter]
  | p :: ps, false :: fs, xs, 0, _ => by simp [scatter]
  | p :: ps, false :: fs, xs, i + 1, h => by
    simp only [scatter, List.getElem?_cons_succ]
    exact scatter_fixed ps fs xs i (by simpa using h)
  | p :: ps, true :: fs, [], 0, h => by simp at h
  | p :: ps, true :: fs, [], i + 1, h => by
    simp only [scatter, List.getElem?_cons_succ]
    exact scatter_fixed ps fs [] i (by simpa using h)
  | _ :: ps, true :: fs, x :: xs, 0, h => by simp at h
  | _ :: ps, true :: fs, x :: xs, i + 1, h => by
    simp only [scatter, List.getElem?_cons_succ]
    exact scatter_fixed ps fs xs i (by simpa using h)

theorem take_scatter_of_countTrue_zero : ∀ (n : Nat) (ps : List Rat) (fs : List Bool) (xs : List Rat),
    countTrue n fs = 0 → (scatter ps fs xs).take n = ps.take n
  | 0, _, _, _, _ => by simp
  | _ + 1, [], _, _, _ => by simp [scatter]
  | _ + 1, _ :: _, [], _, _ => by simp [scatter]
  | n + 1, p :: ps, false :: fs, xs, h => by
    simp only [scatter, List.take_succ_cons, List.cons.injEq, true_and]
    exact take_scatter_of_countTrue_zero n ps fs xs (by simpa [countTrue] using h)
  | n + 1, p :: ps, true :: fs, xs, h => by simp [countTrue] at h

theorem fixFree_length : ∀ (n : Nat) (ps : List Rat) (fs : List Bool) (v : Rat),
    (fixFree n ps fs v).1.length = ps.length ∧ (fixFree n ps fs v).2.length = fs.length
  | 0, _, _, _ => by simp [fixFree]
  | _ + 1, [], _, _ => by simp [fixFree]
  | _ + 1, _ :: _, [], _ => by simp [fixFree]
  | n + 1, p :: ps, f :: fs, v => by
    obtain ⟨h1, h2⟩ := fixFree_length n ps fs v
    cases f <;> simp [fixFree, h1, h2]

/-! ## one component under the lifetime bounds: the profile likelihood is unimodal -/

/-- the profile `−n log τ − S/τ` increases up to `S/n` -/
theorem profile_mono_left (n S t1 t2 : ℝ) (hn : 0 < n) (h1 : 0 < t1) (h12 : t1 ≤ t2) (h2 : t2 ≤ S / n) :
    -(n * Real.log t1) - S / t1 ≤ -(n * Real.log t2) - S / t2 := by
  have ht2 : 0 < t2 := lt_of_lt_of_le h1 h12
  have hS : n * t2 ≤ S := by rwa [le_div_iff₀ hn, mul_comm] at h2
  have hlog : Real.log t2 - Real.log t1 ≤ t2 / t1 - 1 := by
    rw [← Real.log_div ht2.ne' h1.ne']
    exact Real.log_le_sub_one_of_pos (div_pos ht2 h1)
  have hkey : n * (t2 / t1 - 1) ≤ S / t1 - S / t2 := by
    have : S / t1 - S / t2 - n * (t2 / t1 - 1) = (S - n * t2) * (t2 - t1) / (t1 * t2) := by
      field_simp
    have hnn : 0 ≤ (S - n * t2) * (t2 - t1) / (t1 * t2) :=
      div_nonneg (mul_nonneg (by linarith) (by linarith)) (mul_pos h1 ht2).le
    linarith
  nlinarith [mul_le_mul_of_nonneg_left hlog hn.le]

/-- ... and decreases from `S/n` on -/
theorem profile_mono_right (n S t1 t2 : ℝ) (hn : 0 < n) (h1 : 0 < t1) (h12 : t1 ≤ t2) (h0 : S / n ≤ t1) :
    -(n * Real.log t2) - S / t2 ≤ -(n * Real.log t1) - S / t1 := by
  have ht2 : 0 < t2 := lt_of_lt_of_le h1 h12
  have hS : S ≤ n * t1 := by rwa [div_le_iff₀ hn, mul_comm] at h0
  have hlog : Real.log t1 - Real.log t2 ≤ t1 / t2 - 1 := by
    rw [← Real.log_div h1.ne' ht2.ne']
    exact Real.log_le_sub_one_of_pos (div_pos h1 ht2)
  have hkey : S / t1 - S / t2 ≤ n * (1 - t1 / t2) := by
    have : n * (1 - t1 / t2) - (S / t1 - S / t2) = (n * t1 - S) * (t2 - t1) / (t1 * t2) := by
      field_simp
    have hnn : 0 ≤ (n * t1 - S) * (t2 - t1) / (t1 * t2) :=
      div_nonneg (mul_nonneg (by linarith) (by linarith)) (mul_pos h1 ht2).le
    linarith
  nlinarith [mul_le_mul_of_nonneg_left hlog hn.le]

/-- over a search interval `[lo, hi]` the profile is maximal at the closed form clipped to the interval -/
theorem profile_max_clamped (n S lo hi tau : ℝ) (hn : 0 < n) (hS : 0 < S) (hlo : 0 < lo) (hlh : lo ≤ hi)
    (h1 : lo ≤ tau) (h2 : tau ≤ hi) :
    -(n * Real.log tau) - S / tau
      ≤ -(n * Real.log (max lo (min hi (S / n)))) - S / (max lo (min hi (S / n))) := by
  have ht : 0 < tau := lt_of_lt_of_le hlo h1
  by_cases ha : S / n < lo
  · have : max lo (min hi (S / n)) = lo := by
      rw [min_eq_right (by linarith), max_eq_left ha.le]
    rw [this]
    exact profile_mono_right n S lo tau hn hlo h1 ha.le
  · have ha' : lo ≤ S / n := not_lt.1 ha
    by_cases hb : hi < S / n
    · have : max lo (min hi (S / n)) = hi := by
        rw [min_eq_left hb.le, max_eq_right hlh]
      rw [this]
      exact profile_mono_left n S tau hi hn ht h2 hb.le
    · have hb' : S / n ≤ hi := not_lt.1 hb
      have : max lo (min hi (S / n)) = S / n := by
        rw [min_eq_right hb', max_eq_right ha']
      rw [this]
      exact (profile_max n S tau hn hS ht).1

/-! ## the default initial guess -/

theorem sum_map_mul_div (l : List Rat) (c S : Rat) : (l.map fun f => c * f / S).sum = c * l.sum / S := by
  induction l with
  | nil => simp
  | cons x xs ih => simp only [List.map_cons, List.sum_cons, ih]; ring

theorem fractions_sum_pos : ∀ n : Nat, 0 < (((List.range (n + 1)).map fun k => ((k + 1 : Nat) : Rat))).sum
  | 0 => by simp
  | n + 1 => by
    rw [List.range_succ, List.map_append, List.sum_append]
    have := fractions_sum_pos n
    have h2 : (0 : Rat) < ((n + 1 + 1 : Nat) : Rat) := by exact_mod_cast Nat.succ_pos _
    simp only [List.map_cons, List.map_nil, List.sum_cons, List.sum_nil, add_zero]
    linarith

theorem defaultGuess_spec' (n : Nat) (hn : 1 ≤ n) (m : Rat) :
    (defaultGuess n m).length = 2 * n
    ∧ ((defaultGuess n m).take n).sum = 1
    ∧ ((defaultGuess n m).drop n).sum / (n : Rat) = m := by
  obtain ⟨k, rfl⟩ : ∃ k, n = k + 1 := ⟨n - 1, by omega⟩
  have hS := fractions_sum_pos k
  have hn0 : ((k + 1 : Nat) : Rat) ≠ 0 := by exact_mod_cast Nat.succ_ne_zero k
  unfold defaultGuess
  simp only
  refine ⟨by simp; omega, ?_, ?_⟩
  · rw [List.take_left' (by simp)]
    rw [List.sum_replicate, nsmul_eq_mul]
    field_simp
  · rw [List.drop_left' (by simp), sum_map_mul_div]
    have := hS.ne'
    field_simp

theorem ampSum_all_free : ∀ (n : Nat) (ps : List Rat) (k : Nat), ampSum n ps (List.replicate k false) = 0
  | 0, _, _ => by simp [ampSum]
  | _ + 1, [], _ => by simp [ampSum]
  | _ + 1, _ :: _, 0 => by simp [ampSum]
  | n + 1, p :: ps, k + 1 => by
    simp only [List.replicate_succ, ampSum, Bool.false_eq_true, if_false, zero_add]
    exact ampSum_all_free n ps k

theorem countTrue_all : ∀ (n k : Nat), n ≤ k → countTrue n (List.replicate k true) = n
  | 0, _, _ => by simp [countTrue]
  | n + 1, 0, h => by omega
  | n + 1, k + 1, h => by
    simp only [List.replicate_succ, countTrue, if_true]
    rw [countTrue_all n k (by omega)]; omega

/-- the default guess is always accepted by `_handle_amplitude_constraint` when no parameter is fixed -/
theorem default_guess_accepted' (n : Nat) (hn : 1 ≤ n) (m : Rat) :
    (handleConstraint n (defaultGuess n m) none).isSome = true := by
  obtain ⟨hlen, _, _⟩ := defaultGuess_spec' n hn m
  unfold handleConstraint
  simp only [fixedOf, List.length_replicate, ne_eq, not_true_eq_false, if_false, hlen, ampSum_all_free,
    List.map_replicate, Bool.not_false, countTrue_all n (2 * n) (by omega)]
  have h01 : ¬ ((1 : Rat) < 0) := by norm_num
  simp only [h01, if_false]
  by_cases h1 : n = 1
  · subst h1
    have : allcloseOne 1 = true := by decide +kernel
    simp [this]
  · have h0 : n ≠ 0 := by omega
    simp [h1, h0]

/-! ## when `_handle_amplitude_constraint` refuses -/

theorem allcloseOne_one : allcloseOne 1 = true := by decide +kernel

theorem allcloseOne_iff (s : Rat) : allcloseOne s = true ↔ |s - 1| ≤ (11 : Rat) / 1000000 := by
  unfold allcloseOne
  simp only [decide_eq_true_eq]
  by_cases h : s - 1 < 0
  · rw [if_pos h, abs_of_neg h]; constructor <;> intro h' <;> linarith
  · rw [if_neg h, abs_of_nonneg (not_lt.1 h)]

theorem handleConstraint_none_iff (n : Nat) (params : List Rat) (mask : Option (List Bool)) :
    handleConstraint n params mask = none ↔
      ((fixedOf params mask).length ≠ params.length ∨ params.length ≠ 2 * n
        ∨ 1 < ampSum n params (fixedOf params mask)
        ∨ (countTrue n ((fixedOf params mask).map (!·)) = 0
            ∧ (11 : Rat) / 1000000 < |ampSum n params (fixedOf params mask) - 1|)) := by
  unfold handleConstraint
  simp only
  by_cases h1 : (fixedOf params mask).length ≠ params.length
  · simp [h1]
  · by_cases h2 : params.length ≠ 2 * n
    · simp [h1, h2]
    · by_cases h3 : 1 < ampSum n params (fixedOf params mask)
      · simp [h1, h2, h3]
      · rw [if_neg h1, if_neg h2, if_neg h3]
        by_cases h4 : countTrue n ((fixedOf params mask).map (!·)) = 1
        · have hone : ampSum n params (fixedOf params mask) + (1 - ampSum n params (fixedOf params mask)) = 1 := by
            ring
          rw [if_pos h4, hone, if_pos allcloseOne_one]
          simp [h1, h2, h3, h4]
        · rw [if_neg h4]
          have hac := allcloseOne_iff (ampSum n params (fixedOf params mask))
          by_cases h5 : countTrue n ((fixedOf params mask).map (!·)) = 0
          · by_cases h6 : allcloseOne (ampSum n params (fixedOf params mask)) = true
            · have := hac.1 h6
              simp only [h5, h6, not_true_eq_false, and_false, if_false]
              simp only [h1, h2, h3, false_or, true_and]
              constructor
              · intro h; cases h
              · intro h; linarith
            · have : (11 : Rat) / 1000000 < |ampSum n params (fixedOf params mask) - 1| := by
                by_contra hc
                exact h6 (hac.2 (not_lt.1 hc))
              simp [h1, h2, h3, h5, h6, this]
          · simp [h1, h2, h3, h5]

/-! ## `fit_binding_times` in front of the model -/

theorem fitBindingTimes_ok (nComp : Nat) (excl : Bool) (om disc : Option Bool) (tracks : List Track) (c : FitCall)
    (h : fitBindingTimes nComp excl om disc tracks = .ok c) :
    tracks ≠ [] ∧ (nComp = 1 ∨ nComp = 2) ∧ c.rows ≠ []
    ∧ extract excl (om.getD true) tracks = some (c.rows, c.removedZeros)
    ∧ c.observedMin = om.getD true ∧ c.stepHanded = disc.getD false
    ∧ c.warnObservedMin = om.isNone ∧ c.warnDiscrete = disc.isNone := by
  unfold fitBindingTimes at h
  split at h
  · cases h
  · rename_i hne
    simp only at h
    split at h
    · cases h
    · rename_i hn
      split at h
      · cases h
      · split at h
        · cases h
        · rename_i rows removed hext
          split at h
          · cases h
          · rename_i hrows
            simp only [Except.ok.injEq] at h
            subst h
            exact ⟨hne, by omega, hrows, hext, rfl, rfl, rfl, rfl⟩

theorem fitBindingTimes_defaults (nComp : Nat) (excl : Bool) (tracks : List Track) :
    fitBindingTimes nComp excl none none tracks
      = (fitBindingTimes nComp excl (some true) (some false) tracks).map
          fun c => { c with warnObservedMin := true, warnDiscrete := true } := by
  unfold fitBindingTimes
  simp only [Option.getD_none, Option.getD_some, Option.isNone_none, Option.isNone_some]
  split
  · rfl
  · split
    · rfl
    · split
      · rfl
      · split
        · rfl
        · split <;> rfl

/-! ## strengthening round H: the extraction function handed any list of groups -/

theorem uniqFirst_const_length (k : Nat) : ∀ l : List Nat, (∀ x ∈ l, x = k) → (uniqFirst l).length ≤ 1 := by
  intro l h
  cases l with
  | nil => simp [uniqFirst]
  | cons x xs =>
    have hx : x = k := h x (by simp)
    have : (uniqFirst xs).filter (· ≠ x) = [] := by
      rw [List.filter_eq_nil_iff]
      intro a ha
      have : a = k := h a (List.mem_cons_of_mem _ ((mem_uniqFirst a xs).1 ha))
      simp [this, hx]
    show (x :: (uniqFirst xs).filter (· ≠ x)).length ≤ 1
    rw [this]; simp

/-- a group of the per-kymograph split lies on one kymograph: the refusal never fires behind `fit_binding_times` -/
theorem tracksByKymo_not_mixed (tracks G : List Track) (hG : G ∈ tracksByKymo tracks) : mixed G = false := by
  obtain ⟨k, _, _, hGk, _⟩ := mem_tracksByKymo tracks G hG
  have : (groupKymos G).length ≤ 1 := by
    unfold groupKymos
    refine uniqFirst_const_length k _ ?_
    intro x hx
    obtain ⟨t, ht, rfl⟩ := List.mem_map.1 hx
    rw [hGk] at ht
    simpa using (List.mem_filter.1 ht).2
  simp only [mixed, decide_eq_false_iff_not]
  omega

theorem firstErrorGroups_eq_of_not_mixed (excl om : Bool) :
    ∀ gs : List (List Track), (∀ G ∈ gs, mixed G = false) → firstErrorGroups excl om gs = firstError excl om gs := by
  intro gs
  induction gs with
  | nil => intro _; rfl
  | cons g gs ih =>
    intro h
    have hg : mixed g = false := h g (by simp)
    simp only [firstErrorGroups, firstError, hg, Bool.false_eq_true, if_false]
    rw [ih (fun G hG => h G (List.mem_cons_of_mem _ hG))]

/-- handed the per-kymograph split, the general function is the extraction `fit_binding_times` relies on -/
theorem extractGroups_tracksByKymo (excl om : Bool) (tracks : List Track) :
    extractGroups excl om (tracksByKymo tracks)
      = match firstError excl om (tracksByKymo tracks) with
        | some e => .error e
        | none => match extract excl om tracks with
          | none => .error "RuntimeError"
          | some r => .ok r := by
  unfold extractGroups extract
  rw [firstErrorGroups_eq_of_not_mixed excl om _ (tracksByKymo_not_mixed tracks)]
  cases firstError excl om (tracksByKymo tracks) with
  | some e => rfl
  | none =>
    cases allSome ((tracksByKymo tracks).map (extractGroup excl om)) <;> rfl

/-- a group over two or more kymographs is refused, whatever else the list holds before it would be reached or not:
    the answer is never a table of rows -/
theorem extractGroups_refuses_mixed (excl om : Bool) (groups : List (List Track))
    (h : ∃ G ∈ groups, mixed G = true) : ∃ e, extractGroups excl om groups = .error e := by
  have : ∃ e, firstErrorGroups excl om groups = some e := by
    induction groups with
    | nil => obtain ⟨G, hG, _⟩ := h; simp at hG
    | cons g gs ih =>
      simp only [firstErrorGroups]
      split
      · exact ⟨_, rfl⟩
      · split
        · exact ⟨_, rfl⟩
        · split
          · exact ⟨_, rfl⟩
          · rename_i hm _ _
            apply ih
            obtain ⟨G, hG, hmix⟩ := h
            rcases List.mem_cons.1 hG with rfl | hG
            · exact absurd hmix hm
            · exact ⟨G, hG, hmix⟩
  obtain ⟨e, he⟩ := this
  exact ⟨e, by unfold extractGroups; rw [he]⟩

end Verif.C15
