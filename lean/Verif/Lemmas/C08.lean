/-
  C08 — helper lemmas for the greedy linker, the window sum and the rectangle.
-/
import Verif.Model.C08
import Mathlib.Tactic.Linarith
import Mathlib.Tactic.Ring
import Mathlib.Tactic.FieldSimp
import Mathlib.Algebra.Order.Field.Basic
import Mathlib.Algebra.Order.Field.Rat

namespace Verif.C08
open Verif.Py

/-! ### flags -/

theorem isUn_assign (un : List (List Bool)) (f j f' j' : Nat) :
    isUn (assign un f j) f' j' = (isUn un f' j' && !(decide (f' = f ∧ j' = j))) := by
  unfold isUn assign
  simp only [List.getD_eq_getElem?_getD, List.getElem?_modify]
  by_cases hf : f = f'
  · subst hf
    cases h : un[f]? with
    | none => simp
    | some fr =>
      simp only [Option.map_eq_map, Option.map_some, if_true, Option.getD_some, List.getElem?_set]
      by_cases hj : j = j'
      · subst hj
        by_cases hl : j < fr.length
        · simp [hl]
        · simp [hl]
      · have : ¬ (j' = j) := fun h => hj h.symm
        simp [hj, this]
  · have : ¬ (f' = f) := fun h => hf h.symm
    cases h : un[f']? <;> simp [hf, this]

theorem isUn_assign_self (un : List (List Bool)) (f j : Nat) : isUn (assign un f j) f j = false := by
  rw [isUn_assign]; simp

theorem isUn_assign_mono (un : List (List Bool)) (f j f' j' : Nat)
    (h : isUn (assign un f j) f' j' = true) : isUn un f' j' = true := by
  rw [isUn_assign] at h; simp at h; exact h.1

theorem isUn_allUn {P} (peaks : List (List P)) (f j : Nat) :
    isUn (allUn peaks) f j = (peakAt peaks (f, j)).isSome := by
  unfold isUn allUn peakAt
  simp only [List.getD_eq_getElem?_getD, List.getElem?_map]
  cases h : peaks[f]? with
  | none => simp
  | some fr =>
    simp only [Option.map_some, Option.getD_some, List.getElem?_map]
    cases h2 : fr[j]? <;> simp

/-! ### candidates / argmax -/

theorem mem_candidates {P} (frP : List P) (frU : List Bool) (j : Nat) (p : P) :
    (j, p) ∈ candidates frP frU ↔ frP[j]? = some p ∧ frU.getD j false = true := by
  unfold candidates
  simp only [List.mem_map, List.mem_filter, List.mem_zipIdx_iff_getElem?, Prod.exists, Prod.mk.injEq]
  constructor
  · rintro ⟨a, b, ⟨h1, h2⟩, rfl, rfl⟩
    exact ⟨h1, h2⟩
  · rintro ⟨h1, h2⟩
    exact ⟨p, j, ⟨h1, h2⟩, rfl, rfl⟩

theorem argmaxFirst_mem {P α} (gt : α → α → Bool) :
    ∀ (l : List (Nat × P × Option α)) (best r : Option (Nat × P × α)),
      argmaxFirst gt l best = r → ∀ j p s, r = some (j, p, s) →
        best = some (j, p, s) ∨ (j, p, some s) ∈ l := by
  intro l
  induction l with
  | nil => intro best r h j p s hr; left; simp [argmaxFirst] at h; rw [h, hr]
  | cons x xs ih =>
    intro best r h j p s hr
    obtain ⟨xj, xp, xs'⟩ := x
    cases xs' with
    | none =>
      simp only [argmaxFirst] at h
      rcases ih best r h j p s hr with h1 | h1
      · left; exact h1
      · right; exact List.mem_cons_of_mem _ h1
    | some sc =>
      cases best with
      | none =>
        simp only [argmaxFirst] at h
        rcases ih _ r h j p s hr with h1 | h1
        · right; simp only [Option.some.injEq, Prod.mk.injEq] at h1
          obtain ⟨rfl, rfl, rfl⟩ := h1; exact List.mem_cons_self
        · right; exact List.mem_cons_of_mem _ h1
      | some b =>
        obtain ⟨bj, bp, bs⟩ := b
        simp only [argmaxFirst] at h
        split at h
        · rcases ih _ r h j p s hr with h1 | h1
          · right; simp only [Option.some.injEq, Prod.mk.injEq] at h1
            obtain ⟨rfl, rfl, rfl⟩ := h1; exact List.mem_cons_self
          · right; exact List.mem_cons_of_mem _ h1
        · rcases ih _ r h j p s hr with h1 | h1
          · left; exact h1
          · right; exact List.mem_cons_of_mem _ h1

theorem appendNext_some {P α κ} (pr : Params P α κ) (tipF : Nat) (tip : P) (fi : Nat) (frP : List P)
    (frU : List Bool) (j : Nat) (p : P) (s : α)
    (h : appendNext pr tipF tip fi frP frU = some (j, p, s)) :
    frP[j]? = some p ∧ frU.getD j false = true ∧ pr.score tipF tip fi p = some s := by
  unfold appendNext at h
  rcases argmaxFirst_mem pr.gt _ none _ h j p s rfl with h1 | h1
  · cases h1
  · simp only [List.mem_map, Prod.mk.injEq, Prod.exists] at h1
    obtain ⟨a, b, hm, rfl, rfl, hs⟩ := h1
    have := (mem_candidates frP frU a b).1 hm
    exact ⟨this.1, this.2, hs⟩

theorem argmaxFirst_best {P α} (gt : α → α → Bool)
    (asymm : ∀ a b, gt a b = true → gt b a = false)
    (ntrans : ∀ a b c, gt a b = false → gt b c = false → gt a c = false) :
    ∀ (l : List (Nat × P × Option α)) (best : Option (Nat × P × α)) (j : Nat) (p : P) (s : α),
      argmaxFirst gt l best = some (j, p, s) →
      (∀ b, best = some b → gt b.2.2 s = false) ∧ (∀ x ∈ l, ∀ s', x.2.2 = some s' → gt s' s = false) := by
  have irrefl : ∀ a, gt a a = false := by
    intro a
    cases h : gt a a with
    | false => rfl
    | true => have := asymm a a h; rw [h] at this; cases this
  intro l
  induction l with
  | nil =>
    intro best j p s h
    simp only [argmaxFirst] at h
    refine ⟨?_, by simp⟩
    intro b hb
    rw [h] at hb; cases hb
    exact irrefl s
  | cons x xs ih =>
    intro best j p s h
    obtain ⟨xj, xp, xsc⟩ := x
    cases xsc with
    | none =>
      simp only [argmaxFirst] at h
      obtain ⟨h1, h2⟩ := ih best j p s h
      refine ⟨h1, ?_⟩
      intro y hy s' hs'
      rcases List.mem_cons.1 hy with rfl | hy
      · cases hs'
      · exact h2 y hy s' hs'
    | some sc =>
      cases best with
      | none =>
        simp only [argmaxFirst] at h
        obtain ⟨h1, h2⟩ := ih _ j p s h
        refine ⟨(by intro b hb; cases hb), ?_⟩
        intro y hy s' hs'
        rcases List.mem_cons.1 hy with rfl | hy
        · cases hs'; exact h1 _ rfl
        · exact h2 y hy s' hs'
      | some b =>
        obtain ⟨bj, bp, bs⟩ := b
        simp only [argmaxFirst] at h
        split at h
        · rename_i hg
          obtain ⟨h1, h2⟩ := ih _ j p s h
          have e1 : gt sc s = false := h1 _ rfl
          refine ⟨?_, ?_⟩
          · intro b hb; cases hb
            exact ntrans _ _ _ (asymm _ _ hg) e1
          · intro y hy s' hs'
            rcases List.mem_cons.1 hy with rfl | hy
            · cases hs'; exact e1
            · exact h2 y hy s' hs'
        · rename_i hg
          obtain ⟨h1, h2⟩ := ih _ j p s h
          have e1 : gt bs s = false := h1 _ rfl
          refine ⟨?_, ?_⟩
          · intro b hb; cases hb; exact e1
          · intro y hy s' hs'
            rcases List.mem_cons.1 hy with rfl | hy
            · cases hs'
              exact ntrans _ _ _ (by simpa using hg) e1
            · exact h2 y hy s' hs'

theorem argmaxFirst_none {P α} (gt : α → α → Bool) :
    ∀ (l : List (Nat × P × Option α)) (best : Option (Nat × P × α)),
      argmaxFirst gt l best = none → best = none ∧ ∀ x ∈ l, x.2.2 = none := by
  intro l
  induction l with
  | nil => intro best h; simp only [argmaxFirst] at h; exact ⟨h, by simp⟩
  | cons x xs ih =>
    intro best h
    obtain ⟨xj, xp, xsc⟩ := x
    cases xsc with
    | none =>
      simp only [argmaxFirst] at h
      obtain ⟨h1, h2⟩ := ih best h
      refine ⟨h1, ?_⟩
      intro y hy
      rcases List.mem_cons.1 hy with rfl | hy
      · rfl
      · exact h2 y hy
    | some sc =>
      cases best with
      | none =>
        simp only [argmaxFirst] at h
        have := (ih _ h).1
        cases this
      | some b =>
        obtain ⟨bj, bp, bs⟩ := b
        simp only [argmaxFirst] at h
        split at h
        · have := (ih _ h).1; cases this
        · have := (ih _ h).1; cases this

/-! ### extend_line -/

/-- what the linker guarantees about two consecutive points `a` (earlier), `b` (later) of a track -/
def LinkOK {P α κ} (pr : Params P α κ) (peaks : List (List P)) (a b : Node) : Prop :=
  a.1 < b.1 ∧ ((b.1 : Int) - (a.1 : Int) ≤ max pr.window 1) ∧
  ∃ p q s, peakAt peaks a = some p ∧ peakAt peaks b = some q ∧ pr.score a.1 p b.1 q = some s

/-- chain condition on a latest-first list -/
def ChainR (R : Node → Node → Prop) : List Node → Prop
  | [] => True
  | [_] => True
  | b :: a :: rest => R a b ∧ ChainR R (a :: rest)

theorem peakAt_of_getD {P} (peaks : List (List P)) (fi j : Nat) (p : P)
    (h : (peaks.getD fi [])[j]? = some p) : peakAt peaks (fi, j) = some p := h

theorem extend_spec {P α κ} (pr : Params P α κ) (peaks : List (List P)) :
    ∀ (fis : List Nat) (un : List (List Bool)) (tipF : Nat) (tip : P) (miss : Int) (rest : List Node)
      (tipJ a k : Nat),
      fis = List.range' a k → (a : Int) = tipF + 1 + miss → 0 ≤ miss → (miss = 0 ∨ miss < pr.window) →
      peakAt peaks (tipF, tipJ) = some tip →
      ChainR (LinkOK pr peaks) ((tipF, tipJ) :: rest) →
      ∃ new : List Node,
        (extend pr peaks fis un tipF tip miss ((tipF, tipJ) :: rest)).2 = new ++ (tipF, tipJ) :: rest ∧
        new.Nodup ∧
        (∀ n ∈ new, isUn un n.1 n.2 = true ∧ (peakAt peaks n).isSome) ∧
        (∀ f j, isUn (extend pr peaks fis un tipF tip miss ((tipF, tipJ) :: rest)).1 f j
            = (isUn un f j && !decide ((f, j) ∈ new))) ∧
        ChainR (LinkOK pr peaks) (new ++ (tipF, tipJ) :: rest) := by
  intro fis
  induction fis with
  | nil =>
    intro un tipF tip miss rest tipJ a k _ _ _ _ _ hc
    exact ⟨[], by simp [extend], List.nodup_nil, by simp, by simp [extend], by simpa using hc⟩
  | cons fi fis ih =>
    intro un tipF tip miss rest tipJ a k hf ha hm hw htip hc
    cases k with
    | zero => simp at hf
    | succ k' =>
      rw [List.range'_succ] at hf
      simp only [List.cons.injEq] at hf
      obtain ⟨rfl, hf⟩ := hf
      simp only [extend]
      split
      · rename_i j p s hap
        obtain ⟨hp, hu, hs⟩ := appendNext_some pr tipF tip fi _ _ j p s hap
        have hpk : peakAt peaks (fi, j) = some p := hp
        have hun : isUn un fi j = true := hu
        have hlink : LinkOK pr peaks (tipF, tipJ) (fi, j) := by
          refine ⟨by simp only; omega, by simp only; omega, tip, p, s, htip, hpk, hs⟩
        have hc' : ChainR (LinkOK pr peaks) ((fi, j) :: (tipF, tipJ) :: rest) := ⟨hlink, hc⟩
        split
        · refine ⟨[(fi, j)], by simp, by simp, ?_, ?_, by simpa using hc'⟩
          · intro n hn; simp only [List.mem_singleton] at hn; subst hn; exact ⟨hun, by simp [hpk]⟩
          · intro f j'; rw [isUn_assign]; simp
        · obtain ⟨new', h1, h2, h3, h4, h5⟩ :=
            ih (assign un fi j) fi p 0 ((tipF, tipJ) :: rest) j (fi + 1) k' hf (by omega) (by omega)
              (Or.inl rfl) hpk hc'
          refine ⟨new' ++ [(fi, j)], by rw [h1]; simp, ?_, ?_, ?_, by simpa using h5⟩
          · rw [List.nodup_append]
            refine ⟨h2, by simp, ?_⟩
            intro x hx y hy
            simp only [List.mem_singleton] at hy
            subst hy
            intro hxy; subst hxy
            have := (h3 _ hx).1
            rw [isUn_assign_self] at this
            cases this
          · intro n hn
            rcases List.mem_append.1 hn with hn | hn
            · exact ⟨isUn_assign_mono _ _ _ _ _ (h3 n hn).1, (h3 n hn).2⟩
            · simp only [List.mem_singleton] at hn; subst hn; exact ⟨hun, by simp [hpk]⟩
          · intro f j'
            rw [h4, isUn_assign]
            simp only [List.mem_append, List.mem_singleton, Prod.mk.injEq]
            cases isUn un f j' <;> by_cases hx : (f, j') ∈ new' <;> by_cases hy : f = fi ∧ j' = j <;>
              simp [hx, hy]
      · rename_i hap
        split
        · exact ⟨[], by simp, List.nodup_nil, by simp, by simp, by simpa using hc⟩
        · rename_i hw'
          exact ih un tipF tip (miss + 1) rest tipJ (fi + 1) k' hf (by omega) (by omega)
            (Or.inr (by omega)) htip hc

/-! ### the global invariant: "in a finished or growing track" = "flag cleared" -/

def Inv {P} (peaks : List (List P)) (un : List (List Bool)) (nodes : List Node) : Prop :=
  nodes.Nodup ∧ ∀ f j, (f, j) ∈ nodes ↔ (isUn un f j = false ∧ (peakAt peaks (f, j)).isSome)

theorem Inv.add {P} {peaks : List (List P)} {un un' : List (List Bool)} {nodes new : List Node}
    (h : Inv peaks un nodes) (hnd : new.Nodup)
    (hnew : ∀ n ∈ new, isUn un n.1 n.2 = true ∧ (peakAt peaks n).isSome)
    (hfl : ∀ f j, isUn un' f j = (isUn un f j && !decide ((f, j) ∈ new))) :
    Inv peaks un' (new ++ nodes) := by
  refine ⟨?_, ?_⟩
  · rw [List.nodup_append]
    refine ⟨hnd, h.1, ?_⟩
    intro x hx y hy hxy
    subst hxy
    have h1 := (hnew x hx).1
    have h2 := ((h.2 x.1 x.2).1 hy).1
    rw [h1] at h2; cases h2
  · intro f j
    rw [List.mem_append, hfl, h.2]
    by_cases hx : (f, j) ∈ new
    · have := hnew _ hx
      simp [hx, this.2]
    · simp [hx]

theorem Inv.perm {P} {peaks : List (List P)} {un : List (List Bool)} {nodes nodes' : List Node}
    (h : Inv peaks un nodes) (hp : nodes.Perm nodes') : Inv peaks un nodes' :=
  ⟨hp.nodup_iff.1 h.1, fun f j => by rw [← hp.mem_iff]; exact h.2 f j⟩

/-- a finished track (time order): non-empty and every consecutive pair was linked legitimately -/
def Good {P α κ} (pr : Params P α κ) (peaks : List (List P)) (t : List Node) : Prop :=
  t ≠ [] ∧ ChainR (LinkOK pr peaks) t.reverse

/-! ### points_to_line_segments -/

theorem startLoop_spec {P α κ} (pr : Params P α κ) (peaks : List (List P)) (fi : Nat) :
    ∀ (js : List Nat) (un : List (List Bool)) (acc : List (List Node)),
      Inv peaks un acc.flatten → (∀ t ∈ acc, Good pr peaks t) →
      Inv peaks (startLoop pr peaks fi js un acc).1 (startLoop pr peaks fi js un acc).2.flatten ∧
      (∀ t ∈ (startLoop pr peaks fi js un acc).2, Good pr peaks t) ∧
      (∀ f j, isUn (startLoop pr peaks fi js un acc).1 f j = true → isUn un f j = true) ∧
      (∀ j ∈ js, (peakAt peaks (fi, j)).isSome → isUn (startLoop pr peaks fi js un acc).1 fi j = false) := by
  intro js
  induction js with
  | nil => intro un acc hi hg; exact ⟨hi, hg, fun _ _ h => h, by simp⟩
  | cons j js ih =>
    intro un acc hi hg
    simp only [startLoop]
    split
    · rename_i p hp
      have hpk : peakAt peaks (fi, j) = some p := hp
      split
      · rename_i hun
        -- start a new line at (fi, j)
        have hi1 : Inv peaks (assign un fi j) ([(fi, j)] ++ acc.flatten) := by
          refine hi.add (by simp) ?_ ?_
          · intro n hn; simp only [List.mem_singleton] at hn; subst hn; exact ⟨hun, by simp [hpk]⟩
          · intro f j'; rw [isUn_assign]; simp
        obtain ⟨new, h1, h2, h3, h4, h5⟩ :=
          extend_spec pr peaks (List.range' (fi + 1) (peaks.length - (fi + 1))) (assign un fi j) fi p 0 [] j
            (fi + 1) _ rfl (by omega) (by omega) (Or.inl rfl) hpk trivial
        have hi2 := hi1.add h2 (by
            intro n hn
            refine ⟨(h3 n hn).1, (h3 n hn).2⟩) h4
        have hperm : (new ++ ([(fi, j)] ++ acc.flatten)).Perm
            (((extend pr peaks (List.range' (fi + 1) (peaks.length - (fi + 1))) (assign un fi j) fi p 0
              [(fi, j)]).2.reverse :: acc).flatten) := by
          rw [h1, List.flatten_cons, ← List.append_assoc]
          exact ((List.reverse_perm _).symm).append_right _
        have hg' : ∀ t ∈ ((extend pr peaks (List.range' (fi + 1) (peaks.length - (fi + 1))) (assign un fi j) fi p 0
              [(fi, j)]).2.reverse :: acc), Good pr peaks t := by
          intro t ht
          rcases List.mem_cons.1 ht with rfl | ht
          · refine ⟨?_, ?_⟩
            · rw [h1]; simp
            · rw [List.reverse_reverse, h1]; exact h5
          · exact hg t ht
        obtain ⟨r1, r2, r3, r4⟩ := ih _ _ (hi2.perm hperm) hg'
        refine ⟨r1, r2, ?_, ?_⟩
        · intro f j' h
          have := r3 f j' h
          rw [h4] at this
          simp only [Bool.and_eq_true] at this
          exact isUn_assign_mono _ _ _ _ _ this.1
        · intro j' hj' hs
          rcases List.mem_cons.1 hj' with rfl | hj'
          · cases hx : isUn (startLoop pr peaks fi js _ _).1 fi j' with
            | false => rfl
            | true =>
              have := r3 fi j' hx
              rw [h4] at this
              simp only [Bool.and_eq_true] at this
              rw [isUn_assign_self] at this
              cases this.1
          · exact r4 j' hj' hs
      · rename_i hun
        obtain ⟨r1, r2, r3, r4⟩ := ih un acc hi hg
        refine ⟨r1, r2, r3, ?_⟩
        intro j' hj' hs
        rcases List.mem_cons.1 hj' with rfl | hj'
        · cases hx : isUn (startLoop pr peaks fi js un acc).1 fi j' with
          | false => rfl
          | true => exact absurd (r3 fi j' hx) hun
        · exact r4 j' hj' hs
    · rename_i hp
      obtain ⟨r1, r2, r3, r4⟩ := ih un acc hi hg
      refine ⟨r1, r2, r3, ?_⟩
      intro j' hj' hs
      rcases List.mem_cons.1 hj' with rfl | hj'
      · have : peakAt peaks (fi, j') = none := hp
        rw [this] at hs; cases hs
      · exact r4 j' hj' hs

theorem insertBy_perm {β} (le : β → β → Bool) (x : β) : ∀ l : List β, (insertBy le x l).Perm (x :: l) := by
  intro l
  induction l with
  | nil => exact List.Perm.refl _
  | cons y ys ih =>
    simp only [insertBy]
    split
    · exact List.Perm.refl _
    · exact (List.Perm.cons y ih).trans (List.Perm.swap x y ys)

theorem isort_perm {β} (le : β → β → Bool) : ∀ l : List β, (isort le l).Perm l := by
  intro l
  induction l with
  | nil => exact List.Perm.refl _
  | cons x xs ih =>
    exact (insertBy_perm le x _).trans (List.Perm.cons x ih)

theorem insertBy_pairwise {β} (le : β → β → Bool)
    (trans : ∀ a b c, le a b = true → le b c = true → le a c = true)
    (total : ∀ a b, le a b = true ∨ le b a = true) (x : β) :
    ∀ l : List β, l.Pairwise (fun a b => le a b = true) → (insertBy le x l).Pairwise (fun a b => le a b = true) := by
  intro l
  induction l with
  | nil => intro _; simp [insertBy]
  | cons y ys ih =>
    intro h
    simp only [insertBy]
    rw [List.pairwise_cons] at h
    split
    · rename_i hxy
      rw [List.pairwise_cons]
      refine ⟨?_, List.pairwise_cons.2 h⟩
      intro z hz
      rcases List.mem_cons.1 hz with rfl | hz
      · exact hxy
      · exact trans _ _ _ hxy (h.1 z hz)
    · rename_i hxy
      have hyx : le y x = true := by
        rcases total x y with h1 | h1
        · exact absurd h1 hxy
        · exact h1
      rw [List.pairwise_cons]
      refine ⟨?_, ih h.2⟩
      intro z hz
      rcases List.mem_cons.1 ((insertBy_perm le x ys).mem_iff.1 hz) with rfl | hz
      · exact hyx
      · exact h.1 z hz

theorem isort_pairwise {β} (le : β → β → Bool)
    (trans : ∀ a b c, le a b = true → le b c = true → le a c = true)
    (total : ∀ a b, le a b = true ∨ le b a = true) :
    ∀ l : List β, (isort le l).Pairwise (fun a b => le a b = true) := by
  intro l
  induction l with
  | nil => simp [isort]
  | cons x xs ih => exact insertBy_pairwise le trans total x _ ih

theorem argsort_perm {κ} (kle : κ → κ → Bool) (keys : List κ) :
    (argsort kle keys).Perm (List.range keys.length) := by
  unfold argsort
  have h1 := (isort_perm (fun (a b : κ × Nat) => kle a.1 b.1) keys.zipIdx).map (·.2)
  have h2 : keys.zipIdx.map (·.2) = List.range keys.length := by
    rw [List.zipIdx_map_snd, List.range_eq_range']
  rw [h2] at h1
  exact h1

theorem mem_startOrder {P α κ} (pr : Params P α κ) (peaks : List (List P)) (un : List (List Bool))
    (fi j : Nat) (h : (peakAt peaks (fi, j)).isSome) : j ∈ startOrder pr peaks un fi := by
  unfold startOrder
  rw [(argsort_perm _ _).mem_iff, List.mem_range]
  simp only [List.length_map, List.length_zipIdx]
  unfold peakAt at h
  simp only [Option.isSome_iff_exists, List.getElem?_eq_some_iff] at h
  obtain ⟨_, h, _⟩ := h
  exact h

theorem linkFrom_spec {P α κ} (pr : Params P α κ) (peaks : List (List P)) :
    ∀ (fis : List Nat) (un : List (List Bool)) (acc : List (List Node)),
      Inv peaks un acc.flatten → (∀ t ∈ acc, Good pr peaks t) →
      Inv peaks (linkFrom pr peaks fis un acc).1 (linkFrom pr peaks fis un acc).2.flatten ∧
      (∀ t ∈ (linkFrom pr peaks fis un acc).2, Good pr peaks t) ∧
      (∀ f j, isUn (linkFrom pr peaks fis un acc).1 f j = true → isUn un f j = true) ∧
      (∀ fi ∈ fis, ∀ j, (peakAt peaks (fi, j)).isSome → isUn (linkFrom pr peaks fis un acc).1 fi j = false) := by
  intro fis
  induction fis with
  | nil => intro un acc hi hg; exact ⟨hi, hg, fun _ _ h => h, by simp⟩
  | cons fi fis ih =>
    intro un acc hi hg
    simp only [linkFrom]
    obtain ⟨s1, s2, s3, s4⟩ := startLoop_spec pr peaks fi (startOrder pr peaks un fi) un acc hi hg
    obtain ⟨r1, r2, r3, r4⟩ := ih _ _ s1 s2
    refine ⟨r1, r2, fun f j h => s3 f j (r3 f j h), ?_⟩
    intro fi' hfi' j hs
    rcases List.mem_cons.1 hfi' with rfl | hfi'
    · cases hx : isUn (linkFrom pr peaks fis _ _).1 fi' j with
      | false => rfl
      | true =>
        have h1 := r3 fi' j hx
        rw [s4 j (mem_startOrder pr peaks un fi' j hs) hs] at h1
        cases h1
    · exact r4 fi' hfi' j hs

theorem inv_init {P} (peaks : List (List P)) : Inv peaks (allUn peaks) ([] : List (List Node)).flatten := by
  refine ⟨by simp, ?_⟩
  intro f j
  rw [isUn_allUn]
  simp

/-- everything the structural theorems need, about the final answer -/
theorem link_spec {P α κ} (pr : Params P α κ) (peaks : List (List P)) :
    (link pr peaks).flatten.Nodup ∧
    (∀ n : Node, n ∈ (link pr peaks).flatten ↔ (peakAt peaks n).isSome) ∧
    (∀ t ∈ link pr peaks, Good pr peaks t) := by
  obtain ⟨r1, r2, _, r4⟩ := linkFrom_spec pr peaks (List.range peaks.length) (allUn peaks) [] (inv_init peaks)
    (by simp)
  have hperm : (link pr peaks).flatten.Perm (linkFrom pr peaks (List.range peaks.length) (allUn peaks) []).2.flatten :=
    (List.reverse_perm _).flatten
  refine ⟨hperm.nodup_iff.2 r1.1, ?_, ?_⟩
  · intro n
    obtain ⟨f, j⟩ := n
    rw [hperm.mem_iff, r1.2]
    constructor
    · exact fun h => h.2
    · intro hs
      refine ⟨?_, hs⟩
      apply r4 f _ j hs
      rw [List.mem_range]
      unfold peakAt at hs
      simp only [Option.isSome_iff_exists, List.getElem?_eq_some_iff] at hs
      obtain ⟨_, h, _⟩ := hs
      simp only [List.getD_eq_getElem?_getD] at h
      cases hf : peaks[f]? with
      | none => rw [hf] at h; simp at h
      | some fr =>
        have := (List.getElem?_eq_some_iff.1 hf).1
        exact this
  · intro t ht
    exact r2 t (List.mem_reverse.1 ht)

/-! ### the order in which tracks are started -/

/-- `a` may legitimately be returned before `b`: it starts on an earlier line, or on the same line with
    a key (`-amplitude`) that is not larger -/
def StartsBefore {P α κ} (pr : Params P α κ) (peaks : List (List P)) (a b : Node) : Prop :=
  a.1 < b.1 ∨ (a.1 = b.1 ∧ ∃ p q, peakAt peaks a = some p ∧ peakAt peaks b = some q ∧
    pr.kle (pr.key p true) (pr.key q true) = true)

def TrackBefore {P α κ} (pr : Params P α κ) (peaks : List (List P)) (t1 t2 : List Node) : Prop :=
  ∃ a b, t1.head? = some a ∧ t2.head? = some b ∧ StartsBefore pr peaks a b

/-- the keys `argsort` saw for two peaks of frame `fi`, computed from the flags `un` at the start of the frame -/
def Kle {P α κ} (pr : Params P α κ) (peaks : List (List P)) (un : List (List Bool)) (fi j1 j2 : Nat) : Prop :=
  ∀ p q, peakAt peaks (fi, j1) = some p → peakAt peaks (fi, j2) = some q →
    pr.kle (pr.key p (isUn un fi j1)) (pr.key q (isUn un fi j2)) = true

theorem argsort_pairwise {κ} (kle : κ → κ → Bool)
    (trans : ∀ a b c, kle a b = true → kle b c = true → kle a c = true)
    (total : ∀ a b, kle a b = true ∨ kle b a = true) (keys : List κ) :
    (argsort kle keys).Pairwise
      (fun j1 j2 => ∀ k1 k2, keys[j1]? = some k1 → keys[j2]? = some k2 → kle k1 k2 = true) := by
  unfold argsort
  rw [List.pairwise_map]
  have hs := isort_pairwise (fun (a b : κ × Nat) => kle a.1 b.1)
    (fun a b c => trans a.1 b.1 c.1) (fun a b => total a.1 b.1) keys.zipIdx
  refine hs.imp_of_mem ?_
  intro a b ha hb hab k1 k2 h1 h2
  have ha' := List.mem_zipIdx_iff_getElem?.1 ((isort_perm _ _).mem_iff.1 ha)
  have hb' := List.mem_zipIdx_iff_getElem?.1 ((isort_perm _ _).mem_iff.1 hb)
  rw [ha'] at h1; rw [hb'] at h2
  cases h1; cases h2
  exact hab

theorem startOrder_pairwise {P α κ} (pr : Params P α κ) (peaks : List (List P)) (un : List (List Bool)) (fi : Nat)
    (trans : ∀ a b c, pr.kle a b = true → pr.kle b c = true → pr.kle a c = true)
    (total : ∀ a b, pr.kle a b = true ∨ pr.kle b a = true) :
    (startOrder pr peaks un fi).Pairwise (Kle pr peaks un fi) := by
  unfold startOrder
  refine (argsort_pairwise pr.kle trans total _).imp ?_
  intro j1 j2 h p q hp hq
  apply h
  · rw [List.getElem?_map, List.getElem?_zipIdx]
    have : (peaks.getD fi [])[j1]? = some p := hp
    rw [this]; simp
  · rw [List.getElem?_map, List.getElem?_zipIdx]
    have : (peaks.getD fi [])[j2]? = some q := hq
    rw [this]; simp

theorem startLoop_order {P α κ} (pr : Params P α κ) (peaks : List (List P)) (fi : Nat) (un0 : List (List Bool)) :
    ∀ (js : List Nat) (un : List (List Bool)) (acc : List (List Node)),
      js.Pairwise (Kle pr peaks un0 fi) →
      (∀ j, isUn un fi j = true → isUn un0 fi j = true) →
      acc.Pairwise (fun t2 t1 => TrackBefore pr peaks t1 t2) →
      (∀ t ∈ acc, ∃ a, t.head? = some a ∧ (a.1 < fi ∨ (a.1 = fi ∧ isUn un0 fi a.2 = true ∧
          (peakAt peaks a).isSome ∧ ∀ j ∈ js, Kle pr peaks un0 fi a.2 j))) →
      (startLoop pr peaks fi js un acc).2.Pairwise (fun t2 t1 => TrackBefore pr peaks t1 t2) ∧
      (∀ t ∈ (startLoop pr peaks fi js un acc).2, ∃ a, t.head? = some a ∧ a.1 ≤ fi) := by
  intro js
  induction js with
  | nil =>
    intro un acc _ _ hp hb
    refine ⟨hp, ?_⟩
    intro t ht
    obtain ⟨a, ha, h⟩ := hb t ht
    exact ⟨a, ha, by rcases h with h | h <;> omega⟩
  | cons j js ih =>
    intro un acc hs hmono hp hb
    rw [List.pairwise_cons] at hs
    have hb' : ∀ t ∈ acc, ∃ a, t.head? = some a ∧ (a.1 < fi ∨ (a.1 = fi ∧ isUn un0 fi a.2 = true ∧
          (peakAt peaks a).isSome ∧ ∀ j' ∈ js, Kle pr peaks un0 fi a.2 j')) := by
      intro t ht
      obtain ⟨a, ha, h⟩ := hb t ht
      refine ⟨a, ha, ?_⟩
      rcases h with h | ⟨h1, h2, h3, h4⟩
      · exact Or.inl h
      · exact Or.inr ⟨h1, h2, h3, fun j' hj' => h4 j' (List.mem_cons_of_mem _ hj')⟩
    simp only [startLoop]
    split
    · rename_i p hpk
      have hpk' : peakAt peaks (fi, j) = some p := hpk
      split
      · rename_i hun
        obtain ⟨new, h1, _, _, h4, _⟩ :=
          extend_spec pr peaks (List.range' (fi + 1) (peaks.length - (fi + 1))) (assign un fi j) fi p 0 [] j
            (fi + 1) _ rfl (by omega) (by omega) (Or.inl rfl) hpk' trivial
        have hun0 : isUn un0 fi j = true := hmono j hun
        have hhead : ((extend pr peaks (List.range' (fi + 1) (peaks.length - (fi + 1))) (assign un fi j) fi p 0
            [(fi, j)]).2.reverse).head? = some (fi, j) := by
          rw [h1]; simp
        apply ih
        · exact hs.2
        · intro j' h
          rw [h4] at h
          simp only [Bool.and_eq_true] at h
          exact hmono j' (isUn_assign_mono _ _ _ _ _ h.1)
        · rw [List.pairwise_cons]
          refine ⟨?_, hp⟩
          intro t ht
          obtain ⟨a, ha, h⟩ := hb t ht
          refine ⟨a, (fi, j), ha, hhead, ?_⟩
          rcases h with h | ⟨e1, e2, e3, e4⟩
          · exact Or.inl h
          · right
            obtain ⟨a1, a2⟩ := a
            simp only at e1 e2 e4
            subst e1
            obtain ⟨pa, hpa⟩ := Option.isSome_iff_exists.1 e3
            refine ⟨rfl, pa, p, hpa, hpk', ?_⟩
            have := e4 j List.mem_cons_self pa p hpa hpk'
            rw [e2, hun0] at this
            exact this
        · intro t ht
          rcases List.mem_cons.1 ht with rfl | ht
          · exact ⟨(fi, j), hhead, Or.inr ⟨rfl, hun0, by simp [hpk'], fun j' hj' => hs.1 j' hj'⟩⟩
          · exact hb' t ht
      · exact ih un acc hs.2 hmono hp hb'
    · exact ih un acc hs.2 hmono hp hb'

theorem linkFrom_order {P α κ} (pr : Params P α κ) (peaks : List (List P))
    (trans : ∀ a b c, pr.kle a b = true → pr.kle b c = true → pr.kle a c = true)
    (total : ∀ a b, pr.kle a b = true ∨ pr.kle b a = true) :
    ∀ (fis : List Nat) (un : List (List Bool)) (acc : List (List Node)) (a k : Nat),
      fis = List.range' a k →
      acc.Pairwise (fun t2 t1 => TrackBefore pr peaks t1 t2) →
      (∀ t ∈ acc, ∃ h, t.head? = some h ∧ h.1 < a) →
      (linkFrom pr peaks fis un acc).2.Pairwise (fun t2 t1 => TrackBefore pr peaks t1 t2) := by
  intro fis
  induction fis with
  | nil => intro un acc a k _ hp _; exact hp
  | cons fi fis ih =>
    intro un acc a k hf hp hb
    cases k with
    | zero => simp at hf
    | succ k' =>
      rw [List.range'_succ] at hf
      simp only [List.cons.injEq] at hf
      obtain ⟨rfl, hf⟩ := hf
      simp only [linkFrom]
      obtain ⟨s1, s2⟩ := startLoop_order pr peaks fi un (startOrder pr peaks un fi) un acc
        (startOrder_pairwise pr peaks un fi trans total) (fun _ h => h) hp
        (fun t ht => by
          obtain ⟨h, hh, hlt⟩ := hb t ht
          exact ⟨h, hh, Or.inl hlt⟩)
      refine ih _ _ (fi + 1) k' hf s1 ?_
      intro t ht
      obtain ⟨h, hh, hle⟩ := s2 t ht
      exact ⟨h, hh, by omega⟩

/-! ### chains: latest-first ↔ time order ↔ "every consecutive pair" -/

/-- chain condition on a list in time order -/
def ChainF (R : Node → Node → Prop) : List Node → Prop
  | [] => True
  | [_] => True
  | a :: b :: rest => R a b ∧ ChainF R (b :: rest)

theorem chainF_append_singleton (R : Node → Node → Prop) :
    ∀ (l : List Node) (b : Node), ChainF R (l ++ [b]) ↔ ChainF R l ∧ ∀ a, l.getLast? = some a → R a b := by
  intro l
  induction l with
  | nil => intro b; simp [ChainF]
  | cons x t ih =>
    intro b
    cases t with
    | nil => simp [ChainF]
    | cons y t' =>
      have := ih b
      simp only [List.cons_append, ChainF] at this ⊢
      rw [this]
      simp only [List.getLast?_cons_cons]
      constructor
      · rintro ⟨h1, h2, h3⟩; exact ⟨⟨h1, h2⟩, h3⟩
      · rintro ⟨⟨h1, h2⟩, h3⟩; exact ⟨h1, h2, h3⟩

theorem chainR_iff (R : Node → Node → Prop) : ∀ l : List Node, ChainR R l ↔ ChainF R l.reverse := by
  intro l
  induction l with
  | nil => simp [ChainR, ChainF]
  | cons b t ih =>
    cases t with
    | nil => simp [ChainR, ChainF]
    | cons a rest =>
      rw [List.reverse_cons, chainF_append_singleton, ← ih]
      simp only [ChainR, List.getLast?_reverse, List.head?_cons, Option.some.injEq]
      constructor
      · rintro ⟨h1, h2⟩; exact ⟨h2, fun x hx => hx ▸ h1⟩
      · rintro ⟨h1, h2⟩; exact ⟨h2 a rfl, h1⟩

theorem chainF_iff_zip (R : Node → Node → Prop) :
    ∀ l : List Node, ChainF R l ↔ ∀ ab ∈ l.zip l.tail, R ab.1 ab.2 := by
  intro l
  induction l with
  | nil => simp [ChainF]
  | cons a t ih =>
    cases t with
    | nil => simp [ChainF]
    | cons b rest =>
      simp only [ChainF, List.tail_cons, List.zip_cons_cons, List.mem_cons, forall_eq_or_imp]
      rw [ih]
      simp

theorem good_iff {P α κ} (pr : Params P α κ) (peaks : List (List P)) (t : List Node) :
    Good pr peaks t ↔ t ≠ [] ∧ ∀ ab ∈ t.zip t.tail, LinkOK pr peaks ab.1 ab.2 := by
  unfold Good
  rw [chainR_iff, List.reverse_reverse, chainF_iff_zip]

theorem chainF_lt_all (R : Node → Node → Prop) (hR : ∀ a b, R a b → a.1 < b.1) :
    ∀ (l : List Node) (a : Node), ChainF R (a :: l) → ∀ b ∈ l, a.1 < b.1 := by
  intro l
  induction l with
  | nil => intro a _ b hb; cases hb
  | cons x t ih =>
    intro a h b hb
    obtain ⟨h1, h2⟩ := h
    rcases List.mem_cons.1 hb with rfl | hb
    · exact hR _ _ h1
    · exact Nat.lt_trans (hR _ _ h1) (ih x h2 b hb)

theorem chainF_pairwise (R : Node → Node → Prop) (hR : ∀ a b, R a b → a.1 < b.1) :
    ∀ l : List Node, ChainF R l → (l.map (·.1)).Pairwise (· < ·) := by
  intro l
  induction l with
  | nil => intro _; simp
  | cons a t ih =>
    intro h
    rw [List.map_cons, List.pairwise_cons]
    refine ⟨?_, ih ?_⟩
    · intro x hx
      obtain ⟨b, hb, rfl⟩ := List.mem_map.1 hx
      exact chainF_lt_all R hR t a h b hb
    · cases t with
      | nil => trivial
      | cons b rest => exact h.2

/-! ### boolean masks, the rectangle -/

theorem applyMask_map {β} (f : β → Bool) : ∀ l : List β, applyMask l (l.map f) = l.filter f := by
  intro l
  induction l with
  | nil => rfl
  | cons x xs ih =>
    simp only [List.map_cons, applyMask, List.filter_cons]
    split <;> simp [ih]

theorem pyInt_gt (r : Rat) : r - 1 < (pyInt r : Rat) := by
  unfold pyInt
  split
  · have := Rat.floor_le (-r)
    push_cast
    linarith
  · have := Rat.lt_floor_add_one r
    push_cast at this
    linarith

theorem pyInt_lt (r : Rat) : (pyInt r : Rat) < r + 1 := by
  unfold pyInt
  split
  · have := Rat.lt_floor_add_one (-r)
    push_cast at this ⊢
    linarith
  · have := Rat.floor_le r
    linarith

theorem pyInt_nonneg (r : Rat) (h : 0 ≤ r) : pyInt r = r.floor := by
  unfold pyInt; rw [if_neg (by linarith)]

/-! ### KymoPeaks.__init__ -/

theorem mem_toFrames {P} (dets : List (Nat × P)) (f : Nat) (p : P) :
    p ∈ (toFrames dets).getD f [] ↔ (f, p) ∈ dets := by
  unfold toFrames
  cases hm : (dets.map (·.1)).max? with
  | none =>
    have : dets = [] := by simpa using hm
    subst this; simp
  | some m =>
    have hmax := (List.max?_eq_some_iff.1 hm).2
    simp only [List.getD_eq_getElem?_getD, List.getElem?_map]
    by_cases hf : f < m + 1
    · rw [List.getElem?_range hf]
      simp only [Option.map_some, Option.getD_some, List.mem_map, List.mem_filter, beq_iff_eq]
      constructor
      · rintro ⟨d, ⟨hd, rfl⟩, rfl⟩; exact hd
      · intro h; exact ⟨(f, p), ⟨h, rfl⟩, rfl⟩
    · rw [List.getElem?_eq_none (by simp; omega)]
      simp only [Option.map_none, Option.getD_none, List.not_mem_nil, false_iff]
      intro h
      have := hmax f (List.mem_map.2 ⟨(f, p), h, rfl⟩)
      omega

/-! ### the photon-count window -/

theorem take_drop_min {β} (l : List β) (i j : Nat) :
    (l.take (min j l.length)).drop (min i l.length) = (l.take j).drop i := by
  have h1 : l.take (min j l.length) = l.take j := by
    rw [List.take_eq_take_iff]; omega
  rw [h1]
  by_cases h : i ≤ l.length
  · rw [Nat.min_eq_left h]
  · have hi : l.length ≤ i := by omega
    rw [Nat.min_eq_right hi]
    rw [List.drop_eq_nil_of_le (by simp), List.drop_eq_nil_of_le (by simp; omega)]

theorem pySlice_nonneg {β} (l : List β) (i j : Int) (hi : 0 ≤ i) (hj : 0 ≤ j) :
    pySlice l i j = (l.take j.toNat).drop i.toNat := by
  unfold pySlice pyNorm
  rw [if_neg (by omega), if_neg (by omega)]
  exact take_drop_min l _ _

/-- `l[a:b]` (relative to an index offset `i0`) keeps exactly the entries whose index lies in `[a, b)` -/
theorem take_drop_eq_filter {β} : ∀ (l : List β) (i0 a b : Nat),
    (l.take (b - i0)).drop (a - i0)
      = ((l.zipIdx i0).filter (fun x => decide (a ≤ x.2) && decide (x.2 < b))).map (·.1) := by
  intro l
  induction l with
  | nil => intro i0 a b; simp
  | cons x xs ih =>
    intro i0 a b
    simp only [List.zipIdx_cons, List.filter_cons]
    by_cases hb : b ≤ i0
    · have h0 : b - i0 = 0 := by omega
      have h1 : ¬ (i0 < b) := by omega
      have := ih (i0 + 1) a b
      have h2 : b - (i0 + 1) = 0 := by omega
      rw [h2] at this
      simp only [List.take_zero, List.drop_nil] at this
      simp [h0, h1, ← this]
    · have hb' : b - i0 = (b - (i0 + 1)) + 1 := by omega
      have hlt : i0 < b := by omega
      rw [hb', List.take_succ_cons]
      by_cases ha : a ≤ i0
      · have h0 : a - i0 = 0 := by omega
        have h1 : a - (i0 + 1) = 0 := by omega
        have := ih (i0 + 1) a b
        rw [h1] at this
        simp only [List.drop_zero] at this
        simp [h0, ha, hlt, this]
      · have ha' : a - i0 = (a - (i0 + 1)) + 1 := by omega
        rw [ha', List.drop_succ_cons, ih (i0 + 1) a b]
        simp [ha]

/-! ## Editing tracks (deepening round D): interpolate / split / merge / filter -/

/-- strictly increasing scan-line indices -/
def Inc (tr : Track) : Prop := (timesOf tr).Pairwise (· < ·)

/-- the first sentence of the property for one track -/
def WellFormed (nLines : Int) (lo hi : Rat) (tr : Track) : Prop :=
  tr ≠ [] ∧ Inc tr ∧ ∀ p ∈ tr, 0 ≤ p.1 ∧ p.1 < nLines ∧ lo ≤ p.2 ∧ p.2 ≤ hi

theorem foldl_min_le (l : List Int) (a : Int) (h : ∀ x ∈ l, a ≤ x) : l.foldl min a = a := by
  induction l generalizing a with
  | nil => rfl
  | cons b l ih =>
    have hab : a ≤ b := h b (by simp)
    rw [List.foldl_cons, min_eq_left hab]
    exact ih a (fun x hx => h x (by simp [hx]))

theorem foldl_max_inc (l : List Int) (a : Int) (h : (a :: l).Pairwise (· < ·)) :
    l.foldl max a = (a :: l).getLast (by simp) := by
  induction l generalizing a with
  | nil => rfl
  | cons b l ih =>
    rw [List.pairwise_cons] at h
    have hab : a < b := h.1 b (by simp)
    rw [List.foldl_cons, max_eq_right hab.le, ih b h.2, List.getLast_cons_cons]

theorem interpAt_mem (p : Int × Rat) (rest : Track) (h : Inc (p :: rest)) :
    ∀ q ∈ p :: rest, interpAt q.1 p rest = q.2 := by
  induction rest generalizing p with
  | nil => intro q hq; simp at hq; subst hq; rfl
  | cons r rs ih =>
    intro q hq
    unfold Inc timesOf at h
    simp only [List.map_cons, List.pairwise_cons] at h
    rcases List.mem_cons.1 hq with rfl | hq'
    · have : q.1 < r.1 := h.1 r.1 (by simp)
      simp only [interpAt, this, if_true, le_refl]
    · have hge : r.1 ≤ q.1 := by
        rcases List.mem_cons.1 hq' with rfl | h3
        · exact le_refl _
        · exact (h.2.1 q.1 (List.mem_map.2 ⟨q, h3, rfl⟩)).le
      have : ¬ q.1 < r.1 := by omega
      simp only [interpAt, this, if_false]
      exact ih r (by unfold Inc timesOf; simp only [List.map_cons, List.pairwise_cons]; exact h.2) q hq'

theorem interpAt_bounds (lo hi : Rat) (x : Int) (p : Int × Rat) (rest : Track) (h : Inc (p :: rest))
    (hb : ∀ q ∈ p :: rest, lo ≤ q.2 ∧ q.2 ≤ hi) : lo ≤ interpAt x p rest ∧ interpAt x p rest ≤ hi := by
  induction rest generalizing p with
  | nil => exact hb p (by simp)
  | cons r rs ih =>
    unfold Inc timesOf at h
    simp only [List.map_cons, List.pairwise_cons] at h
    unfold interpAt
    by_cases h1 : x < r.1
    · rw [if_pos h1]
      by_cases h2 : x ≤ p.1
      · rw [if_pos h2]; exact hb p (by simp)
      · rw [if_neg h2]
        have hpr : p.1 < r.1 := h.1 r.1 (by simp)
        have hp := hb p (by simp)
        have hr := hb r (by simp)
        have hd : (0 : Rat) < ((r.1 - p.1 : Int) : Rat) := by exact_mod_cast (by omega : 0 < r.1 - p.1)
        have hx0 : (0 : Rat) < ((x - p.1 : Int) : Rat) := by exact_mod_cast (by omega : 0 < x - p.1)
        have hx1 : ((x - p.1 : Int) : Rat) < ((r.1 - p.1 : Int) : Rat) := by exact_mod_cast (by omega : x - p.1 < r.1 - p.1)
        generalize ((r.1 - p.1 : Int) : Rat) = d at hd hx1
        generalize ((x - p.1 : Int) : Rat) = e at hx0 hx1
        have hl0 : 0 < e / d := div_pos hx0 hd
        have hl1 : e / d < 1 := (div_lt_one hd).2 hx1
        have e1 : (r.2 - p.2) / d * e + p.2 = (1 - e / d) * p.2 + (e / d) * r.2 := by field_simp; ring
        rw [e1]
        generalize e / d = l at hl0 hl1
        constructor <;> nlinarith [hp.1, hp.2, hr.1, hr.2]
    · rw [if_neg h1]
      exact ih r (by unfold Inc timesOf; simp only [List.map_cons, List.pairwise_cons]; exact h.2)
        (fun q hq => hb q (by simp [hq]))

theorem inc_tail {p : Int × Rat} {rest : Track} (h : Inc (p :: rest)) : Inc rest := by
  unfold Inc timesOf at *; simp only [List.map_cons, List.pairwise_cons] at h; exact h.2

theorem inc_first_le (p : Int × Rat) (rest : Track) (h : Inc (p :: rest)) : ∀ q ∈ p :: rest, p.1 ≤ q.1 := by
  intro q hq
  unfold Inc timesOf at h; simp only [List.map_cons, List.pairwise_cons] at h
  rcases List.mem_cons.1 hq with rfl | hq
  · exact le_refl _
  · exact (h.1 q.1 (List.mem_map.2 ⟨q, hq, rfl⟩)).le

theorem inc_le_last (p : Int × Rat) (rest : Track) (h : Inc (p :: rest)) :
    ∀ q ∈ p :: rest, q.1 ≤ ((p :: rest).getLast (by simp)).1 := by
  induction rest generalizing p with
  | nil => intro q hq; simp at hq; subst hq; simp
  | cons r rs ih =>
    intro q hq
    rw [List.getLast_cons_cons]
    rcases List.mem_cons.1 hq with rfl | hq
    · have h1 := inc_first_le q (r :: rs) h r (by simp)
      have h2 := ih r (inc_tail h) r (by simp)
      omega
    · exact ih r (inc_tail h) q hq

theorem interpolate_eq (p : Int × Rat) (rest : Track) (h : Inc (p :: rest)) :
    interpolate (p :: rest) =
      (List.range (((p :: rest).getLast (by simp)).1 - p.1 + 1).toNat).map
        fun (k : Nat) => (p.1 + (k : Int), interpAt (p.1 + (k : Int)) p rest) := by
  have hmin : (timesOf rest).foldl min p.1 = p.1 :=
    foldl_min_le _ _ (fun x hx => by
      obtain ⟨q, hq, rfl⟩ := List.mem_map.1 hx
      exact inc_first_le p rest h q (by simp [hq]))
  have hmax : (timesOf rest).foldl max p.1 = ((p :: rest).getLast (by simp)).1 := by
    rw [foldl_max_inc _ _ (by simpa [Inc, timesOf] using h)]
    have : p.1 :: timesOf rest = (p :: rest).map (·.1) := by simp [timesOf]
    simp only [this, List.getLast_map]
  simp only [interpolate, hmin, hmax]

/-- number of lines an interpolated track covers -/
theorem interp_len_pos (p : Int × Rat) (rest : Track) (h : Inc (p :: rest)) :
    0 < (((p :: rest).getLast (by simp)).1 - p.1 + 1).toNat := by
  have := inc_le_last p rest h p (by simp)
  omega

theorem interpolate_times_lem (tr : Track) (h : Inc tr) (f l : Int) (hf : (timesOf tr).head? = some f)
    (hl : (timesOf tr).getLast? = some l) :
    timesOf (interpolate tr) = (List.range (l - f + 1).toNat).map fun (k : Nat) => f + (k : Int) := by
  cases tr with
  | nil => simp [timesOf] at hf
  | cons p rest =>
    have e1 : f = p.1 := by simpa [timesOf] using hf.symm
    have e2 : l = ((p :: rest).getLast (by simp)).1 := by
      unfold timesOf at hl
      rw [List.getLast?_map, List.getLast?_eq_some_getLast (by simp)] at hl
      simpa using hl.symm
    rw [interpolate_eq p rest h, e1, e2]
    simp [timesOf, List.map_map, Function.comp_def]

theorem interpolate_inc (tr : Track) (h : Inc tr) : Inc (interpolate tr) := by
  cases tr with
  | nil => simp [interpolate, Inc, timesOf]
  | cons p rest =>
    unfold Inc
    rw [interpolate_eq p rest h]
    simp only [timesOf, List.map_map, Function.comp_def]
    rw [List.pairwise_map]
    exact List.Pairwise.imp (fun {a b} hab => by omega) List.pairwise_lt_range

theorem interpolate_keeps (tr : Track) (h : Inc tr) : ∀ q ∈ tr, q ∈ interpolate tr := by
  cases tr with
  | nil => intro q hq; simp at hq
  | cons p rest =>
    intro q hq
    rw [interpolate_eq p rest h, List.mem_map]
    have h1 := inc_first_le p rest h q hq
    have h2 := inc_le_last p rest h q hq
    refine ⟨(q.1 - p.1).toNat, List.mem_range.2 (by omega), ?_⟩
    have e : p.1 + ((q.1 - p.1).toNat : Int) = q.1 := by omega
    rw [e, interpAt_mem p rest h q hq]

theorem interpolate_wf (n : Int) (lo hi : Rat) (tr : Track) (h : WellFormed n lo hi tr) :
    WellFormed n lo hi (interpolate tr) := by
  obtain ⟨hne, hinc, hb⟩ := h
  cases tr with
  | nil => exact absurd rfl hne
  | cons p rest =>
    refine ⟨?_, interpolate_inc _ hinc, ?_⟩
    · rw [interpolate_eq p rest hinc]
      have := interp_len_pos p rest hinc
      intro hc
      have := congrArg List.length hc
      simp at this
      omega
    · intro q hq
      rw [interpolate_eq p rest hinc, List.mem_map] at hq
      obtain ⟨k, hk, rfl⟩ := hq
      have hk' := List.mem_range.1 hk
      have hlast := hb _ (List.getLast_mem (l := p :: rest) (by simp))
      have hfirst := hb p (by simp)
      have hib := interpAt_bounds lo hi (p.1 + (k : Int)) p rest hinc (fun q hq => (hb q hq).2.2)
      refine ⟨by simp only; omega, by simp only; omega, hib.1, hib.2⟩

theorem interpolate_idem (tr : Track) (h : Inc tr) : interpolate (interpolate tr) = interpolate tr := by
  cases tr with
  | nil => rfl
  | cons p rest =>
    have hI := interpolate_eq p rest h
    have hn := interp_len_pos p rest h
    generalize hN : (((p :: rest).getLast (by simp)).1 - p.1 + 1).toNat = N at hI hn
    have hincI := interpolate_inc _ h
    generalize hIdef : interpolate (p :: rest) = I at *
    cases I with
    | nil =>
      have := congrArg List.length hI
      simp at this; omega
    | cons p' rest' =>
      have hlen : (p' :: rest').length = N := by rw [hI]; simp
      have hget : ∀ k (hk : k < (p' :: rest').length), (p' :: rest')[k] = (p.1 + (k : Int), interpAt (p.1 + (k : Int)) p rest) := by
        intro k hk
        simp only [hI, List.getElem_map, List.getElem_range]
      have hp' : p'.1 = p.1 := by
        have := hget 0 (by simp)
        simp at this
        rw [this]
      have hlast : ((p' :: rest').getLast (by simp)).1 = p.1 + ((N - 1 : Nat) : Int) := by
        rw [List.getLast_eq_getElem, hget]
        simp only [hlen]
      rw [interpolate_eq p' rest' hincI, hlast, hp']
      have hN' : (p.1 + ((N - 1 : Nat) : Int) - p.1 + 1).toNat = N := by omega
      rw [hN']
      apply List.ext_getElem
      · simp [hlen]
      · intro k h1 h2
        simp only [List.getElem_map, List.getElem_range]
        have hk : k < (p' :: rest').length := h2
        have hm := interpAt_mem p' rest' hincI ((p' :: rest')[k]) (List.getElem_mem hk)
        rw [hget k hk] at hm ⊢
        simp only at hm
        rw [hm]

/-! ### split / merge / filter -/

theorem inc_sublist {s tr : Track} (hs : s.Sublist tr) (h : Inc tr) : Inc s := by
  unfold Inc timesOf at *
  exact List.Pairwise.sublist (List.Sublist.map _ hs) h

theorem wf_sublist {n : Int} {lo hi : Rat} {s tr : Track} (hs : s.Sublist tr) (hne : s ≠ [])
    (h : WellFormed n lo hi tr) : WellFormed n lo hi s :=
  ⟨hne, inc_sublist hs h.2.1, fun p hp => h.2.2 p (hs.subset hp)⟩

theorem splitAt_ok (tr : Track) (node : Int) (a b : Track) (h : splitAt tr node = .ok (a, b)) :
    a ++ b = tr ∧ a ≠ [] ∧ b ≠ [] ∧ (a.length : Int) = min (max node 0) (tr.length : Int) := by
  unfold splitAt at h
  simp only at h
  split at h
  · cases h
  · rename_i hc
    simp only [Bool.or_eq_true, not_or, List.isEmpty_iff] at hc
    injection h with h
    injection h with h1 h2
    subst h1; subst h2
    refine ⟨List.take_append_drop _ _, hc.1, hc.2, ?_⟩
    rw [List.length_take]
    omega

theorem splitAt_refused (tr : Track) (node : Int) :
    (∃ e, splitAt tr node = .error e) ↔ (node ≤ 0 ∨ (tr.length : Int) ≤ node) := by
  unfold splitAt
  simp only
  constructor
  · intro ⟨e, h⟩
    split at h
    · rename_i hc
      simp only [Bool.or_eq_true, List.isEmpty_iff, List.take_eq_nil_iff, List.drop_eq_nil_iff] at hc
      rcases hc with (hc | hc) | hc
      · omega
      · subst hc; simp; omega
      · omega
    · cases h
  · intro hn
    refine ⟨"ValueError", ?_⟩
    rw [if_pos]
    simp only [Bool.or_eq_true, List.isEmpty_iff, List.take_eq_nil_iff, List.drop_eq_nil_iff]
    omega

theorem mem_eraseIdx_flatten_perm (g : List Track) (i : Nat) (tr : Track) (h : g[i]? = some tr) :
    g.flatten.Perm (tr ++ (g.eraseIdx i).flatten) := by
  induction g generalizing i with
  | nil => simp at h
  | cons x xs ih =>
    cases i with
    | zero => simp at h; subst h; simp
    | succ k =>
      simp only [List.getElem?_cons_succ] at h
      simp only [List.eraseIdx_cons_succ, List.flatten_cons]
      have := ih k h
      refine (List.Perm.append_left x this).trans ?_
      rw [← List.append_assoc, ← List.append_assoc]
      exact List.Perm.append_right _ List.perm_append_comm

theorem splitTrack_ok (g : List Track) (i : Nat) (node minLen : Int) (g' : List Track)
    (h : splitTrack g i node minLen = .ok g') :
    ∃ tr a b, g[i]? = some tr ∧ splitAt tr node = .ok (a, b) ∧
      g' = g.eraseIdx i ++ [a, b].filter fun t => decide (minLen ≤ (t.length : Int)) := by
  unfold splitTrack at h
  split at h
  · cases h
  · rename_i tr htr
    split at h
    · cases h
    · rename_i a b hab
      injection h with h
      exact ⟨tr, a, b, htr, hab, h.symm⟩

theorem take_times_le (a : Track) (ha : Inc a) (sn : Nat) (ps : Int × Rat) (hs : a[sn]? = some ps) :
    ∀ x ∈ a.take (sn + 1), x.1 ≤ ps.1 := by
  intro x hx
  obtain ⟨k, hk, rfl⟩ := List.mem_iff_getElem.1 hx
  rw [List.length_take] at hk
  obtain ⟨hsn, rfl⟩ := List.getElem?_eq_some_iff.1 hs
  rw [List.getElem_take]
  by_cases hks : k = sn
  · subst hks; exact le_refl _
  · have := (List.pairwise_iff_getElem.1 ha) k sn (by simp [timesOf]; omega) (by simp [timesOf]; omega) (by omega)
    simp only [timesOf, List.getElem_map] at this
    exact this.le

theorem drop_times_ge (b : Track) (hb : Inc b) (en : Nat) (pe : Int × Rat) (he : b[en]? = some pe) :
    ∀ y ∈ b.drop en, pe.1 ≤ y.1 := by
  intro y hy
  obtain ⟨k, hk, rfl⟩ := List.mem_iff_getElem.1 hy
  rw [List.length_drop] at hk
  obtain ⟨hen, rfl⟩ := List.getElem?_eq_some_iff.1 he
  rw [List.getElem_drop]
  by_cases hks : k = 0
  · subst hks; simp
  · have := (List.pairwise_iff_getElem.1 hb) en (en + k) (by simp [timesOf]; omega) (by simp [timesOf]; omega) (by omega)
    simp only [timesOf, List.getElem_map] at this
    exact this.le

theorem merge_inc (a b : Track) (ha : Inc a) (hb : Inc b) (sn en : Nat) (ps pe : Int × Rat)
    (hs : a[sn]? = some ps) (he : b[en]? = some pe) (hlt : ps.1 < pe.1) :
    Inc (a.take (sn + 1) ++ b.drop en) := by
  have h1 := take_times_le a ha sn ps hs
  have h2 := drop_times_ge b hb en pe he
  unfold Inc timesOf
  rw [List.map_append, List.pairwise_append]
  refine ⟨inc_sublist (List.take_sublist _ _) ha, inc_sublist (List.drop_sublist _ _) hb, ?_⟩
  intro x hx y hy
  obtain ⟨p, hp, rfl⟩ := List.mem_map.1 hx
  obtain ⟨q, hq, rfl⟩ := List.mem_map.1 hy
  have := h1 p hp
  have := h2 q hq
  omega

theorem merge_wf {n : Int} {lo hi : Rat} (a b : Track) (ha : WellFormed n lo hi a) (hb : WellFormed n lo hi b)
    (sn en : Nat) (ps pe : Int × Rat) (hs : a[sn]? = some ps) (he : b[en]? = some pe) (hlt : ps.1 < pe.1) :
    WellFormed n lo hi (a.take (sn + 1) ++ b.drop en) := by
  refine ⟨?_, merge_inc a b ha.2.1 hb.2.1 sn en ps pe hs he hlt, ?_⟩
  · intro hc
    have h0 := (List.append_eq_nil_iff.1 hc).1
    rw [List.take_eq_nil_iff] at h0
    rcases h0 with h0 | h0
    · omega
    · exact ha.1 h0
  · intro p hp
    rcases List.mem_append.1 hp with hp | hp
    · exact ha.2.2 p (List.mem_of_mem_take hp)
    · exact hb.2.2 p (List.mem_of_mem_drop hp)

/-- the two chosen nodes become neighbours -/
theorem merge_shape (a b : Track) (sn en : Nat) (ps pe : Int × Rat) (hs : a[sn]? = some ps) (he : b[en]? = some pe) :
    a.take (sn + 1) ++ b.drop en = a.take sn ++ ps :: pe :: b.drop (en + 1) := by
  obtain ⟨hsn, rfl⟩ := List.getElem?_eq_some_iff.1 hs
  obtain ⟨hen, rfl⟩ := List.getElem?_eq_some_iff.1 he
  rw [List.take_succ_eq_append_getElem hsn, List.drop_eq_getElem_cons hen]
  simp only [List.append_assoc, List.singleton_append]

theorem splitTrack_wf {n : Int} {lo hi : Rat} (g : List Track) (i : Nat) (node minLen : Int) (g' : List Track)
    (hg : ∀ t ∈ g, WellFormed n lo hi t) (h : splitTrack g i node minLen = .ok g') :
    ∀ t ∈ g', WellFormed n lo hi t := by
  obtain ⟨tr, a, b, htr, hab, rfl⟩ := splitTrack_ok g i node minLen g' h
  obtain ⟨happ, ha, hb, _⟩ := splitAt_ok tr node a b hab
  have hwf := hg tr (List.mem_of_getElem? htr)
  intro t ht
  rcases List.mem_append.1 ht with ht | ht
  · exact hg t (List.mem_of_mem_eraseIdx ht)
  · have := (List.mem_filter.1 ht).1
    simp only [List.mem_cons, List.not_mem_nil, or_false] at this
    rcases this with rfl | rfl
    · exact wf_sublist (happ ▸ List.sublist_append_left t b) ha hwf
    · exact wf_sublist (happ ▸ List.sublist_append_right a t) hb hwf

/-- with `min_length ≤ 1` a split keeps every point of the group (as a multiset) -/
theorem splitTrack_perm (g : List Track) (i : Nat) (node minLen : Int) (g' : List Track) (hm : minLen ≤ 1)
    (h : splitTrack g i node minLen = .ok g') : g'.flatten.Perm g.flatten := by
  obtain ⟨tr, a, b, htr, hab, rfl⟩ := splitTrack_ok g i node minLen g' h
  obtain ⟨happ, ha, hb, _⟩ := splitAt_ok tr node a b hab
  have la : 0 < a.length := List.length_pos_iff.2 ha
  have lb : 0 < b.length := List.length_pos_iff.2 hb
  have hf : ([a, b].filter fun t => decide (minLen ≤ (t.length : Int))) = [a, b] := by
    simp only [List.filter_cons, List.filter_nil]
    rw [if_pos (by simp; omega), if_pos (by simp; omega)]
  rw [hf]
  refine List.Perm.trans ?_ (mem_eraseIdx_flatten_perm g i tr htr).symm
  rw [List.flatten_append]
  simp only [List.flatten_cons, List.flatten_nil, List.append_nil, happ]
  exact List.perm_append_comm

theorem mergeTracks_ok (g : List Track) (i sn j en : Nat) (g' : List Track) (h : mergeTracks g i sn j en = .ok g') :
    ∃ a b ps pe, g[i]? = some a ∧ g[j]? = some b ∧ a[sn]? = some ps ∧ b[en]? = some pe ∧
      ((ps.1 < pe.1 ∧ g' = (if i = j then g.set i (a.take (sn + 1) ++ b.drop en)
          else (g.set i (a.take (sn + 1) ++ b.drop en)).eraseIdx j)) ∨
       (pe.1 < ps.1 ∧ g' = (if j = i then g.set j (b.take (en + 1) ++ a.drop sn)
          else (g.set j (b.take (en + 1) ++ a.drop sn)).eraseIdx i))) := by
  unfold mergeTracks at h
  split at h
  · rename_i a b ha hb
    split at h
    · rename_i ps pe hs he
      refine ⟨a, b, ps, pe, ha, hb, hs, he, ?_⟩
      by_cases h1 : ps.1 = pe.1
      · rw [if_pos h1] at h; cases h
      · rw [if_neg h1] at h
        by_cases h2 : ps.1 > pe.1
        · rw [if_pos h2] at h
          injection h with h
          exact Or.inr ⟨h2, h.symm⟩
        · rw [if_neg h2] at h
          injection h with h
          exact Or.inl ⟨by omega, h.symm⟩
    · cases h
  · cases h

theorem mem_set_erase {α} (g : List α) (i j : Nat) (m t : α) (c : Prop) [Decidable c]
    (h : t ∈ (if c then g.set i m else (g.set i m).eraseIdx j)) : t ∈ g ∨ t = m := by
  split at h
  · exact List.mem_or_eq_of_mem_set h
  · exact List.mem_or_eq_of_mem_set (List.mem_of_mem_eraseIdx h)

theorem mergeTracks_wf {n : Int} {lo hi : Rat} (g : List Track) (i sn j en : Nat) (g' : List Track)
    (hg : ∀ t ∈ g, WellFormed n lo hi t) (h : mergeTracks g i sn j en = .ok g') :
    ∀ t ∈ g', WellFormed n lo hi t := by
  obtain ⟨a, b, ps, pe, ha, hb, hs, he, hcase⟩ := mergeTracks_ok g i sn j en g' h
  have wa := hg a (List.mem_of_getElem? ha)
  have wb := hg b (List.mem_of_getElem? hb)
  intro t ht
  rcases hcase with ⟨hlt, rfl⟩ | ⟨hlt, rfl⟩
  · rcases mem_set_erase _ _ _ _ _ _ ht with h1 | rfl
    · exact hg t h1
    · exact merge_wf a b wa wb sn en ps pe hs he hlt
  · rcases mem_set_erase _ _ _ _ _ _ ht with h1 | rfl
    · exact hg t h1
    · exact merge_wf b a wb wa en sn pe ps he hs hlt

theorem keepTrack_iff (minLen : Int) (minDur lt : Rat) (tr : Track) (f l : Int)
    (hf : (timesOf tr).head? = some f) (hl : (timesOf tr).getLast? = some l) :
    keepTrack minLen minDur lt tr = true ↔ minLen ≤ (tr.length : Int) ∧ minDur ≤ lt * ((l - f : Int) : Rat) := by
  unfold keepTrack
  have hd : duration lt (timesOf tr) = some (lt * ((l - f : Int) : Rat)) := by
    unfold duration seconds
    rw [List.getLast?_map, List.head?_map, hf, hl]
    simp only [Option.map_some]
    congr 1
    push_cast; ring
  rw [hd]
  simp only [Bool.and_eq_true, decide_eq_true_eq]

theorem filterTracks_mem (minLen : Int) (minDur : Rat) (g : List (Rat × Track)) (x : Rat × Track) :
    x ∈ filterTracks minLen minDur g ↔ x ∈ g ∧ keepTrack minLen minDur x.1 x.2 = true := by
  unfold filterTracks; rw [List.mem_filter]

theorem filterTracks_sublist (minLen : Int) (minDur : Rat) (g : List (Rat × Track)) :
    (filterTracks minLen minDur g).Sublist g := List.filter_sublist

theorem filterTracks_idem (minLen : Int) (minDur : Rat) (g : List (Rat × Track)) :
    filterTracks minLen minDur (filterTracks minLen minDur g) = filterTracks minLen minDur g := by
  unfold filterTracks; rw [List.filter_filter]; simp

theorem applyOp_wf {n : Int} {lo hi : Rat} (lt : Rat) (g : List Track) (op : EditOp) (g' : List Track)
    (hg : ∀ t ∈ g, WellFormed n lo hi t) (h : applyOp lt g op = .ok g') : ∀ t ∈ g', WellFormed n lo hi t := by
  cases op with
  | interpolate skip =>
    simp only [applyOp] at h
    injection h with h
    subst h
    intro t ht
    obtain ⟨x, hx, rfl⟩ := List.mem_map.1 ht
    have hxg : x.1 ∈ g := by
      obtain ⟨h1, h2⟩ := List.mem_zipIdx' hx
      rw [h2]; exact List.getElem_mem h1
    split
    · exact hg _ hxg
    · exact interpolate_wf n lo hi _ (hg _ hxg)
  | split i node minLen => exact splitTrack_wf g i node minLen g' hg h
  | merge i sn j en => exact mergeTracks_wf g i sn j en g' hg h
  | filter minLen minDur =>
    simp only [applyOp] at h
    injection h with h
    subst h
    intro t ht
    obtain ⟨x, hx, rfl⟩ := List.mem_map.1 ht
    have := (filterTracks_sublist minLen minDur _).subset hx
    obtain ⟨t', ht', rfl⟩ := List.mem_map.1 this
    exact hg t' ht'

theorem runProgram_wf {n : Int} {lo hi : Rat} (lt : Rat) (ops : List EditOp) (g : List Track)
    (hg : ∀ t ∈ g, WellFormed n lo hi t) : ∀ t ∈ runProgram lt ops g, WellFormed n lo hi t := by
  induction ops generalizing g with
  | nil => exact hg
  | cons op ops ih =>
    unfold runProgram
    split
    · rename_i g' h
      exact ih g' (applyOp_wf lt g op g' hg h)
    · exact ih g hg


/-! ## Centroid refinement without bias correction (deepening round D): the pixel walk and its clamps -/

theorem sum_nonneg_int (l : List Int) (h : ∀ x ∈ l, 0 ≤ x) : 0 ≤ l.sum := by
  induction l with
  | nil => simp
  | cons a l ih =>
    rw [List.sum_cons]
    have := h a (by simp)
    have := ih (fun x hx => h x (by simp [hx]))
    omega

theorem sum_nonpos_int (l : List Int) (h : ∀ x ∈ l, x ≤ 0) : l.sum ≤ 0 := by
  induction l with
  | nil => simp
  | cons a l ih =>
    rw [List.sum_cons]
    have := h a (by simp)
    have := ih (fun x hx => h x (by simp [hx]))
    omega

theorem pxAt_nonneg (col : List Int) (hc : ∀ v ∈ col, 0 ≤ v) (i : Int) : 0 ≤ pxAt col i := by
  unfold pxAt
  split
  · exact le_refl _
  · rw [List.getD_eq_getElem?_getD]
    cases h : col[i.toNat]? with
    | none => simp
    | some v => simp only [Option.getD_some]; exact hc v (List.mem_of_getElem? h)

theorem pxAt_neg (col : List Int) (i : Int) (h : i < 0) : pxAt col i = 0 := by
  unfold pxAt; rw [if_pos h]

theorem pxAt_beyond (col : List Int) (i : Int) (h : (col.length : Int) ≤ i) : pxAt col i = 0 := by
  unfold pxAt
  split
  · rfl
  · rw [List.getD_eq_getElem?_getD, List.getElem?_eq_none (by omega)]; rfl

theorem m0At_nonneg (col : List Int) (hc : ∀ v ∈ col, 0 ≤ v) (h : Nat) (c : Int) : 0 ≤ m0At col h c := by
  unfold m0At
  apply sum_nonneg_int
  intro x hx
  obtain ⟨k, _, rfl⟩ := List.mem_map.1 hx
  exact pxAt_nonneg col hc _

theorem m1At_first_nonneg (col : List Int) (hc : ∀ v ∈ col, 0 ≤ v) (h : Nat) : 0 ≤ m1At col h 0 := by
  unfold m1At
  apply sum_nonneg_int
  intro x hx
  obtain ⟨k, _, rfl⟩ := List.mem_map.1 hx
  by_cases hk : (k : Int) - (h : Int) < 0
  · rw [pxAt_neg col _ (by omega)]; simp
  · exact mul_nonneg (by omega) (pxAt_nonneg col hc _)

theorem m1At_last_nonpos (col : List Int) (hc : ∀ v ∈ col, 0 ≤ v) (h : Nat) (n : Int) (hl : (col.length : Int) ≤ n) :
    m1At col h (n - 1) ≤ 0 := by
  unfold m1At
  apply sum_nonpos_int
  intro x hx
  obtain ⟨k, _, rfl⟩ := List.mem_map.1 hx
  by_cases hk : 0 < (k : Int) - (h : Int)
  · rw [pxAt_beyond col _ (by omega)]; simp
  · exact mul_nonpos_of_nonpos_of_nonneg (by omega) (pxAt_nonneg col hc _)

theorem offsetAt_first_nonneg (eps : Rat) (heps : 0 < eps) (col : List Int) (hc : ∀ v ∈ col, 0 ≤ v) (h : Nat) :
    0 ≤ offsetAt eps col h 0 := by
  unfold offsetAt
  have h0 : (0 : Rat) ≤ (m0At col h 0 : Rat) := by exact_mod_cast m0At_nonneg col hc h 0
  have h1 : (0 : Rat) ≤ (m1At col h 0 : Rat) := by exact_mod_cast m1At_first_nonneg col hc h
  exact div_nonneg h1 (by linarith)

theorem offsetAt_last_nonpos (eps : Rat) (heps : 0 < eps) (col : List Int) (hc : ∀ v ∈ col, 0 ≤ v) (h : Nat) (n : Int)
    (hl : (col.length : Int) ≤ n) : offsetAt eps col h (n - 1) ≤ 0 := by
  unfold offsetAt
  have h0 : (0 : Rat) ≤ (m0At col h (n - 1) : Rat) := by exact_mod_cast m0At_nonneg col hc h (n - 1)
  have h1 : (m1At col h (n - 1) : Rat) ≤ 0 := by exact_mod_cast m1At_last_nonpos col hc h n hl
  exact div_nonpos_of_nonpos_of_nonneg h1 (by linarith)

theorem clampPt_range (n : Int) (hn : 1 ≤ n) (c : Int) : 0 ≤ clampPt n c ∧ clampPt n c < n := by
  unfold clampPt
  split
  · omega
  · split <;> omega

theorem clampPt_id (n c : Int) (h0 : 0 ≤ c) (h1 : c < n) : clampPt n c = c := by
  unfold clampPt
  rw [if_neg (by omega), if_neg (by omega)]

theorem refineIter_range (eps : Rat) (cols : List (List Int)) (h : Nat) (n : Int) (hn : 1 ≤ n) (pts : List (Int × Nat)) :
    ∀ p ∈ (refineIter eps cols h n pts).1, 0 ≤ p.1 ∧ p.1 < n := by
  intro p hp
  unfold refineIter at hp
  simp only [List.mem_map] at hp
  obtain ⟨m, _, rfl⟩ := hp
  exact clampPt_range n hn _

theorem refineLoop_range (eps : Rat) (cols : List (List Int)) (h : Nat) (n : Int) (hn : 1 ≤ n) (fuel : Nat)
    (pts pts' : List (Int × Nat)) (hr : refineLoop eps cols h n fuel pts = some pts') :
    ∀ p ∈ pts', 0 ≤ p.1 ∧ p.1 < n := by
  induction fuel generalizing pts with
  | zero => simp [refineLoop] at hr
  | succ f ih =>
    unfold refineLoop at hr
    simp only at hr
    split at hr
    · injection hr with hr; subst hr
      exact refineIter_range eps cols h n hn pts
    · exact ih _ hr

/-- the hypotheses under which the walk is analysed: photon counts are non-negative, no scan line is longer than the image -/
def ImageOK (cols : List (List Int)) (n : Int) : Prop :=
  ∀ col ∈ cols, (∀ v ∈ col, 0 ≤ v) ∧ (col.length : Int) ≤ n

theorem imageOK_getD (cols : List (List Int)) (n : Int) (hn : 0 ≤ n) (hi : ImageOK cols n) (t : Nat) :
    (∀ v ∈ cols.getD t [], 0 ≤ v) ∧ ((cols.getD t []).length : Int) ≤ n := by
  rw [List.getD_eq_getElem?_getD]
  cases h : cols[t]? with
  | none => simp; exact hn
  | some col => simp only [Option.getD_some]; exact hi col (List.mem_of_getElem? h)

/-- a point inside a non-negative image is never pushed over the edge -/
theorem movePt_inside (eps : Rat) (heps : 0 < eps) (cols : List (List Int)) (h : Nat) (n : Int) (hi : ImageOK cols n)
    (p : Int × Nat) (hp : 0 ≤ p.1 ∧ p.1 < n) :
    0 ≤ (movePt eps cols h p).1 ∧ (movePt eps cols h p).1 < n := by
  obtain ⟨hc, hl⟩ := imageOK_getD cols n (by omega) hi p.2
  unfold movePt
  simp only
  split
  · rename_i hoff
    refine ⟨by simp only; omega, ?_⟩
    simp only
    by_contra hcon
    have : p.1 = n - 1 := by omega
    have := offsetAt_last_nonpos eps heps _ hc h n hl
    rw [‹p.1 = n - 1›] at hoff
    linarith
  · split
    · rename_i _ hoff
      refine ⟨?_, by simp only; omega⟩
      simp only
      by_contra hcon
      have h0 : p.1 = 0 := by omega
      have := offsetAt_first_nonneg eps heps _ hc h
      rw [h0] at hoff
      linarith
    · exact hp

theorem movePt_unmoved (eps : Rat) (cols : List (List Int)) (h : Nat) (p : Int × Nat)
    (hm : (movePt eps cols h p).2.2 = false) :
    (movePt eps cols h p).1 = p.1 ∧ (movePt eps cols h p).2.1 = p.2 ∧
      -(1/2 : Rat) ≤ offsetAt eps (cols.getD p.2 []) h p.1 ∧ offsetAt eps (cols.getD p.2 []) h p.1 ≤ 1/2 := by
  unfold movePt at hm ⊢
  simp only at hm ⊢
  split
  · rename_i h1; rw [if_pos h1] at hm; simp at hm
  · rename_i h1
    rw [if_neg h1] at hm
    split
    · rename_i h2; rw [if_pos h2] at hm; simp at hm
    · rename_i h2
      exact ⟨rfl, rfl, by linarith [not_lt.1 h2], not_lt.1 h1⟩

/-- the pass after which the loop stops moved no point: the points are as before and every offset is within half a pixel -/
theorem refineIter_stop (eps : Rat) (heps : 0 < eps) (cols : List (List Int)) (h : Nat) (n : Int) (hi : ImageOK cols n)
    (pts : List (Int × Nat)) (hin : ∀ p ∈ pts, 0 ≤ p.1 ∧ p.1 < n) (hz : (refineIter eps cols h n pts).2 = 0) :
    (refineIter eps cols h n pts).1 = pts ∧
      ∀ p ∈ pts, -(1/2 : Rat) ≤ offsetAt eps (cols.getD p.2 []) h p.1 ∧ offsetAt eps (cols.getD p.2 []) h p.1 ≤ 1/2 := by
  unfold refineIter at hz ⊢
  simp only at hz ⊢
  have hlow : ((pts.map (movePt eps cols h)).filter fun m => decide (m.1 < 0)) = [] := by
    rw [List.filter_eq_nil_iff]
    intro m hm
    obtain ⟨p, hp, rfl⟩ := List.mem_map.1 hm
    have := movePt_inside eps heps cols h n hi p (hin p hp)
    simp only [decide_eq_true_eq]; omega
  have hhigh : ((pts.map (movePt eps cols h)).filter fun m => decide (m.1 ≥ n)) = [] := by
    rw [List.filter_eq_nil_iff]
    intro m hm
    obtain ⟨p, hp, rfl⟩ := List.mem_map.1 hm
    have := movePt_inside eps heps cols h n hi p (hin p hp)
    simp only [decide_eq_true_eq]; omega
  rw [hlow, hhigh] at hz
  simp only [List.length_nil, Int.natCast_zero, Int.sub_zero] at hz
  have hnone : ((pts.map (movePt eps cols h)).filter fun m => m.2.2) = [] := by
    apply List.eq_nil_of_length_eq_zero
    exact_mod_cast hz
  rw [List.filter_eq_nil_iff] at hnone
  have hun : ∀ p ∈ pts, (movePt eps cols h p).2.2 = false := by
    intro p hp
    have := hnone (movePt eps cols h p) (List.mem_map.2 ⟨p, hp, rfl⟩)
    simpa using this
  constructor
  · rw [List.map_map]
    conv => rhs; rw [← List.map_id pts]
    apply List.map_congr_left
    intro p hp
    obtain ⟨e1, e2, _, _⟩ := movePt_unmoved eps cols h p (hun p hp)
    have := hin p hp
    simp only [Function.comp, id, e1, e2, clampPt_id n p.1 this.1 this.2]
  · intro p hp
    obtain ⟨_, _, e3, e4⟩ := movePt_unmoved eps cols h p (hun p hp)
    exact ⟨e3, e4⟩

theorem refineLoop_settled (eps : Rat) (heps : 0 < eps) (cols : List (List Int)) (h : Nat) (n : Int) (hn : 1 ≤ n)
    (hi : ImageOK cols n) (fuel : Nat) (pts pts' : List (Int × Nat)) (hin : ∀ p ∈ pts, 0 ≤ p.1 ∧ p.1 < n)
    (hr : refineLoop eps cols h n fuel pts = some pts') :
    ∀ p ∈ pts', (0 ≤ p.1 ∧ p.1 < n) ∧
      -(1/2 : Rat) ≤ offsetAt eps (cols.getD p.2 []) h p.1 ∧ offsetAt eps (cols.getD p.2 []) h p.1 ≤ 1/2 := by
  induction fuel generalizing pts with
  | zero => simp [refineLoop] at hr
  | succ f ih =>
    unfold refineLoop at hr
    simp only at hr
    split at hr
    · rename_i hz
      injection hr with hr
      obtain ⟨e, hs⟩ := refineIter_stop eps heps cols h n hi pts hin hz
      rw [e] at hr; subst hr
      exact fun p hp => ⟨hin p hp, hs p hp⟩
    · exact ih _ (refineIter_range eps cols h n hn pts) hr


/-! ## merge_close_peaks (deepening round D) -/

theorem mergeCloseFrame_sublist (d : Rat) (fr : List (Rat × Rat)) : (mergeCloseFrame d fr).Sublist fr := by
  unfold mergeCloseFrame
  have h : (fr.zipIdx.map (·.1)) = fr := by simp
  conv => rhs; rw [← h]
  exact List.Sublist.map _ List.filter_sublist

theorem order_get (fr : List (Rat × Rat)) (r : Nat) (k : Nat)
    (h : (argsort (fun (a b : Rat) => decide (a ≤ b)) (fr.map (·.1)))[r]? = some k) : k < fr.length := by
  have hm := List.mem_of_getElem? h
  have := (argsort_perm _ _).mem_iff.1 hm
  simpa using this

theorem filterMap_getElem_all {β} (order : List Nat) (fr : List β) (hall : ∀ k ∈ order, k < fr.length) (i : Nat) :
    (order.filterMap fun k => fr[k]?)[i]? = (order[i]?).bind (fun k => fr[k]?) := by
  induction order generalizing i with
  | nil => simp
  | cons a l ih =>
    have ha := hall a (by simp)
    rw [List.filterMap_cons, List.getElem?_eq_getElem ha]
    cases i with
    | zero => simp [List.getElem?_eq_getElem ha]
    | succ j =>
      simp only [List.getElem?_cons_succ]
      exact ih (fun k hk => hall k (by simp [hk])) j

theorem sorted_get (fr : List (Rat × Rat)) (i : Nat) (p : Rat × Rat)
    (h : ((argsort (fun (a b : Rat) => decide (a ≤ b)) (fr.map (·.1))).filterMap fun i => fr[i]?)[i]? = some p) :
    ∃ k, (argsort (fun (a b : Rat) => decide (a ≤ b)) (fr.map (·.1)))[i]? = some k ∧ fr[k]? = some p := by
  rw [filterMap_getElem_all _ fr (fun k hk => by
    obtain ⟨r, hr⟩ := List.mem_iff_getElem?.1 hk
    exact order_get fr r k hr)] at h
  cases ho : (argsort (fun (a b : Rat) => decide (a ≤ b)) (fr.map (·.1)))[i]? with
  | none => rw [ho] at h; simp at h
  | some k => rw [ho] at h; exact ⟨k, rfl, by simpa using h⟩


/-! ## refined tracks and programs that refine (deepening round D) -/

/-- stronger than `refineLoop_settled` at the two edge pixels: the refined coordinate is in `[0, n − 1]` -/
theorem refineLoop_position (eps : Rat) (heps : 0 < eps) (cols : List (List Int)) (h : Nat) (n : Int) (hn : 1 ≤ n)
    (hi : ImageOK cols n) (fuel : Nat) (pts pts' : List (Int × Nat)) (hin : ∀ p ∈ pts, 0 ≤ p.1 ∧ p.1 < n)
    (hr : refineLoop eps cols h n fuel pts = some pts') :
    ∀ p ∈ pts', (0 : Rat) ≤ (p.1 : Rat) + offsetAt eps (cols.getD p.2 []) h p.1 ∧
      (p.1 : Rat) + offsetAt eps (cols.getD p.2 []) h p.1 ≤ (n : Rat) - 1 := by
  intro p hp
  obtain ⟨⟨h0, h1⟩, h2, h3⟩ := refineLoop_settled eps heps cols h n hn hi fuel pts pts' hin hr p hp
  obtain ⟨hc, hl⟩ := imageOK_getD cols n (by omega) hi p.2
  constructor
  · by_cases hz : p.1 = 0
    · rw [hz]; have := offsetAt_first_nonneg eps heps _ hc h; simp; exact this
    · have : (1 : Rat) ≤ (p.1 : Rat) := by exact_mod_cast (by omega : 1 ≤ p.1)
      linarith
  · by_cases hz : p.1 = n - 1
    · rw [hz]; have := offsetAt_last_nonpos eps heps _ hc h n hl; push_cast; linarith
    · have : (p.1 : Rat) ≤ (n : Rat) - 2 := by
        have : p.1 ≤ n - 2 := by omega
        exact_mod_cast this
      linarith

theorem refineIter_times (eps : Rat) (cols : List (List Int)) (h : Nat) (n : Int) (pts : List (Int × Nat)) :
    (refineIter eps cols h n pts).1.map (·.2) = pts.map (·.2) := by
  unfold refineIter
  simp only [List.map_map]
  apply List.map_congr_left
  intro p _
  simp only [Function.comp, movePt]
  split
  · rfl
  · split <;> rfl

theorem refineLoop_times (eps : Rat) (cols : List (List Int)) (h : Nat) (n : Int) (fuel : Nat)
    (pts pts' : List (Int × Nat)) (hr : refineLoop eps cols h n fuel pts = some pts') :
    pts'.map (·.2) = pts.map (·.2) := by
  induction fuel generalizing pts with
  | zero => simp [refineLoop] at hr
  | succ f ih =>
    unfold refineLoop at hr
    simp only at hr
    split at hr
    · injection hr with hr; subst hr
      exact refineIter_times eps cols h n pts
    · rw [ih _ hr, refineIter_times]

theorem roundHalfEven_range (r : Rat) (a b : Int) (ha : (a : Rat) ≤ r) (hb : r ≤ (b : Rat)) :
    a ≤ roundHalfEven r ∧ roundHalfEven r ≤ b := by
  have hf1 : a ≤ r.floor := Rat.le_floor_iff.2 ha
  have hf2 : (r.floor : Rat) ≤ r := Rat.floor_le r
  have hup : r - (r.floor : Rat) ≥ 1/2 → r.floor + 1 ≤ b := by
    intro hge
    have : (r.floor : Rat) < (b : Rat) := by linarith
    have : r.floor < b := by exact_mod_cast this
    omega
  have hfb : r.floor ≤ b := by
    have : (r.floor : Rat) ≤ (b : Rat) := by linarith
    exact_mod_cast this
  unfold roundHalfEven
  simp only
  split
  · exact ⟨hf1, hfb⟩
  · rename_i h1
    split
    · exact ⟨by omega, hup (by linarith)⟩
    · split
      · exact ⟨hf1, hfb⟩
      · exact ⟨by omega, hup (by linarith [not_lt.1 h1])⟩

theorem regroup_flatten {β} (g : List (List β)) : regroup (g.map List.length) g.flatten = g := by
  induction g with
  | nil => rfl
  | cons a g ih =>
    simp only [List.map_cons, List.flatten_cons, regroup, List.take_left', List.drop_left', ih]

theorem regroup_map {β γ} (f : β → γ) (lens : List Nat) (l : List β) :
    (regroup lens l).map (·.map f) = regroup lens (l.map f) := by
  induction lens generalizing l with
  | nil => rfl
  | cons k ks ih => simp only [regroup, List.map_cons, List.map_take, List.map_drop, ih]

theorem regroup_mem {β} (lens : List Nat) (l : List β) : ∀ t ∈ regroup lens l, ∀ x ∈ t, x ∈ l := by
  induction lens generalizing l with
  | nil => intro t ht; simp [regroup] at ht
  | cons k ks ih =>
    intro t ht x hx
    simp only [regroup, List.mem_cons] at ht
    rcases ht with rfl | ht
    · exact List.mem_of_mem_take hx
    · exact List.mem_of_mem_drop (ih _ t ht x hx)

theorem refineTracks_wf (eps : Rat) (heps : 0 < eps) (cols : List (List Int)) (h : Nat) (n : Int) (hn : 1 ≤ n)
    (hi : ImageOK cols n) (g g' : List Track)
    (hg : ∀ t ∈ g, WellFormed (cols.length : Int) 0 ((n : Rat) - 1) t)
    (hr : refineTracks eps cols h n g = .ok g') :
    g'.map timesOf = (g.map interpolate).map timesOf ∧
      ∀ t ∈ g', WellFormed (cols.length : Int) 0 ((n : Rat) - 1) t := by
  have hig : ∀ t ∈ g.map interpolate, WellFormed (cols.length : Int) 0 ((n : Rat) - 1) t := by
    intro t ht
    obtain ⟨t0, ht0, rfl⟩ := List.mem_map.1 ht
    exact interpolate_wf _ _ _ _ (hg t0 ht0)
  unfold refineTracks at hr
  simp only at hr
  generalize hIG : g.map interpolate = ig at hr hig ⊢
  generalize hpts : (ig.flatten.map fun p => (roundHalfEven p.2, p.1.toNat)) = pts at hr
  have hflat : ∀ p ∈ ig.flatten, 0 ≤ p.1 ∧ (0 : Rat) ≤ p.2 ∧ p.2 ≤ (n : Rat) - 1 := by
    intro p hp
    obtain ⟨t, ht, hpt⟩ := List.mem_flatten.1 hp
    have := (hig t ht).2.2 p hpt
    exact ⟨this.1, this.2.2.1, this.2.2.2⟩
  have hin : ∀ p ∈ pts, 0 ≤ p.1 ∧ p.1 < n := by
    intro p hp
    rw [← hpts] at hp
    obtain ⟨q, hq, rfl⟩ := List.mem_map.1 hp
    have hb := hflat q hq
    have := roundHalfEven_range q.2 0 (n - 1) (by push_cast; exact hb.2.1) (by push_cast; exact hb.2.2)
    exact ⟨this.1, by simp only; omega⟩
  unfold refineMoment at hr
  split at hr
  · cases hr
  · rename_i ps hps
    split at hps
    · cases hps
    · split at hps
      · cases hps
      · rename_i _ loopres hloop
        injection hps with hps
        injection hr with hr
        subst hps
        have htimes := refineLoop_times eps cols h n 100 pts loopres hloop
        have hpos := refineLoop_position eps heps cols h n hn hi 100 pts loopres hin hloop
        simp only [List.map_map] at hr
        -- the flat list of refined points
        generalize hout : (loopres.map ((fun q : Rat × Nat × Int => ((q.2.1 : Int), q.1)) ∘ fun p : Int × Nat =>
          ((p.1 : Rat) + offsetAt eps (cols.getD p.2 []) h p.1, p.2, m0At (cols.getD p.2 []) h p.1))) = outl at hr
        have hfst : outl.map (·.1) = ig.flatten.map (·.1) := by
          rw [← hout, List.map_map]
          have e1 : loopres.map (fun p => ((p.2 : Nat) : Int)) = (loopres.map (·.2)).map (fun (k : Nat) => (k : Int)) := by
            rw [List.map_map]; rfl
          show loopres.map (fun p => ((p.2 : Nat) : Int)) = _
          rw [e1, htimes, ← hpts, List.map_map, List.map_map]
          apply List.map_congr_left
          intro p hp
          have := (hflat p hp).1
          simp only [Function.comp]
          omega
        have hT : g'.map timesOf = ig.map timesOf := by
          subst hr
          have := regroup_map (fun p : Int × Rat => p.1) (ig.map List.length) outl
          unfold timesOf
          rw [this, hfst, ← regroup_map, regroup_flatten]
        refine ⟨hT, ?_⟩
        intro t ht
        obtain ⟨j, hj⟩ := List.mem_iff_getElem?.1 ht
        have hj' : (ig.map timesOf)[j]? = some (timesOf t) := by rw [← hT, List.getElem?_map, hj]; rfl
        rw [List.getElem?_map] at hj'
        cases hig_j : ig[j]? with
        | none => rw [hig_j] at hj'; simp at hj'
        | some it =>
          rw [hig_j] at hj'
          simp only [Option.map_some, Option.some.injEq] at hj'
          have hwf := hig it (List.mem_of_getElem? hig_j)
          refine ⟨?_, ?_, ?_⟩
          · intro h0
            have : timesOf it = [] := by rw [hj', h0]; rfl
            exact hwf.1 (List.map_eq_nil_iff.1 this)
          · unfold Inc; rw [← hj']; exact hwf.2.1
          · intro p hp
            have hpt : p.1 ∈ timesOf it := by rw [hj']; exact List.mem_map.2 ⟨p, hp, rfl⟩
            obtain ⟨q, hq, hq1⟩ := List.mem_map.1 hpt
            have hb := hwf.2.2 q hq
            have hpo : p ∈ outl := by subst hr; exact regroup_mem _ _ t ht p hp
            rw [← hout] at hpo
            obtain ⟨lp, hlp, rfl⟩ := List.mem_map.1 hpo
            have := hpos lp hlp
            simp only [Function.comp] at hq1 ⊢
            exact ⟨by omega, by omega, this.1, this.2⟩

theorem runSteps_wf (eps : Rat) (heps : 0 < eps) (lt : Rat) (cols : List (List Int)) (n : Int) (hn : 1 ≤ n)
    (hi : ImageOK cols n) (sts : List Step) (g : List Track)
    (hg : ∀ t ∈ g, WellFormed (cols.length : Int) 0 ((n : Rat) - 1) t) :
    ∀ t ∈ runSteps eps lt cols n sts g, WellFormed (cols.length : Int) 0 ((n : Rat) - 1) t := by
  induction sts generalizing g with
  | nil => exact hg
  | cons st sts ih =>
    unfold runSteps
    split
    · rename_i g' h
      apply ih g'
      cases st with
      | edit op => exact applyOp_wf lt g op g' hg h
      | refine hh => exact (refineTracks_wf eps heps cols hh n hn hi g g' hg h).2
    · exact ih g hg


end Verif.C08
