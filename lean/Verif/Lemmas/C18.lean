/-
  Helper lemmas for C18.
  Part I (frame triple / ROI arithmetic) restates, for the definitions repeated in `Verif.Model.C18`, the lemmas the
  C07 check proves about the same arithmetic (`slice_refines`, `roi_crop_refines`, `roi_apply_shape`); they are
  copied so that C18 does not depend on the C07 files.  Parts II–IV are specific to the export.
-/
import Verif.Model.C18
import Mathlib.Tactic.Linarith
import Mathlib.Tactic.Ring
import Mathlib.Tactic.Positivity
import Mathlib.Tactic.FieldSimp
import Mathlib.Tactic.NormNum
import Mathlib.Algebra.Order.Field.Rat
import Mathlib.Data.Rat.Floor

namespace Verif.C18
open Verif.Py

/-! ## Part I — frame triple and ROI (as in C07) -/

/-! ### integer division facts -/

/-- `(st·d − 1) // (st·c) = (d − 1) // c` : the `num_frames` formula of a stepped sub-stack counts the
    elements of `range(0, d, c)`. -/
theorem mul_ediv_cancel_shift (st c d : Int) (hst : 0 < st) (hc : 0 < c) (_hd : 0 < d) :
    (st * d - 1) / (st * c) = (d - 1) / c := by
  have hq := Int.mul_ediv_add_emod (d - 1) c
  have hr0 := Int.emod_nonneg (d - 1) (Int.ne_of_gt hc)
  have hr1 := Int.emod_lt_of_pos (d - 1) hc
  generalize (d - 1) / c = q at *
  generalize (d - 1) % c = r at *
  have hd' : d = c * q + r + 1 := by omega
  have hstc : 0 < st * c := Int.mul_pos hst hc
  have e : st * d - 1 = (st * (r + 1) - 1) + (st * c) * q := by
    rw [hd']
    have : st * (c * q + r + 1) = st * c * q + st * (r + 1) := by
      rw [show c * q + r + 1 = c * q + (r + 1) by omega, Int.mul_add, Int.mul_assoc]
    omega
  rw [e, Int.add_mul_ediv_left _ _ (Int.ne_of_gt hstc)]
  have h0 : 0 ≤ st * (r + 1) - 1 := by
    have : st * 1 ≤ st * (r + 1) := Int.mul_le_mul_of_nonneg_left (by omega) (Int.le_of_lt hst)
    omega
  have h1 : st * (r + 1) - 1 < st * c := by
    have : st * (r + 1) ≤ st * c := Int.mul_le_mul_of_nonneg_left (by omega) (Int.le_of_lt hst)
    omega
  rw [Int.ediv_eq_zero_of_lt h0 h1]
  omega

theorem neg_one_ediv_pos (st : Int) (hst : 0 < st) : (-1 : Int) / st = -1 := by
  have h : (-1 : Int) = (st - 1) + st * (-1) := by omega
  rw [h, Int.add_mul_ediv_left _ _ (Int.ne_of_gt hst), Int.ediv_eq_zero_of_lt (by omega) (by omega)]
  omega

theorem numFrames_nonneg (s : Stack) (hst : 0 < s.st) : 0 ≤ s.numFrames := by
  unfold Stack.numFrames
  have h : (-1 : Int) / s.st ≤ (max (-1) (s.s1 - s.s0 - 1)) / s.st :=
    Int.ediv_le_ediv hst (Int.le_max_left _ _)
  rw [neg_one_ediv_pos _ hst] at h
  omega

/-- For `idx ≥ 0`: page `s0 + st·idx` lies before `s1` iff `idx < num_frames`. -/
theorem lt_numFrames_iff (s : Stack) (hst : 0 < s.st) (idx : Int) (h0 : 0 ≤ idx) :
    idx < s.numFrames ↔ s.s0 + s.st * idx < s.s1 := by
  unfold Stack.numFrames
  by_cases hD : s.s1 - s.s0 - 1 < 0
  · rw [Int.max_eq_left (by omega), neg_one_ediv_pos _ hst]
    have : 0 ≤ s.st * idx := Int.mul_nonneg (Int.le_of_lt hst) h0
    constructor <;> intro h <;> omega
  · rw [Int.max_eq_right (by omega)]
    have key : idx ≤ (s.s1 - s.s0 - 1) / s.st ↔ idx * s.st ≤ s.s1 - s.s0 - 1 :=
      Int.le_ediv_iff_mul_le hst
    rw [Int.mul_comm] at key
    constructor <;> intro h <;> omega

theorem length_frames (s : Stack) : s.frames.length = s.numFrames.toNat := by
  unfold Stack.frames; simp

theorem getElem?_frames (s : Stack) (k : Nat) (hk : k < s.numFrames.toNat) :
    s.frames[k]? = some (s.s0 + (k : Int) * s.st) := by
  unfold Stack.frames
  rw [List.getElem?_map, List.getElem?_range hk]; rfl

/-! ### `everyNth`, `range'` -/

theorem everyNth_nil {α} (c : Nat) : everyNth c ([] : List α) = [] := by
  unfold everyNth; rfl

theorem everyNth_cons {α} (c : Nat) (x : α) (xs : List α) :
    everyNth c (x :: xs) = x :: everyNth c (xs.drop (c - 1)) := by
  rw [everyNth]

theorem everyNth_map {α β} (f : α → β) (c : Nat) :
    ∀ (n : Nat) (l : List α), l.length ≤ n → everyNth c (l.map f) = (everyNth c l).map f := by
  intro n
  induction n with
  | zero =>
    intro l hl
    have : l = [] := List.eq_nil_of_length_eq_zero (by omega)
    subst this; simp [everyNth_nil]
  | succ n ih =>
    intro l hl
    cases l with
    | nil => simp [everyNth_nil]
    | cons x xs =>
      simp only [List.map_cons, everyNth_cons, ← List.map_drop]
      rw [ih (xs.drop (c - 1)) (by simp at hl ⊢; omega)]

/-- `range(i, i+m)[::c]` = `[i, i+c, i+2c, …]` with `⌈m/c⌉` elements. -/
theorem everyNth_range' (c : Nat) (hc : 0 < c) :
    ∀ (m i : Nat), everyNth c (List.range' i m) = (List.range ((m + c - 1) / c)).map (fun k => i + k * c) := by
  intro m
  induction m using Nat.strongRecOn with
  | _ m ih =>
    intro i
    cases m with
    | zero =>
      have : (0 + c - 1) / c = 0 := Nat.div_eq_of_lt (by omega)
      rw [this]; simp [everyNth_nil]
    | succ m =>
      rw [List.range'_succ, everyNth_cons]
      have hdrop : (List.range' (i + 1) m).drop (c - 1) = List.range' (i + c) (m - (c - 1)) := by
        rw [List.drop_range']
        congr 1
        omega
      rw [hdrop, ih (m - (c - 1)) (by omega) (i + c)]
      have hcount : (m + 1 + c - 1) / c = (m - (c - 1) + c - 1) / c + 1 := by
        by_cases h : c - 1 ≤ m
        · have : m + 1 + c - 1 = (m - (c - 1) + c - 1) + c := by omega
          rw [this, Nat.add_div_right _ hc]
        · have h1 : m - (c - 1) + c - 1 = c - 1 := by omega
          have h2 : m + 1 + c - 1 = m + c := by omega
          rw [h1, h2, Nat.div_eq_of_lt (by omega : c - 1 < c), Nat.add_div_right _ hc,
            Nat.div_eq_of_lt (by omega : m < c)]
      rw [hcount, List.range_succ_eq_map]
      simp only [List.map_cons, List.map_map, Nat.zero_mul, Nat.add_zero]
      congr 1
      apply List.map_congr_left
      intro k _
      simp only [Function.comp, Nat.succ_eq_add_one, Nat.add_mul, Nat.one_mul]
      omega

theorem take_drop_range (N i j : Nat) :
    ((List.range N).take j).drop i = List.range' i (min j N - i) := by
  apply List.ext_getElem?
  intro k
  simp only [List.getElem?_drop, List.getElem?_take]
  by_cases h : i + k < j
  · rw [if_pos h]
    by_cases h2 : i + k < N
    · have hk : k < min j N - i := by omega
      rw [List.getElem?_range h2, List.getElem?_range' hk]; simp
    · have hk : ¬ k < min j N - i := by omega
      rw [List.getElem?_eq_none (by simp; omega), List.getElem?_eq_none (by simp; omega)]
  · have hk : ¬ k < min j N - i := by omega
    rw [if_neg h, List.getElem?_eq_none (by simp; omega)]

/-- `pyNorm` is the positive-step bound normalisation of `slice.indices`. -/
theorem pyNorm_eq_adjust (n : Nat) (v : Int) : (pyNorm n v : Int) = adjustIndex n 0 n v := by
  unfold pyNorm adjustIndex
  split
  · split <;> omega
  · omega

theorem adjust_bounds (n : Nat) (v : Int) : 0 ≤ adjustIndex n 0 n v ∧ adjustIndex n 0 n v ≤ n := by
  unfold adjustIndex; split <;> omega

theorem sliceIndices_pos (a b : Option Int) (c : Int) (hc : 0 < c) (n : Nat) :
    sliceIndices a b c n = (Int.ofNat (sliceIndicesPos a b n).1, Int.ofNat (sliceIndicesPos a b n).2) := by
  unfold sliceIndices sliceIndicesPos
  rw [if_pos hc]
  cases a <;> cases b <;> simp [pyNorm_eq_adjust]

/-! ### `Roi.crop` in one dimension -/

theorem cropBound_eq_pyNorm (dim : Nat) (dflt : Int) (p : Option Int) :
    cropBound dim dflt p = (pyNorm dim (p.getD dflt) : Int) := by
  unfold cropBound pyNorm
  simp only
  split
  · split <;> omega
  · omega

theorem pySlice_nonneg' {α} (l : List α) (i j : Int) (hi : 0 ≤ i) (hj : 0 ≤ j) :
    pySlice l i j = (l.take j.toNat).drop i.toNat := by
  unfold pySlice pyNorm
  rw [if_neg (by omega), if_neg (by omega)]
  apply List.ext_getElem?
  intro k
  simp only [List.getElem?_drop, List.getElem?_take]
  rcases Nat.lt_or_ge (i.toNat + k) l.length with h | h
  · have e : min i.toNat l.length = i.toNat := by omega
    rw [e]
    by_cases hc : i.toNat + k < j.toNat
    · rw [if_pos (by omega), if_pos hc]
    · rw [if_neg (by omega), if_neg hc]
  · rw [if_neg (by omega)]
    split
    · exact (List.getElem?_eq_none (by omega)).symm
    · rfl

/-- Re-cropping a one-dimensional window: the absolute bounds `Roi.crop` computes select exactly the
    Python slice `[a:b]` of the current window `[m0:m1]`. -/
theorem crop1 {α} (l : List α) (m0 m1 : Int) (h0 : 0 ≤ m0) (h01 : m0 ≤ m1) (h1 : m1 ≤ l.length)
    (a b : Option Int) (da db : Int) (hda : a = none → da = 0) (hdb : b = none → db = m1 - m0) :
    pySlice l (cropBound (m1 - m0) da a + m0) (cropBound (m1 - m0) db b + m0) =
      pySliceOpt (pySlice l m0 m1) a b := by
  obtain ⟨dim, hdim⟩ : ∃ dim : Nat, m1 - m0 = dim := ⟨(m1 - m0).toNat, by omega⟩
  have hlen : (pySlice l m0 m1).length = dim := by
    rw [pySlice_nonneg' _ _ _ h0 (by omega)]
    simp only [List.length_drop, List.length_take]
    omega
  have ha : (a.getD da) = a.getD 0 := by
    cases a with
    | none => simp [hda rfl]
    | some v => rfl
  have hb : (b.getD db) = b.getD (dim : Int) := by
    cases b with
    | none => simp [hdb rfl, hdim]
    | some v => rfl
  rw [hdim, cropBound_eq_pyNorm, cropBound_eq_pyNorm, ha, hb]
  unfold pySliceOpt
  rw [hlen]
  generalize a.getD 0 = av
  generalize b.getD (dim : Int) = bv
  have hA : pyNorm dim av ≤ dim := by unfold pyNorm; split <;> (try split) <;> omega
  have hB : pyNorm dim bv ≤ dim := by unfold pyNorm; split <;> (try split) <;> omega
  rw [pySlice_nonneg' _ _ _ (by omega) (by omega)]
  have hdef : ∀ (x y : Int), pySlice (pySlice l m0 m1) x y =
      ((pySlice l m0 m1).take (pyNorm (pySlice l m0 m1).length y)).drop (pyNorm (pySlice l m0 m1).length x) :=
    fun _ _ => rfl
  rw [hdef, hlen, pySlice_nonneg' _ _ _ h0 (by omega)]
  apply List.ext_getElem?
  intro k
  simp only [List.getElem?_drop, List.getElem?_take]
  have e1 : ((pyNorm dim av : Int) + m0).toNat = m0.toNat + pyNorm dim av := by omega
  have e2 : ((pyNorm dim bv : Int) + m0).toNat = m0.toNat + pyNorm dim bv := by omega
  rw [e1, e2]
  by_cases hk : pyNorm dim av + k < pyNorm dim bv
  · rw [if_pos (by omega), if_pos hk, if_pos (by omega)]
    congr 1; omega
  · rw [if_neg (by omega), if_neg hk]

theorem cropBound_range (dim dflt : Int) (p : Option Int) (hdim : 0 ≤ dim) :
    0 ≤ cropBound dim dflt p ∧ cropBound dim dflt p ≤ dim := by
  unfold cropBound; simp only; omega

theorem pySliceOpt_map {α β} (f : α → β) (l : List α) (a b : Option Int) :
    pySliceOpt (l.map f) a b = (pySliceOpt l a b).map f := by
  unfold pySliceOpt pySlice
  simp only [List.length_map, List.map_drop, List.map_take]

theorem mem_of_mem_pySlice {α} {l : List α} {i j : Int} {x : α} (h : x ∈ pySlice l i j) : x ∈ l := by
  unfold pySlice at h
  exact List.mem_of_mem_take (List.mem_of_mem_drop h)

theorem mem_of_mem_pySliceOpt {α} {l : List α} {a b : Option Int} {x : α} (h : x ∈ pySliceOpt l a b) :
    x ∈ l := by
  unfold pySliceOpt at h
  exact mem_of_mem_pySlice h

/-- A ROI with `max ≤ min` in either direction (all corners non-negative) shows no pixel. -/
theorem apply_empty {α} (r : Roi) (raw : List (List α))
    (h : r.xMax ≤ r.xMin ∨ r.yMax ≤ r.yMin) (h0 : 0 ≤ r.xMin ∧ 0 ≤ r.xMax ∧ 0 ≤ r.yMin ∧ 0 ≤ r.yMax) :
    (r.apply raw).flatten = [] := by
  unfold Roi.apply
  rw [List.flatten_eq_nil_iff]
  intro l hl
  rw [List.mem_map] at hl
  obtain ⟨row, hrow, rfl⟩ := hl
  rcases h with h | h
  · rw [pySlice_nonneg' _ _ _ h0.1 h0.2.1]
    apply List.eq_nil_of_length_eq_zero
    simp only [List.length_drop, List.length_take]; omega
  · rw [pySlice_nonneg' _ _ _ h0.2.2.1 h0.2.2.2] at hrow
    have : (List.drop r.yMin.toNat (List.take r.yMax.toNat raw)) = [] := by
      apply List.eq_nil_of_length_eq_zero
      simp only [List.length_drop, List.length_take]; omega
    rw [this] at hrow
    cases hrow

/-! ### the heart of `slice_refines` -/

theorem count_eq (m cn : Nat) (hm : 0 < m) (hcn : 0 < cn) :
    (((m : Int) - 1) / (cn : Int) + 1).toNat = (m + cn - 1) / cn := by
  have h1 : ((m : Int) - 1) / (cn : Int) + 1 = ((m : Int) - 1 + 1 * (cn : Int)) / (cn : Int) := by
    rw [Int.add_mul_ediv_right _ _ (by omega)]
  have h2 : (m : Int) - 1 + 1 * (cn : Int) = ((m + cn - 1 : Nat) : Int) := by omega
  rw [h1, h2, ← Int.natCast_ediv, Int.toNat_natCast]

theorem sliceIndicesPos_le (a b : Option Int) (n : Nat) :
    (sliceIndicesPos a b n).1 ≤ n ∧ (sliceIndicesPos a b n).2 ≤ n := by
  have hp : ∀ v : Int, pyNorm n v ≤ n := by
    intro v; unfold pyNorm; split <;> (try split) <;> omega
  unfold sliceIndicesPos
  cases a <;> cases b <;> simp [hp]

/-- Frames of a stepped sub-stack `(s0 + st·i, s0 + st·j, st·c)` are `frames[i:j:c]`. -/
theorem frames_substack (s : Stack) (hst : 0 < s.st) (N : Nat) (hN : s.numFrames = N)
    (i j cn : Nat) (hij : i < j) (hj : j ≤ N) (hcn : 0 < cn) :
    Stack.frames { s with s0 := s.s0 + s.st * i, s1 := s.s0 + s.st * j, st := s.st * cn } =
      everyNth cn ((s.frames.take j).drop i) := by
  have hfr : s.frames = (List.range N).map (fun (k : Nat) => s.s0 + (k : Int) * s.st) := by
    unfold Stack.frames; rw [hN]; simp
  rw [hfr, ← List.map_take, ← List.map_drop, take_drop_range, Nat.min_eq_left hj,
    everyNth_map _ _ _ _ (Nat.le_refl _), everyNth_range' cn hcn, List.map_map]
  have hcount : (Stack.numFrames { s with s0 := s.s0 + s.st * i, s1 := s.s0 + s.st * j, st := s.st * cn }).toNat
      = (j - i + cn - 1) / cn := by
    unfold Stack.numFrames
    simp only
    have e1 : s.s0 + s.st * (j : Int) - (s.s0 + s.st * (i : Int)) - 1 = s.st * (((j - i : Nat) : Int)) - 1 := by
      have : ((j - i : Nat) : Int) = (j : Int) - (i : Int) := by omega
      rw [this, Int.mul_sub]; omega
    have hge : 0 ≤ s.st * (((j - i : Nat) : Int)) - 1 := by
      have : s.st * 1 ≤ s.st * (((j - i : Nat) : Int)) :=
        Int.mul_le_mul_of_nonneg_left (by omega) (Int.le_of_lt hst)
      omega
    rw [e1, Int.max_eq_right (by omega),
      mul_ediv_cancel_shift _ _ _ hst (by omega) (by omega), count_eq _ _ (by omega) hcn]
  unfold Stack.frames
  rw [hcount]
  apply List.map_congr_left
  intro k _
  simp only [Function.comp]
  have : ((i + k * cn : Nat) : Int) = (i : Int) + (k : Int) * (cn : Int) := by
    rw [Int.natCast_add, Int.natCast_mul]
  rw [this, Int.add_mul, Int.mul_comm s.st (i : Int), Int.mul_assoc, Int.mul_comm (cn : Int) s.st,
    ← Int.mul_assoc]
  omega

/-! ### `numpy.cumsum` / `numpy.argmax` as used by `TiffStack.get_frame` -/

/-- partial sums starting from `s` -/
def psums (s : Int) : List Int → List Int
  | [] => []
  | x :: xs => (s + x) :: psums (s + x) xs

/-- `stack[a:b:c]` for every positive step (and `None`): when the code returns a stack its frames are
    exactly `frames[a:b:c]` (never empty), the step stays positive and the ROI is untouched; it raises
    ("Slice is empty") exactly when `frames[a:b:c]` is empty.  Holds for any depth of nesting because
    the hypothesis `0 < st` is re-established. -/
theorem slice_refines (s : Stack) (hst : 0 < s.st) (a b c : Option Int) (hc : 0 < c.getD 1) :
    match s.sliceFrames a b c with
    | .ok s' => s'.frames = pySliceStep s.frames a b (c.getD 1).toNat ∧ s'.frames ≠ [] ∧
        0 < s'.st ∧ s'.roi = s.roi
    | .error e => e = .empty ∧ pySliceStep s.frames a b (c.getD 1).toNat = [] := by
  obtain ⟨N, hN⟩ : ∃ N : Nat, s.numFrames = N :=
    ⟨s.numFrames.toNat, by have := numFrames_nonneg s hst; omega⟩
  have hlen : s.frames.length = N := by rw [length_frames, hN]; simp
  have hle := sliceIndicesPos_le a b N
  unfold Stack.sliceFrames pySliceStep
  simp only
  generalize c.getD 1 = cv at *
  obtain ⟨cn, hcn⟩ : ∃ cn : Nat, cv = cn := ⟨cv.toNat, by omega⟩
  subst hcn
  rw [if_neg (by omega), hN, sliceIndices_pos a b cn hc N, hlen]
  generalize sliceIndicesPos a b N = ij at *
  obtain ⟨i, j⟩ := ij
  simp only [Int.toNat_natCast, Int.ofNat_eq_natCast] at *
  have hstc : 0 < s.st * (cn : Int) := Int.mul_pos hst hc
  have hdiff : s.s0 + s.st * (j : Int) - (s.s0 + s.st * (i : Int)) = s.st * ((j : Int) - (i : Int)) := by
    rw [Int.mul_sub]; omega
  by_cases hij : i < j
  · have hpos : 0 < s.st * ((j : Int) - (i : Int)) := Int.mul_pos hst (by omega)
    have hcond : ¬ (s.s0 + s.st * (j : Int) = s.s0 + s.st * (i : Int) ∨
        (s.s0 + s.st * (j : Int) - (s.s0 + s.st * (i : Int))).sign ≠ (s.st * (cn : Int)).sign) := by
      rw [hdiff, Int.sign_eq_one_of_pos hpos, Int.sign_eq_one_of_pos hstc]
      intro h
      rcases h with h | h
      · omega
      · exact h rfl
    rw [if_neg hcond, if_neg (by omega)]
    simp only
    have hfs := frames_substack s hst N hN i j cn hij hle.2 (by omega)
    refine ⟨hfs, ?_, hstc, trivial⟩
    rw [hfs]
    have hfr : s.frames = (List.range N).map (fun (k : Nat) => s.s0 + (k : Int) * s.st) := by
      unfold Stack.frames; rw [hN]; simp
    rw [hfr, ← List.map_take, ← List.map_drop, take_drop_range, Nat.min_eq_left hle.2]
    obtain ⟨m, hm⟩ : ∃ m, j - i = m + 1 := ⟨j - i - 1, by omega⟩
    rw [hm, List.range'_succ, List.map_cons, everyNth_cons]
    exact List.cons_ne_nil _ _
  · have hnp : s.st * ((j : Int) - (i : Int)) ≤ 0 := by
      have : s.st * ((j : Int) - (i : Int)) ≤ s.st * 0 :=
        Int.mul_le_mul_of_nonneg_left (by omega) (Int.le_of_lt hst)
      omega
    have hcond : (s.s0 + s.st * (j : Int) = s.s0 + s.st * (i : Int) ∨
        (s.s0 + s.st * (j : Int) - (s.s0 + s.st * (i : Int))).sign ≠ (s.st * (cn : Int)).sign) := by
      rw [hdiff, Int.sign_eq_one_of_pos hstc]
      by_cases h0 : s.st * ((j : Int) - (i : Int)) = 0
      · left; omega
      · right
        rw [Int.sign_eq_neg_one_of_neg (by omega)]
        decide
    rw [if_pos hcond]
    refine ⟨rfl, ?_⟩
    have : (s.frames.take j).drop i = [] := by
      apply List.eq_nil_of_length_eq_zero
      simp only [List.length_drop, List.length_take]; omega
    rw [this, everyNth_nil]


/-- `stack[i]` shows exactly the frame `frames[i]` (as in C07). -/
theorem index_refines (s : Stack) (hst : 0 < s.st) (i : Int) :
    match s.index i, pyIndex s.frames i with
    | .ok s', some p => s'.frames = [p] ∧ s'.st = s.st ∧ s'.roi = s.roi
    | .error e, none => e = .index
    | _, _ => False := by
  obtain ⟨N, hN⟩ : ∃ N : Nat, s.numFrames = N :=
    ⟨s.numFrames.toNat, by have := numFrames_nonneg s hst; omega⟩
  have hlen : s.frames.length = N := by rw [length_frames, hN]; simp
  unfold Stack.index pyIndex
  simp only
  rw [hN, hlen]
  generalize hidx : (if i ≥ 0 then i else i + (N : Int)) = idx
  have single : ∀ ns : Int, Stack.frames { s with s0 := ns, s1 := ns + s.st } = [ns] := by
    intro ns
    unfold Stack.frames Stack.numFrames
    simp only
    have e : ns + s.st - ns - 1 = s.st - 1 := by omega
    rw [e, Int.max_eq_right (by omega), Int.ediv_eq_zero_of_lt (by omega) (by omega)]
    simp
  by_cases hneg : idx < 0
  · -- out of range below
    have hlow : s.s0 + s.st * idx < s.s0 := by
      have : s.st * idx < 0 := Int.mul_neg_of_pos_of_neg hst hneg
      omega
    rw [if_pos (Or.inl hlow)]
    have : (if i < 0 then (if i + (N : Int) < 0 then none else s.frames[(i + (N : Int)).toNat]?)
        else s.frames[i.toNat]?) = none := by
      split at hidx
      · omega
      · rw [if_pos (by omega), if_pos (by omega)]
    rw [this]
  · have hge : 0 ≤ idx := by omega
    have hiff := lt_numFrames_iff s hst idx hge
    rw [hN] at hiff
    have hnn : 0 ≤ s.st * idx := Int.mul_nonneg (Int.le_of_lt hst) hge
    have hget : (if i < 0 then (if i + (N : Int) < 0 then none else s.frames[(i + (N : Int)).toNat]?)
        else s.frames[i.toNat]?) = s.frames[idx.toNat]? := by
      split at hidx
      · rw [if_neg (by omega), hidx]
      · rw [if_pos (by omega), if_neg (by omega), hidx]
    rw [hget]
    by_cases hin : idx < (N : Int)
    · have h1 := hiff.mp hin
      rw [if_neg (by omega), getElem?_frames s idx.toNat (by rw [hN]; simp; omega)]
      refine ⟨?_, rfl, rfl⟩
      rw [single]
      have : ((idx.toNat : Nat) : Int) = idx := by omega
      rw [this, Int.mul_comm]
    · have h1 : ¬ (s.s0 + s.st * idx < s.s1) := fun h => hin (hiff.mpr h)
      rw [if_pos (Or.inr (by omega)), List.getElem?_eq_none (by rw [hlen]; omega)]

theorem pyIndex_map {α β} (g : α → β) (l : List α) (i : Int) : pyIndex (l.map g) i = (pyIndex l i).map g := by
  unfold pyIndex
  simp only [List.length_map, List.getElem?_map]
  split_ifs <;> simp

/-- The ROI lies inside a raw image of `H` rows and `W` columns and is not empty. -/
def Roi.Within (r : Roi) (H W : Nat) : Prop :=
  0 ≤ r.xMin ∧ r.xMin < r.xMax ∧ r.xMax ≤ W ∧ 0 ≤ r.yMin ∧ r.yMin < r.yMax ∧ r.yMax ≤ H

/-- `Roi.crop` then `Roi.__call__` on the raw image is the NumPy slice `[y0:y1, x0:x1]` of the currently
    visible image — for `None`, negative and out-of-range bounds; the new ROI stays inside the raw image and
    non-empty; and the code raises (`ValueError`, "Max must be larger than min") exactly when that NumPy
    slice has no pixels. -/
theorem roi_crop_refines {α} (raw : List (List α)) (H W : Nat) (hH : raw.length = H)
    (hW : ∀ row ∈ raw, row.length = W) (r : Roi) (hr : r.Within H W) (x0 x1 y0 y1 : Option Int) :
    match r.crop x0 x1 y0 y1 with
    | .ok r' => r'.apply raw = pySlice2 (r.apply raw) x0 x1 y0 y1 ∧ r'.Within H W
    | .error e => e = .value ∧ (pySlice2 (r.apply raw) x0 x1 y0 y1).flatten = [] := by
  obtain ⟨hx0, hx01, hx1, hy0, hy01, hy1⟩ := hr
  have hrows := crop1 raw r.yMin r.yMax hy0 (by omega) (by omega) y0 y1 0 (r.yMax - r.yMin)
    (fun _ => rfl) (fun _ => rfl)
  have hcols : ∀ row ∈ raw, pySlice row (cropBound (r.xMax - r.xMin) 0 x0 + r.xMin)
      (cropBound (r.xMax - r.xMin) (r.xMax - r.xMin) x1 + r.xMin) = pySliceOpt (pySlice row r.xMin r.xMax) x0 x1 := by
    intro row hrow
    exact crop1 row r.xMin r.xMax hx0 (by omega) (by rw [hW row hrow]; omega) x0 x1 0 (r.xMax - r.xMin)
      (fun _ => rfl) (fun _ => rfl)
  have key : Roi.apply ⟨cropBound (r.xMax - r.xMin) 0 x0 + r.xMin,
        cropBound (r.xMax - r.xMin) (r.xMax - r.xMin) x1 + r.xMin,
        cropBound (r.yMax - r.yMin) 0 y0 + r.yMin,
        cropBound (r.yMax - r.yMin) (r.yMax - r.yMin) y1 + r.yMin⟩ raw
      = pySlice2 (r.apply raw) x0 x1 y0 y1 := by
    unfold Roi.apply pySlice2
    simp only
    rw [hrows, pySliceOpt_map, List.map_map]
    apply List.map_congr_left
    intro row hrow
    exact hcols row (mem_of_mem_pySlice (mem_of_mem_pySliceOpt hrow))
  have bx0 := cropBound_range (r.xMax - r.xMin) 0 x0 (by omega)
  have bx1 := cropBound_range (r.xMax - r.xMin) (r.xMax - r.xMin) x1 (by omega)
  have by0 := cropBound_range (r.yMax - r.yMin) 0 y0 (by omega)
  have by1 := cropBound_range (r.yMax - r.yMin) (r.yMax - r.yMin) y1 (by omega)
  unfold Roi.crop Roi.make Roi.width Roi.height
  simp only
  generalize hX0 : cropBound (r.xMax - r.xMin) 0 x0 + r.xMin = X0 at *
  generalize hX1 : cropBound (r.xMax - r.xMin) (r.xMax - r.xMin) x1 + r.xMin = X1 at *
  generalize hY0 : cropBound (r.yMax - r.yMin) 0 y0 + r.yMin = Y0 at *
  generalize hY1 : cropBound (r.yMax - r.yMin) (r.yMax - r.yMin) y1 + r.yMin = Y1 at *
  rw [if_neg (by omega)]
  by_cases hbad : X1 ≤ X0 ∨ Y1 ≤ Y0
  · rw [if_pos hbad]
    refine ⟨rfl, ?_⟩
    rw [← key]
    exact apply_empty _ _ hbad (by simp only; omega)
  · rw [if_neg hbad]
    refine ⟨key, ?_⟩
    unfold Roi.Within
    simp only
    omega


/-- Shape of the visible image: `height × width` of the ROI. -/
theorem roi_apply_shape {α} (raw : List (List α)) (H W : Nat) (hH : raw.length = H)
    (hW : ∀ row ∈ raw, row.length = W) (r : Roi) (hr : r.Within H W) :
    ((r.apply raw).length : Int) = r.height ∧ ∀ row ∈ r.apply raw, (row.length : Int) = r.width := by
  obtain ⟨hx0, hx01, hx1, hy0, hy01, hy1⟩ := hr
  unfold Roi.apply Roi.height Roi.width
  constructor
  · rw [List.length_map, pySlice_nonneg' _ _ _ hy0 (by omega)]
    simp only [List.length_drop, List.length_take]; omega
  · intro row hrow
    rw [List.mem_map] at hrow
    obtain ⟨row0, h0, rfl⟩ := hrow
    have := hW row0 (mem_of_mem_pySlice h0)
    rw [pySlice_nonneg' _ _ _ hx0 (by omega)]
    simp only [List.length_drop, List.length_take]; omega



theorem legacy_frame_ranges_len (ts : List (Int × Int)) (hne : ts ≠ []) :
    ∃ r, legacyRanges ts = some r ∧ r.length = ts.length ∧ True := by
  obtain ⟨last, hlast⟩ : ∃ last, ts.getLast? = some last := by
    cases h : ts.getLast? with
    | none => exact absurd (List.getLast?_eq_none_iff.mp h) hne
    | some l => exact ⟨l, rfl⟩
  have hlen : 0 < ts.length := List.length_pos_iff.mpr hne
  unfold legacyRanges
  rw [hlast]
  refine ⟨_, rfl, ?_, trivial⟩
  simp only [List.length_append, List.length_map, List.length_zip, List.length_drop, List.length_cons,
    List.length_nil]
  omega

/-! ## Part II — decimal formatting and the DateTime pattern -/

/-- Value of a digit list, least significant digit first. -/
def valRev : List Char → Nat
  | [] => 0
  | c :: cs => (c.toNat - 48) + 10 * valRev cs

theorem digitChar_toNat : ∀ d, d < 10 → (digitChar d).toNat = 48 + d := by decide

theorem digitChar_isDigit (d : Nat) (h : d < 10) : isDigit (digitChar d) = true := by
  unfold isDigit; rw [digitChar_toNat d h]; simp; omega

theorem natDigitsRev_spec : ∀ (fuel n : Nat), n < fuel →
    valRev (natDigitsRev fuel n) = n ∧ (∀ c ∈ natDigitsRev fuel n, isDigit c = true) ∧
      natDigitsRev fuel n ≠ [] := by
  intro fuel
  induction fuel with
  | zero => intro n h; omega
  | succ fuel ih =>
    intro n hn
    unfold natDigitsRev
    by_cases h10 : n < 10
    · rw [if_pos h10]
      refine ⟨?_, ?_, List.cons_ne_nil _ _⟩
      · simp only [valRev]; rw [digitChar_toNat n h10]; omega
      · intro c hc
        rw [List.mem_singleton] at hc; subst hc
        exact digitChar_isDigit n h10
    · rw [if_neg h10]
      obtain ⟨h1, h2, _⟩ := ih (n / 10) (by omega)
      refine ⟨?_, ?_, List.cons_ne_nil _ _⟩
      · simp only [valRev]; rw [h1, digitChar_toNat _ (Nat.mod_lt _ (by omega))]; omega
      · intro c hc
        rw [List.mem_cons] at hc
        rcases hc with rfl | hc
        · exact digitChar_isDigit _ (Nat.mod_lt _ (by omega))
        · exact h2 c hc

theorem digitsValue_append (xs : List Char) (c : Char) :
    digitsValue (xs ++ [c]) = digitsValue xs * 10 + (c.toNat - 48) := by
  unfold digitsValue; rw [List.foldl_append]; rfl

theorem digitsValue_reverse (l : List Char) : digitsValue l.reverse = valRev l := by
  induction l with
  | nil => rfl
  | cons c cs ih => rw [List.reverse_cons, digitsValue_append, ih]; simp only [valRev]; omega

/-- `int(str(n)) = n`, and `str(n)` is a non-empty run of ASCII digits. -/
theorem natDigits_spec (n : Nat) :
    digitsValue (natDigits n) = n ∧ (∀ c ∈ natDigits n, isDigit c = true) ∧ natDigits n ≠ [] := by
  obtain ⟨h1, h2, h3⟩ := natDigitsRev_spec (n + 1) n (by omega)
  unfold natDigits
  refine ⟨by rw [digitsValue_reverse, h1], ?_, ?_⟩
  · intro c hc; exact h2 c (List.mem_reverse.mp hc)
  · intro h; exact h3 (List.reverse_eq_nil_iff.mp h)

theorem takeWhile_run {α} (p : α → Bool) (l₁ : List α) (x : α) (l₂ : List α)
    (h1 : ∀ c ∈ l₁, p c = true) (hx : p x = false) :
    (l₁ ++ x :: l₂).takeWhile p = l₁ ∧ (l₁ ++ x :: l₂).dropWhile p = x :: l₂ := by
  induction l₁ with
  | nil => simp [hx]
  | cons a as ih =>
    have ha := h1 a (List.mem_cons_self ..)
    obtain ⟨i1, i2⟩ := ih (fun c hc => h1 c (List.mem_cons_of_mem _ hc))
    simp only [List.cons_append, List.takeWhile_cons, List.dropWhile_cons, ha, if_true]
    exact ⟨by rw [i1], i2⟩

theorem takeWhile_all {α} (p : α → Bool) (l : List α) (h : ∀ c ∈ l, p c = true) :
    l.takeWhile p = l ∧ l.dropWhile p = [] := by
  induction l with
  | nil => simp
  | cons a as ih =>
    have ha := h a (List.mem_cons_self ..)
    obtain ⟨i1, i2⟩ := ih (fun c hc => h c (List.mem_cons_of_mem _ hc))
    simp only [List.takeWhile_cons, List.dropWhile_cons, ha, if_true]
    exact ⟨by rw [i1], i2⟩


theorem mem_takeWhile_true {α} (p : α → Bool) : ∀ (l : List α) (c : α), c ∈ l.takeWhile p → p c = true := by
  intro l
  induction l with
  | nil => intro c hc; simp at hc
  | cons a as ih =>
    intro c hc
    rw [List.takeWhile_cons] at hc
    by_cases ha : p a = true
    · rw [if_pos ha, List.mem_cons] at hc
      rcases hc with rfl | hc
      · exact ha
      · exact ih c hc
    · rw [if_neg ha] at hc; simp at hc

theorem colon_not_digit : isDigit ':' = false := by decide
theorem minus_not_digit : isDigit '-' = false := by decide


/-! ## Part III — export of the visible pages -/

theorem mem_everyNth {α} (c : Nat) : ∀ (n : Nat) (l : List α), l.length ≤ n → ∀ x ∈ everyNth c l, x ∈ l := by
  intro n
  induction n with
  | zero =>
    intro l hl x hx
    have : l = [] := List.eq_nil_of_length_eq_zero (by omega)
    subst this; rw [everyNth_nil] at hx; exact hx
  | succ n ih =>
    intro l hl x hx
    cases l with
    | nil => rw [everyNth_nil] at hx; exact hx
    | cons y ys =>
      rw [everyNth_cons, List.mem_cons] at hx
      rcases hx with rfl | hx
      · exact List.mem_cons_self ..
      · have := ih (ys.drop (c - 1)) (by simp at hl ⊢; omega) x hx
        exact List.mem_cons_of_mem _ (List.mem_of_mem_drop this)

theorem mem_of_mem_pySliceStep {α} {l : List α} {a b : Option Int} {c : Nat} {x : α}
    (h : x ∈ pySliceStep l a b c) : x ∈ l := by
  unfold pySliceStep at h
  simp only at h
  have := mem_everyNth c _ _ (Nat.le_refl _) x h
  exact List.mem_of_mem_take (List.mem_of_mem_drop this)

theorem pySliceStep_map {α β} (f : α → β) (l : List α) (a b : Option Int) (c : Nat) :
    pySliceStep (l.map f) a b c = (pySliceStep l a b c).map f := by
  unfold pySliceStep
  simp only [List.length_map]
  rw [← List.map_take, ← List.map_drop, everyNth_map _ _ _ _ (Nat.le_refl _)]

/-- What `export_tiff` writes for one visible page. -/
def outOf {α} (roi : Roi) (p : Page α) : OutPage α := ⟨p.start, p.stop, p.expStop - p.start, roi.apply p.img⟩

theorem zipPages_map {α β} (l : List β) (fi : β → List (List α)) (fr : β → Int × Int) (fe : β → Int) :
    zipPages (l.map fi) (l.map fr) (l.map fe) = l.map fun p => ⟨(fr p).1, (fr p).2, fe p, fi p⟩ := by
  induction l with
  | nil => rfl
  | cons x xs ih =>
    simp only [List.map_cons]
    rw [show fr x = ((fr x).1, (fr x).2) from rfl]
    simp only [zipPages]
    rw [ih]

theorem zipPages_map_img {α} (g : List (List α) → List (List α)) :
    ∀ (imgs : List (List (List α))) (rd : List (Int × Int)) (es : List Int),
      zipPages (imgs.map g) rd es = (zipPages imgs rd es).map fun o => { o with img := g o.img } := by
  intro imgs
  induction imgs with
  | nil => intro rd es; simp [zipPages]
  | cons i is ih =>
    intro rd es
    cases rd with
    | nil => simp [zipPages]
    | cons r rs =>
      cases es with
      | nil => obtain ⟨a, b⟩ := r; simp [zipPages]
      | cons e es =>
        obtain ⟨a, b⟩ := r
        simp only [List.map_cons, zipPages]
        rw [ih]

theorem zipPages_img {α} : ∀ (imgs : List (List (List α))) (rd : List (Int × Int)) (es : List Int),
    imgs.length = rd.length → imgs.length = es.length →
    (zipPages imgs rd es).map (·.img) = imgs ∧ (zipPages imgs rd es).map (fun o => (o.start, o.stop)) = rd ∧
      (zipPages imgs rd es).map (·.exposure) = es := by
  intro imgs
  induction imgs with
  | nil =>
    intro rd es h1 h2
    have : rd = [] := List.eq_nil_of_length_eq_zero (by simpa using h1.symm)
    have : es = [] := List.eq_nil_of_length_eq_zero (by simpa using h2.symm)
    subst_vars; simp [zipPages]
  | cons i is ih =>
    intro rd es h1 h2
    cases rd with
    | nil => simp at h1
    | cons r rs =>
      cases es with
      | nil => simp at h2
      | cons e es =>
        obtain ⟨a, b⟩ := r
        obtain ⟨i1, i2, i3⟩ := ih rs es (by simpa using h1) (by simpa using h2)
        simp only [zipPages, List.map_cons, i1, i2, i3, and_self]

theorem frames_roi (s : Stack) (r : Roi) : Stack.frames { s with roi := r } = s.frames := rfl
theorem inFile_roi (s : Stack) (r : Roi) (n : Nat) : Stack.inFile { s with roi := r } n = s.inFile n := rfl
theorem visible_roi {α} (s : Stack) (r : Roi) (f : File α) : Stack.visible { s with roi := r } f = s.visible f := rfl
theorem ranges_roi {α} (s : Stack) (r : Roi) (f : File α) (d : Bool) :
    Stack.ranges { s with roi := r } f d = s.ranges f d := rfl

/-- Export of a modern (non-legacy) file: one output page per visible frame, in order. -/
theorem exportPages_modern {α} (s : Stack) (f : File α) (hleg : f.legacy = false)
    (hin : s.inFile f.pages.length = true) (hne : s.frames ≠ []) :
    exportPages s f = .ok ((s.visible f).map (outOf s.roi)) := by
  unfold exportPages Stack.ranges
  rw [hin, hleg]
  simp only [Bool.not_true, Bool.false_eq_true, if_false, if_true]
  have hlen : ((s.visible f).map fun p => (p.start, p.stop)).length ≠ 0 := by
    unfold Stack.visible; simp only [List.length_map]
    exact fun h => hne (List.eq_nil_of_length_eq_zero h)
  rw [if_neg hlen, List.map_map]
  have := zipPages_map (s.visible f) (fun p => s.roi.apply p.img) (fun p => (p.start, p.stop))
    (fun p => p.expStop - p.start)
  simp only [Function.comp_def] at this ⊢
  rw [this]; rfl

theorem visible_mem {α} (s : Stack) (f : File α) (hin : s.inFile f.pages.length = true) :
    ∀ p ∈ s.visible f, p ∈ f.pages := by
  intro p hp
  unfold Stack.visible at hp
  rw [List.mem_map] at hp
  obtain ⟨i, hi, rfl⟩ := hp
  unfold Stack.inFile at hin
  rw [List.all_eq_true] at hin
  have := hin i hi
  simp only [Bool.and_eq_true, decide_eq_true_eq] at this
  have hlt : i.toNat < f.pages.length := by omega
  rw [List.getD_eq_getElem?_getD, List.getElem?_eq_getElem hlt]
  exact List.getElem_mem hlt

theorem pySlice_full {α} (l : List α) : pySlice l 0 l.length = l := by
  rw [pySlice_nonneg' _ _ _ (by omega) (by omega)]
  simp

theorem frames_full (n : Nat) (r : Roi) :
    Stack.frames ⟨0, n, 1, r⟩ = (List.range n).map fun (i : Nat) => (i : Int) := by
  unfold Stack.frames Stack.numFrames
  simp only
  have : (max (-1) ((n : Int) - 0 - 1) / 1 + 1).toNat = n := by
    rw [Int.ediv_one]; omega
  rw [this]
  apply List.map_congr_left
  intro i _
  omega

theorem map_getD_range {α} (l : List α) (d : α) :
    (List.range l.length).map (fun (i : Nat) => l.getD i d) = l := by
  apply List.ext_getElem?
  intro k
  rw [List.getElem?_map]
  by_cases hk : k < l.length
  · rw [List.getElem?_range hk, List.getElem?_eq_getElem hk]
    simp [List.getD_eq_getElem?_getD, List.getElem?_eq_getElem hk]
  · rw [List.getElem?_eq_none (by simp; omega), List.getElem?_eq_none (by omega)]
    rfl

theorem zipPages_mem_img {α} : ∀ (imgs : List (List (List α))) (rd : List (Int × Int)) (es : List Int)
    (o : OutPage α), o ∈ zipPages imgs rd es → o.img ∈ imgs := by
  intro imgs
  induction imgs with
  | nil => intro rd es o ho; simp [zipPages] at ho
  | cons i is ih =>
    intro rd es o ho
    cases rd with
    | nil => simp [zipPages] at ho
    | cons r rs =>
      cases es with
      | nil => obtain ⟨a, b⟩ := r; simp [zipPages] at ho
      | cons e es =>
        obtain ⟨a, b⟩ := r
        simp only [zipPages, List.mem_cons] at ho
        rcases ho with rfl | ho
        · exact List.mem_cons_self ..
        · exact List.mem_cons_of_mem _ (ih rs es o ho)

theorem pySliceStep_nil {α} (a b : Option Int) (c : Nat) : pySliceStep ([] : List α) a b c = [] := by
  apply List.eq_nil_iff_forall_not_mem.mpr
  intro x hx
  exact absurd (mem_of_mem_pySliceStep hx) (List.not_mem_nil)

theorem crop_error_value (r : Roi) (x0 x1 y0 y1 : Option Int) (e : Err)
    (h : r.crop x0 x1 y0 y1 = .error e) : e = .value := by
  unfold Roi.crop Roi.make at h
  simp only at h
  split at h
  · cases h; rfl
  · split at h
    · cases h; rfl
    · cases h

/-- An export that succeeds wrote, for every page, the ROI of a page of the file. -/
theorem export_img_source {α} (s : Stack) (f : File α) (out : List (OutPage α))
    (h : exportPages s f = .ok out) :
    ∀ o ∈ out, ∃ p ∈ f.pages, o.img = s.roi.apply p.img := by
  unfold exportPages at h
  by_cases hin : s.inFile f.pages.length = true
  · rw [hin] at h
    simp only [Bool.not_true, Bool.false_eq_true, if_false] at h
    cases hrd : s.ranges f true with
    | none => rw [hrd] at h; cases h
    | some rd =>
      cases hre : s.ranges f false with
      | none => rw [hrd, hre] at h; cases h
      | some re =>
        rw [hrd, hre] at h
        simp only at h
        by_cases h0 : rd.length = 0
        · rw [if_pos h0] at h; cases h
        · rw [if_neg h0] at h
          cases h
          intro o ho
          have := zipPages_mem_img _ _ _ o ho
          rw [List.mem_map] at this
          obtain ⟨p, hp, hpe⟩ := this
          exact ⟨p, visible_mem s f hin p hp, hpe.symm⟩
  · have : s.inFile f.pages.length = false := by simpa using hin
    rw [this] at h
    simp at h

/-- Changing only the ROI changes only the images of the exported pages. -/
theorem exportPages_roi_change {α} (s : Stack) (r' : Roi) (f : File α) (g : List (List α) → List (List α))
    (hg : ∀ p ∈ f.pages, r'.apply p.img = g (s.roi.apply p.img)) :
    exportPages { s with roi := r' } f =
      (exportPages s f).map (List.map fun o => { o with img := g o.img }) := by
  have e1 : Stack.inFile { s with roi := r' } f.pages.length = s.inFile f.pages.length := rfl
  have e2 : ∀ d, Stack.ranges { s with roi := r' } f d = s.ranges f d := fun _ => rfl
  have e3 : Stack.visible { s with roi := r' } f = s.visible f := rfl
  unfold exportPages
  simp only [e1, e2, e3]
  by_cases hin : s.inFile f.pages.length = true
  · rw [hin]
    simp only [Bool.not_true, Bool.false_eq_true, if_false]
    cases s.ranges f true with
    | none => rfl
    | some rd =>
      cases s.ranges f false with
      | none => rfl
      | some re =>
        simp only
        by_cases h0 : rd.length = 0
        · rw [if_pos h0, if_pos h0]; rfl
        · rw [if_neg h0, if_neg h0]
          have himgs : (s.visible f).map (fun p => r'.apply p.img) =
              ((s.visible f).map (fun p => s.roi.apply p.img)).map g := by
            rw [List.map_map]
            apply List.map_congr_left
            intro p hp
            exact hg p (visible_mem s f hin p hp)
          rw [himgs, zipPages_map_img]
          rfl
  · have hfalse : s.inFile f.pages.length = false := by simpa using hin
    rw [hfalse]; rfl

/-- A successful export wrote at least one page (the code refuses to write an empty file). -/
theorem export_nonempty {α} (s : Stack) (f : File α) (h : exportPages s f = .ok []) : False := by
  unfold exportPages at h
  by_cases hin : s.inFile f.pages.length = true
  · rw [hin] at h
    simp only [Bool.not_true, Bool.false_eq_true, if_false] at h
    cases hrd : s.ranges f true with
    | none => rw [hrd] at h; cases h
    | some rd =>
      cases hre : s.ranges f false with
      | none => rw [hrd, hre] at h; cases h
      | some re =>
        rw [hrd, hre] at h
        simp only at h
        by_cases h0 : rd.length = 0
        · rw [if_pos h0] at h; cases h
        · rw [if_neg h0] at h
          have hre' : re = (s.visible f).map fun p => (p.start, p.expStop) := by
            unfold Stack.ranges at hre; simpa using hre.symm
          have hrdlen : rd.length = (s.visible f).length := by
            unfold Stack.ranges at hrd
            simp only [if_true] at hrd
            by_cases hl : f.legacy = true
            · rw [if_pos hl] at hrd
              by_cases hne : ((s.visible f).map fun p => (p.start, p.stop)) = []
              · rw [hne] at hrd; cases hrd
              · obtain ⟨r', hr', hlen', _⟩ := legacy_frame_ranges_len _ hne
                rw [hrd] at hr'; cases hr'
                simpa using hlen'
            · rw [if_neg hl] at hrd
              cases hrd; simp
          obtain ⟨i1, _, _⟩ := zipPages_img ((s.visible f).map fun p => s.roi.apply p.img) rd
            (re.map fun r => r.2 - r.1) (by simp; omega) (by rw [hre']; simp)
          have hz := Except.ok.inj h
          rw [hz] at i1
          simp at i1
          have : (s.visible f).length = 0 := by rw [i1]; rfl
          omega
  · have hfalse : s.inFile f.pages.length = false := by simpa using hin
    rw [hfalse] at h
    simp at h

/-! ## Part IV — `cast_image` -/

theorem foldl_min_spec (l : List Rat) : ∀ m : Rat,
    (l.foldl (fun m y => if y < m then y else m) m = m ∨ l.foldl (fun m y => if y < m then y else m) m ∈ l) ∧
    l.foldl (fun m y => if y < m then y else m) m ≤ m ∧
    ∀ v ∈ l, l.foldl (fun m y => if y < m then y else m) m ≤ v := by
  induction l with
  | nil => intro m; simp
  | cons x xs ih =>
    intro m
    simp only [List.foldl_cons]
    obtain ⟨h1, h2, h3⟩ := ih (if x < m then x else m)
    by_cases hx : x < m
    · simp only [hx, if_true] at h1 h2 h3 ⊢
      refine ⟨?_, le_trans h2 (le_of_lt hx), ?_⟩
      · rcases h1 with h | h
        · right; rw [h]; exact List.mem_cons_self ..
        · right; exact List.mem_cons_of_mem _ h
      · intro v hv
        rcases List.mem_cons.mp hv with rfl | hv
        · exact h2
        · exact h3 v hv
    · simp only [hx, if_false] at h1 h2 h3 ⊢
      refine ⟨?_, h2, ?_⟩
      · rcases h1 with h | h
        · left; exact h
        · right; exact List.mem_cons_of_mem _ h
      · intro v hv
        rcases List.mem_cons.mp hv with rfl | hv
        · exact le_trans h2 (not_lt.mp hx)
        · exact h3 v hv

theorem foldl_max_spec (l : List Rat) : ∀ m : Rat,
    (l.foldl (fun m y => if m < y then y else m) m = m ∨ l.foldl (fun m y => if m < y then y else m) m ∈ l) ∧
    m ≤ l.foldl (fun m y => if m < y then y else m) m ∧
    ∀ v ∈ l, v ≤ l.foldl (fun m y => if m < y then y else m) m := by
  induction l with
  | nil => intro m; simp
  | cons x xs ih =>
    intro m
    simp only [List.foldl_cons]
    obtain ⟨h1, h2, h3⟩ := ih (if m < x then x else m)
    by_cases hx : m < x
    · simp only [hx, if_true] at h1 h2 h3 ⊢
      refine ⟨?_, le_trans (le_of_lt hx) h2, ?_⟩
      · rcases h1 with h | h
        · right; rw [h]; exact List.mem_cons_self ..
        · right; exact List.mem_cons_of_mem _ h
      · intro v hv
        rcases List.mem_cons.mp hv with rfl | hv
        · exact h2
        · exact h3 v hv
    · simp only [hx, if_false] at h1 h2 h3 ⊢
      refine ⟨?_, h2, ?_⟩
      · rcases h1 with h | h
        · left; exact h
        · right; exact List.mem_cons_of_mem _ h
      · intro v hv
        rcases List.mem_cons.mp hv with rfl | hv
        · exact le_trans (not_lt.mp hx) h2
        · exact h3 v hv

/-- `np.min`: an element of the image below all others. -/
theorem listMin_spec (img : List Rat) (hne : img ≠ []) :
    ∃ lo, listMin img = some lo ∧ lo ∈ img ∧ ∀ v ∈ img, lo ≤ v := by
  cases img with
  | nil => exact absurd rfl hne
  | cons x xs =>
    obtain ⟨h1, h2, h3⟩ := foldl_min_spec xs x
    refine ⟨_, rfl, ?_, ?_⟩
    · rcases h1 with h | h
      · rw [h]; exact List.mem_cons_self ..
      · exact List.mem_cons_of_mem _ h
    · intro v hv
      rcases List.mem_cons.mp hv with rfl | hv
      · exact h2
      · exact h3 v hv

theorem listMax_spec (img : List Rat) (hne : img ≠ []) :
    ∃ hi, listMax img = some hi ∧ hi ∈ img ∧ ∀ v ∈ img, v ≤ hi := by
  cases img with
  | nil => exact absurd rfl hne
  | cons x xs =>
    obtain ⟨h1, h2, h3⟩ := foldl_max_spec xs x
    refine ⟨_, rfl, ?_, ?_⟩
    · rcases h1 with h | h
      · rw [h]; exact List.mem_cons_self ..
      · exact List.mem_cons_of_mem _ h
    · intro v hv
      rcases List.mem_cons.mp hv with rfl | hv
      · exact h2
      · exact h3 v hv

/-- The value fits the data type. -/
def InRange (d : DType) (v : Rat) : Prop := d.lo ≤ v ∧ v ≤ d.hi

theorem f32Max_pos : 0 < f32Max := by unfold f32Max; norm_num

theorem lo_le_hi (d : DType) : d.lo ≤ d.hi := by
  cases d
  · simp [DType.lo, DType.hi]
  · simp [DType.lo, DType.hi]
  · simp only [DType.lo, DType.hi]; have := f32Max_pos; linarith

/-- The global min/max test of `cast_image` is the element-wise range test. -/
theorem range_test_iff (d : DType) (img : List Rat) (lo hi : Rat)
    (hlo : lo ∈ img ∧ ∀ v ∈ img, lo ≤ v) (hhi : hi ∈ img ∧ ∀ v ∈ img, v ≤ hi) :
    ¬ (lo < d.lo ∨ d.hi < hi) ↔ ∀ v ∈ img, InRange d v := by
  constructor
  · intro h v hv
    have h1 : ¬ lo < d.lo := fun x => h (Or.inl x)
    have h2 : ¬ d.hi < hi := fun x => h (Or.inr x)
    exact ⟨le_trans (not_lt.mp h1) (hlo.2 v hv), le_trans (hhi.2 v hv) (not_lt.mp h2)⟩
  · intro h hbad
    rcases hbad with hb | hb
    · exact absurd (h lo hlo.1).1 (not_le.mpr hb)
    · exact absurd (h hi hhi.1).2 (not_le.mpr hb)

theorem clipTo_spec (lo hi v : Rat) (h : lo ≤ hi) :
    (lo ≤ clipTo lo hi v ∧ clipTo lo hi v ≤ hi) ∧ (lo ≤ v → v ≤ hi → clipTo lo hi v = v) ∧
      (v < lo → clipTo lo hi v = lo) ∧ (hi < v → clipTo lo hi v = hi) := by
  unfold clipTo
  simp only
  split_ifs with h1 h2 h2
  · exact absurd h2 (not_lt.mpr h)
  · exact ⟨⟨le_refl _, h⟩, fun h3 => absurd h1 (not_lt.mpr h3), fun _ => rfl,
      fun h3 => absurd (lt_trans h3 h1) (not_lt.mpr h)⟩
  · exact ⟨⟨h, le_refl _⟩, fun _ h3 => absurd h2 (not_lt.mpr h3), fun h3 => absurd h3 h1, fun _ => rfl⟩
  · exact ⟨⟨not_lt.mp h1, not_lt.mp h2⟩, fun _ _ => rfl, fun h3 => absurd h3 h1, fun h3 => absurd h3 h2⟩

/-- Integer types: an in-range value is truncated to `⌊v⌋`, which is again in range. -/
theorem astype_int (d : DType) (hd : d = .u8 ∨ d = .u16) (v : Rat) (hv : InRange d v) :
    astype d v = ((⌊v⌋ : Int) : Rat) ∧ InRange d ((⌊v⌋ : Int) : Rat) := by
  have h0 : 0 ≤ v := by
    rcases hd with rfl | rfl <;> exact hv.1
  have hnum : 0 ≤ v.num := Rat.num_nonneg.mpr h0
  have hfl : Int.tdiv v.num v.den = ⌊v⌋ := by
    rw [Int.tdiv_eq_ediv_of_nonneg hnum, ← Rat.floor_def]; rfl
  have hin : InRange d ((⌊v⌋ : Int) : Rat) := by
    refine ⟨?_, le_trans (Int.floor_le v) hv.2⟩
    have : (0 : Int) ≤ ⌊v⌋ := Int.floor_nonneg.mpr h0
    have h' : (0 : Rat) ≤ ((⌊v⌋ : Int) : Rat) := by exact_mod_cast this
    rcases hd with rfl | rfl <;> exact h'
  refine ⟨?_, hin⟩
  rcases hd with rfl | rfl <;> simp only [astype, hfl]

/-! ### float32 rounding -/

theorem roundHalfEven_spec (y : Rat) :
    |((roundHalfEven y : Int) : Rat) - y| ≤ 1 / 2 ∧ (⌊y⌋ ≤ roundHalfEven y ∧ roundHalfEven y ≤ ⌊y⌋ + 1) := by
  have hf : y.floor = ⌊y⌋ := rfl
  have h1 := Int.floor_le y
  have h2 := Int.lt_floor_add_one y
  unfold roundHalfEven
  simp only [hf]
  by_cases c1 : y - (⌊y⌋ : Rat) < 1 / 2
  · rw [if_pos c1]
    refine ⟨?_, le_refl _, by omega⟩
    rw [abs_le]; constructor <;> linarith
  · rw [if_neg c1]
    by_cases c2 : 1 / 2 < y - (⌊y⌋ : Rat)
    · rw [if_pos c2]
      refine ⟨?_, by omega, le_refl _⟩
      push_cast
      rw [abs_le]; constructor <;> linarith
    · rw [if_neg c2]
      have : y - (⌊y⌋ : Rat) = 1 / 2 := le_antisymm (not_lt.mp c2) (not_lt.mp c1)
      by_cases c3 : ⌊y⌋ % 2 = 0
      · rw [if_pos c3]
        refine ⟨?_, le_refl _, by omega⟩
        rw [abs_le]; constructor <;> linarith
      · rw [if_neg c3]
        refine ⟨?_, by omega, le_refl _⟩
        push_cast
        rw [abs_le]; constructor <;> linarith

theorem roundHalfEven_int (n : Int) : roundHalfEven (n : Rat) = n := by
  have hf : (n : Rat).floor = n := Rat.floor_intCast n
  unfold roundHalfEven
  simp only [hf, sub_self]
  norm_num

theorem pow2_eq_zpow (e : Int) : pow2 e = (2 : Rat) ^ e := by
  unfold pow2
  by_cases h : 0 ≤ e
  · rw [if_pos h]
    conv => rhs; rw [← Int.toNat_of_nonneg h]
    rw [zpow_natCast]
  · rw [if_neg h]
    have : e = -((-e).toNat : Int) := by omega
    conv => rhs; rw [this]
    rw [zpow_neg, zpow_natCast, one_div]

theorem pow2_pos (e : Int) : 0 < pow2 e := by rw [pow2_eq_zpow]; exact zpow_pos (by norm_num) e

theorem ulpF32_pos (x : Rat) : 0 < ulpF32 x := pow2_pos _

/-- Rounding error of the float32 cast: at most half a unit in the last place. -/
theorem roundF32_error (x : Rat) : |roundF32 x - x| ≤ ulpF32 x / 2 := by
  unfold roundF32
  by_cases hx : x = 0
  · rw [if_pos hx, hx]; simp; have := ulpF32_pos 0; linarith
  · rw [if_neg hx]
    have hu := ulpF32_pos x
    have h := (roundHalfEven_spec (x / ulpF32 x)).1
    have e : (roundHalfEven (x / ulpF32 x) : Rat) * ulpF32 x - x =
        ((roundHalfEven (x / ulpF32 x) : Rat) - x / ulpF32 x) * ulpF32 x := by
      field_simp
    rw [e, abs_mul, abs_of_pos hu]
    calc |(roundHalfEven (x / ulpF32 x) : Rat) - x / ulpF32 x| * ulpF32 x ≤ 1 / 2 * ulpF32 x :=
          mul_le_mul_of_nonneg_right h (le_of_lt hu)
      _ = ulpF32 x / 2 := by ring

/-! ### float32: exponent, exactness on small integers, range -/

theorem ite_abs (x : Rat) : (if x < 0 then -x else x) = |x| := by
  by_cases h : x < 0
  · rw [if_pos h, abs_of_neg h]
  · rw [if_neg h, abs_of_nonneg (not_lt.mp h)]

theorem abs_eq_natAbs_div (x : Rat) : |x| = (x.num.natAbs : Rat) / (x.den : Rat) := by
  conv => lhs; rw [← Rat.num_div_den x]
  rw [abs_div, Nat.cast_natAbs, Int.cast_abs]
  congr 1
  exact abs_of_pos (by exact_mod_cast x.den_pos)

/-- `2^(ilog2 x) ≤ |x|`. -/
theorem pow2_ilog2_le (x : Rat) (hx : x ≠ 0) : pow2 (ilog2 x) ≤ |x| := by
  unfold ilog2
  simp only [ite_abs]
  split_ifs with h
  · exact h
  · have hp : x.num.natAbs ≠ 0 := by
      intro h0; exact hx (Rat.zero_of_num_zero (Int.natAbs_eq_zero.mp h0))
    have h1 : 2 ^ x.num.natAbs.log2 ≤ x.num.natAbs := Nat.log2_self_le hp
    have h2 : x.den < 2 ^ (x.den.log2 + 1) := Nat.lt_log2_self
    have h1' : ((2 : Rat) ^ x.num.natAbs.log2) ≤ (x.num.natAbs : Rat) := by exact_mod_cast h1
    have h2' : (x.den : Rat) ≤ (2 : Rat) ^ (x.den.log2 + 1) := by exact_mod_cast (le_of_lt h2)
    have hden : (0 : Rat) < (x.den : Rat) := by exact_mod_cast x.den_pos
    rw [pow2_eq_zpow, abs_eq_natAbs_div]
    have e : (2 : Rat) ^ ((x.num.natAbs.log2 : Int) - (x.den.log2 : Int) - 1) =
        (2 : Rat) ^ x.num.natAbs.log2 / (2 : Rat) ^ (x.den.log2 + 1) := by
      rw [show ((x.num.natAbs.log2 : Int) - (x.den.log2 : Int) - 1) =
        (x.num.natAbs.log2 : Int) - ((x.den.log2 + 1 : Nat) : Int) by push_cast; ring]
      rw [zpow_sub₀ (by norm_num), zpow_natCast, zpow_natCast]
    rw [e]
    calc (2 : Rat) ^ x.num.natAbs.log2 / (2 : Rat) ^ (x.den.log2 + 1)
        ≤ (x.num.natAbs : Rat) / (2 : Rat) ^ (x.den.log2 + 1) := by
          apply div_le_div_of_nonneg_right h1' (by positivity)
      _ ≤ (x.num.natAbs : Rat) / (x.den : Rat) := by
          apply div_le_div_of_nonneg_left (by positivity) hden h2'

theorem ilog2_int_le (n : Int) : ilog2 (n : Rat) ≤ (n.natAbs.log2 : Int) := by
  have h1 : ((n : Rat)).num = n := Rat.num_intCast n
  have h2 : ((n : Rat)).den = 1 := Rat.den_intCast n
  have h3 : Nat.log2 1 = 0 := by decide
  unfold ilog2
  simp only []
  split_ifs <;> (rw [h1, h2, h3]; omega)

/-- Integers below `2^24` in magnitude are float32 numbers: the cast is exact. -/
theorem roundF32_int_exact (n : Int) (h : n.natAbs < 2 ^ 24) : roundF32 (n : Rat) = (n : Rat) := by
  unfold roundF32
  by_cases h0 : (n : Rat) = 0
  · rw [if_pos h0, h0]
  · rw [if_neg h0]
    have hn : n ≠ 0 := by intro e; apply h0; rw [e]; rfl
    have hl : n.natAbs.log2 < 24 := (Nat.log2_lt (by omega)).mpr h
    have hi := ilog2_int_le n
    have hk : max (ilog2 (n : Rat)) (-126) - 23 ≤ 0 := by omega
    unfold ulpF32
    generalize max (ilog2 (n : Rat)) (-126) - 23 = k at hk
    obtain ⟨m, hm⟩ : ∃ m : Nat, k = -(m : Int) := ⟨(-k).toNat, by omega⟩
    subst hm
    rw [pow2_eq_zpow, zpow_neg, zpow_natCast]
    have e : (n : Rat) / ((2 : Rat) ^ m)⁻¹ = ((n * 2 ^ m : Int) : Rat) := by
      push_cast; field_simp
    rw [e, roundHalfEven_int]
    push_cast
    field_simp

theorem roundHalfEven_le (y : Rat) (N : Int) (h : y ≤ N) : roundHalfEven y ≤ N := by
  rcases lt_or_eq_of_le h with hlt | heq
  · have h1 := (roundHalfEven_spec y).2.2
    have : ⌊y⌋ < N := Int.floor_lt.mpr hlt
    omega
  · rw [heq, roundHalfEven_int]

theorem le_roundHalfEven (y : Rat) (N : Int) (h : (N : Rat) ≤ y) : N ≤ roundHalfEven y := by
  have h1 := (roundHalfEven_spec y).2.1
  have : N ≤ ⌊y⌋ := Int.le_floor.mpr h
  omega

theorem f32Max_lt : f32Max < (2 : Rat) ^ (128 : Int) := by
  unfold f32Max
  norm_num

/-- The float32 cast keeps a value that fits inside the float32 range (no overflow to infinity). -/
theorem roundF32_in_range (x : Rat) (h : |x| ≤ f32Max) : |roundF32 x| ≤ f32Max := by
  unfold roundF32
  by_cases h0 : x = 0
  · rw [if_pos h0]; simp; exact le_of_lt f32Max_pos
  · rw [if_neg h0]
    have hlow := pow2_ilog2_le x h0
    have hk : max (ilog2 x) (-126) - 23 ≤ 104 := by
      by_cases he : ilog2 x ≤ -126
      · omega
      · have : pow2 (ilog2 x) < (2 : Rat) ^ (128 : Int) := lt_of_le_of_lt (le_trans hlow h) f32Max_lt
        rw [pow2_eq_zpow] at this
        have := (zpow_lt_zpow_iff_right₀ (by norm_num : (1 : Rat) < 2)).mp this
        omega
    unfold ulpF32
    generalize max (ilog2 x) (-126) - 23 = k at hk
    obtain ⟨m, hm⟩ : ∃ m : Nat, k = 104 - (m : Int) := ⟨(104 - k).toNat, by omega⟩
    have hu : (0 : Rat) < pow2 k := pow2_pos k
    have hmax : f32Max = (((2 ^ 24 - 1) * 2 ^ m : Int) : Rat) * pow2 k := by
      rw [pow2_eq_zpow, hm, zpow_sub₀ (by norm_num), zpow_natCast]
      unfold f32Max
      push_cast
      field_simp
      norm_num
    generalize hN : ((2 ^ 24 - 1) * 2 ^ m : Int) = N at hmax
    have habs := abs_le.mp h
    have hy1 : x / pow2 k ≤ (N : Rat) := by
      rw [div_le_iff₀ hu, ← hmax]; exact habs.2
    have hy2 : ((-N : Int) : Rat) ≤ x / pow2 k := by
      rw [le_div_iff₀ hu]; push_cast; rw [neg_mul, ← hmax]; exact habs.1
    have r1 := roundHalfEven_le _ _ hy1
    have r2 := le_roundHalfEven _ _ hy2
    rw [abs_mul, abs_of_pos hu, hmax]
    apply mul_le_mul_of_nonneg_right _ (le_of_lt hu)
    rw [abs_le]
    constructor
    · have : ((-N : Int) : Rat) ≤ ((roundHalfEven (x / pow2 k) : Int) : Rat) := by exact_mod_cast r2
      push_cast at this; exact this
    · exact_mod_cast r1

/-- In the normal range the unit in the last place is at most `2^-23 · |x|`: relative rounding error `≤ 2^-24`. -/
theorem ulpF32_le (x : Rat) (h : pow2 (-126) ≤ |x|) : ulpF32 x ≤ |x| * pow2 (-23) := by
  have hx : x ≠ 0 := by
    intro e; rw [e, abs_zero] at h; exact absurd h (not_le.mpr (pow2_pos _))
  have hlow := pow2_ilog2_le x hx
  unfold ulpF32
  rw [pow2_eq_zpow, pow2_eq_zpow]
  rw [zpow_sub₀ (by norm_num), zpow_neg, div_eq_mul_inv]
  apply mul_le_mul_of_nonneg_right _ (by positivity)
  rcases le_total (ilog2 x) (-126) with hc | hc
  · rw [max_eq_right hc, ← pow2_eq_zpow]; exact h
  · rw [max_eq_left hc, ← pow2_eq_zpow]; exact hlow


/-! ## Part V — the `"Exposure time (ms)"` key -/

/-! ### float64 rounding (the `"Exposure time (ms)"` key) -/

theorem ulpF64_pos (x : Rat) : 0 < ulpF64 x := pow2_pos _

theorem roundF64_zero : roundF64 0 = 0 := by unfold roundF64; rw [if_pos rfl]

/-- Rounding error of one double operation: at most half a unit in the last place. -/
theorem roundF64_error (x : Rat) : |roundF64 x - x| ≤ ulpF64 x / 2 := by
  unfold roundF64
  by_cases hx : x = 0
  · rw [if_pos hx, hx]; simp; have := ulpF64_pos 0; linarith
  · rw [if_neg hx]
    have hu := ulpF64_pos x
    have h := (roundHalfEven_spec (x / ulpF64 x)).1
    have e : (roundHalfEven (x / ulpF64 x) : Rat) * ulpF64 x - x =
        ((roundHalfEven (x / ulpF64 x) : Rat) - x / ulpF64 x) * ulpF64 x := by
      field_simp
    rw [e, abs_mul, abs_of_pos hu]
    calc |(roundHalfEven (x / ulpF64 x) : Rat) - x / ulpF64 x| * ulpF64 x ≤ 1 / 2 * ulpF64 x :=
          mul_le_mul_of_nonneg_right h (le_of_lt hu)
      _ = ulpF64 x / 2 := by ring

theorem ulpF64_le (x : Rat) (h : pow2 (-1022) ≤ |x|) : ulpF64 x ≤ |x| * pow2 (-52) := by
  have hx : x ≠ 0 := by
    intro e; rw [e, abs_zero] at h; exact absurd h (not_le.mpr (pow2_pos _))
  have hlow := pow2_ilog2_le x hx
  unfold ulpF64
  rw [pow2_eq_zpow, pow2_eq_zpow]
  rw [zpow_sub₀ (by norm_num), zpow_neg, div_eq_mul_inv]
  apply mul_le_mul_of_nonneg_right _ (by positivity)
  rcases le_total (ilog2 x) (-1022) with hc | hc
  · rw [max_eq_right hc, ← pow2_eq_zpow]; exact h
  · rw [max_eq_left hc, ← pow2_eq_zpow]; exact hlow

/-- `u = 2^-53`, the unit round-off of float64. -/
def u64 : Rat := 1 / 9007199254740992

theorem pow2_m53 : pow2 (-52) / 2 = u64 := by
  rw [pow2_eq_zpow]; unfold u64; norm_num [zpow_neg]

theorem pow2_m1022_le : pow2 (-1022) ≤ 1 / 1073741824 := by
  rw [pow2_eq_zpow]
  have : (2 : Rat) ^ (-1022 : Int) ≤ (2 : Rat) ^ (-30 : Int) := zpow_le_zpow_right₀ (by norm_num) (by norm_num)
  have h2 : (2 : Rat) ^ (-30 : Int) = 1 / 1073741824 := by norm_num [zpow_neg]
  rw [h2] at this
  exact this

/-- float64 away from the subnormals: relative rounding error at most `2^-53`. -/
theorem f64_relative_error (x : Rat) (h : 1 / 1073741824 ≤ |x|) : |roundF64 x - x| ≤ |x| * u64 := by
  have h1 := roundF64_error x
  have h2 := ulpF64_le x (le_trans pow2_m1022_le h)
  rw [← pow2_m53]
  calc |roundF64 x - x| ≤ ulpF64 x / 2 := h1
    _ ≤ |x| * pow2 (-52) / 2 := by linarith
    _ = |x| * (pow2 (-52) / 2) := by ring

/-- Integers below `2^53` in magnitude are doubles: `np.int64 → float64` is exact. -/
theorem roundF64_int_exact (n : Int) (h : n.natAbs < 2 ^ 53) : roundF64 (n : Rat) = (n : Rat) := by
  unfold roundF64
  by_cases h0 : (n : Rat) = 0
  · rw [if_pos h0, h0]
  · rw [if_neg h0]
    have hn : n ≠ 0 := by intro e; apply h0; rw [e]; rfl
    have hl : n.natAbs.log2 < 53 := (Nat.log2_lt (by omega)).mpr h
    have hi := ilog2_int_le n
    have hk : max (ilog2 (n : Rat)) (-1022) - 52 ≤ 0 := by omega
    unfold ulpF64
    generalize max (ilog2 (n : Rat)) (-1022) - 52 = k at hk
    obtain ⟨m, hm⟩ : ∃ m : Nat, k = -(m : Int) := ⟨(-k).toNat, by omega⟩
    subst hm
    rw [pow2_eq_zpow, zpow_neg, zpow_natCast]
    have e : (n : Rat) / ((2 : Rat) ^ m)⁻¹ = ((n * 2 ^ m : Int) : Rat) := by
      push_cast; field_simp
    rw [e, roundHalfEven_int]
    push_cast
    field_simp

/-- A value closer than one half to an integer rounds to it. -/
theorem roundHalfEven_of_close (y : Rat) (n : Int) (h : |y - n| < 1 / 2) : roundHalfEven y = n := by
  have h1 := (roundHalfEven_spec y).1
  have a1 := abs_le.mp h1
  have a2 := abs_lt.mp h
  have lo : ((roundHalfEven y : Int) : Rat) - n < 1 := by linarith [a1.2, a2.1]
  have hi : -1 < ((roundHalfEven y : Int) : Rat) - n := by linarith [a1.1, a2.2]
  have lo' : roundHalfEven y - n < 1 := by exact_mod_cast lo
  have hi' : -1 < roundHalfEven y - n := by exact_mod_cast hi
  omega

/-- The double `1e-6` is within `2^-53` (relative) of `10^-6`. -/
theorem c1em6_close : |c1em6 * 1000000 - 1| ≤ u64 := by
  have h := f64_relative_error (1 / 1000000) (by rw [abs_of_pos (by norm_num)]; norm_num)
  rw [abs_of_pos (by norm_num : (0 : Rat) < 1 / 1000000)] at h
  have e : c1em6 * 1000000 - 1 = (roundF64 (1 / 1000000) - 1 / 1000000) * 1000000 := by
    unfold c1em6; ring
  rw [e, abs_mul, abs_of_pos (by norm_num : (0 : Rat) < 1000000)]
  calc |roundF64 (1 / 1000000) - 1 / 1000000| * 1000000 ≤ (1 / 1000000 * u64) * 1000000 :=
        mul_le_mul_of_nonneg_right h (by norm_num)
    _ = u64 := by ring


/-- The arithmetic heart of the exposure round trip, over the rationals: `c ≈ 10^-6`, `y ≈ e·c`, `z ≈ 10^6·y`, each
    within the unit round-off, and `|e| ≤ 10^15`: then `z` is closer than one half to `e`. -/
theorem exposure_chain (e c y z : Rat) (hA1 : 1 ≤ |e|) (hA2 : |e| ≤ 1000000000000000)
    (hc : |c * 1000000 - 1| ≤ u64)
    (hy : 1 / 1073741824 ≤ |e * c| → |y - e * c| ≤ |e * c| * u64)
    (hz : 1 / 1073741824 ≤ |1000000 * y| → |z - 1000000 * y| ≤ |1000000 * y| * u64) :
    |z - e| < 1 / 2 := by
  unfold u64 at *
  have h1 : |e * c * 1000000 - e| ≤ |e| * (1 / 9007199254740992) := by
    rw [show e * c * 1000000 - e = e * (c * 1000000 - 1) by ring, abs_mul]
    exact mul_le_mul_of_nonneg_left hc (abs_nonneg e)
  have hB : |e * c| * 1000000 = |e * c * 1000000| := by
    rw [abs_mul (e * c) 1000000, abs_of_pos (by norm_num : (0 : Rat) < 1000000)]
  have b1 := abs_sub_abs_le_abs_sub (e * c * 1000000) e
  have b2 := abs_sub_abs_le_abs_sub e (e * c * 1000000)
  rw [abs_sub_comm e (e * c * 1000000)] at b2
  have hy' := hy (by linarith)
  have h2 : |1000000 * y - e * c * 1000000| ≤ |e * c * 1000000| * (1 / 9007199254740992) := by
    rw [show 1000000 * y - e * c * 1000000 = (y - e * c) * 1000000 by ring, abs_mul,
      abs_of_pos (by norm_num : (0 : Rat) < 1000000), ← hB]
    have := mul_le_mul_of_nonneg_right hy' (by norm_num : (0 : Rat) ≤ 1000000)
    linarith
  have c1 := abs_sub_abs_le_abs_sub (1000000 * y) (e * c * 1000000)
  have c2 := abs_sub_abs_le_abs_sub (e * c * 1000000) (1000000 * y)
  rw [abs_sub_comm (e * c * 1000000) (1000000 * y)] at c2
  have hz' := hz (by linarith)
  have t1 : |z - e| ≤ |z - 1000000 * y| + |1000000 * y - e * c * 1000000| + |e * c * 1000000 - e| := by
    have := abs_add_three (z - 1000000 * y) (1000000 * y - e * c * 1000000) (e * c * 1000000 - e)
    rw [show z - 1000000 * y + (1000000 * y - e * c * 1000000) + (e * c * 1000000 - e) = z - e by ring] at this
    exact this
  linarith

/-- ns → `"Exposure time (ms)"` (float64) → ns is the identity for every exposure up to `10^15` ns (11.5 days). -/
theorem exposure_roundtrip_core (e : Int) (h : e.natAbs ≤ 10 ^ 15) : exposureNs (exposureMs e) = e := by
  by_cases he : e = 0
  · subst he
    unfold exposureNs exposureMs
    rw [Int.cast_zero, roundF64_zero, zero_mul, roundF64_zero, mul_zero, roundF64_zero]
    exact roundHalfEven_int 0
  · have h53 : e.natAbs < 2 ^ 53 := lt_of_le_of_lt h (by norm_num)
    unfold exposureNs exposureMs
    rw [roundF64_int_exact e h53]
    apply roundHalfEven_of_close
    have hA1 : 1 ≤ |(e : Rat)| := by
      have : (1 : Int) ≤ |e| := Int.one_le_abs he
      exact_mod_cast this
    have hA2 : |(e : Rat)| ≤ 1000000000000000 := by
      have : |e| ≤ (1000000000000000 : Int) := by
        rw [Int.abs_eq_natAbs]; exact_mod_cast h
      exact_mod_cast this
    exact exposure_chain (e : Rat) c1em6 _ _ hA1 hA2 c1em6_close
      (fun hn => f64_relative_error _ hn) (fun hn => f64_relative_error _ hn)


/-- The millisecond value written is the exposure to a relative `2^-51` (two double operations). -/
theorem exposure_ms_close_core (e : Int) (h : e.natAbs < 2 ^ 53) :
    |exposureMs e * 1000000 - e| ≤ |(e : Rat)| * (1 / 2251799813685248) := by
  by_cases he : e = 0
  · subst he
    unfold exposureMs
    rw [Int.cast_zero, roundF64_zero, zero_mul, roundF64_zero]
    norm_num
  · unfold exposureMs
    rw [roundF64_int_exact e h]
    have hA1 : 1 ≤ |(e : Rat)| := by
      have : (1 : Int) ≤ |e| := Int.one_le_abs he
      exact_mod_cast this
    have hc := c1em6_close
    generalize c1em6 = c at hc ⊢
    generalize hE : (e : Rat) = E at hA1 ⊢
    unfold u64 at hc
    have h1 : |E * c * 1000000 - E| ≤ |E| * (1 / 9007199254740992) := by
      rw [show E * c * 1000000 - E = E * (c * 1000000 - 1) by ring, abs_mul]
      exact mul_le_mul_of_nonneg_left hc (abs_nonneg E)
    have hB : |E * c| * 1000000 = |E * c * 1000000| := by
      rw [abs_mul (E * c) 1000000, abs_of_pos (by norm_num : (0 : Rat) < 1000000)]
    have b1 := abs_sub_abs_le_abs_sub (E * c * 1000000) E
    have b2 := abs_sub_abs_le_abs_sub E (E * c * 1000000)
    rw [abs_sub_comm E (E * c * 1000000)] at b2
    have hy' := f64_relative_error (E * c) (by linarith)
    unfold u64 at hy'
    have h2 : |roundF64 (E * c) * 1000000 - E * c * 1000000| ≤ |E * c * 1000000| * (1 / 9007199254740992) := by
      rw [show roundF64 (E * c) * 1000000 - E * c * 1000000 = (roundF64 (E * c) - E * c) * 1000000 by ring, abs_mul,
        abs_of_pos (by norm_num : (0 : Rat) < 1000000), ← hB]
      have := mul_le_mul_of_nonneg_right hy' (by norm_num : (0 : Rat) ≤ 1000000)
      linarith
    have t1 : |roundF64 (E * c) * 1000000 - E| ≤
        |roundF64 (E * c) * 1000000 - E * c * 1000000| + |E * c * 1000000 - E| := by
      have := abs_add_le (roundF64 (E * c) * 1000000 - E * c * 1000000) (E * c * 1000000 - E)
      rw [show roundF64 (E * c) * 1000000 - E * c * 1000000 + (E * c * 1000000 - E)
        = roundF64 (E * c) * 1000000 - E by ring] at this
      exact this
    linarith

/-- Reading back through the float key is reading back the integer, when every exposure is at most `10^15` ns. -/
theorem readBackF_eq {α} (out : List (OutPage α)) (h : ∀ o ∈ out, o.exposure.natAbs ≤ 10 ^ 15) :
    readBackF out = readBack out := by
  unfold readBackF readBack
  congr 1
  apply List.map_congr_left
  intro o ho
  rw [exposure_roundtrip_core o.exposure (h o ho)]

/-! ## Part VI — tuple index, invariants of selection programs -/

/-- Every raw page of the file has `H` rows of `W` pixels. -/
def File.Shaped {α} (f : File α) (H W : Nat) : Prop :=
  ∀ p ∈ f.pages, p.img.length = H ∧ ∀ row ∈ p.img, row.length = W

/-! ## tuple index = crop, then frame item -/

theorem sliceFrames_roi (s : Stack) (r : Roi) (a b c : Option Int) :
    Stack.sliceFrames { s with roi := r } a b c = (s.sliceFrames a b c).map fun t => { t with roi := r } := by
  obtain ⟨s0, s1, st, roi⟩ := s
  unfold Stack.sliceFrames Stack.numFrames
  dsimp only
  split_ifs <;> rfl

theorem index_roi (s : Stack) (r : Roi) (i : Int) :
    Stack.index { s with roi := r } i = (s.index i).map fun t => { t with roi := r } := by
  obtain ⟨s0, s1, st, roi⟩ := s
  unfold Stack.index Stack.numFrames
  dsimp only
  split_ifs <;> rfl

theorem frameItem_roi (s : Stack) (r : Roi) (f : Item) :
    Stack.frameItem { s with roi := r } f = (s.frameItem f).map fun t => { t with roi := r } := by
  cases f with
  | int i => exact index_roi s r i
  | slice a b c => exact sliceFrames_roi s r a b c

/-- `stack[f, rows, cols]` is `stack.crop_by_pixels(cols…, rows…)[f]`, refusals included (the crop is tried first). -/
theorem tuple_index_eq (s : Stack) (f rows cols : Item) (x0 x1 y0 y1 : Option Int)
    (hr : interpretCrop rows = .ok (y0, y1)) (hc : interpretCrop cols = .ok (x0, x1)) :
    s.getitemTuple [f, rows, cols] = (s.cropPixels x0 x1 y0 y1).bind fun s' => s'.frameItem f := by
  unfold Stack.getitemTuple Stack.cropPixels
  simp only [List.length_cons, List.length_nil, List.getElem?_cons_zero, List.getElem?_cons_succ, cropOf, hr, hc]
  simp only [bind, Except.bind, Except.map, pure, Except.pure]
  cases hcrop : s.roi.crop x0 x1 y0 y1 with
  | error e => rfl
  | ok r =>
    simp only []
    have key : Stack.frameItem { s0 := s.s0, s1 := s.s1, st := s.st, roi := r } f
        = (s.frameItem f).map fun t => { t with roi := r } := frameItem_roi s r f
    rw [key]
    cases s.frameItem f <;> rfl


/-! ## the hypotheses of the selection theorems are established by the code -/

/-- What the selection / re-export theorems assume of a stack over a file of `H × W` pages. -/
def Stack.Inv {α} (s : Stack) (f : File α) (H W : Nat) : Prop :=
  0 < s.st ∧ s.inFile f.pages.length = true ∧ s.roi.Within H W

/-- `ImageStack(file)` establishes them. -/
theorem ofFile_inv {α} (f : File α) (H W : Nat) (hf : f.Shaped H W) (hne : f.pages ≠ []) (hH : 0 < H) (hW : 0 < W) :
    (Stack.ofFile f).Inv f H W := by
  obtain ⟨pages, leg⟩ := f
  cases pages with
  | nil => exact absurd rfl hne
  | cons p0 ps =>
    have h0 := hf p0 (List.mem_cons_self ..)
    have hrow : ((p0.img.head?).map List.length).getD 0 = W := by
      cases hi : p0.img with
      | nil => rw [hi] at h0; simp at h0; omega
      | cons r0 rs => simp [h0.2 r0 (by rw [hi]; exact List.mem_cons_self ..)]
    have hst : Stack.ofFile (⟨p0 :: ps, leg⟩ : File α) = ⟨0, ((p0 :: ps).length : Nat), 1, ⟨0, (W : Nat), 0, (H : Nat)⟩⟩ := by
      unfold Stack.ofFile
      simp [h0.1, hrow]
    rw [hst]
    refine ⟨by simp, ?_, ?_⟩
    · unfold Stack.inFile
      rw [frames_full, List.all_eq_true]
      intro q hq
      rw [List.mem_map] at hq
      obtain ⟨i, hi, rfl⟩ := hq
      rw [List.mem_range] at hi
      simp only [Bool.and_eq_true, decide_eq_true_eq]
      omega
    · unfold Roi.Within; simp; omega

/-- A frame slice that is accepted had a positive step (zero: `ValueError`; negative: "Slice is empty" or "Reverse
    slicing is not supported"). -/
theorem sliceFrames_ok_step (s : Stack) (hst : 0 < s.st) (a b c : Option Int) (s' : Stack)
    (h : s.sliceFrames a b c = .ok s') : 0 < c.getD 1 := by
  obtain ⟨s0, s1, st, roi⟩ := s
  unfold Stack.sliceFrames at h
  dsimp only at h
  by_contra hc
  have hle : c.getD 1 ≤ 0 := not_lt.mp hc
  split_ifs at h with h0 h1 h2
  have : st * c.getD 1 < 0 := by
    have : c.getD 1 < 0 := by omega
    exact Int.mul_neg_of_pos_of_neg hst this
  exact h2 this

theorem sliceFrames_inv {α} (s : Stack) (f : File α) (H W : Nat) (hi : s.Inv f H W) (a b c : Option Int) (s' : Stack)
    (h : s.sliceFrames a b c = .ok s') : s'.Inv f H W := by
  obtain ⟨hst, hin, hr⟩ := hi
  have hc := sliceFrames_ok_step s hst a b c s' h
  have h0 := slice_refines s hst a b c hc
  rw [h] at h0
  simp only at h0
  obtain ⟨hfr, _, hst', hroi⟩ := h0
  refine ⟨hst', ?_, by rw [hroi]; exact hr⟩
  unfold Stack.inFile at hin ⊢
  rw [List.all_eq_true] at hin ⊢
  intro p hp
  rw [hfr] at hp
  exact hin p (mem_of_mem_pySliceStep hp)

theorem index_inv {α} (s : Stack) (f : File α) (H W : Nat) (hi : s.Inv f H W) (i : Int) (s' : Stack)
    (h : s.index i = .ok s') : s'.Inv f H W := by
  obtain ⟨hst, hin, hr⟩ := hi
  have h0 := index_refines s hst i
  rw [h] at h0
  cases hp : pyIndex s.frames i with
  | none => rw [hp] at h0; exact absurd h0 id
  | some p =>
    rw [hp] at h0
    simp only at h0
    obtain ⟨hfr, hst', hroi⟩ := h0
    have hmem : p ∈ s.frames := by
      unfold pyIndex at hp
      split_ifs at hp
      · exact List.mem_of_getElem? hp
      · exact List.mem_of_getElem? hp
    refine ⟨by rw [hst']; exact hst, ?_, by rw [hroi]; exact hr⟩
    unfold Stack.inFile at hin ⊢
    rw [List.all_eq_true] at hin ⊢
    intro q hq
    rw [hfr, List.mem_singleton] at hq
    subst hq
    exact hin _ hmem

theorem frameItem_inv {α} (s : Stack) (f : File α) (H W : Nat) (hi : s.Inv f H W) (it : Item) (s' : Stack)
    (h : s.frameItem it = .ok s') : s'.Inv f H W := by
  cases it with
  | int i => exact index_inv s f H W hi i s' h
  | slice a b c => exact sliceFrames_inv s f H W hi a b c s' h

theorem roi_crop_within (r : Roi) (H W : Nat) (hr : r.Within H W) (x0 x1 y0 y1 : Option Int) (r' : Roi)
    (h : r.crop x0 x1 y0 y1 = .ok r') : r'.Within H W := by
  have := roi_crop_refines (List.replicate H (List.replicate W ())) H W (by simp)
    (by intro row hrow; rw [List.mem_replicate] at hrow; rw [hrow.2]; simp) r hr x0 x1 y0 y1
  rw [h] at this
  exact this.2

theorem cropPixels_inv {α} (s : Stack) (f : File α) (H W : Nat) (hi : s.Inv f H W) (x0 x1 y0 y1 : Option Int)
    (s' : Stack) (h : s.cropPixels x0 x1 y0 y1 = .ok s') : s'.Inv f H W := by
  obtain ⟨hst, hin, hr⟩ := hi
  unfold Stack.cropPixels at h
  cases hc : s.roi.crop x0 x1 y0 y1 with
  | error e => rw [hc] at h; cases h
  | ok r' =>
    rw [hc] at h
    cases h
    exact ⟨hst, hin, roi_crop_within s.roi H W hr x0 x1 y0 y1 r' hc⟩

/-- Whatever a tuple index accepts is a crop of the ROI and a frame item. -/
theorem getitemTuple_ok (s : Stack) (items : List Item) (s' : Stack) (h : s.getitemTuple items = .ok s') :
    ∃ fi x0 x1 y0 y1 r t, s.roi.crop x0 x1 y0 y1 = .ok r ∧ s.frameItem fi = .ok t ∧ s' = { t with roi := r } := by
  unfold Stack.getitemTuple at h
  cases items with
  | nil => cases h
  | cons fi rest =>
    simp only at h
    split_ifs at h
    simp only [bind, Except.bind, pure, Except.pure] at h
    cases hrows : cropOf rest[0]? with
    | error e => rw [hrows] at h; cases h
    | ok rows =>
      rw [hrows] at h
      simp only at h
      cases hcols : cropOf rest[1]? with
      | error e => rw [hcols] at h; cases h
      | ok cols =>
        rw [hcols] at h
        simp only at h
        cases hcrop : s.roi.crop cols.1 cols.2 rows.1 rows.2 with
        | error e => rw [hcrop] at h; cases h
        | ok r =>
          rw [hcrop] at h
          simp only at h
          cases hfi : s.frameItem fi with
          | error e => rw [hfi] at h; cases h
          | ok t =>
            rw [hfi] at h
            simp only [Except.ok.injEq] at h
            exact ⟨fi, cols.1, cols.2, rows.1, rows.2, r, t, hcrop, hfi, h.symm⟩

theorem getitemTuple_inv {α} (s : Stack) (f : File α) (H W : Nat) (hi : s.Inv f H W) (items : List Item) (s' : Stack)
    (h : s.getitemTuple items = .ok s') : s'.Inv f H W := by
  obtain ⟨fi, x0, x1, y0, y1, r, t, hcrop, hfi, rfl⟩ := getitemTuple_ok s items s' h
  obtain ⟨hst, hin, _⟩ := frameItem_inv s f H W hi fi t hfi
  exact ⟨hst, hin, roi_crop_within s.roi H W hi.2.2 x0 x1 y0 y1 r hcrop⟩

/-- Steps of the public API (everything but the private `from_dataset` bookkeeping). -/
def Op.isPublic : Op → Bool
  | .dataset .. => false
  | _ => true

theorem applyOp_inv {α} (s : Stack) (f : File α) (H W : Nat) (hi : s.Inv f H W) (op : Op) (hp : op.isPublic = true)
    (s' : Stack) (h : s.applyOp op = .ok s') : s'.Inv f H W := by
  cases op with
  | slice a b c => exact sliceFrames_inv s f H W hi a b c s' h
  | index i => exact index_inv s f H W hi i s' h
  | crop x0 x1 y0 y1 => exact cropPixels_inv s f H W hi x0 x1 y0 y1 s' h
  | tuple items => exact getitemTuple_inv s f H W hi items s' h
  | dataset a b c => cases hp

theorem run_inv {α} (f : File α) (H W : Nat) (ops : List Op) : ∀ (s : Stack), s.Inv f H W →
    (∀ op ∈ ops, op.isPublic = true) → ∀ s', s.run ops = .ok s' → s'.Inv f H W := by
  induction ops with
  | nil => intro s hi _ s' h; unfold Stack.run at h; cases h; exact hi
  | cons op rest ih =>
    intro s hi hp s' h
    unfold Stack.run at h
    cases ha : s.applyOp op with
    | error e => rw [ha] at h; cases h
    | ok s1 =>
      rw [ha] at h
      exact ih s1 (applyOp_inv s f H W hi op (hp op (List.mem_cons_self ..)) s1 ha)
        (fun o ho => hp o (List.mem_cons_of_mem _ ho)) s' h

/-! ## Part VII — `Kymo._tiff_timestamp_ranges` -/

theorem foldl_imin_spec (l : List Int) : ∀ m : Int,
    (l.foldl (fun m y => if y < m then y else m) m = m ∨ l.foldl (fun m y => if y < m then y else m) m ∈ l) ∧
    l.foldl (fun m y => if y < m then y else m) m ≤ m ∧
    ∀ v ∈ l, l.foldl (fun m y => if y < m then y else m) m ≤ v := by
  induction l with
  | nil => intro m; simp
  | cons x xs ih =>
    intro m
    simp only [List.foldl_cons]
    obtain ⟨h1, h2, h3⟩ := ih (if x < m then x else m)
    by_cases hx : x < m
    · simp only [hx, if_true] at h1 h2 h3 ⊢
      refine ⟨?_, by omega, ?_⟩
      · rcases h1 with h | h
        · right; rw [h]; exact List.mem_cons_self ..
        · right; exact List.mem_cons_of_mem _ h
      · intro v hv
        rcases List.mem_cons.mp hv with rfl | hv
        · exact h2
        · exact h3 v hv
    · simp only [hx, if_false] at h1 h2 h3 ⊢
      refine ⟨?_, h2, ?_⟩
      · rcases h1 with h | h
        · left; exact h
        · right; exact List.mem_cons_of_mem _ h
      · intro v hv
        rcases List.mem_cons.mp hv with rfl | hv
        · omega
        · exact h3 v hv

theorem foldl_imax_spec (l : List Int) : ∀ m : Int,
    (l.foldl (fun m y => if m < y then y else m) m = m ∨ l.foldl (fun m y => if m < y then y else m) m ∈ l) ∧
    m ≤ l.foldl (fun m y => if m < y then y else m) m ∧
    ∀ v ∈ l, v ≤ l.foldl (fun m y => if m < y then y else m) m := by
  induction l with
  | nil => intro m; simp
  | cons x xs ih =>
    intro m
    simp only [List.foldl_cons]
    obtain ⟨h1, h2, h3⟩ := ih (if m < x then x else m)
    by_cases hx : m < x
    · simp only [hx, if_true] at h1 h2 h3 ⊢
      refine ⟨?_, by omega, ?_⟩
      · rcases h1 with h | h
        · right; rw [h]; exact List.mem_cons_self ..
        · right; exact List.mem_cons_of_mem _ h
      · intro v hv
        rcases List.mem_cons.mp hv with rfl | hv
        · exact h2
        · exact h3 v hv
    · simp only [hx, if_false] at h1 h2 h3 ⊢
      refine ⟨?_, h2, ?_⟩
      · rcases h1 with h | h
        · left; exact h
        · right; exact List.mem_cons_of_mem _ h
      · intro v hv
        rcases List.mem_cons.mp hv with rfl | hv
        · omega
        · exact h3 v hv

/-- All starts and stops of the line ranges (`np.array(ranges)` flattened). -/
def endpoints (lines : List (Int × Int)) : List Int := lines.flatMap fun r => [r.1, r.2]

theorem mem_endpoints (lines : List (Int × Int)) (v : Int) :
    v ∈ endpoints lines ↔ ∃ r ∈ lines, v = r.1 ∨ v = r.2 := by
  unfold endpoints
  simp [List.mem_flatMap]

/-- `kymoRange` is the minimum and the maximum over all endpoints. -/
theorem kymoRange_spec (lines : List (Int × Int)) (hne : lines ≠ []) :
    ∃ lo hi, kymoRange lines = some (lo, hi) ∧ lo ∈ endpoints lines ∧ hi ∈ endpoints lines ∧
      ∀ v ∈ endpoints lines, lo ≤ v ∧ v ≤ hi := by
  unfold kymoRange
  cases hfl : (lines.flatMap fun r => [r.1, r.2]) with
  | nil =>
    exfalso
    cases lines with
    | nil => exact hne rfl
    | cons r rs => simp at hfl
  | cons x xs =>
    have he : endpoints lines = x :: xs := hfl
    obtain ⟨a1, a2, a3⟩ := foldl_imin_spec xs x
    obtain ⟨b1, b2, b3⟩ := foldl_imax_spec xs x
    refine ⟨_, _, rfl, ?_, ?_, ?_⟩
    · rw [he]
      rcases a1 with h | h
      · rw [h]; exact List.mem_cons_self ..
      · exact List.mem_cons_of_mem _ h
    · rw [he]
      rcases b1 with h | h
      · rw [h]; exact List.mem_cons_self ..
      · exact List.mem_cons_of_mem _ h
    · intro v hv
      rw [he] at hv
      rcases List.mem_cons.mp hv with rfl | hv
      · exact ⟨a2, b2⟩
      · exact ⟨a3 v hv, b3 v hv⟩


/-- Lines in time order, each with `start ≤ stop`: the single frame runs from the first start to the last stop. -/
theorem kymoRange_ordered (l : List (Int × Int)) (hne : l ≠ []) (hwf : ∀ r ∈ l, r.1 ≤ r.2)
    (hs : l.Pairwise fun r s => r.1 ≤ s.1 ∧ r.2 ≤ s.2) :
    kymoRange l = some ((l.head hne).1, (l.getLast hne).2) := by
  obtain ⟨lo, hi, hk, hlo, hhi, hall⟩ := kymoRange_spec l hne
  have hfirst : ∀ r ∈ l, (l.head hne).1 ≤ r.1 := by
    cases l with
    | nil => exact absurd rfl hne
    | cons h t =>
      intro r hr
      rcases List.mem_cons.mp hr with rfl | hr
      · exact le_refl _
      · exact ((List.pairwise_cons.mp hs).1 r hr).1
  have hlast : ∀ r ∈ l, r.2 ≤ (l.getLast hne).2 := by
    intro r hr
    have hsplit := List.dropLast_append_getLast hne
    rw [← hsplit] at hs hr
    rcases List.mem_append.mp hr with hr | hr
    · exact ((List.pairwise_append.mp hs).2.2 r hr _ (List.mem_singleton_self _)).2
    · rw [List.mem_singleton] at hr; rw [hr]
  have hhead_mem : l.head hne ∈ l := List.head_mem hne
  have hlast_mem : l.getLast hne ∈ l := List.getLast_mem hne
  have e1 : lo = (l.head hne).1 := by
    have h1 := (hall _ ((mem_endpoints l _).mpr ⟨_, hhead_mem, Or.inl rfl⟩)).1
    obtain ⟨r, hr, hv⟩ := (mem_endpoints l lo).mp hlo
    have := hfirst r hr
    have := hwf r hr
    rcases hv with hv | hv <;> omega
  have e2 : hi = (l.getLast hne).2 := by
    have h1 := (hall _ ((mem_endpoints l _).mpr ⟨_, hlast_mem, Or.inr rfl⟩)).2
    obtain ⟨r, hr, hv⟩ := (mem_endpoints l hi).mp hhi
    have := hlast r hr
    have := hwf r hr
    rcases hv with hv | hv <;> omega
  rw [hk, e1, e2]

/-! ## Part VIII — `export_tiff` as a whole -/

/-- The cast of all frames is the cast of the flattened array, cut back into frames. -/
theorem castFrames_flatten (d : DType) (clip : Bool) (frames : List (List Rat)) :
    (castFrames d clip frames).map List.flatten = castImage d clip frames.flatten := by
  unfold castFrames castImage
  cases listMin frames.flatten <;> cases listMax frames.flatten <;> try rfl
  simp only
  split_ifs <;> simp [Except.map, List.map_flatten, List.map_map]

theorem castFrames_length (d : DType) (clip : Bool) (frames fr : List (List Rat))
    (h : castFrames d clip frames = .ok fr) : fr.length = frames.length := by
  unfold castFrames at h
  cases hmin : listMin frames.flatten <;> cases hmax : listMax frames.flatten <;> rw [hmin, hmax] at h <;>
    try (cases h)
  simp only at h
  split_ifs at h <;> cases h <;> simp

theorem exportTiff_ok (dtype : Option DType) (clip : Bool) (frames : List (List Rat)) (dead exp : List (Int × Int))
    (pages : List TiffPage) (h : exportTiff dtype clip frames dead exp = .ok pages) :
    dead ≠ [] ∧ exp ≠ [] ∧ ∃ fr, framesWritten dtype clip frames = .ok fr ∧
      pages = (fr.zip (dead.zip (exposureTimesMs exp))).map fun t => ⟨encodeRange t.2.1.1 t.2.1.2, t.2.2, t.1⟩ := by
  unfold exportTiff at h
  by_cases hd : dead.length = 0
  · rw [if_pos hd] at h; cases h
  · rw [if_neg hd] at h
    have hdne : dead ≠ [] := fun e => hd (by rw [e]; rfl)
    cases hfw : framesWritten dtype clip frames with
    | error e => rw [hfw] at h; cases h
    | ok fr =>
      rw [hfw] at h
      simp only at h
      by_cases he : exp.length = 0
      · rw [if_pos he] at h; cases h
      · rw [if_neg he] at h
        have hene : exp ≠ [] := fun e => he (by rw [e]; rfl)
        simp only [Except.ok.injEq] at h
        exact ⟨hdne, hene, fr, rfl, h.symm⟩

theorem framesWritten_length (dtype : Option DType) (clip : Bool) (frames fr : List (List Rat))
    (h : framesWritten dtype clip frames = .ok fr) : fr.length = frames.length := by
  cases dtype with
  | none => cases h; rfl
  | some d => exact castFrames_length d clip frames fr h


/-- A page of the stack-level model as the mixin writes it. -/
def toTiff (o : OutPage Rat) : TiffPage := ⟨encodeRange o.start o.stop, exposureMs o.exposure, o.img.flatten⟩

theorem zipPages_toTiff : ∀ (imgs : List (List (List Rat))) (rd re : List (Int × Int)),
    (zipPages imgs rd (re.map fun r => r.2 - r.1)).map toTiff =
      ((imgs.map List.flatten).zip (rd.zip (exposureTimesMs re))).map
        fun t => (⟨encodeRange t.2.1.1 t.2.1.2, t.2.2, t.1⟩ : TiffPage) := by
  intro imgs
  induction imgs with
  | nil => intro rd re; simp [zipPages]
  | cons i is ih =>
    intro rd re
    cases rd with
    | nil => simp [zipPages]
    | cons r rs =>
      obtain ⟨a, b⟩ := r
      cases re with
      | nil => simp [zipPages, exposureTimesMs]
      | cons e es =>
        have := ih rs es
        simp only [exposureTimesMs] at this ⊢
        simp only [List.map_cons, zipPages, List.zip_cons_cons, this, toTiff]

theorem ranges_length {α} (s : Stack) (f : File α) (dead : Bool) (r : List (Int × Int))
    (h : s.ranges f dead = some r) : r.length = (s.visible f).length := by
  unfold Stack.ranges at h
  by_cases hd : dead = true
  · rw [if_pos hd] at h
    by_cases hl : f.legacy = true
    · rw [if_pos hl] at h
      by_cases hne : ((s.visible f).map fun p => (p.start, p.stop)) = []
      · rw [hne] at h; cases h
      · obtain ⟨r', hr', hlen, _⟩ := legacy_frame_ranges_len _ hne
        rw [h] at hr'
        cases hr'
        rw [hlen, List.length_map]
    · rw [if_neg hl] at h
      cases h
      rw [List.length_map]
  · rw [if_neg hd] at h
    cases h
    rw [List.length_map]

/-! ## Part IX — Software tag -/

theorem hasSub_iff (pat : List Char) : ∀ l : List Char,
    hasSub pat l = true ↔ ∃ pre post, l = pre ++ pat ++ post := by
  intro l
  induction l with
  | nil =>
    unfold hasSub
    constructor
    · intro h
      have : pat = [] := List.isEmpty_iff.mp h
      exact ⟨[], [], by simp [this]⟩
    · rintro ⟨pre, post, h⟩
      have h' := h.symm
      simp only [List.append_eq_nil_iff] at h'
      rw [h'.1.2]; rfl
  | cons c cs ih =>
    unfold hasSub
    rw [Bool.or_eq_true, List.isPrefixOf_iff_prefix, ih]
    constructor
    · rintro (⟨t, ht⟩ | ⟨pre, post, h⟩)
      · exact ⟨[], t, by simp [ht]⟩
      · exact ⟨c :: pre, post, by simp [h]⟩
    · rintro ⟨pre, post, h⟩
      cases pre with
      | nil => left; exact ⟨post, by simpa using h.symm⟩
      | cons p ps =>
        right
        simp only [List.cons_append, List.cons.injEq] at h
        exact ⟨ps, post, h.2⟩

theorem lower_pylake : ("Pylake v".toList).map lowerAscii = "pylake v".toList := by decide

theorem softwareOut_marked (sw ver : List Char) :
    hasSub "pylake".toList ((softwareOut sw ver).map lowerAscii) = true := by
  unfold softwareOut
  by_cases h : hasSub "pylake".toList (sw.map lowerAscii) = true
  · rw [if_pos h]; exact h
  · rw [if_neg h]
    rw [hasSub_iff]
    refine ⟨(sw ++ (if sw.length > 0 then ", ".toList else [])).map lowerAscii, " v".toList ++ ver.map lowerAscii, ?_⟩
    simp only [List.map_append, lower_pylake]
    simp

theorem softwareOut_idem (sw ver : List Char) : softwareOut (softwareOut sw ver) ver = softwareOut sw ver := by
  have h := softwareOut_marked sw ver
  generalize softwareOut sw ver = o at h ⊢
  unfold softwareOut
  rw [if_pos h]

theorem softwareOut_prefix (sw ver : List Char) : ∃ t, softwareOut sw ver = sw ++ t := by
  unfold softwareOut
  by_cases h : hasSub "pylake".toList (sw.map lowerAscii) = true
  · rw [if_pos h]; exact ⟨[], by simp⟩
  · rw [if_neg h]
    exact ⟨(if sw.length > 0 then ", ".toList else []) ++ "Pylake v".toList ++ ver, by simp only [List.append_assoc]⟩

/-! ## Part X — alignment keys of `for_export` -/


theorem renameKey_ne_c0 (k : List Char) : renameKey k ≠ c0Key := by
  unfold renameKey
  split_ifs with h0 h1 h2
  · decide
  · decide
  · decide
  · exact h0

theorem appliedKey_a0 : appliedKey a0Key = true := by decide
theorem appliedKey_pylake : appliedKey pylakeKey = false := by decide
theorem pylake_ne_c0 : pylakeKey ≠ c0Key := by decide

theorem contains_c0_addPylake (ks : List (List Char)) : (addPylake ks).contains c0Key = ks.contains c0Key := by
  unfold addPylake
  split_ifs
  · rfl
  · rw [List.contains_eq_mem, List.contains_eq_mem]
    simp only [List.mem_append, List.mem_singleton]
    have : c0Key ≠ pylakeKey := fun h => pylake_ne_c0 h.symm
    simp [this]

theorem any_applied_addPylake (ks : List (List Char)) : (addPylake ks).any appliedKey = ks.any appliedKey := by
  unfold addPylake
  split_ifs
  · rfl
  · rw [List.any_append]; simp [appliedKey_pylake]

theorem status_addPylake (rgb : Bool) (ks : List (List Char)) : alignStatus rgb (addPylake ks) = alignStatus rgb ks := by
  unfold alignStatus
  rw [contains_c0_addPylake, any_applied_addPylake]

theorem addPylake_contains (ks : List (List Char)) : (addPylake ks).contains pylakeKey = true := by
  unfold addPylake
  by_cases h : ks.contains pylakeKey = true
  · rw [if_pos h]; exact h
  · rw [if_neg h, List.contains_eq_mem]; simp

theorem addPylake_idem (ks : List (List Char)) : addPylake (addPylake ks) = addPylake ks := by
  have h := addPylake_contains ks
  generalize addPylake ks = k at h ⊢
  unfold addPylake
  rw [if_pos h]

theorem status_renamed (keys : List (List Char)) (h : keys.contains c0Key = true) :
    alignStatus true (keys.map renameKey) = .applied := by
  unfold alignStatus
  have h1 : (keys.map renameKey).contains c0Key = false := by
    rw [List.contains_eq_mem, decide_eq_false_iff_not, List.mem_map]
    rintro ⟨k, _, hk⟩
    exact renameKey_ne_c0 k hk
  have h2 : (keys.map renameKey).any appliedKey = true := by
    rw [List.any_eq_true]
    refine ⟨a0Key, ?_, appliedKey_a0⟩
    rw [List.mem_map]
    have hm : c0Key ∈ keys := by
      rw [List.contains_eq_mem] at h; exact of_decide_eq_true h
    exact ⟨c0Key, hm, by unfold renameKey; rw [if_pos rfl]⟩
  rw [h1, h2]
  rfl

theorem ready_iff (rgb : Bool) (keys : List (List Char)) :
    alignStatus rgb keys = .ready ↔ rgb = true ∧ keys.contains c0Key = true := by
  unfold alignStatus
  cases rgb
  · simp
  · simp only [Bool.not_true, Bool.false_eq_true, if_false]
    by_cases h : keys.contains c0Key = true
    · rw [if_pos h]; exact ⟨fun _ => ⟨trivial, h⟩, fun _ => rfl⟩
    · rw [if_neg h]
      constructor
      · intro h'; split_ifs at h'
      · intro h'; exact absurd h'.2 h

end Verif.C18
