/-
  Helper lemmas for C04 (core Lean only; re-uses the ceil-division lemmas of C01).
-/
import Verif.Model.C04
import Verif.Lemmas.C01

namespace Verif.C04
open Verif.Py
open Verif.C01 (cdiv cdiv_le_iff cdiv_sub cdiv_mul toIndex_eq_cdiv pySlice_nonneg)

/-- Well-formed source: a continuous channel has a positive period. -/
def Src.wf : Src → Prop
  | .cont c => 0 < c.dt
  | .ts _ => True

/-! ### equidistant samples -/

/-- Proof-side description of an equidistant channel (generic in the value type). -/
def samplesFrom {α} (t0 dt : Int) : List α → List (Int × α)
  | [] => []
  | v :: vs => (t0, v) :: samplesFrom (t0 + dt) dt vs

theorem samplesFrom_length {α} (dt : Int) : ∀ (l : List α) (t0 : Int), (samplesFrom t0 dt l).length = l.length := by
  intro l; induction l with
  | nil => intro t0; rfl
  | cons v vs ih => intro t0; simp [samplesFrom, ih]

theorem samplesFrom_map_snd {α} (dt : Int) : ∀ (l : List α) (t0 : Int), (samplesFrom t0 dt l).map (·.2) = l := by
  intro l; induction l with
  | nil => intro t0; rfl
  | cons v vs ih => intro t0; simp [samplesFrom, ih]

theorem samplesFrom_eq_map {α} (dt : Int) : ∀ (l : List α) (t0 : Int),
    samplesFrom t0 dt l = ((List.range l.length).map fun (i : Nat) => t0 + (i : Int) * dt).zip l := by
  intro l; induction l with
  | nil => intro t0; rfl
  | cons v vs ih =>
    intro t0
    simp only [samplesFrom, List.length_cons, List.range_succ_eq_map, List.map_cons, List.map_map,
      List.zip_cons_cons]
    rw [ih (t0 + dt)]
    congr 2
    · simp
    · apply List.map_congr_left
      intro i _
      simp only [Function.comp]
      rw [Int.natCast_succ, Int.add_mul]; omega

theorem arange_span (start dt : Int) (hdt : 0 < dt) (n : Nat) :
    arange start (start + (n : Int) * dt) dt = (List.range n).map fun (i : Nat) => start + (i : Int) * dt := by
  unfold arange
  have h : (start + (n : Int) * dt - start + dt - 1) / dt = n := by
    have e : start + (n : Int) * dt - start + dt - 1 = (dt - 1) + (n : Int) * dt := by omega
    rw [e, Int.add_mul_ediv_right _ _ (by omega), Int.ediv_eq_zero_of_lt (by omega) (by omega)]
    omega
  rw [h]; simp

/-- The code's `zip(np.arange(start, stop, dt), data)` is the equidistant sample list. -/
theorem cont_samples (c : Cont) (hdt : 0 < c.dt) : c.samples = samplesFrom c.start c.dt c.data := by
  unfold Cont.samples Cont.timestamps Cont.stop
  rw [arange_span _ _ hdt, samplesFrom_eq_map]

theorem cont_timestamps_length (c : Cont) (hdt : 0 < c.dt) : c.timestamps.length = c.data.length := by
  unfold Cont.timestamps Cont.stop
  rw [arange_span _ _ hdt]; simp

/-- The arithmetic heart (generic copy of `C01.filter_samplesFrom`): filtering an equidistant sample
    list by a window is `take`/`drop` with ceil-division indices. -/
theorem filter_samplesFrom {α} (dt : Int) (hdt : 0 < dt) (a b : Int) :
    ∀ (l : List α) (t0 : Int),
      (samplesFrom t0 dt l).filter (fun s => decide (a ≤ s.1) && decide (s.1 < b)) =
        samplesFrom (t0 + (cdiv (a - t0) dt).toNat * dt) dt
          ((l.take (cdiv (b - t0) dt).toNat).drop (cdiv (a - t0) dt).toNat) := by
  intro l
  induction l with
  | nil => intro t0; simp [samplesFrom]
  | cons v vs ih =>
    intro t0
    have hL : cdiv (a - (t0 + dt)) dt = cdiv (a - t0) dt - 1 := by
      have : a - (t0 + dt) = (a - t0) - dt := by omega
      rw [this, cdiv_sub _ _ hdt]
    have hH : cdiv (b - (t0 + dt)) dt = cdiv (b - t0) dt - 1 := by
      have : b - (t0 + dt) = (b - t0) - dt := by omega
      rw [this, cdiv_sub _ _ hdt]
    have hLle : cdiv (a - t0) dt ≤ 0 ↔ a ≤ t0 := by
      rw [cdiv_le_iff hdt]; omega
    have hHle : cdiv (b - t0) dt ≤ 0 ↔ b ≤ t0 := by
      rw [cdiv_le_iff hdt]; omega
    simp only [samplesFrom, List.filter_cons]
    rw [ih (t0 + dt), hL, hH]
    generalize hLdef : cdiv (a - t0) dt = L at *
    generalize hHdef : cdiv (b - t0) dt = H at *
    by_cases h1 : a ≤ t0
    · have hL0 : L ≤ 0 := hLle.mpr h1
      have hLn : L.toNat = 0 := by omega
      have hLn' : (L - 1).toNat = 0 := by omega
      by_cases h2 : t0 < b
      · have hH0 : 0 < H := by
          by_cases h : 0 < H
          · exact h
          · exact absurd (hHle.mp (by omega)) (by omega)
        obtain ⟨m, hm⟩ : ∃ m : Nat, (H - 1).toNat = m ∧ H.toNat = m + 1 := ⟨(H-1).toNat, rfl, by omega⟩
        rw [hLn, hLn', hm.1, hm.2]
        simp [h1, h2, samplesFrom]
      · have hH0 : H ≤ 0 := hHle.mpr (by omega)
        have hHn : H.toNat = 0 := by omega
        have hHn' : (H - 1).toNat = 0 := by omega
        rw [hLn, hLn', hHn, hHn']
        simp [h1, h2, samplesFrom]
    · have hL0 : 0 < L := by
        by_cases h : 0 < L
        · exact h
        · exact absurd (hLle.mp (by omega)) h1
      obtain ⟨k, hk1, hk2⟩ : ∃ k : Nat, (L - 1).toNat = k ∧ L.toNat = k + 1 := ⟨(L-1).toNat, rfl, by omega⟩
      have hshift : t0 + dt + (k : Int) * dt = t0 + ((k + 1 : Nat) : Int) * dt := by
        rw [Int.natCast_add, Int.add_mul]; omega
      by_cases hH0 : 0 < H
      · obtain ⟨m, hm⟩ : ∃ m : Nat, (H - 1).toNat = m ∧ H.toNat = m + 1 := ⟨(H-1).toNat, rfl, by omega⟩
        rw [hk1, hk2, hm.1, hm.2, hshift]
        simp [h1]
      · have hHn : H.toNat = 0 := by omega
        have hHn' : (H - 1).toNat = 0 := by omega
        rw [hk1, hk2, hHn, hHn']
        simp [h1, samplesFrom]

theorem inWin_eq (a b : Int) : inWin a b = fun (s : Sample) => decide (a ≤ s.1) && decide (s.1 < b) := rfl

/-- `Continuous.slice` returns exactly the samples of the window. -/
theorem cont_slice_samples (c : Cont) (hdt : 0 < c.dt) (a b : Int) :
    (c.slice a b).samples = c.samples.filter (inWin a b) := by
  have hdt' : 0 < (c.slice a b).dt := hdt
  rw [cont_samples _ hdt', cont_samples c hdt, inWin_eq, filter_samplesFrom c.dt hdt a b c.data c.start]
  have hal := C01.alignedStart_eq ⟨c.start, c.dt, []⟩ hdt a
  simp only [] at hal
  show samplesFrom (C01.alignedStart ⟨c.start, c.dt, []⟩ a) c.dt
    (pySlice c.data (C01.toIndex c.start c.dt (C01.alignedStart ⟨c.start, c.dt, []⟩ a))
      (max (C01.toIndex c.start c.dt b) 0)) = _
  rw [hal]
  have hidx : C01.toIndex c.start c.dt (c.start + ((cdiv (a - c.start) c.dt).toNat : Int) * c.dt)
      = ((cdiv (a - c.start) c.dt).toNat : Int) := by
    rw [toIndex_eq_cdiv]
    have : c.start + ((cdiv (a - c.start) c.dt).toNat : Int) * c.dt - c.start
        = ((cdiv (a - c.start) c.dt).toNat : Int) * c.dt := by omega
    rw [this, cdiv_mul _ _ hdt]
  rw [hidx, pySlice_nonneg _ _ _ (by omega) (by omega), toIndex_eq_cdiv]
  have e1 : ((((cdiv (a - c.start) c.dt).toNat : Nat) : Int)).toNat = (cdiv (a - c.start) c.dt).toNat :=
    Int.toNat_natCast _
  have e2 : (max (cdiv (b - c.start) c.dt) 0).toNat = (cdiv (b - c.start) c.dt).toNat := by omega
  rw [e1, e2]

/-- `self[a:b]` returns exactly the samples with `a ≤ t < b`, for both kinds of source (an empty
    source returns itself, which has no samples). -/
theorem getitem_samples' (s : Src) (h : s.wf) (a b : Int) :
    (s.getitem a b).samples = s.samples.filter (inWin a b) := by
  unfold Src.getitem
  cases s with
  | cont c =>
    by_cases h0 : (Src.cont c).len = 0
    · rw [if_pos h0]
      have : c.data = [] := List.eq_nil_of_length_eq_zero h0
      simp [Src.samples, Cont.samples, this]
    · rw [if_neg h0]
      exact cont_slice_samples c h a b
  | ts l =>
    by_cases h0 : (Src.ts l).len = 0
    · rw [if_pos h0]
      have : l = [] := List.eq_nil_of_length_eq_zero h0
      simp [Src.samples, this]
    · rw [if_neg h0]; rfl

/-! ### `downsampled_over` -/

/-- Specification of one output sample, from the list `W` of the source samples inside the window
    `r`: nothing for an empty window; otherwise the timestamp is the midpoint (floor) of the first and
    last source timestamp or the window start, and the value is `f` of the window's values. -/
def windowSample (f : List Rat → Rat) (center : Bool) (r : Int × Int) (W : List Sample) : Option Sample :=
  match W.head?, W.getLast? with
  | some x, some y => some (if center then (x.1 + y.1) / 2 else r.1, f (W.map (·.2)))
  | _, _ => none

theorem overStep_eq (f : List Rat → Rat) (s : Src) (h : s.wf) (center : Bool) (r : Int × Int) :
    overStep f s center r = windowSample f center r (s.samples.filter (inWin r.1 r.2)) := by
  unfold overStep
  rw [getitem_samples' s h]
  generalize s.samples.filter (inWin r.1 r.2) = W
  cases W with
  | nil => rfl
  | cons x xs =>
    simp only [windowSample, List.head?_cons]
    cases hl : (x :: xs).getLast? with
    | none => simp at hl
    | some y => rfl

theorem over_ok (f : List Rat → Rat) (s : Src) (h : s.wf) (ranges : List (Int × Int)) (center : Bool)
    (out : List Sample) (ho : over f s ranges (some center) = .ok out) :
    ∃ st sp, s.start? = some st ∧ s.stop? = some sp ∧
      out = (ranges.filter fun r => decide (st ≤ r.1) && decide (r.2 ≤ sp)).filterMap fun r =>
        windowSample f center r (s.samples.filter (inWin r.1 r.2)) := by
  unfold over at ho
  split at ho
  · split at ho
    · rename_i st sp hst hsp
      split at ho
      · cases ho
      · simp only [Except.ok.injEq] at ho
        refine ⟨st, sp, hst, hsp, ?_⟩
        rw [← ho]
        have : (fun r => overStep f s center r) = fun r => windowSample f center r (s.samples.filter (inWin r.1 r.2)) := by
          funext r; exact overStep_eq f s h center r
        simp only [ge_iff_le]
        rw [← this]
    · cases ho
  · cases ho

end Verif.C04
