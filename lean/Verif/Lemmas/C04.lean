/-
  Helper lemmas for C04 (core Lean + the Mathlib tactics `ring`/`linarith`/`push_cast`; re-uses the
  ceil-division lemmas of C01).
-/
import Verif.Model.C04
import Verif.Lemmas.C01
import Mathlib.Tactic.Ring
import Mathlib.Tactic.Linarith

namespace Verif.C04
open Verif.Py
open Verif.C01 (cdiv cdiv_le_iff cdiv_sub cdiv_mul toIndex_eq_cdiv pySlice_nonneg)

/-- Well-formed source: a continuous channel has a positive period. -/
def Src.wf : Src → Prop
  | .cont c => 0 < c.dt
  | .ts _ => True

/-! ### equidistant samples -/

/-- Proof-side description of an equidistant channel (generic in the value type). -/
def samplesFrom {α} (t0 dt : Int) : List α → List (Int × α)
  | [] => []
  | v :: vs => (t0, v) :: samplesFrom (t0 + dt) dt vs

theorem samplesFrom_length {α} (dt : Int) : ∀ (l : List α) (t0 : Int), (samplesFrom t0 dt l).length = l.length := by
  intro l; induction l with
  | nil => intro t0; rfl
  | cons v vs ih => intro t0; simp [samplesFrom, ih]

theorem samplesFrom_map_snd {α} (dt : Int) : ∀ (l : List α) (t0 : Int), (samplesFrom t0 dt l).map (·.2) = l := by
  intro l; induction l with
  | nil => intro t0; rfl
  | cons v vs ih => intro t0; simp [samplesFrom, ih]

theorem samplesFrom_eq_map {α} (dt : Int) : ∀ (l : List α) (t0 : Int),
    samplesFrom t0 dt l = ((List.range l.length).map fun (i : Nat) => t0 + (i : Int) * dt).zip l := by
  intro l; induction l with
  | nil => intro t0; rfl
  | cons v vs ih =>
    intro t0
    simp only [samplesFrom, List.length_cons, List.range_succ_eq_map, List.map_cons, List.map_map,
      List.zip_cons_cons]
    rw [ih (t0 + dt)]
    congr 2
    · simp
    · apply List.map_congr_left
      intro i _
      simp only [Function.comp]
      rw [Int.natCast_succ, Int.add_mul]; omega

theorem arange_span (start dt : Int) (hdt : 0 < dt) (n : Nat) :
    arange start (start + (n : Int) * dt) dt = (List.range n).map fun (i : Nat) => start + (i : Int) * dt := by
  unfold arange
  have h : (start + (n : Int) * dt - start + dt - 1) / dt = n := by
    have e : start + (n : Int) * dt - start + dt - 1 = (dt - 1) + (n : Int) * dt := by omega
    rw [e, Int.add_mul_ediv_right _ _ (by omega), Int.ediv_eq_zero_of_lt (by omega) (by omega)]
    omega
  rw [h]; simp

/-- The code's `zip(np.arange(start, stop, dt), data)` is the equidistant sample list. -/
theorem cont_samples (c : Cont) (hdt : 0 < c.dt) : c.samples = samplesFrom c.start c.dt c.data := by
  unfold Cont.samples Cont.timestamps Cont.stop
  rw [arange_span _ _ hdt, samplesFrom_eq_map]

theorem cont_timestamps_length (c : Cont) (hdt : 0 < c.dt) : c.timestamps.length = c.data.length := by
  unfold Cont.timestamps Cont.stop
  rw [arange_span _ _ hdt]; simp

/-- The arithmetic heart (generic copy of `C01.filter_samplesFrom`): filtering an equidistant sample
    list by a window is `take`/`drop` with ceil-division indices. -/
theorem filter_samplesFrom {α} (dt : Int) (hdt : 0 < dt) (a b : Int) :
    ∀ (l : List α) (t0 : Int),
      (samplesFrom t0 dt l).filter (fun s => decide (a ≤ s.1) && decide (s.1 < b)) =
        samplesFrom (t0 + (cdiv (a - t0) dt).toNat * dt) dt
          ((l.take (cdiv (b - t0) dt).toNat).drop (cdiv (a - t0) dt).toNat) := by
  intro l
  induction l with
  | nil => intro t0; simp [samplesFrom]
  | cons v vs ih =>
    intro t0
    have hL : cdiv (a - (t0 + dt)) dt = cdiv (a - t0) dt - 1 := by
      have : a - (t0 + dt) = (a - t0) - dt := by omega
      rw [this, cdiv_sub _ _ hdt]
    have hH : cdiv (b - (t0 + dt)) dt = cdiv (b - t0) dt - 1 := by
      have : b - (t0 + dt) = (b - t0) - dt := by omega
      rw [this, cdiv_sub _ _ hdt]
    have hLle : cdiv (a - t0) dt ≤ 0 ↔ a ≤ t0 := by
      rw [cdiv_le_iff hdt]; omega
    have hHle : cdiv (b - t0) dt ≤ 0 ↔ b ≤ t0 := by
      rw [cdiv_le_iff hdt]; omega
    simp only [samplesFrom, List.filter_cons]
    rw [ih (t0 + dt), hL, hH]
    generalize hLdef : cdiv (a - t0) dt = L at *
    generalize hHdef : cdiv (b - t0) dt = H at *
    by_cases h1 : a ≤ t0
    · have hL0 : L ≤ 0 := hLle.mpr h1
      have hLn : L.toNat = 0 := by omega
      have hLn' : (L - 1).toNat = 0 := by omega
      by_cases h2 : t0 < b
      · have hH0 : 0 < H := by
          by_cases h : 0 < H
          · exact h
          · exact absurd (hHle.mp (by omega)) (by omega)
        obtain ⟨m, hm⟩ : ∃ m : Nat, (H - 1).toNat = m ∧ H.toNat = m + 1 := ⟨(H-1).toNat, rfl, by omega⟩
        rw [hLn, hLn', hm.1, hm.2]
        simp [h1, h2, samplesFrom]
      · have hH0 : H ≤ 0 := hHle.mpr (by omega)
        have hHn : H.toNat = 0 := by omega
        have hHn' : (H - 1).toNat = 0 := by omega
        rw [hLn, hLn', hHn, hHn']
        simp [h1, h2, samplesFrom]
    · have hL0 : 0 < L := by
        by_cases h : 0 < L
        · exact h
        · exact absurd (hLle.mp (by omega)) h1
      obtain ⟨k, hk1, hk2⟩ : ∃ k : Nat, (L - 1).toNat = k ∧ L.toNat = k + 1 := ⟨(L-1).toNat, rfl, by omega⟩
      have hshift : t0 + dt + (k : Int) * dt = t0 + ((k + 1 : Nat) : Int) * dt := by
        rw [Int.natCast_add, Int.add_mul]; omega
      by_cases hH0 : 0 < H
      · obtain ⟨m, hm⟩ : ∃ m : Nat, (H - 1).toNat = m ∧ H.toNat = m + 1 := ⟨(H-1).toNat, rfl, by omega⟩
        rw [hk1, hk2, hm.1, hm.2, hshift]
        simp [h1]
      · have hHn : H.toNat = 0 := by omega
        have hHn' : (H - 1).toNat = 0 := by omega
        rw [hk1, hk2, hHn, hHn']
        simp [h1, samplesFrom]

theorem inWin_eq (a b : Int) : inWin a b = fun (s : Sample) => decide (a ≤ s.1) && decide (s.1 < b) := rfl

/-- `Continuous.slice` returns exactly the samples of the window. -/
theorem cont_slice_samples (c : Cont) (hdt : 0 < c.dt) (a b : Int) :
    (c.slice a b).samples = c.samples.filter (inWin a b) := by
  have hdt' : 0 < (c.slice a b).dt := hdt
  rw [cont_samples _ hdt', cont_samples c hdt, inWin_eq, filter_samplesFrom c.dt hdt a b c.data c.start]
  have hal := C01.alignedStart_eq ⟨c.start, c.dt, []⟩ hdt a
  simp only [] at hal
  show samplesFrom (C01.alignedStart ⟨c.start, c.dt, []⟩ a) c.dt
    (pySlice c.data (C01.toIndex c.start c.dt (C01.alignedStart ⟨c.start, c.dt, []⟩ a))
      (max (C01.toIndex c.start c.dt b) 0)) = _
  rw [hal]
  have hidx : C01.toIndex c.start c.dt (c.start + ((cdiv (a - c.start) c.dt).toNat : Int) * c.dt)
      = ((cdiv (a - c.start) c.dt).toNat : Int) := by
    rw [toIndex_eq_cdiv]
    have : c.start + ((cdiv (a - c.start) c.dt).toNat : Int) * c.dt - c.start
        = ((cdiv (a - c.start) c.dt).toNat : Int) * c.dt := by omega
    rw [this, cdiv_mul _ _ hdt]
  rw [hidx, pySlice_nonneg _ _ _ (by omega) (by omega), toIndex_eq_cdiv]
  have e1 : ((((cdiv (a - c.start) c.dt).toNat : Nat) : Int)).toNat = (cdiv (a - c.start) c.dt).toNat :=
    Int.toNat_natCast _
  have e2 : (max (cdiv (b - c.start) c.dt) 0).toNat = (cdiv (b - c.start) c.dt).toNat := by omega
  rw [e1, e2]

/-- `self[a:b]` returns exactly the samples with `a ≤ t < b`, for both kinds of source (an empty
    source returns itself, which has no samples). -/
theorem getitem_samples' (s : Src) (h : s.wf) (a b : Int) :
    (s.getitem a b).samples = s.samples.filter (inWin a b) := by
  unfold Src.getitem
  cases s with
  | cont c =>
    by_cases h0 : (Src.cont c).len = 0
    · rw [if_pos h0]
      have : c.data = [] := List.eq_nil_of_length_eq_zero h0
      simp [Src.samples, Cont.samples, this]
    · rw [if_neg h0]
      exact cont_slice_samples c h a b
  | ts l =>
    by_cases h0 : (Src.ts l).len = 0
    · rw [if_pos h0]
      have : l = [] := List.eq_nil_of_length_eq_zero h0
      simp [Src.samples, this]
    · rw [if_neg h0]; rfl

/-! ### `downsampled_over` -/

/-- Specification of one output sample, from the list `W` of the source samples inside the window
    `r`: nothing for an empty window; otherwise the timestamp is the midpoint (floor) of the first and
    last source timestamp or the window start, and the value is `f` of the window's values. -/
def windowSample (f : List Rat → Rat) (center : Bool) (r : Int × Int) (W : List Sample) : Option Sample :=
  match W.head?, W.getLast? with
  | some x, some y => some (if center then (x.1 + y.1) / 2 else r.1, f (W.map (·.2)))
  | _, _ => none

theorem overStep_eq (f : List Rat → Rat) (s : Src) (h : s.wf) (center : Bool) (r : Int × Int) :
    overStep f s center r = windowSample f center r (s.samples.filter (inWin r.1 r.2)) := by
  unfold overStep
  rw [getitem_samples' s h]
  generalize s.samples.filter (inWin r.1 r.2) = W
  cases W with
  | nil => rfl
  | cons x xs =>
    simp only [windowSample, List.head?_cons]
    cases hl : (x :: xs).getLast? with
    | none => simp at hl
    | some y => rfl

theorem over_ok (f : List Rat → Rat) (s : Src) (h : s.wf) (ranges : List (Int × Int)) (center : Bool)
    (out : List Sample) (ho : over f s ranges (some center) = .ok out) :
    ∃ st sp, s.start? = some st ∧ s.stop? = some sp ∧
      out = (ranges.filter fun r => decide (st ≤ r.1) && decide (r.2 ≤ sp)).filterMap fun r =>
        windowSample f center r (s.samples.filter (inWin r.1 r.2)) := by
  unfold over at ho
  split at ho
  · split at ho
    · rename_i st sp hst hsp
      split at ho
      · cases ho
      · simp only [Except.ok.injEq] at ho
        refine ⟨st, sp, hst, hsp, ?_⟩
        rw [← ho]
        have : (fun r => overStep f s center r) = fun r => windowSample f center r (s.samples.filter (inWin r.1 r.2)) := by
          funext r; exact overStep_eq f s h center r
        simp only [ge_iff_le]
        rw [← this]
    · cases ho
  · cases ho

/-! ### aligned windows of a continuous channel, `downsampled_by` -/

theorem samplesFrom_getLast? {α} (dt : Int) : ∀ (l : List α) (t0 : Int) (v : α),
    ∃ y, (samplesFrom t0 dt (v :: l)).getLast? = some y ∧ y.1 = t0 + (l.length : Int) * dt := by
  intro l
  induction l with
  | nil => intro t0 v; exact ⟨(t0, v), rfl, by simp⟩
  | cons w ws ih =>
    intro t0 v
    obtain ⟨y, hy, hy1⟩ := ih (t0 + dt) w
    refine ⟨y, ?_, ?_⟩
    · simp only [samplesFrom] at hy ⊢
      rw [List.getLast?_cons_cons]; exact hy
    · rw [hy1]; simp only [List.length_cons]; push_cast; ring

theorem pairs_arange (st sp step : Int) :
    pairs (arange st sp step) =
      (List.range (((sp - st + step - 1) / step).toNat - 1)).map fun (i : Nat) =>
        (st + (i : Int) * step, st + ((i : Int) + 1) * step) := by
  unfold pairs arange
  apply List.ext_getElem
  · simp
  · intro i h1 h2
    simp

theorem window_aligned {α} (dt : Int) (hdt : 0 < dt) (l : List α) (t0 : Int) (p q : Nat) :
    (samplesFrom t0 dt l).filter (fun s => decide (t0 + (p : Int) * dt ≤ s.1) && decide (s.1 < t0 + (q : Int) * dt)) =
      samplesFrom (t0 + (p : Int) * dt) dt ((l.take q).drop p) := by
  rw [filter_samplesFrom dt hdt]
  have e1 : cdiv (t0 + (p : Int) * dt - t0) dt = p := by
    have : t0 + (p : Int) * dt - t0 = (p : Int) * dt := by omega
    rw [this, cdiv_mul _ _ hdt]
  have e2 : cdiv (t0 + (q : Int) * dt - t0) dt = q := by
    have : t0 + (q : Int) * dt - t0 = (q : Int) * dt := by omega
    rw [this, cdiv_mul _ _ hdt]
  rw [e1, e2]; simp

theorem windowSample_samplesFrom (f : List Rat → Rat) (r : Int × Int) (t0 dt : Int) (l : List Rat) (hl : l ≠ []) :
    windowSample f true r (samplesFrom t0 dt l) = some (t0 + (((l.length : Int) - 1) * dt) / 2, f l) := by
  cases l with
  | nil => exact absurd rfl hl
  | cons v vs =>
    obtain ⟨y, hy, hy1⟩ := samplesFrom_getLast? dt vs t0 v
    unfold windowSample
    rw [hy]
    simp only [samplesFrom, List.head?_cons, ite_true]
    have := samplesFrom_map_snd dt (v :: vs) t0
    simp only [samplesFrom] at this
    rw [this, hy1]
    simp only [List.length_cons]
    congr 2
    have : ((vs.length + 1 : Nat) : Int) - 1 = vs.length := by push_cast; ring
    rw [this]
    generalize (vs.length : Int) * dt = x
    omega

theorem downBy_samples (f : List Rat → Rat) (c : Cont) (k : Nat) (hdt : 0 < c.dt) (hk : 0 < k) :
    ∃ r, downBy f (.cont c) k = .ok r ∧ r.dt = c.dt * k ∧
      r.samples = (List.range (c.data.length / k)).map fun (i : Nat) =>
        (c.start + (i : Int) * ((k : Int) * c.dt) + (((k : Int) - 1) * c.dt) / 2,
          f ((c.data.drop (i * k)).take k)) := by
  refine ⟨{ start := c.start + (c.dt * ((k : Int) - 1)) / 2, dt := c.dt * k, data := (blocks k c.data).map f }, ?_, rfl, ?_⟩
  · simp only [downBy]; rw [if_neg (by omega)]
  · have hdt' : 0 < c.dt * (k : Int) := Int.mul_pos hdt (by omega)
    rw [cont_samples _ hdt', samplesFrom_eq_map]
    simp only [blocks, List.length_map, List.length_range, List.map_map]
    rw [List.zip_map']
    apply List.map_congr_left
    intro i _
    simp only [Function.comp]
    congr 1
    rw [Int.mul_comm c.dt ((k : Int) - 1)]
    ring

theorem filterMap_eq_map_of {α β} (g : α → Option β) (h : α → β) :
    ∀ (l : List α), (∀ a ∈ l, g a = some (h a)) → l.filterMap g = l.map h := by
  intro l
  induction l with
  | nil => intro _; rfl
  | cons x xs ih =>
    intro H
    rw [List.filterMap_cons, H x (List.mem_cons_self), List.map_cons, ih (fun a ha => H a (List.mem_cons_of_mem _ ha))]

/-- `q` consecutive windows of `step` ns starting at `st`. -/
def blockWins (st step : Int) (q : Nat) : List (Int × Int) :=
  (List.range q).map fun (i : Nat) => (st + (i : Int) * step, st + ((i : Int) + 1) * step)

theorem over_blocks (f : List Rat → Rat) (c : Cont) (k q : Nat) (hdt : 0 < c.dt) (hk : 0 < k) (hq : 0 < q)
    (hqn : q * k ≤ c.data.length) :
    over f (.cont c) (blockWins c.start ((k : Int) * c.dt) q) (some true) =
      .ok ((List.range q).map fun (i : Nat) =>
        (c.start + (i : Int) * ((k : Int) * c.dt) + (((k : Int) - 1) * c.dt) / 2,
          f ((c.data.drop (i * k)).take k))) := by
  have hkd : 0 < (k : Int) * c.dt := Int.mul_pos (by omega) hdt
  have hq0 : q ≠ 0 := by omega
  have hqn' : (q : Int) * ((k : Int) * c.dt) ≤ (c.data.length : Int) * c.dt := by
    have : ((q * k : Nat) : Int) ≤ (c.data.length : Int) := by exact_mod_cast hqn
    have := Int.mul_le_mul_of_nonneg_right this (Int.le_of_lt hdt)
    push_cast at this
    linarith [Int.mul_assoc (q : Int) k c.dt]
  -- every window lies inside the span
  have hin : ∀ i : Nat, i < q →
      c.start ≤ c.start + (i : Int) * ((k : Int) * c.dt) ∧
      c.start + ((i : Int) + 1) * ((k : Int) * c.dt) ≤ c.start + (c.data.length : Int) * c.dt := by
    intro i hi
    have h1 : 0 ≤ (i : Int) * ((k : Int) * c.dt) := Int.mul_nonneg (by omega) (Int.le_of_lt hkd)
    have h2 : ((i : Int) + 1) * ((k : Int) * c.dt) ≤ (q : Int) * ((k : Int) * c.dt) :=
      Int.mul_le_mul_of_nonneg_right (by omega) (Int.le_of_lt hkd)
    constructor <;> linarith
  unfold over blockWins
  simp only [List.head?_map, List.getLast?_map, List.head?_range, List.getLast?_range, if_neg hq0,
    Option.map_some, Src.start?, Src.stop?, Cont.stop]
  have h0 := hin 0 (by omega)
  have hl := hin (q - 1) (by omega)
  rw [if_neg]
  swap
  · intro h
    have e : ((q - 1 : Nat) : Int) + 1 = q := by omega
    rw [e] at h
    have : 0 < (q : Int) * ((k : Int) * c.dt) := Int.mul_pos (by omega) hkd
    simp only [Int.natCast_zero, Int.zero_mul, Int.add_zero] at h h0
    rcases h with h | h
    · linarith
    · have : 0 < (c.data.length : Int) * c.dt := by linarith
      linarith
  congr 1
  rw [List.filter_eq_self.mpr]
  · rw [List.filterMap_map]
    apply filterMap_eq_map_of
    intro i hi
    have hi' : i < q := List.mem_range.mp hi
    simp only [Function.comp]
    rw [overStep_eq f (.cont c) hdt]
    simp only [Src.samples]
    rw [cont_samples c hdt, inWin_eq]
    have e1 : c.start + (i : Int) * ((k : Int) * c.dt) = c.start + ((i * k : Nat) : Int) * c.dt := by
      push_cast; ring
    have e2 : c.start + ((i : Int) + 1) * ((k : Int) * c.dt) = c.start + (((i + 1) * k : Nat) : Int) * c.dt := by
      push_cast; ring
    rw [e1, e2, window_aligned c.dt hdt]
    have hb : (c.data.take ((i + 1) * k)).drop (i * k) = (c.data.drop (i * k)).take k := by
      rw [List.drop_take]; congr 1; rw [Nat.add_mul]; omega
    rw [hb]
    have hlen : ((c.data.drop (i * k)).take k).length = k := by
      rw [List.length_take, List.length_drop]
      have : (i + 1) * k ≤ q * k := Nat.mul_le_mul_right k (by omega)
      rw [Nat.add_mul] at this
      omega
    have hne : (c.data.drop (i * k)).take k ≠ [] := by
      intro h; rw [h] at hlen; simp at hlen; omega
    rw [windowSample_samplesFrom f _ _ _ _ hne, hlen]
  · intro r hr
    obtain ⟨i, hi, rfl⟩ := List.mem_map.mp hr
    have := hin i (List.mem_range.mp hi)
    simp [this.1, this.2]

/-! ### `downsampled_to`: the edges `np.arange(start, stop, step)` -/

theorem ceil_eq (D step : Int) (hs : 0 < step) :
    (D + step - 1) / step = if D % step = 0 then D / step else D / step + 1 := by
  have hdm := Int.emod_add_mul_ediv D step
  have hnn := Int.emod_nonneg D (by omega : step ≠ 0)
  have hlt := Int.emod_lt_of_pos D hs
  generalize D / step = q at *
  generalize D % step = r at *
  have hD : D = r + q * step := by rw [Int.mul_comm] at hdm; omega
  split
  · rename_i h0
    have e : D + step - 1 = (step - 1) + q * step := by omega
    rw [e, Int.add_mul_ediv_right _ _ (by omega), Int.ediv_eq_zero_of_lt (by omega) (by omega)]
    omega
  · rename_i h0
    have e : D + step - 1 = (r - 1) + (q + 1) * step := by rw [Int.add_mul]; omega
    rw [e, Int.add_mul_ediv_right _ _ (by omega), Int.ediv_eq_zero_of_lt (by omega) (by omega)]
    omega

/-- All windows `[st + i·step, st + (i+1)·step)` that end at or before `sp`. -/
def fullWindows (st sp step : Int) : List (Int × Int) := blockWins st step ((sp - st) / step).toNat

theorem mem_blockWins (st step : Int) (q : Nat) (r : Int × Int) :
    r ∈ blockWins st step q ↔ ∃ i : Nat, i < q ∧ r = (st + (i : Int) * step, st + ((i : Int) + 1) * step) := by
  unfold blockWins
  simp only [List.mem_map, List.mem_range]
  constructor
  · rintro ⟨i, hi, rfl⟩; exact ⟨i, hi, rfl⟩
  · rintro ⟨i, hi, rfl⟩; exact ⟨i, hi, rfl⟩

theorem mem_fullWindows (st sp step : Int) (hs : 0 < step) (r : Int × Int) :
    r ∈ fullWindows st sp step ↔
      ∃ i : Nat, r = (st + (i : Int) * step, st + ((i : Int) + 1) * step) ∧ st + ((i : Int) + 1) * step ≤ sp := by
  unfold fullWindows
  rw [mem_blockWins]
  constructor
  · rintro ⟨i, hi, rfl⟩
    refine ⟨i, rfl, ?_⟩
    have h1 : (i : Int) + 1 ≤ (sp - st) / step := by omega
    have := (Int.le_ediv_iff_mul_le hs).mp h1
    linarith
  · rintro ⟨i, rfl, hi⟩
    refine ⟨i, ?_, rfl⟩
    have : (i : Int) + 1 ≤ (sp - st) / step := (Int.le_ediv_iff_mul_le hs).mpr (by linarith)
    omega

theorem pairs_arange_blockWins (st sp step : Int) :
    pairs (arange st sp step) = blockWins st step (((sp - st + step - 1) / step).toNat - 1) :=
  pairs_arange st sp step

theorem blockWins_dropLast (st step : Int) (q : Nat) :
    (blockWins st step q).dropLast = blockWins st step (q - 1) := by
  unfold blockWins
  rw [List.dropLast_eq_take, List.length_map, List.length_range, ← List.map_take, List.take_range]
  congr 2; omega

theorem pairs_arange_nonmult (st sp step : Int) (hs : 0 < step) (h : (sp - st) % step ≠ 0) :
    pairs (arange st sp step) = fullWindows st sp step := by
  rw [pairs_arange_blockWins, fullWindows, ceil_eq _ _ hs, if_neg h]
  congr 1; omega

theorem pairs_arange_mult (st sp step : Int) (hs : 0 < step) (h : (sp - st) % step = 0) :
    pairs (arange st sp step) = (fullWindows st sp step).dropLast := by
  rw [pairs_arange_blockWins, fullWindows, ceil_eq _ _ hs, if_pos h, blockWins_dropLast]

theorem targetStep_cont (dt : Int) (k : Nat) (m : Method) (hdt : 0 < dt) (hk : 0 < k) :
    targetStep [dt] ((k : Int) * dt) m = .ok ((k : Int) * dt) := by
  have h1 : ¬ ((k : Int) * dt < dt) := by
    have : 1 * dt ≤ (k : Int) * dt := Int.mul_le_mul_of_nonneg_right (by omega) (Int.le_of_lt hdt)
    omega
  unfold targetStep
  simp only [List.any_cons, List.any_nil, Bool.or_false, decide_eq_true_eq, if_neg h1]
  cases m <;> simp [Int.mul_emod_left, Int.ne_of_gt hdt]

theorem to_is_over' (f : List Rat → Rat) (s : Src) (target step st sp : Int) (m : Method) (wh : Option Bool)
    (ht : targetStep s.timesteps target m = .ok step) (h0 : step ≠ 0)
    (hst : s.start? = some st) (hsp : s.stop? = some sp) :
    downTo f s target (some m) wh = over f s (pairs (arange st sp step)) wh := by
  unfold downTo
  simp only [ht, hst, hsp, if_neg h0]

theorem cont_span_div (c : Cont) (k : Nat) (hdt : 0 < c.dt) :
    ((c.stop - c.start) / ((k : Int) * c.dt)).toNat = c.data.length / k ∧
    ((c.stop - c.start) % ((k : Int) * c.dt) = 0 ↔ c.data.length % k = 0) := by
  have e : c.stop - c.start = c.dt * (c.data.length : Int) := by unfold Cont.stop; rw [Int.mul_comm]; omega
  rw [e, Int.mul_comm (k : Int) c.dt, Int.mul_ediv_mul_of_pos _ _ hdt, Int.mul_emod_mul_of_pos _ _ hdt]
  constructor
  · have : (c.data.length : Int) / (k : Int) = ((c.data.length / k : Nat) : Int) := by push_cast; rfl
    rw [this]; exact Int.toNat_natCast _
  · have : (c.data.length : Int) % (k : Int) = ((c.data.length % k : Nat) : Int) := by push_cast; rfl
    rw [this]
    constructor
    · intro h
      rcases Int.mul_eq_zero.mp h with h | h
      · omega
      · exact_mod_cast h
    · intro h; rw [h]; simp

theorem to_cont_nonmult (f : List Rat → Rat) (c : Cont) (k : Nat) (m : Method) (hdt : 0 < c.dt) (hk : 0 < k)
    (hn : k ≤ c.data.length) (hnm : c.data.length % k ≠ 0) :
    downTo f (.cont c) ((k : Int) * c.dt) (some m) (some true) =
      .ok ((List.range (c.data.length / k)).map fun (i : Nat) =>
        (c.start + (i : Int) * ((k : Int) * c.dt) + (((k : Int) - 1) * c.dt) / 2,
          f ((c.data.drop (i * k)).take k))) := by
  have hkd : 0 < (k : Int) * c.dt := Int.mul_pos (by omega) hdt
  obtain ⟨hq, hr⟩ := cont_span_div c k hdt
  rw [to_is_over' f (.cont c) _ _ c.start c.stop m _ (targetStep_cont c.dt k m hdt hk) (by omega) rfl rfl,
    pairs_arange_nonmult _ _ _ hkd (fun h => hnm (hr.mp h)), fullWindows, hq]
  exact over_blocks f c k _ hdt hk (Nat.div_pos hn hk) (Nat.div_mul_le_self _ _)

theorem to_cont_mult (f : List Rat → Rat) (c : Cont) (k : Nat) (m : Method) (hdt : 0 < c.dt) (hk : 0 < k)
    (hn : 2 * k ≤ c.data.length) (hnm : c.data.length % k = 0) :
    downTo f (.cont c) ((k : Int) * c.dt) (some m) (some true) =
      .ok ((List.range (c.data.length / k - 1)).map fun (i : Nat) =>
        (c.start + (i : Int) * ((k : Int) * c.dt) + (((k : Int) - 1) * c.dt) / 2,
          f ((c.data.drop (i * k)).take k))) := by
  have hkd : 0 < (k : Int) * c.dt := Int.mul_pos (by omega) hdt
  obtain ⟨hq, hr⟩ := cont_span_div c k hdt
  have h2 : 2 ≤ c.data.length / k := (Nat.le_div_iff_mul_le hk).mpr hn
  rw [to_is_over' f (.cont c) _ _ c.start c.stop m _ (targetStep_cont c.dt k m hdt hk) (by omega) rfl rfl,
    pairs_arange_mult _ _ _ hkd (hr.mpr hnm), fullWindows, hq, blockWins_dropLast]
  refine over_blocks f c k _ hdt hk (by omega) ?_
  have := Nat.div_mul_le_self c.data.length k
  have : (c.data.length / k - 1) * k ≤ c.data.length / k * k := Nat.mul_le_mul_right k (by omega)
  omega

theorem to_cont_short (f : List Rat → Rat) (c : Cont) (k : Nat) (m : Method) (wh : Option Bool) (hdt : 0 < c.dt)
    (hk : 0 < k) (hn : c.data.length ≤ k) :
    downTo f (.cont c) ((k : Int) * c.dt) (some m) wh = .error .value := by
  have hkd : 0 < (k : Int) * c.dt := Int.mul_pos (by omega) hdt
  obtain ⟨hq, hr⟩ := cont_span_div c k hdt
  rw [to_is_over' f (.cont c) _ _ c.start c.stop m _ (targetStep_cont c.dt k m hdt hk) (by omega) rfl rfl]
  have hempty : pairs (arange c.start c.stop ((k : Int) * c.dt)) = [] := by
    by_cases h : c.data.length % k = 0
    · rw [pairs_arange_mult _ _ _ hkd (hr.mpr h), fullWindows, hq, blockWins_dropLast]
      have : c.data.length / k - 1 = 0 := by
        rcases Nat.lt_or_eq_of_le hn with h1 | h1
        · rw [Nat.div_eq_of_lt h1]
        · rw [h1, Nat.div_self hk]
      rw [this]; rfl
    · rw [pairs_arange_nonmult _ _ _ hkd (fun h' => h (hr.mp h')), fullWindows, hq]
      have : c.data.length / k = 0 := by
        rcases Nat.lt_or_eq_of_le hn with h1 | h1
        · exact Nat.div_eq_of_lt h1
        · rw [h1, Nat.mod_self] at h; exact absurd rfl h
      rw [this]; rfl
  rw [hempty]; rfl

/-- Block `i` of `downsampled_by(k)` is the specification's sample for the window
    `[start + i·k·dt, start + (i+1)·k·dt)`. -/
theorem by_window (f : List Rat → Rat) (c : Cont) (k i : Nat) (hdt : 0 < c.dt) (hk : 0 < k)
    (hi : i < c.data.length / k) :
    windowSample f true (c.start + (i : Int) * ((k : Int) * c.dt), c.start + (i : Int) * ((k : Int) * c.dt) + (k : Int) * c.dt)
        (c.samples.filter (inWin (c.start + (i : Int) * ((k : Int) * c.dt))
          (c.start + (i : Int) * ((k : Int) * c.dt) + (k : Int) * c.dt))) =
      some (c.start + (i : Int) * ((k : Int) * c.dt) + (((k : Int) - 1) * c.dt) / 2,
        f ((c.data.drop (i * k)).take k)) := by
  rw [cont_samples c hdt, inWin_eq]
  have e1 : c.start + (i : Int) * ((k : Int) * c.dt) = c.start + ((i * k : Nat) : Int) * c.dt := by
    push_cast; ring
  have e2 : c.start + (i : Int) * ((k : Int) * c.dt) + (k : Int) * c.dt
      = c.start + (((i + 1) * k : Nat) : Int) * c.dt := by
    push_cast; ring
  rw [e2, e1, window_aligned c.dt hdt]
  have hb : (c.data.take ((i + 1) * k)).drop (i * k) = (c.data.drop (i * k)).take k := by
    rw [List.drop_take]; congr 1; rw [Nat.add_mul]; omega
  rw [hb]
  have hlen : ((c.data.drop (i * k)).take k).length = k := by
    rw [List.length_take, List.length_drop]
    have h1 : (i + 1) * k ≤ c.data.length / k * k := Nat.mul_le_mul_right k (by omega)
    have h2 := Nat.div_mul_le_self c.data.length k
    rw [Nat.add_mul] at h1
    omega
  have hne : (c.data.drop (i * k)).take k ≠ [] := by
    intro h; rw [h] at hlen; simp at hlen; omega
  rw [windowSample_samplesFrom f _ _ _ _ hne, hlen]

theorem map_range_dropLast {β} (g : Nat → β) (q : Nat) :
    ((List.range q).map g).dropLast = (List.range (q - 1)).map g := by
  rw [List.dropLast_eq_take, List.length_map, List.length_range, ← List.map_take, List.take_range]
  congr 2; omega

/-! ### arithmetic -/

theorem src_timestamps_length (s : Src) (h : s.wf) : s.timestamps.length = s.data.length := by
  cases s with
  | cont c => exact cont_timestamps_length c h
  | ts l => simp [Src.timestamps, Src.data]

theorem arith_ok (op : Op) (a b : Src) (ha : a.wf) (hb : b.wf) (r : Src) (h : arith op a b = .ok r) :
    b.timestamps = a.timestamps ∧ r.timestamps = a.timestamps ∧
      r.data = List.zipWith op.apply a.data b.data ∧ r.data.length = a.data.length := by
  unfold arith at h
  split at h
  · cases h
  · rename_i heq
    have heq : b.timestamps = a.timestamps := by
      by_cases h' : b.timestamps = a.timestamps
      · exact h'
      · exact absurd h' heq
    simp only [Except.ok.injEq] at h
    have hlen : b.data.length = a.data.length := by
      rw [← src_timestamps_length a ha, ← src_timestamps_length b hb, heq]
    have hz : (List.zipWith op.apply a.data b.data).length = a.data.length := by
      rw [List.length_zipWith, hlen]; simp
    refine ⟨heq, ?_, ?_, ?_⟩
    · rw [← h]
      cases a with
      | cont c =>
        simp only [Src.withData, Src.timestamps, Cont.timestamps, Cont.stop]
        rw [hz]; rfl
      | ts l =>
        simp only [Src.withData, Src.timestamps]
        rw [List.map_fst_zip]
        rw [hz]; simp [Src.data]
    · rw [← h]
      cases a with
      | cont c => rfl
      | ts l =>
        simp only [Src.withData, Src.data]
        rw [List.map_snd_zip]
        simp only [Src.data] at hz
        rw [hz]; simp
    · rw [← h]
      cases a with
      | cont c => exact hz
      | ts l =>
        simp only [Src.withData, Src.data]
        rw [List.map_snd_zip]
        · exact hz
        · simp only [Src.data] at hz
          rw [hz]; simp

/-! ### `downsampled_like` -/

theorem diff_length : ∀ T : List Int, (diff T).length = T.length - 1
  | [] => rfl
  | [_] => rfl
  | a :: b :: r => by simp [diff, diff_length (b :: r)]

theorem repairLoop_length : ∀ (cps : List Nat) (d : List Int), (repairLoop cps d).length = d.length := by
  intro cps
  induction cps with
  | nil => intro d; rfl
  | cons i rest ih =>
    intro d
    unfold repairLoop
    split
    · rfl
    · rw [ih]; simp

theorem likeDeltas_length (T : List Int) : T.length ≤ (likeDeltas T).length := by
  unfold likeDeltas repair
  simp only [List.length_cons, repairLoop_length, diff_length]
  omega

/-- The kept reference samples are a contiguous slice `[i, j)` of the reference. -/
theorem likeKept_slice (pw : Bool) (c : Cont) (T : List Int) :
    ∃ i j : Nat, likeKept pw c T = ((T.zip (likeDeltas T)).take j).drop i ∧
      (likeKept pw c T).map (·.1) = (T.take j).drop i := by
  refine ⟨likeStart pw c T, searchsortedLeft T c.stop, ?_, ?_⟩
  · unfold likeKept
    rw [pySlice_nonneg _ _ _ (by omega) (by omega)]
    simp
  · unfold likeKept
    rw [pySlice_nonneg _ _ _ (by omega) (by omega)]
    simp only [Int.toNat_natCast, List.map_drop, List.map_take]
    rw [List.map_fst_zip (likeDeltas_length T)]

/-- Filtering `A ++ K ++ C` by `[lo, hi]` returns `K` when `A` is below, `K` inside and `C` above. -/
theorem filter_mid (A K C : List Sample) (lo hi : Int) (hA : ∀ x ∈ A, x.1 < lo)
    (hK : ∀ x ∈ K, lo ≤ x.1 ∧ x.1 ≤ hi) (hC : ∀ x ∈ C, hi < x.1) :
    (A ++ K ++ C).filter (inWin lo (hi + 1)) = K := by
  rw [List.filter_append, List.filter_append]
  have h1 : A.filter (inWin lo (hi + 1)) = [] := by
    rw [List.filter_eq_nil_iff]; intro x hx; have := hA x hx; simp [inWin]; omega
  have h2 : K.filter (inWin lo (hi + 1)) = K := by
    rw [List.filter_eq_self]; intro x hx; have := hK x hx; simp [inWin]; omega
  have h3 : C.filter (inWin lo (hi + 1)) = [] := by
    rw [List.filter_eq_nil_iff]; intro x hx; have := hC x hx; simp [inWin]; omega
  rw [h1, h2, h3]; simp

/-- In a list with strictly increasing timestamps, the samples between the first and the last
    timestamp of a non-empty contiguous slice are exactly that slice. -/
theorem filter_run (r : List Sample) (hs : (r.map (·.1)).Pairwise (· < ·)) (i j : Nat) (a b : Sample)
    (ha : ((r.take j).drop i).head? = some a) (hb : ((r.take j).drop i).getLast? = some b) :
    r.filter (inWin a.1 (b.1 + 1)) = (r.take j).drop i := by
  rw [List.pairwise_map] at hs
  have hsplit : r = (r.take j).take i ++ (r.take j).drop i ++ r.drop j := by
    rw [List.take_append_drop, List.take_append_drop]
  generalize hA : (r.take j).take i = A at hsplit
  generalize hK : (r.take j).drop i = K at *
  generalize hC : r.drop j = C at hsplit
  rw [hsplit] at hs
  conv => lhs; rw [hsplit]
  obtain ⟨ks, rfl⟩ := List.head?_eq_some_iff.mp ha
  obtain ⟨ys, hys⟩ := List.getLast?_eq_some_iff.mp hb
  rw [List.pairwise_append, List.pairwise_append] at hs
  obtain ⟨⟨_, hKK, hAK⟩, _, hAKC⟩ := hs
  apply filter_mid
  · intro x hx; exact hAK x hx a List.mem_cons_self
  · intro x hx
    constructor
    · rcases List.mem_cons.mp hx with rfl | hx'
      · exact Int.le_refl _
      · exact Int.le_of_lt ((List.pairwise_cons.mp hKK).1 x hx')
    · rw [hys] at hx hKK
      rcases List.mem_append.mp hx with hx' | hx'
      · exact Int.le_of_lt ((List.pairwise_append.mp hKK).2.2 x hx' b (by simp))
      · simp at hx'; rw [hx']
  · intro x hx
    exact hAKC b (List.mem_append_right _ (by rw [hys]; simp)) x hx

theorem like_ok (pw : Bool) (f : List Rat → Rat) (s ref : Src) (ds refc : List Sample)
    (h : like pw f s ref = .ok (ds, refc)) :
    ∃ c r, s = .cont c ∧ ref = .ts r ∧
      ds = (likeWindows pw c (r.map (·.1))).map (fun (p : Int × List Rat) => (p.1, f p.2)) ∧
      ∃ a b, ds.head? = some a ∧ ds.getLast? = some b ∧ refc = r.filter (inWin a.1 (b.1 + 1)) := by
  unfold like at h
  split at h
  · cases h
  · rename_i r
    split at h
    · cases h
    · rename_i c
      refine ⟨c, r, rfl, rfl, ?_⟩
      simp only at h
      split at h
      · split at h
        · cases h
        · split at h
          · rename_i a b ha hb
            simp only [Except.ok.injEq, Prod.mk.injEq] at h
            obtain ⟨h1, h2⟩ := h
            refine ⟨h1.symm, a, b, ?_, ?_, h2.symm⟩
            · rw [← h1]; exact ha
            · rw [← h1]; exact hb
          · cases h
      · cases h

theorem like_same' (pw : Bool) (f : List Rat → Rat) (s ref : Src) (ds refc : List Sample)
    (h : like pw f s ref = .ok (ds, refc)) (hs : (ref.timestamps).Pairwise (· < ·)) :
    ds.map (·.1) = refc.map (·.1) ∧
      ∃ r i j, ref = .ts r ∧ refc = (r.take j).drop i := by
  obtain ⟨c, r, rfl, rfl, hds, a, b, ha, hb, hrefc⟩ := like_ok pw f s ref ds refc h
  obtain ⟨i, j, _, hfst⟩ := likeKept_slice pw c (r.map (·.1))
  have hP : ds.map (·.1) = ((r.take j).drop i).map (·.1) := by
    rw [hds]; unfold likeWindows
    simp only [List.map_map]
    rw [List.map_drop, List.map_take, ← hfst]
    apply List.map_congr_left; intro x _; rfl
  -- first / last timestamps of the kept run
  have hha : (((r.take j).drop i).map (·.1)).head? = some a.1 := by
    rw [← hP, List.head?_map, ha]; rfl
  have hhb : (((r.take j).drop i).map (·.1)).getLast? = some b.1 := by
    rw [← hP, List.getLast?_map, hb]; rfl
  rw [List.head?_map] at hha
  rw [List.getLast?_map] at hhb
  cases hx : ((r.take j).drop i).head? with
  | none => rw [hx] at hha; cases hha
  | some x =>
    cases hy : ((r.take j).drop i).getLast? with
    | none => rw [hy] at hhb; cases hhb
    | some y =>
      rw [hx] at hha; rw [hy] at hhb
      simp only [Option.map_some, Option.some.injEq] at hha hhb
      have := filter_run r hs i j x y hx hy
      rw [hha, hhb] at this
      rw [this] at hrefc
      exact ⟨by rw [hP, hrefc], r, i, j, rfl, hrefc⟩

theorem like_values' (pw : Bool) (f : List Rat → Rat) (c : Cont) (hdt : 0 < c.dt) (ref : Src) (ds refc : List Sample)
    (h : like pw f (.cont c) ref = .ok (ds, refc)) :
    ds = (likeKept pw c ref.timestamps).map fun (p : Int × Int) =>
      (p.1, f ((c.samples.filter (inWin (p.1 - p.2) p.1)).map (·.2))) := by
  obtain ⟨c', r, hc, rfl, hds, _⟩ := like_ok pw f _ ref ds refc h
  cases hc
  rw [hds]; unfold likeWindows
  simp only [List.map_map, Src.timestamps]
  apply List.map_congr_left
  intro x _
  simp only [Function.comp]
  rw [getitem_samples' (.cont c) hdt]
  rfl

/-- For a predicate that can only switch from true to false along the list, `takeWhile` is `filter`. -/
theorem take_takeWhile_eq_filter {α} (p : α → Bool) :
    ∀ (Z : List α), Z.Pairwise (fun x y => p y = true → p x = true) →
      Z.take (Z.takeWhile p).length = Z.filter p := by
  intro Z
  induction Z with
  | nil => intro _; rfl
  | cons x xs ih =>
    intro H
    obtain ⟨hx, hxs⟩ := List.pairwise_cons.mp H
    by_cases hp : p x = true
    · simp [hp, ih hxs]
    · have : xs.filter p = [] := by
        rw [List.filter_eq_nil_iff]; intro y hy hpy; exact hp (hx y hy hpy)
      simp [hp, this]

/-- Two threshold predicates along a list: `l[i:j]` with `i`, `j` the lengths of the prefixes on which
    they hold is the filter "not the first, but the second". -/
theorem take_drop_takeWhile {α} (p1 p2 : α → Bool) :
    ∀ (Z : List α), Z.Pairwise (fun x y => p1 y = true → p1 x = true) →
      Z.Pairwise (fun x y => p2 y = true → p2 x = true) →
      (Z.take (Z.takeWhile p2).length).drop (Z.takeWhile p1).length = Z.filter (fun z => !p1 z && p2 z) := by
  intro Z
  induction Z with
  | nil => intro _ _; rfl
  | cons x xs ih =>
    intro H1 H2
    obtain ⟨hx1, hxs1⟩ := List.pairwise_cons.mp H1
    obtain ⟨hx2, hxs2⟩ := List.pairwise_cons.mp H2
    by_cases hp2 : p2 x = true
    · by_cases hp1 : p1 x = true
      · simp [hp1, hp2, ih hxs1 hxs2]
      · have hnone : ∀ y ∈ xs, p1 y = false := by
          intro y hy
          cases hpy : p1 y with
          | false => rfl
          | true => exact absurd (hx1 y hy hpy) hp1
        have hf : xs.filter (fun z => !p1 z && p2 z) = xs.filter p2 := by
          apply List.filter_congr
          intro y hy; simp [hnone y hy]
        simp [hp1, hp2, hf, take_takeWhile_eq_filter p2 xs hxs2]
    · have : (x :: xs).filter (fun z => !p1 z && p2 z) = [] := by
        rw [List.filter_eq_nil_iff]
        intro y hy hpy
        simp only [Bool.and_eq_true] at hpy
        rcases List.mem_cons.mp hy with rfl | hy'
        · exact hp2 hpy.2
        · exact hp2 (hx2 y hy' hpy.2)
      rw [this]
      simp [List.takeWhile_cons, hp2]

/-- Which reference samples are kept, as the code is (`pw = false`): for a sorted reference exactly
    those with `T - δ₀ ≥ start` (δ₀ = the FIRST window length) and `T < stop`. -/
theorem likeKept_spec' (c : Cont) (T : List Int) (hs : T.Pairwise (· < ·)) :
    likeKept false c T = (T.zip (likeDeltas T)).filter fun p =>
      decide (c.start ≤ p.1 - (likeDeltas T).headD 0) && decide (p.1 < c.stop) := by
  unfold likeKept likeStart
  rw [C01.pySlice_nonneg _ _ _ (by omega) (by omega)]
  simp only [Int.toNat_natCast, Bool.false_eq_true, if_false, searchsortedLeft]
  generalize hZ : T.zip (likeDeltas T) = Z
  generalize (likeDeltas T).headD 0 = d0
  have hT : T = Z.map (·.1) := by rw [← hZ, List.map_fst_zip (likeDeltas_length T)]
  rw [hT, List.map_map, List.takeWhile_map, List.takeWhile_map, List.length_map, List.length_map]
  have hZs : Z.Pairwise (fun a b => a.1 < b.1) := by rw [hT, List.pairwise_map] at hs; exact hs
  rw [take_drop_takeWhile]
  · apply List.filter_congr
    intro z _
    simp only [Function.comp]
    by_cases h1 : z.1 - d0 < c.start <;> by_cases h2 : z.1 < c.stop <;> simp [h1, h2]
    omega
  · refine hZs.imp ?_
    intro a b hab; simp only [Function.comp, decide_eq_true_eq]; omega
  · refine hZs.imp ?_
    intro a b hab; simp only [Function.comp, decide_eq_true_eq]; omega

/-- The sequential loop on an ascending list of change points: entry `j` is overwritten by its right
    neighbour exactly when `j - 1` is a change point and the neighbour exists (the `IndexError` that
    ends the loop can only come from the last possible change point, which changes nothing). -/
theorem repairLoop_getElem? : ∀ (cps : List Nat), cps.Pairwise (· < ·) → ∀ (e : List Int) (j : Nat),
    (repairLoop cps e)[j]? =
      if (∃ i ∈ cps, j = i + 1 ∧ i + 2 < e.length) then e[j + 1]? else e[j]? := by
  intro cps
  induction cps with
  | nil => intro _ e j; simp [repairLoop]
  | cons i rest ih =>
    intro hs e j
    obtain ⟨hi, hrest⟩ := List.pairwise_cons.mp hs
    unfold repairLoop
    cases hv : e[i + 2]? with
    | none =>
      have hlen : e.length ≤ i + 2 := List.getElem?_eq_none_iff.mp hv
      simp only
      rw [if_neg]
      rintro ⟨i', hi', _, h2⟩
      rcases List.mem_cons.mp hi' with rfl | hm
      · omega
      · have := hi i' hm; omega
    | some v =>
      have hlen : i + 2 < e.length := by
        by_cases h : i + 2 < e.length
        · exact h
        · rw [List.getElem?_eq_none_iff.mpr (by omega)] at hv; cases hv
      simp only
      rw [ih hrest, List.length_set]
      by_cases hj : j = i + 1
      · subst hj
        rw [if_neg, if_pos ⟨i, List.mem_cons_self, rfl, hlen⟩]
        · rw [List.getElem?_set_self (by omega), hv]
        · rintro ⟨i', hi', h1, _⟩
          have := hi i' hi'; omega
      · by_cases hc : ∃ i' ∈ rest, j = i' + 1 ∧ i' + 2 < e.length
        · rw [if_pos hc]
          obtain ⟨i', hi', h1, h2⟩ := hc
          rw [if_pos ⟨i', List.mem_cons_of_mem _ hi', h1, h2⟩]
          have := hi i' hi'
          rw [List.getElem?_set_ne (by omega)]
        · rw [if_neg hc, if_neg]
          · rw [List.getElem?_set_ne (by omega)]
          · rintro ⟨i', hi', h1, h2⟩
            rcases List.mem_cons.mp hi' with rfl | hm
            · exact hj h1
            · exact hc ⟨i', hm, h1, h2⟩

theorem changePoints_sorted (d : List Int) : (changePoints d).Pairwise (· < ·) := by
  unfold changePoints
  exact List.Pairwise.filter _ List.pairwise_lt_range

theorem mem_changePoints (d : List Int) (i : Nat) :
    i ∈ changePoints d ↔ i < d.length - 1 ∧ d.getD i 0 < d.getD (i + 1) 0 := by
  unfold changePoints
  simp [List.mem_filter, List.mem_range]

/-- Closed form of the change-point repair of `downsampled_like`: a period that is longer than its
    predecessor is replaced by its successor when there is one; everything else is unchanged. -/
theorem repair_getElem? (d : List Int) (j : Nat) :
    (repair d)[j]? =
      if 1 ≤ j ∧ j + 1 < d.length ∧ d.getD (j - 1) 0 < d.getD j 0 then d[j + 1]? else d[j]? := by
  unfold repair
  rw [repairLoop_getElem? _ (changePoints_sorted d)]
  by_cases h : 1 ≤ j ∧ j + 1 < d.length ∧ d.getD (j - 1) 0 < d.getD j 0
  · rw [if_pos h, if_pos]
    obtain ⟨h1, h2, h3⟩ := h
    refine ⟨j - 1, (mem_changePoints d _).mpr ⟨by omega, ?_⟩, by omega, by omega⟩
    have : j - 1 + 1 = j := by omega
    rw [this]; exact h3
  · rw [if_neg h, if_neg]
    rintro ⟨i, hi, rfl, h2⟩
    apply h
    obtain ⟨_, h3⟩ := (mem_changePoints d i).mp hi
    exact ⟨by omega, by omega, by simpa using h3⟩

/-- The code as it is keeps only windows inside the source span whenever no window is longer than the
    first one (constant reference period, or a frame rate that only goes up). -/
theorem like_within_span' (c : Cont) (T : List Int) (hs : T.Pairwise (· < ·))
    (hδ : ∀ p ∈ T.zip (likeDeltas T), p.2 ≤ (likeDeltas T).headD 0) :
    ∀ p ∈ likeKept false c T, c.start ≤ p.1 - p.2 ∧ p.1 < c.stop := by
  intro p hp
  rw [likeKept_spec' c T hs, List.mem_filter] at hp
  obtain ⟨hm, hc⟩ := hp
  simp only [Bool.and_eq_true, decide_eq_true_eq] at hc
  have := hδ p hm
  omega

/-- The proposed repair (`pw = true`: `searchsorted(T - δ, start)`): when the window starts are in
    order, the kept reference samples are exactly those whose own window lies inside the source span. -/
theorem likeKept_repaired' (c : Cont) (T : List Int) (hs : T.Pairwise (· < ·))
    (hw : (T.zip (likeDeltas T)).Pairwise (fun a b => a.1 - a.2 ≤ b.1 - b.2)) :
    likeKept true c T = (T.zip (likeDeltas T)).filter fun p =>
      decide (c.start ≤ p.1 - p.2) && decide (p.1 < c.stop) := by
  unfold likeKept likeStart
  rw [C01.pySlice_nonneg _ _ _ (by omega) (by omega)]
  simp only [Int.toNat_natCast, if_true, searchsortedLeft]
  rw [← List.map_uncurry_zip_eq_zipWith]
  generalize hZ : T.zip (likeDeltas T) = Z at *
  have hT : T = Z.map (·.1) := by rw [← hZ, List.map_fst_zip (likeDeltas_length T)]
  rw [hT, List.takeWhile_map, List.takeWhile_map, List.length_map, List.length_map]
  have hZs : Z.Pairwise (fun a b => a.1 < b.1) := by rw [hT, List.pairwise_map] at hs; exact hs
  rw [take_drop_takeWhile]
  · apply List.filter_congr
    intro z _
    simp only [Function.comp, Function.uncurry]
    by_cases h1 : z.1 - z.2 < c.start <;> by_cases h2 : z.1 < c.stop <;> simp [h1, h2]
    omega
  · refine hw.imp ?_
    intro a b hab h
    have h' : b.1 - b.2 < c.start := of_decide_eq_true h
    exact decide_eq_true (by omega : a.1 - a.2 < c.start)
  · refine hZs.imp ?_
    intro a b hab; simp only [Function.comp, decide_eq_true_eq]; omega

/-! ### long channels described by a rule: windows of the answers -/

theorem take_range'_min (s n i : Nat) : (List.range' s n).take i = List.range' s (min i n) := by
  by_cases h : n ≤ i
  · rw [List.take_range'_of_length_le h, Nat.min_eq_right h]
  · rw [List.take_range'_of_length_ge (by omega), Nat.min_eq_left (by omega)]

/-- Block `i` of a channel that follows the rule `v`. -/
theorem rule_block (v : Nat → Rat) (n k i : Nat) (h : (i + 1) * k ≤ n) :
    (((List.range n).map v).drop (i * k)).take k = (List.range' (i * k) k).map v := by
  have h' : i * k + k ≤ n := by rw [Nat.add_mul] at h; omega
  rw [List.range_eq_range', ← List.map_drop, ← List.map_take, List.drop_range', take_range'_min]
  congr 2
  · omega
  · omega

/-- A slice `[i0 : i0 + cnt]` of the first `q ≤ n / k` downsampled samples (in the form the lemmas
    `downBy_samples`, `to_cont_nonmult`, `to_cont_mult` give them) is the window computed from the rule. -/
theorem window_of_blocks (f : List Rat → Rat) (start dt : Int) (n : Nat) (v : Nat → Rat) (k q i0 cnt : Nat)
    (hq : q ≤ n / k) :
    ((((List.range q).map fun (i : Nat) =>
        ((contOf start dt n v).start + (i : Int) * ((k : Int) * (contOf start dt n v).dt)
            + (((k : Int) - 1) * (contOf start dt n v).dt) / 2,
          f (((contOf start dt n v).data.drop (i * k)).take k))).drop i0).take cnt)
      = winOf (blockSample f start dt v k) q i0 cnt := by
  rw [List.range_eq_range', ← List.map_drop, ← List.map_take, List.drop_range', take_range'_min]
  unfold winOf
  have e : 0 + i0 * 1 = i0 := by omega
  rw [e]
  apply List.map_congr_left
  intro i hi
  rw [List.mem_range'_1] at hi
  have hb : (i + 1) * k ≤ n := by
    have h1 := Nat.div_mul_le_self n k
    have h2 : (i + 1) * k ≤ n / k * k := Nat.mul_le_mul_right k (by omega)
    omega
  show (_, f ((((List.range n).map v).drop (i * k)).take k)) = _
  rw [rule_block v n k i hb]
  rfl

theorem contOf_length (start dt : Int) (n : Nat) (v : Nat → Rat) : (contOf start dt n v).data.length = n := by
  simp [contOf]

theorem byWindow_eq (f : List Rat → Rat) (start dt : Int) (n : Nat) (v : Nat → Rat) (k i0 cnt : Nat)
    (hdt : 0 < dt) (hk : 0 < k) :
    ∃ r, downBy f (.cont (contOf start dt n v)) k = .ok r ∧ r.dt = dt * k ∧ r.samples.length = n / k ∧
      byWindow f start dt n v k i0 cnt = (r.samples.drop i0).take cnt := by
  obtain ⟨r, hr, hd, hs⟩ := downBy_samples f (contOf start dt n v) k hdt hk
  rw [contOf_length] at hs
  refine ⟨r, hr, hd, by rw [hs]; simp, ?_⟩
  rw [hs, window_of_blocks f start dt n v k (n / k) i0 cnt (Nat.le_refl _)]
  rfl

theorem toWindow_eq (f : List Rat → Rat) (start dt : Int) (n : Nat) (v : Nat → Rat) (k i0 cnt : Nat) (m : Method)
    (hdt : 0 < dt) (hk : 0 < k) (hn : k < n) :
    ∃ out, downTo f (.cont (contOf start dt n v)) ((k : Int) * dt) (some m) (some true) = .ok out ∧
      out.length = toCount n k ∧ toWindow f start dt n v k i0 cnt = (out.drop i0).take cnt := by
  have hdt' : 0 < (contOf start dt n v).dt := hdt
  have hl := contOf_length start dt n v
  by_cases hnm : n % k = 0
  · have h2 : 2 * k ≤ n := by
      have h1 := Nat.div_add_mod n k
      rw [hnm] at h1
      have : 2 ≤ n / k := by
        by_cases h : 2 ≤ n / k
        · exact h
        · have : n / k ≤ 1 := by omega
          have := Nat.mul_le_mul_left k this
          omega
      have := Nat.mul_le_mul_left k this
      omega
    have h := to_cont_mult f (contOf start dt n v) k m hdt' hk (by rw [hl]; exact h2) (by rw [hl]; exact hnm)
    rw [hl] at h
    refine ⟨_, h, by simp [toCount, hnm], ?_⟩
    rw [window_of_blocks f start dt n v k (n / k - 1) i0 cnt (Nat.sub_le _ _)]
    simp [toWindow, toCount, hnm]
  · have h := to_cont_nonmult f (contOf start dt n v) k m hdt' hk (by rw [hl]; omega) (by rw [hl]; exact hnm)
    rw [hl] at h
    refine ⟨_, h, by simp [toCount, hnm], ?_⟩
    rw [window_of_blocks f start dt n v k (n / k) i0 cnt (Nat.le_refl _)]
    simp [toWindow, toCount, hnm]

/-! ### `downsampled_like`: disjoint windows, window starts in order (deepening round D) -/

/-- "Isolated" frame-rate changes: a period longer than its predecessor is never followed by a still
    longer one (so the repaired period, its successor, is not longer than the gap it sits in). -/
def IsolatedGrowth (d : List Int) : Prop :=
  ∀ j : Nat, 1 ≤ j → j + 1 < d.length → d.getD (j - 1) 0 < d.getD j 0 → d.getD (j + 1) 0 ≤ d.getD j 0

instance (d : List Int) : Decidable (IsolatedGrowth d) :=
  decidable_of_iff (∀ j : Nat, j < d.length → (1 ≤ j → j + 1 < d.length → d.getD (j - 1) 0 < d.getD j 0 →
      d.getD (j + 1) 0 ≤ d.getD j 0))
    ⟨fun h j h1 h2 => h j (by omega) h1 h2, fun h j _ => h j⟩

/-- `T[j+1] = T[j] + (diff T)[j]`. -/
theorem diff_getElem? : ∀ (T : List Int) (j : Nat), j + 1 < T.length →
    (diff T)[j]? = some (T.getD (j + 1) 0 - T.getD j 0)
  | [], j, h => by simp at h
  | [_], j, h => by simp at h
  | a :: b :: r, 0, _ => by simp [diff]
  | a :: b :: r, j + 1, h => by
    have := diff_getElem? (b :: r) j (by simpa using h)
    simp only [diff, List.getElem?_cons_succ, this]
    simp

theorem pairwise_lt_getD (T : List Int) (hs : T.Pairwise (· < ·)) (i j : Nat) (hij : i < j) (hj : j < T.length) :
    T.getD i 0 < T.getD j 0 := by
  have := (List.pairwise_iff_getElem.mp hs) i j (by omega) hj hij
  simpa [List.getD_eq_getElem?_getD, List.getElem?_eq_getElem (show i < T.length by omega),
    List.getElem?_eq_getElem hj] using this

theorem diff_getD (T : List Int) (j : Nat) (h : j + 1 < T.length) :
    (diff T).getD j 0 = T.getD (j + 1) 0 - T.getD j 0 := by
  rw [List.getD_eq_getElem?_getD, diff_getElem? T j h]; rfl

/-- Every repaired period is positive and not longer than the gap `T[j+1] - T[j]` it belongs to. -/
theorem repair_bounds (T : List Int) (hs : T.Pairwise (· < ·)) (hg : IsolatedGrowth (diff T)) (j : Nat)
    (h : j + 1 < T.length) :
    0 < (repair (diff T)).getD j 0 ∧ (repair (diff T)).getD j 0 ≤ T.getD (j + 1) 0 - T.getD j 0 := by
  have hlen := diff_length T
  rw [List.getD_eq_getElem?_getD, repair_getElem?]
  have hdj := diff_getD T j h
  have hpos : ∀ i, i + 1 < T.length → 0 < (diff T).getD i 0 := by
    intro i hi
    rw [diff_getD T i hi]
    have := pairwise_lt_getD T hs i (i + 1) (by omega) hi
    omega
  split
  · rename_i hc
    obtain ⟨h1, h2, h3⟩ := hc
    have := hg j h1 h2 h3
    rw [← List.getD_eq_getElem?_getD]
    have hp := hpos (j + 1) (by omega)
    omega
  · rw [← List.getD_eq_getElem?_getD]
    have hp := hpos j h
    omega

theorem likeDeltas_getD_succ (T : List Int) (j : Nat) :
    (likeDeltas T).getD (j + 1) 0 = (repair (diff T)).getD j 0 := by
  unfold likeDeltas
  simp [List.getD_eq_getElem?_getD]

theorem likeDeltas_getD_zero (T : List Int) :
    (likeDeltas T).getD 0 0 = (repair (diff T)).getD 0 0 := by
  unfold likeDeltas
  cases h : repair (diff T) <;> simp [List.getD_eq_getElem?_getD]

/-- Window lengths are non-negative, and the window of reference sample `j ≥ 1` does not reach back
    beyond the previous reference sample. -/
theorem likeDeltas_bounds (T : List Int) (hs : T.Pairwise (· < ·)) (hg : IsolatedGrowth (diff T)) (j : Nat)
    (h : j < T.length) :
    0 ≤ (likeDeltas T).getD j 0 ∧ (1 ≤ j → T.getD (j - 1) 0 ≤ T.getD j 0 - (likeDeltas T).getD j 0) := by
  cases j with
  | zero =>
    refine ⟨?_, by omega⟩
    rw [likeDeltas_getD_zero]
    by_cases h1 : 1 < T.length
    · exact Int.le_of_lt (repair_bounds T hs hg 0 (by omega)).1
    · have : (repair (diff T)).length = 0 := by
        unfold repair; rw [repairLoop_length, diff_length]; omega
      rw [List.getD_eq_getElem?_getD, List.getElem?_eq_none (by omega)]; simp
  | succ j =>
    rw [likeDeltas_getD_succ]
    have := repair_bounds T hs hg j h
    refine ⟨Int.le_of_lt this.1, fun _ => ?_⟩
    simp only [Nat.add_sub_cancel]
    omega

theorem zip_getD (T L : List Int) (hL : T.length ≤ L.length) (j : Nat) (h : j < T.length) :
    (T.zip L)[j]? = some (T.getD j 0, L.getD j 0) := by
  rw [List.getElem?_zip_eq_some]
  simp [List.getD_eq_getElem?_getD, List.getElem?_eq_getElem h,
    List.getElem?_eq_getElem (show j < L.length by omega)]

/-- The windows `[T - δ, T)` of a strictly increasing reference with isolated frame-rate changes are
    pairwise disjoint: each begins at or after the previous reference timestamp. -/
theorem like_windows_disjoint' (T : List Int) (hs : T.Pairwise (· < ·)) (hg : IsolatedGrowth (diff T)) :
    (T.zip (likeDeltas T)).Pairwise (fun a b => a.1 ≤ b.1 - b.2) := by
  rw [List.pairwise_iff_getElem]
  intro i j hi hj hij
  have hlen : (T.zip (likeDeltas T)).length = T.length := by
    rw [List.length_zip]; exact Nat.min_eq_left (likeDeltas_length T)
  rw [hlen] at hi hj
  have e1 := zip_getD T _ (likeDeltas_length T) i hi
  have e2 := zip_getD T _ (likeDeltas_length T) j hj
  rw [List.getElem?_eq_getElem (by omega)] at e1 e2
  simp only [Option.some.injEq] at e1 e2
  rw [e1, e2]
  simp only
  have hb := (likeDeltas_bounds T hs hg j hj).2 (by omega)
  by_cases hc : i = j - 1
  · subst hc; exact hb
  · have := pairwise_lt_getD T hs i (j - 1) (by omega) (by omega)
    omega

/-- … hence the window starts are in order: the hypothesis of `likeKept_repaired'` is established. -/
theorem like_window_starts_sorted' (T : List Int) (hs : T.Pairwise (· < ·)) (hg : IsolatedGrowth (diff T)) :
    (T.zip (likeDeltas T)).Pairwise (fun a b => a.1 - a.2 ≤ b.1 - b.2) := by
  have hd := like_windows_disjoint' T hs hg
  rw [List.pairwise_iff_getElem] at hd ⊢
  intro i j hi hj hij
  have hlen : (T.zip (likeDeltas T)).length = T.length := by
    rw [List.length_zip]; exact Nat.min_eq_left (likeDeltas_length T)
  have := hd i j hi hj hij
  have e1 := zip_getD T _ (likeDeltas_length T) i (by omega)
  rw [List.getElem?_eq_getElem (by omega)] at e1
  simp only [Option.some.injEq] at e1
  have h0 := (likeDeltas_bounds T hs hg i (by omega)).1
  rw [e1] at this ⊢
  simp only at this ⊢
  omega

/-- The executable flag of the protocol is the hypothesis `IsolatedGrowth`. -/
theorem isolatedGrowthB_iff (d : List Int) : isolatedGrowthB d = true ↔ IsolatedGrowth d := by
  unfold isolatedGrowthB IsolatedGrowth
  rw [List.all_eq_true]
  constructor
  · intro h j h1 h2 h3
    have := h j (List.mem_range.mpr (by omega))
    simp only [Bool.or_eq_true, Bool.not_eq_true', Bool.and_eq_false_iff, decide_eq_false_iff_not,
      decide_eq_true_eq] at this
    omega
  · intro h j _
    simp only [Bool.or_eq_true, Bool.not_eq_true', Bool.and_eq_false_iff, decide_eq_false_iff_not,
      decide_eq_true_eq]
    by_cases h1 : 1 ≤ j
    · by_cases h2 : j + 1 < d.length
      · by_cases h3 : d.getD (j - 1) 0 < d.getD j 0
        · right; exact h j h1 h2 h3
        · left; right; exact h3
      · left; left; right; exact h2
    · left; left; left; exact h1

/-! ### `downsampled_by`: the blocks are exactly the full windows of the grid inside the span -/

theorem by_fullWindows (c : Cont) (k : Nat) (hdt : 0 < c.dt) :
    fullWindows c.start c.stop ((k : Int) * c.dt) = blockWins c.start ((k : Int) * c.dt) (c.data.length / k) := by
  unfold fullWindows
  rw [(cont_span_div c k hdt).1]

/-! ### composition `downsampled_by` ∘ `downsampled_by` (deepening round D) -/

theorem blocks_length (k : Nat) (l : List Rat) : (blocks k l).length = l.length / k := by
  simp [blocks]

theorem blocks_getElem (k : Nat) (l : List Rat) (i : Nat) (h : i < (blocks k l).length) :
    (blocks k l)[i] = (l.drop (i * k)).take k := by
  simp [blocks]

/-- Rows `i·k₂ … (i+1)·k₂-1` of the `k₁`-blocks are the `k₁`-blocks of the `i`-th `k₁·k₂`-block. -/
theorem blocks_blocks (f : List Rat → Rat) (k1 k2 : Nat) (hk1 : 0 < k1) (hk2 : 0 < k2) (l : List Rat) :
    blocks k2 ((blocks k1 l).map f) = (blocks (k1 * k2) l).map fun B => (blocks k1 B).map f := by
  apply List.ext_getElem
  · simp only [blocks_length, List.length_map, Nat.div_div_eq_div_mul]
  · intro i h1 h2
    have hi : i < l.length / (k1 * k2) := by
      simpa [blocks_length] using h2
    have hle : (i + 1) * (k1 * k2) ≤ l.length := by
      have := Nat.mul_le_of_le_div _ _ _ (Nat.succ_le_of_lt hi)
      simpa using this
    rw [blocks_getElem, List.getElem_map, blocks_getElem]
    apply List.ext_getElem
    · simp only [List.length_take, List.length_drop, List.length_map, blocks_length]
      have hB : min (k1 * k2) (l.length - i * (k1 * k2)) = k1 * k2 := by
        apply Nat.min_eq_left
        have : (i + 1) * (k1 * k2) = i * (k1 * k2) + k1 * k2 := by ring
        omega
      rw [hB, Nat.mul_div_cancel_left _ hk1]
      apply Nat.min_eq_left
      have h3 : (i + 1) * k2 ≤ l.length / k1 := by
        rw [Nat.le_div_iff_mul_le hk1]
        have : (i + 1) * k2 * k1 = (i + 1) * (k1 * k2) := by ring
        omega
      have : (i + 1) * k2 = i * k2 + k2 := by ring
      omega
    · intro j hj1 hj2
      have hj : j < k2 := by
        simp only [List.length_take] at hj1; omega
      simp only [List.getElem_take, List.getElem_drop, List.getElem_map, blocks_getElem]
      congr 1
      rw [List.drop_take, List.drop_drop, List.take_take]
      have e1 : i * (k1 * k2) + j * k1 = (i * k2 + j) * k1 := by ring
      rw [e1]
      congr 1
      symm
      apply Nat.min_eq_left
      have : (j + 1) * k1 ≤ k2 * k1 := Nat.mul_le_mul_right _ hj
      have e2 : (j + 1) * k1 = j * k1 + k1 := by ring
      have e3 : k2 * k1 = k1 * k2 := by ring
      omega

theorem blocks_cons (k : Nat) (hk : 0 < k) (l : List Rat) (h : k ≤ l.length) :
    blocks k l = l.take k :: blocks k (l.drop k) := by
  unfold blocks
  have hq : l.length / k = (l.drop k).length / k + 1 := by
    rw [List.length_drop, Nat.div_eq l.length k, if_pos ⟨hk, h⟩]
  rw [hq, List.range_succ_eq_map, List.map_cons, List.map_map]
  congr 1
  · simp
  · apply List.map_congr_left
    intro i _
    simp only [Function.comp, List.drop_drop]
    congr 2
    rw [Nat.succ_mul]; omega

/-- Summing the sums of the `k`-blocks of a list that consists of whole blocks gives the sum of the list. -/
theorem sum_blocks (k : Nat) (hk : 0 < k) : ∀ (q : Nat) (B : List Rat), B.length = k * q →
    ((blocks k B).map List.sum).sum = B.sum := by
  intro q
  induction q with
  | zero =>
    intro B hB
    have : B = [] := List.eq_nil_of_length_eq_zero (by simpa using hB)
    subst this
    simp [blocks]
  | succ q ih =>
    intro B hB
    have hle : k ≤ B.length := by rw [hB, Nat.mul_succ]; omega
    rw [blocks_cons k hk B hle, List.map_cons, List.sum_cons, ih (B.drop k) (by rw [List.length_drop, hB, Nat.mul_succ]; omega)]
    conv_rhs => rw [← List.take_append_drop k B]
    rw [List.sum_append]

/-- Composition `downsampled_by(k₁)` then `downsampled_by(k₂)` against `downsampled_by(k₁·k₂)`. -/
theorem by_by' (f g h : List Rat → Rat) (c : Cont) (k1 k2 : Nat) (hk1 : 0 < k1) (hk2 : 0 < k2) :
    ∃ r1 r2 r12, downBy f (.cont c) k1 = .ok r1 ∧ downBy g (.cont r1) k2 = .ok r2 ∧
      downBy h (.cont c) (k1 * k2) = .ok r12 ∧
      r2.start = r12.start ∧ r2.dt = r12.dt ∧
      r2.data = (blocks (k1 * k2) c.data).map (fun B => g ((blocks k1 B).map f)) ∧
      r12.data = (blocks (k1 * k2) c.data).map h := by
  have hk : 0 < k1 * k2 := Nat.mul_pos hk1 hk2
  refine ⟨{ start := c.start + (c.dt * ((k1 : Int) - 1)) / 2, dt := c.dt * k1, data := (blocks k1 c.data).map f },
    { start := (c.start + (c.dt * ((k1 : Int) - 1)) / 2) + ((c.dt * k1) * ((k2 : Int) - 1)) / 2, dt := (c.dt * k1) * k2,
      data := (blocks k2 ((blocks k1 c.data).map f)).map g },
    { start := c.start + (c.dt * (((k1 * k2 : Nat) : Int) - 1)) / 2, dt := c.dt * (k1 * k2 : Nat), data := (blocks (k1 * k2) c.data).map h },
    ?_, ?_, ?_, ?_, ?_, ?_, rfl⟩
  · simp only [downBy]; rw [if_neg (by omega)]
  · simp only [downBy]; rw [if_neg (by omega)]
  · simp only [downBy]; rw [if_neg (by omega)]
  · -- the two half-period shifts add up without rounding loss: they are never both odd
    simp only
    push_cast
    rcases Nat.even_or_odd' k1 with ⟨m, hm | hm⟩
    · subst hm
      have e1 : c.dt * ((2 * m : Nat) : Int) * ((k2 : Int) - 1) = 2 * (c.dt * (m : Int) * ((k2 : Int) - 1)) := by
        push_cast; ring
      have e2 : c.dt * (((2 * m : Nat) : Int) * (k2 : Int) - 1)
          = c.dt * (((2 * m : Nat) : Int) - 1) + 2 * (c.dt * (m : Int) * ((k2 : Int) - 1)) := by
        push_cast; ring
      rw [e1, e2]
      generalize c.dt * (m : Int) * ((k2 : Int) - 1) = x
      generalize c.dt * (((2 * m : Nat) : Int) - 1) = y
      omega
    · subst hm
      have e1 : c.dt * (((2 * m + 1 : Nat) : Int) - 1) = 2 * (c.dt * (m : Int)) := by push_cast; ring
      have e2 : c.dt * (((2 * m + 1 : Nat) : Int) * (k2 : Int) - 1)
          = 2 * (c.dt * (m : Int)) + c.dt * ((2 * m + 1 : Nat) : Int) * ((k2 : Int) - 1) := by
        push_cast; ring
      rw [e1, e2]
      generalize c.dt * (m : Int) = x
      generalize c.dt * ((2 * m + 1 : Nat) : Int) * ((k2 : Int) - 1) = y
      omega
  · simp only; push_cast; ring
  · simp only
    rw [blocks_blocks f k1 k2 hk1 hk2, List.map_map]
    rfl

theorem mem_blocks_length (K : Nat) (l B : List Rat) (hB : B ∈ blocks K l) : B.length = K := by
  unfold blocks at hB
  obtain ⟨i, hi, rfl⟩ := List.mem_map.mp hB
  rw [List.mem_range] at hi
  have := Nat.mul_le_of_le_div _ _ _ (Nat.succ_le_of_lt hi)
  rw [List.length_take, List.length_drop]
  have e : (i + 1) * K = i * K + K := by ring
  have : i.succ * K = (i + 1) * K := rfl
  omega

/-! ### arithmetic: `withData` (deepening round D) -/

theorem withData_timestamps (a : Src) (d : List Rat) (h : d.length = a.data.length) :
    (a.withData d).timestamps = a.timestamps := by
  cases a with
  | cont c => simp only [Src.withData, Src.timestamps, Cont.timestamps, Cont.stop, h, Src.data]
  | ts l =>
    simp only [Src.withData, Src.timestamps]
    rw [List.map_fst_zip]
    simp only [Src.data, List.length_map] at h
    simp [h]

theorem withData_data (a : Src) (d : List Rat) (h : d.length = a.data.length) :
    (a.withData d).data = d := by
  cases a with
  | cont c => rfl
  | ts l =>
    simp only [Src.withData, Src.data]
    rw [List.map_snd_zip]
    simp only [Src.data, List.length_map] at h
    simp [h]

theorem withData_wf (a : Src) (d : List Rat) (h : a.wf) : (a.withData d).wf := by
  cases a with
  | cont c => exact h
  | ts l => trivial

theorem overStep_eq_W (f : List Rat → Rat) (s : Src) (center : Bool) (r : Int × Int) :
    overStep f s center r = (overStepW s center r).map fun w => (w.1, f w.2) := by
  unfold overStep overStepW
  cases (s.getitem r.1 r.2).samples <;> rfl

/-! ### reductions compatible with blocks: sum, mean, min, max (deepening round D) -/

/-- A reduction is compatible with blocks when reducing the reductions of the `k`-blocks of a list of `q ≥ 1` whole
    blocks gives the reduction of the list. -/
def BlockCompat (f : List Rat → Rat) : Prop :=
  ∀ (k q : Nat) (B : List Rat), 0 < k → 0 < q → B.length = k * q → f ((blocks k B).map f) = f B

theorem by_by_compat' (f : List Rat → Rat) (hf : BlockCompat f) (c : Cont) (k1 k2 : Nat) (hk1 : 0 < k1) (hk2 : 0 < k2) :
    ∃ r1 r2, downBy f (.cont c) k1 = .ok r1 ∧ downBy f (.cont r1) k2 = .ok r2 ∧
      downBy f (.cont c) (k1 * k2) = .ok r2 := by
  obtain ⟨r1, r2, r12, h1, h2, h12, hst, hdt, hd2, hd12⟩ := by_by' f f f c k1 k2 hk1 hk2
  refine ⟨r1, r2, h1, h2, ?_⟩
  rw [h12]
  congr 1
  have hd : r2.data = r12.data := by
    rw [hd2, hd12]
    apply List.map_congr_left
    intro B hB
    exact hf k1 k2 B hk1 hk2 (mem_blocks_length _ _ _ hB)
  cases r2; cases r12
  simp only at hst hdt hd
  rw [hst, hdt, hd]

theorem blocks_whole_length (k q : Nat) (hk : 0 < k) (B : List Rat) (h : B.length = k * q) : (blocks k B).length = q := by
  rw [blocks_length, h, Nat.mul_div_cancel_left _ hk]

theorem sum_map_div (l : List Rat) (k : Rat) : (l.map (fun x => x / k)).sum = l.sum / k := by
  induction l with
  | nil => simp
  | cons a t ih => simp only [List.map_cons, List.sum_cons, ih, add_div]

theorem compat_sum : BlockCompat Reduce.sum.apply := by
  intro k q B hk _ hB
  exact sum_blocks k hk q B hB

theorem compat_mean : BlockCompat Reduce.mean.apply := by
  intro k q B hk hq hB
  have hmap : (blocks k B).map Reduce.mean.apply = ((blocks k B).map List.sum).map (fun x => x / (k : Rat)) := by
    rw [List.map_map]
    apply List.map_congr_left
    intro b hb
    simp only [Reduce.apply, Function.comp, mem_blocks_length _ _ _ hb]
  show ((blocks k B).map Reduce.mean.apply).sum / (((blocks k B).map Reduce.mean.apply).length : Rat) = B.sum / (B.length : Rat)
  rw [List.length_map, blocks_whole_length k q hk B hB, hmap, sum_map_div, sum_blocks k hk q B hB, hB]
  push_cast
  rw [div_div]

/-- `f` picks an extremal element: a member of the (non-empty) list that is `R`-related to every member. -/
def Extremal (R : Rat → Rat → Prop) (f : List Rat → Rat) : Prop :=
  ∀ l : List Rat, l ≠ [] → f l ∈ l ∧ ∀ y ∈ l, R (f l) y

theorem mem_of_mem_blocks (k : Nat) (B b : List Rat) (hb : b ∈ blocks k B) (y : Rat) (hy : y ∈ b) : y ∈ B := by
  unfold blocks at hb
  obtain ⟨i, _, rfl⟩ := List.mem_map.mp hb
  exact List.mem_of_mem_drop (List.mem_of_mem_take hy)

/-- Every element of a list of whole blocks lies in one of its blocks. -/
theorem mem_some_block (k q : Nat) (hk : 0 < k) (B : List Rat) (hB : B.length = k * q) (y : Rat) (hy : y ∈ B) :
    ∃ b ∈ blocks k B, y ∈ b := by
  obtain ⟨j, hj, rfl⟩ := List.mem_iff_getElem.mp hy
  have hi : j / k < q := by
    rw [Nat.div_lt_iff_lt_mul hk, Nat.mul_comm]; omega
  have hlen : j / k < (blocks k B).length := by rw [blocks_whole_length k q hk B hB]; exact hi
  refine ⟨(blocks k B)[j / k], List.getElem_mem hlen, ?_⟩
  rw [blocks_getElem]
  have hmod := Nat.mod_lt j hk
  have hdm := Nat.div_add_mod j k
  have hle : (j / k + 1) * k ≤ k * q := by
    rw [Nat.mul_comm k q]; exact Nat.mul_le_mul_right k hi
  have e : (j / k + 1) * k = j / k * k + k := by ring
  have e2 : k * (j / k) = j / k * k := by ring
  apply List.mem_iff_getElem.mpr
  refine ⟨j % k, ?_, ?_⟩
  · rw [List.length_take, List.length_drop]; omega
  · rw [List.getElem_take, List.getElem_drop]
    congr 1
    omega

theorem compat_of_extremal (R : Rat → Rat → Prop) (hanti : ∀ a b, R a b → R b a → a = b)
    (htrans : ∀ a b c, R a b → R b c → R a c) (f : List Rat → Rat) (hf : Extremal R f) : BlockCompat f := by
  intro k q B hk hq hB
  have hBne : B ≠ [] := by
    intro h; rw [h] at hB; simp at hB
    have := Nat.mul_pos hk hq; omega
  have hlen := blocks_whole_length k q hk B hB
  have hne : (blocks k B).map f ≠ [] := by
    intro h
    have := congrArg List.length h
    simp only [List.length_map, hlen, List.length_nil] at this
    omega
  obtain ⟨hm, hlow⟩ := hf _ hne
  obtain ⟨hBm, hBlow⟩ := hf B hBne
  have hbne : ∀ b ∈ blocks k B, b ≠ [] := by
    intro b hb h
    have := mem_blocks_length _ _ _ hb
    rw [h] at this; simp at this; omega
  -- the reduction of the block reductions is a member of B …
  obtain ⟨b, hb, hfb⟩ := List.mem_map.mp hm
  have hmemB : f ((blocks k B).map f) ∈ B := by
    rw [← hfb]
    exact mem_of_mem_blocks k B b hb _ (hf b (hbne b hb)).1
  -- … related to every member of B
  have hall : ∀ y ∈ B, R (f ((blocks k B).map f)) y := by
    intro y hy
    obtain ⟨b', hb', hyb⟩ := mem_some_block k q hk B hB y hy
    exact htrans _ _ _ (hlow (f b') (List.mem_map.mpr ⟨b', hb', rfl⟩)) ((hf b' (hbne b' hb')).2 y hyb)
  exact hanti _ _ (hall _ hBm) (hBlow _ hmemB)

theorem foldl_rmin_spec : ∀ (xs : List Rat) (x : Rat),
    xs.foldl rmin x ∈ x :: xs ∧ ∀ y ∈ x :: xs, xs.foldl rmin x ≤ y
  | [], x => by simp
  | z :: zs, x => by
    obtain ⟨h1, h2⟩ := foldl_rmin_spec zs (rmin x z)
    simp only [List.foldl_cons]
    have hr : (rmin x z = x ∧ x ≤ z) ∨ (rmin x z = z ∧ z ≤ x) := by
      unfold rmin
      by_cases h : x ≤ z
      · left; simp [h]
      · right; simp [h]; exact le_of_lt (not_le.mp h)
    constructor
    · rcases List.mem_cons.mp h1 with h | h
      · rcases hr with ⟨e, _⟩ | ⟨e, _⟩ <;> rw [h, e] <;> simp
      · simp [h]
    · intro y hy
      have hm := h2 (rmin x z) (by simp)
      rcases List.mem_cons.mp hy with rfl | hy
      · rcases hr with ⟨e, h⟩ | ⟨e, h⟩ <;> rw [e] at hm ⊢ <;> linarith
      · rcases List.mem_cons.mp hy with rfl | hy
        · rcases hr with ⟨e, h⟩ | ⟨e, h⟩ <;> rw [e] at hm ⊢ <;> linarith
        · exact h2 y (by simp [hy])

theorem foldl_rmax_spec : ∀ (xs : List Rat) (x : Rat),
    xs.foldl rmax x ∈ x :: xs ∧ ∀ y ∈ x :: xs, y ≤ xs.foldl rmax x
  | [], x => by simp
  | z :: zs, x => by
    obtain ⟨h1, h2⟩ := foldl_rmax_spec zs (rmax x z)
    simp only [List.foldl_cons]
    have hr : (rmax x z = z ∧ x ≤ z) ∨ (rmax x z = x ∧ z ≤ x) := by
      unfold rmax
      by_cases h : x ≤ z
      · left; simp [h]
      · right; simp [h]; exact le_of_lt (not_le.mp h)
    constructor
    · rcases List.mem_cons.mp h1 with h | h
      · rcases hr with ⟨e, _⟩ | ⟨e, _⟩ <;> rw [h, e] <;> simp
      · simp [h]
    · intro y hy
      have hm := h2 (rmax x z) (by simp)
      rcases List.mem_cons.mp hy with rfl | hy
      · rcases hr with ⟨e, h⟩ | ⟨e, h⟩ <;> rw [e] at hm ⊢ <;> linarith
      · rcases List.mem_cons.mp hy with rfl | hy
        · rcases hr with ⟨e, h⟩ | ⟨e, h⟩ <;> rw [e] at hm ⊢ <;> linarith
        · exact h2 y (by simp [hy])

theorem compat_min : BlockCompat Reduce.min.apply := by
  apply compat_of_extremal (· ≤ ·) (fun a b h1 h2 => le_antisymm h1 h2) (fun a b c h1 h2 => le_trans h1 h2)
  intro l hl
  cases l with
  | nil => exact absurd rfl hl
  | cons x xs => exact foldl_rmin_spec xs x

theorem compat_max : BlockCompat Reduce.max.apply := by
  apply compat_of_extremal (· ≥ ·) (fun a b h1 h2 => le_antisymm h2 h1) (fun a b c h1 h2 => le_trans h2 h1)
  intro l hl
  cases l with
  | nil => exact absurd rfl hl
  | cons x xs => exact foldl_rmax_spec xs x

end Verif.C04
