/-
  C11 — force calibration: physical identities, error propagation, analytical Lorentzian fit,
  fixed-diode parameter routing.

  Executable model of (lumicks/pylake/force_calibration/)
    * `PassiveCalibrationModel.__init__`  (validation, option matrix → `_drag_correction_factor`,
      `_to_local_drag_coefficient`), `_drag`, `_set_drag`, `calibration_results`
    * `ActiveCalibrationModel.calibration_results`
    * `detail/power_models.py`: `g_diode`, `passive_power_spectrum_model`,
      `sphere_friction_coefficient`, `theoretical_driving_power_lorentzian`,
      `fit_analytical_lorentzian`
    * `detail/hydrodynamics.py`: `calculate_complex_drag`, `calculate_dissipation_frequency`,
      `passive_power_spectrum_model_hydro`, `theoretical_driving_power_hydrodynamics`
      (complex arithmetic written out in real and imaginary parts)
    * `detail/drag_models.py`: `faxen_factor`, `brenner_axial`
    * `viscosity_of_water` (pure-water branch)
    * `FixedDiodeModel` (`_fitted_idx`, the NumPy fancy assignment with its broadcasting rule),
      `DiodeModel`, `NoFilter`
    * the bias factor `n/(n+1)` of `fit_power_spectrum`.

  Formulas are generic over `[RealLike α]` (executed at `Float`, reasoned about at `ℝ`);
  the closed-form least squares in `1/P` is over `Rat`; the routing is over `List`.
  Mirrors the algorithm of the code, not the specification.  Mathlib-free.
-/
import Verif.Proto
import Verif.Num

namespace Verif.C11
open Verif Verif.Proto

/-! ## Formulas (generic over `RealLike`) -/
section formulas
variable {α : Type} [RealLike α]
open RealLike

/-- `scipy.constants.k` -/
def kB : α := 1.380649e-23
/-- `scipy.constants.convert_temperature(t, "C", "K")` -/
def toKelvin (t : α) : α := t + 273.15

/-- `sphere_friction_coefficient(eta, d) = 3.0 * math.pi * eta * d` -/
def sphereFriction (eta d : α) : α := 3.0 * pi * eta * d

/-- `faxen_factor(distance_to_surface_m, radius_m)` -/
def faxenFactor (l r : α) : α :=
  let h := r / l
  1.0 / (1.0 - 9.0 / 16.0 * h + 1.0 / 8.0 * npow h 3 - 45.0 / 256.0 * npow h 4
    - 1.0 / 16.0 * npow h 5)

/-- `brenner_axial(distance_to_surface_m, radius_m)` -/
def brennerAxial (l r : α) : α :=
  let h := r / l
  1.0 / (1.0 - (9.0 / 8.0) * h + 0.5 * npow h 3 - (57.0 / 100.0) * npow h 4
    + (1.0 / 5.0) * npow h 5 + (7.0 / 200.0) * npow h 11 - (1.0 / 25.0) * npow h 12)

/-- `x ** b` for `x > 0` and a real exponent -/
def rpow (x b : α) : α := exp (b * log x)

/-- `viscosity_of_water(temperature)` (no salt, no pressure): `_poly((T+273.15)/300, bi, ai) * 1e-6` -/
def viscosityOfWater (t : α) : α :=
  let x := (t + 273.15) / 300.0
  (280.68 * rpow x (-1.9) + 511.45 * rpow x (-7.7) + 61.131 * rpow x (-19.6)
    + 0.45903 * rpow x (-40.0)) * 1.0e-6

/-- `g_diode(f, f_diode, alpha)` -/
def gDiode (f fd al : α) : α := al * al + (1.0 - al * al) / (1.0 + (f / fd) * (f / fd))

/-- `passive_power_spectrum_model(f, fc, D)` -/
def lorentzianPsd (f fc dc : α) : α := (dc / (pi * pi)) / (f * f + fc * fc)

/-- `theoretical_driving_power_lorentzian(fc, driving_frequency, driving_amplitude)` -/
def drivingPowerLorentzian (fc fd amp : α) : α :=
  amp * amp / (2.0 * (1.0 + (fc / fd) * (fc / fd)))

/-- `calculate_dissipation_frequency(gamma0, bead_radius, rho_bead)` -/
def dissipationFrequency (gamma0 r rhoBead : α) : α :=
  let beadMass := (4.0 / 3.0) * pi * npow r 3 * rhoBead
  gamma0 / (2.0 * pi * beadMass)

/-- `calculate_complex_drag(f, gamma0, rho_sample, bead_radius, distance_to_surface)` for a real
    frequency `f ≥ 0`; returns `(re, im)` of `γ/γ₀` (Eq. D4/D6), complex arithmetic written out. -/
def complexDrag (f gamma0 rhoSample r : α) (dist : Option α) : α × α :=
  let nu := gamma0 / (6.0 * pi * rhoSample * r)
  let fnu := nu / (pi * (r * r))
  let fr := f / fnu
  let s := sqrt fr
  -- stokes = 1 + (1 - i) s - (2i/9) fr
  let sr := 1.0 + s
  let si := -s - (2.0 / 9.0) * fr
  match dist with
  | none => (sr, si)
  | some l =>
    let eps := (2.0 * l - r) * s / r
    let rl := r / l
    -- exp(-(1 - i) eps) = e^{-eps} (cos eps + i sin eps)
    let e := exp (-eps)
    let innerRe := 1.0 - s / 3.0 - (4.0 / 3.0) * (1.0 - e * cos eps)
    let innerIm := s / 3.0 + (2.0 / 9.0) * fr + (4.0 / 3.0) * (e * sin eps)
    let dr := 1.0 - (9.0 / 16.0) * rl * innerRe
    let di := -((9.0 / 16.0) * rl * innerIm)
    let n := dr * dr + di * di
    ((sr * dr + si * di) / n, (si * dr - sr * di) / n)

/-- `passive_power_spectrum_model_hydro` -/
def hydroPsd (f fc dc gamma0 r rhoSample rhoBead : α) (dist : Option α) : α :=
  let (re, im) := complexDrag f gamma0 rhoSample r dist
  let fm := dissipationFrequency gamma0 r rhoBead
  let t := fc + f * (im - f / fm)
  let den := t * t + (f * re) * (f * re)
  dc / (pi * pi) * re / den

/-- `theoretical_driving_power_hydrodynamics` -/
def drivingPowerHydro (fc fd amp gamma0 r rhoSample rhoBead : α) (dist : Option α) : α :=
  let (re, im) := complexDrag fd gamma0 rhoSample r dist
  let fm := dissipationFrequency gamma0 r rhoBead
  let t := fc + fd * im - fd * fd / fm
  let den := 2.0 * (t * t + (fd * re) * (fd * re))
  (amp * fd) * (amp * fd) * (re * re + im * im) / den

/-! ### The option matrix of `PassiveCalibrationModel.__init__` -/

inductive Err where
  | value
  | notImplemented
  | type
deriving Repr, DecidableEq

def Err.name : Err → String
  | .value => "ValueError"
  | .notImplemented => "NotImplementedError"
  | .type => "TypeError"

/-- constructor arguments (`bead_diameter` and `distance_to_surface` in µm, as the API takes them) -/
structure Opts (α : Type) where
  d : α
  visc : Option α
  temp : α
  hydro : Bool
  dist : Option α
  rhoSample : Option α
  rhoBead : α
  fast : Bool
  axial : Bool

/-- Python truthiness of a float (`if distance_to_surface:`) -/
def truthy (x : α) : Bool := lt x 0.0 || lt 0.0 x

/-- the `raise` statements of `__init__`, in the order the code executes them -/
def validate (o : Opts α) : Option Err :=
  if lt o.d 1.0e-2 then some .value
  else if (match o.dist with | some l => lt l (o.d / 2.0) | none => false) then some .value
  else if (match o.visc with | some v => le v 0.0003 | none => false) then some .value
  else if !(lt 5.0 o.temp && lt o.temp 90.0) then some .value
  else if o.hydro then
    if o.axial then some .notImplemented
    else if (match o.dist with | some l => lt (l / (o.d / 2.0)) 1.5 | none => false) then some .value
    else if (match o.rhoSample with | some r => lt r 100.0 | none => false) then some .value
    else if lt o.rhoBead 100.0 then some .value
    else none
  else none

/-- `self.viscosity` -/
def viscosityOf (o : Opts α) : α :=
  match o.visc with
  | some v => v
  | none => viscosityOfWater o.temp

/-- `self.drag_coeff` as set by `__init__` (theoretical bulk drag) -/
def bulkDrag (o : Opts α) : α := sphereFriction (viscosityOf o) (o.d * 1.0e-6)

/-- `self._drag_correction_factor` -/
def dragCorrection (o : Opts α) : α :=
  if o.hydro then 1.0
  else match o.dist with
    | some l =>
      if truthy l then
        (if o.axial then brennerAxial (l * 1.0e-6) (o.d * 1.0e-6 / 2.0)
         else faxenFactor (l * 1.0e-6) (o.d * 1.0e-6 / 2.0))
      else 1.0
    | none => 1.0

/-- `self._to_local_drag_coefficient` (`calculate_complex_drag(f=0, gamma0=1, …)[0]` when
    hydrodynamically correct) -/
def toLocalDrag (o : Opts α) : α :=
  if o.hydro then
    (complexDrag 0.0 1.0 (o.rhoSample.getD 997.0) (o.d * 1.0e-6 / 2.0)
      (o.dist.map (· * 1.0e-6))).1
  else 1.0

/-- the state of a constructed model that the results depend on -/
structure Mdl (α : Type) where
  o : Opts α
  /-- `drag_coeff` (may be overridden by `_set_drag`) -/
  dragCoeff : α
  /-- `gamma0` bound into the hydrodynamic spectrum at construction (NOT changed by `_set_drag`) -/
  gamma0Psd : α
  corr : α
  toLocal : α

def build (o : Opts α) : Mdl α :=
  { o := o, dragCoeff := bulkDrag o, gamma0Psd := bulkDrag o, corr := dragCorrection o,
    toLocal := toLocalDrag o }

def mkModel (o : Opts α) : Except Err (Mdl α) :=
  match validate o with
  | some e => .error e
  | none => .ok (build o)

/-- `_set_drag(drag)` -/
def Mdl.setDrag (m : Mdl α) (drag : α) : Mdl α := { m with dragCoeff := drag }

/-- the `_drag` property: corrected drag coefficient -/
def Mdl.drag (m : Mdl α) : α := m.dragCoeff * m.corr

/-- `self._passive_power_spectrum_model(f, fc, D)` -/
def Mdl.physicalPsd (m : Mdl α) (f fc dc : α) : α :=
  if m.o.hydro then
    hydroPsd f fc dc m.gamma0Psd (m.o.d * 1.0e-6 / 2.0) (m.o.rhoSample.getD 997.0) m.o.rhoBead
      (m.o.dist.map (· * 1.0e-6))
  else lorentzianPsd f fc dc

/-! ### Passive calibration results -/

structure PassiveRes (α : Type) where
  rd : α          -- µm/V
  kappa : α       -- pN/nm
  rf : α          -- pN/V
  gamma : α       -- kg/s (`drag_coeff`)
  errKappa : α
  errRd : α

/-- `PassiveCalibrationModel.calibration_results` -/
def passiveResults (m : Mdl α) (fc dc fcErr dcErr : α) : PassiveRes α :=
  let tK := toKelvin m.o.temp
  let rd := sqrt (kB * tK / m.drag / dc) * 1.0e6
  let kappa := 2.0 * pi * m.drag * fc * 1.0e3
  let kappaErr := (kappa / fc) * fcErr
  let rdErr := rd / (2.0 * dc) * dcErr
  let rf := rd * kappa * 1.0e3
  { rd := rd, kappa := kappa, rf := rf, gamma := m.dragCoeff, errKappa := kappaErr, errRd := rdErr }

/-! ### Active calibration results -/

/-- what `ActiveCalibrationModel.__init__` measured from the driving / response signals -/
structure Drive (α : Type) where
  freq : α        -- driving_frequency [Hz]
  amp : α         -- driving_amplitude [m]
  ampErr : α      -- _driving_amplitude_err [m]
  maxP : α        -- peak power density of `output_power.ps`
  df : α          -- frequency_bin_width
  pExpErr : α     -- power_exp_err

structure ActiveRes (α : Type) where
  rd : α            -- µm/V
  kappa : α         -- pN/nm
  rf : α            -- pN/V
  gamma0 : α        -- `drag_coeff`
  gammaEx : α       -- measured / correction
  localDrag : α     -- measured * to_local
  pExp : α
  pTheory : α
  errPTheory : α
  errKappa : α
  errRd : α
  /-- the measured drag coefficient itself (not reported; the quantity of the identities) -/
  measured : α

/-- `_theoretical_driving_power(fc)` -/
def Mdl.theoreticalPower (m : Mdl α) (dr : Drive α) (fc : α) : α :=
  if m.o.hydro then
    drivingPowerHydro fc dr.freq dr.amp m.gamma0Psd (m.o.d * 1.0e-6 / 2.0)
      (m.o.rhoSample.getD 997.0) m.o.rhoBead (m.o.dist.map (· * 1.0e-6))
  else drivingPowerLorentzian fc dr.freq dr.amp

/-- `ActiveCalibrationModel.calibration_results`, given the value `filt` of the filter model at the
    driving frequency -/
def activeResults (m : Mdl α) (dr : Drive α) (filt : α) (fc dc fcErr dcErr : α) : ActiveRes α :=
  let thermal := m.physicalPsd dr.freq fc dc * filt
  let pExp := (dr.maxP - thermal) * dr.df
  let pTh := m.theoreticalPower dr fc
  let rd := sqrt (pTh / pExp)
  let dpFc := -(2.0 / fc) * pTh
  let dpAmp := (2.0 / dr.amp) * pTh
  let pThErr := sqrt (dpFc * dpFc * (fcErr * fcErr) + dpAmp * dpAmp * (dr.ampErr * dr.ampErr))
  let dExp := -1.0 / (2.0 * pExp)
  let dTh := 1.0 / (2.0 * pTh)
  let rdErr := sqrt (dExp * dExp * (dr.pExpErr * dr.pExpErr) + dTh * dTh * (pThErr * pThErr)) * rd
  let kT := kB * toKelvin m.o.temp
  let g := kT / (rd * rd * dc)
  let a := -2.0 / rd
  let b := -1.0 / dc
  let gErr := sqrt (a * a * (rdErr * rdErr) + b * b * (dcErr * dcErr)) * g
  let kappa := 2.0 * pi * fc * g
  let c := 1.0 / fc
  let e := 1.0 / g
  let kappaErr := sqrt (c * c * (fcErr * fcErr) + e * e * (gErr * gErr)) * kappa
  let rf := rd * kappa
  { rd := rd * 1.0e6, kappa := kappa * 1.0e3, rf := rf * 1.0e12, gamma0 := m.dragCoeff,
    gammaEx := g / m.corr, localDrag := g * m.toLocal, pExp := pExp, pTheory := pTh,
    errPTheory := pThErr, errKappa := kappaErr * 1.0e3, errRd := rdErr * 1.0e6, measured := g }

/-! ### Post-processing of the analytical Lorentzian fit (`fc`, `D`, error bars) -/

structure AnlFit (α : Type) where
  fc : α
  dc : α
  sigmaFc : α
  sigmaD : α

/-- everything `fit_analytical_lorentzian` does after `a` and `b` are known; `f0 f1 p0` are
    `ps.frequency[0]`, `ps.frequency[1]`, `ps.power[0]`, `fmin fmax` the extreme frequencies and
    `dur` the total duration -/
def analyticalPost (a b f0 f1 p0 fmin fmax dur : α) : AnlFit α :=
  let adb := a / b
  let fc := if lt 0.0 adb then sqrt adb else 0.5 * (if lt 0.0 f0 then f0 else f1)
  let dc := if lt 0.0 b then (1.0 / b) * (pi * pi) else pi * pi * (fc * fc) * p0
  let xmin := fmin / fc
  let xmax := fmax / fc
  let at_ := arctan ((xmax - xmin) / (1.0 + xmin * xmax))
  let u := (2.0 * xmax) / (1.0 + xmax * xmax) - (2.0 * xmin) / (1.0 + xmin * xmin) + 2.0 * at_
  let v := (4.0 / (xmax - xmin)) * (at_ * at_)
  let sFc := sqrt (pi / (u - v))
  let sigmaFc := fc * sFc / sqrt (pi * fc * dur)
  let sD := sqrt (u / ((1.0 + pi / 2.0) * (xmax - xmin))) * sFc
  let sigmaD := dc * sqrt ((1.0 + pi / 2.0) / (pi * fc * dur)) * sD
  { fc := fc, dc := dc, sigmaFc := sigmaFc, sigmaD := sigmaD }

/-- the bias factor of `fit_power_spectrum`: `n / (n + 1)` applied to `D` and to its error -/
def biasCorrect (n dc : α) : α := dc * (n / (n + 1.0))

end formulas

/-! ## Closed-form least squares in `1/P` (over `Rat`) -/

/-- `Spq[p, q] = np.sum(np.power(f, 2 * p) * np.power(P, q))` -/
def spq (p q : Nat) (fs ps : List Rat) : Rat :=
  ((fs.zip ps).map fun x => x.1 ^ (2 * p) * x.2 ^ q).sum

/-- the common denominator `S02·S22 − S12·S12` -/
def anlDet (fs ps : List Rat) : Rat :=
  spq 0 2 fs ps * spq 2 2 fs ps - spq 1 2 fs ps * spq 1 2 fs ps

/-- `(a, b)` of `fit_analytical_lorentzian` (Ref. 1, Eq. 13–14) -/
def analyticalLorentzian (fs ps : List Rat) : Rat × Rat :=
  ((spq 0 1 fs ps * spq 2 2 fs ps - spq 1 1 fs ps * spq 1 2 fs ps) / anlDet fs ps,
   (spq 1 1 fs ps * spq 0 2 fs ps - spq 0 1 fs ps * spq 1 2 fs ps) / anlDet fs ps)

def ratAbs (x : Rat) : Rat := if x < 0 then -x else x

/-- conditioning-aware scales of `a` and `b`: the sum of the absolute values of the terms that a
    floating-point evaluation of the two quotients rounds (numerator and `|quotient|·denominator`),
    divided by `|det|`.  The implementation's doubles must lie within `1e-9 · scale`. -/
def anlScales (fs ps : List Rat) : Rat × Rat :=
  let det := anlDet fs ps
  let (a, b) := analyticalLorentzian fs ps
  let dscale := ratAbs (spq 0 2 fs ps * spq 2 2 fs ps) + ratAbs (spq 1 2 fs ps * spq 1 2 fs ps)
  ((ratAbs (spq 0 1 fs ps * spq 2 2 fs ps) + ratAbs (spq 1 1 fs ps * spq 1 2 fs ps)
      + ratAbs a * dscale) / ratAbs det,
   (ratAbs (spq 1 1 fs ps * spq 0 2 fs ps) + ratAbs (spq 0 1 fs ps * spq 1 2 fs ps)
      + ratAbs b * dscale) / ratAbs det)

/-! ## Filter models and the routing of fitted vs fixed diode parameters (over `List`) -/

/-- `self._fitted_idx = [idx for idx, p in enumerate(fixed_params) if p is None]`
    (`k` = index of the head) -/
def noneIdx {β : Type} : List (Option β) → Nat → List Nat
  | [], _ => []
  | none :: t, k => k :: noneIdx t (k + 1)
  | some _ :: t, k => noneIdx t (k + 1)

/-- NumPy fancy assignment `arr[idx] = vals` for index and value lists of equal length -/
def scatter {β : Type} (arr : List β) : List Nat → List β → List β
  | i :: is, v :: vs => scatter (arr.set i v) is vs
  | _, _ => arr

/-- `self._parameters[self._fitted_idx] = pars` with NumPy's rule: equal lengths are assigned
    element-wise, a single value is broadcast to every fitted position, anything else is a
    `ValueError` (`none`). -/
def route {β : Type} (fixed : List (Option β)) (pars : List β) : Option (List (Option β)) :=
  let idx := noneIdx fixed 0
  if pars.length = idx.length then some (scatter fixed idx (pars.map some))
  else match pars with
    | [p] => some (scatter fixed idx (List.replicate idx.length (some p)))
    | _ => none

inductive Filt (α : Type) where
  | noFilter
  | diode
  | fixed (fd al : Option α)

section filters
variable {α : Type} [RealLike α]
open RealLike

/-- the `raise` statements of `FixedDiodeModel.__init__` -/
def Filt.validate : Filt α → Option Err
  | .fixed fd al =>
    if (match al with | some a => !(le 0.0 a && le a 1.0) | none => false) then some .value
    else if (match fd with | some f => le f 0.0 | none => false) then some .value
    else none
  | _ => none

/-- `self._filter(f, *pars)` -/
def Filt.eval : Filt α → α → List α → Except Err α
  | .noFilter, _, _ => .ok 1.0
  | .diode, f, [fd, al] => .ok (gDiode f fd al)
  | .diode, _, _ => .error .type
  | .fixed fd al, f, pars =>
    match route [fd, al] pars with
    | some [some a, some b] => .ok (gDiode f a b)
    | some _ => .error .type
    | none => .error .value

/-- `model(f, fc, D, *filter_params)` -/
def Mdl.psd (m : Mdl α) (flt : Filt α) (f fc dc : α) (pars : List α) : Except Err α :=
  match flt.eval f pars with
  | .ok g => .ok (m.physicalPsd f fc dc * g)
  | .error e => .error e

end filters

section deepen
variable {α : Type} [RealLike α]
open RealLike

/-! ## Deepening round D — the objective of `_fit_power_spectra` -/

/-- `chi_squared = np.sum(((1 / model(f, *p) - 1 / powers) / sigma) ** 2)` with
    `sigma = (1.0 / powers) / math.sqrt(num_points_per_block)`; this is also the sum of squares
    `curve_fit` minimises (`ydata = 1/powers`, `f = 1/model`, `sigma`, `absolute_sigma=True`).
    `psd` is the spectrum model at the candidate parameters. -/
def chi2 (psd : α → α) (n : α) : List α → List α → α
  | f :: fs, p :: ps =>
    let sigma := (1.0 / p) / sqrt n
    let r := (1.0 / psd f - 1.0 / p) / sigma
    r * r + chi2 psd n fs ps
  | _, _ => 0.0

/-- Lorentzian × diode filter: the spectrum model of a non-hydrodynamic model with a free diode -/
def lorentzDiodePsd (f fc dc fd al : α) : α := lorentzianPsd f fc dc * gDiode f fd al

/-! ## Deepening round D — `estimate_driving_input_parameters` after the FFT -/

/-- the parabola through three points in Newton form: what `np.polyfit(x, y, 2)` returns for three
    points (`p[0]·x² + p[1]·x + p[2]`; the least-squares problem is an exact interpolation) -/
def parabola3 (x0 x1 x2 y0 y1 y2 : α) : α × α × α :=
  let d01 := (y1 - y0) / (x1 - x0)
  let d12 := (y2 - y1) / (x2 - x1)
  let p0 := (d12 - d01) / (x2 - x0)
  let p1 := d01 - p0 * (x0 + x1)
  let p2 := y0 - p1 * x0 - p0 * (x0 * x0)
  (p0, p1, p2)

/-- `np.argmax`: index of the first maximum (`k` = index of the head, `(bi, bv)` best so far) -/
def argmaxGo : List α → Nat → Nat → α → Nat
  | [], _, bi, _ => bi
  | x :: t, k, bi, bv => if lt bv x then argmaxGo t (k + 1) k x else argmaxGo t (k + 1) bi bv

def argmax : List α → Nat
  | [] => 0
  | x :: t => argmaxGo t 1 0 x

/-- `np.logical_and(frequency > guess - search, frequency < guess + search)` -/
def searchMask (freqs : List α) (guess search : α) : List Bool :=
  freqs.map fun f => lt (guess - search) f && lt f (guess + search)

/-- `arr[mask]` -/
def maskSelect {β : Type} : List β → List Bool → List β
  | x :: xs, true :: ms => x :: maskSelect xs ms
  | _ :: xs, false :: ms => maskSelect xs ms
  | _, _ => []

/-- `np.where(mask)[0][0]` -/
def firstTrue : List Bool → Option Nat
  | [] => none
  | true :: _ => some 0
  | false :: t => (firstTrue t).map (· + 1)

inductive DriveErr where
  | index      -- IndexError (empty search range / fit range beyond the spectrum)
  | runtime    -- RuntimeError (no peak / peak outside the search range)
  | wrap       -- peak bin 0: `fit_range` starts at −1 (wrap-around), outside the model
deriving Repr, DecidableEq

def DriveErr.name : DriveErr → String
  | .index => "IndexError"
  | .runtime => "RuntimeError"
  | .wrap => "unmodelled-wraparound"

structure DriveEst (α : Type) where
  maxIdx : Nat
  p0 : α
  p1 : α
  p2 : α
  freq : α
  amp : α
  ampStd : α

/-- `estimate_driving_input_parameters` after the peak bin `m` is known: three-point fit of the
    log-magnitudes `log a_i` at the frequencies `x_i` (bins `m-1, m, m+1`), the two `RuntimeError`
    branches, vertex, Gaussian amplitude and the noise estimate.
    `delta = 2/sample_rate`, `npts = len(data)`, `totalPower = np.var(data)`,
    `sumW`, `sumW2` the sums of the window and of its square. -/
def drivePost (m : Nat) (x0 x1 x2 a0 a1 a2 guess search delta npts totalPower sumW sumW2 : α) :
    Except DriveErr (DriveEst α) :=
  let p := parabola3 x0 x1 x2 (log a0) (log a1) (log a2)
  let p0 := p.1
  let p1 := p.2.1
  let p2 := p.2.2
  if le 0.0 p0 then .error .runtime
  else
    let freq := -p1 / (2.0 * p0)
    if lt freq (guess - search) || lt (guess + search) freq then .error .runtime
    else
      let amp := exp (p2 - 0.25 * (p1 * p1) / p0 + 0.5 * log (-pi / p0)) * delta
      let enbw := npts * sumW2 / (sumW * sumW)
      let noiseStd := sqrt (abs (totalPower - amp * amp / 2.0))
      .ok { maxIdx := m, p0, p1, p2, freq, amp, ampStd := enbw * noiseStd / sqrt npts }

/-- the peak bin: `np.where(search_range)[0][0] + np.argmax(np.abs(windowed_fft[search_range]))` -/
def peakBin (freqs mags : List α) (guess search : α) : Option Nat :=
  let mask := searchMask freqs guess search
  (firstTrue mask).map fun first => first + argmax (maskSelect mags mask)

/-- `estimate_driving_input_parameters` (`n_fit = 1`) from the magnitudes `|rfft(window·(x − mean))|`
    on the frequency axis `freqs` -/
def estimateDrive (freqs mags : List α) (guess search delta npts totalPower sumW sumW2 : α) :
    Except DriveErr (DriveEst α) :=
  match peakBin freqs mags guess search with
  | none => .error .index
  | some m =>
    -- fit_range = arange(m - 1, m + 2); for m = 0 NumPy's negative index wraps around: not modelled
    if m = 0 then .error .wrap
    else
      match freqs[m - 1]?, freqs[m]?, freqs[m + 1]?, mags[m - 1]?, mags[m]?, mags[m + 1]? with
      | some x0, some x1, some x2, some a0, some a1, some a2 =>
        drivePost m x0 x1 x2 a0 a1 a2 guess search delta npts totalPower sumW sumW2
      | _, _, _, _, _, _ => .error .index

end deepen

/-! ## Deepening round D — argument validation of `fit_power_spectrum` -/

inductive Loss where
  | gaussian
  | lorentzian
  | other        -- any other string
deriving Repr, DecidableEq

inductive FitErr where
  | runtime
  | value
  | type
deriving Repr, DecidableEq

def FitErr.name : FitErr → String
  | .runtime => "RuntimeError"
  | .value => "ValueError"
  | .type => "TypeError"

/-- the `raise` statements of `fit_power_spectrum` before anything is fitted, in the order the code
    executes them: fewer than 4 points, an argument that is not a `PowerSpectrum` (`isPS = false`;
    strengthening round H: the length test comes FIRST, so an object that merely has a `frequency`
    attribute of fewer than 4 entries gets the RuntimeError), unknown loss function, bias correction with the robust
    loss, empty analytical fit range (`nAnl` = number of points inside `analytical_fit_range`) -/
def fitValidate (npts : Nat) (isPS : Bool) (loss : Loss) (bias : Bool) (nAnl : Nat) : Option FitErr :=
  if npts < 4 then some .runtime
  else if !isPS then some .type
  else match loss with
    | .other => some .value
    | .lorentzian => if bias then some .runtime else if nAnl < 1 then some .runtime else none
    | .gaussian => if nAnl < 1 then some .runtime else none

/-! ## Deepening round D — the spectrum as a function of frequency, the driven peak -/

section deepen2
variable {α : Type} [RealLike α]

/-- `lambda f: model(f, fc, D, *pars)` as `_fit_power_spectra` evaluates it on the frequency axis;
    `nan` stands for a call that raises (checked once, before the sum, by the `c11.chi2` op) -/
def Mdl.psdOr (m : Mdl α) (flt : Filt α) (fc dc : α) (pars : List α) (nan : α) : α → α :=
  fun f => match m.psd flt f fc dc pars with
    | .ok v => v
    | .error _ => nan

/-- `DrivenPower.determine_power_output`: `max_idx = np.argmax(self.ps.power)`,
    `max_power_density = self.ps.power[max_idx]` -/
def peakPower (powers : List α) : Option α := powers[argmax powers]?

end deepen2

/-! ## Deepening round D — start values and bounds of the filter parameters -/

section deepen3
variable {α : Type} [RealLike α]

/-- `DiodeModel().fitted_params` as `(initial, lower_bound, upper_bound(sample_rate))` -/
def diodeParams (rate : α) : List (α × α × α) :=
  [(14000.0, 1.0, rate / 2.0), (0.3, 0.0, 1.0)]

/-- `filter.fitted_params` → `initial_values`, `lower_bounds()`, `upper_bounds(sample_rate)`:
    `FixedDiodeModel` keeps `[parameter for fixed, parameter in zip(fixed_params, diode_params) if fixed is None]` -/
def Filt.fittedParams : Filt α → α → List (α × α × α)
  | .noFilter, _ => []
  | .diode, rate => diodeParams rate
  | .fixed fd al, rate =>
    ((([fd, al] : List (Option α)).zip (diodeParams rate)).filter fun x => x.1.isNone).map (·.2)

end deepen3

/-! ## Deepening round D — the glue of `calibrate_force` (argument validation, filter choice) -/

section deepen4
variable {α : Type} [RealLike α]
open RealLike

/-- the keyword arguments of `lk.calibrate_force` that decide which model and filter are built -/
structure CalibArgs (α : Type) where
  o : Opts α
  drag : Option α
  fixedD : Option α
  fixedA : Option α
  active : Bool
  /-- `driving_data is not None and driving_data.size > 0` -/
  hasDriving : Bool
  guess : Option α

/-- Python truthiness of an optional float (`if drag:`) -/
def optTruthy : Option α → Bool
  | some g => truthy g
  | none => false

/-- the `raise ValueError` statements of `calibrate_force`, in the order the code executes them -/
def calibValidate (a : CalibArgs α) : Option Err :=
  if a.active && a.o.axial then some .value
  else if a.active && optTruthy a.drag then some .value
  else if (a.fixedD.isSome || a.fixedA.isSome) && a.o.fast then some .value
  else if a.active && !a.hasDriving then some .value
  else if a.active && (match a.guess with
      | none => true
      | some g => !truthy g || lt g 0.0) then some .value
  else none

/-- the filter the fit ends up with: `FixedDiodeModel` replaces the constructor's choice as soon as
    one of `fixed_diode`, `fixed_alpha` is given; otherwise `NoFilter` for a fast sensor, else
    `DiodeModel` -/
def chooseFilter (a : CalibArgs α) : Filt α :=
  if a.fixedD.isSome || a.fixedA.isSome then .fixed a.fixedD a.fixedA
  else if a.o.fast then .noFilter else .diode

/-- `calibrate_force` up to (not including) the power spectrum and the fit: validation, model
    construction (`ActiveCalibrationModel` passes `axial=False`), `_set_drag`, filter choice -/
def calibSetup (a : CalibArgs α) : Except Err (Mdl α × Filt α) :=
  match calibValidate a with
  | some e => .error e
  | none =>
    match mkModel (if a.active then { a.o with axial := false } else a.o) with
    | .error e => .error e
    | .ok m =>
      let m := if optTruthy a.drag then m.setDrag (a.drag.getD 0.0) else m
      let flt := chooseFilter a
      match flt.validate with
      | some e => .error e
      | none => .ok (m, flt)

end deepen4

/-! ## Deepening round D — the robust loss (`loss_function="lorentzian"`) and `ScaledModel` -/

section deepen5
variable {α : Type} [RealLike α]
open RealLike

/-- `lorentzian_loss(p, model, frequencies, powers, num_points_per_block)`:
    `np.sum(np.log(1 + 0.5 * ((powers - expectation) / gamma) ** 2))`, `gamma = expectation / n**0.5` -/
def lorentzianLoss (psd : α → α) (n : α) : List α → List α → α
  | f :: fs, p :: ps =>
    let e := psd f
    let gam := e / sqrt n
    let r := (p - e) / gam
    log (1.0 + 0.5 * (r * r)) + lorentzianLoss psd n fs ps
  | _, _ => 0.0

/-- `ScaledModel.scale_params`: `rescaled_params * self._scale_factors` -/
def scaleParams (scaled scale : List α) : List α := List.zipWith (· * ·) scaled scale

end deepen5

/-! ## Line protocol -/

def optFloat? (s : String) : Option (Option Float) :=
  if s == "N" then some none else (float? s).map some

/-- nearest double of a rational (64 significant bits before the final rounding) -/
def ratToFloat (r : Rat) : Float :=
  if r.num = 0 then 0.0
  else
    let n := r.num.natAbs
    let d := r.den
    let shift : Int := 64 + (d.log2 : Int) - (n.log2 : Int)
    let q : Nat := if shift ≥ 0 then (n <<< shift.toNat) / d else n / (d <<< (-shift).toNat)
    let x := (Float.ofNat q).scaleB (-shift)
    if r.num < 0 then -x else x

def parseOpts? : List String → Option (Opts Float × Option Float × List String)
  | d :: visc :: temp :: hydro :: dist :: rhoS :: rhoB :: fast :: axial :: drag :: rest => do
    let d ← float? d
    let visc ← optFloat? visc
    let temp ← float? temp
    let hydro ← bool? hydro
    let dist ← optFloat? dist
    let rhoS ← optFloat? rhoS
    let rhoB ← float? rhoB
    let fast ← bool? fast
    let axial ← bool? axial
    let drag ← optFloat? drag
    some ({ d, visc, temp, hydro, dist, rhoSample := rhoS, rhoBead := rhoB, fast, axial }, drag, rest)
  | _ => none

def parseFilt? : List String → Option (Filt Float × List String)
  | "nofilter" :: rest => some (.noFilter, rest)
  | "diode" :: rest => some (.diode, rest)
  | "fixed" :: fd :: al :: rest => do
    let fd ← optFloat? fd
    let al ← optFloat? al
    some (.fixed fd al, rest)
  | _ => none

/-- which cell of the option matrix decides the drag -/
def branchName (o : Opts Float) : String :=
  if o.hydro then (if o.dist.isSome then "hydro-surface" else "hydro")
  else match o.dist with
    | some l => if truthy l then (if o.axial then "brenner" else "faxen") else "bulk"
    | none => "bulk"

/-- construct the model the way `calibrate_force` does: `__init__`, then `_set_drag` if `drag` is truthy -/
def construct (o : Opts Float) (drag : Option Float) : Except Err (Mdl Float) :=
  match mkModel o with
  | .error e => .error e
  | .ok m =>
    match drag with
    | some g => .ok (if truthy g then m.setDrag g else m)
    | none => .ok m

def showOptFloat : Option Float → String
  | none => "N"
  | some x => showFloat x

def handle : List String → Option String
  | "c11.passive" :: rest => do
    let (o, drag, rest) ← parseOpts? rest
    match rest with
    | [fc, dc, efc, edc] =>
      let fc ← float? fc; let dc ← float? dc; let efc ← float? efc; let edc ← float? edc
      match construct o drag with
      | .error e => some e.name
      | .ok m =>
        let r := passiveResults m fc dc efc edc
        some (s!"ok {branchName o} " ++
          showFloatList [r.rd, r.kappa, r.rf, r.gamma, r.errKappa, r.errRd, m.drag, m.corr, m.toLocal])
    | _ => none
  | "c11.psd" :: rest => do
    let (o, drag, rest) ← parseOpts? rest
    let (flt, rest) ← parseFilt? rest
    match rest with
    | [f, fc, dc, pars] =>
      let f ← float? f; let fc ← float? fc; let dc ← float? dc; let pars ← floatList? pars
      match construct o drag with
      | .error e => some e.name
      | .ok m =>
        match flt.validate with
        | some e => some e.name
        | none =>
          match m.psd flt f fc dc pars with
          | .ok v => some ("ok " ++ showFloat v)
          | .error e => some e.name
    | _ => none
  | "c11.active" :: rest => do
    let (o, drag, rest) ← parseOpts? rest
    let (flt, rest) ← parseFilt? rest
    -- an optional last token `[powers]`: the spectrum of `DrivenPower` around the driving peak; the
    -- peak density is then taken by the model (`peakPower`), not from the `maxP` token
    let (rest, powers) ← (match rest with
      | [a, b, c, d, e, f, g, h, i, j, k, pw] => (floatList? pw).map fun l => ([a, b, c, d, e, f, g, h, i, j, k], some l)
      | _ => some (rest, none))
    match rest with
    | [fd, amp, ampErr, maxP, df, pErr, fc, dc, efc, edc, pars] =>
      let maxP ← (match powers with
        | some l => (peakPower l).map showFloat
        | none => some maxP)
      let fd ← float? fd; let amp ← float? amp; let ampErr ← float? ampErr
      let maxP ← float? maxP; let df ← float? df; let pErr ← float? pErr
      let fc ← float? fc; let dc ← float? dc; let efc ← float? efc; let edc ← float? edc
      let pars ← floatList? pars
      match construct o drag with
      | .error e => some e.name
      | .ok m =>
        match flt.validate with
        | some e => some e.name
        | none =>
          match flt.eval fd pars with
          | .error e => some e.name
          | .ok g =>
            let dr : Drive Float := { freq := fd, amp, ampErr, maxP, df, pExpErr := pErr }
            let r := activeResults m dr g fc dc efc edc
            some (s!"ok {branchName o} " ++
              showFloatList [r.rd, r.kappa, r.rf, r.gamma0, r.gammaEx, r.localDrag, r.pExp, r.pTheory,
                r.errPTheory, r.errKappa, r.errRd])
    | _ => none
  | ["c11.route", fd, al, pars] => do
    let fd ← optFloat? fd; let al ← optFloat? al
    let pars ← floatList? pars
    match (Filt.fixed fd al).validate with
    | some e => some e.name
    | none =>
      match route [fd, al] pars with
      | some r => some ("ok " ++ showList showOptFloat r)
      | none => some "ValueError"
  | ["c11.routen", fixed, pars] => do
    -- routing on lists of any length (model only; the code has two positions)
    let fixed ← listOf? optFloat? fixed
    let pars ← floatList? pars
    match route fixed pars with
    | some r => some ("ok " ++ showList showOptFloat r)
    | none => some "ValueError"
  | ["c11.filter", "fixed", fd, al, f, pars] => do
    let fd ← optFloat? fd; let al ← optFloat? al
    let f ← float? f; let pars ← floatList? pars
    match (Filt.fixed fd al).validate with
    | some e => some e.name
    | none =>
      match (Filt.fixed fd al).eval f pars with
      | .ok v => some ("ok " ++ showFloat v)
      | .error e => some e.name
  | ["c11.filter", kind, f, pars] => do
    let (flt, _) ← parseFilt? [kind]
    let f ← float? f; let pars ← floatList? pars
    match flt.eval f pars with
    | .ok v => some ("ok " ++ showFloat v)
    | .error e => some e.name
  | ["c11.anl", fs, ps, dur] => do
    let fs ← ratList? fs; let ps ← ratList? ps; let dur ← float? dur
    if fs.length ≠ ps.length || fs.length < 2 then none
    else if anlDet fs ps = 0 then some "singular"
    else
      let (a, b) := analyticalLorentzian fs ps
      let (sa, sb) := anlScales fs ps
      let ff := fs.map ratToFloat
      let fmin := ff.foldl (fun m x => if x < m then x else m) (ff.headD 0.0)
      let fmax := ff.foldl (fun m x => if x > m then x else m) (ff.headD 0.0)
      let r := analyticalPost (ratToFloat a) (ratToFloat b) (ff.headD 0.0) (ff.getD 1 0.0)
        (ratToFloat (ps.headD 0)) fmin fmax dur
      some (s!"ok {showRat a} {showRat b} {showRat sa} {showRat sb} " ++
        showFloatList [r.fc, r.dc, r.sigmaFc, r.sigmaD])
  | ["c11.bias2", n, dc, edc] => do
    let n ← nat? n; let dc ← float? dc; let edc ← float? edc
    some (showFloat (biasCorrect (Float.ofNat n) dc) ++ " " ++ showFloat (biasCorrect (Float.ofNat n) edc))
  | "c11.chi2" :: rest => do
    -- the objective of `_fit_power_spectra` at given parameters, and `chi_squared_per_deg`
    let (o, drag, rest) ← parseOpts? rest
    let (flt, rest) ← parseFilt? rest
    match rest with
    | [fs, ps, n, fc, dc, pars] =>
      let fs ← floatList? fs; let ps ← floatList? ps; let n ← nat? n
      let fc ← float? fc; let dc ← float? dc; let pars ← floatList? pars
      if fs.length ≠ ps.length then none
      else
      match construct o drag with
      | .error e => some e.name
      | .ok m =>
        match flt.validate with
        | some e => some e.name
        | none =>
          match m.psd flt (fs.headD 1.0) fc dc pars with
          | .error e => some e.name
          | .ok _ =>
            let c := chi2 (m.psdOr flt fc dc pars (0.0 / 0.0)) (Float.ofNat n) fs ps
            let dof := Float.ofNat fs.length - Float.ofNat (2 + pars.length)
            some ("ok " ++ showFloatList [c, c / dof])
    | _ => none
  | ["c11.drive", freqs, mags, guess, search, delta, npts, tp, sw, sw2] => do
    let freqs ← floatList? freqs; let mags ← floatList? mags
    let guess ← float? guess; let search ← float? search; let delta ← float? delta
    let npts ← float? npts; let tp ← float? tp; let sw ← float? sw; let sw2 ← float? sw2
    if freqs.length ≠ mags.length then none
    else
    match estimateDrive freqs mags guess search delta npts tp sw sw2 with
    | .error e => some e.name
    | .ok r => some (s!"ok {r.maxIdx} " ++ showFloatList [r.freq, r.amp, r.ampStd] ++ " " ++
        showFloatList [r.p0, r.p1, r.p2])
  | ["c11.fitvalidate", npts, loss, bias, nAnl] => do
    let npts ← nat? npts; let bias ← bool? bias; let nAnl ← nat? nAnl
    let loss : Loss := if loss == "gaussian" then .gaussian else if loss == "lorentzian" then .lorentzian else .other
    match fitValidate npts true loss bias nAnl with
    | some e => some e.name
    | none => some "ok"
  | ["c11.fitvalidate", npts, loss, bias, nAnl, isPS] => do
    let npts ← nat? npts; let bias ← bool? bias; let nAnl ← nat? nAnl; let isPS ← bool? isPS
    let loss : Loss := if loss == "gaussian" then .gaussian else if loss == "lorentzian" then .lorentzian else .other
    match fitValidate npts isPS loss bias nAnl with
    | some e => some e.name
    | none => some "ok"
  | "c11.fitbounds" :: rest => do
    let (flt, rest) ← parseFilt? rest
    match rest with
    | [rate] =>
      let rate ← float? rate
      match flt.validate with
      | some e => some e.name
      | none =>
        let ps := flt.fittedParams rate
        some ("ok " ++ showFloatList (ps.map (·.1)) ++ " " ++ showFloatList (ps.map (·.2.1)) ++ " " ++
          showFloatList (ps.map (·.2.2)))
    | _ => none
  | "c11.calibsetup" :: rest => do
    let (o, drag, rest) ← parseOpts? rest
    match rest with
    | [fd, al, active, hasDriving, guess] =>
      let fd ← optFloat? fd; let al ← optFloat? al
      let active ← bool? active; let hasDriving ← bool? hasDriving; let guess ← optFloat? guess
      match calibSetup { o, drag, fixedD := fd, fixedA := al, active, hasDriving, guess } with
      | .error e => some e.name
      | .ok (_, flt) =>
        let status : Option Float → String := fun x => match x with | some v => "fixed=" ++ showFloat v | none => "fitted"
        let shape := match flt with
          | .noFilter => "absent absent"
          | .diode => "fitted fitted"
          | .fixed a b => status a ++ " " ++ status b
        some s!"ok {shape} {2 + (flt.fittedParams 2.0).length}"
    | _ => none
  | "c11.lloss" :: rest => do
    -- lorentzian_loss(p, ScaledModel(model, scale), f, P, n)
    let (o, drag, rest) ← parseOpts? rest
    let (flt, rest) ← parseFilt? rest
    match rest with
    | [fs, ps, n, scaled, scale] =>
      let fs ← floatList? fs; let ps ← floatList? ps; let n ← nat? n
      let scaled ← floatList? scaled; let scale ← floatList? scale
      if fs.length ≠ ps.length || scaled.length ≠ scale.length then none
      else
      match scaleParams scaled scale with
      | fc :: dc :: pars =>
        match construct o drag with
        | .error e => some e.name
        | .ok m =>
          match flt.validate with
          | some e => some e.name
          | none =>
            match m.psd flt (fs.headD 1.0) fc dc pars with
            | .error e => some e.name
            | .ok _ => some ("ok " ++ showFloat (lorentzianLoss (m.psdOr flt fc dc pars (0.0 / 0.0)) (Float.ofNat n) fs ps))
      | _ => none
    | _ => none
  | _ => none

end Verif.C11
