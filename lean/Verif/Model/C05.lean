/-
  C05 — HDF5 read and re-export.
  Executable model of `_filter_calibration` (lumicks/pylake/calibration.py), the omit rule of
  `write_h5` (`fnmatch` restricted to literals, `*`, `?`), the crop rule for numerical channels
  (`_write_numerical_data`: the channel sliced with C01's arithmetic, dropped when empty), the
  keep/drop rule for time-stamped metadata items (`_write_cropped_metadata`) and the sample-period
  read-back of `Continuous.from_dataset` (detail/h5_helper.py, channel.py).
-/
import Verif.Py
import Verif.Proto
import Verif.Model.C01

namespace Verif.C05
open Verif.Py

/-! ### Calibration items applicable to a time range -/

structure CalItem where
  time : Int
  id : Nat
deriving Repr, DecidableEq

/-- stable insertion: `x` goes before the first element that is not earlier than it -/
def insertCal (x : CalItem) : List CalItem → List CalItem
  | [] => [x]
  | y :: ys => if x.time ≤ y.time then x :: y :: ys else y :: insertCal x ys

/-- Python's `sorted(items, key=timestamp)` (stable): insertion sort from the right. -/
def sortCal : List CalItem → List CalItem
  | [] => []
  | x :: xs => insertCal x (sortCal xs)

/-- `_filter_calibration`: stable sort by time; the items strictly inside `(start, stop)`, preceded
    by the last item with `time ≤ start` if there is one. -/
def filterCalibration (items : List CalItem) (start stop : Int) : List CalItem :=
  let sorted := sortCal items
  let inside := sorted.filter fun x => decide (start < x.time) && decide (x.time < stop)
  let pre := sorted.filter fun x => decide (x.time ≤ start)
  match pre.getLast? with
  | some p => p :: inside
  | none => inside

/-! ### Omit patterns (`fnmatch`, restricted to literals, `*` and `?`) -/

inductive Pat where
  | lit (c : Char)
  | any1
  | star
deriving Repr, DecidableEq

def parsePat (s : List Char) : List Pat :=
  s.map fun c => if c = '*' then .star else if c = '?' then .any1 else .lit c

def globMatch : List Pat → List Char → Bool
  | [], [] => true
  | [], _ :: _ => false
  | .star :: ps, [] => globMatch ps []
  | .star :: ps, c :: cs => globMatch ps (c :: cs) || globMatch (.star :: ps) cs
  | .any1 :: ps, _ :: cs => globMatch ps cs
  | .any1 :: _, [] => false
  | .lit c :: ps, d :: cs => (c == d) && globMatch ps cs
  | .lit _ :: _, [] => false
termination_by ps s => ps.length + s.length

/-- A node (group or dataset) is exported iff no omit pattern matches its full path. -/
def exported (pats : List (List Pat)) (path : List Char) : Bool :=
  !(pats.any fun p => globMatch p path)

def exportPaths (pats : List (List Pat)) (paths : List (List Char)) : List (List Char) :=
  paths.filter (exported pats)

/-! ### The tree written by `write_h5` under omit patterns

`visititems` calls the traversal function on every group and dataset (parents first); an omitted node is skipped but its
children are still visited; `create_dataset`/`create_group` on a path whose parents are missing creates them bare. -/

/-- the proper ancestors of `A/B/c`: `A`, `A/B` -/
def ancestors (p : List Char) : List (List Char) :=
  (List.range p.length).filterMap fun i => if p[i]? = some '/' then some (p.take i) else none

structure OutNode where
  path : List Char
  /-- written by the traversal itself (data and attributes copied) rather than as a bare parent -/
  explicit : Bool
deriving Repr, DecidableEq

def ensureGroup (st : List OutNode) (g : List Char) : List OutNode :=
  if st.any (fun n => n.path == g) then st else st ++ [⟨g, false⟩]

def writeNode (st : List OutNode) (p : List Char) : List OutNode :=
  ((ancestors p).foldl ensureGroup st) ++ [⟨p, true⟩]

/-- the output file after the traversal of `nodes` (in visiting order) -/
def writeOmit (pats : List (List Pat)) (nodes : List (List Char)) : List OutNode :=
  nodes.foldl (fun st p => if exported pats p then writeNode st p else st) []

/-- `E` written with its attributes, `I` present only as a bare parent, `A` absent -/
def nodeStatus (out : List OutNode) (p : List Char) : String :=
  if out.any (fun n => n.path == p && n.explicit) then "E"
  else if out.any (fun n => n.path == p) then "I" else "A"

/-! ### Cropping -/

/-- `lk_file[name][a:b]` for a numerical channel. -/
def cropChannel (s : C01.Src) (a b : Int) : C01.Src := s.getitem (.ts a) (.ts b)

/-- The cropped channel is written iff it is non-empty (`if not sliced: … dropped`). -/
def channelWritten (s : C01.Src) (a b : Int) : Bool := (cropChannel s a b).len ≠ 0

/-- `_write_cropped_metadata`: an item whose sliced version spans `[start, stop)` is kept iff
    `stop ≥ a ∧ start < b ∧ stop − start > 0`. -/
def keepMeta (start stop a b : Int) : Bool :=
  decide (stop ≥ a) && decide (start < b) && decide (stop - start > 0)

/-- the whole decision of `_write_cropped_metadata`: the item is asked to crop itself (`lk_file[name][a:b]`); when that
    raises `IndexError`/`TypeError` (items that cannot be sliced: markers, notes) it is not written; otherwise the keep
    rule is applied to the cropped item's own `start`/`stop`, which also become the new time attributes -/
def writeCroppedMeta (sliced : Option (Int × Int)) (a b : Int) : Option (Int × Int) :=
  match sliced with
  | none => none
  | some (st, sp) => if keepMeta st sp a b then some (st, sp) else none

/-! ### Sample period read back from the stored rate -/

/-- `int(round(1e9 / rate))` on the stored double (round-half-away here, half-even in Python: they
    differ only when `1e9 / rate` is exactly `n + ½`). -/
def periodOfRate (rate : Float) : Int := (Float.round (1e9 / rate)).toInt64.toInt
/-- the pinned snapshot (finding F7): `int(1e9 / rate)` truncates. -/
def periodOfRateUnfixed (rate : Float) : Int := (Float.floor (1e9 / rate)).toInt64.toInt

/-! ### The same read-back over exact rationals (the standard model of IEEE arithmetic)

`Continuous.sample_rate` stores `1e9 / dt` (one correctly rounded double division) and
`Continuous.from_dataset` reads `int(round(1e9 / rate))` (a second one, then round-half-even).  Here the two
functions are written once over `Rat`, generic in the rounding `fl : Rat → Rat` of a division; `flDouble` is
round-to-nearest-even to a 53-bit significand (normal range), executed exactly. -/

/-- `2^e` for an integer exponent -/
def pow2 (e : Int) : Rat := if 0 ≤ e then ((2 ^ e.toNat : Nat) : Rat) else 1 / ((2 ^ (-e).toNat : Nat) : Rat)

/-- Python's `round(x)` on an exact value: nearest integer, ties to even. -/
def roundHalfEven (q : Rat) : Int :=
  let f := q.floor
  let r := q - f
  if r < 1 / 2 then f else if 1 / 2 < r then f + 1 else if f % 2 = 0 then f else f + 1

/-- `⌊log₂ x⌋` for `x > 0`: from the bit lengths of numerator and denominator, corrected by one comparison -/
def ilog2 (x : Rat) : Int :=
  let g : Int := (Nat.log2 x.num.toNat : Int) - (Nat.log2 x.den : Int)
  if pow2 g ≤ x then g else g - 1

/-- correctly rounded double of an exact value (round to nearest, ties to even, 53 significant bits; no
    overflow/underflow: the quantities here lie in `[2^-30, 2^31]`) -/
def flDouble (x : Rat) : Rat :=
  if x = 0 then 0
  else
    let ax := if x < 0 then -x else x
    let ulp := pow2 (ilog2 ax - 52)
    let m : Rat := (roundHalfEven (ax / ulp) : Int)
    if x < 0 then -(m * ulp) else m * ulp

/-- the standard model of a correctly rounded operation on positive reals: relative error at most `2^-53` -/
def StdModel (fl : Rat → Rat) : Prop :=
  ∀ x : Rat, 0 < x → x - x / 9007199254740992 ≤ fl x ∧ fl x ≤ x + x / 9007199254740992

/-- `Continuous.sample_rate`: `1e9 / self.dt` -/
def sampleRateQ (fl : Rat → Rat) (dt : Int) : Rat := fl (1000000000 / (dt : Rat))

/-- `Continuous.from_dataset`: `int(round(1e9 / rate))` -/
def periodOfRateQ (fl : Rat → Rat) (rate : Rat) : Int := roundHalfEven (fl (1000000000 / rate))

/-- the pinned snapshot (finding F7): `int(1e9 / rate)` -/
def periodOfRateUnfixedQ (fl : Rat → Rat) (rate : Rat) : Int := (fl (1000000000 / rate)).floor

/-! ### Sample rate of a time series (`TimeSeries._timesteps`, `sample_rate`) -/

/-- `np.diff` -/
def diffs : List Int → List Int
  | a :: b :: r => (b - a) :: diffs (b :: r)
  | _ => []

/-- `TimeSeries._timesteps` has exactly one element (`np.unique(np.diff(timestamps))`): that step -/
def tsStep (ts : List Int) : Option Int :=
  match diffs ts with
  | [] => none
  | d :: ds => if ds.all (· == d) then some d else none

/-- `TimeSeries.sample_rate`: `1e9 / step` when the step is unique, else `None` (a zero step, and steps beyond 2^53 ns
    that are rounded when converted to a double, are outside the model) -/
def tsSampleRate (fl : Rat → Rat) (ts : List Int) : Option Rat :=
  match tsStep ts with
  | some d => if d = 0 then none else some (fl (1000000000 / (d : Rat)))
  | none => none

def grid (t0 d : Int) : Nat → List Int
  | 0 => []
  | n + 1 => t0 :: grid (t0 + d) d n

/-! ### Datasets: the `to_dataset` writers, `channel_class`, the `from_dataset` readers (channel.py) -/

/-- the `Kind` attribute as stored: absent (format v1), a `str`, or `bytes` (decoded before comparing) -/
inductive KindAttr where
  | absent
  | str (s : String)
  | bytes (s : String)
deriving Repr, DecidableEq

inductive Payload where
  | plain (vals : List Int)                 -- a simple numerical dataset
  | compound (rows : List C01.Sample)       -- fields `Timestamp`, `Value`
deriving Repr, DecidableEq

/-- what an HDF5 channel dataset carries: the attributes the readers look at and the stored numbers;
    `rate` is the exact value of the stored double -/
structure Dset where
  kind : KindAttr
  start : Option Int
  stop : Option Int
  rate : Option Rat
  payload : Payload
deriving Repr, DecidableEq

inductive ChanClass where
  | continuous
  | timeSeries
  | timeTags
deriving Repr, DecidableEq

/-- `channel_class`: the `Kind` attribute decides when present (unknown text: `RuntimeError`); without it (format
    v1) a compound dataset is a time series, a simple one is continuous iff it has a sample rate, else `IndexError`. -/
def channelClass (d : Dset) : Except String ChanClass :=
  let byKind (k : String) : Except String ChanClass :=
    if k = "TimeTags" then .ok .timeTags
    else if k = "TimeSeries" then .ok .timeSeries
    else if k = "Continuous" then .ok .continuous
    else .error "RuntimeError"
  match d.kind with
  | .str k => byKind k
  | .bytes k => byKind k
  | .absent =>
    match d.payload with
    | .plain _ => if d.rate.isSome then .ok .continuous else .error "IndexError"
    | .compound _ => .ok .timeSeries

/-- `Continuous.to_dataset` / `TimeSeries.to_dataset` / `TimeTags.to_dataset`.  A time series reads its own
    `start`/`stop` from the first/last timestamp (`IndexError` when empty); time tags store no time range. -/
def toDataset (fl : Rat → Rat) : C01.Src → Except String Dset
  | .cont c => .ok ⟨.str "Continuous", some c.start, some c.stop, some (sampleRateQ fl c.dt), .plain c.data⟩
  | .ts l =>
    match l.head?, l.getLast? with
    | some f, some e => .ok ⟨.bytes "TimeSeries", some f.1, some (e.1 + 1), none, .compound l⟩
    | _, _ => .error "IndexError"
  | .tags t => .ok ⟨.str "TimeTags", none, none, none, .plain t.data⟩

/-- `channel_class(dset).from_dataset(dset)`; a missing attribute is a `KeyError`; a payload of the wrong shape
    for the class is outside the model. -/
def fromDataset (fl : Rat → Rat) (d : Dset) : Except String C01.Src :=
  match channelClass d with
  | .error e => .error e
  | .ok .continuous =>
    match d.start, d.rate, d.payload with
    | some st, some r, .plain vals => .ok (.cont ⟨st, periodOfRateQ fl r, vals⟩)
    | some _, some _, .compound _ => .error "outside-model"
    | _, _, _ => .error "KeyError"
  | .ok .timeSeries =>
    match d.payload with
    | .compound rows => .ok (.ts rows)
    | .plain _ => .error "outside-model"
  | .ok .timeTags =>
    match d.payload with
    | .plain vals => .ok (.tags ⟨vals, vals.head?.getD 0, (vals.getLast?.map (· + 1)).getD 0⟩)
    | .compound _ => .error "outside-model"

/-- what reading back can recover of a source: time tags lose the slice bounds (they are not stored) -/
def reread : C01.Src → C01.Src
  | .tags t => .tags ⟨t.data, t.data.head?.getD 0, (t.data.getLast?.map (· + 1)).getD 0⟩
  | s => s

/-- the channel of the cropped file as `lk.File(new)[name]` sees it: slice, write (if non-empty), read -/
def cropExportRead (fl : Rat → Rat) (s : C01.Src) (a b : Int) : Except String (Option C01.Src) :=
  if channelWritten s a b then
    match toDataset fl (cropChannel s a b) with
    | .error e => .error e
    | .ok d => (fromDataset fl d).map some
  else .ok none

/-! ### Calibration of a (sliced) force channel: `ForceCalibrationList.from_field`, `Slice.calibration` -/

/-- one group under `Calibration/`: per force channel that has a sub-group there, the value of the time field
    (`Stop time (ns)`) if that sub-group carries it -/
structure CalGroup where
  channels : List (String × Option Int)
deriving Repr, DecidableEq

/-- `from_field`: walk the groups in h5py order; keep those that hold the channel and whose entry has the time field.
    An item is identified by the position of its group. -/
def calFromField (groups : List CalGroup) (ch : String) : List CalItem :=
  groups.zipIdx.filterMap fun (g, i) =>
    match g.channels.lookup ch with
    | some (some t) => some ⟨t, i⟩
    | _ => none

/-- `Slice.calibration`: nothing without items (`if self._calibration:`); otherwise the filter over the source's own
    `start`/`stop`; an empty time series has neither (`IndexError` → `[]`). -/
def sliceCalibration (items : List CalItem) (src : C01.Src) : List CalItem :=
  if items.isEmpty then []
  else match src with
    | .ts [] => []
    | _ => filterCalibration items src.start src.stop

/-- `file[group][channel].calibration` and `file[group][channel][a:b].calibration` -/
def channelCalibration (groups : List CalGroup) (ch : String) (s : C01.Src) (w : Option (Int × Int)) : List CalItem :=
  let src := match w with
    | none => s
    | some (a, b) => s.getitem (.ts a) (.ts b)
  sliceCalibration (calFromField groups ch) src

/-- sample spacing that closes a channel's time range: the period of a continuous channel, 1 ns after the last
    sample of a time series -/
def stepOf : C01.Src → Int
  | .cont c => c.dt
  | _ => 1

/-! ### protocol -/
open Verif.Proto

def calItems? (s : String) : Option (List CalItem) := do
  let l ← intList? s
  some (l.zipIdx.map fun (t, i) => ⟨t, i⟩)

/-! ### channels by attribute (`detail/mixin.py`, `File._get_force` … `_get_photon_time_tags`) -/

/-- attribute of `File` ↦ the HDF5 dataset it reads (default detector mapping) -/
def attrTable : List (String × String) :=
  [("force1x", "Force HF/Force 1x"),
   ("force1y", "Force HF/Force 1y"),
   ("force1z", "Force HF/Force 1z"),
   ("force2x", "Force HF/Force 2x"),
   ("force2y", "Force HF/Force 2y"),
   ("force2z", "Force HF/Force 2z"),
   ("force3x", "Force HF/Force 3x"),
   ("force3y", "Force HF/Force 3y"),
   ("force3z", "Force HF/Force 3z"),
   ("force4x", "Force HF/Force 4x"),
   ("force4y", "Force HF/Force 4y"),
   ("force4z", "Force HF/Force 4z"),
   ("corrected_force1x", "Force HF/Corrected Force 1x"),
   ("corrected_force2x", "Force HF/Corrected Force 2x"),
   ("downsampled_force1x", "Force LF/Force 1x"),
   ("downsampled_force1y", "Force LF/Force 1y"),
   ("downsampled_force1z", "Force LF/Force 1z"),
   ("downsampled_force2x", "Force LF/Force 2x"),
   ("downsampled_force2y", "Force LF/Force 2y"),
   ("downsampled_force2z", "Force LF/Force 2z"),
   ("downsampled_force3x", "Force LF/Force 3x"),
   ("downsampled_force3y", "Force LF/Force 3y"),
   ("downsampled_force3z", "Force LF/Force 3z"),
   ("downsampled_force4x", "Force LF/Force 4x"),
   ("downsampled_force4y", "Force LF/Force 4y"),
   ("downsampled_force4z", "Force LF/Force 4z"),
   ("distance1", "Distance/Distance 1"),
   ("distance2", "Distance/Distance 2"),
   ("red_photon_count", "Photon count/Red"),
   ("green_photon_count", "Photon count/Green"),
   ("blue_photon_count", "Photon count/Blue"),
   ("red_photon_time_tags", "Photon Time Tags/Red"),
   ("green_photon_time_tags", "Photon Time Tags/Green"),
   ("blue_photon_time_tags", "Photon Time Tags/Blue")]

/-- trap totals: attribute, then the datasets tried in this order (`Force n`, `Trap n`), then the two components the
    magnitude is rebuilt from -/
def trapTable : List (String × String × String × String × String) :=
  [("downsampled_force1", "Force LF/Force 1", "Force LF/Trap 1", "Force LF/Force 1x", "Force LF/Force 1y"),
   ("downsampled_force2", "Force LF/Force 2", "Force LF/Trap 2", "Force LF/Force 2x", "Force LF/Force 2y"),
   ("downsampled_force3", "Force LF/Force 3", "Force LF/Trap 3", "Force LF/Force 3x", "Force LF/Force 3y"),
   ("downsampled_force4", "Force LF/Force 4", "Force LF/Trap 4", "Force LF/Force 4x", "Force LF/Force 4y")]

inductive AttrRes where
  | empty                       -- `empty_slice` (the `KeyError` of a missing dataset is swallowed)
  | path (p : String)           -- that dataset
  | magnitude (x y : String)    -- `sqrt(x² + y²)` on the timestamps of `x`
  | noSuchAttribute
deriving Repr, DecidableEq

def attrLookup (present : List String) (attr : String) : AttrRes :=
  match attrTable.lookup attr with
  | some p => if present.contains p then .path p else .empty
  | none =>
    match trapTable.lookup attr with
    | some (f, t, x, y) =>
      if present.contains f then .path f
      else if present.contains t then .path t
      else if present.contains x && present.contains y then .magnitude x y
      else .empty
    | none => .noSuchAttribute

/-- the colour attributes: attribute ↦ (HDF5 group, colour key of the `rgb_to_detectors` constructor option) -/
def colourTable : List (String × String × String) :=
  [("red_photon_count", "Photon count", "Red"),
   ("green_photon_count", "Photon count", "Green"),
   ("blue_photon_count", "Photon count", "Blue"),
   ("red_photon_time_tags", "Photon Time Tags", "Red"),
   ("green_photon_time_tags", "Photon Time Tags", "Green"),
   ("blue_photon_time_tags", "Photon Time Tags", "Blue")]

/-- the mapping used when the option is not given (`_get_detector_mapping`) -/
def defaultDetectors : List (String × String) := [("Red", "Red"), ("Green", "Green"), ("Blue", "Blue")]

/-- `File(name, rgb_to_detectors=m)` / `File.from_h5py(h5, rgb_to_detectors=m)`: a colour attribute reads, in its own
    group, the dataset of the detector its colour is mapped to (`_get_photon_count`, `_get_photon_time_tags`; a missing
    key or dataset is the swallowed `KeyError`); every other attribute does not look at the mapping -/
def attrLookupM (m : List (String × String)) (present : List String) (attr : String) : AttrRes :=
  match colourTable.lookup attr with
  | some (g, c) =>
    match m.lookup c with
    | some d => if present.contains (g ++ "/" ++ d) then .path (g ++ "/" ++ d) else .empty
    | none => .empty
  | none => attrLookup present attr

/-- `[k₁, v₁, k₂, v₂, …]` ↦ `[(k₁, v₁), (k₂, v₂), …]` (protocol encoding of a dict) -/
def pairUp {α} : List α → Option (List (α × α))
  | [] => some []
  | [_] => none
  | k :: v :: rest => (pairUp rest).map ((k, v) :: ·)

def showAttrRes : AttrRes → String
  | .empty => "empty"
  | .path p => "path " ++ p
  | .magnitude x y => "magnitude " ++ x ++ " | " ++ y
  | .noSuchAttribute => "no-such-attribute"

def showKind : KindAttr → String
  | .absent => "absent"
  | .str k => "str:" ++ k
  | .bytes k => "bytes:" ++ k

def showOpt {α} (f : α → String) : Option α → String
  | none => "N"
  | some x => f x

def showDset (d : Dset) : String :=
  "kind=" ++ showKind d.kind ++ " start=" ++ showOpt showInt d.start ++ " stop=" ++ showOpt showInt d.stop ++
  " rate=" ++ showOpt showRat d.rate ++ " " ++
  (match d.payload with
   | .plain v => "plain " ++ showIntList v
   | .compound r => "compound " ++ C01.showSamples r)

def showClass : ChanClass → String
  | .continuous => "Continuous"
  | .timeSeries => "TimeSeries"
  | .timeTags => "TimeTags"

def kindAttr? (s : String) : Option KindAttr :=
  if s == "absent" then some .absent
  else if s.startsWith "str:" then some (.str (s.drop 4).toString)
  else if s.startsWith "bytes:" then some (.bytes (s.drop 6).toString)
  else none

def showExcept {α} (f : α → String) : Except String α → Option String
  | .ok x => some (f x)
  | .error "outside-model" => none
  | .error e => some e

/-- `@name=val,name=N,@…`: one `@` per group, `_` for a space in a channel name, `N` for a missing time field -/
def calGroups? (s : String) : Option (List CalGroup) :=
  if s == "-" then some []
  else
    ((s.splitOn "@").drop 1).mapM fun g => do
      let entries ← ((g.splitOn ",").filter (· ≠ "")).mapM fun e =>
        match e.splitOn "=" with
        | [n, v] => if v == "N" then some (n.replace "_" " ", none) else (v.toInt?).map fun t => (n.replace "_" " ", some t)
        | _ => none
      some ⟨entries⟩

def handle : List String → Option String
  | ["c05.cal", times, start, stop] => do
    let items ← calItems? times
    let a ← int? start; let b ← int? stop
    some (showNatList ((filterCalibration items a b).map (·.id)))
  | ["c05.omit", pats, paths] => do
    -- pats / paths: lists of code-point lists `[a,b;c,d]`
    let pats ← Proto.listListOf? nat? pats
    let paths ← Proto.listListOf? nat? paths
    let ps := pats.map fun p => parsePat (p.map Char.ofNat)
    some (showList (fun b => showBool b) (paths.map fun p => exported ps (p.map Char.ofNat)))
  | "c05.crop" :: rest => do
    -- c05.crop <src…> a b  -> "absent" | the cropped source
    let (s, ws) ← C01.mkSrc? rest
    match ws with
    | [a, b] => do
      let a ← int? a; let b ← int? b
      if channelWritten s a b then some (C01.showSrc (cropChannel s a b)) else some "absent"
    | _ => none
  | ["c05.keep", st, sp, a, b] => do
    let st ← int? st; let sp ← int? sp; let a ← int? a; let b ← int? b
    some (showBool (keepMeta st sp a b))
  | ["c05.dt", rate] => do
    let r ← float? rate
    some (toString (periodOfRate r))
  | ["c05.attr", present, attr] => do
    -- present: list of code-point lists; attr: a plain token
    let present ← Proto.listListOf? nat? present
    some (showAttrRes (attrLookup (present.map fun p => String.ofList (p.map Char.ofNat)) attr))
  | ["c05.attrm", mapping, present, attr] => do
    -- mapping: `N` (option not given) or code-point lists colour, detector, colour, detector, …
    let present ← Proto.listListOf? nat? present
    let str := fun (p : List Nat) => String.ofList (p.map Char.ofNat)
    let m ← if mapping == "N" then some defaultDetectors else do
      let ws ← Proto.listListOf? nat? mapping
      pairUp (ws.map str)
    some (showAttrRes (attrLookupM m (present.map str) attr))
  | ["c05.dtu", rate] => do
    let r ← float? rate
    some (toString (periodOfRateUnfixed r))
  | ["c05.fl", x] => do
    let x ← rat? x
    some (showRat (flDouble x))
  | ["c05.rateq", dt] => do
    let dt ← int? dt
    -- beyond 2^53 the period itself is rounded when it becomes a double: outside the model
    if dt ≤ 0 ∨ dt > 9007199254740992 then none else some (showRat (sampleRateQ flDouble dt))
  | ["c05.dtq", rate] => do
    let r ← rat? rate
    if r ≤ 0 then none else some (toString (periodOfRateQ flDouble r))
  | ["c05.dtqu", rate] => do
    let r ← rat? rate
    if r ≤ 0 then none else some (toString (periodOfRateUnfixedQ flDouble r))
  | ["c05.round", x] => do
    let x ← rat? x
    some (toString (roundHalfEven x))
  | "c05.todset" :: rest => do
    let (s, ws) ← C01.mkSrc? rest
    if ws ≠ [] then none else showExcept showDset (toDataset flDouble s)
  | "c05.readback" :: rest => do
    -- to_dataset then channel_class(dset).from_dataset(dset)
    let (s, ws) ← C01.mkSrc? rest
    if ws ≠ [] then none
    else showExcept C01.showSrc (match toDataset flDouble s with | .error e => .error e | .ok d => fromDataset flDouble d)
  | ["c05.class", kind, shape, hasRate] => do
    -- kind: absent | str:<text> | bytes:<text>; shape: plain | compound; hasRate: T/F
    let k ← kindAttr? kind
    let hr ← bool? hasRate
    let pl ← if shape == "plain" then some (Payload.plain []) else if shape == "compound" then some (Payload.compound []) else none
    showExcept showClass (channelClass ⟨k, some 0, some 0, if hr then some 1 else none, pl⟩)
  | "c05.cropread" :: rest => do
    -- the channel of the cropped file as read back: "absent" | source
    let (s, ws) ← C01.mkSrc? rest
    match ws with
    | [a, b] => do
      let a ← int? a; let b ← int? b
      showExcept (fun (r : Option C01.Src) => match r with | none => "absent" | some x => C01.showSrc x) (cropExportRead flDouble s a b)
    | _ => none
  | "c05.calchan" :: groups :: ch :: rest => do
    -- c05.calchan <groups> <channel> <src…> [a b]  -> positions of the calibration groups listed
    let groups ← calGroups? groups
    let (s, ws) ← C01.mkSrc? rest
    let w ← match ws with
      | [] => some none
      | [a, b] => do let a ← int? a; let b ← int? b; some (some (a, b))
      | _ => none
    some (showNatList ((channelCalibration groups (ch.replace "_" " ") s w).map (·.id)))
  | "c05.cropread2" :: rest => do
    -- export with window (a, b), reopen, export with (c, d), reopen
    let (s, ws) ← C01.mkSrc? rest
    match ws with
    | [a, b, c, d] => do
      let a ← int? a; let b ← int? b; let c ← int? c; let d ← int? d
      let r : Except String (Option C01.Src) :=
        match cropExportRead flDouble s a b with
        | .error e => .error e
        | .ok none => .ok none
        | .ok (some s1) => cropExportRead flDouble s1 c d
      showExcept (fun (r : Option C01.Src) => match r with | none => "absent" | some x => C01.showSrc x) r
    | _ => none
  | ["c05.omittree", pats, paths] => do
    -- every node of the source file in visiting order -> its status in the output file
    let pats ← Proto.listListOf? nat? pats
    let paths ← Proto.listListOf? nat? paths
    let ps := pats.map fun p => parsePat (p.map Char.ofNat)
    let nodes := paths.map fun p => p.map Char.ofNat
    let out := writeOmit ps nodes
    some (showList id (nodes.map (nodeStatus out)))
  | ["c05.keepx", st, sp, a, b] => do
    -- st = sp = "E": cropping the item raised IndexError/TypeError; answer: N | new "start stop" attributes
    let a ← int? a; let b ← int? b
    let sl ← if st == "E" && sp == "E" then some none else do
      let st ← int? st; let sp ← int? sp; some (some (st, sp))
    match writeCroppedMeta sl a b with
    | none => some "N"
    | some (x, y) => some (toString x ++ " " ++ toString y)
  | ["c05.tsrate", ts] => do
    let ts ← intList? ts
    match tsStep ts with
    | some 0 => none   -- division by a zero step: outside the model
    | some d =>
      -- beyond 2^53 ns (104 days) the step itself is rounded when it becomes a double: outside the model
      if d.natAbs > 9007199254740992 then none else some (showOpt showRat (tsSampleRate flDouble ts))
    | none => some (showOpt showRat (tsSampleRate flDouble ts))
  | _ => none

end Verif.C05
