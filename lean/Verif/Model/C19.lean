/-
  C19 — queries are pure: idempotent, order-independent, free of aliasing.

  Executable model of the STATE that pylake's read-only queries touch:
    * `method_cache` (lumicks/pylake/detail/utilities.py): `cachetools.cachedmethod` looks the key up in
      `self._cache`, otherwise runs the method and stores the result in the dict object it fetched
      BEFORE running the method (so a result computed while `_cache` was replaced is stored in the
      orphaned dict) — `Obj.cache`, `Obj.gen`;
    * `BaseScan._get_photon_count` (detail/confocal.py): slices the photon channel with the object's
      `[start, stop)`, returns early for an absent/empty channel, moves `self.start` to the timeline start
      when it lies inside the preceding sample (STED workaround, no cache reset) and calls
      `_fix_incorrect_start` when the timeline starts after `self.start` — `photonAccess`;
    * `Kymo._fix_incorrect_start` (kymo.py): `self.start = seek_timestamp_next_line(...)`, `self._cache = {}`;
      `Scan._fix_incorrect_start` raises `RuntimeError` — `fixStart`, `seekNextLine`;
    * `BaseScan.__copy__ / Kymo.__copy__`: current `start/stop` and the factories are carried, caches are not;
    * the factory closures of `crop_by_distance / downsampled_by / flip / _scan_with_sliced_factories`,
      which call `parent._image`, `parent._timestamps`, `parent.line_time_seconds` (and therefore read
      and fill the PARENT's cache and may repair the PARENT's start) — `Mode`, `route`;
    * `Kymo.__getitem__` (time slice: new `start/stop` from the line ranges, default factories);
    * `Scan.num_frames` (writes `_metadata` once) — `Obj.frames`;
    * lazily cached immutable objects (Continuous/TimeSeries `_cached_data`, FdCurve caches, ImageStack,
      KymoTrackGroup): `File.pure`, every answer is a function of the derivation path.

  Values are PROVENANCE terms (`Ans`): which `(start, stop)` window a reconstructed quantity was computed
  from and through which derived-object factories it passed.  The numbers a window stands for are
  C02/C03/C06's business; what C19 is about is WHICH state an answer reflects.  Line time and pixel
  time (the observables of finding F5) are in addition computed concretely (`lineTimeNs`, `pixelTimeNs`).
-/
import Verif.Py
import Verif.Proto

namespace Verif.C19
open Verif.Py

inductive Color | red | green | blue
deriving DecidableEq, Repr

inductive Red | mean | min | max
deriving DecidableEq, Repr

/-- The four `method_cache`d quantities of a confocal object. -/
inductive Prim
  | pixelTime
  | lineTime
  | image (c : Color)
  | ts (r : Red)
deriving DecidableEq, Repr

inductive Err | runtime | value | notImpl | index
deriving DecidableEq, Repr

/-- Provenance of an answer. -/
inductive Ans
  | int (n : Int)                      -- a timestamp (start / stop)
  | static (path : List Nat) (k : Nat) -- read from immutable fields of the object made by derivations `path`
  | iw (s e : Int)                     -- the info-wave slice [s, e)
  | at (p : Prim) (s e : Int)          -- default factory evaluated on the file window [s, e)
  | frames (s e : Int)                 -- reconstruct_num_frames on the window [s, e)
  | app (x : Nat) (a : Ans)            -- factory closure of derivation `x` applied to the parent's answer
  | via (p : Prim) (a : Ans)           -- quantity `p` computed from another quantity of the same object
  | pair (a b : Ans)                   -- a query that combines two quantities
  | err (e : Err)
  | dead                               -- the addressed object does not exist (failed / empty derivation)
deriving DecidableEq, Repr

def Ans.isErr : Ans → Bool
  | .err _ => true
  | .app _ a => a.isErr
  | .via _ a => a.isErr
  | _ => false

structure Chan where
  start : Int
  len : Nat
deriving DecidableEq, Repr

structure File where
  t0 : Int               -- timestamp of the first info-wave sample
  dt : Int               -- sample period (ns) of info wave and photon counts
  iw : List Nat          -- info-wave codes (0 discard, 1 use, 2 pixel boundary)
  P : Nat                -- pixels per line
  isScan : Bool
  pure : Bool            -- object kind without start-dependent state (channel, stack, tracks, F,d curve)
  red : Option Chan
  green : Option Chan
  blue : Option Chan
deriving Repr

def File.chan (f : File) : Color → Option Chan
  | .red => f.red
  | .green => f.green
  | .blue => f.blue

/-! ### `Continuous.slice` arithmetic (cf. C01) -/

def cdiv (x d : Int) : Int := (x + d - 1) / d

/-- index of the first sample with timestamp `≥ t` on a grid starting at `g0`, clamped to `[0, n]` -/
def gridIdx (g0 dt : Int) (n : Nat) (t : Int) : Nat := min (max (cdiv (t - g0) dt) 0).toNat n

/-- start timestamp `Continuous.slice` assigns: rounded up to the grid and clamped to the source start -/
def alignedStart (g0 dt a : Int) : Int :=
  let fraction := (a - g0) % dt
  max (if fraction = 0 then a else a + dt - fraction) g0

/-- `file.<colour>_photon_count[s:e]`: `none` if empty, else `(timeline start, stop)` of the slice -/
def chanWindow (dt : Int) (c : Chan) (s e : Int) : Option (Int × Int) :=
  let i := gridIdx c.start dt c.len (alignedStart c.start dt s)
  let j := gridIdx c.start dt c.len e
  if i < j then some (alignedStart c.start dt s, c.start + j * dt) else none

/-- samples (timestamp, code) of `infowave[s:e]` -/
def stamp (t dt : Int) : List Nat → List (Int × Nat)
  | [] => []
  | c :: cs => (t, c) :: stamp (t + dt) dt cs

def window (f : File) (s e : Int) : List (Int × Nat) :=
  let i := gridIdx f.t0 f.dt f.iw.length (alignedStart f.t0 f.dt s)
  let j := gridIdx f.t0 f.dt f.iw.length e
  stamp (f.t0 + i * f.dt) f.dt ((f.iw.drop i).take (j - i))

/-! ### `seek_timestamp_next_line` -/

/-- timestamps of the used samples that follow a pixel boundary (`time[pixel_ends + 1]`) -/
def afterBoundary : List (Int × Nat) → List Int
  | (_, c) :: (t, c') :: rest => if c = 2 then t :: afterBoundary ((t, c') :: rest) else afterBoundary ((t, c') :: rest)
  | _ => []

def diffs : List Int → List Int
  | a :: b :: rest => (b - a) :: diffs (b :: rest)
  | _ => []

def maxL (l : List Int) : Int := l.foldl max (l.headD 0)
def minL (l : List Int) : Int := l.foldl min (l.headD 0)

/-- `pixel_start = time[pixel_ends[:-1] + 1]`: for a stream that ends with a boundary the last boundary has
    no follower anyway; otherwise the follower of the last boundary is dropped. -/
def pixelStarts (used : List (Int × Nat)) : List Int :=
  let a := afterBoundary used
  match used.getLast? with
  | some (_, 2) => a
  | _ => a.dropLast

def seekNextLine (w : List (Int × Nat)) : Option Int :=
  let used := w.filter (fun x => x.2 ≠ 0)
  let ps := pixelStarts used
  let ds := diffs ps
  if ds = [] then none
  else
    let thr2 := maxL ds + minL ds
    let idx := (ds.findIdx? (fun d => decide (2 * d > thr2))).getD 0
    ps[idx + 1]?

/-! ### line / pixel time (default factories) -/

def firstIdx (p : Nat → Bool) (l : List Nat) : Option Nat := l.findIdx? p

/-- `(stop - start + 1)` of `first_pixel_sample_indices`; `none` = RuntimeError (no completed pixel) -/
def pixelSamples (codes : List Nat) : Option (Nat × Nat) :=
  if codes = [] then some (0, 1)
  else match firstIdx (· == 2) codes with
    | none => none
    | some pb => some ((firstIdx (· != 0) codes).getD 0, pb - (firstIdx (· != 0) codes).getD 0 + 1)

def pixelTimeNs (f : File) (s e : Int) : Option Int :=
  (pixelSamples ((window f s e).map (·.2))).map fun x => (x.2 : Int) * f.dt

def lineTimeNs (f : File) (s e : Int) : Option Int :=
  let codes := (window f s e).map (·.2)
  (pixelSamples codes).map fun (st, k) =>
    let scan := f.P * k
    let beyond := codes.drop (st + scan)
    if beyond = [] then (scan : Int) * f.dt
    else ((scan + (firstIdx (· != 0) beyond).getD 0 : Nat) : Int) * f.dt

/-! ### line ranges (what `Kymo.__getitem__` reads) -/

def chunksOf {α} (k : Nat) : Nat → List α → List (List α)
  | 0, _ => []
  | fuel + 1, l => if k = 0 ∨ l.length < k then [] else l.take k :: chunksOf k fuel (l.drop k)

def groupsOf {α} (k : Nat) : Nat → List α → List (List α)
  | 0, _ => []
  | fuel + 1, l => if k = 0 ∨ l = [] then [] else l.take k :: groupsOf k fuel (l.drop k)

/-- per pixel (min, max) timestamp as `reconstruct_image` computes them (constant samples per pixel =
    position of the first boundary among the used samples) -/
def pixelSpans (w : List (Int × Nat)) : List (Int × Int) :=
  let used := w.filter (fun x => x.2 ≠ 0)
  let k := match used.findIdx? (fun x => x.2 == 2) with
    | some i => i + 1
    | none => 1
  (chunksOf k used.length used).map fun px => ((px.headD (0, 0)).1, (px.getLastD (0, 0)).1)

/-- `(first pixel's min, max over the line + dt)` for every (possibly unfinished) line -/
def lineRangesOf (P : Nat) (dt : Int) (spans : List (Int × Int)) : List (Int × Int) :=
  (groupsOf P spans.length spans).map fun ln => ((ln.headD (0, 0)).1, maxL (ln.map (·.2)) + dt)

/-! ### objects -/

/-- How a derived object obtains a quantity. -/
inductive Route
  | default                -- default factory on the object's own state
  | parent (p : Prim)      -- closure over the parent: `parent.<p>` (reads/fills the parent's cache)
  | self (p : Prim)        -- from another quantity of the same object
  | illDefined             -- raises NotImplementedError
deriving DecidableEq, Repr

inductive Mode
  | root      -- default factories
  | full      -- crop_by_distance, downsampled_by(time_factor = 1): image, timestamps, line time from the parent
  | coarse    -- downsampled_by(time_factor > 1): timestamps ill-defined
  | flip      -- only the image factory replaced
  | scanView  -- _scan_with_sliced_factories
deriving DecidableEq, Repr

def route : Mode → Prim → Route
  | .root, _ => .default
  | .full, .image c => .parent (.image c)
  | .full, .ts r => .parent (.ts r)
  | .full, .lineTime => .parent .lineTime
  | .full, .pixelTime => .self (.ts .mean)
  | .coarse, .image c => .parent (.image c)
  | .coarse, .ts _ => .illDefined
  | .coarse, .lineTime => .parent .lineTime
  | .coarse, .pixelTime => .self (.ts .mean)
  | .flip, .image c => .parent (.image c)
  | .flip, .ts _ => .default
  | .flip, .lineTime => .self (.ts .mean)
  | .flip, .pixelTime => .self (.ts .mean)
  | .scanView, .image c => .parent (.image c)
  | .scanView, .ts r => .parent (.ts r)
  | .scanView, .lineTime => .illDefined
  | .scanView, .pixelTime => .self (.ts .mean)

structure Obj where
  start : Int
  stop : Int
  cache : List (Prim × Ans)
  gen : Nat                   -- identity of the `_cache` dict (bumped when it is replaced)
  chain : List Nat            -- the objects the factory closures close over: parent, its parent, …
  mode : Mode
  xf : Nat                    -- label of the derivation that made the object
  path : List Nat             -- labels of all derivations from the source
  frames : Option Ans         -- `_metadata.num_frames` once known
  alive : Bool
deriving DecidableEq, Repr

abbrev Heap := List Obj

def lookup (c : List (Prim × Ans)) (p : Prim) : Option Ans := (c.find? (·.1 = p)).map (·.2)

def setObj (h : Heap) (i : Nat) (o : Obj) : Heap := h.set i o

/-- `_fix_incorrect_start` -/
def fixStart (f : File) (o : Obj) : Except Err Obj :=
  if f.isScan then .error .runtime
  else match seekNextLine (window f o.start o.stop) with
    | none => .error .value
    | some s => .ok { o with start := s, cache := [], gen := o.gen + 1 }

/-- `_get_photon_count(colour)`: the new object state and the channel slice (`none` = empty) -/
def photonAccess (f : File) (o : Obj) (c : Color) : Except Err (Obj × Option (Int × Int)) :=
  match f.chan c with
  | none => .ok (o, none)
  | some ch =>
    match chanWindow f.dt ch o.start o.stop with
    | none => .ok (o, none)
    | some (tl, e) =>
      let o1 := if tl - f.dt < o.start ∧ o.start < tl then { o with start := tl } else o
      if tl > o1.start then
        match fixStart f o1 with
        | .error er => .error er
        | .ok o2 => .ok (o2, chanWindow f.dt ch o2.start o2.stop)
      else .ok (o1, some (tl, e))

/-- `_get_confocal_data`: the window both streams are cut to -/
def confocalStop (f : File) (stop : Int) (cw : Option (Int × Int)) : Int :=
  match cw with
  | none => stop
  | some (_, ce) =>
    let iwStop := f.t0 + (gridIdx f.t0 f.dt f.iw.length stop : Int) * f.dt
    if ce < iwStop then ce else stop

/-- default image factory -/
def defaultImage (f : File) (o : Obj) (c : Color) : Obj × Ans :=
  match photonAccess f o c with
  | .error e => (o, .err e)
  | .ok (o', cw) => (o', .at (.image c) o'.start (confocalStop f o'.stop cw))

/-- default timestamp factory: the first colour with a non-empty photon slice -/
def defaultTs (f : File) (o : Obj) (r : Red) : List Color → Obj × Ans
  | [] => (o, .err .runtime)
  | c :: cs =>
    match photonAccess f o c with
    | .error e => (o, .err e)
    | .ok (o', none) => defaultTs f o' r cs
    | .ok (o', some cw) => (o', .at (.ts r) o'.start (confocalStop f o'.stop (some cw)))

def allColors : List Color := [.red, .green, .blue]

def defaultPrim (f : File) (o : Obj) : Prim → Obj × Ans
  | .pixelTime => (o, .at .pixelTime o.start o.stop)
  | .lineTime => (o, .at .lineTime o.start o.stop)
  | .image c => defaultImage f o c
  | .ts r => defaultTs f o r allColors

/-- `cachedmethod` stores the result in the dict it fetched before the call (`g` = its identity); exceptions
    are not stored. -/
def storeAns (h : Heap) (i : Nat) (p : Prim) (g : Nat) (v : Ans) : Heap × Ans :=
  if v.isErr then (h, v)
  else match h[i]? with
    | none => (h, v)
    | some o1 => if o1.gen = g then (setObj h i { o1 with cache := (p, v) :: o1.cache }, v) else (h, v)

/-- One `method_cache`d quantity of object `i` whose factory is the default one, a closure over the parent
    (`up` evaluates a quantity of the parent) or ill-defined. -/
def evalOne (f : File) (up : Heap → Prim → Heap × Ans) (h : Heap) (i : Nat) (p : Prim) : Heap × Ans :=
  match h[i]? with
  | none => (h, .dead)
  | some o =>
    match lookup o.cache p with
    | some v => (h, v)
    | none =>
      match route o.mode p with
      | .default => storeAns (setObj h i (defaultPrim f o p).1) i p o.gen (defaultPrim f o p).2
      | .parent q => storeAns (up h q).1 i p o.gen (.app o.xf (up h q).2)
      | .illDefined => (h, .err .notImpl)
      | .self _ => (h, .dead)

/-- `obj[i].<p>`, including quantities computed from another cached quantity of the same object. -/
def evalAt (f : File) (up : Heap → Prim → Heap × Ans) (h : Heap) (i : Nat) (p : Prim) : Heap × Ans :=
  match h[i]? with
  | none => (h, .dead)
  | some o =>
    if !o.alive then (h, .dead)
    else match route o.mode p with
      | .self q =>
        match lookup o.cache p with
        | some v => (h, v)
        | none => storeAns (evalOne f up h i q).1 i p o.gen (.via p (evalOne f up h i q).2)
      | _ => evalOne f up h i p

/-- One `method_cache`d call `obj[i].<p>`: (heap after, answer).  `chain` = the closure chain of object `i`. -/
def evalPrim (f : File) : List Nat → Heap → Nat → Prim → Heap × Ans
  | [], h, i, p => evalAt f (fun h _ => (h, .dead)) h i p
  | par :: rest, h, i, p => evalAt f (fun h q => evalPrim f rest h par q) h i p

def evalTop (f : File) (h : Heap) (i : Nat) (p : Prim) : Heap × Ans :=
  match h[i]? with
  | none => (h, .dead)
  | some o => evalPrim f o.chain h i p

/-! ### queries -/

inductive Query
  | static (k : Nat)
  | start | stop | infowave
  | prim (p : Prim)
  | lineRanges       -- Kymo.line_timestamp_ranges() / Scan.frame_timestamp_ranges(): min then max timestamps
  | shape            -- Kymo.shape: reconstructs the red image; Scan.shape: num_frames
  | duration         -- Kymo.duration: line time, then shape
  | numFrames
  | rgb              -- get_image("rgb"): the three memoised colour planes, stacked anew on every call
deriving DecidableEq, Repr

def numFrames (h : Heap) (i : Nat) : Heap × Ans :=
  match h[i]? with
  | none => (h, .dead)
  | some o =>
    match o.frames with
    | some v => (h, v)
    | none => let v := Ans.frames o.start o.stop; (setObj h i { o with frames := some v }, v)

/-- two memoised calls in a row; an exception of the first ends the query -/
def seq2 (m1 m2 : Heap → Heap × Ans) (h : Heap) : Heap × Ans :=
  if (m1 h).2.isErr then m1 h
  else ((m2 (m1 h).1).1, if (m2 (m1 h).1).2.isErr then (m2 (m1 h).1).2 else .pair (m1 h).2 (m2 (m1 h).1).2)

/-- `line_timestamp_ranges()` / `frame_timestamp_ranges()`: minimum, then maximum timestamps -/
def minMax (f : File) (i : Nat) : Heap → Heap × Ans :=
  seq2 (fun h => evalTop f h i (.ts .min)) (fun h => evalTop f h i (.ts .max))

/-- `get_image("rgb")` = `np.stack([self.get_image(c) for c in ("red", "green", "blue")], axis=-1)`: three memoised
    calls in a row (an exception of one ends the query); the stack itself is NOT memoised, the answer is
    `pair (pair red green) blue` -/
def rgbImage (f : File) (i : Nat) : Heap → Heap × Ans :=
  seq2 (seq2 (fun h => evalTop f h i (.image .red)) (fun h => evalTop f h i (.image .green)))
    (fun h => evalTop f h i (.image .blue))

def queryLive (f : File) (h : Heap) (i : Nat) (o : Obj) : Query → Heap × Ans
  | .static k => (h, .static o.path k)
  | .start => (h, .int o.start)
  | .stop => (h, .int o.stop)
  | .infowave => (h, .iw o.start o.stop)
  | .prim p => evalTop f h i p
  | .lineRanges => minMax f i h
  | .shape => if f.isScan then numFrames h i else evalTop f h i (.image .red)
  | .duration => seq2 (fun h => evalTop f h i .lineTime) (fun h => evalTop f h i (.image .red)) h
  | .numFrames => numFrames h i
  | .rgb => rgbImage f i h

def query (f : File) (h : Heap) (i : Nat) (q : Query) : Heap × Ans :=
  match h[i]? with
  | none => (h, .dead)
  | some o =>
    if !o.alive then (h, .dead)
    else if f.pure then (h, .static o.path (match q with | .static k => k | _ => 0))
    else queryLive f h i o q

/-! ### derivations -/

inductive Derive
  | copy                              -- copy.copy / calibrate_to_kbp: same start/stop/factories, fresh cache
  | slice (a b : Option Int)          -- Kymo.__getitem__ (time)
  | view (m : Mode)                   -- crop_by_distance / downsampled_by / flip (kymo)
  | scanView                          -- Scan.__getitem__ (frames and/or spatial crop; start/stop from the frame ranges)
  | scanCrop                          -- Scan.crop_by_pixels (no timestamp access; start/stop copied)
  | scanFail (e : Err)                -- frame index out of range / empty spatial axis: raises after reading num_frames
  | scanEmpty                         -- empty frame selection: EmptyScan after reading num_frames
  | pureDerive                        -- any derivation of a state-free kind (slice, arithmetic, crop, filter…)
  | placeholder                       -- occupies an object slot without touching anything
deriving DecidableEq, Repr

def deadObj : Obj :=
  { start := 0, stop := 0, cache := [], gen := 0, chain := [], mode := .root, xf := 0, path := [], frames := none,
    alive := false }

def copyObj (o : Obj) (x : Nat) : Obj :=
  { o with cache := [], gen := 0, path := o.path ++ [x] }

/-- the window a time slice of a kymograph ends up with (`none`: empty kymograph) -/
def sliceBounds (ranges : List (Int × Int)) (a b selfStop : Int) : Option (Int × Int) :=
  let starts := ranges.map (·.1)
  let iMin := searchsortedLeft starts a
  let iMax := searchsortedLeft starts b
  if iMin = starts.length then none
  else if iMin ≥ iMax then none
  else
    let stop := match starts[iMax]? with
      | some t => t
      | none => max (min b selfStop) ((ranges.getLast?.map (·.2)).getD 0)
    some (starts.getD iMin 0, stop)

/-- the window `[s, e)` an answer of the timestamp factory was computed from -/
def Ans.windowOf : Ans → Option (Int × Int)
  | .at _ s e => some (s, e)
  | _ => none

def push (h : Heap) (o : Obj) (a : Ans) : Heap × Ans := (h ++ [o], a)

def viewObj (o : Obj) (i x : Nat) (m : Mode) : Obj :=
  { copyObj o x with chain := i :: o.chain, mode := m, xf := x }

def scanViewObj (o : Obj) (i x : Nat) : Obj :=
  { viewObj o i x .scanView with frames := some (.static (o.path ++ [x]) 2) }

/-- second half of `Kymo.__getitem__`: `r` = the (min, max) timestamp answers, `o` = the object as it was when
    `item.start/stop` defaulted to `self.start/stop` (before the line ranges were computed) -/
def sliceFinish (f : File) (h2 : Heap) (i x : Nat) (a b : Option Int) (o : Obj) (r : Ans) : Heap × Ans :=
  match r, h2[i]? with
  | .pair v _, some o2 =>
    match v.windowOf with
    | some (s, e) =>
      if lineRangesOf f.P f.dt (pixelSpans (window f s e)) = [] then push h2 deadObj (.err .index)
      else match sliceBounds (lineRangesOf f.P f.dt (pixelSpans (window f s e))) (a.getD o.start) (b.getD o.stop)
          o2.stop with
        | none => push h2 deadObj (.static (o.path ++ [x]) 1)
        | some (s', e') =>
          push h2 { copyObj o2 x with start := s', stop := e', frames := none } (.pair (.int s') (.int e'))
    | none => push h2 deadObj .dead
  | r, _ => push h2 deadObj r

/-- second half of `Scan.__getitem__`: the new scan asks for its frame ranges (the timestamp factories are closures
    over the parent, so the parent's memo tables are read and filled; the entries the new object memoises for itself
    are always what the parent's table returns, because a scan never replaces its cache) -/
def scanViewFinish (h2 : Heap) (i x : Nat) (o : Obj) (r : Ans) : Heap × Ans :=
  match r with
  | .pair v w => push h2 (scanViewObj o i x) (.pair (.app x v) (.app x w))
  | r => push h2 deadObj (.app x r)

def deriveLive (f : File) (h : Heap) (i : Nat) (x : Nat) (o : Obj) : Derive → Heap × Ans
  | .placeholder => push h deadObj .dead
  | .pureDerive => push h (copyObj o x) (.static (o.path ++ [x]) 0)
  | .copy => push h (copyObj o x) (.static (o.path ++ [x]) 0)
  | .view m => push h (viewObj o i x m) (.static (o.path ++ [x]) 0)
  | .slice a b =>
    if o.mode ≠ .root then push h deadObj (.err .notImpl)
    else sliceFinish f (minMax f i h).1 i x a b o (minMax f i h).2
  | .scanFail e => push (numFrames h i).1 deadObj (.err e)
  | .scanEmpty => push (numFrames h i).1 deadObj (.static (o.path ++ [x]) 1)
  | .scanCrop => push (numFrames h i).1 (scanViewObj o i x) (.static (o.path ++ [x]) 0)
  | .scanView =>
    -- reads `self.num_frames` (memoised in the parent's metadata), builds the view, then asks the new object
    -- for its frame ranges
    scanViewFinish (minMax f i (numFrames h i).1).1 i x o (minMax f i (numFrames h i).1).2

def derive (f : File) (h : Heap) (i : Nat) (x : Nat) (d : Derive) : Heap × Ans :=
  match h[i]? with
  | none => push h deadObj .dead
  | some o => if !o.alive then push h deadObj .dead else deriveLive f h i x o d

/-! ### histories -/

inductive Op
  | q (i : Nat) (q : Query)
  | d (i : Nat) (d : Derive)
deriving DecidableEq, Repr

/-- the freshly constructed source object: `Kymo(name, file, start, stop, metadata)` -/
def initObj (s e : Int) : Obj :=
  { start := s, stop := e, cache := [], gen := 0, chain := [], mode := .root, xf := 0, path := [], frames := none,
    alive := true }

/-- one step; `x` = position of the op in the history (labels derivations) -/
def step (f : File) (h : Heap) (x : Nat) : Op → Heap × Ans
  | .q i q => query f h i q
  | .d i d => derive f h i x d

/-- a history with explicit labels (the label of a derivation names the factory closures it creates) -/
def runL (f : File) : Heap → List (Nat × Op) → Heap × List Ans
  | h, [] => (h, [])
  | h, (x, op) :: rest =>
    ((runL f (step f h x op).1 rest).1, (step f h x op).2 :: (runL f (step f h x op).1 rest).2)

/-- every op labelled with its position in the history -/
def labelFrom : Nat → List Op → List (Nat × Op)
  | _, [] => []
  | x, op :: ops => (x, op) :: labelFrom (x + 1) ops

def label (ops : List Op) : List (Nat × Op) := labelFrom 0 ops

def run (f : File) (s e : Int) (ops : List Op) : List Ans := (runL f [initObj s e] (label ops)).2

/-! ### the fresh twin -/

def Op.isDerive : Op → Bool
  | .d _ _ => true
  | .q _ _ => false

/-- object id created by the derivation at history position `x` -/
def createdId (ops : List Op) (x : Nat) : Nat := 1 + ((ops.take x).filter Op.isDerive).length

/-- ids of the ancestors (derivation sources) of object `t`, given the history -/
def ancestors (ops : List Op) : Nat → Nat → List Nat
  | 0, _ => []
  | fuel + 1, t =>
    if t = 0 then [0]
    else
      match (List.range ops.length).find? (fun x => (ops.getD x (.q 0 .start)).isDerive && createdId ops x = t) with
      | none => [t]
      | some x =>
        match ops.getD x (.q 0 .start) with
        | .d i _ => t :: ancestors ops fuel i
        | .q _ _ => [t]

def Op.target : Op → Nat
  | .q i _ => i
  | .d i _ => i

/-- The history the twin of step `n` sees: earlier queries are dropped, earlier derivations that are not
    ancestors of the addressed object are replaced by placeholders (so object ids stay put). -/
def twinHistory (ops : List Op) (n : Nat) : List (Nat × Op) :=
  match ops[n]? with
  | none => []
  | some op =>
    let anc := ancestors ops (ops.length + 1) op.target
    let pre := (List.range n).filterMap fun x =>
      match ops.getD x (.q 0 .start) with
      | .q _ _ => none
      | .d i d => some (x, if anc.contains (createdId ops x) then Op.d i d else Op.d i .placeholder)
    pre ++ [(n, op)]

def fresh (f : File) (s e : Int) (ops : List Op) (n : Nat) : Ans :=
  ((runL f [initObj s e] (twinHistory ops n)).2.getLast?).getD .dead

def freshAll (f : File) (s e : Int) (ops : List Op) : List Ans :=
  (List.range ops.length).map (fresh f s e ops)

/-! ### line protocol

  `c19.hist  <t0> <dt> <iw> <P> <scan T|F> <pure T|F> <red> <green> <blue> <start> <stop> <op>*`
  `c19.fresh …same…`
  channel = `N` | `start:len`; op = `q:<obj>:<query>` | `d:<obj>:<derive>`;
  query = `static.<k>|start|stop|infowave|pixelTime|lineTime|image.<r|g|b|rgb>|ts.<mean|min|max>|lineRanges|shape|
  duration|numFrames`; derive = `copy|slice.<a|N>.<b|N>|view.<full|coarse|flip>|scanView|pure|placeholder`.
  Answers are joined with `|`.
-/
open Verif.Proto

def showColor : Color → String
  | .red => "r" | .green => "g" | .blue => "b"
def showRed : Red → String
  | .mean => "mean" | .min => "min" | .max => "max"
def showPrim : Prim → String
  | .pixelTime => "pixelTime"
  | .lineTime => "lineTime"
  | .image c => "image." ++ showColor c
  | .ts r => "ts." ++ showRed r
def showErr : Err → String
  | .runtime => "RuntimeError" | .value => "ValueError" | .notImpl => "NotImplementedError" | .index => "IndexError"

def showOptNs : Option Int → String
  | none => "E"
  | some n => toString n

def showAns (f : File) : Ans → String
  | .int n => s!"int({n})"
  | .static p k => s!"static({".".intercalate (p.map toString)};{k})"
  | .iw s e => s!"iw({s},{e})"
  | .at p s e =>
    match p with
    | .pixelTime => s!"at(pixelTime,{s},{e},{showOptNs (pixelTimeNs f s e)})"
    | .lineTime => s!"at(lineTime,{s},{e},{showOptNs (lineTimeNs f s e)})"
    | _ => s!"at({showPrim p},{s},{e})"
  | .frames s e => s!"frames({s},{e})"
  | .app x a => s!"app({x},{showAns f a})"
  | .via p a => s!"via({showPrim p},{showAns f a})"
  | .pair a b => s!"pair({showAns f a},{showAns f b})"
  | .err e => showErr e
  | .dead => "dead"

def chan? (s : String) : Option (Option Chan) :=
  if s == "N" then some none
  else match s.splitOn ":" with
    | [a, b] => do
      let st ← int? a
      let n ← nat? b
      pure (some ⟨st, n⟩)
    | _ => none

def color? : String → Option Color
  | "r" => some .red | "g" => some .green | "b" => some .blue | _ => none
def red? : String → Option Red
  | "mean" => some .mean | "min" => some .min | "max" => some .max | _ => none

def query? (s : String) : Option Query :=
  match s.splitOn "." with
  | ["static", k] => (nat? k).map .static
  | ["start"] => some .start
  | ["stop"] => some .stop
  | ["infowave"] => some .infowave
  | ["pixelTime"] => some (.prim .pixelTime)
  | ["lineTime"] => some (.prim .lineTime)
  | ["image", "rgb"] => some .rgb
  | ["image", c] => (color? c).map fun c => .prim (.image c)
  | ["ts", r] => (red? r).map fun r => .prim (.ts r)
  | ["lineRanges"] => some .lineRanges
  | ["shape"] => some .shape
  | ["duration"] => some .duration
  | ["numFrames"] => some .numFrames
  | _ => none

def derive? (s : String) : Option Derive :=
  match s.splitOn "." with
  | ["copy"] => some .copy
  | ["slice", a, b] => do
    let a ← optInt? a
    let b ← optInt? b
    pure (.slice a b)
  | ["view", "full"] => some (.view .full)
  | ["view", "coarse"] => some (.view .coarse)
  | ["view", "flip"] => some (.view .flip)
  | ["scanView"] => some .scanView
  | ["scanCrop"] => some .scanCrop
  | ["scanFail", "IndexError"] => some (.scanFail .index)
  | ["scanFail", "NotImplementedError"] => some (.scanFail .notImpl)
  | ["scanEmpty"] => some .scanEmpty
  | ["pure"] => some .pureDerive
  | ["placeholder"] => some .placeholder
  | _ => none

def op? (s : String) : Option Op :=
  match s.splitOn ":" with
  | ["q", i, q] => do
    let i ← nat? i
    let q ← query? q
    pure (.q i q)
  | ["d", i, d] => do
    let i ← nat? i
    let d ← derive? d
    pure (.d i d)
  | _ => none

def parse? (args : List String) : Option (File × Int × Int × List Op) :=
  match args with
  | t0 :: dt :: iw :: p :: sc :: pu :: r :: g :: b :: s :: e :: ops => do
    let t0 ← int? t0
    let dt ← int? dt
    if dt ≤ 0 then none
    let iw ← natList? iw
    let p ← nat? p
    let sc ← bool? sc
    let pu ← bool? pu
    let r ← chan? r
    let g ← chan? g
    let b ← chan? b
    let s ← int? s
    let e ← int? e
    let ops ← ops.mapM op?
    pure (⟨t0, dt, iw, p, sc, pu, r, g, b⟩, s, e, ops)
  | _ => none

/-! ### buffers: what the arrays handed out by confocal objects can reach (clause 3 of the property)

  Reference semantics of the NumPy side of `ConfocalImage._image / _timestamps / get_image`:
    * a BUFFER is a block of memory (`St.mem`); an ARRAY object (`Arr`) reads a buffer through a list of flat positions
      (basic slicing, `np.flip`, `.T` make VIEWS: new array objects on the SAME buffer) and carries a WRITEABLE flag (a view
      inherits the flag of the array it was taken from);
    * `_image` / `_timestamps` (`method_cache`): look the key up in the object's table, else call the factory, set
      `flags.writeable = False` on the array object the factory returned, store THAT OBJECT in the table and hand THAT OBJECT
      out (`get_image(colour)` returns `self._image(colour)`; `timestamps` returns `self._timestamps()`);
    * default factories build a new buffer; the factories of `crop_by_distance` (`parent._image(c)[lo:hi, :]`) and `flip`
      (`np.flip(parent._image(c), axis=0)`) return views of the array in the PARENT's table; `downsampled_by` builds a new
      buffer (`block_reduce` / `timestamp_mean` of the parent's array); `copy` carries the factories, not the table;
    * `get_image("rgb")` = `np.stack` of the three planes: a new, writeable buffer, never stored;
    * an in-place write through a handed-out array raises `ValueError` when the flag is off, else changes the buffer —
      and with it every array object that reads that buffer.
-/
namespace Alias

inductive Key | img (c : Color) | ts
deriving DecidableEq, Repr

inductive Xf
  | crop (lo hi : Nat)   -- crop_by_distance: rows lo..hi
  | flip                 -- flip: rows reversed
  | down (k : Nat)       -- downsampled_by(position_factor = k)
deriving DecidableEq, Repr

structure Arr where
  buf : Nat
  idx : List Nat
  w : Bool
deriving DecidableEq, Repr

/-- static part of an object: the objects its factory closures close over (parent, its parent, …) and the transformation
    its factories apply (`none`: default factories) -/
structure Sk where
  ic : List Nat        -- image factory: closure chain …
  ix : Option Xf       -- … and transformation
  tc : List Nat        -- timestamp factory: closure chain …
  tx : Option Xf       -- … and transformation (`flip` replaces the image factory only)
deriving DecidableEq, Repr

def Sk.chain (o : Sk) : Key → List Nat
  | .ts => o.tc
  | .img _ => o.ic

def Sk.xf (o : Sk) : Key → Option Xf
  | .ts => o.tx
  | .img _ => o.ix

structure St where
  mem : List (List Int)
  objs : List Sk
  caches : List (List (Key × Arr))
  outs : List Arr          -- every array object handed out so far
deriving Repr

def content (mem : List (List Int)) (a : Arr) : List Int := a.idx.map fun p => (mem.getD a.buf []).getD p 0

/-! value level (also what a view does to the positions) -/

def cropL {α} (cols lo hi : Nat) (l : List α) : List α := (l.drop (lo * cols)).take ((hi - lo) * cols)

def flipL {α} (cols : Nat) : Nat → List α → List α
  | 0, l => l
  | fuel + 1, l => if cols = 0 ∨ l.length ≤ cols then l else flipL cols fuel (l.drop cols) ++ l.take cols

/-- `block_reduce(data, (k, 1), np.sum)[: rows // k, :]` -/
def downImg (cols k : Nat) (l : List Int) : List Int :=
  (List.range (l.length / cols / k)).flatMap fun r => (List.range cols).map fun c =>
    ((List.range k).map fun t => l.getD ((r * k + t) * cols + c) 0).sum

/-- `timestamp_mean(ts[: rows // k * k].reshape(-1, k, cols), axis=1)`: the smallest timestamp of the blocks plus the
    floored mean offset from it -/
def downTs (cols k : Nat) (l : List Int) : List Int :=
  let used := l.take (l.length / cols / k * k * cols)
  let m := minL used
  (List.range (l.length / cols / k)).flatMap fun r => (List.range cols).map fun c =>
    m + ((List.range k).map fun t => used.getD ((r * k + t) * cols + c) 0 - m).sum / (k : Int)

def downV (cols k : Nat) : Key → List Int → List Int
  | .img _, l => downImg cols k l
  | .ts, l => downTs cols k l

def stack3 : List Int → List Int → List Int → List Int
  | a :: as, b :: bs, c :: cs => a :: b :: c :: stack3 as bs cs
  | _, _, _ => []

def lookupA (c : List (Key × Arr)) (k : Key) : Option Arr := (c.find? (·.1 = k)).map (·.2)

/-- `cache[key] = array` -/
def storeA (st : St) (i : Nat) (k : Key) (a : Arr) : St :=
  { st with caches := st.caches.set i ((k, a) :: st.caches.getD i []) }

/-- what the factory of a derived object does with the array `p` the parent's memoised method returned -/
def applyXf (cols : Nat) (st : St) (k : Key) (p : Arr) : Xf → St × Arr
  | .crop lo hi => (st, { p with idx := cropL cols lo hi p.idx })
  | .flip => (st, { p with idx := flipL cols p.idx.length p.idx })
  | .down f =>
    ({ st with mem := st.mem ++ [downV cols f k (content st.mem p)] },
      ⟨st.mem.length, List.range (downV cols f k (content st.mem p)).length, true⟩)

/-- `obj[i]._image(c)` / `obj[i]._timestamps()` where `up` evaluates the same quantity of the parent -/
def getAt (cols : Nat) (src : Key → List Int) (up : St → St × Option Arr) (st : St) (i : Nat) (k : Key) :
    St × Option Arr :=
  match st.objs[i]? with
  | none => (st, none)
  | some o =>
    match lookupA (st.caches.getD i []) k with
    | some a => (st, some a)
    | none =>
      match o.xf k with
      | none =>
        let a : Arr := ⟨st.mem.length, List.range (src k).length, false⟩
        (storeA { st with mem := st.mem ++ [src k] } i k a, some a)
      | some x =>
        match up st with
        | (st1, none) => (st1, none)
        | (st1, some p) =>
          let r := applyXf cols st1 k p x
          (storeA r.1 i k { r.2 with w := false }, some { r.2 with w := false })

def getArr (cols : Nat) (src : Key → List Int) : List Nat → St → Nat → Key → St × Option Arr
  | [], st, i, k => getAt cols src (fun st => (st, none)) st i k
  | par :: rest, st, i, k => getAt cols src (fun st => getArr cols src rest st par k) st i k

def getTop (cols : Nat) (src : Key → List Int) (st : St) (i : Nat) (k : Key) : St × Option Arr :=
  match st.objs[i]? with
  | none => (st, none)
  | some o => getArr cols src (o.chain k) st i k

/-- the factories of the object `crop_by_distance / flip / downsampled_by` make from object `i`: closures over `i`; `flip`
    replaces the image factory only (the timestamp factory is the one `copy` carried over) -/
def viewSk (i : Nat) (o : Sk) : Xf → Sk
  | .flip => ⟨i :: o.ic, some .flip, o.tc, o.tx⟩
  | x => ⟨i :: o.ic, some x, i :: o.tc, some x⟩

inductive AOp
  | get (i : Nat) (k : Key)          -- get_image(colour) / timestamps
  | rgb (i : Nat)                    -- get_image("rgb")
  | write (h j : Nat) (v : Int)      -- in-place write through the h-th array handed out: flat element j := v
  | view (i : Nat) (x : Xf)          -- crop_by_distance / flip / downsampled_by
  | copy (i : Nat)                   -- copy.copy / calibrate_to_kbp
deriving DecidableEq, Repr

inductive AAns
  | arr (c : List Int) (w : Bool)
  | refused | written | made | dead | err
deriving DecidableEq, Repr

def hand (st : St) (a : Arr) : St × AAns := ({ st with outs := st.outs ++ [a] }, .arr (content st.mem a) a.w)

def stepA (cols : Nat) (src : Key → List Int) (st : St) : AOp → St × AAns
  | .get i k =>
    match getTop cols src st i k with
    | (st1, none) => (st1, .dead)
    | (st1, some a) => hand st1 a
  | .rgb i =>
    match getTop cols src st i (.img .red) with
    | (st1, none) => (st1, .dead)
    | (st1, some r) =>
      match getTop cols src st1 i (.img .green) with
      | (st2, none) => (st2, .dead)
      | (st2, some g) =>
        match getTop cols src st2 i (.img .blue) with
        | (st3, none) => (st3, .dead)
        | (st3, some b) =>
          if r.idx.length = g.idx.length ∧ g.idx.length = b.idx.length then
            let v := stack3 (content st3.mem r) (content st3.mem g) (content st3.mem b)
            hand { st3 with mem := st3.mem ++ [v] } ⟨st3.mem.length, List.range v.length, true⟩
          else (st3, .err)  -- np.stack: ValueError
  | .write h j v =>
    match st.outs[h]? with
    | none => (st, .dead)
    | some a =>
      if a.w then
        match a.idx[j]? with
        | none => (st, .written)
        | some p => ({ st with mem := st.mem.set a.buf ((st.mem.getD a.buf []).set p v) }, .written)
      else (st, .refused)
  | .view i x =>
    match st.objs[i]? with
    | none => (st, .dead)
    | some o => ({ st with objs := st.objs ++ [viewSk i o x], caches := st.caches ++ [[]] }, .made)
  | .copy i =>
    match st.objs[i]? with
    | none => (st, .dead)
    | some o => ({ st with objs := st.objs ++ [o], caches := st.caches ++ [[]] }, .made)

def runA (cols : Nat) (src : Key → List Int) : St → List AOp → St × List AAns
  | st, [] => (st, [])
  | st, op :: rest =>
    ((runA cols src (stepA cols src st op).1 rest).1, (stepA cols src st op).2 :: (runA cols src (stepA cols src st op).1 rest).2)

def initSt : St := ⟨[], [⟨[], none, [], none⟩], [[]], []⟩


/-! value semantics (the specification side; executable, answered by freshly built, never written-to twins on the code side):
    no memory, no tables — an object is the list of transformations that made it, every answer is recomputed from the
    source values -/

def applyV (cols : Nat) (k : Key) (x : Xf) (l : List Int) : List Int :=
  match x with
  | .crop lo hi => cropL cols lo hi l
  | .flip => flipL cols l.length l
  | .down f => downV cols f k l

/-- `path`: newest transformation first -/
def valOf (cols : Nat) (src : Key → List Int) (path : List Xf) (k : Key) : List Int :=
  path.foldr (applyV cols k) (src k)

structure Sp where
  ip : List (List Xf)     -- per object: what its images went through …
  tp : List (List Xf)     -- … and what its timestamps went through
  flags : List Bool       -- WRITEABLE flag of every array handed out so far
deriving Repr

def Sp.paths (sp : Sp) : Key → List (List Xf)
  | .ts => sp.tp
  | .img _ => sp.ip

def viewPath (p q : List Xf) : Xf → List Xf × List Xf
  | .flip => (.flip :: p, q)
  | x => (x :: p, x :: q)

def stepS (cols : Nat) (src : Key → List Int) (sp : Sp) : AOp → Sp × AAns
  | .get i k =>
    match (sp.paths k)[i]? with
    | none => (sp, .dead)
    | some p => ({ sp with flags := sp.flags ++ [false] }, .arr (valOf cols src p k) false)
  | .rgb i =>
    match sp.ip[i]? with
    | none => (sp, .dead)
    | some p =>
      if (valOf cols src p (.img .red)).length = (valOf cols src p (.img .green)).length
          ∧ (valOf cols src p (.img .green)).length = (valOf cols src p (.img .blue)).length then
        ({ sp with flags := sp.flags ++ [true] },
          .arr (stack3 (valOf cols src p (.img .red)) (valOf cols src p (.img .green)) (valOf cols src p (.img .blue))) true)
      else (sp, .err)
  | .write h _ _ =>
    match sp.flags[h]? with
    | none => (sp, .dead)
    | some true => (sp, .written)
    | some false => (sp, .refused)
  | .view i x =>
    match sp.ip[i]?, sp.tp[i]? with
    | some p, some q => ({ sp with ip := sp.ip ++ [(viewPath p q x).1], tp := sp.tp ++ [(viewPath p q x).2] }, .made)
    | _, _ => (sp, .dead)
  | .copy i =>
    match sp.ip[i]?, sp.tp[i]? with
    | some p, some q => ({ sp with ip := sp.ip ++ [p], tp := sp.tp ++ [q] }, .made)
    | _, _ => (sp, .dead)

def runS (cols : Nat) (src : Key → List Int) : Sp → List AOp → Sp × List AAns
  | sp, [] => (sp, [])
  | sp, op :: rest =>
    ((runS cols src (stepS cols src sp op).1 rest).1, (stepS cols src sp op).2 :: (runS cols src (stepS cols src sp op).1 rest).2)

def initSp : Sp := ⟨[[]], [[]], []⟩

/-! protocol: `c19.alias <cols> <red> <green> <blue> <ts> <op>*`;
    op = `g:<i>:<r|g|b|ts>` | `rgb:<i>` | `w:<h>:<j>:<v>` | `v:<i>:crop.<lo>.<hi>|flip|down.<k>` | `c:<i>` -/
open Verif.Proto

def showAAns : AAns → String
  | .arr c w => s!"arr({showBool w};{showIntList c})"
  | .refused => "refused" | .written => "written" | .made => "made" | .dead => "dead" | .err => "err"

def key? : String → Option Key
  | "r" => some (.img .red) | "g" => some (.img .green) | "b" => some (.img .blue) | "ts" => some .ts | _ => none

def xf? (s : String) : Option Xf :=
  match s.splitOn "." with
  | ["crop", a, b] => do
    let a ← nat? a
    let b ← nat? b
    pure (.crop a b)
  | ["flip"] => some .flip
  | ["down", k] => (nat? k).map .down
  | _ => none

def aop? (s : String) : Option AOp :=
  match s.splitOn ":" with
  | ["g", i, k] => do
    let i ← nat? i
    let k ← key? k
    pure (.get i k)
  | ["rgb", i] => (nat? i).map .rgb
  | ["w", h, j, v] => do
    let h ← nat? h
    let j ← nat? j
    let v ← int? v
    pure (.write h j v)
  | ["v", i, x] => do
    let i ← nat? i
    let x ← xf? x
    pure (.view i x)
  | ["c", i] => (nat? i).map .copy
  | _ => none

def handleAlias (spec : Bool) : List String → Option String
  | cols :: r :: g :: b :: ts :: ops => do
    let cols ← nat? cols
    let r ← intList? r
    let g ← intList? g
    let b ← intList? b
    let ts ← intList? ts
    let ops ← ops.mapM aop?
    let src : Key → List Int := fun k => match k with
      | .img .red => r | .img .green => g | .img .blue => b | .ts => ts
    pure ("|".intercalate ((if spec then (runS cols src initSp ops).2 else (runA cols src initSt ops).2).map showAAns))
  | _ => none

end Alias

def handle : List String → Option String
  | "c19.hist" :: args => do
    let (f, s, e, ops) ← parse? args
    pure ("|".intercalate ((run f s e ops).map (showAns f)))
  | "c19.fresh" :: args => do
    let (f, s, e, ops) ← parse? args
    pure ("|".intercalate ((freshAll f s e ops).map (showAns f)))
  | "c19.alias" :: args => Alias.handleAlias false args
  | "c19.aliasSpec" :: args => Alias.handleAlias true args
  | _ => none

end Verif.C19
