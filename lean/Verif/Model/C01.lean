/-
  C01 — time-window slicing of timeline channels.
  Executable model of `Slice.__getitem__`, `Continuous.slice`, `TimeSeries.slice`, `TimeTags.slice`,
  `_apply_mask` (lumicks/pylake/channel.py) and `Timeindex`/`to_timestamp`
  (lumicks/pylake/detail/timeindex.py).  Mirrors the algorithm of the code (index arithmetic with
  ceil division and Python slicing), not the specification.
-/
import Verif.Py
import Verif.Proto

namespace Verif.C01
open Verif.Py

/-- A sample: (timestamp in ns, value). Values are opaque ids in the correspondence. -/
abbrev Sample := Int × Int

/-- The specification predicate `a ≤ t < b`. -/
def inWin (a b : Int) (s : Sample) : Bool := decide (a ≤ s.1) && decide (s.1 < b)

/-! ### Continuous -/

structure Cont where
  start : Int
  dt : Int
  data : List Int
deriving Repr, DecidableEq

def samplesFrom (t0 dt : Int) : List Int → List Sample
  | [] => []
  | v :: vs => (t0, v) :: samplesFrom (t0 + dt) dt vs

def Cont.samples (c : Cont) : List Sample := samplesFrom c.start c.dt c.data
def Cont.stop (c : Cont) : Int := c.start + c.data.length * c.dt

/-- `to_index` of `Continuous.slice`: `(t - start + dt - 1) // dt`. -/
def toIndex (start dt t : Int) : Int := (t - start + dt - 1) / dt

/-- The start timestamp `Continuous.slice` assigns to the result (rounded up to the grid, clamped). -/
def alignedStart (c : Cont) (a : Int) : Int :=
  let fraction := (a - c.start) % c.dt
  max (if fraction = 0 then a else a + c.dt - fraction) c.start

/-- `Continuous.slice` as in the pinned snapshot (finding F1: the stop index is not clamped, so a
    window ending more than one period before the data wraps around through Python's negative
    indexing). -/
def Cont.sliceUnfixed (c : Cont) (a b : Int) : Cont :=
  let a' := alignedStart c a
  { start := a', dt := c.dt,
    data := pySlice c.data (toIndex c.start c.dt a') (toIndex c.start c.dt b) }

/-- `Continuous.slice` after the repair (`stop_idx = max(to_index(stop), 0)`). -/
def Cont.slice (c : Cont) (a b : Int) : Cont :=
  let a' := alignedStart c a
  { start := a', dt := c.dt,
    data := pySlice c.data (toIndex c.start c.dt a') (max (toIndex c.start c.dt b) 0) }

/-! ### TimeSeries / TimeTags -/

/-- `TimeSeries.slice`: boolean mask `start <= t < stop`. -/
def tsSlice (l : List Sample) (a b : Int) : List Sample := l.filter (inWin a b)

structure Tags where
  data : List Int
  start : Int
  stop : Int
deriving Repr, DecidableEq

def Tags.samples (t : Tags) : List Sample := t.data.map fun x => (x, x)

/-- `TimeTags.__init__(data, start=None, stop=None)`: a missing bound defaults to the first timestamp /
    one past the last one (0 for no data).  `0` is a legitimate explicit bound (`is not None`, not truthiness). -/
def Tags.init (data : List Int) (start stop : Option Int) : Tags :=
  { data := data,
    start := match start with | some s => s | none => (data.head?).getD 0,
    stop := match stop with | some s => s | none => ((data.getLast?).map (· + 1)).getD 0 }

/-- `TimeTags.slice`: `self.__class__(self.data[idx], min(start, stop), max(start, stop))`. -/
def Tags.slice (t : Tags) (a b : Int) : Tags :=
  Tags.init (t.data.filter (fun x => decide (a ≤ x) && decide (x < b))) (some (min a b)) (some (max a b))

/-! ### `Slice.__getitem__` -/

inductive Src where
  | cont (c : Cont)
  | ts (l : List Sample)
  | tags (t : Tags)
deriving Repr, DecidableEq

def Src.samples : Src → List Sample
  | .cont c => c.samples
  | .ts l => l
  | .tags t => t.samples

def Src.len : Src → Nat
  | .cont c => c.data.length
  | .ts l => l.length
  | .tags t => t.data.length

/-- `_src.start` (only used on non-empty sources; a time series' start is its first timestamp). -/
def Src.start : Src → Int
  | .cont c => c.start
  | .ts l => (l.head?.map (·.1)).getD 0
  | .tags t => t.start

/-- `_src.stop`. -/
def Src.stop : Src → Int
  | .cont c => c.stop
  | .ts l => (l.getLast?.map (·.1 + 1)).getD 0
  | .tags t => t.stop

def Src.slice : Src → Int → Int → Src
  | .cont c, a, b => .cont (c.slice a b)
  | .ts l, a, b => .ts (tsSlice l a b)
  | .tags t, a, b => .tags (t.slice a b)

/-- A bound of `s[a:b]`: `None`, an integer timestamp, or a total number of nanoseconds obtained from
    a time string (non-negative: relative to the begin, negative: relative to the end). -/
inductive Bound where
  | none
  | ts (t : Int)
  | rel (ns : Int)
deriving Repr, DecidableEq

/-- `to_timestamp`. -/
def resolve (first afterLast : Int) (dflt : Int) : Bound → Int
  | .none => dflt
  | .ts t => t
  | .rel ns => if ns ≥ 0 then first + ns else afterLast + ns

/-- `Slice.__getitem__` for slice-like items: an empty source returns itself. -/
def Src.getitem (s : Src) (a b : Bound) : Src :=
  if s.len = 0 then s
  else s.slice (resolve s.start s.stop s.start a) (resolve s.start s.stop s.stop b)

/-! ### Boolean mask -/

/-- `data[mask]`, `timestamps[mask]`; `none` when the lengths differ (the code raises `IndexError`). -/
def applyMask (l : List Sample) (m : List Bool) : Option (List Sample) :=
  if l.length = m.length then some ((l.zip m).filterMap fun (s, k) => if k then some s else none)
  else none

/-! ### Time strings (`Timeindex`) -/

def isSpace (c : Char) : Bool :=
  c = ' ' || c = '\t' || c = '\n' || c = '\r' || c = '\x0b' || c = '\x0c' ||
  c = '\x1c' || c = '\x1d' || c = '\x1e' || c = '\x1f'

def isDigit (c : Char) : Bool := '0' ≤ c && c ≤ '9'

def digitVal (c : Char) : Nat := c.toNat - '0'.toNat

/-- Unit table in the order the regular expression lists them, with the ns ratio. -/
def units : List (String × Nat) :=
  [("d", 86400000000000), ("h", 3600000000000), ("m", 60000000000), ("s", 1000000000),
   ("ms", 1000000), ("us", 1000), ("ns", 1)]

def unitIndex? (u : String) : Option Nat := units.findIdx? (·.1 == u)

/-- A decimal literal `digits* '.'? digits+` as (mantissa, number of decimals). -/
structure Dec where
  mant : Nat
  decimals : Nat
deriving Repr, DecidableEq

def digitsToNat (ds : List Char) : Nat := ds.foldl (fun acc c => acc * 10 + digitVal c) 0

/-- Lex one number at the head of the input: `\d*\.?\d+`. -/
def lexNumber (cs : List Char) : Option (Dec × List Char) :=
  let d1 := cs.takeWhile isDigit
  let r1 := cs.dropWhile isDigit
  match r1 with
  | '.' :: r2 =>
    let d2 := r2.takeWhile isDigit
    let r3 := r2.dropWhile isDigit
    if d2.isEmpty then none
    else some (⟨digitsToNat (d1 ++ d2), d2.length⟩, r3)
  | _ => if d1.isEmpty then none else some (⟨digitsToNat d1, 0⟩, r1)

/-- A token of the grammar: number, unit index. -/
structure Tok where
  num : Dec
  unit : Nat
deriving Repr, DecidableEq

/-- One parsed token plus what surrounds it. -/
structure Lexed where
  toks : List Tok
  /-- whitespace was skipped before the first token (or, with no token, anywhere) -/
  leadingSpace : Bool
  /-- whitespace follows the last token -/
  trailingSpace : Bool
deriving Repr, DecidableEq

def isUnitChar (c : Char) : Bool := !(isSpace c || isDigit c || c = '.')

/-- Tokenise `(\s* number \s* unit)* \s*`; fuel = input length. -/
def lexToks : Nat → List Char → Option (List Tok × Bool)
  | 0, cs => if cs.isEmpty then some ([], false) else none
  | fuel + 1, cs =>
    let rest := cs.dropWhile isSpace
    if rest.isEmpty then some ([], !cs.isEmpty)
    else match lexNumber rest with
      | none => none
      | some (n, r1) =>
        let r2 := r1.dropWhile isSpace
        let u := r2.takeWhile isUnitChar
        let r3 := r2.dropWhile isUnitChar
        match unitIndex? (String.ofList u) with
        | none => none
        | some ui =>
          match lexToks fuel r3 with
          | none => none
          | some (ts, trail) => some (⟨n, ui⟩ :: ts, trail)

def strictlyIncreasing : List Nat → Bool
  | [] => true
  | [_] => true
  | a :: b :: rest => a < b && strictlyIncreasing (b :: rest)

/-- Full match of the regular expression on `cs` (the sign already removed). -/
def matchBody (cs : List Char) : Option (List Tok) :=
  match lexToks (cs.length + 1) cs with
  | none => none
  | some (toks, trailing) =>
    let leading := match cs with | c :: _ => isSpace c | [] => false
    let unitsOk := strictlyIncreasing (toks.map (·.unit))
    -- no `\s*` precedes the `d` group and none follows the `ns` group
    let leadOk := match toks.head? with
      | some t => !(leading && t.unit = 0)
      | none => true
    let trailOk := match toks.getLast? with
      | some t => !(trailing && t.unit = 6)
      | none => true
    if unitsOk && leadOk && trailOk then some toks else none

/-- `int(value * ratio)` in exact arithmetic: truncation of `mant * ratio / 10^decimals`. -/
def tokNs (t : Tok) : Nat := (t.num.mant * ((units[t.unit]?).map (·.2)).getD 0) / 10 ^ t.num.decimals

/-- `(?P<sign>-?)`. -/
def splitSign : List Char → Bool × List Char
  | '-' :: r => (true, r)
  | cs => (false, cs)

def matchFull (cs : List Char) : Option Int :=
  match matchBody (splitSign cs).2 with
  | none => none
  | some toks =>
    let total : Nat := (toks.map tokNs).sum
    some (if (splitSign cs).1 then -(total : Int) else total)

/-- `Timeindex(s).total_ns`; `none` = `RuntimeError("Invalid time string")`.  `$` also matches just
    before one trailing newline. -/
def parseTime (s : String) : Option Int :=
  let cs := s.toList
  match matchFull cs with
  | some v => some v
  | none =>
    match cs.getLast? with
    | some '\n' => matchFull cs.dropLast
    | _ => none

/-! ### `Slice.__getitem__` with its argument handling -/

/-- The exceptions `Slice.__getitem__` can raise. -/
inductive Err where
  | indexError | typeError | runtimeError | notImplemented
deriving Repr, DecidableEq

/-- What `item.start` / `item.stop` can be: `None`, an integer timestamp, a string, anything else (a list, …). -/
inductive BoundArg where
  | none
  | int (t : Int)
  | str (s : String)
  | other
deriving Repr, DecidableEq

/-- The argument of `Slice.__getitem__`. -/
inductive Item where
  /-- `np.ndarray` of dtype bool -/
  | mask (m : List Bool)
  /-- a Python `slice`; `step` = "a step was given" -/
  | slice (a b : BoundArg) (step : Bool)
  /-- any other object with `start` and `stop` attributes (Marker, calibration item, …) -/
  | obj (a b : BoundArg)
  /-- anything without `start`/`stop` (a scalar, a list, …) -/
  | scalar
deriving Repr, DecidableEq

/-- `_apply_mask` of the three sources: `Continuous` and `TimeSeries` give a `TimeSeries`, `TimeTags` refuses. -/
def Src.applyMask : Src → List Bool → Except Err Src
  | .tags _, _ => .error .notImplemented
  | s, m =>
    match Verif.C01.applyMask s.samples m with
    | some r => .ok (.ts r)
    | none => .error .indexError

/-- `to_timestamp(v, first, after_last)` for one bound (after `None` was replaced by the default):
    a string is parsed (`RuntimeError` when invalid) and counted from the begin / end by sign; anything that is not
    a string is returned unchanged (`none` = "unchanged, and not a number"). -/
def toTimestamp (first afterLast dflt : Int) : BoundArg → Except Err (Option Int)
  | .none => .ok (some dflt)
  | .int t => .ok (some t)
  | .str s =>
    match parseTime s with
    | some ns => .ok (some (resolve first afterLast dflt (.rel ns)))
    | none => .error .runtimeError
  | .other => .ok none

/-- The window part of `Slice.__getitem__`, in the order of the code: empty source returns itself before any
    bound is looked at; both bounds go through `to_timestamp` (start first) and only then the number check. -/
def Src.window (s : Src) (a b : BoundArg) : Except Err Src :=
  if s.len = 0 then .ok s
  else
    match toTimestamp s.start s.stop s.start a with
    | .error e => .error e
    | .ok a' =>
      match toTimestamp s.start s.stop s.stop b with
      | .error e => .error e
      | .ok b' =>
        match a', b' with
        | some a'', some b'' => .ok (s.slice a'' b'')
        | _, _ => .error .typeError

/-- `Slice.__getitem__`. -/
def Src.getitemFull (s : Src) : Item → Except Err Src
  | .mask m => s.applyMask m
  | .slice a b step => if step then .error .indexError else s.window a b
  | .obj a b => s.window a b
  | .scalar => .error .indexError

/-! ### protocol -/
open Verif.Proto

def showSamples (l : List Sample) : String :=
  showList (fun (s : Sample) => toString s.1 ++ ":" ++ toString s.2) l

def bound? (s : String) : Option Bound :=
  if s == "N" then some .none
  else if s.startsWith "r" then ((s.drop 1).toString.toInt?).map .rel
  else (s.toInt?).map .ts

def showSrc : Src → String
  | .cont c => "cont " ++ toString c.start ++ " " ++ toString c.dt ++ " " ++ showSamples c.samples
  | .ts l => "ts " ++ showSamples l
  | .tags t => "tags " ++ toString t.start ++ " " ++ toString t.stop ++ " " ++ showIntList t.data

def mkSrc? : List String → Option (Src × List String)
  | "cont" :: st :: dt :: n :: rest => do
    let st ← int? st; let dt ← int? dt; let n ← nat? n
    if dt ≤ 0 then none
    else some (.cont ⟨st, dt, (List.range n).map Int.ofNat⟩, rest)
  | "contv" :: st :: dt :: vals :: rest => do
    let st ← int? st; let dt ← int? dt; let vals ← intList? vals
    if dt ≤ 0 then none
    else some (.cont ⟨st, dt, vals⟩, rest)
  | "ts" :: ts :: rest => do
    let ts ← intList? ts
    some (.ts (ts.zipIdx.map fun (t, i) => (t, (i : Int))), rest)
  | "tags" :: ts :: rest => do
    let ts ← intList? ts
    some (.tags (Tags.init ts none none), rest)
  | _ => none

def applyWindows (s : Src) : List String → Option Src
  | [] => some s
  | a :: b :: rest => do
    let a ← bound? a; let b ← bound? b
    applyWindows (s.getitem a b) rest
  | _ => none

def showErr : Err → String
  | .indexError => "IndexError"
  | .typeError => "TypeError"
  | .runtimeError => "RuntimeError"
  | .notImplemented => "NotImplementedError"

/-- `N` | integer | `s[codepoints]` | `?` -/
def boundArg? (s : String) : Option BoundArg :=
  if s == "N" then some .none
  else if s == "?" then some .other
  else if s.startsWith "s" then
    ((natList? (s.drop 1).toString).map fun cps => .str (String.ofList (cps.map Char.ofNat)))
  else (s.toInt?).map .int

/-- `M [T,F…]` | `S a b T/F` | `O a b` | `X`; returns the item and the remaining tokens -/
def item? : List String → Option (Item × List String)
  | "M" :: m :: rest => do let m ← listOf? bool? m; some (.mask m, rest)
  | "S" :: a :: b :: st :: rest => do
    let a ← boundArg? a; let b ← boundArg? b; let st ← bool? st
    some (.slice a b st, rest)
  | "O" :: a :: b :: rest => do let a ← boundArg? a; let b ← boundArg? b; some (.obj a b, rest)
  | "X" :: rest => some (.scalar, rest)
  | _ => none

def applyItems (s : Src) : Nat → List String → Option (Except Err Src)
  | _, [] => some (.ok s)
  | 0, _ => none
  | fuel + 1, toks => do
    let (it, rest) ← item? toks
    match s.getitemFull it with
    | .error e => some (.error e)
    | .ok r => applyItems r fuel rest

/-- number of samples, and for a non-empty source its `start` and `stop` -/
def showBounds (s : Src) : String :=
  if s.len = 0 then "0" else toString s.len ++ " " ++ toString s.start ++ " " ++ toString s.stop

/-- ops:
  `c01.get <src…> a b [c d …]`  nested windows, answers the resulting source
  `c01.bounds <src…> a b [c d …]` same, answers `len start stop` of the result (`0` when empty)
  `c01.item <src…> <item> [<item> …]`  the whole `Slice.__getitem__`, items applied in turn; answers the
                                  samples of the result or the name of the exception
  `c01.getu cont st dt n a b`    the unfixed (pinned) continuous arithmetic
  `c01.mask [t…] [T/F…]`
  `c01.parse [codepoints]`        -/
def handle : List String → Option String
  | "c01.get" :: rest => do
    let (s, ws) ← mkSrc? rest
    let r ← applyWindows s ws
    some (showSrc r)
  | "c01.bounds" :: rest => do
    let (s, ws) ← mkSrc? rest
    let r ← applyWindows s ws
    some (showBounds r)
  | "c01.item" :: rest => do
    let (s, its) ← mkSrc? rest
    match ← applyItems s its.length its with
    | .ok r => some (showSamples r.samples)
    | .error e => some (showErr e)
  | ["c01.getu", "cont", st, dt, n, a, b] => do
    let st ← int? st; let dt ← int? dt; let n ← nat? n; let a ← int? a; let b ← int? b
    if dt ≤ 0 then none
    else
      let c : Cont := ⟨st, dt, (List.range n).map Int.ofNat⟩
      some (showSrc (.cont (c.sliceUnfixed a b)))
  | ["c01.mask", ts, m] => do
    let ts ← intList? ts
    let m ← listOf? bool? m
    match applyMask (ts.zipIdx.map fun (t, i) => (t, (i : Int))) m with
    | some r => some (showSamples r)
    | none => some "IndexError"
  | ["c01.parse", cps] => do
    let cps ← natList? cps
    match parseTime (String.ofList (cps.map Char.ofNat)) with
    | some v => some (toString v)
    | none => some "RuntimeError"
  | _ => none

end Verif.C01
