/-
  Self-test ops for the Python/NumPy semantics prelude (`Verif/Py.lean`): every check runs these
  against CPython/NumPy before it trusts a model that uses the prelude.
-/
import Verif.Py
import Verif.Proto

namespace Verif.PySelf
open Verif.Py Verif.Proto

def handle : List String → Option String
  | ["py.floordiv", a, b] => do
    let a ← int? a; let b ← int? b
    if b = 0 then none else some (toString (floorDiv a b))
  | ["py.mod", a, b] => do
    let a ← int? a; let b ← int? b
    if b = 0 then none else some (toString (pyMod a b))
  | ["py.slice", l, i, j] => do
    let l ← intList? l; let i ← optInt? i; let j ← optInt? j
    some (showIntList (pySliceOpt l i j))
  | ["py.index", l, i] => do
    let l ← intList? l; let i ← int? i
    match pyIndex l i with
    | some x => some (toString x)
    | none => some "IndexError"
  | ["py.slicestep", l, a, b, c] => do
    let l ← intList? l; let a ← optInt? a; let b ← optInt? b; let c ← nat? c
    if c = 0 then none else some (showIntList (pySliceStep l a b c))
  | ["py.cumsum", l] => do
    let l ← intList? l
    some (showIntList (cumsum l))
  | ["py.searchsorted", side, l, v] => do
    let l ← intList? l; let v ← int? v
    if side == "left" then some (toString (searchsortedLeft l v))
    else if side == "right" then some (toString (searchsortedRight l v))
    else none
  | ["py.argmax", l] => do
    let l ← intList? l
    match argmaxFirst l with
    | some i => some (toString i)
    | none => some "ValueError"
  | _ => none

end Verif.PySelf
