/-
  C16 — hidden-Markov inference and dwell extraction.
  Executable model of `viterbi`, `forward_backward`, `calculate_temporary_variables`,
  `ClassicHmm.update` (lumicks/pylake/population/detail/hmm.py), the argument checks of
  `HiddenMarkovModel.__init__` (population/hmm.py) and `_dwellcounts_from_statepath`
  (population/dwelltime.py).  Mirrors the algorithms of the code: log-space max-product recursion
  with first-maximum back pointers, scaled alpha/beta recursions (`α̂` normalised, `β̂_t` divided by
  `c_{t+1}`), padded-mask differences for the dwells — not the specification.  The specification
  side (`score`, `allPaths`, `joint`, `rle`) is defined at the end, independently.
  Mathlib-free.
-/
import Verif.Py
import Verif.Proto

namespace Verif.C16
open Verif.Py

/-- `n` values `f 0 … f (n-1)` (a NumPy vector written index by index). -/
def tab {α} (n : Nat) (f : Nat → α) : List α := (List.range n).map f

/-! ## Viterbi: scores in log space, `ninf` = `log 0 = -inf` -/

inductive Score where
  | ninf
  | fin (q : Rat)
deriving Repr, DecidableEq

namespace Score
/-- IEEE addition restricted to `{-inf} ∪ finite`: `-inf` absorbs. -/
def add : Score → Score → Score
  | fin a, fin b => fin (a + b)
  | _, _ => ninf
instance : Add Score := ⟨add⟩
def le : Score → Score → Prop
  | ninf, _ => True
  | fin _, ninf => False
  | fin a, fin b => a ≤ b
instance : LE Score := ⟨le⟩
instance : DecidableRel (fun a b : Score => a ≤ b) := fun a b => by
  cases a <;> cases b <;> simp only [LE.le, le] <;> infer_instance
end Score

def atS (l : List Score) (i : Nat) : Score := l.getD i .ninf
def atN (l : List Nat) (i : Nat) : Nat := l.getD i 0

/-- `np.argmax` over the indices `0..n` (inclusive): first maximum. -/
def argmaxUpTo (f : Nat → Score) : Nat → Nat
  | 0 => 0
  | n + 1 => let b := argmaxUpTo f n; if f (n + 1) ≤ f b then b else n + 1

/-- `psi[t][j] = np.argmax(delta + log_A, axis=0)[j]`; states are `0..k`. -/
def psiOf (k : Nat) (logA : Nat → Nat → Score) (delta : Nat → Score) (j : Nat) : Nat :=
  argmaxUpTo (fun i => delta i + logA i j) k

/-- `np.max(R, axis=0)[j] + B[t][j]` (the maximum is the entry at the arg max). -/
def stepDelta (k : Nat) (logA : Nat → Nat → Score) (delta : Nat → Score) (b : Nat → Score)
    (j : Nat) : Score :=
  delta (psiOf k logA delta j) + logA (psiOf k logA delta j) j + b j

/-- The recursion `for t in range(1, T)`: final `delta` and the back-pointer rows, latest first. -/
def vforward (k : Nat) (logA : Nat → Nat → Score) :
    List Score → List (List Score) → List (List Nat) → List Score × List (List Nat)
  | delta, [], psis => (delta, psis)
  | delta, b :: bs, psis =>
    vforward k logA (tab (k + 1) (stepDelta k logA (atS delta) (atS b))) bs
      (tab (k + 1) (psiOf k logA (atS delta)) :: psis)

/-- Path backtracking: follow the back pointers (latest first); the path comes out latest first. -/
def backtrackR : List (List Nat) → Nat → List Nat
  | [], j => [j]
  | psi :: rest, j => j :: backtrackR rest (atN psi j)

/-- `viterbi(data, model)` given `log π`, `log A` and the log emissions `B` (`T` rows). -/
def viterbi (k : Nat) (logPi : List Score) (logA : List (List Score)) : List (List Score) → List Nat
  | [] => []
  | b0 :: bs =>
    let r := vforward k (fun i j => atS (logA.getD i []) j)
      (tab (k + 1) (fun j => atS logPi j + atS b0 j)) bs []
    (backtrackR r.2 (argmaxUpTo (atS r.1) k)).reverse

/-! ## Forward–backward over exact rationals -/

abbrev Vec := List Rat

def atR (v : Vec) (i : Nat) : Rat := v.getD i 0
/-- `np.sum` over the `K` states. -/
def sumK (K : Nat) (f : Nat → Rat) : Rat := ((List.range K).map f).sum
def prodL : List Rat → Rat
  | [] => 1
  | x :: xs => x * prodL xs

/-- One time point of the forward pass: scaled `α̂_t`, scaling factor `c_t`, emission row `B[t]`. -/
structure Step where
  alpha : Vec
  c : Rat
  b : Vec
deriving Repr, DecidableEq

/-- `a = …; c = np.sum(a); a / c`. -/
def normStep (K : Nat) (a : Vec) (b : Vec) : Step :=
  let c := sumK K (atR a)
  ⟨tab K (fun j => atR a j / c), c, b⟩

/-- `alpha[0] = model.pi * B[0]`, scaled. -/
def initStep (K : Nat) (pi : Nat → Rat) (b0 : Vec) : Step :=
  normStep K (tab K (fun j => pi j * atR b0 j)) b0

/-- `alpha[t] = np.sum(col(alpha[t-1]) * A, axis=0) * B[t]`, scaled. -/
def fwdStep (K : Nat) (A : Nat → Nat → Rat) (prev : Vec) (b : Vec) : Step :=
  normStep K (tab K (fun j => sumK K (fun i => atR prev i * A i j) * atR b j)) b

def fwdFrom (K : Nat) (A : Nat → Nat → Rat) (prev : Vec) : List Vec → List Step
  | [] => []
  | b :: bs => fwdStep K A prev b :: fwdFrom K A (fwdStep K A prev b).alpha bs

/-- `beta[t] = np.sum(A * row(B[t+1]) * row(beta[t+1]), axis=1) / c[t+1]` (`s'` is time `t+1`). -/
def backStep (K : Nat) (A : Nat → Nat → Rat) (s' : Step) (nb : Vec) : Vec :=
  tab K (fun i => sumK K (fun j => A i j * atR s'.b j * atR nb j) / s'.c)

/-- `gamma[t] = alpha[t] * beta[t]`. -/
def had (K : Nat) (a b : Vec) : Vec := tab K (fun i => atR a i * atR b i)

/-- `xi[t][i][j] = alpha[t][i] * A[i][j] * B[t+1][j] * beta[t+1][j] / c[t+1]`. -/
def xiOf (K : Nat) (A : Nat → Nat → Rat) (al : Vec) (s' : Step) (nb : Vec) : List Vec :=
  tab K (fun i => tab K (fun j => atR al i * A i j * atR s'.b j * atR nb j / s'.c))

/-- Backward loop fused with `calculate_temporary_variables`, for the suffix `s :: rest` of the
    forward steps: `(β̂_t, [γ_t, γ_{t+1}, …], [ξ_t, ξ_{t+1}, …])`. -/
def smooth (K : Nat) (A : Nat → Nat → Rat) : Step → List Step → Vec × List Vec × List (List Vec)
  | s, [] => (tab K (fun _ => 1), [had K s.alpha (tab K (fun _ => 1))], [])
  | s, s' :: rest =>
    let r := smooth K A s' rest
    let β := backStep K A s' r.1
    (β, had K s.alpha β :: r.2.1, xiOf K A s.alpha s' r.1 :: r.2.2)

structure FB where
  steps : List Step
  gammas : List Vec
  xis : List (List Vec)
deriving Repr

/-- `forward_backward` + `calculate_temporary_variables`; `none` for an empty trace (`IndexError`). -/
def forwardBackward (K : Nat) (pi : Nat → Rat) (A : Nat → Nat → Rat) : List Vec → Option FB
  | [] => none
  | b0 :: bs =>
    let s0 := initStep K pi b0
    let rest := fwdFrom K A s0.alpha bs
    let r := smooth K A s0 rest
    some ⟨s0 :: rest, r.2.1, r.2.2⟩

/-- The likelihood the code reports (as `Σ log c_t`). -/
def FB.likelihood (r : FB) : Rat := prodL (r.steps.map (·.c))

/-- Sum over time of a time-indexed list. -/
def sumT {α} (l : List α) (f : α → Rat) : Rat := (l.map f).sum

/-- `ClassicHmm.update`: `pi = gamma[0]`. -/
def updPi (gammas : List Vec) : Vec := gammas.headD []
/-- `A = xi.sum(axis=0) / col(gamma[:-1].sum(axis=0))`. -/
def updA (K : Nat) (gammas : List Vec) (xis : List (List Vec)) : List Vec :=
  tab K (fun i => tab K (fun j =>
    sumT xis (fun x => atR (x.getD i []) j) / sumT gammas.dropLast (fun g => atR g i)))
/-- `x_bar = np.sum(gamma * col(data), axis=0) / gamma.sum(axis=0)`. -/
def updMean (K : Nat) (gammas : List Vec) (data : List Rat) : Vec :=
  tab K (fun i => sumT (gammas.zip data) (fun p => atR p.1 i * p.2) / sumT gammas (fun g => atR g i))
/-- `variance = np.sum(gamma * (col(data) - row(x_bar)) ** 2, axis=0) / gamma.sum(axis=0)`. -/
def updVar (K : Nat) (gammas : List Vec) (data : List Rat) : Vec :=
  let m := updMean K gammas data
  tab K (fun i => sumT (gammas.zip data) (fun p => atR p.1 i * ((p.2 - atR m i) * (p.2 - atR m i)))
    / sumT gammas (fun g => atR g i))

/-- The parameters are probability weights and the emission densities positive (what a
    Gaussian-emission model hands to `forward_backward`): `π ≥ 0` with a positive total, `A ≥ 0` with a
    positive total in every row, every `B[t][j] > 0`.  (Totals need not be exactly one: the doubles
    the code holds are normalised only up to rounding.) -/
def posModel (K : Nat) (pi : Nat → Rat) (A : Nat → Nat → Rat) (B : List Vec) : Bool :=
  (List.range K).all (fun i => decide (0 ≤ pi i)) && decide (0 < sumK K pi) &&
  (List.range K).all (fun i => (List.range K).all (fun j => decide (0 ≤ A i j)) && decide (0 < sumK K (A i))) &&
  B.all (fun b => (List.range K).all (fun j => decide (0 < atR b j)))

/-- `gamma[:-1].sum(axis=0)[i]`: the occupancy of state `i` before the last time point (the
    denominator of row `i` of the updated transition matrix). -/
def occupancy (gammas : List Vec) (i : Nat) : Rat := sumT gammas.dropLast (fun g => atR g i)

/-! ## `HiddenMarkovModel.__init__` argument checks -/

inductive Guess where
  | none
  | gmm (n : Nat)
  | hmm (n : Nat)
  | other
deriving Repr, DecidableEq

/-- `none` = accepted; otherwise the documented error. -/
def initCheck (nStates : Nat) : Guess → Option String
  | .none => Option.none
  | .gmm n => if n ≠ nStates then some "ValueError" else Option.none
  | .hmm n => if n ≠ nStates then some "ValueError" else Option.none
  | .other => some "TypeError"

/-! ## Dwell extraction -/

/-- `np.hstack((nan, statepath, nan))`; `none` = `nan` (equal to nothing). -/
def padded (path : List Int) : List (Option Int) := none :: (path.map some ++ [none])

/-- `np.array(padded == state).astype(int)`. -/
def maskOf (s : Int) (p : List (Option Int)) : List Int := p.map (fun x => if x = some s then 1 else 0)

/-- `np.diff`. -/
def diff : List Int → List Int
  | a :: b :: r => (b - a) :: diff (b :: r)
  | _ => []

/-- `np.argwhere(l != 0).squeeze()`, indices counted from `i`. -/
def argwhereFrom (i : Nat) : List Int → List Nat
  | [] => []
  | x :: xs => if x ≠ 0 then i :: argwhereFrom (i + 1) xs else argwhereFrom (i + 1) xs

/-- `idx.reshape((-1, 2))`; `none` = `ValueError` for an odd number of entries. -/
def pairUp : List Nat → Option (List (Nat × Nat))
  | [] => some []
  | a :: b :: r => (pairUp r).map ((a, b) :: ·)
  | [_] => none

/-- The `[start, stop)` index pairs of the dwells of `state`, as `_dwellcounts_from_statepath`
    computes them; `none` = the code raises (`idx[0, 0]` of an empty array, odd reshape). -/
def dwellRanges (path : List Int) (exclude : Bool) (s : Int) : Option (List (Nat × Nat)) :=
  match pairUp (argwhereFrom 0 (diff (maskOf s (padded path)))) with
  | none => none
  | some idx =>
    if exclude then
      match idx.head?, idx.getLast? with
      | some first, some last =>
        let start : Int := if first.1 = 0 then 1 else 0
        let stop : Option Int := if last.2 = path.length then some (-1) else none
        some (pySliceOpt idx (some start) stop)
      | _, _ => none
    else some idx

/-- sorted insertion without duplicates (`np.unique`). -/
def insertU (x : Int) : List Int → List Int
  | [] => [x]
  | y :: ys => if x < y then x :: y :: ys else if x = y then y :: ys else y :: insertU x ys
def uniq (l : List Int) : List Int := l.foldr insertU []

/-- `state_ranges` as a sorted association list. -/
def dwells (path : List Int) (exclude : Bool) : Option (List (Int × List (Nat × Nat))) :=
  (uniq path).mapM (fun s => (dwellRanges path exclude s).map (fun r => (s, r)))

/-- `dwell_counts[key] = np.diff(idx, axis=1)`. -/
def dwellCounts (r : List (Nat × Nat)) : List Int := r.map (fun p => (p.2 : Int) - p.1)

/-! ## Specification side (independent of the algorithms above) -/

/-- Joint log-score of a state path; observations and path both latest first. -/
def scoreR (logPi : Nat → Score) (logA : Nat → Nat → Score) :
    List (Nat → Score) → List Nat → Option Score
  | [b0], [s0] => some (logPi s0 + b0 s0)
  | b :: bs, s :: s' :: ss =>
    match scoreR logPi logA bs (s' :: ss) with
    | some v => some (v + logA s' s + b s)
    | none => none
  | _, _ => none

/-- `log π(s₀) + B₀(s₀) + Σ_t (log A(s_{t-1}, s_t) + B_t(s_t))`; `none` if the lengths differ. -/
def score (logPi : List Score) (logA : List (List Score)) (B : List (List Score)) (p : List Nat) :
    Option Score :=
  scoreR (atS logPi) (fun i j => atS (logA.getD i []) j) (B.map atS).reverse p.reverse

/-- All `K^n` state paths of length `n`. -/
def allPaths (K : Nat) : Nat → List (List Nat)
  | 0 => [[]]
  | n + 1 => (List.range K).flatMap (fun j => (allPaths K n).map (j :: ·))

/-- `Π A(s_{t-1}, s_t) B_t(s_t)` along a continuation starting from state `i`. -/
def wFrom (A : Nat → Nat → Rat) (i : Nat) : List Vec → List Nat → Rat
  | b :: bs, j :: q => A i j * atR b j * wFrom A j bs q
  | [], [] => 1
  | _, _ => 0

/-- Joint probability `P(path, observations)`. -/
def joint (pi : Nat → Rat) (A : Nat → Nat → Rat) : List Vec → List Nat → Rat
  | b0 :: bs, s0 :: q => pi s0 * atR b0 s0 * wFrom A s0 bs q
  | _, _ => 0

/-- The exact likelihood: sum over all paths. -/
def likelihoodSpec (K : Nat) (pi : Nat → Rat) (A : Nat → Nat → Rat) (B : List Vec) : Rat :=
  ((allPaths K B.length).map (joint pi A B)).sum

/-- `Σ P(path, y)` over the paths with `s_t = i` (the un-normalised state posterior). -/
def pinnedSpec (K : Nat) (pi : Nat → Rat) (A : Nat → Nat → Rat) (B : List Vec) (t i : Nat) : Rat :=
  (((allPaths K B.length).filter (fun p => p[t]? = some i)).map (joint pi A B)).sum

/-- `Σ P(path, y)` over the paths with `s_t = i` and `s_{t+1} = j` (the un-normalised transition posterior). -/
def pinned2Spec (K : Nat) (pi : Nat → Rat) (A : Nat → Nat → Rat) (B : List Vec) (t i j : Nat) : Rat :=
  (((allPaths K B.length).filter (fun p => p[t]? = some i ∧ p[t + 1]? = some j)).map (joint pi A B)).sum

/-- A maximal constant run: `state` on `[start, stop)`. -/
structure Run where
  state : Int
  start : Nat
  stop : Nat
deriving Repr, DecidableEq

/-- Run-length encoding with positions, counted from `i`. -/
def rleFrom : Nat → List Int → List Run
  | _, [] => []
  | i, x :: xs =>
    match rleFrom (i + 1) xs with
    | [] => [⟨x, i, i + 1⟩]
    | r :: rs => if r.state = x then ⟨x, i, r.stop⟩ :: rs else ⟨x, i, i + 1⟩ :: r :: rs

def rle (path : List Int) : List Run := rleFrom 0 path

def Run.range (r : Run) : Nat × Nat := (r.start, r.stop)
/-- the number of samples of a run -/
def Run.len (r : Run) : Int := (r.stop : Int) - r.start

/-- The runs are non-empty and contiguous from index `i` to index `n`: pairwise disjoint, tiling `[i, n)`. -/
def Contig : Nat → Nat → List Run → Prop
  | i, n, [] => i = n
  | i, n, r :: rs => r.start = i ∧ r.start < r.stop ∧ Contig r.stop n rs

/-- Neighbouring runs carry different states (so every run is maximal). -/
def AdjDiff : List Run → Prop
  | r :: r' :: rs => r.state ≠ r'.state ∧ AdjDiff (r' :: rs)
  | _ => True

/-- Writing every run out again. -/
def expand (rs : List Run) : List Int := rs.flatMap (fun r => List.replicate (r.stop - r.start) r.state)

/-- The number of samples covered by all returned dwells together (`Σ_state Σ dwell_counts[state]`). -/
def totalCounts (d : List (Int × List (Nat × Nat))) : Int := (d.map (fun e => (dwellCounts e.2).sum)).sum

/-- `Σ_j ξ(i, j)` for every `i`. -/
def rowSums (K : Nat) (x : List Vec) : Vec := tab K (fun i => sumK K (atR (x.getD i [])))

/-! ## protocol -/
open Verif.Proto

def score? (s : String) : Option Score :=
  if s == "N" then some .ninf else (rat? s).map .fin

def showScore : Score → String
  | .ninf => "N"
  | .fin q => showRat q

/-- Display rounding of a rational with a huge numerator/denominator: keeps ≥ 160 significant bits
    (relative error < 2⁻¹⁵⁰).  Only applied when printing; the theorems are about the exact values. -/
def shrinkRat (q : Rat) : Rat :=
  if q.num.natAbs.log2 < 400 && q.den.log2 < 400 then q
  else
    let k : Int := 160 + (q.den.log2 : Int) - (q.num.natAbs.log2 : Int)
    if k ≥ 0 then mkRat ((q.num * (2 : Int) ^ k.toNat) / (q.den : Int)) (2 ^ k.toNat)
    else ((q.num / ((q.den : Int) * (2 : Int) ^ (-k).toNat)) * (2 : Int) ^ (-k).toNat : Int)

def showR (q : Rat) : String := showRat (shrinkRat q)

def fnOfRows (A : List Vec) : Nat → Nat → Rat := fun i j => atR (A.getD i []) j

def absR (q : Rat) : Rat := if q < 0 then -q else q

/-- `Σ |terms|` of a path's score (the conditioning-aware scale of DESIGN §2.2). -/
def scaleOf (logPi : List Score) (logA : List (List Score)) (B : List (List Score)) (p : List Nat) : Rat :=
  let f : Score → Rat := fun s => match s with | .ninf => 0 | .fin q => absR q
  let trans := (p.zip p.tail).map (fun ij => f (atS (logA.getD ij.1 []) ij.2))
  let emis := (B.zip p).map (fun bj => f (atS bj.1 bj.2))
  f (atS logPi (p.headD 0)) + trans.sum + emis.sum

def showOptScore : Option Score → String
  | none => "bad"
  | some s => showScore s

def showDwells (d : List (Int × List (Nat × Nat))) : String :=
  showList (fun (e : Int × List (Nat × Nat)) =>
    toString e.1 ++ "=" ++ "|".intercalate (e.2.map fun p => toString p.1 ++ ":" ++ toString p.2)) d

def showCounts (d : List (Int × List (Nat × Nat))) : String :=
  showList (fun (e : Int × List (Nat × Nat)) =>
    toString e.1 ++ "=" ++ "|".intercalate ((dwellCounts e.2).map toString)) d

/-- a state label; `nan` is not a label -/
def label? (s : String) : Option (Option Int) :=
  if s == "nan" then some none else (int? s).map some

/-- `assert np.all(np.isfinite(statepath))`, then the extraction. -/
def dwellsChecked (path : List (Option Int)) (exclude : Bool) :
    Except String (List (Int × List (Nat × Nat))) :=
  match path.mapM id with
  | none => .error "Error:AssertionError"
  | some p =>
    match dwells p exclude with
    | some d => .ok d
    | none => .error "IndexError"

def guess? : List String → Option Guess
  | ["none"] => some .none
  | ["gmm", n] => (nat? n).map .gmm
  | ["hmm", n] => (nat? n).map .hmm
  | ["other"] => some .other
  | _ => none

/-- The two sides of `em_monotone_tables`: the exact likelihood (sum over all paths) of the model
    and of the model with `π`, `A` replaced by what `ClassicHmm.update` computes from the
    forward–backward run, emission table kept. -/
def emTables (K : Nat) (pi : Nat → Rat) (A : Nat → Nat → Rat) (B : List Vec) : Option (Rat × Rat) :=
  (forwardBackward K pi A B).map fun r =>
    (likelihoodSpec K pi A B,
      likelihoodSpec K (atR (updPi r.gammas)) (fnOfRows (updA K r.gammas r.xis)) B)

/-- `Σπ ≤ 1` and every row of `A` sums to at most one (exactly normalised models, and doubles
    whose rounding went down). -/
def subStochastic (K : Nat) (pi : Nat → Rat) (A : Nat → Nat → Rat) : Bool :=
  decide (sumK K pi ≤ 1) && (List.range K).all (fun i => decide (sumK K (A i) ≤ 1))

/-- ops:
  `c16.emtab K pi A B`              → `L L' (L ≤ L') hypotheses` (`em_monotone_tables`: small traces only, all paths summed)
  `c16.vit K logpi logA logB path`  → `modelpath optimum score(path) scale` (`N` = −∞, `bad` = wrong shape)
  `c16.fb K pi A B data`            → `c gammas xis pi' A' mean' var'` or `degenerate` (some `c_t = 0`)
  `c16.dwell path T|F`              → state ranges;  `c16.dwellc path T|F` → dwell counts;  `c16.dwelltot path T|F` → samples covered by all dwells
  `c16.init n kind [m]`             → `ok` or the documented error  -/
def handle : List String → Option String
  | ["c16.vit", K, lp, la, lb, path] => do
    let K ← nat? K
    let lp ← listOf? score? lp
    let la ← listListOf? score? la
    let lb ← listListOf? score? lb
    let path ← natList? path
    if K = 0 ∨ lp.length ≠ K ∨ la.length ≠ K ∨ la.any (·.length ≠ K) ∨ lb.any (·.length ≠ K) then none
    else if lb.isEmpty then some "IndexError"
    else
      let mp := viterbi (K - 1) lp la lb
      let valid := path.length = lb.length ∧ path.all (· < K)
      some (showNatList mp ++ " " ++ showOptScore (score lp la lb mp) ++ " "
        ++ (if valid then showOptScore (score lp la lb path) else "bad") ++ " "
        ++ showRat (scaleOf lp la lb mp))
  | ["c16.fb", K, pi, A, B, data] => do
    let K ← nat? K
    let pi ← ratList? pi
    let A ← ratListList? A
    let B ← ratListList? B
    let data ← ratList? data
    if K = 0 ∨ pi.length ≠ K ∨ A.length ≠ K ∨ A.any (·.length ≠ K) ∨ B.any (·.length ≠ K)
        ∨ data.length ≠ B.length then none
    else match forwardBackward K (atR pi) (fnOfRows A) B with
      | none => some "IndexError"
      | some r =>
        if r.steps.any (·.c = 0) then some "degenerate"
        else
          some (showList showR (r.steps.map (·.c)) ++ " " ++ showListList showR r.gammas ++ " "
            ++ showListList showR (r.xis.map List.flatten) ++ " " ++ showList showR (updPi r.gammas) ++ " "
            ++ showListList showR (updA K r.gammas r.xis) ++ " " ++ showList showR (updMean K r.gammas data)
            ++ " " ++ showList showR (updVar K r.gammas data)
            -- the hypotheses / conclusions of `scaling_positive`, `posteriors_nonneg`, `occupancy_positive`
            ++ " " ++ showBool (posModel K (atR pi) (fnOfRows A) B)
            ++ " " ++ showBool (r.steps.all (fun s => decide (0 < s.c)))
            ++ " " ++ showBool (r.gammas.all (fun g => (List.range K).all (fun i => decide (0 ≤ atR g i)))
                && r.xis.all (fun x => (List.range K).all (fun i => (List.range K).all (fun j =>
                  decide (0 ≤ atR (x.getD i []) j)))))
            ++ " " ++ showBool ((List.range K).all (fun i => decide (atR pi i ≤ 0) || decide (0 < occupancy r.gammas i))))
  | ["c16.emtab", K, pi, A, B] => do
    let K ← nat? K
    let pi ← ratList? pi
    let A ← ratListList? A
    let B ← ratListList? B
    if K = 0 ∨ pi.length ≠ K ∨ A.length ≠ K ∨ A.any (·.length ≠ K) ∨ B.any (·.length ≠ K) then none
    else match emTables K (atR pi) (fnOfRows A) B with
      | none => some "IndexError"
      | some (l0, l1) =>
        some (showR l0 ++ " " ++ showR l1 ++ " " ++ showBool (decide (l0 ≤ l1)) ++ " "
          ++ showBool (posModel K (atR pi) (fnOfRows A) B && subStochastic K (atR pi) (fnOfRows A)))
  | ["c16.dwell", path, ex] => do
    let path ← listOf? label? path
    let ex ← bool? ex
    match dwellsChecked path ex with
    | .ok d => some (showDwells d)
    | .error e => some e
  | ["c16.dwellc", path, ex] => do
    let path ← listOf? label? path
    let ex ← bool? ex
    match dwellsChecked path ex with
    | .ok d => some (showCounts d)
    | .error e => some e
  | ["c16.dwelltot", path, ex] => do
    let path ← listOf? label? path
    let ex ← bool? ex
    match dwellsChecked path ex with
    | .ok d => some (toString (totalCounts d))
    | .error e => some e
  | "c16.init" :: n :: g => do
    let n ← nat? n
    let g ← guess? g
    match initCheck n g with
    | none => some "ok"
    | some e => some e
  | _ => none

end Verif.C16
