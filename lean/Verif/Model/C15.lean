/-
  C15 — dwell-time likelihoods (lumicks/pylake/population/dwelltime.py) and the dwell-time data a
  track group hands to the model (lumicks/pylake/kymotracker/kymotrack.py).

  Executable model that mirrors the ALGORITHM of the code:
  * `_exponential_mixture_log_likelihood_components` / `_exponential_mixture_log_likelihood`
    (log domain, `scipy.special.logsumexp` with its max shift, continuous and discretised variant,
    per-observation limits, `t_max = inf` as `none`);
  * `DwelltimeModel.pdf` (rows of `np.unique(limits, axis=0, return_counts=True)`, every sub-density weighted by
    its share of the dwell times and masked to its OWN window, summed over the classes);
  * `_exponential_mixture_log_likelihood_jacobian` (the code's collapsed chain-rule expressions,
    amplitude clip, the `valid` mask of the `t_max·exp(−t_max/τ)` term);
  * `_handle_amplitude_constraint`, `_exponential_mle_bounds` (exact rationals / doubles);
  * `KymoTrackGroup._tracks_by_kymo` + `_extract_dwelltime_data_from_groups` +
    `KymoTrack._check_ends_are_defined` (exact rationals).
  Formulas are generic over `RealLike α`: executed at `Float` by the driver, reasoned about at `ℝ`.
-/
import Verif.Py
import Verif.Proto
import Verif.Num

namespace Verif.C15
open Verif

/-! ## Likelihood formulas (generic over `RealLike`) -/

section formulas
variable {α : Type} [RealLike α]

/-- `np.sum` over a list (`0.0` for the empty list). -/
def sumL : List α → α
  | [] => 0.0
  | x :: xs => x + sumL xs

/-- running maximum (`np.max`); `0.0` for the empty list -/
def maxL : List α → α
  | [] => 0.0
  | x :: xs => match xs with
    | [] => x
    | _ => let m := maxL xs; if RealLike.lt m x then x else m

/-- `scipy.special.logsumexp` shifted by `m`: `m + log Σ exp (x − m)` -/
def lseShift (m : α) (l : List α) : α :=
  m + RealLike.log (sumL (l.map fun x => RealLike.exp (x - m)))

/-- `scipy.special.logsumexp(l)` (shift by the maximum, as SciPy does) -/
def lse (l : List α) : α := lseShift (maxL l) l

/-- one mixture component: fractional amplitude and lifetime -/
structure Comp (α : Type) where
  amp : α
  tau : α

/-- one observation with its own limits (`tmax = none` is `np.inf`; `step = none` selects the
    continuous model, `some Δ` the discretised one) -/
structure Obs (α : Type) where
  t : α
  tmin : α
  tmax : Option α
  step : Option α

/-- `np.exp(-t_max / lifetimes)`, which is `0` for `t_max = inf` -/
def expNegMax (tmax : Option α) (tau : α) : α :=
  match tmax with
  | none => 0.0
  | some m => RealLike.exp ((-m) / tau)

/-- `np.log1p(-np.exp(-w / lifetimes))` for a window of width `w`; `w = inf` (`none`) gives `log1p(-0) = 0`
    (`log1p(-x)` is written `log(1 − x)`: the same real function) -/
def logWindow (width : Option α) (tau : α) : α :=
  match width with
  | none => 0.0
  | some w => RealLike.log (1.0 - RealLike.exp ((-w) / tau))

/-- continuous model: one summand of the log normalisation, in the factored form the code uses since the repair of
    F13: `log a + (−tmin/τ + log1p(−e^{−(tmax − tmin)/τ}))` — the window probability `e^{−tmin/τ} − e^{−tmax/τ}` with
    `e^{−tmin/τ}` pulled out of the logarithm, so that it cannot underflow to `log 0` -/
def normTermCont (tmin : α) (tmax : Option α) (c : Comp α) : α :=
  RealLike.log c.amp + ((-tmin) / c.tau + logWindow (tmax.map fun m => m - tmin) c.tau)

/-- `1 − exp(−Δ/τ)` -/
def discFactor (step tau : α) : α := 1.0 - RealLike.exp ((-step) / tau)

/-- discretised model: one summand of the log normalisation,
    `log a + log τ + (−(tmin − Δ)/τ + log1p(−e^{−(tmax − tmin + Δ)/τ})) + log(1 − e^{−Δ/τ})` -/
def normTermDisc (tmin : α) (tmax : Option α) (step : α) (c : Comp α) : α :=
  RealLike.log c.amp + RealLike.log c.tau
    + ((-(tmin - step)) / c.tau + logWindow (tmax.map fun m => m - tmin + step) c.tau)
    + RealLike.log (discFactor step c.tau)

/-- `_exponential_mixture_log_likelihood_components` for one observation: one log-term per component -/
def logComps (comps : List (Comp α)) (o : Obs α) : List α :=
  match o.step with
  | some step =>
    let logNorm := lse (comps.map (normTermDisc o.tmin o.tmax step))
    comps.map fun c =>
      -logNorm + RealLike.log c.amp
        + (2.0 * RealLike.log (discFactor step c.tau) + RealLike.log c.tau)
        - (o.t - step) / c.tau
  | none =>
    let logNorm := lse (comps.map (normTermCont o.tmin o.tmax))
    comps.map fun c => -logNorm + RealLike.log c.amp - RealLike.log c.tau - o.t / c.tau

/-- log-likelihood of one observation: `logsumexp(components, axis=0)` -/
def logLikObs (comps : List (Comp α)) (o : Obs α) : α := lse (logComps comps o)

/-- `_exponential_mixture_log_likelihood`: the NEGATIVE log-likelihood handed to the optimiser -/
def negLogLik (comps : List (Comp α)) (obs : List (Obs α)) : α :=
  -(sumL (obs.map (logLikObs comps)))

/-- the log-likelihood `DwelltimeModel.log_likelihood` reports (`-result.fun`) -/
def logLik (comps : List (Comp α)) (obs : List (Obs α)) : α := -(negLogLik comps obs)

/-- what `DwelltimeModel.pdf` exponentiates: one density value per component (rows) -/
def pdfRows (comps : List (Comp α)) (o : Obs α) : List α := (logComps comps o).map RealLike.exp

/-- probability density (continuous) / probability mass (discretised) of the mixture at `o.t` -/
def pdf (comps : List (Comp α)) (o : Obs α) : α := RealLike.exp (logLikObs comps o)

/-- `pdfCont (comps, tmin, tmax) t` of DESIGN.md -/
def pdfCont (comps : List (Comp α)) (tmin : α) (tmax : Option α) (t : α) : α :=
  pdf comps ⟨t, tmin, tmax, none⟩

/-- `pmfDisc (comps, tmin, tmax, Δ) t` of DESIGN.md -/
def pmfDisc (comps : List (Comp α)) (tmin : α) (tmax : Option α) (step t : α) : α :=
  pdf comps ⟨t, tmin, tmax, some step⟩

/-- `Σ_{k=0}^{K} pmfDisc (tmin + kΔ)` with `tmax = tmin + KΔ` (the sum the normalisation theorem is about);
    `ks` are the values `k` as numbers of the executing type -/
def pmfSum (comps : List (Comp α)) (tmin step : α) (tmax : Option α) (ks : List α) : α :=
  sumL (ks.map fun k => pmfDisc comps tmin tmax step (tmin + k * step))

/-! ### `DwelltimeModel.pdf`: the density of dwell times pooled from several observation windows -/

/-- one row of `np.unique(limits, axis=0, return_counts=True)`: a set of observation limits and the number
    of dwell times that carry it (`tmax = none` is `np.inf`; `step = none` selects the continuous model) -/
structure LimitClass (α : Type) where
  count : α
  tmin : α
  tmax : Option α
  step : Option α

/-- the support mask of `to_pdf`: `np.logical_and(x >= min_time, x < max_time)` — evaluated with the limits of
    the class the sub-density belongs to -/
def inWindow (tmin : α) (tmax : Option α) (x : α) : Bool :=
  RealLike.le tmin x && (match tmax with
    | none => true
    | some m => RealLike.lt x m)

/-- `to_pdf(count, min_time, max_time, time_step)` at one point `x`, one value per component:
    `count/sum(counts) · mask(x) · exp(log-component at xe) · 1/Δ`.  `xe` is the point the components are
    evaluated at: `x` itself for the continuous model, `floor(x/Δ)·Δ` for the discretised one (the caller
    supplies it; `floor` is not a `RealLike` operation). -/
def classPdfRows (comps : List (Comp α)) (total : α) (c : LimitClass α) (x xe : α) : List α :=
  let mask : α := if inWindow c.tmin c.tmax x then 1.0 else 0.0
  let norm : α := match c.step with
    | none => 1.0
    | some d => 1.0 / d
  (pdfRows comps ⟨xe, c.tmin, c.tmax, c.step⟩).map fun p => c.count / total * mask * p * norm

/-- element-wise sum of two rows -/
def addRows : List α → List α → List α
  | a :: xs, b :: ys => (a + b) :: addRows xs ys
  | _, _ => []

/-- `DwelltimeModel.pdf(x)` at one point: `np.sum` over the limit classes of their weighted, masked
    sub-densities; one value per component.  `xe c` is the evaluation point of class `c` (see `classPdfRows`). -/
def pooledPdfRows (comps : List (Comp α)) (classes : List (LimitClass α)) (x : α) (xe : LimitClass α → α) : List α :=
  let total := sumL (classes.map (·.count))
  classes.foldl (fun acc c => addRows acc (classPdfRows comps total c x (xe c))) (comps.map fun _ => 0.0)

/-- the mixture density itself: sum over the components of `pooledPdfRows` (what `hist` draws as the fit) -/
def pooledPdf (comps : List (Comp α)) (classes : List (LimitClass α)) (x : α) (xe : LimitClass α → α) : α :=
  sumL (pooledPdfRows comps classes x xe)

/-! ### The analytic gradient (`_exponential_mixture_log_likelihood_jacobian`) -/

/-- `np.clip(a, 1e-14, inf)` -/
def clipAmp (a : α) : α := if RealLike.lt a 1.0e-14 then 1.0e-14 else a

/-- `valid = t_max / τ < 1e10` (`false` for `t_max = inf`) -/
def validMax (tmax : Option α) (tau : α) : Bool :=
  match tmax with
  | none => false
  | some m => RealLike.lt (m / tau) 1.0e10

/-- `max_bound = t_max · exp(−t_max/τ)` where valid, else `0` -/
def maxBound (tmax : Option α) (tau : α) : α :=
  match tmax with
  | none => 0.0
  | some m => if RealLike.lt (m / tau) 1.0e10 then m * RealLike.exp (-(m / tau)) else 0.0

/-- `max_exp_term = exp(−t_max/τ)` where valid, else `0` -/
def maxExpTerm (tmax : Option α) (tau : α) : α :=
  match tmax with
  | none => 0.0
  | some m => if RealLike.lt (m / tau) 1.0e10 then RealLike.exp (-(m / tau)) else 0.0

/-- per-observation gradient contribution of the continuous model: `(dtotal_damp, dtotal_dtau)` per component -/
def gradObsCont (comps : List (Comp α)) (t tmin : α) (tmax : Option α) : List (α × α) :=
  let cs := comps.map fun c => (⟨clipAmp c.amp, c.tau⟩ : Comp α)
  let ebd := fun (c : Comp α) => RealLike.exp ((-tmin) / c.tau) - expNegMax tmax c.tau
  let norm := 1.0 / sumL (cs.map fun c => c.amp * ebd c)
  let comp := fun (c : Comp α) =>
    RealLike.log norm + RealLike.log c.amp + -RealLike.log c.tau - t / c.tau
  let components := cs.map comp
  let totalDenom := RealLike.exp (lse components)
  let sumComponents := sumL (components.map RealLike.exp)
  cs.map fun c =>
    let dnormDamp := -(norm * norm) * ebd c
    let dlognormDamp := (1.0 / norm) * dnormDamp
    let ebd2 := maxBound tmax c.tau - tmin * RealLike.exp ((-tmin) / c.tau)
    let dnormDtau := norm * norm * (c.amp / (c.tau * c.tau)) * ebd2
    let dlognormDtau := (1.0 / norm) * dnormDtau
    let dlogampDamp := 1.0 / c.amp
    let dlogtauDtau := (-1.0) / c.tau + t / (c.tau * c.tau)
    ((sumComponents * dlognormDamp + RealLike.exp (comp c) * dlogampDamp) / totalDenom,
     (sumComponents * dlognormDtau + RealLike.exp (comp c) * dlogtauDtau) / totalDenom)

/-- per-observation gradient contribution of the discretised model -/
def gradObsDisc (comps : List (Comp α)) (t tmin : α) (tmax : Option α) (step : α) : List (α × α) :=
  let cs := comps.map fun c => (⟨clipAmp c.amp, c.tau⟩ : Comp α)
  let x := fun (c : Comp α) => RealLike.exp ((-step) / c.tau)
  let df := fun (c : Comp α) => 1.0 - x c
  let timeTerm := fun (c : Comp α) => RealLike.exp ((-(tmin - step)) / c.tau) - maxExpTerm tmax c.tau
  let pinf := fun (c : Comp α) => RealLike.log (df c) + RealLike.log (timeTerm c)
  let logNorm := -(lse (cs.map fun c => RealLike.log c.amp + RealLike.log c.tau + pinf c))
  let norm := RealLike.exp logNorm
  let comp := fun (c : Comp α) =>
    -logNorm + RealLike.log c.amp + RealLike.log c.tau + 2.0 * RealLike.log (df c) - (t - step) / c.tau
  let components := cs.map comp
  let totalDenom := RealLike.exp (lse components)
  let sumComponents := sumL (components.map RealLike.exp)
  cs.map fun c =>
    let dlognormDamp := -norm * RealLike.exp (pinf c + RealLike.log c.tau)
    let tauFactor :=
      RealLike.exp (pinf c + RealLike.log c.amp)
        - c.amp * step * x c * timeTerm c / c.tau
        - c.amp * df c * (maxBound tmax c.tau + (step - tmin) * RealLike.exp ((step - tmin) / c.tau)) / c.tau
    let dlognormDtau := -norm * tauFactor
    let dlogampDamp := 1.0 / c.amp
    let dlogtauDtau :=
      (-2.0) * step * x c / (c.tau * c.tau * df c) + 1.0 / c.tau + (t - step) / (c.tau * c.tau)
    ((sumComponents * dlognormDamp + RealLike.exp (comp c) * dlogampDamp) / totalDenom,
     (sumComponents * dlognormDtau + RealLike.exp (comp c) * dlogtauDtau) / totalDenom)

def gradObs (comps : List (Comp α)) (o : Obs α) : List (α × α) :=
  match o.step with
  | some step => gradObsDisc comps o.t o.tmin o.tmax step
  | none => gradObsCont comps o.t o.tmin o.tmax

/-- component-wise sum of per-observation contributions -/
def addPairs : List (α × α) → List (α × α) → List (α × α)
  | (a, b) :: xs, (c, d) :: ys => (a + c, b + d) :: addPairs xs ys
  | _, _ => []

/-- `_exponential_mixture_log_likelihood_jacobian`: gradient of the NEGATIVE log-likelihood, laid out
    as the code does: all amplitude derivatives, then all lifetime derivatives -/
def jacobian (comps : List (Comp α)) (obs : List (Obs α)) : List α :=
  let zero : List (α × α) := comps.map fun _ => (0.0, 0.0)
  let tot := obs.foldl (fun acc o => addPairs acc (gradObs comps o)) zero
  (tot.map fun p => -p.1) ++ (tot.map fun p => -p.2)

/-- closed-form one-component maximum-likelihood lifetime without upper limit:
    `mean (t_i − tmin_i)` (= sample mean − minimum observable time for a scalar limit) -/
def mleTau (obs : List (Obs α)) (n : α) : α := sumL (obs.map fun o => o.t - o.tmin) / n

/-- `_exponential_mle_bounds`: lifetime search interval -/
def tauBounds (minOfTmin maxOfTmax : α) : α × α :=
  let lo := minOfTmin * 0.1
  let hi := maxOfTmax * 1.1
  (if RealLike.lt lo 1.0e-8 then 1.0e-8 else lo, if RealLike.lt 1.0e8 hi then 1.0e8 else hi)

end formulas

/-! ## `_handle_amplitude_constraint` (exact rationals) -/

/-- what the function hands back: which parameters are fitted, how many free amplitudes the equality
    constraint ranges over (`0` = no constraint), the fixed amplitude mass, the repaired parameters -/
structure Constraint where
  fitted : List Bool
  numFree : Nat
  sumFixed : Rat
  params : List Rat
deriving Repr, DecidableEq

/-- sum of the first `n` parameters that are flagged by `sel` -/
def ampSum : Nat → List Rat → List Bool → Rat
  | 0, _, _ => 0
  | _ + 1, [], _ => 0
  | _ + 1, _, [] => 0
  | n + 1, p :: ps, s :: ss => (if s then p else 0) + ampSum n ps ss

/-- number of flags set among the first `n` -/
def countTrue : Nat → List Bool → Nat
  | 0, _ => 0
  | _ + 1, [] => 0
  | n + 1, s :: ss => (if s then 1 else 0) + countTrue n ss

/-- among the first `n` entries: clear the (first) set flag of `fitted` and put `v` at its place -/
def fixFree : Nat → List Rat → List Bool → Rat → List Rat × List Bool
  | 0, ps, fs, _ => (ps, fs)
  | _ + 1, [], fs, _ => ([], fs)
  | _ + 1, ps, [], _ => (ps, [])
  | n + 1, p :: ps, f :: fs, v =>
    if f then (v :: ps, false :: fs)
    else let r := fixFree n ps fs v; (p :: r.1, f :: r.2)

/-- `np.allclose(s, 1.0, atol=1e-6)` with the default `rtol = 1e-5`: `|s − 1| ≤ 1e-6 + 1e-5·1` -/
def allcloseOne (s : Rat) : Bool :=
  let d := if s - 1 < 0 then 1 - s else s - 1
  decide (d ≤ (11 : Rat) / 1000000)

/-- `fixed_param_mask`, all `False` when `None` is passed -/
def fixedOf (params : List Rat) (mask : Option (List Bool)) : List Bool :=
  match mask with
  | none => List.replicate params.length false
  | some m => m

/-- `_handle_amplitude_constraint(n, params, fixed_mask)`; `none` = `ValueError` -/
def handleConstraint (n : Nat) (params : List Rat) (mask : Option (List Bool)) : Option Constraint :=
  let fixed := fixedOf params mask
  if fixed.length ≠ params.length then none
  else if params.length ≠ 2 * n then none
  else
    let sumFixed := ampSum n params fixed
    if 1 < sumFixed then none
    else
      let fitted := fixed.map (!·)
      let numFree := countTrue n fitted
      if numFree = 1 then
        let v := 1 - sumFixed
        let r := fixFree n params fitted v
        let sumFixed' := sumFixed + v
        if allcloseOne sumFixed' then some ⟨r.2, 0, sumFixed', r.1⟩ else none
      else if numFree = 0 ∧ ¬ allcloseOne sumFixed then none
      else some ⟨fitted, numFree, sumFixed, params⟩

/-- the equality constraint handed to SLSQP: `1 − Σ x[:numFree] − sumFixed` -/
def Constraint.value (c : Constraint) (x : List Rat) : Rat :=
  1 - (x.take c.numFree).sum - c.sumFixed

/-- `current_params[fitted_param_mask] = x` (boolean-mask assignment, values consumed in order) -/
def scatter {β : Type} : List β → List Bool → List β → List β
  | [], _, _ => []
  | ps, [], _ => ps
  | p :: ps, false :: fs, xs => p :: scatter ps fs xs
  | p :: ps, true :: fs, [] => p :: scatter ps fs []
  | _ :: ps, true :: fs, x :: xs => x :: scatter ps fs xs

/-- `v[fitted_param_mask]` (boolean-mask selection): the start vector `current_params[fitted_param_mask]`, the
    bounds `[bound for bound, fitted in zip(bounds, fitted_param_mask) if fitted]` and the gradient entries
    `jacobian(...)[fitted_param_mask]` handed to SLSQP -/
def gather {β : Type} : List β → List Bool → List β
  | p :: ps, true :: fs => p :: gather ps fs
  | _ :: ps, false :: fs => gather ps fs
  | _, _ => []

/-! ## `_exponential_mle_optimize`: what is handed to SLSQP and what is reported back -/

/-- everything `_exponential_mle_optimize` hands to `scipy.optimize.minimize`, and what it reports when the
    optimiser answers `probe`: the parameters that are fitted, the start vector, the selected bounds, the reported
    parameter vector (`current_params[fitted] = result.x`), the reported log-likelihood (`-result.fun`, the cost
    evaluated by `cost_fun` at the reported vector) and the gradient `jac_fun` returns there -/
structure Assembled where
  fitted : List Bool
  x0 : List Float
  lo : List Float
  hi : List Float
  params : List Float
  loglik : Float
  grad : List Float

/-- the default `initial_guess` (every public `DwelltimeModel` fit starts from it): amplitudes `np.ones(n)/n`, lifetimes
    `np.mean(t) * n * fractions / np.sum(fractions)` with `fractions = 1, …, n` (exact rationals; `mean` is supplied) -/
def defaultGuess (n : Nat) (mean : Rat) : List Rat :=
  let fractions : List Rat := (List.range n).map fun k => ((k + 1 : Nat) : Rat)
  List.replicate n (1 / (n : Rat)) ++ fractions.map fun f => mean * (n : Rat) * f / fractions.sum

def ratToFloat (r : Rat) : Float := Float.ofInt r.num / Float.ofNat r.den

/-- `none` = `ValueError` of `_handle_amplitude_constraint`.  `probe` is the optimiser's answer (ignored when nothing is
    fitted: the code then returns `initial_guess, -cost_fun([])` without calling the optimiser). -/
def assemble (n : Nat) (params : List Rat) (mask : Option (List Bool)) (probe : List Float)
    (obs : List (Obs Float)) (minOfTmin maxOfTmax : Float) : Option Assembled :=
  match handleConstraint n params mask with
  | none => none
  | some c =>
    let p0 := c.params.map ratToFloat
    let b := tauBounds minOfTmin maxOfTmax
    let los := List.replicate n (1.0e-9 : Float) ++ List.replicate n b.1
    let his := List.replicate n ((1.0 : Float) - 1.0e-9) ++ List.replicate n b.2
    let reported := if gather p0 c.fitted = [] then p0 else scatter p0 c.fitted probe
    let comps := ((reported.take n).zip (reported.drop n)).map fun (a, t) => (⟨a, t⟩ : Comp Float)
    some ⟨c.fitted, gather p0 c.fitted, gather los c.fitted, gather his c.fitted, reported,
      logLik comps obs, gather (jacobian comps obs) c.fitted⟩

/-! ## Dwell-time data of a track group (exact rationals) -/

/-- a track: identity of its kymograph, that kymograph's number of scan lines and line time, the
    scan-line indices of its points, and the stored minimum observable duration -/
structure Track where
  kymo : Nat
  nLines : Nat
  lineTime : Rat
  timeIdx : List Int
  minObs : Option Rat
deriving Repr, DecidableEq

/-- one output column: dwell time, minimum and maximum observation time, discretisation step -/
structure Row where
  dwell : Rat
  minObs : Rat
  maxObs : Rat
  step : Rat
deriving Repr, DecidableEq

def Track.first (t : Track) : Int := t.timeIdx.headD 0
def Track.last (t : Track) : Int := t.timeIdx.getLastD 0

/-- `KymoTrack.duration = seconds[-1] − seconds[0]` with `seconds = line_time · time_idx` -/
def Track.duration (t : Track) : Rat := t.lineTime * (t.last : Rat) - t.lineTime * (t.first : Rat)

/-- `KymoTrack._check_ends_are_defined` -/
def Track.endsDefined (t : Track) : Bool :=
  decide (t.first > 0) && decide (t.last < (t.nLines : Int) - 1)

/-- distinct keys in order of first appearance (`tuple({track._kymo: None for …}.keys())`) -/
def uniqFirst : List Nat → List Nat
  | [] => []
  | x :: xs => x :: (uniqFirst xs).filter (· ≠ x)

/-- `_tracks_by_kymo`: one group per kymograph, in order of first appearance -/
def tracksByKymo (tracks : List Track) : List (List Track) :=
  (uniqFirst (tracks.map (·.kymo))).map fun k => tracks.filter (·.kymo = k)

/-- all entries present, or `none` -/
def allSome {β : Type} : List (Option β) → Option (List β)
  | [] => some []
  | none :: _ => none
  | some x :: xs => (allSome xs).map (x :: ·)

/-- minimum of a non-empty list of rationals (`np.min`), `0` if empty -/
def minL : List Rat → Rat
  | [] => 0
  | x :: xs => xs.foldl (fun m y => if y < m then y else m) x

/-- the inner `extract_dwelltime_data(group)`; `none` = `RuntimeError` (a kept track without stored
    minimum observable duration); the flag is this group's contribution to `removed_zeros` -/
def extractGroup (excl observedMin : Bool) (group : List Track) : Option (List Row × Bool) :=
  let tracks := if excl then group.filter Track.endsDefined else group
  let dw := tracks.map Track.duration
  let nz := dw.filter (0 < ·)
  let removed := nz.length != dw.length
  match group with
  | [] => some ([], removed)
  | g0 :: _ =>
    if nz = [] then some ([], removed)
    else
      let maxObs := (g0.nLines : Rat) * g0.lineTime
      let kept := tracks.filter fun t => 0 < t.duration
      if observedMin then
        let m := minL nz
        some (kept.map fun t => ⟨t.duration, m, maxObs, g0.lineTime⟩, removed)
      else
        match allSome (kept.map (·.minObs)) with
        | none => none
        | some ms => some ((kept.zip ms).map fun (t, m) => ⟨t.duration, m, maxObs, g0.lineTime⟩, removed)

/-- `_extract_dwelltime_data_from_groups(_tracks_by_kymo(), excl, observed_minimum=…)`:
    the stacked rows and the `removed_zeros` flag -/
def extract (excl observedMin : Bool) (tracks : List Track) : Option (List Row × Bool) :=
  match allSome ((tracksByKymo tracks).map (extractGroup excl observedMin)) with
  | none => none
  | some parts => some (parts.flatMap (·.1), parts.any (·.2))

/-! ## Argument validation of `DwelltimeModel.__init__` / `_exponential_mle_optimize` (on doubles) -/

/-- a NumPy scalar or a 1-D array -/
inductive SoA where
  | scalar (x : Float)
  | arr (l : List Float)

def SoA.sizeOk (n : Nat) : SoA → Bool
  | .scalar _ => true
  | .arr l => l.length == n

def SoA.get (i : Nat) : SoA → Float
  | .scalar x => x
  | .arr l => l.getD i (0.0 / 0.0)

/-- `true` = accepted; `false` = `ValueError` (limit arrays of the wrong size, non-positive step, step larger
    than the minimum observable time, data outside the window — all with the code's `1e-6` slack) -/
def validate (ts : List Float) (tmin tmax : SoA) (step : Option SoA) : Bool :=
  let n := ts.length
  let idx := List.range n
  tmin.sizeOk n && tmax.sizeOk n
  && (match step with
      | none => true
      | some st =>
        (match st with
          | .scalar x => x > 0
          | .arr l => l.all (· > 0)) && st.sizeOk n
        && !(match st, tmin with
              | .scalar x, .scalar m => x > (1.0 + 1.0e-6) * m
              | _, _ => idx.any fun i => st.get i > (1.0 + 1.0e-6) * tmin.get i))
  && !(idx.any fun i =>
        let t := ts.getD i (0.0 / 0.0)
        t < tmin.get i - 1.0e-6 * tmin.get i || t > tmax.get i + 1.0e-6 * tmax.get i)

/-! ## Line protocol -/

open Proto

def mkComps (amps taus : List Float) : Option (List (Comp Float)) :=
  if amps.length = taus.length ∧ amps ≠ [] then
    some ((amps.zip taus).map fun (a, t) => ⟨a, t⟩)
  else none

def optMax (m : Float) : Option Float := if m.isInf then none else some m

/-- observations from parallel lists; `steps = none` selects the continuous model -/
def mkObs (ts tmins tmaxs : List Float) (steps : Option (List Float)) : Option (List (Obs Float)) :=
  let n := ts.length
  if tmins.length ≠ n ∨ tmaxs.length ≠ n then none
  else match steps with
    | none => some ((ts.zip (tmins.zip tmaxs)).map fun (t, lo, hi) => ⟨t, lo, optMax hi, none⟩)
    | some ss =>
      if ss.length ≠ n then none
      else some ((ts.zip (tmins.zip (tmaxs.zip ss))).map fun (t, lo, hi, s) => ⟨t, lo, optMax hi, some s⟩)

/-- a row of the `limits` matrix of `DwelltimeModel.pdf`: `(tmin, tmax, step)`; `step = 0` when the model is continuous -/
abbrev LimRow := Float × Float × Float

/-- lexicographic `<` on rows (the order `np.unique(…, axis=0)` sorts by) -/
def LimRow.lt (a b : LimRow) : Bool :=
  a.1 < b.1 || (a.1 == b.1 && (a.2.1 < b.2.1 || (a.2.1 == b.2.1 && a.2.2 < b.2.2)))

def LimRow.eq (a b : LimRow) : Bool := a.1 == b.1 && a.2.1 == b.2.1 && a.2.2 == b.2.2

/-- insert a row into the sorted table of distinct rows with their counts -/
def insertRow (r : LimRow) : List (LimRow × Nat) → List (LimRow × Nat)
  | [] => [(r, 1)]
  | (q, n) :: rest =>
    if LimRow.eq r q then (q, n + 1) :: rest
    else if LimRow.lt r q then (r, 1) :: (q, n) :: rest
    else (q, n) :: insertRow r rest

/-- `np.unique(limits, axis=0, return_counts=True)` -/
def uniqueCounts (rows : List LimRow) : List (LimRow × Nat) := rows.foldl (fun acc r => insertRow r acc) []

/-- the limit classes of a data set from parallel lists of per-observation limits -/
def mkClasses (tmins tmaxs : List Float) (steps : Option (List Float)) : Option (List (LimitClass Float)) :=
  let n := tmins.length
  if tmaxs.length ≠ n ∨ n = 0 then none
  else match steps with
    | none =>
      some ((uniqueCounts ((tmins.zip tmaxs).map fun (lo, hi) => (lo, hi, 0.0))).map fun (r, k) =>
        ⟨k.toFloat, r.1, optMax r.2.1, none⟩)
    | some ss =>
      if ss.length ≠ n then none
      else some ((uniqueCounts ((tmins.zip (tmaxs.zip ss)).map fun (lo, hi, s) => (lo, hi, s))).map fun (r, k) =>
        ⟨k.toFloat, r.1, optMax r.2.1, some r.2.2⟩)

/-- the point `to_pdf` evaluates the components at: `np.floor(x / time_step) * time_step` for the discretised model -/
def evalPoint (x : Float) (c : LimitClass Float) : Float :=
  match c.step with
  | none => x
  | some d => Float.floor (x / d) * d

def steps? (s : String) : Option (Option (List Float)) :=
  if s == "N" then some none else (floatList? s).map some

def optRat? (s : String) : Option (Option Rat) :=
  if s == "N" then some none else (rat? s).map some

def showRow (r : Row) : String :=
  showRat r.dwell ++ ":" ++ showRat r.minObs ++ ":" ++ showRat r.maxObs ++ ":" ++ showRat r.step

/-- track token `kymo:nLines:lineTime:minObs:[idx,…]` split on `:` -/
def track? (s : String) : Option Track :=
  match s.splitOn ":" with
  | [k, n, lt, mo, idx] => do
    let k ← nat? k; let n ← nat? n; let lt ← rat? lt; let mo ← optRat? mo; let idx ← intList? idx
    some ⟨k, n, lt, idx, mo⟩
  | _ => none

/-- which exception the code raises first: groups are processed in order; inside a group a track
    without points raises `IndexError` (indexing `time_idx[0]`) before the missing-minimum `RuntimeError` -/
def firstError (excl om : Bool) : List (List Track) → Option String
  | [] => none
  | g :: gs =>
    if g.any (·.timeIdx = []) then some "IndexError"
    else if (extractGroup excl om g).isNone then some "RuntimeError"
    else firstError excl om gs

/-! ## `_extract_dwelltime_data_from_groups` on ANY list of groups (strengthening round H)

`fit_binding_times` hands the function the per-kymograph split `_tracks_by_kymo()`; the function itself takes any
iterable of groups: empty groups, several groups of one kymograph, groups in any order — and refuses (`ValueError`)
a group whose tracks lie on more than one kymograph, for which "the kymograph's total duration" is not defined. -/

/-- `group._kymos`: the distinct kymographs of the tracks of a group -/
def groupKymos (g : List Track) : List Nat := uniqFirst (g.map (·.kymo))

/-- `len(group._kymos) > 1` -/
def mixed (g : List Track) : Bool := decide (1 < (groupKymos g).length)

/-- which exception the code raises first when handed these groups: groups are processed in order; inside a group the
    check for more than one kymograph (`ValueError`) comes before anything is read from the tracks -/
def firstErrorGroups (excl om : Bool) : List (List Track) → Option String
  | [] => none
  | g :: gs =>
    if mixed g then some "ValueError"
    else if g.any (·.timeIdx = []) then some "IndexError"
    else if (extractGroup excl om g).isNone then some "RuntimeError"
    else firstErrorGroups excl om gs

/-- `_extract_dwelltime_data_from_groups(groups, excl, observed_minimum=…)`: the exception's name, or the stacked rows
    and the `removed_zeros` flag -/
def extractGroups (excl om : Bool) (groups : List (List Track)) : Except String (List Row × Bool) :=
  match firstErrorGroups excl om groups with
  | some e => .error e
  | none =>
    match allSome (groups.map (extractGroup excl om)) with
    | none => .error "RuntimeError"
    | some parts => .ok (parts.flatMap (·.1), parts.any (·.2))

/-- split a token list at the separator `|` -/
def splitGroups : List String → List (List String)
  | [] => [[]]
  | t :: ts =>
    match splitGroups ts with
    | [] => [[t]]
    | g :: gs => if t == "|" then [] :: g :: gs else (t :: g) :: gs

/-! ## `KymoTrackGroup.fit_binding_times`: option defaults and error branches in front of the model -/

/-- what `fit_binding_times` has decided when it constructs the `DwelltimeModel` -/
structure FitCall where
  rows : List Row
  /-- `RuntimeWarning` "Some dwell times are zero" -/
  removedZeros : Bool
  /-- the minimum-time mode that was used (`observed_minimum` after the default) -/
  observedMin : Bool
  /-- `discretization_timestep=time_step if discrete_model else None` -/
  stepHanded : Bool
  /-- `UserWarning`: `observed_minimum` not given — the legacy default `True` is used -/
  warnObservedMin : Bool
  /-- `UserWarning`: `discrete_model` not given — the continuous model is used -/
  warnDiscrete : Bool
deriving Repr, DecidableEq

/-- `fit_binding_times(n_components, exclude_ambiguous_dwells=…, observed_minimum=…, discrete_model=…)` up to the
    constructor call: empty group → `RuntimeError`; `None` options take their legacy defaults; `n_components ∉ {1, 2}` →
    `ValueError`; the extraction's own errors; no row left → `RuntimeError` -/
def fitBindingTimes (nComp : Nat) (excl : Bool) (om disc : Option Bool) (tracks : List Track) :
    Except String FitCall :=
  if tracks = [] then .error "RuntimeError"
  else
    let om' := om.getD true
    let disc' := disc.getD false
    if nComp ≠ 1 ∧ nComp ≠ 2 then .error "ValueError"
    else match firstError excl om' (tracksByKymo tracks) with
      | some e => .error e
      | none => match extract excl om' tracks with
        | none => .error "RuntimeError"
        | some (rows, removed) =>
          if rows = [] then .error "RuntimeError"
          else .ok ⟨rows, removed, om', disc', om.isNone, disc.isNone⟩

def optBool? (s : String) : Option (Option Bool) :=
  if s == "N" then some none else (bool? s).map some

def soa? (s : String) : Option SoA :=
  if s.startsWith "[" then (floatList? s).map .arr else (float? s).map .scalar

def handle : List String → Option String
  -- negative log-likelihood
  | ["c15.nll", amps, taus, ts, tmins, tmaxs, steps] => do
    let comps ← mkComps (← floatList? amps) (← floatList? taus)
    let obs ← mkObs (← floatList? ts) (← floatList? tmins) (← floatList? tmaxs) (← steps? steps)
    some (showFloat (negLogLik comps obs))
  -- log components, one row per component
  | ["c15.comps", amps, taus, ts, tmins, tmaxs, steps] => do
    let comps ← mkComps (← floatList? amps) (← floatList? taus)
    let obs ← mkObs (← floatList? ts) (← floatList? tmins) (← floatList? tmaxs) (← steps? steps)
    let cols := obs.map (logComps comps)
    let rows := (List.range comps.length).map fun i => cols.map fun c => c.getD i (0.0 / 0.0)
    some (showListList showFloat rows)
  -- gradient of the negative log-likelihood
  | ["c15.jac", amps, taus, ts, tmins, tmaxs, steps] => do
    let comps ← mkComps (← floatList? amps) (← floatList? taus)
    let obs ← mkObs (← floatList? ts) (← floatList? tmins) (← floatList? tmaxs) (← steps? steps)
    some (showFloatList (jacobian comps obs))
  -- Σ_{k=0}^{K} pmfDisc(tmin + kΔ), tmax = tmin + KΔ computed by the caller (same double on both sides)
  | ["c15.pmfsum", amps, taus, tmin, tmax, step, k] => do
    let comps ← mkComps (← floatList? amps) (← floatList? taus)
    let tmin ← float? tmin; let tmax ← float? tmax; let step ← float? step; let k ← nat? k
    let ks := (List.range (k + 1)).map fun i => i.toFloat
    some (showFloat (pmfSum comps tmin step (optMax tmax) ks))
  -- Σ_j w_j · pdfCont(x_j): quadrature of the continuous density with caller-supplied nodes and weights
  | ["c15.quad", amps, taus, tmin, tmax, nodes, weights] => do
    let comps ← mkComps (← floatList? amps) (← floatList? taus)
    let tmin ← float? tmin; let tmax ← float? tmax
    let nodes ← floatList? nodes; let weights ← floatList? weights
    if nodes.length ≠ weights.length then none
    else some (showFloat (sumL ((nodes.zip weights).map fun (x, w) => w * pdfCont comps tmin (optMax tmax) x)))
  -- DwelltimeModel.pdf(xs) of a model with the given per-observation limits: one row per component
  | ["c15.pdfpool", amps, taus, xs, tmins, tmaxs, steps] => do
    let comps ← mkComps (← floatList? amps) (← floatList? taus)
    let classes ← mkClasses (← floatList? tmins) (← floatList? tmaxs) (← steps? steps)
    let cols := (← floatList? xs).map fun x => pooledPdfRows comps classes x (evalPoint x)
    let rows := (List.range comps.length).map fun i => cols.map fun c => c.getD i (0.0 / 0.0)
    some (showListList showFloat rows)
  -- Σ_j w_j · pooledPdf(x_j): quadrature of the pooled density with caller-supplied nodes and weights
  | ["c15.quadpool", amps, taus, tmins, tmaxs, steps, nodes, weights] => do
    let comps ← mkComps (← floatList? amps) (← floatList? taus)
    let classes ← mkClasses (← floatList? tmins) (← floatList? tmaxs) (← steps? steps)
    let nodes ← floatList? nodes; let weights ← floatList? weights
    if nodes.length ≠ weights.length then none
    else some (showFloat (sumL ((nodes.zip weights).map fun (x, w) => w * pooledPdf comps classes x (evalPoint x))))
  -- constructor / optimiser argument validation
  | ["c15.validate", ts, tmin, tmax, step] => do
    let ts ← floatList? ts; let tmin ← soa? tmin; let tmax ← soa? tmax
    let step ← if step == "N" then some none else (soa? step).map some
    some (if validate ts tmin tmax step then "ok" else "ValueError")
  -- closed-form one-component estimate
  | ["c15.mle1", ts, tmins] => do
    let ts ← floatList? ts; let tmins ← floatList? tmins
    if ts.length ≠ tmins.length ∨ ts = [] then none
    else
      let obs := (ts.zip tmins).map fun (t, lo) => (⟨t, lo, none, none⟩ : Obs Float)
      some (showFloat (mleTau obs ts.length.toFloat))
  | ["c15.bounds", lo, hi] => do
    let lo ← float? lo; let hi ← float? hi
    let b := tauBounds lo hi
    some (showFloatList [1.0e-9, 1.0 - 1.0e-9, b.1, b.2])
  -- amplitude constraint: n, params, mask (N = None), probe x
  | ["c15.constraint", n, params, mask, x] => do
    let n ← nat? n; let params ← ratList? params; let x ← ratList? x
    let mask ← if mask == "N" then some none else (listOf? bool? mask).map some
    match handleConstraint n params mask with
    | none => some "ValueError"
    | some c =>
      let v := if c.numFree = 0 then "none" else showRat (c.value x)
      some (showList showBool c.fitted ++ " " ++ toString c.numFree ++ " " ++ showRatList c.params ++ " " ++ v)
  -- what _exponential_mle_optimize hands to the optimiser / reports for the optimiser's answer `probe`
  | ["c15.assemble", n, params, mask, probe, ts, tmins, tmaxs, steps, lo, hi] => do
    let n ← nat? n; let probe ← floatList? probe
    -- `D:<mean>` = `initial_guess=None`: the default guess from the sample mean
    let params ← if params.startsWith "D:" then (rat? (params.drop 2).toString).map (defaultGuess n) else ratList? params
    let mask ← if mask == "N" then some none else (listOf? bool? mask).map some
    let obs ← mkObs (← floatList? ts) (← floatList? tmins) (← floatList? tmaxs) (← steps? steps)
    let lo ← float? lo; let hi ← float? hi
    match assemble n params mask probe obs lo hi with
    | none => some "ValueError"
    | some a =>
      some (showList showBool a.fitted ++ " " ++ showFloatList a.x0 ++ " " ++ showFloatList a.lo ++ " "
        ++ showFloatList a.hi ++ " " ++ showFloatList a.params ++ " " ++ showFloat a.loglik ++ " "
        ++ showFloatList a.grad)
  -- fit_binding_times up to the constructor call: n_components, flags (N = not given), then one token per track
  | "c15.fbt" :: n :: excl :: om :: disc :: tracks => do
    let n ← nat? n; let excl ← bool? excl; let om ← optBool? om; let disc ← optBool? disc
    let tracks ← tracks.mapM track?
    match fitBindingTimes n excl om disc tracks with
    | .error e => some e
    | .ok c =>
      some (showBool c.observedMin ++ " " ++ showBool c.stepHanded ++ " " ++ showBool c.warnObservedMin ++ " "
        ++ showBool c.warnDiscrete ++ " " ++ showList showRow c.rows ++ " " ++ showBool c.removedZeros)
  -- dwell-time extraction: flags, then one token per track
  | "c15.extract" :: excl :: om :: tracks => do
    let excl ← bool? excl; let om ← bool? om
    let tracks ← tracks.mapM track?
    match firstError excl om (tracksByKymo tracks) with
    | some e => some e
    | none => match extract excl om tracks with
      | none => some "RuntimeError"
      | some (rows, removed) => some (showList showRow rows ++ " " ++ showBool removed)
  -- the extraction function handed explicit groups: flags, then track tokens, groups separated by `|`
  | "c15.extractgroups" :: excl :: om :: toks => do
    let excl ← bool? excl; let om ← bool? om
    let groups ← (splitGroups toks).mapM fun g => g.mapM track?
    match extractGroups excl om groups with
    | .error e => some e
    | .ok (rows, removed) => some (showList showRow rows ++ " " ++ showBool removed)
  | _ => none

end Verif.C15
