/-
  C17 — editing, refining and saving kymograph tracks.
  Executable model of (lumicks/pylake/kymotracker/)
    kymotrack.py : export_kymotrackgroup_to_csv (columns built with `np.hstack`, then `vstack().T`),
                   _read_txt (grouping with `np.unique`/`argwhere`), import_kymotrackgroup_from_csv
                   (`create_track`), KymoTrack.interpolate/_split/__add__,
                   KymoTrackGroup._split_track/_merge_tracks/filter/remove_tracks_in_rect
    kymotracker.py : filter_tracks (minimum observable time), the time structure of
                   refine_tracks_centroid and refine_tracks_gaussian (+ gaussian_mle.overlapping_pixels)
    detail/peakfinding.py : _sum_track_signal.
  Mirrors the algorithm of the code (column stacking, Python slicing/indexing, clip, unique), not the
  specification.  Numbers: scan-line indices are `Int`, coordinates / durations are exact `Rat`
  (the harness sends the doubles the code works on as exact rationals).
-/
import Verif.Py
import Verif.Proto

namespace Verif.C17
open Verif.Py

inductive Err where
  | index | value | type | runtime | io
deriving DecidableEq, Repr

def Err.name : Err → String
  | .index => "IndexError"
  | .value => "ValueError"
  | .type => "TypeError"
  | .runtime => "RuntimeError"
  | .io => "IOError"

/-- A track node: (scan-line index, coordinate in pixels; pixel centres at integers). -/
abbrev Pt := Int × Rat

/-- `KymoTrack`: nodes, `_minimum_observable_duration`, and the photon counts of a
    `CentroidLocalizationModel` (`none` for a plain `LocalizationModel`). -/
structure Track where
  pts : List Pt
  minDur : Option Rat
  counts : Option (List Int)
deriving DecidableEq, Repr

/-- What the tracks need from their `Kymo`: calibrated pixel size `pixelsize[0]`, `pixelsize_um[0]`
    (`None` for an uncalibrated kymograph) and `line_time_seconds`. -/
structure Kymo where
  px : Rat
  pxUm : Option Rat
  lt : Rat
deriving DecidableEq, Repr

def Track.len (tr : Track) : Nat := tr.pts.length
def Track.times (tr : Track) : List Int := tr.pts.map (·.1)

/-! ### `_sum_track_signal` -/

/-- Python `int(x)` on a float: truncation toward zero. -/
def trunc (x : Rat) : Int := Int.tdiv x.num x.den

/-- `reduce(image[max(int(c + offset) - w, 0) : int(c + offset) + w + 1, int(t)])` with `reduce = sum`;
    `img[t]` is scan line `t` (one value per pixel).  A line index outside the image is an
    `IndexError` in the code (never generated; the model answers 0). -/
def sumSignal (img : List (List Int)) (w : Nat) (offset : Rat) (t : Int) (c : Rat) : Int :=
  let line := (pyIndex img t).getD []
  let centre := trunc (c + offset)
  (pySlice line (max (centre - w) 0) (centre + w + 1)).sum

/-! ### export: `export_kymotrackgroup_to_csv` -/

/-- One line of the CSV file, columns by name; `count`/`minDur` are `none` when the file has no such
    column. -/
structure Row where
  idx : Nat
  t : Int
  c : Rat
  sec : Rat
  pos : Rat
  count : Option Int
  minDur : Option Rat
deriving DecidableEq, Repr

/-- `np.hstack([f(track) for track in group])` (with the enumeration index available). -/
def hstack {α} (g : List Track) (f : Track → Nat → List α) : List α :=
  g.zipIdx.flatMap fun p => f p.1 p.2

def idxCol (g : List Track) : List Nat := hstack g fun tr k => List.replicate tr.len k
def tCol (g : List Track) : List Int := hstack g fun tr _ => tr.pts.map (·.1)
def cCol (g : List Track) : List Rat := hstack g fun tr _ => tr.pts.map (·.2)
def secCol (k : Kymo) (g : List Track) : List Rat := hstack g fun tr _ => tr.pts.map fun p => k.lt * p.1
def posCol (k : Kymo) (g : List Track) : List Rat := hstack g fun tr _ => tr.pts.map fun p => p.2 * k.px
/-- `track.sample_from_image(sampling_width)` when a sampling width is given. -/
def countCol (sample : Option (Int → Rat → Int)) (g : List Track) : List (Option Int) :=
  hstack g fun tr _ => tr.pts.map fun p => sample.map fun s => s p.1 p.2
/-- `if None not in minimum_observable_duration:` the column is written (with `%.6e`, modelled by
    `fmt`); otherwise it is left out for every track. -/
def minDurCol (fmt : Rat → Rat) (g : List Track) : List (Option Rat) :=
  let all := g.all (·.minDur.isSome)
  hstack g fun tr _ => List.replicate tr.len (if all then tr.minDur.map fmt else none)

/-- `np.vstack(columns).T`: the rows of the file. -/
def mkRows (i : List Nat) (t : List Int) (c s p : List Rat) (n : List (Option Int))
    (m : List (Option Rat)) : List Row :=
  (i.zip (t.zip (c.zip (s.zip (p.zip (n.zip m)))))).map
    fun x => ⟨x.1, x.2.1, x.2.2.1, x.2.2.2.1, x.2.2.2.2.1, x.2.2.2.2.2.1, x.2.2.2.2.2.2⟩

def exportRows (k : Kymo) (sample : Option (Int → Rat → Int)) (fmt : Rat → Rat) (g : List Track) :
    Except Err (List Row) :=
  if g.isEmpty then .error .runtime
  else .ok (mkRows (idxCol g) (tCol g) (cCol g) (secCol k g) (posCol k g) (countCol sample g)
    (minDurCol fmt g))

/-! ### `%.6e` (minimum observable duration column) -/

def pow10 (e : Int) : Rat :=
  if e ≥ 0 then ((10 ^ e.toNat : Nat) : Rat) else 1 / ((10 ^ (-e).toNat : Nat) : Rat)

/-- the decimal exponent `e` with `10^e ≤ x < 10^(e+1)` for `x > 0` (search with fuel). -/
def findExp (x : Rat) : Nat → Int → Int
  | 0, e => e
  | fuel + 1, e =>
    if x < pow10 e then findExp x fuel (e - 1)
    else if pow10 (e + 1) ≤ x then findExp x fuel (e + 1)
    else e

def roundHalfEven (x : Rat) : Int :=
  let f := x.floor
  let r := x - f
  if r < 1 / 2 then f else if 1 / 2 < r then f + 1 else if f % 2 = 0 then f else f + 1

/-- the value printed by `'%.6e' % x` (7 significant decimal digits, correctly rounded, ties to even). -/
def fmt6e (x : Rat) : Rat :=
  if x = 0 then 0
  else
    let a := if x < 0 then -x else x
    let e := findExp a 1000 0
    let m := roundHalfEven (a / pow10 (e - 6))
    let v := (m : Rat) * pow10 (e - 6)
    if x < 0 then -v else v

/-! ### import: `_read_txt` and `import_kymotrackgroup_from_csv` -/

/-- `np.unique` on the track-index column: the distinct values in increasing order. -/
def uniqueSorted (l : List Nat) : List Nat :=
  (List.range (l.foldl max 0 + 1)).filter fun k => l.contains k

/-- `data[key] = [col[np.argwhere(track_idx == idx).flatten()] for idx in unique_tracks]`, all columns
    at once: the rows of every track, file order preserved. -/
def readTxt (rows : List Row) : List (List Row) :=
  (uniqueSorted (rows.map (·.idx))).map fun k => rows.filter fun r => r.idx == k

/-- `_read_txt` of the pinned snapshot (finding F4): `np.loadtxt(…, unpack=True)` of a one-row file is
    1-D and `raw_data[0, :]` raises `IndexError`. -/
def readTxtUnfixed (rows : List Row) : Except Err (List (List Row)) :=
  if rows.length = 1 then .error .index else .ok (readTxt rows)

def allSome {α} : List (Option α) → Option (List α)
  | [] => some []
  | none :: _ => none
  | some a :: rest => (allSome rest).map (a :: ·)

/-- `float(np.unique(min_length).squeeze())`: defined only when the column holds one distinct value. -/
def uniqueSingle : List Rat → Option Rat
  | [] => none
  | d :: rest => if rest.all (· == d) then some d else none

/-- `create_track` (repaired): with or without counts the stored position is `coord * kymo.pixelsize[0]`
    and `coordinate_idx` divides it by the same pixel size again. -/
def mkTrack (k : Kymo) (rows : List Row) : Except Err Track :=
  let pts := rows.map fun r => (r.t, r.c * k.px / k.px)
  let counts := allSome (rows.map (·.count))
  match allSome (rows.map (·.minDur)) with
  | none => .ok ⟨pts, none, counts⟩
  | some ds =>
    match uniqueSingle ds with
    | some d => .ok ⟨pts, some d, counts⟩
    | none => .error .type

/-- `create_track` of the pinned snapshot (finding F8): with a photon-count column the position was
    `coord * kymo.pixelsize_um` (µm even for a kbp-calibrated kymograph; `None` when uncalibrated). -/
def mkTrackUnfixed (k : Kymo) (rows : List Row) : Except Err Track :=
  match allSome (rows.map (·.count)) with
  | none => mkTrack k rows
  | some cs =>
    match k.pxUm with
    | none => .error .type
    | some u =>
      match mkTrack k rows with
      | .ok tr => .ok ⟨rows.map fun r => (r.t, r.c * u / k.px), tr.minDur, some cs⟩
      | .error e => .error e

/-- `import_kymotrackgroup_from_csv`: a file without data lines has no columns at all and fails the
    mandatory-field test (`IOError("Invalid file format!")`). -/
def importGroup (k : Kymo) (rows : List Row) : Except Err (List Track) :=
  if rows.isEmpty then .error .io else (readTxt rows).mapM (mkTrack k)

/-- import as in the pinned snapshot w.r.t. F4 only -/
def importGroupUnfixedF4 (k : Kymo) (rows : List Row) : Except Err (List Track) :=
  if rows.isEmpty then .error .io else
  match readTxtUnfixed rows with
  | .ok groups => groups.mapM (mkTrack k)
  | .error e => .error e

/-- import as in the pinned snapshot w.r.t. F8 only -/
def importGroupUnfixedF8 (k : Kymo) (rows : List Row) : Except Err (List Track) :=
  if rows.isEmpty then .error .io else (readTxt rows).mapM (mkTrackUnfixed k)

/-- `group.save(file, …)` followed by `import_kymotrackgroup_from_csv(file, kymo, …)`. -/
def roundtrip (k : Kymo) (sample : Option (Int → Rat → Int)) (fmt : Rat → Rat) (g : List Track) :
    Except Err (List Track) :=
  match exportRows k sample fmt g with
  | .ok rows => importGroup k rows
  | .error e => .error e

/-! ### editing: slicing, `__add__`, `_split`, `_split_track`, `_merge_tracks` -/

/-- `track._with_coordinates(track.time_idx[i:j], track._localization[i:j])`. -/
def Track.slice (tr : Track) (i j : Option Int) : Track :=
  ⟨pySliceOpt tr.pts i j, tr.minDur, tr.counts.map fun c => pySliceOpt c i j⟩

/-- `KymoTrack.__add__`: localizations of the same class are concatenated field by field; a refined
    and an unrefined one fall back to plain coordinates (the `TypeError` branch). -/
def Track.add (a b : Track) : Track :=
  ⟨a.pts ++ b.pts, a.minDur,
   match a.counts, b.counts with
   | some x, some y => some (x ++ y)
   | _, _ => none⟩

/-- `np.clip(node, 0, len(self))`. -/
def clipNode (node : Int) (n : Nat) : Int := min (max node 0) n

/-- `KymoTrack._split`. -/
def Track.split (tr : Track) (node : Int) : Except Err (Track × Track) :=
  let k := clipNode node tr.len
  let before := tr.slice none (some k)
  let after := tr.slice (some k) none
  if before.len = 0 || after.len = 0 then .error .value else .ok (before, after)

/-- `KymoTrackGroup._split_track(group[i], node, min_length)`. -/
def splitTrack (g : List Track) (i : Nat) (node : Int) (minLen : Int) : Except Err (List Track) :=
  match g[i]? with
  | none => .error .value
  | some tr =>
    match tr.split node with
    | .error e => .error e
    | .ok (b, a) => .ok (g.eraseIdx i ++ [b, a].filter fun t => decide (minLen ≤ (t.len : Int)))

/-- `KymoTrackGroup._merge_tracks(group[i], ni, group[j], nj)`. -/
def mergeTracks (g : List Track) (i : Nat) (ni : Int) (j : Nat) (nj : Int) : Except Err (List Track) :=
  match g[i]?, g[j]? with
  | some a, some b =>
    match pyIndex a.pts ni, pyIndex b.pts nj with
    | some ps, some pe =>
      if ps.1 = pe.1 then .error .value
      else
        let sw := decide (ps.1 > pe.1)
        let i' := if sw then j else i
        let ni' := if sw then nj else ni
        let a' := if sw then b else a
        let j' := if sw then i else j
        let nj' := if sw then ni else nj
        let b' := if sw then a else b
        let merged := (a'.slice none (some (ni' + 1))).add (b'.slice (some nj') none)
        let g' := g.set i' merged
        .ok (if i' = j' then g' else g'.eraseIdx j')
    | _, _ => .error .index
  | _, _ => .error .runtime

/-! ### `filter_tracks` -/

/-- `track.duration = seconds[-1] - seconds[0]`. -/
def Track.duration (lt : Rat) (tr : Track) : Rat :=
  lt * ((tr.pts.getLast?.map (·.1)).getD 0 : Int) - lt * ((tr.pts.head?.map (·.1)).getD 0 : Int)

/-- `minimum_observable_time`. -/
def minObservable (lt : Rat) (minLen : Int) (minDur : Rat) : Rat :=
  max ((minLen - 1 : Int) * lt) (((minDur / lt).ceil : Int) * lt)

def keepTrack (lt : Rat) (minLen : Int) (minDur : Rat) (tr : Track) : Bool :=
  decide (minLen ≤ (tr.len : Int)) && decide (minDur ≤ tr.duration lt)

def filterTracks (lt : Rat) (minLen : Int) (minDur : Rat) (g : List Track) : List Track :=
  (g.filter (keepTrack lt minLen minDur)).map fun tr =>
    { tr with minDur := some (max (tr.minDur.getD 0) (minObservable lt minLen minDur)) }

/-! ### `remove_tracks_in_rect` -/

structure Rect where
  t0 : Rat
  x0 : Rat
  t1 : Rat
  x1 : Rat
deriving DecidableEq, Repr

def Rect.ordered (r : Rect) : Rect :=
  ⟨if r.t0 > r.t1 then r.t1 else r.t0, if r.x0 > r.x1 then r.x1 else r.x0,
   if r.t0 > r.t1 then r.t0 else r.t1, if r.x0 > r.x1 then r.x0 else r.x1⟩

def ptInRect (k : Kymo) (r : Rect) (p : Pt) : Bool :=
  (decide (k.lt * p.1 < r.t1) && decide (r.t0 ≤ k.lt * p.1)) &&
  (decide (p.2 * k.px < r.x1) && decide (r.x0 ≤ p.2 * k.px))

def inRect (k : Kymo) (r : Rect) (allPoints : Bool) (tr : Track) : Bool :=
  if allPoints then tr.pts.all (ptInRect k r) else tr.pts.any (ptInRect k r)

def removeInRect (k : Kymo) (r : Rect) (allPoints : Bool) (g : List Track) : List Track :=
  g.filter fun tr => !inRect k r.ordered allPoints tr

/-! ### `KymoTrack.interpolate` -/

def tmin : List Pt → Int
  | [] => 0
  | p :: ps => ps.foldl (fun m q => min m q.1) p.1

def tmax : List Pt → Int
  | [] => 0
  | p :: ps => ps.foldl (fun m q => max m q.1) p.1

/-- `np.arange(a, b, 1)`. -/
def arange (a b : Int) : List Int := (List.range (b - a).toNat).map fun (i : Nat) => a + (i : Int)

/-- the straight line through `p` and `q` at `x`. -/
def lin (p q : Pt) (x : Int) : Rat := p.2 + ((x - p.1 : Int) : Rat) * ((q.2 - p.2) / ((q.1 - p.1 : Int) : Rat))

/-- `np.interp(x, xp, fp)` for increasing `xp`: clamped outside, linear inside the segment
    `xp[j] ≤ x < xp[j+1]`. -/
def interpAt : List Pt → Int → Rat
  | [], _ => 0
  | [p], _ => p.2
  | p :: q :: rest, x =>
    if x < p.1 then p.2
    else if x < q.1 then lin p q x
    else interpAt (q :: rest) x

def interpolate (pts : List Pt) : List Pt :=
  (arange (tmin pts) (tmax pts + 1)).map fun x => (x, interpAt pts x)

/-- `KymoTrack.interpolate()`: the result is a plain (unrefined) localization. -/
def Track.interpolate (tr : Track) : Track := ⟨C17.interpolate tr.pts, tr.minDur, none⟩

/-! ### refinement: time structure -/

/-- `refine_tracks_centroid`: every track is interpolated, each interpolated node is moved by the
    centroid estimate (`refineCoord`, numerical: a parameter here) and re-sampled
    (`_from_centroid_estimate`); minimum durations are carried over. -/
def refineCentroid (refineCoord : Int → Rat → Rat) (sample : Int → Rat → Int) (g : List Track) :
    List Track :=
  g.map fun tr =>
    let pts := (interpolate tr.pts).map fun p => (p.1, refineCoord p.1 p.2)
    ⟨pts, tr.minDur, some (pts.map fun p => sample p.1 p.2)⟩

/-- the scan lines of each centroid-refined track -/
def refineSpan (g : List Track) : List (List Int) :=
  (refineCentroid (fun _ c => c) (fun _ _ => 0) g).map (·.times)

/-- insertion into a list sorted by coordinate (stable) -/
def insertSorted (x : Int × Nat) : List (Int × Nat) → List (Int × Nat)
  | [] => [x]
  | y :: ys => if x.1 < y.1 then x :: y :: ys else y :: insertSorted x ys

def sortByCoord (l : List (Int × Nat)) : List (Int × Nat) := l.foldr insertSorted []

/-- `np.split(indices, np.flatnonzero(differences > 2 * width) + 1)` on the sorted coordinates. -/
def splitGroups (w : Int) : List (Int × Nat) → List (List (Int × Nat))
  | [] => []
  | x :: rest =>
    match splitGroups w rest, rest with
    | grp :: more, y :: _ => if y.1 - x.1 > 2 * w then [x] :: grp :: more else (x :: grp) :: more
    | _, _ => [[x]]

/-- `overlapping_pixels(coordinates, width)`: groups of (coordinate, index). -/
def overlappingPixels (coords : List Int) (w : Int) : List (List (Int × Nat)) :=
  splitGroups w (sortByCoord coords.zipIdx)

/-- the nodes of all tracks that lie on scan line `f`, in track order: (`int(coordinate)`, track, time) -/
def frameNodes (g : List Track) (f : Int) : List (Int × Nat) :=
  g.zipIdx.flatMap fun p => (p.1.pts.filter fun q => q.1 == f).map fun q => (trunc q.2, p.2)

/-- is the node of track `j` on line `f` fitted (`true`) or skipped because its window overlaps the
    window of another node (`overlap_strategy="skip"`)? -/
def fitted (skip : Bool) (w : Int) (g : List Track) (j : Nat) (f : Int) : Bool :=
  if !skip then true
  else
    let nodes := frameNodes g f
    let groups := overlappingPixels (nodes.map (·.1)) w
    -- indices inside `groups` refer to positions in `nodes`
    groups.any fun grp => grp.length == 1 && grp.any fun x => (nodes[x.2]?.map (·.2)) == some j

/-- `refine_tracks_gaussian`: the scan lines of each returned track and its minimum duration; tracks
    that lose all their nodes are dropped.  (`refine_missing_frames=True` interpolates first.) -/
def gaussianTimes (skip : Bool) (w : Int) (refineMissing : Bool) (g : List Track) :
    List (List Int × Option Rat) :=
  let g := if refineMissing then g.map Track.interpolate else g
  (g.zipIdx.map fun p => ((p.1.times.filter fun f => fitted skip w g p.2 f), p.1.minDur)).filter
    fun r => !r.1.isEmpty

/-! ### programs of editing operations -/

inductive Op where
  | split (i : Nat) (node : Int) (minLen : Int)
  | merge (i : Nat) (ni : Int) (j : Nat) (nj : Int)
  | filter (minLen : Int) (minDur : Rat)
  | interp
  | rect (r : Rect) (allPoints : Bool)
deriving Repr

def applyOp (k : Kymo) (g : List Track) : Op → Except Err (List Track)
  | .split i node minLen => splitTrack g i node minLen
  | .merge i ni j nj => mergeTracks g i ni j nj
  | .filter minLen minDur => .ok (filterTracks k.lt minLen minDur g)
  | .interp => .ok (g.map Track.interpolate)
  | .rect r all => .ok (removeInRect k r all g)

/-- run a program; a failing operation leaves the group unchanged (the exception is raised before
    the group is modified) and is recorded. -/
def runProg (k : Kymo) : List Track → List Op → List (Option Err) × List Track
  | g, [] => ([], g)
  | g, op :: ops =>
    match applyOp k g op with
    | .ok g' => let r := runProg k g' ops; (none :: r.1, r.2)
    | .error e => let r := runProg k g ops; (some e :: r.1, r.2)

/-! ### centroid refinement: `refine_peak_based_on_moment` without bias correction

  `m0 = convolve2d(data, ones, "same")`, `subpixel_offset = convolve2d(data, [h … −h], "same") / (m0 + eps)`,
  the pixel is moved by one while `|offset| > 0.5` (clamped to the image, at most `max_iter` rounds),
  the refined coordinate is `pixel + offset[pixel]`.  One scan line at a time (`line[p]` = pixel `p`). -/

/-- `data[p]` with the zero padding of `convolve2d(…, "same")` -/
def dAt (line : List Rat) (p : Int) : Rat := if p < 0 then 0 else (line[p.toNat]?).getD 0

/-- `convolve2d(data, kernel[:, None], "same")[p]` for a kernel of length `2h+1`:
    `Σ_i kernel[i] · data[p + h − i]` -/
def convSame (line : List Rat) (kernel : List Rat) (h : Nat) (p : Int) : Rat :=
  ((List.range kernel.length).map fun (i : Nat) => (kernel[i]?).getD 0 * dAt line (p + (h : Int) - (i : Int))).sum

/-- `np.arange(h, -(h + 1), -1)` -/
def dirKernel (h : Nat) : List Rat := (List.range (2 * h + 1)).map fun (i : Nat) => (((h : Int) - (i : Int) : Int) : Rat)
/-- `np.ones(2h + 1)` -/
def meanKernel (h : Nat) : List Rat := List.replicate (2 * h + 1) 1

def subpixelOffset (eps : Rat) (line : List Rat) (h : Nat) (p : Int) : Rat :=
  convSame line (dirKernel h) h p / (convSame line (meanKernel h) h p + eps)

def signInt (x : Rat) : Int := if 0 < x then 1 else if x < 0 then -1 else 0
def absRat (x : Rat) : Rat := if x < 0 then -x else x

/-- one round of the loop for one node: move by `sign(offset)` if `|offset| > 0.5`, then clamp -/
def stepCoord (eps : Rat) (line : List Rat) (h : Nat) (c : Int) : Int :=
  let o := subpixelOffset eps line h c
  let c' := if 1 / 2 < absRat o then c + signInt o else c
  if c' < 0 then 0 else if (line.length : Int) ≤ c' then (line.length : Int) - 1 else c'

/-- the loop: stop as soon as a round changes nothing; `none` = "Iteration limit exceeded" -/
def settle (eps : Rat) (line : List Rat) (h : Nat) : Nat → Int → Option Int
  | 0, c => if stepCoord eps line h c = c then some c else none
  | fuel + 1, c => if stepCoord eps line h c = c then some c else settle eps line h fuel (stepCoord eps line h c)

/-- refined coordinate of a node: start at `round(coordinate)` (half to even), at most 99 moves -/
def centroidCoord (eps : Rat) (img : List (List Rat)) (h : Nat) (t : Int) (x : Rat) : Option Rat :=
  let line := (pyIndex img t).getD []
  (settle eps line h 99 (roundHalfEven x)).map fun (c : Int) => (c : Rat) + subpixelOffset eps line h c

/-- `refine_tracks_centroid(tracks, bias_correction=False)`: the refined coordinates of every track
    (`none`: the iteration limit was hit somewhere → `RuntimeError` for the whole call) -/
def refineCentroidCoords (eps : Rat) (img : List (List Rat)) (h : Nat) (g : List Track) :
    Option (List (List Pt)) :=
  g.mapM fun tr => (interpolate tr.pts).mapM fun p => (centroidCoord eps img h p.1 p.2).map fun y => (p.1, y)

/-! ### the CSV file as text: version header, column titles, numeric cells

  `export_kymotrackgroup_to_csv` writes `# Exported with pylake v… | track coordinates v4`, then
  `# ` + the column titles joined by the delimiter, then one line of numbers per node.
  `_read_txt` takes the track index from column 0 whatever its title, stores every other column in a
  dict under its title (`zip(header, raw_data)`), and `import_kymotrackgroup_from_csv` looks the
  columns up BY TITLE.  Titles are `List Char` (exact Python string equality / `in`). -/

abbrev Title := List Char

def tIdx : Title := ['t', 'r', 'a', 'c', 'k', ' ', 'i', 'n', 'd', 'e', 'x']
def tTimePx : Title := ['t', 'i', 'm', 'e', ' ', '(', 'p', 'i', 'x', 'e', 'l', 's', ')']
def tCoordPx : Title := ['c', 'o', 'o', 'r', 'd', 'i', 'n', 'a', 't', 'e', ' ', '(', 'p', 'i', 'x', 'e', 'l', 's', ')']
def tTimeSec : Title := ['t', 'i', 'm', 'e', ' ', '(', 's', 'e', 'c', 'o', 'n', 'd', 's', ')']
def tPosPre : Title := ['p', 'o', 's', 'i', 't', 'i', 'o', 'n', ' ', '(']
def tCntPre : Title := ['c', 'o', 'u', 'n', 't', 's', ' ', '(', 's', 'u', 'm', 'm', 'e', 'd', ' ', 'o', 'v', 'e', 'r', ' ']
def tCntPost : Title := [' ', 'p', 'i', 'x', 'e', 'l', 's', ')']
def tMinDur : Title := ['m', 'i', 'n', 'i', 'm', 'u', 'm', ' ', 'o', 'b', 's', 'e', 'r', 'v', 'a', 'b', 'l', 'e', ' ', 'd', 'u', 'r', 'a', 't', 'i', 'o', 'n', ' ', '(', 's', 'e', 'c', 'o', 'n', 'd', 's', ')']
def tMinLenV3 : Title := ['m', 'i', 'n', 'i', 'm', 'u', 'm', '_', 'l', 'e', 'n', 'g', 't', 'h', ' ', '(', '-', ')']
def sCounts : Title := ['c', 'o', 'u', 'n', 't', 's']
def uUm : Title := ['u', 'm']
def uKbp : Title := ['k', 'b', 'p']
def uPixel : Title := ['p', 'i', 'x', 'e', 'l']

/-- `f"position ({position_units})"` -/
def tPosition (unit : Title) : Title := tPosPre ++ unit ++ [')']
/-- `f"counts (summed over {2 * sampling_width + 1} pixels)"` -/
def tCounts (n : Nat) : Title := tCntPre ++ (toString n).toList ++ tCntPost

structure CsvFile where
  /-- the `v(\d)` of the version header line; `none`: the file has no such line (CSV version 1) -/
  version : Option Nat
  /-- `delimiter.join(column_titles)` split again -/
  titles : List Title
  /-- the data lines -/
  rows : List (List Rat)
deriving DecidableEq, Repr

/-- `store_column` in the order of the code: five fixed columns, the counts column iff a sampling
    width is given, the minimum-duration column iff no track lacks one. -/
def exportTitles (unit : Title) (sw : Option Nat) (hasMd : Bool) : List Title :=
  [tIdx, tTimePx, tCoordPx, tTimeSec, tPosition unit] ++
    (match sw with | some w => [tCounts (2 * w + 1)] | none => []) ++ (if hasMd then [tMinDur] else [])

/-- one line of `np.vstack(data).T` -/
def rowCells (r : Row) : List Rat :=
  [(r.idx : Rat), (r.t : Rat), r.c, r.sec, r.pos] ++
    (match r.count with | some n => [(n : Rat)] | none => []) ++ (match r.minDur with | some d => [d] | none => [])

/-- `export_kymotrackgroup_to_csv` down to the text of the file (`smp w` = `sample_from_image(w)`). -/
def exportFile (k : Kymo) (unit : Title) (sw : Option Nat) (smp : Nat → Int → Rat → Int) (fmt : Rat → Rat)
    (g : List Track) : Except Err CsvFile :=
  match exportRows k (sw.map smp) fmt g with
  | .ok rows => .ok ⟨some 4, exportTitles unit sw (g.all (·.minDur.isSome)), rows.map rowCells⟩
  | .error e => .error e

/-- `header_lines[0].rstrip().split(delimiter)`: `np.savetxt` prefixed the line with `# `, which stays
    on the first title — the key of column 0 is never one of the titles looked up by name. -/
def readerKeys : List Title → List Title
  | [] => []
  | t :: ts => (['#', ' '] ++ t) :: ts

/-- `data[t]` after `for key, col in zip(header, raw_data): data[key] = …`: the index of the LAST
    column stored under that title. -/
def lastIdxFrom (t : Title) : List Title → Nat → Option Nat → Option Nat
  | [], _, acc => acc
  | x :: xs, i, acc => lastIdxFrom t xs (i + 1) (if x = t then some i else acc)

def lastIdx (ts : List Title) (t : Title) : Option Nat := lastIdxFrom t ts 0 none

/-- Python `pat in s` on strings -/
def hasInfix (pat : List Char) : List Char → Bool
  | [] => pat.isEmpty
  | c :: cs => pat.isPrefixOf (c :: cs) || hasInfix pat cs

def cell (r : List Rat) (j : Nat) : Rat := (r[j]?).getD 0

/-- `_read_txt` + the column selection of `import_kymotrackgroup_from_csv`:
    * no data line, or lines of different lengths (`np.loadtxt` → `ValueError`): `IOError`;
    * `zip(header, raw_data)` stops at the shorter of titles / columns;
    * `time (pixels)` and `coordinate (pixels)` must be keys, else `IOError`;
    * the minimum-duration column is `minimum_length (-)` for CSV version 3 and
      `minimum observable duration (seconds)` otherwise; absent → `None`;
    * the counts column is the first key that contains `counts` (dict keys are in order of first
      insertion, so this is the first such title), read from the last column stored under it;
    * `time.astype(int)` truncates. -/
def importFile (k : Kymo) (f : CsvFile) : Except Err (List Track) :=
  match f.rows with
  | [] => .error .io
  | r0 :: _ =>
    if f.rows.any (fun r => r.length != r0.length) then .error .io
    else
      let ts := (readerKeys f.titles).take r0.length
      match lastIdx ts tTimePx, lastIdx ts tCoordPx with
      | some jt, some jc =>
        let jm := lastIdx ts (if f.version = some 3 then tMinLenV3 else tMinDur)
        let jn := (ts.find? (hasInfix sCounts)).bind (lastIdx ts)
        importGroup k (f.rows.map fun r =>
          ⟨(trunc (cell r 0)).toNat, trunc (cell r jt), cell r jc, 0, 0,
           jn.map fun j => trunc (cell r j), jm.map fun j => cell r j⟩)
      | _, _ => .error .io

/-- `group.save(file)` then `import_kymotrackgroup_from_csv(file, kymo)`, through the text of the file -/
def fileRoundtrip (k : Kymo) (unit : Title) (sw : Option Nat) (smp : Nat → Int → Rat → Int) (fmt : Rat → Rat)
    (g : List Track) : Except Err (List Track) :=
  match exportFile k unit sw smp fmt g with
  | .ok f => importFile k f
  | .error e => .error e

/-! ### protocol -/
open Verif.Proto

def optRat? (s : String) : Option (Option Rat) :=
  if s == "N" then some none else (rat? s).map some

def showOptRat : Option Rat → String
  | none => "N"
  | some r => showRat r

/-- `[N;1,2;3]`: one entry per track, `N` = no counts -/
def countsList? (s : String) : Option (List (Option (List Int))) := do
  let inner ← stripBrackets? s
  if inner == "" then pure []
  else (inner.splitOn ";").mapM fun row =>
    if row == "N" then pure none
    else if row == "" then pure (some [])
    else ((row.splitOn ",").mapM int?).map some

def showCounts (l : List (Option (List Int))) : String :=
  "[" ++ ";".intercalate (l.map fun
    | none => "N"
    | some c => ",".intercalate (c.map toString)) ++ "]"

def zip4 : List (List Int) → List (List Rat) → List (Option Rat) → List (Option (List Int)) →
    Option (List Track)
  | [], [], [], [] => some []
  | t :: ts, c :: cs, m :: ms, k :: ks =>
    if t.length = c.length && (match k with | none => true | some kk => kk.length == t.length) then
      (zip4 ts cs ms ks).map (⟨t.zip c, m, k⟩ :: ·)
    else none
  | _, _, _, _ => none

/-- four tokens: times `[t,t;t]`, coordinates `[p/q,p/q;p/q]`, minimum durations `[N,p/q]`,
    counts `[N;1,2]` -/
def group? (t c m k : String) : Option (List Track) := do
  let t ← intListList? t
  let c ← ratListList? c
  let m ← listOf? optRat? m
  let k ← countsList? k
  zip4 t c m k

def showGroup (g : List Track) : String :=
  showListList showInt (g.map (·.times)) ++ " " ++
  showListList showRat (g.map fun tr => tr.pts.map (·.2)) ++ " " ++
  showList showOptRat (g.map (·.minDur)) ++ " " ++
  showCounts (g.map (·.counts))

def kymo? (px pxUm lt : String) : Option Kymo := do
  let px ← rat? px
  let u ← optRat? pxUm
  let lt ← rat? lt
  if px = 0 ∨ lt = 0 then none else some ⟨px, u, lt⟩

/-- sampling token: `N`, or `w:0` (pixel origin at the edge, `correct_origin=False`) or `w:1`
    (`correct_origin=True`, offset 1/2) -/
def sampling? (s : String) (img : List (List Int)) : Option (Option (Int → Rat → Int)) :=
  if s == "N" then some none
  else match s.splitOn ":" with
    | [w, o] => do
      let w ← nat? w
      let off : Rat ← if o == "1" then some (1 / 2) else if o == "0" then some 0 else none
      some (some (sumSignal img w off))
    | _ => none

def showOptInt' : Option Int → String
  | none => "N"
  | some i => toString i

def showRow (r : Row) : String :=
  "|".intercalate [toString r.idx, toString r.t, showRat r.c, showRat r.sec, showRat r.pos,
    showOptInt' r.count, showOptRat r.minDur]

def showExcept {α} (f : α → String) : Except Err α → String
  | .ok a => f a
  | .error e => e.name

/-- `idx|t|c|count|mindur` -/
def row? (s : String) : Option Row :=
  match s.splitOn "|" with
  | [i, t, c, n, m] => do
    let i ← nat? i; let t ← int? t; let c ← rat? c; let n ← optInt? n; let m ← optRat? m
    some ⟨i, t, c, 0, 0, n, m⟩
  | _ => none

def op? (s : String) : Option Op :=
  match s.splitOn ":" with
  | ["s", i, node, ml] => do some (.split (← nat? i) (← int? node) (← int? ml))
  | ["m", i, ni, j, nj] => do some (.merge (← nat? i) (← int? ni) (← nat? j) (← int? nj))
  | ["f", ml, md] => do some (.filter (← int? ml) (← rat? md))
  | ["i"] => some .interp
  | ["r", t0, x0, t1, x1, a] => do
    some (.rect ⟨← rat? t0, ← rat? x0, ← rat? t1, ← rat? x1⟩ (← bool? a))
  | _ => none

def showErrs (l : List (Option Err)) : String :=
  showList (fun | none => "-" | some (e : Err) => e.name) l


/-- titles on the wire: `|`-separated, blanks written `~` -/
def showTitle (t : Title) : String := String.ofList (t.map fun c => if c = ' ' then '~' else c)
def title? (s : String) : Title := s.toList.map fun c => if c = '~' then ' ' else c
def titles? (s : String) : List Title := if s == "-" then [] else (s.splitOn "|").map title?

def unit? (s : String) : Option Title :=
  if s == "um" then some uUm else if s == "kbp" then some uKbp else if s == "pixel" then some uPixel else none

/-- `N` or `w:o` → sampling width and pixel-origin offset -/
def samplingW? (s : String) : Option (Option (Nat × Rat)) :=
  if s == "N" then some none
  else match s.splitOn ":" with
    | [w, o] => do
      let w ← nat? w
      let off : Rat ← if o == "1" then some (1 / 2) else if o == "0" then some 0 else none
      some (some (w, off))
    | _ => none

/-- ops:
  `c17.export px pxUm lt sampling img T C M K`    rows of the file (or the error)
  `c17.roundtrip …same…`                           the re-imported group
  `c17.roundtrip2 …same…`                          the group after saving and importing the re-imported group again
  `c17.roundtripu4 …`, `c17.roundtripu8 …`         the same with the pinned (unrepaired) F4 / F8 code
  `c17.read px pxUm lt [idx|t|c|count|mindur,…]`   import of a hand-written file
  `c17.prog px pxUm lt T C M K op…`                errors per op and the final group
  `c17.refine T C M K`                             scan lines of each centroid-refined track
  `c17.titles unit sampling hasMd`                 the column titles `export_kymotrackgroup_to_csv` writes
  `c17.exportfile px pxUm lt unit sampling img T C M K`     version, titles and cells of the written file
  `c17.fileroundtrip px pxUm lt unit sampling img T C M K`  save + import through titles and cells
  `c17.readfile px pxUm lt version titles rows`    import of a file given as version / titles / cells
  `c17.centroid h eps img T C M K`                 lines and coordinates after centroid refinement without bias correction
  `c17.refine2 T C M K`                            scan lines of each track after refining the refined tracks again
  `c17.gauss skip w missing T C M K`               scan lines + minimum duration of each Gaussian-refined track
  `c17.fmt6 p/q`                                   value printed by `%.6e`
  `c17.samples w off img [t,…] [c,…]`              `sample_from_image` of a track
  `c17.sample w off img t c`                       `_sum_track_signal` of one node  -/
def handleFile (op px pxUm lt smp img t c m k : String) : Option String := do
  let ky ← kymo? px pxUm lt
  let img ← intListList? img
  let sample ← sampling? smp img
  let g ← group? t c m k
  if op == "c17.export" then
    some (showExcept (showList showRow) (exportRows ky sample fmt6e g))
  else if op == "c17.roundtrip" then
    some (showExcept showGroup (roundtrip ky sample fmt6e g))
  else if op == "c17.roundtrip2" then
    some (showExcept showGroup (match roundtrip ky sample fmt6e g with
      | .ok g' => roundtrip ky sample fmt6e g'
      | .error e => .error e))
  else
    match exportRows ky sample fmt6e g with
    | .error e => some e.name
    | .ok rows =>
      some (showExcept showGroup
        (if op == "c17.roundtripu4" then importGroupUnfixedF4 ky rows else importGroupUnfixedF8 ky rows))

def handle : List String → Option String
  | ["c17.export", px, pxUm, lt, smp, img, t, c, m, k] => handleFile "c17.export" px pxUm lt smp img t c m k
  | ["c17.roundtrip", px, pxUm, lt, smp, img, t, c, m, k] => handleFile "c17.roundtrip" px pxUm lt smp img t c m k
  | ["c17.roundtrip2", px, pxUm, lt, smp, img, t, c, m, k] => handleFile "c17.roundtrip2" px pxUm lt smp img t c m k
  | ["c17.roundtripu4", px, pxUm, lt, smp, img, t, c, m, k] => handleFile "c17.roundtripu4" px pxUm lt smp img t c m k
  | ["c17.roundtripu8", px, pxUm, lt, smp, img, t, c, m, k] => handleFile "c17.roundtripu8" px pxUm lt smp img t c m k
  | ["c17.read", px, pxUm, lt, rows] => do
    let ky ← kymo? px pxUm lt
    -- a cell that is not a number (`X`) makes `np.loadtxt` fail: `IOError("Invalid file format!")`
    if (rows.splitOn "X").length > 1 then some Err.io.name
    else
      let rows ← listOf? row? rows
      some (showExcept showGroup (importGroup ky rows))
  | "c17.prog" :: px :: pxUm :: lt :: t :: c :: m :: k :: ops => do
    let ky ← kymo? px pxUm lt
    let g ← group? t c m k
    let ops ← ops.mapM op?
    let r := runProg ky g ops
    some (showErrs r.1 ++ " " ++ showGroup r.2)
  | ["c17.refine", t, c, m, k] => do
    let g ← group? t c m k
    some (showListList showInt (refineSpan g) ++ " " ++ showList showOptRat (g.map (·.minDur)))
  | ["c17.titles", unit, smp, hasMd] => do
    let u ← unit? unit; let sw ← samplingW? smp; let b ← bool? hasMd
    some ("|".intercalate ((exportTitles u (sw.map (·.1)) b).map showTitle))
  | ["c17.exportfile", px, pxUm, lt, unit, smp, img, t, c, m, k] => do
    let ky ← kymo? px pxUm lt
    let u ← unit? unit
    let img ← intListList? img
    let sw ← samplingW? smp
    let off : Rat := (sw.map (·.2)).getD 0
    let g ← group? t c m k
    match exportFile ky u (sw.map (·.1)) (fun w => sumSignal img w off) fmt6e g with
    | .error e => some e.name
    | .ok f => some (showOptInt' (f.version.map Int.ofNat) ++ " " ++ "|".intercalate (f.titles.map showTitle) ++ " " ++
        showListList showRat f.rows)
  | ["c17.fileroundtrip", px, pxUm, lt, unit, smp, img, t, c, m, k] => do
    let ky ← kymo? px pxUm lt
    let u ← unit? unit
    let img ← intListList? img
    let sw ← samplingW? smp
    let off : Rat := (sw.map (·.2)).getD 0
    let g ← group? t c m k
    some (showExcept showGroup (fileRoundtrip ky u (sw.map (·.1)) (fun w => sumSignal img w off) fmt6e g))
  | ["c17.readfile", px, pxUm, lt, version, titles, rows] => do
    let ky ← kymo? px pxUm lt
    let v ← if version == "N" then some none else (nat? version).map some
    let rows ← ratListList? rows
    some (showExcept showGroup (importFile ky ⟨v, titles? titles, rows⟩))
  | ["c17.centroid", h, eps, img, t, c, m, k] => do
    let h ← nat? h; let eps ← rat? eps
    let img ← ratListList? img
    let g ← group? t c m k
    match refineCentroidCoords eps img h g with
    | none => some Err.runtime.name
    | some r => some (showListList showInt (r.map fun tr => tr.map (·.1)) ++ " " ++
        showListList showRat (r.map fun tr => tr.map (·.2)))
  | ["c17.refine2", t, c, m, k] => do
    let g ← group? t c m k
    some (showListList showInt (refineSpan (refineCentroid (fun _ c => c) (fun _ _ => 0) g)) ++ " " ++
      showList showOptRat (g.map (·.minDur)))
  | ["c17.gauss", skip, w, missing, t, c, m, k] => do
    let skip ← bool? skip; let w ← int? w; let missing ← bool? missing
    let g ← group? t c m k
    let r := gaussianTimes skip w missing g
    some (showListList showInt (r.map (·.1)) ++ " " ++ showList showOptRat (r.map (·.2)))
  | ["c17.fmt6", x] => do
    let x ← rat? x
    some (showRat (fmt6e x))
  | ["c17.samples", w, off, img, ts, cs] => do
    let w ← nat? w
    let off : Rat ← if off == "1" then some (1 / 2) else if off == "0" then some 0 else none
    let img ← intListList? img
    let ts ← intList? ts; let cs ← ratList? cs
    if ts.length != cs.length then none
    else some (showIntList ((ts.zip cs).map fun p => sumSignal img w off p.1 p.2))
  | ["c17.sample", w, off, img, t, c] => do
    let w ← nat? w
    let off : Rat ← if off == "1" then some (1 / 2) else if off == "0" then some 0 else none
    let img ← intListList? img
    some (toString (sumSignal img w off (← int? t) (← rat? c)))
  | _ => none

end Verif.C17
