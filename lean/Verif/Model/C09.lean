/-
  C09 — MSD and diffusion estimators.
  Executable model (over `Rat`, Mathlib-free) of
    `calculate_msd_counts`, `weighted_mean_and_sd`, `merge_track_msds`, `calculate_ensemble_msd`,
    `_msd_diffusion_covariance`, `_diffusion_ols`, `estimate_diffusion_constant_simple` (ols),
    `_cve`, `_var_cve_unknown_var`, `_var_cve_known_var`, `ensemble_cve`, `ensemble_ols`
    (lumicks/pylake/kymotracker/detail/msd_estimation.py) and the unit conversions of
    `KymoTrack.msd` / `KymoTrack.estimate_diffusion` (kymotracker/kymotrack.py).
  The definitions mirror the ALGORITHM of the code (full mesh of ordered point pairs, `np.unique`
  of the frame differences, boolean selection per lag, Python slicing `[:max_lag]`, `np.diff`,
  flattened per-lag regrouping of the ensemble, index-based covariance matrix …), not the
  specification; the specification side lives in `Props/C09.lean`.
  Every float the code computes is a rational function of its inputs, so the model is exact over
  `Rat`; square roots (`std_err`, `sem`) are compared through their squares.
-/
import Verif.Py
import Verif.Proto
import Verif.Num

namespace Verif.C09
open Verif.Py

/-- One localisation of a track: (frame index, position). -/
abbrev Pt := Int × Rat

def sqr (x : Rat) : Rat := x * x
def rabs (x : Rat) : Rat := if x < 0 then -x else x
/-- `np.mean` (an empty mean is `0/0`; `Rat` division by zero gives 0 — never reached on valid input). -/
def mean (l : List Rat) : Rat := l.sum / (l.length : Rat)

/-! ### `calculate_msd_counts` -/

/-- entry `[i, j]` of `frame_diff` and of `squared_displacements` (`meshgrid`: column − row). -/
def pair (a b : Pt) : Int × Rat := (b.1 - a.1, sqr (b.2 - a.2))

/-- the two `N × N` meshes, flattened row-major: ALL ordered pairs, also `i = j` and `i > j`. -/
def mesh (t : List Pt) : List (Int × Rat) := t.flatMap fun a => t.map fun b => pair a b

/-- insertion into a strictly increasing list without duplicates. -/
def insertU (x : Int) : List Int → List Int
  | [] => [x]
  | y :: ys => if x < y then x :: y :: ys else if x = y then y :: ys else y :: insertU x ys

/-- `np.unique` (sorted distinct values). -/
def uniqueSorted (l : List Int) : List Int := l.foldr insertU []

/-- `frame_lags[frame_lags > 0]` before the `[:max_lag]` cut. -/
def lagsAll (t : List Pt) : List Int :=
  (uniqueSorted ((mesh t).map (·.1))).filter fun d => decide (0 < d)

/-- `frame_lags[frame_lags > 0][:max_lag]` — a Python slice: `None` keeps all, a negative value
    drops from the end. -/
def lagsOf (t : List Pt) (maxLag : Option Int) : List Int := pySliceOpt (lagsAll t) none maxLag

/-- `squared_displacements[frame_diff == delta]` on a flattened mesh `m`. -/
def sel (m : List (Int × Rat)) (δ : Int) : List Rat := (m.filter fun p => p.1 == δ).map (·.2)

structure MsdRow where
  lag : Int
  msd : Rat
  count : Nat
deriving Repr, DecidableEq

def msdCounts (t : List Pt) (maxLag : Option Int) : List MsdRow :=
  let m := mesh t
  (lagsOf t maxLag).map fun δ => ⟨δ, mean (sel m δ), (sel m δ).length⟩

/-- `KymoTrack.msd(max_lag)`: `max_lag if max_lag else len(time_idx)`; lag times in seconds. -/
def kymoMsd (t : List Pt) (dt : Rat) (maxLag : Option Int) : List (Rat × Rat) :=
  let L : Int := match maxLag with
    | some L => if L = 0 then (t.length : Int) else L
    | none => (t.length : Int)
  (msdCounts t (some L)).map fun r => ((r.lag : Rat) * dt, r.msd)

/-! ### `_cve` -/

/-- `np.diff` -/
def diffI (l : List Int) : List Int := List.zipWith (fun a b => b - a) l l.tail
def diffR (l : List Rat) : List Rat := List.zipWith (fun a b => b - a) l l.tail

/-- `np.mean(np.diff(frame_indices))` -/
def avgStep (t : List Pt) : Rat :=
  (((diffI (t.map (·.1))).sum : Int) : Rat) / ((diffI (t.map (·.1))).length : Rat)

/-- `dx = np.diff(x)` -/
def dxs (t : List Pt) : List Rat := diffR (t.map (·.2))
/-- `np.mean(dx**2)` -/
def m2 (t : List Pt) : Rat := mean ((dxs t).map sqr)
/-- `dx[1:] * dx[:-1]` -/
def consec (d : List Rat) : List Rat := List.zipWith (· * ·) d.tail d
/-- `np.mean(dx[1:] * dx[:-1])` -/
def mc (t : List Pt) : Rat := mean (consec (dxs t))

/-- `_var_cve_unknown_var` -/
def varUnknown (D lv dt : Rat) (n : Nat) (R s : Rat) : Rat :=
  let eps := lv / dt - 2 * R * D
  let ad := s * D
  (6 * sqr ad + 4 * eps * ad + 2 * sqr eps) / ((n : Rat) * sqr s)
    + 4 * sqr (ad + eps) / (sqr (n : Rat) * sqr s)

/-- `_var_cve_known_var` -/
def varKnown (D lv vlv dt : Rat) (n : Nat) (R s : Rat) : Rat :=
  let eps := lv / dt - 2 * R * D
  let bt := sqr (s - 2 * R)
  let ad := s * D
  (2 * sqr ad + 4 * eps * ad + 3 * sqr eps) / ((n : Rat) * bt) + vlv / (bt * sqr dt)

structure Cve where
  D : Rat
  var : Rat
  lv : Rat
deriving Repr, DecidableEq

/-- the branch `if not localization_var:` — estimate the localisation variance from the track. -/
def cveUnknown (n : Nat) (s m2 mc dt R : Rat) : Cve :=
  let avgDt := s * dt
  let D := m2 / (2 * avgDt) + mc / avgDt
  let lv := R * m2 + (2 * R - 1) * mc
  ⟨D, varUnknown D lv dt n R s, lv⟩

/-- the `else` branch — localisation variance known a priori. -/
def cveKnown (n : Nat) (s m2 dt R lv vlv : Rat) : Cve :=
  let avgDt := s * dt
  let D := (m2 - 2 * lv) / (2 * (avgDt - 2 * R * dt))
  ⟨D, varKnown D lv vlv dt n R s, lv⟩

/-- everything after the summary statistics; `not localization_var` is true for `None` AND `0.0`. -/
def cveCore (n : Nat) (s m2 mc dt R : Rat) (lv vlv : Option Rat) : Except String Cve :=
  match lv with
  | none => .ok (cveUnknown n s m2 mc dt R)
  | some l =>
    if l = 0 then .ok (cveUnknown n s m2 mc dt R)
    else match vlv with
      | none => .error "ValueError"
      | some v => .ok (cveKnown n s m2 dt R l v)

/-- `_cve(frame_indices, x, dt, blur_constant, localization_var, var_of_localization_var)`. -/
def cve (t : List Pt) (dt R : Rat) (lv vlv : Option Rat) : Except String Cve :=
  if ¬ (0 ≤ R ∧ R ≤ 1 / 4) then .error "ValueError"
  else if t.length < 3 then .error "RuntimeError"
  else cveCore t.length (avgStep t) (m2 t) (mc t) dt R lv vlv

/-! ### `_diffusion_ols` / `_msd_diffusion_covariance` -/

/-- `(intercept, slope)` of `_diffusion_ols` from the points `(lag, msd)`. -/
def olsDen (pts : List (Rat × Rat)) : Rat :=
  (pts.length : Rat) * (pts.map fun p => p.1 * p.1).sum - sqr (pts.map (·.1)).sum

def olsLine (pts : List (Rat × Rat)) : Rat × Rat :=
  let K : Rat := (pts.length : Rat)
  let alpha := (pts.map (·.1)).sum
  let beta := (pts.map fun p => p.1 * p.1).sum
  let gamma := (pts.map (·.2)).sum
  let delta := (pts.map fun p => p.1 * p.2).sum
  let inv := 1 / (K * beta - sqr alpha)
  ((beta * gamma - alpha * delta) * inv, (K * delta - alpha * gamma) * inv)

/-- entry of `_msd_diffusion_covariance(max_lags, n, intercept, slope)` for the 1-based lag
    NUMBERS `i`, `j` (Bullerjahn et al., eq. 8a/8b). -/
def covEntry (n a b : Rat) (i j : Nat) : Rat :=
  let ri : Rat := (i : Rat)
  let rj : Rat := (j : Rat)
  let mn : Rat := ((min i j : Nat) : Rat)
  let term1 := 2 * mn * (1 + 3 * ri * rj - sqr mn) / (n - mn + 1)
  let den := (n - ri + 1) * (n - rj + 1)
  let term2 := (sqr mn - sqr (sqr mn)) / den
  let u := n + 1 - ri - rj
  let term3 := (if 0 ≤ ri + rj - n - 2 then sqr (sqr u) - sqr u else 0) / den
  let base := sqr b / 3 * (term1 + term2 + term3)
  let t4 := (sqr a * (if i = j then 2 else 1) + 4 * a * b * mn) / (n - mn + 1)
  let t5 := sqr a * (if 0 ≤ n - ri - rj + 1 then n - ri - rj + 1 else 0) / den
  base + (t4 + t5)

/-- `var_slope` of `_diffusion_ols`: the weights use the lag VALUES, the covariance the lag NUMBERS. -/
def olsVarSlope (lags : List Rat) (n a b : Rat) : Rat :=
  let K : Rat := (lags.length : Rat)
  let alpha := lags.sum
  let beta := (lags.map fun l => l * l).sum
  let den := sqr (K * beta - sqr alpha)
  let il := lags.zipIdx
  (il.flatMap fun r => il.map fun c =>
    (c.1 * K - alpha) * (r.1 * K - alpha) * covEntry n a b (c.2 + 1) (r.2 + 1) / den).sum

structure Est where
  value : Rat
  /-- `std_err ** 2` -/
  var : Rat
  lv : Rat
  /-- `false` when the covariance matrix divides by zero (`n − i + 1 = 0` for a lag number `i = n + 1`, possible
      only for a track with missing frames that yields more distinct lags than it has points): NumPy then
      produces `inf`/`nan` and `std_err` is not a number; `var` is meaningless in that case. -/
  varDefined : Bool := true
deriving Repr, DecidableEq

def ptsOf (rows : List MsdRow) : List (Rat × Rat) := rows.map fun r => ((r.lag : Rat), r.msd)

/-- `_diffusion_ols` + the conversion of `estimate_diffusion_constant_simple`
    (`value = slope/(2 dt)`, `std_err = sqrt(|var_slope|)/(2 dt)`, `localization_variance = intercept/2`).
    `absVar = false` is the variant of `ensemble_ols` (no `abs`, divided by `essMean`). -/
def olsFromRows (rows : List MsdRow) (n : Nat) (dt : Rat) (absVar : Bool) (essMean : Rat) :
    Except String Est :=
  let pts := ptsOf rows
  if olsDen pts = 0 then .error "Error:ZeroDivisionError"
  else
    let (a, b) := olsLine pts
    let v := olsVarSlope (pts.map (·.1)) (n : Rat) a b
    let toTime := 1 / (2 * dt)
    .ok ⟨b * toTime, (if absVar then rabs v else v / essMean) * sqr toTime, a / 2, decide (rows.length ≤ n)⟩

/-- `KymoTrack.estimate_diffusion("ols", max_lag)` for an explicit `max_lag`. -/
def olsEstimate (t : List Pt) (dt : Rat) (maxLag : Int) : Except String Est :=
  if maxLag < 2 then .error "ValueError"
  else olsFromRows (msdCounts t (some maxLag)) t.length dt true 1

/-! ### `weighted_mean_and_sd`, `calculate_ensemble_msd` -/

structure WStats where
  mean : Rat
  var : Rat
  countSum : Rat
  ess : Rat
deriving Repr, DecidableEq

/-- `weighted_mean_and_sd(means, counts)` on the zipped list `(mean, count)`. -/
def weightedMeanSd (mc : List (Rat × Rat)) : Except String WStats :=
  if mc.length ≤ 1 then .error "ValueError"
  else
    let cs := (mc.map (·.2)).sum
    let wm := (mc.map fun p => p.1 * p.2).sum / cs
    let csq := (mc.map fun p => sqr p.2).sum
    let norm := cs / (sqr cs - csq)
    let var := (mc.map fun p => p.2 * sqr (p.1 - wm)).sum * norm
    .ok ⟨wm, var, cs, sqr cs / csq⟩

structure EnsRow where
  lag : Int
  st : WStats
deriving Repr, DecidableEq

/-- `merge_track_msds` + the per-lag statistics of `calculate_ensemble_msd`. -/
def ensembleMsdRows (tracks : List (List MsdRow)) (minCount : Int) : Except String (List EnsRow) :=
  if tracks.length < 2 then .error "ValueError"
  else
    let flat := tracks.flatten
    let lags := uniqueSorted (flat.map (·.lag))
    let kept := lags.filter fun u => decide (minCount ≤ ((flat.countP fun r => r.lag == u : Nat) : Int))
    match kept.mapM (fun u =>
      (weightedMeanSd ((flat.filter fun r => r.lag == u).map fun r => (r.msd, (r.count : Rat)))).map
        fun st => (⟨u, st⟩ : EnsRow)) with
    | .error e => .error e
    | .ok rows => if rows.isEmpty then .error "ValueError" else .ok rows

/-- `KymoTrackGroup.ensemble_msd(max_lag, min_count)`. -/
def ensembleMsd (tracks : List (List Pt)) (maxLag : Option Int) (minCount : Int) :
    Except String (List EnsRow) :=
  ensembleMsdRows (tracks.map fun t => msdCounts t maxLag) minCount

/-! ### `ensemble_cve`, `ensemble_ols` -/

/-- `mean_var(x, count, count_sum)` inside `ensemble_cve` (eqs. 57/58 of Vestergaard et al.). -/
def meanVar (xc : List (Rat × Rat)) : Rat × Rat :=
  let cs := (xc.map (·.2)).sum
  let wm := (xc.map fun p => p.1 * p.2).sum / cs
  (wm, (xc.map fun p => p.2 * sqr (p.1 - wm)).sum / (((xc.length : Rat) - 1) * cs))

structure EnsCve where
  value : Rat
  var : Rat
  lv : Rat
  /-- variance of the localisation variance; for a single track: the (absent) input, printed as 0 -/
  vlv : Rat
  numPoints : Nat
deriving Repr, DecidableEq

/-- `KymoTrackGroup.ensemble_diffusion("cve")` for tracks of one kymograph. -/
def ensembleCve (tracks : List (List Pt)) (dt R : Rat) : Except String EnsCve :=
  let long := tracks.filter fun t => decide (3 ≤ t.length)
  match long.mapM (fun t => (cve t dt R none none).map fun c => (c, t.length)) with
  | .error e => .error e
  | .ok [] => .error "IndexError"
  | .ok [(c, n)] => .ok ⟨c.D, c.var, c.lv, 0, n⟩
  | .ok cs =>
    let (v, vv) := meanVar (cs.map fun p => (p.1.D, (p.2 : Rat)))
    let (l, lv) := meanVar (cs.map fun p => (p.1.lv, (p.2 : Rat)))
    .ok ⟨v, vv, l, lv, (cs.map (·.2)).sum⟩

/-- `KymoTrackGroup.ensemble_diffusion("ols", max_lag=L)` for an explicit (non-zero) `L`. -/
def ensembleOls (tracks : List (List Pt)) (dt : Rat) (maxLag : Int) : Except String Est :=
  match ensembleMsd tracks (some maxLag) 2 with
  | .error e => .error e
  | .ok rows =>
    let n := rows.length + 1
    let used := pySlice rows 0 maxLag
    let essMean := mean (rows.map (·.st.ess))
    olsFromRows (used.map fun r => ⟨r.lag, r.st.mean, 0⟩) n dt false essMean

/-! ### `calculate_localization_error`, `optimal_points`, `determine_optimal_points`,
    `_determine_optimal_points_ensemble` — the automatic number of lags (`max_lag=None`) -/

/-- what `calculate_localization_error` returns -/
inductive LocErr where
  /-- `0` (negative intercept) or `intercept / slope` -/
  | fin (q : Rat)
  /-- negative slope, or a positive intercept over a zero slope (IEEE division) -/
  | inf
  /-- `0 / 0` -/
  | nan
deriving Repr, DecidableEq

/-- `calculate_localization_error(frame_lags, msd)`: `np.polyfit(…, 1)` is the least-squares line; the branches are taken
    on the SIGNS of intercept and slope. -/
def locErr (pts : List (Rat × Rat)) : LocErr :=
  let ab := olsLine pts
  if ab.1 < 0 then .fin 0
  else if ab.2 < 0 then .inf
  else if ab.2 = 0 then (if ab.1 = 0 then .nan else .inf)
  else .fin (ab.1 / ab.2)

/-- the type of `optimal_points(localization_error, num_points)` → `(num_points_slope, num_points_intercept)`.
    The theorems hold for EVERY such function; the run uses `optimalPointsF` (Michalet & Berglund's empirical formulas,
    evaluated in doubles). -/
abbrev OptPts := LocErr → Nat → Except String (Nat × Nat)

/-- the local variables of `determine_optimal_points` -/
structure OptState where
  numSlope : Nat
  numIntercept : Nat
  /-- `number_computed`: how many lags the cached MSD curve holds -/
  numberComputed : Nat
  /-- the cached `frame_lags, msd` (last `calculate_msd` result) -/
  rows : List MsdRow
  /-- `num_slopes` (a set) -/
  seen : List Nat
deriving Repr

def optInit (n : Nat) : OptState := ⟨max 2 (n / 10), max 2 (n / 10), 0, [], []⟩

/-- `if required_points > number_computed: frame_lags, msd = calculate_msd(…, required_points)` -/
def refresh (t : List Pt) (s : OptState) : OptState :=
  let req := max s.numIntercept s.numSlope
  if s.numberComputed < req then { s with rows := msdCounts t (some (req : Int)), numberComputed := req } else s

/-- the `for` loop of `determine_optimal_points` (`fuel` iterations left): the MSD curve is recomputed only when more
    lags are needed than are cached, the fit takes the first `num_slope` cached points; falling out of the loop returns
    the current pair (with a warning). -/
def optLoop (op : OptPts) (t : List Pt) : Nat → OptState → Except String (Nat × Nat)
  | 0, s => .ok (s.numSlope, s.numIntercept)
  | fuel + 1, s =>
    let s1 := refresh t s
    if t.length ≤ 4 then .error "RuntimeError"
    else match op (locErr (ptsOf (s1.rows.take s1.numSlope))) t.length with
      | .error e => .error e
      | .ok nxt =>
        if nxt.1 ∈ s1.numSlope :: s1.seen then .ok nxt
        else optLoop op t fuel { s1 with numSlope := nxt.1, numIntercept := nxt.2, seen := s1.numSlope :: s1.seen }

/-- `determine_optimal_points(frame_idx, coordinate)` (`max_iterations = 100`). -/
def detOpt (op : OptPts) (t : List Pt) : Except String (Nat × Nat) := optLoop op t 100 (optInit t.length)

/-- the loop of `_determine_optimal_points_ensemble(frame_lags, msds, n_coord)` on the complete ensemble curve. -/
def optLoopEns (op : OptPts) (pts : List (Rat × Rat)) (n : Nat) : Nat → Nat → List Nat → Except String Nat
  | 0, cur, _ => .ok cur
  | fuel + 1, cur, seen =>
    match op (locErr (pts.take cur)) n with
    | .error e => .error e
    | .ok nxt => if nxt.1 ∈ cur :: seen then .ok nxt.1 else optLoopEns op pts n fuel nxt.1 (cur :: seen)

def detOptEns (op : OptPts) (pts : List (Rat × Rat)) (n : Nat) : Except String Nat :=
  optLoopEns op pts n 100 (max 2 (n / 10)) []

/-- `KymoTrack.estimate_diffusion("ols")` (`max_lag=None`): the estimate and the number of lags it reports. -/
def olsAuto (op : OptPts) (t : List Pt) (dt : Rat) : Except String (Est × Nat) :=
  match detOpt op t with
  | .error e => .error e
  | .ok k => (olsEstimate t dt (k.1 : Int)).map fun e => (e, k.1)

/-- `KymoTrackGroup.ensemble_diffusion("ols")` (`max_lag=None`): all lags of the ensemble MSD, `lags + 1` for the track
    length, the number of lags from `_determine_optimal_points_ensemble`, the line through `lags[:optimal_lags]`. -/
def ensembleOlsAuto (op : OptPts) (tracks : List (List Pt)) (dt : Rat) : Except String (Est × Nat) :=
  match ensembleMsd tracks none 2 with
  | .error e => .error e
  | .ok rows =>
    let n := rows.length + 1
    match detOptEns op (rows.map fun r => ((r.lag : Rat), r.st.mean)) n with
    | .error e => .error e
    | .ok k =>
      (olsFromRows ((rows.take k).map fun r => ⟨r.lag, r.st.mean, 0⟩) n dt false (mean (rows.map (·.st.ess)))).map
        fun e => (e, k)

/-! #### `optimal_points` in doubles (the instance the run executes) -/

section
variable {α : Type} [RealLike α]
/-- `x ** y` for `x ≥ 0` -/
def rpow (x y : α) : α := RealLike.exp (y * RealLike.log x)
def limitA (n : α) : α := 3.0 + rpow (4.5 * rpow n 0.4 - 8.5) 1.2
def limitB (n : α) : α := 0.8 + 0.564 * n
def factorA (le : α) : α := 2.0 + 1.6 * rpow le 0.51
def factorB (le : α) : α := 2.0 + 1.35 * rpow le 0.6
/-- `f * limit / (f**3 + limit**3) ** (1/3)` -/
def satur (f lim : α) : α := f * lim / RealLike.cbrt (f * f * f + lim * lim * lim)
end

/-- a rational as the nearest double (up to 2⁻⁶³ relative), also for numerators / denominators beyond the double range -/
def ratToFloat (q : Rat) : Float :=
  let n := q.num.natAbs
  let d := q.den
  if n = 0 then 0.0
  else
    let shift : Int := 64 + (d.log2 : Int) - (n.log2 : Int)
    let m : Nat := if 0 ≤ shift then (n <<< shift.toNat) / d else n / (d <<< (-shift).toNat)
    let f := (Float.ofNat m).scaleB (-shift)
    if q.num < 0 then -f else f

/-- `int(np.floor(v))` for `v ≥ 0` -/
def floorNat (v : Float) : Nat := v.floor.toUInt64.toNat

/-- the pre-`floor` values `(slope bound, slope, intercept)` of `optimal_points` for a finite localisation error -/
def optRaw (q : Rat) (n : Nat) : Float × Float × Float :=
  let nf := n.toFloat
  let x := ratToFloat q
  (limitB nf, satur (factorB x) (limitB nf), satur (factorA x) (limitA nf))

/-- `optimal_points(localization_error, num_points)` -/
def optimalPointsF : OptPts := fun le n =>
  if n ≤ 4 then .error "RuntimeError"
  else match le with
    | .nan => .error "ValueError"   -- `int(nan)`
    | .inf => .ok (max 2 (floorNat (limitB n.toFloat)), max 2 (floorNat (limitA n.toFloat)))
    | .fin q =>
      let r := optRaw q n
      .ok (max 2 (min (floorNat r.1) (floorNat r.2.1)), max 2 (floorNat r.2.2))

/-- is a `floor` of `optimal_points` taken within 1e-6 of an integer (where the last bits of `pow` decide)?  Only the
    values that go through `pow`/`cbrt`; `0.8 + 0.564 n` is the same double here and there. -/
def floorTie (le : LocErr) (n : Nat) : Bool :=
  let close (v : Float) : Bool := (v - (v + 0.5).floor).abs < 1e-6
  match le with
  | .nan => false
  | .inf => close (limitA n.toFloat)
  | .fin q => let r := optRaw q n; close r.2.1 || close r.2.2

/-- `optimalPointsF`, answering the pseudo-error `tie` where `floorTie` holds (correspondence check only) -/
def optimalPointsT : OptPts := fun le n =>
  if n ≤ 4 then optimalPointsF le n else if floorTie le n then .error "tie" else optimalPointsF le n

/-- is, for some number `p ≥ 2` of leading points, the intercept or the slope of the least-squares line through the first
    `p` points zero within 1e-7 of the size of its terms?  There the branch of `locErr` is taken on the rounding noise of
    `np.polyfit` (correspondence check only; no theorem is about it). -/
def signTies (pts : List (Rat × Rat)) : Bool :=
  (List.range (pts.length + 1)).any fun p =>
    let q := pts.take p
    decide (2 ≤ p) && decide (olsDen q ≠ 0) &&
      (let K : Rat := (q.length : Rat)
       let alpha := (q.map (·.1)).sum
       let beta := (q.map fun x => x.1 * x.1).sum
       let gamma := (q.map (·.2)).sum
       let delta := (q.map fun x => x.1 * x.2).sum
       let ga := (q.map fun x => rabs x.2).sum
       let de := (q.map fun x => rabs (x.1 * x.2)).sum
       decide (rabs (beta * gamma - alpha * delta) ≤ (1 / 10000000 : Rat) * (beta * ga + rabs alpha * de)) ||
       decide (rabs (K * delta - alpha * gamma) ≤ (1 / 10000000 : Rat) * (K * de + rabs alpha * ga)))

/-! ### `KymoTrack.estimate_diffusion` — the dispatcher: argument validation, option handling, defaults -/

/-- `any(np.diff(frame_idx) > 1)` -/
def hasGap (t : List Pt) : Bool := (diffI (t.map (·.1))).any fun d => decide (1 < d)

/-- `_diffusion_gls` as a function of `(lags, msd)` and the number of points → `(intercept, slope, var_slope)`; the dispatcher
    is modelled for EVERY such function. -/
abbrev GlsFn := List MsdRow → Nat → Except String (Rat × Rat × Rat)

/-- `estimate_diffusion_constant_simple(frame_idx, coordinate, time_step, max_lag, method)` for `method ∈ {ols, gls}`:
    `max_lag < 2` is refused first, then GLS refuses missing frames; `std_err = sqrt(|var_slope|)/(2 dt)`. -/
def estimateSimple (glsFn : GlsFn) (t : List Pt) (dt : Rat) (maxLag : Int) (gls : Bool) : Except String Est :=
  if maxLag < 2 then .error "ValueError"
  else if gls then
    if hasGap t then .error "RuntimeError"
    else match glsFn (msdCounts t (some maxLag)) t.length with
      | .error e => .error e
      | .ok r =>
        let toTime := 1 / (2 * dt)
        .ok ⟨r.2.1 * toTime, rabs r.2.2 * sqr toTime, r.1 / 2, true⟩
  else olsFromRows (msdCounts t (some maxLag)) t.length dt true 1

/-- `KymoTrack.estimate_diffusion(method, max_lag, localization_variance, variance_of_localization_variance)` on a
    kymograph with blur constant `R`: returns the estimate and `num_lags` (`none` for cve).
    `max_lag if max_lag else …`: `None` AND `0` mean "choose"; ols then asks `determine_optimal_points`, gls takes
    `len(frame_idx)`. -/
def estimateDiffusion (op : OptPts) (glsFn : GlsFn) (t : List Pt) (dt R : Rat) (method : String) (maxLag : Option Int)
    (lv vlv : Option Rat) : Except String (Est × Option Int) :=
  if method ≠ "cve" ∧ method ≠ "gls" ∧ method ≠ "ols" then .error "ValueError"
  else if method = "cve" then (cve t dt R lv vlv).map fun c => (⟨c.D, c.var, c.lv, true⟩, none)
  else if lv.isSome ∨ vlv.isSome then .error "NotImplementedError"
  else
    let chosen : Except String Int :=
      match maxLag with
      | some L => if L ≠ 0 then .ok L
                  else if method = "ols" then (detOpt op t).map fun k => (k.1 : Int) else .ok (t.length : Int)
      | none => if method = "ols" then (detOpt op t).map fun k => (k.1 : Int) else .ok (t.length : Int)
    match chosen with
    | .error e => .error e
    | .ok L => (estimateSimple glsFn t dt L (method = "gls")).map fun e => (e, some L)

/-! ### Strengthening round H: the inputs of the anchored functions that the tracks of ONE blur-calibrated kymograph never
    reach — the iteration budget and the storage check of `determine_optimal_points`, kymographs without a motion blur
    constant / integrated over disjoint time windows, groups that mix kymographs -/

/-- `determine_optimal_points(frame_idx, coordinate, max_iterations)`; `intStorage` is
    `np.issubdtype(frame_idx.dtype, np.integer)` (checked before anything else). Falling out of the `for` loop returns
    the pair the last `optimal_points` call produced ("Returning best solution"). -/
def detOptIter (op : OptPts) (t : List Pt) (intStorage : Bool) (maxIter : Nat) : Except String (Nat × Nat) :=
  if !intStorage then .error "TypeError" else optLoop op t maxIter (optInit t.length)

/-- what `KymoTrack.estimate_diffusion` reads from the kymograph besides the line time -/
inductive KymoKind where
  /-- contiguous, motion blur constant `R` defined -/
  | blur (R : Rat)
  /-- contiguous, `motion_blur_constant` raises `NotImplementedError` (kymograph from an array, position-downsampled) -/
  | noBlur
  /-- `contiguous = False`: pixels integrated over disjoint sections of time (temporally downsampled) -/
  | disjoint
deriving Repr, DecidableEq

/-- `KymoTrack.estimate_diffusion` on any kymograph kind. The third component is `true` when only the VALUE is
    available (`blur = nan`: the variance and the localisation variance are `nan`): cve without a blur constant refuses
    a (truthy) localisation variance, otherwise returns Vestergaard's `D`, which does not contain the blur constant. -/
def estimateOnKymo (op : OptPts) (glsFn : GlsFn) (t : List Pt) (dt : Rat) (k : KymoKind) (method : String)
    (maxLag : Option Int) (lv vlv : Option Rat) : Except String (Est × Option Int × Bool) :=
  if method ≠ "cve" ∧ method ≠ "gls" ∧ method ≠ "ols" then .error "ValueError"
  else match k with
  | .disjoint => .error "NotImplementedError"
  | .blur R => (estimateDiffusion op glsFn t dt R method maxLag lv vlv).map fun r => (r.1, r.2, false)
  | .noBlur =>
    if method = "cve" then
      if (match lv with | some l => decide (l ≠ 0) | none => false) then .error "ValueError"
      else if t.length < 3 then .error "RuntimeError"
      else .ok (⟨(cveUnknown t.length (avgStep t) (m2 t) (mc t) dt 0).D, 0, 0, false⟩, none, true)
    else (estimateDiffusion op glsFn t dt 0 method maxLag lv vlv).map fun r => (r.1, r.2, false)

/-- `KymoTrackGroup.ensemble_diffusion("cve")` for tracks of SEVERAL kymographs (every track with the line time and the
    blur constant of its own kymograph; positions in the common length unit): value and variance are the same weighted
    mean (eqs. 57/58) over the per-track estimates; the localisation variance is not calculated (`nan`) unless a single
    track is usable. Returns (value, variance, number of points). -/
def ensembleCveMixed (tracks : List (List Pt × Rat × Rat)) : Except String (Rat × Rat × Nat) :=
  let long := tracks.filter fun t => decide (3 ≤ t.1.length)
  match long.mapM (fun t => (cve t.1 t.2.1 t.2.2 none none).map fun c => (c, t.1.length)) with
  | .error e => .error e
  | .ok [] => .error "IndexError"
  | .ok [(c, n)] => .ok (c.D, c.var, n)
  | .ok cs =>
    let (v, vv) := meanVar (cs.map fun p => (p.1.D, (p.2 : Rat)))
    .ok (v, vv, (cs.map (·.2)).sum)


/-- the GLS function of a run that only exercises the error branches of the dispatcher -/
def glsUnmodelled : GlsFn := fun _ _ => .error "gls-not-modelled"

/-! ### `_update_gls_estimate` (one step of the GLS fixed-point iteration) -/

/-- `np.sum(f(i, j) * inverse_cov)` for an index-dependent factor: the sum over all cells `[r, c]` of `f r c w` -/
def sum2 (W : List (List Rat)) (f : Nat → Nat → Rat → Rat) : Rat :=
  (W.zipIdx.map fun rw => (rw.1.zipIdx.map fun cw => f rw.2 cw.2 cw.1).sum).sum

structure GlsUpd where
  change : Rat
  slope : Rat
  intercept : Rat
  varSlope : Rat
deriving Repr, DecidableEq

/-- the five sums `kappa, lam, mu, nu, xi` of `_update_gls_estimate` (`i[r, c] = r + 1`, `j[r, c] = c + 1`,
    `mean_squared_displacements * inverse_cov` broadcasts along the LAST axis: `msd[c] * W[r, c]`) -/
def glsKappa (W : List (List Rat)) : Rat := sum2 W fun _ _ w => w
def glsLam (W : List (List Rat)) : Rat := sum2 W fun r _ w => ((r : Rat) + 1) * w
def glsMu (W : List (List Rat)) : Rat := sum2 W fun r c w => ((r : Rat) + 1) * ((c : Rat) + 1) * w
def glsNu (W : List (List Rat)) (msd : List Rat) : Rat := sum2 W fun _ c w => msd.getD c 0 * w
def glsXi (W : List (List Rat)) (msd : List Rat) : Rat := sum2 W fun r c w => ((r : Rat) + 1) * msd.getD c 0 * w

/-- `_update_gls_estimate(inverse_cov, mean_squared_displacements, intercept, slope)` -/
def glsUpdate (W : List (List Rat)) (msd : List Rat) (a b : Rat) : GlsUpd :=
  let kappa := glsKappa W
  let lam := glsLam W
  let mu := glsMu W
  let nu := glsNu W msd
  let xi := glsXi W msd
  let inv := 1 / (kappa * mu - lam * lam)
  let a' := (mu * nu - lam * xi) * inv
  let b' := (kappa * xi - lam * nu) * inv
  ⟨rabs (a' - a) + rabs (b' - b), b', a', kappa / (kappa * mu - lam * lam)⟩


/-- `_msd_diffusion_covariance(K, n, intercept, slope)` as a matrix -/
def covMatrix (K : Nat) (n a b : Rat) : List (List Rat) :=
  (List.range K).map fun r => (List.range K).map fun c => covEntry n a b (c + 1) (r + 1)

/-- tolerance scales of `glsUpdate` `(slope, intercept, varSlope)`: absolute values instead of differences, times the
    cancellation factor of the denominator (correspondence check only) -/
def glsUpdateAbs (W : List (List Rat)) (msd : List Rat) : Rat × Rat × Rat :=
  let kappa := sum2 W fun _ _ w => rabs w
  let lam := sum2 W fun r _ w => ((r : Rat) + 1) * rabs w
  let mu := sum2 W fun r c w => ((r : Rat) + 1) * ((c : Rat) + 1) * rabs w
  let nu := sum2 W fun _ c w => rabs (msd.getD c 0 * w)
  let xi := sum2 W fun r c w => ((r : Rat) + 1) * rabs (msd.getD c 0 * w)
  let den := rabs (glsKappa W * glsMu W - glsLam W * glsLam W)
  let cancel := (kappa * mu + lam * lam) / den
  ((kappa * xi + lam * nu) / den * cancel, (mu * nu + lam * xi) / den * cancel, kappa / den * cancel)

/-! ### `_diffusion_gls` — the fixed-point iteration.  Parameters of the model: the matrix inverse `inv` (the run uses
    Gauss–Jordan elimination over `ℚ`, `matInv`; the code `np.linalg.inv`) and the rounding `rnd` of the iterated state
    `(intercept, slope)` (the run rounds to the nearest double, as the code's state variables are doubles — this also keeps
    the exact rationals from growing from iteration to iteration; the theorems hold for every `inv` and `rnd`). -/

/-- `tolerance` -/
def glsTol : Rat := 1 / 10000

/-- `fallback`: `_diffusion_ols(lag_idx[:2], mean_squared_displacements[:2], num_points)` -/
def glsFallback (rows : List MsdRow) (n : Nat) : Except String (Rat × Rat × Rat) :=
  let pts := ptsOf (rows.take 2)
  if olsDen pts = 0 then .error "Error:ZeroDivisionError"
  else
    let ab := olsLine pts
    .ok (ab.1, ab.2, olsVarSlope (pts.map (·.1)) (n : Rat) ab.1 ab.2)

/-- the `for … else` loop of `_diffusion_gls` (`fuel` iterations left; falling out of it is the fallback) -/
def glsLoop (inv : List (List Rat) → Option (List (List Rat))) (rnd : Rat → Rat) (rows : List MsdRow) (msd : List Rat)
    (n : Nat) : Nat → Rat → Rat → Except String (Rat × Rat × Rat)
  | 0, _, _ => glsFallback rows n
  | fuel + 1, a, b =>
    match inv (covMatrix msd.length (n : Rat) a b) with
    | none => glsFallback rows n
    | some W =>
      if glsKappa W * glsMu W - glsLam W * glsLam W = 0 then .error "nonfinite"
      else
        let u := glsUpdate W msd a b
        let a' := rnd u.intercept
        let b' := rnd u.slope
        if rabs (a' - a) + rabs (b' - b) < glsTol then .ok (a', b', u.varSlope)
        else glsLoop inv rnd rows msd n fuel a' b'

/-- `_diffusion_gls(lag_idx, mean_squared_displacements, num_points)` -/
def glsFit (inv : List (List Rat) → Option (List (List Rat))) (rnd : Rat → Rat) : GlsFn := fun rows n =>
  match rows.map (·.msd) with
  | m0 :: m1 :: rest => glsLoop inv rnd rows (m0 :: m1 :: rest) n 100 (2 * m0 - m1) (m1 - m0)
  | _ => .error "IndexError"

/-! #### the instances the run executes -/

/-- one column of Gauss–Jordan elimination on the augmented matrix: pivot = first row at or below the diagonal with a
    non-zero entry -/
def gjStep (A : List (List Rat)) (c : Nat) : Option (List (List Rat)) :=
  match (A.drop c).findIdx? (fun row => row.getD c 0 != 0) with
  | none => none
  | some k =>
    let i := c + k
    let pr := A.getD i []
    let p := pr.getD c 0
    let prN := pr.map (· / p)
    let A1 := (A.set i (A.getD c [])).set c prN
    some (A1.zipIdx.map fun rw =>
      if rw.2 = c then rw.1 else List.zipWith (fun x y => x - rw.1.getD c 0 * y) rw.1 prN)

/-- the inverse of a square matrix over `ℚ` (`none` when singular) -/
def matInv (M : List (List Rat)) : Option (List (List Rat)) :=
  let K := M.length
  let aug := M.zipIdx.map fun rw => rw.1 ++ (List.range K).map fun j => if rw.2 = j then (1 : Rat) else 0
  ((List.range K).foldlM gjStep aug).map fun A => A.map (·.drop K)

/-- the exact value of a finite double -/
def floatToRat (f : Float) : Rat :=
  let b : Nat := f.toBits.toNat
  let e : Nat := (b >>> 52) % 2048
  let m : Nat := b % 2 ^ 52
  let full : Nat := m + 2 ^ 52
  let mag : Rat :=
    if e = 0 then (m : Rat) / ((2 ^ 1074 : Nat) : Rat)
    else if 1075 ≤ e then ((full * 2 ^ (e - 1075) : Nat) : Rat)
    else (full : Rat) / ((2 ^ (1075 - e) : Nat) : Rat)
  if b >>> 63 = 1 then -mag else mag

/-- round to the nearest double -/
def rndDouble (q : Rat) : Rat := floatToRat (ratToFloat q)

/-- is some iteration's stop criterion `change < tolerance` within 1e-3·tolerance of equality (the run's instance; the
    correspondence check does not compare such cases)? -/
def glsTieLoop (rows : List MsdRow) (msd : List Rat) (n : Nat) : Nat → Rat → Rat → Bool
  | 0, _, _ => false
  | fuel + 1, a, b =>
    match matInv (covMatrix msd.length (n : Rat) a b) with
    | none => false
    | some W =>
      if glsKappa W * glsMu W - glsLam W * glsLam W = 0 then false
      else
        let u := glsUpdate W msd a b
        let a' := rndDouble u.intercept
        let b' := rndDouble u.slope
        let ch := rabs (a' - a) + rabs (b' - b)
        if rabs (ch - glsTol) ≤ glsTol / 1000 + (rabs a' + rabs b') / 1000000000 then true
        else if ch < glsTol then false
        else glsTieLoop rows msd n fuel a' b'

def glsModelled : GlsFn := fun rows n =>
  match rows.map (·.msd) with
  | m0 :: m1 :: rest =>
    if glsTieLoop rows (m0 :: m1 :: rest) n 100 (2 * m0 - m1) (m1 - m0) then .error "tie"
    else glsFit matInv rndDouble rows n
  | _ => glsFit matInv rndDouble rows n

/-! ### tolerance scales (DESIGN §2.2) — the same formulas with every subtraction replaced by an
    addition of absolute values; used only by the correspondence check to bound the rounding error of
    the implementation's doubles in a conditioning-aware way.  No theorem is about them. -/

def mcAbs (t : List Pt) : Rat := mean ((consec (dxs t)).map rabs)

def varUnknownAbs (D lv dt : Rat) (n : Nat) (R s : Rat) : Rat :=
  let eps := lv / dt + 2 * R * D
  let ad := s * D
  (6 * sqr ad + 4 * eps * ad + 2 * sqr eps) / ((n : Rat) * sqr s) + 4 * sqr (ad + eps) / (sqr (n : Rat) * sqr s)

def varKnownAbs (D lv vlv dt : Rat) (n : Nat) (R s : Rat) : Rat :=
  let eps := lv / dt + 2 * R * D
  let bt := sqr (s - 2 * R)
  let ad := s * D
  (2 * sqr ad + 4 * eps * ad + 3 * sqr eps) / ((n : Rat) * bt) + vlv / (bt * sqr dt)

def cveScale (t : List Pt) (dt R : Rat) (lv vlv : Option Rat) : Cve :=
  let s := avgStep t
  let known : Option (Rat × Rat) := match lv, vlv with
    | some l, some v => if l = 0 then none else some (l, v)
    | _, _ => none
  match known with
  | none =>
    let D := m2 t / (2 * (s * dt)) + mcAbs t / (s * dt)
    let l := R * m2 t + rabs (2 * R - 1) * mcAbs t
    ⟨D, varUnknownAbs D l dt t.length R s, l⟩
  | some (l, v) =>
    let D := (m2 t + 2 * rabs l) / (2 * (s * dt - 2 * R * dt))
    ⟨D, varKnownAbs D (rabs l) (rabs v) dt t.length R s, rabs l⟩

def olsLineAbs (pts : List (Rat × Rat)) : Rat × Rat :=
  let K : Rat := (pts.length : Rat)
  let alpha := (pts.map fun p => rabs p.1).sum
  let beta := (pts.map fun p => p.1 * p.1).sum
  let gamma := (pts.map fun p => rabs p.2).sum
  let delta := (pts.map fun p => rabs (p.1 * p.2)).sum
  let inv := rabs (1 / olsDen pts)
  ((beta * gamma + alpha * delta) * inv, (K * delta + alpha * gamma) * inv)

/-- `covEntryAbs n a b i j = b²·X + a²·Y + a·b·Z` with every subtraction of `covEntry` turned into an
    addition of absolute values; returns the coefficients `(X, Y, Z)` (small rationals). -/
def covCoefAbs (n : Rat) (i j : Nat) : Rat × Rat × Rat :=
  let ri : Rat := (i : Rat)
  let rj : Rat := (j : Rat)
  let mn : Rat := ((min i j : Nat) : Rat)
  let term1 := 2 * mn * (1 + 3 * ri * rj + sqr mn) / rabs (n - mn + 1)
  let den := rabs ((n - ri + 1) * (n - rj + 1))
  let term2 := (sqr mn + sqr (sqr mn)) / den
  let u := n + 1 - ri - rj
  let term3 := (if 0 ≤ ri + rj - n - 2 then sqr (sqr u) + sqr u else 0) / den
  ((term1 + term2 + term3) / 3, 2 / rabs (n - mn + 1) + (rabs n + ri + rj + 1) / den, 4 * mn / rabs (n - mn + 1))

def olsVarSlopeAbs (lags : List Rat) (n a b : Rat) : Rat :=
  let K : Rat := (lags.length : Rat)
  let alpha := lags.sum
  let beta := (lags.map fun l => l * l).sum
  let den := sqr (K * beta - sqr alpha)
  let il := lags.zipIdx
  let acc := il.foldl (fun acc r => il.foldl (fun (acc : Rat × Rat × Rat) c =>
    let w := (rabs (c.1 * K) + rabs alpha) * (rabs (r.1 * K) + rabs alpha)
    let (x, y, z) := covCoefAbs n (c.2 + 1) (r.2 + 1)
    (acc.1 + w * x, acc.2.1 + w * y, acc.2.2 + w * z)) acc) ((0, 0, 0) : Rat × Rat × Rat)
  (sqr b * acc.1 + sqr a * acc.2.1 + a * b * acc.2.2) / den

def olsScaleFromRows (rows : List MsdRow) (n : Nat) (dt : Rat) (essMean : Rat) : Est :=
  let pts := ptsOf rows
  let (a, b) := olsLineAbs pts
  let v := olsVarSlopeAbs (pts.map (·.1)) (n : Rat) a b
  let toTime := rabs (1 / (2 * dt))
  ⟨b * toTime, v / rabs essMean * sqr toTime, a / 2, true⟩

def weightedVarScale (mc : List (Rat × Rat)) : Rat :=
  let cs := (mc.map (·.2)).sum
  let wm := (mc.map fun p => rabs p.1 * p.2).sum / cs
  let csq := (mc.map fun p => sqr p.2).sum
  (mc.map fun p => p.2 * sqr (rabs p.1 + wm)).sum * (cs / (sqr cs - csq))

def meanVarScale (xc : List (Rat × Rat)) : Rat × Rat :=
  let cs := (xc.map (·.2)).sum
  let wm := (xc.map fun p => rabs p.1 * p.2).sum / cs
  (wm, (xc.map fun p => p.2 * sqr (rabs p.1 + wm)).sum / (((xc.length : Rat) - 1) * cs))

/-! ### protocol -/
open Verif.Proto

def optRat? (s : String) : Option (Option Rat) := if s == "N" then some none else (rat? s).map some

def mkTrack? (fs xs : String) : Option (List Pt) := do
  let fs ← intList? fs
  let xs ← ratList? xs
  if fs.length = xs.length then some (fs.zip xs) else none

/-- tracks as `[f,f,…;f,…]` and `[x,x,…;x,…]` -/
def mkTracks? (fs xs : String) : Option (List (List Pt)) := do
  let fs ← intListList? fs
  let xs ← ratListList? xs
  if fs.length = xs.length ∧ (fs.zip xs).all (fun p => p.1.length == p.2.length) then
    some ((fs.zip xs).map fun p => p.1.zip p.2)
  else none

def showExcept {α} (f : α → String) : Except String α → String
  | .ok a => "ok " ++ f a
  | .error e => e

def showRats (l : List Rat) : String := " ".intercalate (l.map showRat)

def showEnsRows (rows : List EnsRow) : String :=
  showIntList (rows.map (·.lag)) ++ " " ++ showRatList (rows.map (·.st.mean)) ++ " "
    ++ showRatList (rows.map (·.st.var)) ++ " " ++ showRatList (rows.map (·.st.countSum)) ++ " "
    ++ showRatList (rows.map (·.st.ess))

/-- the per-lag variance scales of an ensemble MSD (same regrouping as `ensembleMsdRows`). -/
def ensembleVarScales (tracks : List (List MsdRow)) (lags : List Int) : List Rat :=
  let flat := tracks.flatten
  lags.map fun u => weightedVarScale ((flat.filter fun r => r.lag == u).map fun r => (r.msd, (r.count : Rat)))

/-- ops (answers: `ok …` or the name of the exception the code raises):
  `c09.msd  [frames] [xs] L|N`            → `ok [lags] [counts] [msd]`
  `c09.kmsd [frames] [xs] dt L|N`         → `ok [lag·dt] [msd]`
  `c09.cve  [frames] [xs] dt R lv|N vlv|N` → `ok D var lv  sD sVar sLv`  (s* = tolerance scales)
  `c09.ols  [frames] [xs] dt L`           → `ok value var lv  sValue sVar sLv`
  `c09.cov  K n a b`                      → `ok [row;row;…]`  (`_msd_diffusion_covariance`)
  `c09.wmean [means] [counts]`            → `ok mean var countSum ess  sVar`
  `c09.ensmsd [f;f…] [x;x…] L|N minCount` → `ok [lags] [mean] [var] [counts] [ess] [sVar]`
  `c09.enscve [f;…] [x;…] dt R`           → `ok value var lv vlv numPoints  sValue sVar sLv sVlv`
  `c09.ensols [f;…] [x;…] dt L`           → `ok value var lv  sValue sVar sLv`
  `c09.optpts [frames] [xs]`              → `ok numSlope numIntercept`  (`determine_optimal_points`) | `tie`
  `c09.olsauto [frames] [xs] dt`          → `ok value var lv numLags  sValue sVar sLv` (`max_lag=None`) | `tie`
  `c09.ensolsauto [f;…] [x;…] dt`         → `ok value var lv numLags  sValue sVar sLv` | `tie`
  `c09.optraw le|inf|nan n`               → `ok numSlope numIntercept`  (`optimal_points`) | `tie`
  `c09.glsupd [row;row;…] [msd] a b`      → `ok change slope intercept varSlope  sSlope sIntercept sVar` (`_update_gls_estimate`)
  `c09.est [frames] [xs] dt R method L|N lv|N vlv|N` → `ok value var lv numLags|N` (`KymoTrack.estimate_diffusion`, the dispatcher;
                                             a GLS fit of a track of more than 7 points answers `gls-not-modelled`:
                                             exact elimination is too slow there; `tie` also when a GLS stop criterion is within 0.1 %)
  (`tie`: a sign / `floor` the code branches on is decided by the last bits of a double: nothing to compare) -/
def handle : List String → Option String
  | ["c09.msd", fs, xs, L] => do
    let t ← mkTrack? fs xs
    let L ← optInt? L
    let rows := msdCounts t L
    some ("ok " ++ showIntList (rows.map (·.lag)) ++ " " ++ showNatList (rows.map (·.count)) ++ " "
      ++ showRatList (rows.map (·.msd)))
  | ["c09.kmsd", fs, xs, dt, L] => do
    let t ← mkTrack? fs xs
    let dt ← rat? dt
    let L ← optInt? L
    let r := kymoMsd t dt L
    some ("ok " ++ showRatList (r.map (·.1)) ++ " " ++ showRatList (r.map (·.2)))
  | ["c09.cve", fs, xs, dt, R, lv, vlv] => do
    let t ← mkTrack? fs xs
    let dt ← rat? dt
    let R ← rat? R
    let lv ← optRat? lv
    let vlv ← optRat? vlv
    some (showExcept (fun (c : Cve) =>
      let s := cveScale t dt R lv vlv
      showRats [c.D, c.var, c.lv, s.D, s.var, s.lv]) (cve t dt R lv vlv))
  | ["c09.ols", fs, xs, dt, L] => do
    let t ← mkTrack? fs xs
    let dt ← rat? dt
    let L ← int? L
    some (showExcept (fun (e : Est) =>
      let s := olsScaleFromRows (msdCounts t (some L)) t.length dt 1
      showRats [e.value] ++ " " ++ (if e.varDefined then showRat e.var else "nonfinite") ++ " "
        ++ showRats [e.lv, s.value, s.var, s.lv]) (olsEstimate t dt L))
  | ["c09.cov", K, n, a, b] => do
    let K ← nat? K
    let n ← rat? n
    let a ← rat? a
    let b ← rat? b
    some ("ok " ++ showListList showRat ((List.range K).map fun r => (List.range K).map fun c =>
      covEntry n a b (c + 1) (r + 1)))
  | ["c09.wmean", ms, cs] => do
    let ms ← ratList? ms
    let cs ← ratList? cs
    if ms.length ≠ cs.length then some "ValueError"
    else
      let mc := ms.zip cs
      some (showExcept (fun (w : WStats) =>
        showRats [w.mean, w.var, w.countSum, w.ess, weightedVarScale mc]) (weightedMeanSd mc))
  | ["c09.ensmsd", fs, xs, L, minCount] => do
    let ts ← mkTracks? fs xs
    let L ← optInt? L
    let minCount ← int? minCount
    let per := ts.map fun t => msdCounts t L
    some (showExcept (fun (rows : List EnsRow) =>
      showEnsRows rows ++ " " ++ showRatList (ensembleVarScales per (rows.map (·.lag))))
      (ensembleMsdRows per minCount))
  | ["c09.enscve", fs, xs, dt, R] => do
    let ts ← mkTracks? fs xs
    let dt ← rat? dt
    let R ← rat? R
    some (showExcept (fun (e : EnsCve) =>
      let long := ts.filter fun t => decide (3 ≤ t.length)
      let sc : List (Cve × Rat) := long.map fun t => (cveScale t dt R none none, (t.length : Rat))
      let (sv, svv) := match sc with
        | [(c, _)] => (c.D, c.var)
        | _ => meanVarScale (sc.map fun (p : Cve × Rat) => (p.1.D, p.2))
      let (sl, slv) := match sc with
        | [(c, _)] => (c.lv, 0)
        | _ => meanVarScale (sc.map fun (p : Cve × Rat) => (p.1.lv, p.2))
      showRats [e.value, e.var, e.lv, e.vlv] ++ " " ++ toString e.numPoints ++ " "
        ++ showRats [sv, svv, sl, slv]) (ensembleCve ts dt R))
  | ["c09.ensols", fs, xs, dt, L] => do
    let ts ← mkTracks? fs xs
    let dt ← rat? dt
    let L ← int? L
    if L = 0 then none
    else
      some (showExcept (fun (e : Est) =>
        match ensembleMsd ts (some L) 2 with
        | .ok rows =>
          let s := olsScaleFromRows ((pySlice rows 0 L).map fun r => ⟨r.lag, r.st.mean, 0⟩)
            (rows.length + 1) dt (mean (rows.map (·.st.ess)))
          showRats [e.value, e.var, e.lv, s.value, s.var, s.lv]
        | .error _ => "unreachable") (ensembleOls ts dt L))
  | ["c09.optpts", fs, xs] => do
    let t ← mkTrack? fs xs
    if 5 ≤ t.length ∧ signTies (ptsOf (msdCounts t none)) then some "tie"
    else some (showExcept (fun (k : Nat × Nat) => toString k.1 ++ " " ++ toString k.2) (detOpt optimalPointsT t))
  | ["c09.olsauto", fs, xs, dt] => do
    let t ← mkTrack? fs xs
    let dt ← rat? dt
    if 5 ≤ t.length ∧ signTies (ptsOf (msdCounts t none)) then some "tie"
    else some (showExcept (fun (r : Est × Nat) =>
      let e := r.1
      let s := olsScaleFromRows (msdCounts t (some (r.2 : Int))) t.length dt 1
      showRats [e.value] ++ " " ++ (if e.varDefined then showRat e.var else "nonfinite") ++ " "
        ++ showRats [e.lv] ++ " " ++ toString r.2 ++ " " ++ showRats [s.value, s.var, s.lv]) (olsAuto optimalPointsT t dt))
  | ["c09.ensolsauto", fs, xs, dt] => do
    let ts ← mkTracks? fs xs
    let dt ← rat? dt
    match ensembleMsd ts none 2 with
    | .error e => some e
    | .ok rows =>
      if 5 ≤ rows.length + 1 ∧ signTies (rows.map fun r => ((r.lag : Rat), r.st.mean)) then some "tie"
      else some (showExcept (fun (r : Est × Nat) =>
        let e := r.1
        let s := olsScaleFromRows ((rows.take r.2).map fun r => ⟨r.lag, r.st.mean, 0⟩)
          (rows.length + 1) dt (mean (rows.map (·.st.ess)))
        showRats [e.value, e.var, e.lv] ++ " " ++ toString r.2 ++ " " ++ showRats [s.value, s.var, s.lv])
        (ensembleOlsAuto optimalPointsT ts dt))
  | ["c09.optraw", le, n] => do
    let n ← nat? n
    let le ← (if le == "inf" then some LocErr.inf else if le == "nan" then some LocErr.nan else (rat? le).map LocErr.fin)
    some (showExcept (fun (k : Nat × Nat) => toString k.1 ++ " " ++ toString k.2) (optimalPointsT le n))
  | ["c09.glsupd", W, msd, a, b] => do
    let W ← ratListList? W
    let msd ← ratList? msd
    let a ← rat? a
    let b ← rat? b
    if W.length ≠ msd.length ∨ W.any (fun row => row.length != msd.length) then none
    else if glsKappa W * glsMu W - glsLam W * glsLam W = 0 then some "singular"
    else
      let u := glsUpdate W msd a b
      let s := glsUpdateAbs W msd
      some ("ok " ++ showRats [u.change, u.slope, u.intercept, u.varSlope, s.1, s.2.1, s.2.2])
  | ["c09.est", fs, xs, dt, R, method, L, lv, vlv] => do
    let t ← mkTrack? fs xs
    let dt ← rat? dt
    let R ← rat? R
    let L ← optInt? L
    let lv ← optRat? lv
    let vlv ← optRat? vlv
    let auto := (method == "ols") && (L == none || L == some 0) && lv == none && vlv == none
    if auto ∧ 5 ≤ t.length ∧ signTies (ptsOf (msdCounts t none)) then some "tie"
    else some (showExcept (fun (r : Est × Option Int) =>
      showRats [r.1.value] ++ " " ++ (if r.1.varDefined then showRat r.1.var else "nonfinite") ++ " " ++ showRats [r.1.lv]
        ++ " " ++ showOptInt r.2) (estimateDiffusion optimalPointsT (if t.length ≤ 7 then glsModelled else glsUnmodelled) t dt R method L lv vlv))
  | ["c09.optptsk", fs, xs, k, st] => do
    let t ← mkTrack? fs xs
    let k ← nat? k
    if st != "int" ∧ st != "float" then none
    else if st == "int" ∧ 5 ≤ t.length ∧ signTies (ptsOf (msdCounts t none)) then some "tie"
    else some (showExcept (fun (k : Nat × Nat) => toString k.1 ++ " " ++ toString k.2)
      (detOptIter optimalPointsT t (st == "int") k))
  | ["c09.estk", fs, xs, dt, kind, method, L, lv, vlv] => do
    let t ← mkTrack? fs xs
    let dt ← rat? dt
    let kind ← (if kind == "noblur" then some KymoKind.noBlur else if kind == "disjoint" then some KymoKind.disjoint
      else (rat? kind).map KymoKind.blur)
    let L ← optInt? L
    let lv ← optRat? lv
    let vlv ← optRat? vlv
    let auto := (method == "ols") && (L == none || L == some 0) && lv == none && vlv == none && kind != KymoKind.disjoint
    if auto ∧ 5 ≤ t.length ∧ signTies (ptsOf (msdCounts t none)) then some "tie"
    else some (showExcept (fun (r : Est × Option Int × Bool) =>
      showRats [r.1.value] ++ " " ++ (if r.1.varDefined ∧ !r.2.2 then showRat r.1.var else "nonfinite") ++ " "
        ++ (if r.2.2 then "nonfinite" else showRats [r.1.lv]) ++ " " ++ showOptInt r.2.1)
      (estimateOnKymo optimalPointsT (if t.length ≤ 7 then glsModelled else glsUnmodelled) t dt kind method L lv vlv))
  | ["c09.enscvemix", fs, xs, dts, Rs] => do
    let ts ← mkTracks? fs xs
    let dts ← ratList? dts
    let Rs ← ratList? Rs
    if ts.length ≠ dts.length ∨ ts.length ≠ Rs.length then none
    else
      let tr := ts.zip (dts.zip Rs)
      some (showExcept (fun (e : Rat × Rat × Nat) =>
        let long := tr.filter fun t => decide (3 ≤ t.1.length)
        let sc : List (Cve × Rat) := long.map fun t => (cveScale t.1 t.2.1 t.2.2 none none, (t.1.length : Rat))
        let (sv, svv) := match sc with
          | [(c, _)] => (c.D, c.var)
          | _ => meanVarScale (sc.map fun (p : Cve × Rat) => (p.1.D, p.2))
        showRats [e.1, e.2.1] ++ " " ++ toString e.2.2 ++ " " ++ showRats [sv, svv]) (ensembleCveMixed tr))
  | _ => none

end Verif.C09
