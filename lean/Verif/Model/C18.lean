/-
  C18 — TIFF export round trip.
  Executable model of `TiffExport.export_tiff` (its `cast_image`, the `DateTime` tag `start:stop`, the per-page
  exposure; lumicks/pylake/detail/imaging_mixins.py), of the providers `ImageStack._tiff_frames /
  _tiff_timestamp_ranges` (image_stack.py) on top of the frame/ROI state of an `ImageStack`
  (`_start_idx, _stop_idx, _step`, `Roi`; the few definitions needed are restated from the C07 model so that
  this file stands on its own), of `_get_page_timestamps` / `TiffFrame.frame_timestamp_range /
  exposure_timestamp_range` (the `^(\d+):(\d+)$` parser; detail/widefield.py) and of
  `_frame_timestamps_from_exposure_timestamps` (legacy files).
  The model mirrors the algorithm of the code (global min/max test before the cast, `astype` truncation and
  float32 rounding, f-string formatting and regex parsing, zip of frames with the two range lists), not the
  specification (element-wise range membership, "parse ∘ format = id", `frames[a:b:c]`, `img[y0:y1, x0:x1]`).
-/
import Verif.Py
import Verif.Proto

namespace Verif.C18
open Verif.Py

/-! ### errors -/

inductive Err where
  | runtime       -- RuntimeError  (cast does not fit / nothing to export)
  | value         -- ValueError    (badly formatted DateTime, np.min of an empty image, bad ROI, zero step)
  | overflow      -- OverflowError (np.int64 of a decimal string ≥ 2^63)
  | index         -- IndexError
  | empty         -- NotImplementedError "Slice is empty"
  | reverse       -- NotImplementedError "Reverse slicing is not supported"
deriving Repr, DecidableEq

deriving instance DecidableEq for Except

def Err.show : Err → String
  | .runtime => "RuntimeError"
  | .value => "ValueError"
  | .overflow => "OverflowError"
  | .index => "IndexError"
  | .empty => "NotImplementedError"
  | .reverse => "NotImplementedError"

/-! ### 1. `cast_image` -/

/-- The data types offered for a colour channel of the exported image. -/
inductive DType where
  | u8
  | u16
  | f32
deriving Repr, DecidableEq

/-- Largest finite float32: `(2^24 − 1)·2^104`. -/
def f32Max : Rat := ((2 : Rat) ^ 24 - 1) * (2 : Rat) ^ 104

/-- `np.iinfo(dtype).min` / `np.finfo(dtype).min`. -/
def DType.lo : DType → Rat
  | .u8 => 0
  | .u16 => 0
  | .f32 => -f32Max

/-- `np.iinfo(dtype).max` / `np.finfo(dtype).max`. -/
def DType.hi : DType → Rat
  | .u8 => 255
  | .u16 => 65535
  | .f32 => f32Max

/-- `2^e` for an integer exponent. -/
def pow2 (e : Int) : Rat := if 0 ≤ e then (2 : Rat) ^ e.toNat else 1 / (2 : Rat) ^ (-e).toNat

/-- `⌊log₂ |x|⌋` for `x ≠ 0`, from the bit lengths of numerator and denominator plus one comparison. -/
def ilog2 (x : Rat) : Int :=
  let e0 : Int := (x.num.natAbs.log2 : Int) - (x.den.log2 : Int)
  if pow2 e0 ≤ (if x < 0 then -x else x) then e0 else e0 - 1

/-- Round to the nearest integer, ties to even (IEEE default). -/
def roundHalfEven (x : Rat) : Int :=
  let f := x.floor
  let r := x - (f : Rat)
  if r < 1 / 2 then f
  else if 1 / 2 < r then f + 1
  else if f % 2 = 0 then f else f + 1

/-- Unit in the last place of float32 at `x` (24-bit significand, subnormals below `2^-126`). -/
def ulpF32 (x : Rat) : Rat := pow2 (max (ilog2 x) (-126) - 23)

/-- `np.float64(x).astype(np.float32)` for `|x| ≤ f32Max`: nearest multiple of the ulp, ties to even. -/
def roundF32 (x : Rat) : Rat :=
  if x = 0 then 0 else (roundHalfEven (x / ulpF32 x) : Rat) * ulpF32 x

/-- `ndarray.astype(dtype)` on one value that passed (or was clipped into) the range test: C truncation
    toward zero for the integer types, round-to-nearest-even for float32. -/
def astype : DType → Rat → Rat
  | .u8, v => (Int.tdiv v.num v.den : Int)
  | .u16, v => (Int.tdiv v.num v.den : Int)
  | .f32, v => roundF32 v

/-- `np.min` / `np.max` of a flat array (`none` on an empty one: NumPy raises `ValueError`). -/
def listMin : List Rat → Option Rat
  | [] => none
  | x :: xs => some (xs.foldl (fun m y => if y < m then y else m) x)
def listMax : List Rat → Option Rat
  | [] => none
  | x :: xs => some (xs.foldl (fun m y => if m < y then y else m) x)

/-- `np.clip(v, lo, hi)` = `minimum(maximum(v, lo), hi)`. -/
def clipTo (lo hi v : Rat) : Rat :=
  let v := if v < lo then lo else v
  if hi < v then hi else v

/-- `cast_image(image, dtype, clip)` of `export_tiff` on the flattened image. -/
def castImage (d : DType) (clip : Bool) (img : List Rat) : Except Err (List Rat) :=
  match listMin img, listMax img with
  | some lo, some hi =>
    if lo < d.lo ∨ d.hi < hi then
      if clip then .ok ((img.map (clipTo d.lo d.hi)).map (astype d))
      else .error .runtime
    else .ok (img.map (astype d))
  | _, _ => .error .value

/-! ### 2. the `DateTime` tag -/

def digitChar (d : Nat) : Char := Char.ofNat (48 + d)

/-- Decimal digits of `n`, least significant first (`fuel` bounds the recursion; `n + 1` always suffices). -/
def natDigitsRev : Nat → Nat → List Char
  | 0, _ => []
  | fuel + 1, n => if n < 10 then [digitChar n] else digitChar (n % 10) :: natDigitsRev fuel (n / 10)

/-- `str(n)` for a natural number. -/
def natDigits (n : Nat) : List Char := (natDigitsRev (n + 1) n).reverse

/-- `str(i)` / `f"{i}"` for a Python or NumPy integer. -/
def showInt (i : Int) : List Char := if i < 0 then '-' :: natDigits i.natAbs else natDigits i.toNat

/-- `extratags`: `f"{timestamp_range[0]}:{timestamp_range[1]}"`. -/
def encodeRange (a b : Int) : List Char := showInt a ++ ':' :: showInt b

/-- `\d` (ASCII only — Python's also accepts other Unicode decimal digits; outside the model). -/
def isDigit (c : Char) : Bool := 48 ≤ c.toNat && c.toNat ≤ 57

/-- Value of a digit string, most significant first (`int(s)` on ASCII digits). -/
def digitsValue (cs : List Char) : Nat := cs.foldl (fun acc c => acc * 10 + (c.toNat - 48)) 0

/-- `np.int64(group)`: a non-empty digit string below `2^63`. -/
def int64OfDigits (cs : List Char) : Except Err Int :=
  let v := digitsValue cs
  if v < 2 ^ 63 then .ok (v : Int) else .error .overflow

/-- `_get_page_timestamps`: `re.search(r"^(\d+):(\d+)$", s)`.  Both groups are greedy digit runs, so the
    match is unique: digits, a colon, digits, then the end of the string or one final line feed (`$`). -/
def decodeRange (s : List Char) : Except Err (Int × Int) :=
  let d1 := s.takeWhile isDigit
  match s.dropWhile isDigit with
  | ':' :: rest =>
    let d2 := rest.takeWhile isDigit
    let tail := rest.dropWhile isDigit
    if d1 = [] ∨ d2 = [] then .error .value
    else if tail = [] ∨ tail = ['\n'] then do
      let a ← int64OfDigits d1
      let b ← int64OfDigits d2
      pure (a, b)
    else .error .value
  | _ => .error .value

/-! ### 3. frame / ROI state of an `ImageStack` (restated from the C07 model) -/

structure Roi where
  xMin : Int
  xMax : Int
  yMin : Int
  yMax : Int
deriving Repr, DecidableEq

def Roi.width (r : Roi) : Int := r.xMax - r.xMin
def Roi.height (r : Roi) : Int := r.yMax - r.yMin

/-- `Roi(...)` with `__post_init__`. -/
def Roi.make (x0 x1 y0 y1 : Int) : Except Err Roi :=
  if x0 < 0 ∨ x1 < 0 ∨ y0 < 0 ∨ y1 < 0 then .error .value
  else if x1 ≤ x0 ∨ y1 ≤ y0 then .error .value
  else .ok ⟨x0, x1, y0, y1⟩

/-- One bound of `Roi.crop`: default for `None`, one wrap for a negative value, `np.clip(·, 0, dim)`. -/
def cropBound (dim dflt : Int) (p : Option Int) : Int :=
  let v := p.getD dflt
  let v := if v < 0 then v + dim else v
  min (max v 0) dim

/-- `Roi.crop([x_min, x_max, y_min, y_max])`, relative to the current ROI. -/
def Roi.crop (r : Roi) (x0 x1 y0 y1 : Option Int) : Except Err Roi :=
  let w := r.width
  let h := r.height
  Roi.make (cropBound w 0 x0 + r.xMin) (cropBound w w x1 + r.xMin)
           (cropBound h 0 y0 + r.yMin) (cropBound h h y1 + r.yMin)

/-- `Roi.__call__`: `data[y_min:y_max, x_min:x_max]`. -/
def Roi.apply {α} (r : Roi) (raw : List (List α)) : List (List α) :=
  (pySlice raw r.yMin r.yMax).map fun row => pySlice row r.xMin r.xMax

/-- NumPy `img[y0:y1, x0:x1]` (the specification of a crop). -/
def pySlice2 {α} (img : List (List α)) (x0 x1 y0 y1 : Option Int) : List (List α) :=
  (pySliceOpt img y0 y1).map fun row => pySliceOpt row x0 x1

structure Stack where
  s0 : Int
  s1 : Int
  st : Int
  roi : Roi
deriving Repr, DecidableEq

/-- `ImageStack.num_frames`. -/
def Stack.numFrames (s : Stack) : Int := (max (-1) (s.s1 - s.s0 - 1)) / s.st + 1

/-- Page index of every visible frame (`__iter__` / `_get_frame`). -/
def Stack.frames (s : Stack) : List Int :=
  (List.range s.numFrames.toNat).map fun (i : Nat) => s.s0 + (i : Int) * s.st

def adjustIndex (n lo hi : Int) (v : Int) : Int :=
  if v < 0 then max (v + n) lo else min v hi

/-- `slice(a, b, c).indices(n)` for `c ≠ 0`. -/
def sliceIndices (a b : Option Int) (c n : Int) : Int × Int :=
  if c > 0 then
    ((a.map (adjustIndex n 0 n)).getD 0, (b.map (adjustIndex n 0 n)).getD n)
  else
    ((a.map (adjustIndex n (-1) (n - 1))).getD (n - 1), (b.map (adjustIndex n (-1) (n - 1))).getD (-1))

/-- `ImageStack.__getitem__` for a slice of frame indices. -/
def Stack.sliceFrames (s : Stack) (a b c : Option Int) : Except Err Stack :=
  let step := c.getD 1
  if step = 0 then .error .value
  else
    let n := s.numFrames
    let (start, stop) := sliceIndices a b step n
    let ns := s.s0 + s.st * start
    let ne := s.s0 + s.st * stop
    let nstep := s.st * step
    if ne = ns ∨ (ne - ns).sign ≠ nstep.sign then .error .empty
    else if nstep < 0 then .error .reverse
    else .ok { s with s0 := ns, s1 := ne, st := nstep }

/-- `ImageStack.__getitem__` for an integer. -/
def Stack.index (s : Stack) (i : Int) : Except Err Stack :=
  let idx := if i ≥ 0 then i else i + s.numFrames
  let ns := s.s0 + s.st * idx
  if ns < s.s0 ∨ ns ≥ s.s1 then .error .index
  else .ok { s with s0 := ns, s1 := ns + s.st }

/-- `ImageStack.crop_by_pixels` (after the repair of finding F2: the step is passed on). -/
def Stack.cropPixels (s : Stack) (x0 x1 y0 y1 : Option Int) : Except Err Stack :=
  (s.roi.crop x0 x1 y0 y1).map fun r => { s with roi := r }

inductive Item where
  | int (i : Int)
  | slice (a b c : Option Int)
deriving Repr, DecidableEq

/-- `interpret_crop` of `_handle_cropping`. -/
def interpretCrop : Item → Except Err (Option Int × Option Int)
  | .slice a b c => if c.isSome then .error .index else .ok (a, b)
  | .int i => .ok (some i, some (i + 1))

/-- A missing item of the tuple is `slice(None)`. -/
def cropOf : Option Item → Except Err (Option Int × Option Int)
  | some it => interpretCrop it
  | none => .ok (none, none)

def Stack.frameItem (s : Stack) : Item → Except Err Stack
  | .slice a b c => s.sliceFrames a b c
  | .int i => s.index i

/-- `ImageStack.__getitem__` with a tuple `(frames[, rows[, columns]])`. -/
def Stack.getitemTuple (s : Stack) (items : List Item) : Except Err Stack :=
  match items with
  | [] => .error .index
  | f :: rest =>
    if rest.length > 2 then .error .index
    else do
      let rows ← cropOf rest[0]?
      let cols ← cropOf rest[1]?
      let r ← s.roi.crop cols.1 cols.2 rows.1 rows.2
      let t ← s.frameItem f
      pure { t with roi := r }

/-! ### 4. pages, legacy ranges, export, read back -/

/-- One TIFF page as pylake reads it: the DateTime tag `start:stop`, the stop of the exposure
    (`start + round(1e6 · "Exposure time (ms)")`, or the DateTime stop when the key is absent) and the raw image. -/
structure Page (α : Type) where
  start : Int
  stop : Int
  expStop : Int
  img : List (List α)
deriving Repr, DecidableEq

/-- A (multi-file, concatenated) stack of pages; `legacy` = `ImageDescription._legacy_exposure`
    (written by Pylake < 1.3.2: DateTime holds the exposure, there is no exposure key). -/
structure File (α : Type) where
  pages : List (Page α)
  legacy : Bool
deriving Repr, DecidableEq

/-- `_frame_timestamps_from_exposure_timestamps`; the code raises `IndexError` on an empty list (`none`). -/
def legacyRanges (ts : List (Int × Int)) : Option (List (Int × Int)) :=
  match ts.getLast? with
  | none => none
  | some last =>
    let body := (ts.zip (ts.drop 1)).map fun (lead, trail) => (lead.1, trail.1)
    let stop :=
      if ts.length ≥ 2 then
        match ts[ts.length - 2]? with
        | some prev => last.1 + (last.1 - prev.1)
        | none => last.2
      else last.2
    some (body ++ [(last.1, stop)])

/-- Does every visible frame exist in the file?  (`_get_frame` → `TiffStack.get_frame`.) -/
def Stack.inFile (s : Stack) (n : Nat) : Bool := s.frames.all fun p => decide (0 ≤ p) && decide (p < n)

def Page.blank {α} : Page α := ⟨0, 0, 0, []⟩

/-- The pages behind the visible frames (`[frame for frame in self]`). -/
def Stack.visible {α} (s : Stack) (f : File α) : List (Page α) :=
  s.frames.map fun p => f.pages.getD p.toNat Page.blank

/-- `ImageStack.frame_timestamp_ranges(include_dead_time=dead)`. -/
def Stack.ranges {α} (s : Stack) (f : File α) (dead : Bool) : Option (List (Int × Int)) :=
  if dead then
    let r := (s.visible f).map fun p => (p.start, p.stop)
    if f.legacy then legacyRanges r else some r
  else some ((s.visible f).map fun p => (p.start, p.expStop))

/-- One page as `export_tiff` writes it: DateTime tag, the exposure in ns behind `"Exposure time (ms)"`, pixels. -/
structure OutPage (α : Type) where
  start : Int
  stop : Int
  exposure : Int
  img : List (List α)
deriving Repr, DecidableEq

/-- `zip(frames, frame_timestamp_ranges, exposure_times)` of `export_tiff`. -/
def zipPages {α} : List (List (List α)) → List (Int × Int) → List Int → List (OutPage α)
  | img :: imgs, (a, b) :: rs, e :: es => ⟨a, b, e, img⟩ :: zipPages imgs rs es
  | _, _, _ => []

/-- `ImageStack.export_tiff`: frames `frame.data` (= ROI of the raw page; alignment/tether warps are outside the
    model), DateTime from the ranges with dead time, exposure from the ranges without. -/
def exportPages {α} (s : Stack) (f : File α) : Except Err (List (OutPage α)) :=
  if !s.inFile f.pages.length then .error .index
  else
    match s.ranges f true, s.ranges f false with
    | some rd, some re =>
      if rd.length = 0 then .error .runtime
      else .ok (zipPages ((s.visible f).map fun p => s.roi.apply p.img) rd (re.map fun r => r.2 - r.1))
    | _, _ => .error .index

/-- Opening the written file again: exposure key present on every page, so never `legacy`. -/
def readBack {α} (out : List (OutPage α)) : File α :=
  ⟨out.map fun o => ⟨o.start, o.stop, o.start + o.exposure, o.img⟩, false⟩

/-- `ImageStack(file)`: all pages, step 1, ROI = width/height of the first page. -/
def Stack.ofFile {α} (f : File α) : Stack :=
  let h := (f.pages.head?.map fun p => p.img.length).getD 0
  let w := ((f.pages.head?.bind fun p => p.img.head?).map List.length).getD 0
  ⟨0, f.pages.length, 1, ⟨0, w, 0, h⟩⟩

/-! ### 5. the `"Exposure time (ms)"` key: ns → float64 ms → ns -/

/-- Unit in the last place of float64 at `x` (53-bit significand, subnormals below `2^-1022`). -/
def ulpF64 (x : Rat) : Rat := pow2 (max (ilog2 x) (-1022) - 52)

/-- One IEEE double operation on an exact result `x` inside the finite range: nearest multiple of the ulp, ties to
    even (also the reading of a decimal literal and `np.int64 → float64`). -/
def roundF64 (x : Rat) : Rat :=
  if x = 0 then 0 else (roundHalfEven (x / ulpF64 x) : Rat) * ulpF64 x

/-- The literal `1e-6` of `export_tiff`. -/
def c1em6 : Rat := roundF64 (1 / 1000000)

/-- `export_tiff`: one entry of `np.diff(np.vstack(ranges), axis=1).squeeze() * 1e-6` — the int64 difference is
    converted to float64, then multiplied by the double `1e-6`. -/
def exposureMs (e : Int) : Rat := roundF64 (roundF64 (e : Rat) * c1em6)

/-- `exposure_times` of `export_tiff`: `vstack` → `(n, 2)`, `diff(axis=1)` → `(n, 1)`, `squeeze` → `(n,)` or `()`,
    `atleast_1d` → `(n,)`: one double per range. -/
def exposureTimesMs (ranges : List (Int × Int)) : List Rat := ranges.map fun r => exposureMs (r.2 - r.1)

/-- `TiffFrame.exposure_timestamp_range`: `int(np.round(1e6 * json["Exposure time (ms)"]))` (`np.round` of a double
    is round-half-even to an integral double). -/
def exposureNs (x : Rat) : Int := roundHalfEven (roundF64 (1000000 * x))

/-- Opening the written file again, through the float key: the stop of the exposure is
    `start + int(round(1e6 * (ns * 1e-6)))`. -/
def readBackF {α} (out : List (OutPage α)) : File α :=
  ⟨out.map fun o => ⟨o.start, o.stop, o.start + exposureNs (exposureMs o.exposure), o.img⟩, false⟩

/-! ### 6. `Kymo._tiff_timestamp_ranges` -/

/-- `Kymo._tiff_timestamp_ranges`: `ts = np.array(line_timestamp_ranges(...))`, one frame `(np.min(ts), np.max(ts))`
    over ALL starts and stops (`none`: NumPy raises `ValueError` on an empty array). -/
def kymoRange (lines : List (Int × Int)) : Option (Int × Int) :=
  match lines.flatMap fun r => [r.1, r.2] with
  | [] => none
  | x :: xs => some (xs.foldl (fun m y => if y < m then y else m) x, xs.foldl (fun m y => if m < y then y else m) x)

/-! ### 7. typed selection programs -/

/-- One selection step of the public API. -/
inductive Op where
  | slice (a b c : Option Int)          -- `stack[a:b:c]`
  | index (i : Int)                     -- `stack[i]`
  | crop (x0 x1 y0 y1 : Option Int)     -- `stack.crop_by_pixels(x0, x1, y0, y1)`
  | tuple (items : List Item)           -- `stack[frames, rows, columns]`
  | dataset (s0 s1 st : Int)            -- `ImageStack.from_dataset(src, name, s0, s1, st)` (private bookkeeping)
deriving Repr, DecidableEq

def Stack.applyOp (s : Stack) : Op → Except Err Stack
  | .slice a b c => s.sliceFrames a b c
  | .index i => s.index i
  | .crop x0 x1 y0 y1 => s.cropPixels x0 x1 y0 y1
  | .tuple items => s.getitemTuple items
  | .dataset a b c => .ok { s with s0 := a, s1 := b, st := c }

/-- A chain of selections; the first refusal ends it. -/
def Stack.run : Stack → List Op → Except Err Stack
  | s, [] => .ok s
  | s, op :: rest =>
    match s.applyOp op with
    | .error e => .error e
    | .ok s' => Stack.run s' rest

/-! ### 8. `TiffExport.export_tiff` as a whole (validation, cast, per-page tags) -/

/-- `cast_image` on the whole 3-D or 4-D array of frames: ONE min / max test over all frames, then element-wise. -/
def castFrames (d : DType) (clip : Bool) (frames : List (List Rat)) : Except Err (List (List Rat)) :=
  match listMin frames.flatten, listMax frames.flatten with
  | some lo, some hi =>
    if lo < d.lo ∨ d.hi < hi then
      if clip then .ok (frames.map fun fr => (fr.map (clipTo d.lo d.hi)).map (astype d))
      else .error .runtime
    else .ok (frames.map fun fr => fr.map (astype d))
  | _, _ => .error .value

/-- One written page: the DateTime tag, the double behind `"Exposure time (ms)"`, the (flattened) pixels. -/
structure TiffPage where
  dt : List Char
  ms : Rat
  img : List Rat
deriving Repr, DecidableEq

/-- `frames = cast_image(frames, dtype, clip) if dtype else frames`. -/
def framesWritten (dtype : Option DType) (clip : Bool) (frames : List (List Rat)) : Except Err (List (List Rat)) :=
  match dtype with
  | none => .ok frames
  | some d => castFrames d clip frames

/-- `export_tiff(filename, dtype, clip)` given what the four `_tiff_*` hooks return: `RuntimeError` when there are no
    timestamp ranges (checked first), then the cast (`dtype=None`: frames as they are), then
    `np.vstack(exposure ranges)` (`ValueError` on an empty list), then one page per element of
    `zip(frames, frame_timestamp_ranges, exposure_times)` — `zip` stops at the shortest. -/
def exportTiff (dtype : Option DType) (clip : Bool) (frames : List (List Rat)) (dead exp : List (Int × Int)) :
    Except Err (List TiffPage) :=
  if dead.length = 0 then .error .runtime
  else
    match framesWritten dtype clip frames with
    | .error e => .error e
    | .ok fr =>
      if exp.length = 0 then .error .value
      else .ok ((fr.zip (dead.zip (exposureTimesMs exp))).map fun t => ⟨encodeRange t.2.1.1 t.2.1.2, t.2.2, t.1⟩)

/-! ### 9. the Software tag and the detection of legacy (Pylake < 1.3.2) files -/

/-- `str.lower()` on ASCII. -/
def lowerAscii (c : Char) : Char := if 65 ≤ c.toNat ∧ c.toNat ≤ 90 then Char.ofNat (c.toNat + 32) else c

/-- `pat in s` for Python strings: is `pat` a prefix of some suffix? -/
def hasSub (pat : List Char) : List Char → Bool
  | [] => pat.isEmpty
  | c :: cs => pat.isPrefixOf (c :: cs) || hasSub pat cs

/-- `ImageStack._tiff_writer_kwargs()["software"]`: append `Pylake v<version>` unless some spelling of "pylake" is
    already there. -/
def softwareOut (sw ver : List Char) : List Char :=
  if hasSub "pylake".toList (sw.map lowerAscii) then sw
  else sw ++ (if sw.length > 0 then ", ".toList else []) ++ "Pylake v".toList ++ ver

/-- `ImageDescription._legacy_exposure`: `"Pylake" in software and "Exposure time (ms)" not in json`. -/
def legacyExposure (sw : List Char) (hasKey : Bool) : Bool := hasSub "Pylake".toList sw && !hasKey

/-! ### 10. alignment status and the keys of `ImageDescription.for_export` -/

def c0Key : List Char := "Channel 0 alignment".toList
def c1Key : List Char := "Channel 1 alignment".toList
def c2Key : List Char := "Channel 2 alignment".toList
def a0Key : List Char := "Applied channel 0 alignment".toList
def a1Key : List Char := "Applied channel 1 alignment".toList
def a2Key : List Char := "Applied channel 2 alignment".toList
def pylakeKey : List Char := "Pylake".toList

inductive AlignStatus where
  | notApplicable | ready | applied | missing
deriving Repr, DecidableEq

/-- `re.search(r"^Applied (.*)channel(.*)$", key)` (keys without line breaks). -/
def appliedKey (k : List Char) : Bool := "Applied ".toList.isPrefixOf k && hasSub "channel".toList (k.drop 8)

/-- `ImageDescription.__init__`: the alignment status from the colour type and the JSON keys. -/
def alignStatus (isRgb : Bool) (keys : List (List Char)) : AlignStatus :=
  if !isRgb then .notApplicable
  else if keys.contains c0Key then .ready
  else if keys.any appliedKey then .applied
  else .missing

/-- `Alignment.do_alignment`. -/
def doAlignment (requested : Bool) (st : AlignStatus) : Bool := st == .ready && requested

/-- `out[f"Applied channel {j} alignment"] = out.pop(f"Channel {j} alignment")` for `j` in 0..2. -/
def renameKey (k : List Char) : List Char :=
  if k = c0Key then a0Key else if k = c1Key then a1Key else if k = c2Key then a2Key else k

/-- `out["Pylake"] = {...}`: the key is there afterwards, once. -/
def addPylake (ks : List (List Char)) : List (List Char) := if ks.contains pylakeKey then ks else ks ++ [pylakeKey]

/-- The JSON keys of `ImageDescription.for_export` (as a list; the order of a dict is not modelled). -/
def forExportKeys (isRgb requested : Bool) (keys : List (List Char)) : List (List Char) :=
  addPylake (if doAlignment requested (alignStatus isRgb keys) then keys.map renameKey else keys)

/-! ### protocol -/
open Verif.Proto

def dtype? (s : String) : Option DType :=
  if s == "u8" then some .u8 else if s == "u16" then some .u16 else if s == "f32" then some .f32 else none

def showChars (cs : List Char) : String := showList (fun (c : Char) => toString c.toNat) cs

def chars? (s : String) : Option (List Char) := (natList? s).map fun l => l.map Char.ofNat

def showRanges (l : List (Int × Int)) : String :=
  showList (fun (p : Int × Int) => toString p.1 ++ ":" ++ toString p.2) l

def item? (s : String) : Option Item :=
  match s.splitOn ":" with
  | [i] => (int? i).map .int
  | [a, b] => do let a ← optInt? a; let b ← optInt? b; some (.slice a b none)
  | [a, b, c] => do let a ← optInt? a; let b ← optInt? b; let c ← optInt? c; some (.slice a b c)
  | _ => none

/-- One step of a selection program:
  `s,a,b,c` frame slice   `i,k` integer index   `c,x0,x1,y0,y1` `crop_by_pixels`
  `g,<item>,…` tuple index with items `k`, `a:b` or `a:b:c`
  `z,s0,s1,st` `ImageStack.from_dataset(src, name, s0, s1, st)` on the same pages and ROI. -/
def op? (op : String) : Option Op :=
  match op.splitOn "," with
  | ["s", a, b, c] => do
    let a ← optInt? a; let b ← optInt? b; let c ← optInt? c
    some (.slice a b c)
  | ["i", k] => do
    let k ← int? k
    some (.index k)
  | ["c", a, b, c, d] => do
    let a ← optInt? a; let b ← optInt? b; let c ← optInt? c; let d ← optInt? d
    some (.crop a b c d)
  | "g" :: items => do
    let items ← items.mapM item?
    some (.tuple items)
  | ["z", a, b, c] => do
    let a ← int? a; let b ← int? b; let c ← int? c
    some (.dataset a b c)
  | _ => none

def runProg (s : Stack) (prog : List String) : Option (Except Err Stack) :=
  (prog.mapM op?).map s.run

/-- The synthetic raw image of page `p`: pixel `(r, c)` carries the identifier `(p·h + r)·w + c`. -/
def idImage (h w p : Nat) : List (List Int) :=
  (List.range h).map fun r => (List.range w).map fun c => (((p * h + r) * w + c : Nat) : Int)

def pages? (h w : Nat) (starts stops exps : String) : Option (List (Page Int)) := do
  let a ← intList? starts; let b ← intList? stops; let c ← intList? exps
  if a.length = b.length ∧ b.length = c.length then
    some (((a.zip (b.zip c)).zipIdx).map fun ((x, y, z), p) => ⟨x, y, z, idImage h w p⟩)
  else none

def showOut (o : OutPage Int) : String :=
  toString o.start ++ ":" ++ toString o.stop ++ ":" ++ toString o.exposure ++ ":"
    ++ toString o.img.length ++ "x" ++ toString ((o.img.head?.map List.length).getD 0) ++ ":"
    ++ ",".intercalate (o.img.flatten.map toString)

def showOuts (l : List (OutPage Int)) : String := "[" ++ ";".intercalate (l.map showOut) ++ "]"

/-- ops:
  `c18.cast <u8|u16|f32> <clip T/F> [p/q,…]`   `cast_image` on a flat image: `ok [p/q,…]` or the error name
  `c18.encode a b`        the DateTime string as a list of character codes
  `c18.decode [codes]`    `_get_page_timestamps`: `a:b` or the error name
  `c18.roundtrip a b`     write the tag for `(a, b)`, then read it: `a:b` or the error name
  `c18.legacy [s…] [e…]`  `_frame_timestamps_from_exposure_timestamps`
  `c18.expms [e,…]`       the doubles `export_tiff` writes behind "Exposure time (ms)" for exposures of `e` ns (`p/q`)
  `c18.expns [p/q,…]`     `int(np.round(1e6 * x))` for each double `x` read from that key
  `c18.exprt [e,…]`       write the key for `e` ns, read it back: the ns the reader gets
  `c18.kymorange [s…] [e…]`  `Kymo._tiff_timestamp_ranges` from the line ranges: `a:b` or `ValueError`
  `c18.exporttiff <none|u8|u16|f32> <clip> [frame;frame;…] [dead starts] [dead stops] [exp starts] [exp stops]`
        the whole `export_tiff`: `ok [codes|p/q|v,…;…]` (DateTime characters, exposure double, pixels per page) or the error
  `c18.software [codes] [version codes] <twice T/F>`  the Software tag `ImageStack.export_tiff` writes (after one / two exports)
  `c18.islegacy [codes] <has exposure key T/F>`  `ImageDescription._legacy_exposure`
  `c18.forexport <rgb> <align requested> <twice> [key;key;…]`  the JSON keys `for_export` writes (keys as character codes)
  `c18.kymoexp [s…] [e…]`  the "Exposure time (ms)" of a kymograph from its line ranges without dead time: `[p/q]`
  `c18.export <h> <w> [starts] [stops] [expStops] <legacy T/F> <again T/F> op…`
        run the selection program on a fresh stack over these pages (raw pixels = identifiers), export;
        with `again = T` the result is read back (exposure through the float64 millisecond key), opened as a fresh stack and exported a second time;
        answer `[start:stop:exposure:HxW:id,id,…;…]` or the error name. -/
def handle : List String → Option String
  | ["c18.cast", d, clip, img] => do
    let d ← dtype? d; let clip ← bool? clip; let img ← ratList? img
    match castImage d clip img with
    | .ok r => some ("ok " ++ showRatList r)
    | .error e => some e.show
  | ["c18.encode", a, b] => do
    let a ← int? a; let b ← int? b
    some (showChars (encodeRange a b))
  | ["c18.decode", s] => do
    let s ← chars? s
    match decodeRange s with
    | .ok (a, b) => some (toString a ++ ":" ++ toString b)
    | .error e => some e.show
  | ["c18.roundtrip", a, b] => do
    let a ← int? a; let b ← int? b
    match decodeRange (encodeRange a b) with
    | .ok (a, b) => some (toString a ++ ":" ++ toString b)
    | .error e => some e.show
  | ["c18.legacy", s, e] => do
    let s ← intList? s; let e ← intList? e
    if s.length ≠ e.length then none
    else match legacyRanges (s.zip e) with
      | some r => some (showRanges r)
      | none => some "IndexError"
  | ["c18.expms", es] => do
    let es ← intList? es
    some (showRatList (es.map exposureMs))
  | ["c18.expns", xs] => do
    let xs ← ratList? xs
    some (showIntList (xs.map exposureNs))
  | ["c18.exprt", es] => do
    let es ← intList? es
    some (showIntList (es.map fun e => exposureNs (exposureMs e)))
  | ["c18.kymorange", s, e] => do
    let s ← intList? s; let e ← intList? e
    if s.length ≠ e.length then none
    else match kymoRange (s.zip e) with
      | some r => some (toString r.1 ++ ":" ++ toString r.2)
      | none => some "ValueError"
  | ["c18.exporttiff", d, clip, frames, ds, de, es, ee] => do
    let d ← if d == "none" then some none else (dtype? d).map some
    let clip ← bool? clip
    let frames ← ratListList? frames
    let ds ← intList? ds; let de ← intList? de; let es ← intList? es; let ee ← intList? ee
    if ds.length ≠ de.length ∨ es.length ≠ ee.length then none
    else match exportTiff d clip frames (ds.zip de) (es.zip ee) with
      | .ok pages => some ("ok [" ++ ";".intercalate (pages.map fun p =>
          ",".intercalate (p.dt.map fun c => toString c.toNat) ++ "|" ++ showRat p.ms ++ "|" ++
          ",".intercalate (p.img.map showRat)) ++ "]")
      | .error e => some e.show
  | ["c18.software", sw, ver, twice] => do
    let sw ← chars? sw; let ver ← chars? ver; let twice ← bool? twice
    let o := softwareOut sw ver
    some (showChars (if twice then softwareOut o ver else o))
  | ["c18.islegacy", sw, key] => do
    let sw ← chars? sw; let key ← bool? key
    some (showBool (legacyExposure sw key))
  | ["c18.forexport", rgb, req, twice, keys] => do
    let rgb ← bool? rgb; let req ← bool? req; let twice ← bool? twice
    let keys ← listListOf? nat? keys
    let ks := keys.map fun k => k.map Char.ofNat
    let o := forExportKeys rgb req ks
    let o := if twice then forExportKeys rgb req o else o
    some (showListList (fun (c : Char) => toString c.toNat) o)
  | ["c18.kymoexp", s, e] => do
    let s ← intList? s; let e ← intList? e
    if s.length ≠ e.length then none
    else match kymoRange (s.zip e) with
      | some r => some (showRatList [exposureMs (r.2 - r.1)])
      | none => some "ValueError"
  | "c18.export" :: h :: w :: starts :: stops :: exps :: legacy :: again :: prog => do
    let h ← nat? h; let w ← nat? w
    let pages ← pages? h w starts stops exps
    let legacy ← bool? legacy
    let again ← bool? again
    let f : File Int := ⟨pages, legacy⟩
    let s0 : Stack := ⟨0, pages.length, 1, ⟨0, w, 0, h⟩⟩
    match ← runProg s0 prog with
    | .error e => some e.show
    | .ok s =>
      match exportPages s f with
      | .error e => some e.show
      | .ok out =>
        if again then
          let f2 := readBackF out
          match exportPages (Stack.ofFile f2) f2 with
          | .error e => some e.show
          | .ok out2 => some (showOuts out2)
        else some (showOuts out)
  | _ => none

end Verif.C18
