/-
  C04 — downsampling and channel arithmetic.
  Executable model of `Slice.downsampled_over`, `Slice.downsampled_to`, `Slice.downsampled_by`
  (`Continuous.downsampled_by` + `detail.utilities.downsample`), `Slice.downsampled_like`,
  `Slice._unpack_other` and the binary operators (lumicks/pylake/channel.py).
  Mirrors the algorithm of the code: index arithmetic of `Continuous.slice` (re-used from C01), the
  range filter and the `self[start:stop]` loop of `downsampled_over`, the `np.arange` edges of
  `downsampled_to` (as the code is: finding F3), `reshape(-1, factor)`, the sequential change-point
  repair and the `searchsorted` trimming of `downsampled_like`.
  Timestamps are `Int`, values are exact rationals, the reduction is a parameter `List Rat → Rat`
  (instantiated in the driver by mean, sum, min, max, median).
-/
import Verif.Py
import Verif.Proto
import Verif.Model.C01

namespace Verif.C04
open Verif.Py

/-- A sample: (timestamp in ns, value). -/
abbrev Sample := Int × Rat

/-- The specification predicate `a ≤ t < b`. -/
def inWin (a b : Int) (s : Sample) : Bool := decide (a ≤ s.1) && decide (s.1 < b)

/-- The small error enum of the protocol (messages are not compared). -/
inductive Err where
  | index | value | runtime | notImpl | type | zeroDiv | overflow
deriving Repr, DecidableEq

/-! ### Sources -/

/-- `np.arange(start, stop, step)` for integers and `step > 0`: `⌈(stop-start)/step⌉` elements. -/
def arange (start stop step : Int) : List Int :=
  (List.range ((stop - start + step - 1) / step).toNat).map fun (i : Nat) => start + (i : Int) * step

structure Cont where
  start : Int
  dt : Int
  data : List Rat
deriving Repr, DecidableEq

/-- `Continuous.stop`. -/
def Cont.stop (c : Cont) : Int := c.start + c.data.length * c.dt
/-- `Continuous.timestamps = np.arange(start, stop, dt)`. -/
def Cont.timestamps (c : Cont) : List Int := arange c.start c.stop c.dt
def Cont.samples (c : Cont) : List Sample := c.timestamps.zip c.data

/-- `Continuous.slice` (repaired arithmetic of C01: aligned start, ceil-division indices, clamped
    stop index, Python slicing). -/
def Cont.slice (c : Cont) (a b : Int) : Cont :=
  let a' := C01.alignedStart ⟨c.start, c.dt, []⟩ a
  { start := a', dt := c.dt,
    data := pySlice c.data (C01.toIndex c.start c.dt a') (max (C01.toIndex c.start c.dt b) 0) }

inductive Src where
  | cont (c : Cont)
  | ts (l : List Sample)
deriving Repr, DecidableEq

def Src.samples : Src → List Sample
  | .cont c => c.samples
  | .ts l => l

def Src.timestamps : Src → List Int
  | .cont c => c.timestamps
  | .ts l => l.map (·.1)

def Src.data : Src → List Rat
  | .cont c => c.data
  | .ts l => l.map (·.2)

def Src.len : Src → Nat
  | .cont c => c.data.length
  | .ts l => l.length

/-- `_src.start`; `none` = `IndexError` (empty time series). -/
def Src.start? : Src → Option Int
  | .cont c => some c.start
  | .ts l => l.head?.map (·.1)

/-- `_src.stop`; a time series stops one nanosecond after its last sample. -/
def Src.stop? : Src → Option Int
  | .cont c => some c.stop
  | .ts l => l.getLast?.map (·.1 + 1)

/-- `_src.slice(a, b)`: index arithmetic for continuous data, boolean mask for time series. -/
def Src.slice : Src → Int → Int → Src
  | .cont c, a, b => .cont (c.slice a b)
  | .ts l, a, b => .ts (l.filter (inWin a b))

/-- `Slice.__getitem__` with two integer bounds: an empty source returns itself. -/
def Src.getitem (s : Src) (a b : Int) : Src :=
  if s.len = 0 then s else s.slice a b

/-! ### `downsampled_over` -/

/-- One turn of the loop of `downsampled_over`: `subset = self[start:stop]`; an empty subset gives no
    sample; the timestamp is `(ts[0] + ts[-1]) // 2` or the range start. -/
def overStep (f : List Rat → Rat) (s : Src) (center : Bool) (r : Int × Int) : Option Sample :=
  match (s.getitem r.1 r.2).samples with
  | [] => none
  | x :: xs =>
    some (if center then (x.1 + (((x :: xs).getLast?).getD x).1) / 2 else r.1, f ((x :: xs).map (·.2)))

/-- `Slice.downsampled_over(range_list, reduce, where)`; `wh = none` stands for an invalid `where`. -/
def over (f : List Rat → Rat) (s : Src) (ranges : List (Int × Int)) (wh : Option Bool) :
    Except Err (List Sample) :=
  match ranges.head?, ranges.getLast? with
  | some r0, some rl =>
    match s.start?, s.stop? with
    | some st, some sp =>
      if st ≥ rl.2 ∨ sp ≤ r0.1 then .error .runtime
      else match wh with
        | none => .error .value
        | some center =>
          .ok ((ranges.filter fun r => decide (r.1 ≥ st) && decide (r.2 ≤ sp)).filterMap
                (overStep f s center))
    | _, _ => .error .index
  | _, _ => .error .value

/-- What one turn of the loop of `downsampled_over` hands to `reduce`, with the timestamp it will stamp. -/
def overStepW (s : Src) (center : Bool) (r : Int × Int) : Option (Int × List Rat) :=
  match (s.getitem r.1 r.2).samples with
  | [] => none
  | x :: xs =>
    some (if center then (x.1 + (((x :: xs).getLast?).getD x).1) / 2 else r.1, (x :: xs).map (·.2))

/-- The arrays `downsampled_over` hands to `reduce` (ranges inside the span, empty ones skipped). -/
def overWindows (s : Src) (st sp : Int) (center : Bool) (ranges : List (Int × Int)) : List (Int × List Rat) :=
  (ranges.filter fun r => decide (r.1 ≥ st) && decide (r.2 ≤ sp)).filterMap (overStepW s center)

/-! ### `downsampled_to` -/

inductive Method where
  | safe | ceil | force
deriving Repr, DecidableEq

def diff : List Int → List Int
  | a :: b :: r => (b - a) :: diff (b :: r)
  | _ => []

def insertUniq (x : Int) : List Int → List Int
  | [] => [x]
  | y :: ys => if x < y then x :: y :: ys else if x = y then y :: ys else y :: insertUniq x ys

/-- `np.unique` (sorted, without repetitions). -/
def uniqueSorted (l : List Int) : List Int := l.foldr insertUniq []

/-- `_timesteps`. -/
def Src.timesteps : Src → List Int
  | .cont c => [c.dt]
  | .ts l => uniqueSorted (diff (l.map (·.1)))

/-- The step `downsampled_to` finally uses: upsampling guard, then `safe`/`ceil`/`force`. -/
def targetStep (steps : List Int) (target : Int) (m : Method) : Except Err Int :=
  if steps.any (fun d => decide (target < d)) then .error .value
  else match m with
    | .force => .ok target
    | m =>
      if steps.length > 1 then .error .value
      else match steps.head? with
        | none => .error .index
        | some d =>
          -- numpy: an integer modulo zero is zero (with a warning)
          let rem := if d = 0 then 0 else target % d
          if rem ≠ 0 then (if m = .ceil then .ok (target - rem) else .error .value)
          else .ok target

/-- Consecutive pairs `zip(t[:-1], t[1:])`. -/
def pairs (t : List Int) : List (Int × Int) := t.zip t.tail

/-- `Slice.downsampled_to` AS THE CODE IS (finding F3): the edges are
    `np.arange(start, stop, step)`, which never contains `stop`.  `target` is `int(1e9 / frequency)`;
    `m = none` stands for an unknown method. -/
def downTo (f : List Rat → Rat) (s : Src) (target : Int) (m : Option Method) (wh : Option Bool) :
    Except Err (List Sample) :=
  match m with
  | none => .error .value
  | some m =>
    match targetStep s.timesteps target m with
    | .error e => .error e
    | .ok step =>
      match s.start?, s.stop? with
      | some st, some sp =>
        if step = 0 then .error .zeroDiv
        else over f s (pairs (arange st sp step)) wh
      | _, _ => .error .index

/-! ### `downsampled_by` -/

/-- `data[: (n // k) * k].reshape(-1, k)`: row `i` is `data[i*k : (i+1)*k]`. -/
def blocks (k : Nat) (l : List Rat) : List (List Rat) :=
  (List.range (l.length / k)).map fun i => (l.drop (i * k)).take k

/-- `Slice.downsampled_by(factor, reduce)`. -/
def downBy (f : List Rat → Rat) (s : Src) (k : Nat) : Except Err Cont :=
  match s with
  | .ts _ => .error .notImpl
  | .cont c =>
    if k = 0 then .error .zeroDiv
    else .ok { start := c.start + (c.dt * ((k : Int) - 1)) / 2, dt := c.dt * k,
               data := (blocks k c.data).map f }

/-! ### long channels described by a rule: windows of the answers

A recording of minutes holds millions of samples; such a channel is handed to the model as a RULE
(`sample i = v i`) and the model answers a WINDOW `i0 ≤ i < i0 + cnt` of the downsampled channel
together with the total number of samples, computed from the rule without ever building the source
list.  `by_window_spec` / `to_window_spec` (Props) prove that the window is that slice of the full
answer of `downBy` / `downTo`. -/

/-- The value rule of the long inputs: sample `i` is `((a·i + b·⌊i/w⌋) mod m − c) / den`. -/
structure Rule where
  a : Nat
  b : Nat
  w : Nat
  m : Nat
  c : Int
  den : Nat
deriving Repr, DecidableEq

def Rule.val (g : Rule) (i : Nat) : Rat :=
  (((((g.a * i + g.b * (i / g.w)) % g.m : Nat) : Int) - g.c : Int) : Rat) / (g.den : Rat)

/-- The continuous channel whose `n` samples follow the rule `v`. -/
def contOf (start dt : Int) (n : Nat) (v : Nat → Rat) : Cont := ⟨start, dt, (List.range n).map v⟩

/-- Sample `i` of the channel downsampled by `k`, from the rule: `f` of `v (i·k), …, v (i·k + k - 1)`,
    stamped with the midpoint of the block. -/
def blockSample (f : List Rat → Rat) (start dt : Int) (v : Nat → Rat) (k i : Nat) : Sample :=
  (start + (i : Int) * ((k : Int) * dt) + (((k : Int) - 1) * dt) / 2, f ((List.range' (i * k) k).map v))

/-- Entries `i0 ≤ i < i0 + cnt` of a list of `q` samples given by its index rule `g`. -/
def winOf (g : Nat → Sample) (q i0 cnt : Nat) : List Sample :=
  (List.range' i0 (min cnt (q - i0))).map g

/-- Window of `downsampled_by(k)` of `contOf start dt n v` (which has `n / k` samples). -/
def byWindow (f : List Rat → Rat) (start dt : Int) (n : Nat) (v : Nat → Rat) (k i0 cnt : Nat) : List Sample :=
  winOf (blockSample f start dt v k) (n / k) i0 cnt

/-- Number of samples of `downsampled_to` with step `k·dt` AS THE CODE IS (finding F3: a whole number
    of blocks loses the last one). -/
def toCount (n k : Nat) : Nat := if n % k = 0 then n / k - 1 else n / k

/-- Window of `downsampled_to` (step `k·dt`, `where="center"`, `k < n`) of `contOf start dt n v`. -/
def toWindow (f : List Rat → Rat) (start dt : Int) (n : Nat) (v : Nat → Rat) (k i0 cnt : Nat) : List Sample :=
  winOf (blockSample f start dt v k) (toCount n k) i0 cnt

/-! ### `downsampled_like` -/

/-- `np.nonzero(np.diff(delta_time) > 0)`: the indices `i` with `d[i] < d[i+1]`. -/
def changePoints (d : List Int) : List Nat :=
  (List.range (d.length - 1)).filter fun i => decide (d.getD i 0 < d.getD (i + 1) 0)

/-- The sequential in-place loop `delta_time[i + 1] = delta_time[i + 2]`, abandoned at the first
    `IndexError`. -/
def repairLoop : List Nat → List Int → List Int
  | [], d => d
  | i :: rest, d =>
    match d[i + 2]? with
    | none => d
    | some v => repairLoop rest (d.set (i + 1) v)

def repair (d : List Int) : List Int := repairLoop (changePoints d) d

/-- Window lengths as `downsampled_like` uses them: `hstack((d'[0], d'))` of the repaired differences. -/
def likeDeltas (T : List Int) : List Int :=
  let d' := repair (diff T)
  d'.headD 0 :: d'

/-- Index of the first kept reference sample.  As the code is (`perWindow = false`):
    `searchsorted(T - δ[0], start)` — every reference sample is shifted by the FIRST window length.
    `perWindow = true` is `searchsorted(T - δ, start)`: the repair of finding F9, which IS the code since /repo
    d1dbc24 (`perWindow = false` is kept as the record of the code before that repair). -/
def likeStart (perWindow : Bool) (c : Cont) (T : List Int) : Nat :=
  let delta := likeDeltas T
  if perWindow then searchsortedLeft (List.zipWith (· - ·) T delta) c.start
  else searchsortedLeft (T.map (· - delta.headD 0)) c.start

/-- The kept reference timestamps with their window lengths
    (`searchsorted(…, start)`, `searchsorted(T, stop)`, Python slicing). -/
def likeKept (pw : Bool) (c : Cont) (T : List Int) : List (Int × Int) :=
  pySlice (T.zip (likeDeltas T)) (likeStart pw c T) (searchsortedLeft T c.stop)

/-- The data of `self[T - δ : T]` for every kept reference timestamp. -/
def likeWindows (pw : Bool) (c : Cont) (T : List Int) : List (Int × List Rat) :=
  (likeKept pw c T).map fun (t, δ) => (t, ((Src.cont c).getitem (t - δ) t).samples.map (·.2))

/-- `Slice.downsampled_like(other)`: the downsampled channel and the cropped reference.
    `pw = true` is the code as it is (since the repair of F9); `pw = false` the code before it. -/
def like (pw : Bool) (f : List Rat → Rat) (s ref : Src) : Except Err (List Sample × List Sample) :=
  match ref with
  | .cont _ => .error .type
  | .ts r =>
    match s with
    | .ts _ => .error .notImpl
    | .cont c =>
      let T := r.map (·.1)
      match T.getLast?, (diff T).getLast?, T.head? with
      | some tl, some dl, some t0 =>
        if c.start > tl - dl ∨ c.stop ≤ t0 then .error .runtime
        else
          let out := (likeWindows pw c T).map fun (t, w) => (t, f w)
          match out.head?, out.getLast? with
          | some a, some b => .ok (out, r.filter (inWin a.1 (b.1 + 1)))
          | _, _ => .error .index
      | _, _, _ => .error .index

/-- Executable form of the hypothesis "isolated frame-rate changes" (`IsolatedGrowth` in Lemmas): a reference
    period longer than its predecessor is never followed by a still longer one. -/
def isolatedGrowthB (d : List Int) : Bool :=
  (List.range d.length).all fun j =>
    !(decide (1 ≤ j) && decide (j + 1 < d.length) && decide (d.getD (j - 1) 0 < d.getD j 0)) ||
      decide (d.getD (j + 1) 0 ≤ d.getD j 0)

/-! ### `int(1e9 / frequency)`: the Hz → ns conversion of `downsampled_to` (executed on doubles) -/

/-- `int(1e9 / frequency)` for a Python float: `ZeroDivisionError` for 0, `ValueError` for nan
    (`int(nan)`), `OverflowError` for an infinite quotient, truncation toward zero otherwise.
    `none`: quotient beyond 2^62 (outside the model). -/
def targetOfFreq (fq : Float) : Option (Except Err Int) :=
  if fq == 0 then some (.error .zeroDiv)
  else
    let q := (1000000000 : Float) / fq
    if q.isNaN then some (.error .value)
    else if q.isInf then some (.error .overflow)
    else if q.abs ≥ 4611686018427387904 then none
    else some (.ok q.toInt64.toInt)

/-- `downsampled_to(frequency, …)` from the frequency itself.  An unknown method is refused before the
    conversion is attempted. -/
def downToFreq (f : List Rat → Rat) (s : Src) (fq : Float) (m : Option Method) (wh : Option Bool) :
    Option (Except Err (List Sample)) :=
  match m with
  | none => some (.error .value)
  | some m =>
    match targetOfFreq fq with
    | none => none
    | some (.error e) => some (.error e)
    | some (.ok t) => some (downTo f s t (some m) wh)

/-! ### `int(1e9 / frequency)` once more, exactly (rationals): what the theorems speak about -/

/-- Round half to even of `n / d` (`d > 0`) to a natural number. -/
def roundHalfEven (n d : Nat) : Nat :=
  let fl := n / d
  let r := n % d
  if 2 * r < d then fl else if d < 2 * r then fl + 1 else if fl % 2 = 0 then fl else fl + 1

/-- `int(x)` of the double nearest to `n / d` (IEEE binary64, round to nearest even; `n / d` between the
    normal range's bounds): 53 significant bits are kept, then the fraction is cut off. -/
def truncRoundDouble (n d : Nat) : Nat :=
  if 2 * n < d then 0          -- a quotient below 1/2 rounds to at most 1/2
  else
    let L := Nat.log2 (2 * n / d)          -- ⌊log₂ (n/d)⌋ + 1
    if L ≤ 53 then roundHalfEven (n * 2 ^ (53 - L)) d / 2 ^ (53 - L)
    else roundHalfEven n (d * 2 ^ (L - 53)) * 2 ^ (L - 53)

/-- `int(1e9 / frequency)` computed exactly: the frequency is the rational value of the double handed in,
    the quotient is rounded as IEEE division rounds it, `int` truncates toward zero.
    `none`: |quotient| ≥ 2^62 (outside the model). -/
def targetOfFreqQ (fq : Rat) : Option (Except Err Int) :=
  if fq = 0 then some (.error .zeroDiv)
  else
    let q := (1000000000 : Rat) / (if fq < 0 then -fq else fq)
    if q ≥ 4611686018427387904 then none
    else
      let v : Int := truncRoundDouble q.num.toNat q.den
      some (.ok (if fq < 0 then -v else v))

/-- `downsampled_to(frequency, …)` with the exact conversion. -/
def downToFreqQ (f : List Rat → Rat) (s : Src) (fq : Rat) (m : Option Method) (wh : Option Bool) :
    Option (Except Err (List Sample)) :=
  match m with
  | none => some (.error .value)
  | some m =>
    match targetOfFreqQ fq with
    | none => none
    | some (.error e) => some (.error e)
    | some (.ok t) => some (downTo f s t (some m) wh)

/-- The exact rational value of a double given by its bit pattern (`none` for nan / ±inf). -/
def ratOfBits (b : Nat) : Option Rat :=
  let sign := b / 2 ^ 63 % 2
  let ex := b / 2 ^ 52 % 2048
  let man := b % 2 ^ 52
  if ex = 2047 then none
  else
    let mag : Rat :=
      if ex = 0 then ((man : Nat) : Rat) / ((2 ^ 1074 : Nat) : Rat)
      else if ex ≥ 1075 then (((2 ^ 52 + man) * 2 ^ (ex - 1075) : Nat) : Rat)
      else ((2 ^ 52 + man : Nat) : Rat) / ((2 ^ (1075 - ex) : Nat) : Rat)
    some (if sign = 1 then -mag else mag)

/-! ### arithmetic -/

inductive Op where
  | add | sub | mul | div
deriving Repr, DecidableEq

def Op.apply : Op → Rat → Rat → Rat
  | .add, x, y => x + y
  | .sub, x, y => x - y
  | .mul, x, y => x * y
  | .div, x, y => x / y

/-- `_src._with_data(data)`: same kind, same timestamps. -/
def Src.withData : Src → List Rat → Src
  | .cont c, d => .cont { c with data := d }
  | .ts l, d => .ts ((l.map (·.1)).zip d)

/-- `a <op> b` for two slices: `_unpack_other` refuses different timestamps (`RuntimeError`),
    otherwise the operator acts element-wise and the result keeps the timestamps of `a`. -/
def arith (op : Op) (a b : Src) : Except Err Src :=
  if b.timestamps ≠ a.timestamps then .error .runtime
  else .ok (a.withData (List.zipWith op.apply a.data b.data))

/-- `-a` (`Slice.__neg__`): same timestamps, negated data. -/
def neg (a : Src) : Src := a.withData (a.data.map fun v => -v)

/-- `a <op> x` (`reversed = false`) and `x <op> a` (`reversed = true`, `__radd__`, `__rsub__`, `__rmul__`,
    `__rtruediv__`) for a scalar `x`: `_unpack_other` hands a scalar through unchanged, numpy broadcasts it. -/
def arithScalar (op : Op) (a : Src) (x : Rat) (reversed : Bool) : Src :=
  a.withData (a.data.map fun v => if reversed then op.apply x v else op.apply v x)

/-! ### arithmetic with IEEE division by zero (strengthening round H)

Photon counts are full of zeros; `a / b` on such channels is numpy's IEEE division: `x / 0 = ±inf` for `x ≠ 0` and
`0 / 0 = nan`, and these values propagate through a chain of operators.  `Rat` has no such values (`x / 0 = 0`), so
the protocol answers are computed over `XVal`.  Signed zeros are not modelled: every DIVISOR of the operators below
is a source channel or a scalar handed in by the harness, which only ever holds `+0.0`. -/

inductive XVal where
  | fin (q : Rat) | pinf | ninf | nan
deriving Repr, DecidableEq

/-- the infinity carrying the sign of `x`; `nan` for `x = 0` (`x / 0`, `inf * x`) -/
def XVal.ofSign (x : Rat) : XVal := if 0 < x then .pinf else if x < 0 then .ninf else .nan

def XVal.neg : XVal → XVal
  | .fin q => .fin (-q) | .pinf => .ninf | .ninf => .pinf | .nan => .nan

def XVal.add : XVal → XVal → XVal
  | .nan, _ => .nan
  | _, .nan => .nan
  | .fin x, .fin y => .fin (x + y)
  | .pinf, .ninf => .nan
  | .ninf, .pinf => .nan
  | .pinf, _ => .pinf
  | _, .pinf => .pinf
  | .ninf, _ => .ninf
  | _, .ninf => .ninf

def XVal.mul : XVal → XVal → XVal
  | .nan, _ => .nan
  | _, .nan => .nan
  | .fin x, .fin y => .fin (x * y)
  | .fin x, .pinf => .ofSign x
  | .fin x, .ninf => .ofSign (-x)
  | .pinf, .fin y => .ofSign y
  | .ninf, .fin y => .ofSign (-y)
  | .pinf, .pinf => .pinf
  | .ninf, .ninf => .pinf
  | .pinf, .ninf => .ninf
  | .ninf, .pinf => .ninf

/-- IEEE division; a zero divisor is `+0.0`. -/
def XVal.div : XVal → XVal → XVal
  | .nan, _ => .nan
  | _, .nan => .nan
  | .fin x, .fin y => if y = 0 then .ofSign x else .fin (x / y)
  | .fin _, .pinf => .fin 0
  | .fin _, .ninf => .fin 0
  | .pinf, .fin y => if y < 0 then .ninf else .pinf
  | .ninf, .fin y => if y < 0 then .pinf else .ninf
  | .pinf, .pinf => .nan
  | .pinf, .ninf => .nan
  | .ninf, .pinf => .nan
  | .ninf, .ninf => .nan

def Op.applyX : Op → XVal → XVal → XVal
  | .add, x, y => x.add y
  | .sub, x, y => x.add y.neg
  | .mul, x, y => x.mul y
  | .div, x, y => x.div y

/-- a channel whose samples may be `±inf` / `nan`: what an operator returns -/
structure XChan where
  ts : List Int
  data : List XVal
deriving Repr, DecidableEq

def XChan.samples (c : XChan) : List (Int × XVal) := c.ts.zip c.data

def Src.toX (s : Src) : XChan := ⟨s.timestamps, s.data.map .fin⟩

/-- `a <op> b` with numpy's values for a zero divisor; refusal as in `arith`. -/
def arithX (op : Op) (a b : XChan) : Except Err XChan :=
  if b.ts ≠ a.ts then .error .runtime
  else .ok ⟨a.ts, List.zipWith op.applyX a.data b.data⟩

/-- `a <op> x` / `x <op> a` for a scalar, with numpy's values for a zero divisor. -/
def arithScalarX (op : Op) (a : XChan) (x : Rat) (reversed : Bool) : XChan :=
  ⟨a.ts, a.data.map fun v => if reversed then op.applyX (.fin x) v else op.applyX v (.fin x)⟩

/-! ### the five reductions of the property text -/

inductive Reduce where
  | mean | sum | min | max | median
deriving Repr, DecidableEq

def rmin (x y : Rat) : Rat := if x ≤ y then x else y
def rmax (x y : Rat) : Rat := if x ≤ y then y else x

def Reduce.apply : Reduce → List Rat → Rat
  | .sum, l => l.sum
  | .mean, l => l.sum / (l.length : Rat)
  | .min, l => match l with | [] => 0 | x :: xs => xs.foldl rmin x
  | .max, l => match l with | [] => 0 | x :: xs => xs.foldl rmax x
  | .median, l =>
    let s := l.mergeSort (fun a b => decide (a ≤ b))
    let n := s.length
    if n % 2 = 1 then s.getD (n / 2) 0 else (s.getD (n / 2 - 1) 0 + s.getD (n / 2) 0) / 2

/-! ### protocol -/
open Verif.Proto

def showErr : Err → String
  | .index => "IndexError"
  | .value => "ValueError"
  | .runtime => "RuntimeError"
  | .notImpl => "NotImplementedError"
  | .type => "TypeError"
  | .zeroDiv => "Error:ZeroDivisionError"
  | .overflow => "Error:OverflowError"

def showSamples (l : List Sample) : String :=
  showList (fun (s : Sample) => toString s.1 ++ ":" ++ showRat s.2) l

def showX : XVal → String
  | .fin q => showRat q | .pinf => "inf" | .ninf => "-inf" | .nan => "nan"

def showXSamples (l : List (Int × XVal)) : String :=
  showList (fun (s : Int × XVal) => toString s.1 ++ ":" ++ showX s.2) l

def reduce? : String → Option Reduce
  | "mean" => some .mean | "sum" => some .sum | "min" => some .min | "max" => some .max
  | "median" => some .median | _ => none

/-- any other token is an invalid `where` (the code raises `ValueError`) -/
def where? : String → Option Bool
  | "center" => some true | "left" => some false | _ => none

def method? : String → Option Method
  | "safe" => some .safe | "ceil" => some .ceil | "force" => some .force | _ => none

def op? : String → Option Op
  | "add" => some .add | "sub" => some .sub | "mul" => some .mul | "div" => some .div | _ => none

def mkSrc? : List String → Option (Src × List String)
  | "cont" :: st :: dt :: vals :: rest => do
    let st ← int? st; let dt ← int? dt; let vals ← ratList? vals
    if dt ≤ 0 then none else some (.cont ⟨st, dt, vals⟩, rest)
  | "ts" :: ts :: vals :: rest => do
    let ts ← intList? ts; let vals ← ratList? vals
    if ts.length ≠ vals.length then none else some (.ts (ts.zip vals), rest)
  | _ => none

def pair? : List Int → Option (Int × Int)
  | [a, b] => some (a, b)
  | _ => none

def showRes (r : Except Err (List Sample)) : String :=
  match r with
  | .ok l => "ok " ++ showSamples l
  | .error e => showErr e

def handleLike (pw : Bool) (rest : List String) : Option String := do
  let (s, rest) ← mkSrc? rest
  match rest with
  | r :: rest =>
    let r ← reduce? r
    let (ref, rest) ← mkSrc? rest
    if rest ≠ [] then none
    else match like pw r.apply s ref with
      | .error e => some (showErr e)
      | .ok (out, refc) =>
        -- windows recomputed only to flag the empty ones (numpy's answer there is outside the model)
        let ws := match s, ref with
          | .cont c, .ts rl => likeWindows pw c (rl.map (·.1))
          | _, _ => []
        let shown := (out.zip ws).map fun (o, w) =>
          toString o.1 ++ ":" ++ (if w.2.isEmpty then "E" else showRat o.2)
        some ("ok [" ++ ",".intercalate shown ++ "] " ++ showIntList (refc.map (·.1)))
  | _ => none

/-- `c04.likewins <src> <refsrc>`: the windows `downsampled_like` hands to `reduce`, as the code is
    (`pw = true`): `ok <isolated growth T/F> [T|v,v,…;…]` -/
def handleLikeWins (rest : List String) : Option String := do
  let (s, rest) ← mkSrc? rest
  let (ref, rest) ← mkSrc? rest
  if rest ≠ [] then none
  else match like true (fun _ => 0) s ref with
    | .error e => some (showErr e)
    | .ok _ =>
      match s, ref with
      | .cont c, .ts rl =>
        let T := rl.map (·.1)
        some ("ok " ++ showBool (isolatedGrowthB (diff T)) ++ " [" ++
          ";".intercalate ((likeWindows true c T).map fun w =>
            toString w.1 ++ "|" ++ ",".intercalate (w.2.map showRat)) ++ "]")
      | _, _ => none

def rule? (s : String) : Option Rule := do
  match ← intList? s with
  | [a, b, w, m, c, den] =>
    if a < 0 ∨ b < 0 ∨ w ≤ 0 ∨ m ≤ 0 ∨ den ≤ 0 then none
    else some ⟨a.toNat, b.toNat, w.toNat, m.toNat, c, den.toNat⟩
  | _ => none

def natPair? : List Int → Option (Nat × Nat)
  | [a, b] => if a < 0 ∨ b < 0 then none else some (a.toNat, b.toNat)
  | _ => none

/-- the long-input ops: `<start> <dt> <n> [a,b,w,m,c,den] <reduce> <k> [i0,cnt;…]` -/
def handleWin (isTo : Bool) (rest : List String) : Option String :=
  match rest with
  | [st, dt, n, g, r, k, ws] => do
    let st ← int? st; let dt ← int? dt; let n ← nat? n; let g ← rule? g
    let r ← reduce? r; let k ← nat? k
    let ws ← (← intListList? ws).mapM natPair?
    if dt ≤ 0 ∨ k = 0 then none
    else if isTo then
      if n ≤ k then some (showErr .value)
      else some (" ".intercalate (["ok", toString (toCount n k)] ++
        ws.map fun (i0, cnt) => showSamples (toWindow r.apply st dt n g.val k i0 cnt)))
    else some (" ".intercalate (["ok", toString (dt * k), toString (n / k)] ++
        ws.map fun (i0, cnt) => showSamples (byWindow r.apply st dt n g.val k i0 cnt)))
  | _ => none

/-- ops:
  `c04.bywin <start> <dt> <n> [a,b,w,m,c,den] <reduce> <k> [i0,cnt;…]`  long channel given by a rule:
        `ok <dt·k> <number of samples> <window>…` of `downsampled_by(k)`
  `c04.towin <start> <dt> <n> [a,b,w,m,c,den] <reduce> <k> [i0,cnt;…]`  the same for `downsampled_to` with
        step `k·dt` and `where="center"`: `ok <number of samples> <window>…`, `ValueError` when `n ≤ k`
  `c04.over <src> <reduce> <where> [a,b;c,d;…]`
  `c04.to   <src> <reduce> <where> <method> <step>`
  `c04.by   <src> <reduce> <k>`
  `c04.like <src> <reduce> <refsrc>`          values of empty windows are printed as `E`
  `c04.likepw <src> <reduce> <refsrc>`        the code as it is now (per-window start index, repair of F9); this is the op the harness runs
  `c04.arith <op> <srcA> <srcB>`                over `XVal`: a sample divided by zero is printed `inf` / `-inf` / `nan`
  `c04.overwins <src> <where> [a,b;…]`        the arrays `downsampled_over` hands to `reduce`, with their timestamps
  `c04.bywins <src> <k>`                     the rows `downsampled_by` hands to `reduce(axis=1)`
  `c04.byby <src> <reduce> <k1> <k2>`         `downsampled_by(k1)` then `downsampled_by(k2)`
  `c04.likewins <src> <refsrc>`              the windows handed to `reduce` by `downsampled_like` + isolated-growth flag
  `c04.getitem <src> <a> <b>`                `self[a:b]` as used inside the downsampling loops
  `c04.tof <src> <reduce> <where> <method> <frequency bits>`   `downsampled_to` from the frequency (double)
  `c04.step <frequency bits>`                `int(1e9 / frequency)`: `ok <on the double> <exactly>`
  `c04.neg <src>`                            `-a`
  `c04.ariths <op> <0|1> <p/q> <src>`         `a <op> x` / (1:) `x <op> a` for a scalar
  `c04.arith3 <op1> <op2> <srcA> <srcB> <srcC>`   `(a <op1> b) <op2> c`
  `c04.repair [d…]`                          the change-point repair alone
  where `<src>` is `cont <start> <dt> [v…]` or `ts [t…] [v…]` (values `p/q`). -/
def handle : List String → Option String
  | "c04.bywin" :: rest => handleWin false rest
  | "c04.towin" :: rest => handleWin true rest
  | "c04.over" :: rest => do
    let (s, rest) ← mkSrc? rest
    match rest with
    | [r, w, rg] =>
      let r ← reduce? r
      let rows ← intListList? rg
      let ranges ← rows.mapM pair?
      some (showRes (over r.apply s ranges (where? w)))
    | _ => none
  | "c04.to" :: rest => do
    let (s, rest) ← mkSrc? rest
    match rest with
    | [r, w, m, step] =>
      let r ← reduce? r
      let step ← int? step
      some (showRes (downTo r.apply s step (method? m) (where? w)))
    | _ => none
  | "c04.by" :: rest => do
    let (s, rest) ← mkSrc? rest
    match rest with
    | [r, k] =>
      let r ← reduce? r
      let k ← nat? k
      match downBy r.apply s k with
      | .ok c => some ("ok " ++ toString c.dt ++ " " ++ showSamples c.samples)
      | .error e => some (showErr e)
    | _ => none
  | "c04.likewins" :: rest => handleLikeWins rest
  | "c04.getitem" :: rest => do
    let (s, rest) ← mkSrc? rest
    match rest with
    | [a, b] =>
      let a ← int? a; let b ← int? b
      some ("ok " ++ showSamples (s.getitem a b).samples)
    | _ => none
  | "c04.tof" :: rest => do
    let (s, rest) ← mkSrc? rest
    match rest with
    | [r, w, m, fqs] =>
      let r ← reduce? r
      let fq ← float? fqs
      let bits ← (fqs.drop 1).toString.toNat?
      -- the conversion is done twice: on the double (Lean `Float`) and exactly (`targetOfFreqQ`); they must agree
      let viaFloat := downToFreq r.apply s fq (method? m) (where? w)
      match viaFloat, (ratOfBits bits).bind fun q => downToFreqQ r.apply s q (method? m) (where? w) with
      | some a, some b =>
        if showRes a = showRes b then some (showRes a) else some ("conversion-mismatch " ++ showRes a ++ " / " ++ showRes b)
      | some a, none => some (showRes a)
      | none, _ => none
    | _ => none
  | ["c04.step", fqs] => do
    let fq ← float? fqs
    let bits ← (fqs.drop 1).toString.toNat?
    let sh := fun (r : Option (Except Err Int)) => match r with
      | some (.ok t) => toString t
      | some (.error e) => showErr e
      | none => "outside"
    some ("ok " ++ sh (targetOfFreq fq) ++ " " ++ sh ((ratOfBits bits).bind targetOfFreqQ))
  | "c04.byby" :: rest => do
    let (s, rest) ← mkSrc? rest
    match rest with
    | [r, k1, k2] =>
      let r ← reduce? r
      let k1 ← nat? k1; let k2 ← nat? k2
      match downBy r.apply s k1 with
      | .error e => some (showErr e)
      | .ok c1 =>
        match downBy r.apply (.cont c1) k2 with
        | .ok c => some ("ok " ++ toString c.dt ++ " " ++ showSamples c.samples)
        | .error e => some (showErr e)
    | _ => none
  | "c04.overwins" :: rest => do
    let (s, rest) ← mkSrc? rest
    match rest with
    | [w, rg] =>
      let rows ← intListList? rg
      let ranges ← rows.mapM pair?
      match over (fun _ => 0) s ranges (where? w), where? w, s.start?, s.stop? with
      | .error e, _, _, _ => some (showErr e)
      | .ok _, some center, some st, some sp =>
        some ("ok [" ++ ";".intercalate ((overWindows s st sp center ranges).map fun w =>
          toString w.1 ++ "|" ++ ",".intercalate (w.2.map showRat)) ++ "]")
      | _, _, _, _ => none
    | _ => none
  | "c04.bywins" :: rest => do
    let (s, rest) ← mkSrc? rest
    match rest, s with
    | [k], .cont c =>
      let k ← nat? k
      if k = 0 then some (showErr .zeroDiv) else some ("ok " ++ showListList showRat (blocks k c.data))
    | [_], .ts _ => some (showErr .notImpl)
    | _, _ => none
  | "c04.like" :: rest => handleLike false rest
  | "c04.likepw" :: rest => handleLike true rest
  | "c04.arith" :: o :: rest => do
    let o ← op? o
    let (a, rest) ← mkSrc? rest
    let (b, rest) ← mkSrc? rest
    if rest ≠ [] then none
    else match arithX o a.toX b.toX with
      | .ok r => some ("ok " ++ showXSamples r.samples)
      | .error e => some (showErr e)
  | "c04.neg" :: rest => do
    let (a, rest) ← mkSrc? rest
    if rest ≠ [] then none else some ("ok " ++ showSamples (neg a).samples)
  | "c04.ariths" :: o :: rev :: x :: rest => do
    let o ← op? o
    let x ← rat? x
    let rev ← (match rev with | "0" => some false | "1" => some true | _ => none)
    let (a, rest) ← mkSrc? rest
    if rest ≠ [] then none else some ("ok " ++ showXSamples (arithScalarX o a.toX x rev).samples)
  | "c04.arith3" :: o1 :: o2 :: rest => do
    let o1 ← op? o1; let o2 ← op? o2
    let (a, rest) ← mkSrc? rest
    let (b, rest) ← mkSrc? rest
    let (c, rest) ← mkSrc? rest
    if rest ≠ [] then none
    else match arithX o1 a.toX b.toX with
      | .error e => some (showErr e)
      | .ok r => match arithX o2 r c.toX with
        | .ok r => some ("ok " ++ showXSamples r.samples)
        | .error e => some (showErr e)
  | ["c04.repair", d] => do
    let d ← intList? d
    some (showIntList (repair d))
  | _ => none

end Verif.C04
