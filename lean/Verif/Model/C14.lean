/-
  C14 — fits honour bounds, fixing and sharing.
  Executable model of the bookkeeping of `Fit` (lumicks/pylake/fitting/fit.py): `_build_fit`, `_rebuild`/`dirty`,
  `_prepare_fit`, `fit` (bound validation, masked write-back), `Datasets._add_data/_transformed_params/_defaults`
  (datasets.py), `parse_transformation`, `unique`, `unique_idx` (detail/utilities.py), `FitData.get_params`,
  `Condition` (fitdata.py), `generate_conditions` (detail/link_functions.py), `Params._set_params` (parameters.py)
  and the scatter of local sensitivities into the global Jacobian (`Model._calculate_jacobian`, model.py).
  Everything is list/`Rat` bookkeeping; the optimiser (`scipy.optimize.least_squares`) is a PARAMETER of `Fit.fit`
  (only assumption used by the theorems: it answers a point of the box it was given).
  Mirrors the algorithm of the code (first-occurrence de-duplication with an accumulator, index tables, condition
  strings and groups, boolean-mask select/assign), not the specification.
-/
import Verif.Proto

namespace Verif.C14

/-! ### data -/

/-- What a model parameter of one dataset is mapped to: a global parameter name, or a numeric constant
    (its exact value and the text Python's `str` gives for it — the code builds condition strings from `str`). -/
inductive Target where
  | name (s : String)
  | const (v : Rat) (repr : String)
deriving Repr, DecidableEq

def Target.str : Target → String
  | .name s => s
  | .const _ r => r

def Target.name? : Target → Option String
  | .name s => some s
  | .const _ _ => none

/-- `Parameter`: value, bounds (`none` = −inf / +inf) and the fixed flag. -/
structure Param where
  value : Rat
  lb : Option Rat
  ub : Option Rat
  fixed : Bool
deriving Repr, DecidableEq

/-- `Parameter()`. -/
def Param.dflt : Param := ⟨0, none, none, false⟩

/-- `FitData`: name, `transformations` (ordered: model parameter → target), the number of data points, and the
    samples it HOLDS (`FitData.x`, `FitData.y`) as the bit patterns of their doubles — opaque to the bookkeeping; what
    matters is that they are VALUES of the dataset: no later action of the user can reach them. -/
structure Data where
  name : String
  trans : List (String × Target)
  npoints : Nat
  x : List Nat
  y : List Nat
deriving Repr, DecidableEq

/-- A `Model` (its ordered `_params`: name → default or `None`) with its `Datasets`. -/
structure ModelData where
  params : List (String × Option Param)
  data : List Data
  built : Bool
deriving Repr, DecidableEq

/-- `Fit`: models in constructor order, `Params._src` as of the last build, `_built`. -/
structure Fit where
  models : List ModelData
  table : List (String × Param)
  built : Bool
deriving Repr, DecidableEq

/-! ### `unique`, `unique_idx` (accumulator: `if x not in unique_list: unique_list.append(x)`) -/

def uniqueAux (acc : List String) : List String → List String
  | [] => acc
  | x :: xs => if x ∈ acc then uniqueAux acc xs else uniqueAux (acc ++ [x]) xs

def unique (l : List String) : List String := uniqueAux [] l

def uniqueIdx (l : List String) : List String × List Nat :=
  (unique l, l.map fun x => (unique l).idxOf x)

/-- `parameter_lookup.get(key, None)` for the table `OrderedDict(zip(unique_names, arange(n)))`. -/
def lookupIdx (uniq : List String) (s : String) : Option Nat :=
  if s ∈ uniq then some (uniq.idxOf s) else none

/-! ### datasets -/

/-- `parse_transformation`: identity mapping overridden entry by entry; unknown key → `KeyError` (`none`). -/
def parseTransformation (names : List String) (ov : List (String × Target)) :
    Option (List (String × Target)) :=
  ov.foldlM (fun tr (kv : String × Target) =>
    if tr.any (fun e => e.1 == kv.1) then
      some (tr.map fun e => if e.1 == kv.1 then (e.1, kv.2) else e)
    else none) (names.map fun n => (n, Target.name n))

/-- `FitData.parameter_names`. -/
def parameterNames (d : Data) : List String := d.trans.filterMap (·.2.name?)

/-- `FitData.source_parameter_names`. -/
def sourceNames (d : Data) : List String :=
  d.trans.filterMap fun e => if e.2.name?.isSome then some e.1 else none

/-- `FitData.condition_string`. -/
def condString (d : Data) : String := "|".intercalate (d.trans.map (·.2.str))

/-- `Datasets._transformed_params`. -/
def ModelData.transformedParams (m : ModelData) : List String := m.data.flatMap parameterNames

/-- `model.defaults[name]` (`None` when the model has no default). -/
def ModelData.default (m : ModelData) (k : String) : Option Param := (m.params.lookup k).join

/-- The defaults of the free parameters of the datasets, dataset by dataset. -/
def ModelData.dataDefaults (m : ModelData) : List (Option Param) :=
  m.data.flatMap fun d => (sourceNames d).map m.default

/-- `Datasets._defaults` as in the code: a model WITHOUT data answers the defaults of all its parameters although
    its `_transformed_params` is empty (observation O-C14-B: this misaligns `all_defaults` with
    `all_parameter_names` when such a model precedes one with data). -/
def ModelData.defaults (m : ModelData) : List (Option Param) :=
  if m.data.isEmpty then m.params.map (·.2) else m.dataDefaults

def ModelData.nResiduals (m : ModelData) : Nat := (m.data.map (·.npoints)).sum

/-! ### `Fit._build_fit`, `Params._set_params` -/

def allNames (ms : List ModelData) : List String := ms.flatMap (·.transformedParams)

/-- `all_defaults`; `repaired = true` is the aligned variant (a model without data contributes nothing). -/
def allDefaults (repaired : Bool) (ms : List ModelData) : List (Option Param) :=
  ms.flatMap fun m => if repaired then m.dataDefaults else m.defaults

/-- `Params._set_params`: the new table has exactly the keys `names` in that order; a key that existed keeps its
    `Parameter` object (value, bounds, fixed flag), a new one is initialised from its default. -/
def setParams (old : List (String × Param)) (names : List String) (defs : List (Option Param)) :
    List (String × Param) :=
  (names.zip defs).map fun nd => (nd.1, (old.lookup nd.1).getD (nd.2.getD Param.dflt))

/-- the ordered global names of a fit -/
def globalNames (ms : List ModelData) : List String := unique (allNames ms)

def buildDefaults (repaired : Bool) (ms : List ModelData) : List (Option Param) :=
  (globalNames ms).map fun n => ((allDefaults repaired ms)[(allNames ms).idxOf n]?).join

def Fit.build (repaired : Bool) (F : Fit) : Fit :=
  { models := F.models.map fun m => { m with built := true }
    table := setParams F.table (globalNames F.models) (buildDefaults repaired F.models)
    built := true }

def Fit.dirty (F : Fit) : Bool := !F.built || F.models.any fun m => !m.built

/-- `Fit._rebuild`. -/
def Fit.rebuild (repaired : Bool) (F : Fit) : Fit := if F.dirty then F.build repaired else F

/-! ### `Condition`, `generate_conditions` -/

structure Condition where
  pGlobal : List (Option Nat)
  pLocal : List (Option Rat)
  pExternal : List Nat
  pIndices : List Nat
deriving Repr, DecidableEq

def mkCondition (trans : List (String × Target)) (uniq : List String) : Condition :=
  let tr := trans.map (·.2)
  let pg := tr.map fun t => match t with
    | .name s => lookupIdx uniq s
    | .const _ _ => none
  { pGlobal := pg
    pLocal := tr.map fun t => match t with
      | .name _ => none
      | .const v _ => some v
    pExternal := (tr.zipIdx.filter fun ti => ti.1.name?.isSome).map (·.2)
    pIndices := pg.filterMap id }

/-- `Condition.get_local_params`. -/
def getLocalParams (c : Condition) (g : List Rat) : List Rat :=
  List.zipWith (fun a b => match a with
    | some i => g.getD i 0
    | none => b.getD 0) c.pGlobal c.pLocal

/-- `data_link`: for every unique condition string (first-occurrence order) the datasets that have it. -/
def groups (m : ModelData) : List (List Data) :=
  let us := unique (m.data.map condString)
  (List.range us.length).map fun ci => m.data.filter fun d => us.idxOf (condString d) == ci

/-- `generate_conditions`: one `Condition` per group, built from the group's FIRST dataset. -/
def generateConditions (m : ModelData) (uniq : List String) : List (Condition × List Data) :=
  (groups m).filterMap fun g => match g with
    | [] => none
    | r :: _ => some (mkCondition r.trans uniq, g)

/-- The parameter vector the model function is called with for every dataset (`Model._calculate_residual`:
    for every condition, for every dataset of the condition: `_raw_call(data.x, p_local)`), in evaluation order. -/
def localsByIndex (m : ModelData) (uniq : List String) (g : List Rat) : List (String × List Rat) :=
  (generateConditions m uniq).flatMap fun cd => cd.2.map fun d => (d.name, getLocalParams cd.1 g)

/-- Variant for the correspondence only (no theorem uses it): groups keyed by the target LISTS themselves instead
    of their printed form (what a repair of observation O-C14-A would do). -/
def groupsByTargets (m : ModelData) : List (List Data) :=
  let us := (m.data.map fun d => d.trans.map (·.2)).eraseDups
  (List.range us.length).map fun ci => m.data.filter fun d => us.idxOf (d.trans.map (·.2)) == ci

def localsByIndexVariant (repaired : Bool) (m : ModelData) (uniq : List String) (g : List Rat) :
    List (String × List Rat) :=
  if repaired then
    ((groupsByTargets m).filterMap fun g => match g with
      | [] => none
      | r :: _ => some (mkCondition r.trans uniq, g)).flatMap fun cd =>
        cd.2.map fun d => (d.name, getLocalParams cd.1 g)
  else localsByIndex m uniq g

/-- `FitData.get_params(params)`: by NAME in the parameter table (`none` = `IndexError`). -/
def getParams (d : Data) (table : List (String × Param)) : List (Option Rat) :=
  d.trans.map fun e => match e.2 with
    | .name s => (table.lookup s).map (·.value)
    | .const v _ => some v

/-- `jacobian[rows, p_indices] -= sensitivities[:, p_external]` for one row: NumPy evaluates
    `tmp = row[p_indices] - s` on the old row and then assigns `row[p_indices] = tmp` entry by entry, so with a
    repeated index the LAST assignment wins (finding O-C14-C). -/
def scatterRow (c : Condition) (row sens : List Rat) : List Rat :=
  let s := c.pExternal.map fun j => sens.getD j 0
  let tmp := List.zipWith (fun i sj => (i, row.getD i 0 - sj)) c.pIndices s
  tmp.foldl (fun r iv => r.set iv.1 iv.2) row

/-- The chain-rule value the scatter should produce: every local sensitivity is subtracted from its column. -/
def scatterRowSum (c : Condition) (row sens : List Rat) : List Rat :=
  let s := c.pExternal.map fun j => sens.getD j 0
  (List.zipWith (fun i sj => (i, sj)) c.pIndices s).foldl (fun r iv => r.set iv.1 (r.getD iv.1 0 - iv.2)) row

/-! ### `Fit.fit` -/

/-- `v[mask]`. -/
def maskSel {α} : List Bool → List α → List α
  | true :: ms, v :: vs => v :: maskSel ms vs
  | false :: ms, _ :: vs => maskSel ms vs
  | _, _ => []

/-- `p[mask] = x` (boolean-mask assignment: the entries of `x` go to the `True` positions in order). -/
def writeBack : List Bool → List Rat → List Rat → List Rat
  | true :: ms, x :: xs, _ :: ps => x :: writeBack ms xs ps
  | false :: ms, xs, p :: ps => p :: writeBack ms xs ps
  | _, _, ps => ps

def geLb (lb : Option Rat) (v : Rat) : Bool := match lb with
  | none => true
  | some l => !decide (v < l)

def leUb (ub : Option Rat) (v : Rat) : Bool := match ub with
  | none => true
  | some u => !decide (v > u)

/-- A point of the box, coordinate by coordinate. -/
def inBox : List (Option Rat) → List (Option Rat) → List Rat → Bool
  | [], [], [] => true
  | l :: ls, u :: us, v :: vs => geLb l v && leUb u v && inBox ls us vs
  | _, _, _ => false

inductive Err where
  | KeyError | ValueError | RuntimeError | IndexError
deriving Repr, DecidableEq

def Err.str : Err → String
  | .KeyError => "KeyError" | .ValueError => "ValueError" | .RuntimeError => "RuntimeError"
  | .IndexError => "IndexError"

/-- What the optimiser answered: a vector, or an exception (its name). -/
inductive OptOut where
  | ok (x : List Rat)
  | err (e : String)
deriving Repr, DecidableEq

/-- The optimiser: lower bounds, upper bounds, start ↦ outcome. -/
abbrev Opt := List (Option Rat) → List (Option Rat) → List Rat → OptOut

def Fit.values (F : Fit) : List Rat := F.table.map (·.2.value)
def Fit.fitted (F : Fit) : List Bool := F.table.map (!·.2.fixed)
def Fit.lbs (F : Fit) : List (Option Rat) := F.table.map (·.2.lb)
def Fit.ubs (F : Fit) : List (Option Rat) := F.table.map (·.2.ub)
def Fit.nResiduals (F : Fit) : Nat := (F.models.map (·.nResiduals)).sum

/-- `self.params[name] = value` for every `(name, value)` of `zip(keys, vector)`. -/
def setValues (table : List (String × Param)) (v : List Rat) : List (String × Param) :=
  List.zipWith (fun e x => (e.1, { e.2 with value := x })) table v

inductive FitOutcome where
  | raised (e : String)                      -- before the optimiser was called
  | optRaised (lb ub : List (Option Rat)) (x0 : List Rat) (e : String)
  | done (lb ub : List (Option Rat)) (x0 x : List Rat)
deriving Repr, DecidableEq

/-- `Fit.fit`: rebuild, refuse an empty fit / a fit without free parameters / a start outside the bounds, call the
    optimiser on the fitted sub-vector with the fitted bounds, write the answer back to the fitted positions. -/
def Fit.fit (repaired : Bool) (opt : Opt) (F0 : Fit) : Fit × FitOutcome :=
  let F := F0.rebuild repaired
  if F.nResiduals = 0 then (F, .raised "RuntimeError")
  else if !(F.fitted.any id) then (F, .raised "RuntimeError")
  else
    let m := F.fitted
    let x0 := maskSel m F.values
    let lb := maskSel m F.lbs
    let ub := maskSel m F.ubs
    if !(inBox lb ub x0) then (F, .raised "ValueError")
    else match opt lb ub x0 with
      | .err e => (F, .optRaised lb ub x0 e)
      | .ok x => ({ F with table := setValues F.table (writeBack m x F.values) }, .done lb ub x0 x)

/-! ### user actions -/

inductive Field where
  | value (v : Rat)
  | lb (v : Option Rat)
  | ub (v : Option Rat)
  | fixed (b : Bool)
deriving Repr, DecidableEq

def Param.set (p : Param) : Field → Param
  | .value v => { p with value := v }
  | .lb v => { p with lb := v }
  | .ub v => { p with ub := v }
  | .fixed b => { p with fixed := b }

/-- `fit.params[name].<field> = …` (the `params` property rebuilds first; unknown name → `IndexError`). -/
def Fit.setField (repaired : Bool) (F0 : Fit) (name : String) (f : Field) : Fit × Option Err :=
  let F := F0.rebuild repaired
  if F.table.any (fun e => e.1 == name) then
    ({ F with table := F.table.map fun e => if e.1 == name then (e.1, e.2.set f) else e }, none)
  else (F, some .IndexError)

def countValid : List Bool → List Bool → Nat
  | a :: as, b :: bs => (if a || b then 0 else 1) + countValid as bs
  | _, _ => 0

/-- `v[filter_nan]` with `filter_nan = ~(isnan(x) | isnan(y))`: the boolean-mask selection builds a NEW array of
    the samples of the valid pairs, in order. -/
def keepValid {α} : List Bool → List Bool → List α → List α
  | a :: as, b :: bs, v :: vs => if a || b then keepValid as bs vs else v :: keepValid as bs vs
  | _, _, _ => []

/-- `fit[model].add_data(name, …, params=ov)` (`Datasets._add_data`): duplicate name → `KeyError`, unequal lengths →
    `ValueError`, then `built = False`, then `parse_transformation` (unknown key → `KeyError`, the dataset is not
    added), else the dataset is appended; NaN pairs are dropped.  `xs`, `ys`: the samples handed over (bit patterns;
    the entry of a NaN is irrelevant); the dataset holds its own copy of the valid ones. -/
def Fit.addData (F : Fit) (mi : Nat) (name : String) (ov : List (String × Target)) (nanx nany : List Bool)
    (xs ys : List Nat := []) : Fit × Option Err :=
  match F.models[mi]? with
  | none => (F, some .KeyError)
  | some m =>
    if m.data.any (fun d => d.name == name) then (F, some .KeyError)
    else if nanx.length ≠ nany.length then (F, some .ValueError)
    else
      match parseTransformation (m.params.map (·.1)) ov with
      | none => ({ F with models := F.models.set mi { m with built := false } }, some .KeyError)
      | some tr =>
        let m' : ModelData := { m with built := false, data := m.data ++
          [⟨name, tr, countValid nanx nany, keepValid nanx nany xs, keepValid nanx nany ys⟩] }
        ({ F with models := F.models.set mi m' }, none)

/-! ### the residual the fit evaluates (`Model._calculate_residual`, `Fit._calculate_residual`, the closure of `Fit._fit`) -/

/-- The value of a finite double given by its bit pattern (1 sign bit, 11 exponent bits, 52 fraction bits), exactly.
    The samples a dataset holds are finite (NaN pairs are dropped by `add_data`); the theorems never look inside. -/
def bitsToRat (b : Nat) : Rat :=
  let s : Nat := b / 2 ^ 63 % 2
  let e : Nat := b / 2 ^ 52 % 2048
  let f : Nat := b % 2 ^ 52
  let big : Nat := (2 ^ 52 + f) * 2 ^ (e - 1075)
  let norm : Nat := 2 ^ 52 + f
  let den : Nat := 2 ^ (1075 - e)
  let sub : Nat := 2 ^ 1074
  let mag : Rat :=
    if e = 0 then (f : Rat) / (sub : Rat)
    else if 1075 ≤ e then (big : Rat)
    else (norm : Rat) / (den : Rat)
  if s = 1 then -mag else mag

/-- A model function: local parameter vector ↦ independent value ↦ model value (`Model._raw_call` at one point). -/
abbrev ModelFn := List Rat → Rat → Rat

/-- The toy models of the tie: `a0 * x**0 + a1 * x**1 + …` (running power). -/
def polyAux : List Rat → Rat → Rat → Rat
  | [], _, _ => 0
  | a :: as, x, pw => a * pw + polyAux as x (pw * x)

def polyFn : ModelFn := fun p x => polyAux p x 1

/-- `data.y - self._raw_call(data.x, p_local)` for one dataset. -/
def dataResidual (f : ModelFn) (p : List Rat) (d : Data) : List Rat :=
  List.zipWith (fun x y => bitsToRat y - f p (bitsToRat x)) d.x d.y

/-- `Model._calculate_residual`: for every condition (its local vector is computed ONCE, from the condition of the
    group's first dataset), for every dataset of the condition, the residual block — concatenated in that order. -/
def residualOf (conds : List (Condition × List Data)) (f : ModelFn) (g : List Rat) : List Rat :=
  conds.flatMap fun cd => cd.2.flatMap (dataResidual f (getLocalParams cd.1 g))

def ModelData.residual (f : ModelFn) (m : ModelData) (uniq : List String) (g : List Rat) : List Rat :=
  residualOf (generateConditions m uniq) f g

/-- `Fit._calculate_residual(parameter_values)`: the blocks of the models in constructor order. -/
def Fit.residualAt (fs : List ModelFn) (F : Fit) (g : List Rat) : List Rat :=
  (List.zipWith (fun (m : ModelData) f => m.residual f (F.table.map (·.1)) g) F.models fs).flatten

/-- The function `Fit._fit` hands to the optimiser: `parameter_vector[fitted] = params; return
    self._calculate_residual(parameter_vector)`. -/
def Fit.objective (fs : List ModelFn) (F : Fit) (z : List Rat) : List Rat :=
  F.residualAt fs (writeBack F.fitted z F.values)

/-- `sum(r**2)` (twice the cost `least_squares` minimises). -/
def sumSq (l : List Rat) : Rat := (l.map fun r => r * r).sum

/-! correspondence only (no theorem uses these): the grouping variant and the magnitude of the terms of a residual
    entry (the tolerance of the comparison with the doubles of the implementation is relative to it) -/

def condsVariant (repaired : Bool) (m : ModelData) (uniq : List String) : List (Condition × List Data) :=
  if repaired then
    (groupsByTargets m).filterMap fun g => match g with
      | [] => none
      | r :: _ => some (mkCondition r.trans uniq, g)
  else generateConditions m uniq

def ratAbs (r : Rat) : Rat := if r < 0 then -r else r

def polyScaleAux : List Rat → Rat → Rat → Rat
  | [], _, _ => 0
  | a :: as, x, pw => ratAbs (a * pw) + polyScaleAux as x (pw * x)

def scaleOf (conds : List (Condition × List Data)) (g : List Rat) : List Rat :=
  conds.flatMap fun cd => cd.2.flatMap fun d =>
    List.zipWith (fun x y => ratAbs (bitsToRat y) + polyScaleAux (getLocalParams cd.1 g) (bitsToRat x) 1) d.x d.y

def Fit.residualV (repaired : Bool) (F : Fit) (g : List Rat) : List Rat × List Rat :=
  let uniq := F.table.map (·.1)
  ((F.models.map fun m => residualOf (condsVariant repaired m uniq) polyFn g).flatten,
   (F.models.map fun m => scaleOf (condsVariant repaired m uniq) g).flatten)

/-! ### the Jacobian the fit hands to its optimiser (`Model._calculate_jacobian`, `Fit._calculate_jacobian`, the `jac`
    closure of `Fit._fit`) -/

/-- Model sensitivities: local parameter vector ↦ independent value ↦ the partial derivatives w.r.t. the local
    parameters (`Model.jacobian` at one point, transposed). -/
abbrev SensFn := List Rat → Rat → List Rat

/-- The toy models: `np.vstack([x**k for k in range(n)])`. -/
def polySensAux : Nat → Rat → Rat → List Rat
  | 0, _, _ => []
  | n + 1, x, pw => pw :: polySensAux n x (pw * x)

def polySens : SensFn := fun p x => polySensAux p.length x 1

/-- The rows of one dataset: a zero row of the width of the table per sample, then
    `np.subtract.at(jacobian, (rows, p_indices), sensitivities[:, p_external])` (unbuffered: every local sensitivity is
    subtracted from the column of its global parameter, repeated indices accumulate). -/
def dataJacobian (J : SensFn) (c : Condition) (p : List Rat) (n : Nat) (d : Data) : List (List Rat) :=
  d.x.map fun x => scatterRowSum c (List.replicate n 0) (J p (bitsToRat x))

/-- `Model._calculate_jacobian`: conditions, datasets and samples in the order of the residual. -/
def jacobianOf (conds : List (Condition × List Data)) (J : SensFn) (n : Nat) (g : List Rat) : List (List Rat) :=
  conds.flatMap fun cd => cd.2.flatMap (dataJacobian J cd.1 (getLocalParams cd.1 g) n)

def ModelData.jacobian (J : SensFn) (m : ModelData) (uniq : List String) (g : List Rat) : List (List Rat) :=
  jacobianOf (generateConditions m uniq) J uniq.length g

/-- `Fit._calculate_jacobian(parameter_values)`: the blocks of the models in constructor order. -/
def Fit.jacobianAt (Js : List SensFn) (F : Fit) (g : List Rat) : List (List Rat) :=
  (List.zipWith (fun (m : ModelData) J => m.jacobian J (F.table.map (·.1)) g) F.models Js).flatten

/-- The `jac` callable `Fit._fit` hands to the optimiser: `parameter_vector[fitted] = params; return
    self._calculate_jacobian(parameter_vector)[:, fitted]`. -/
def Fit.jacObjective (Js : List SensFn) (F : Fit) (z : List Rat) : List (List Rat) :=
  (F.jacobianAt Js (writeBack F.fitted z F.values)).map (maskSel F.fitted)

/-- correspondence: all models are the polynomial toys; as-is / repaired grouping as for the residual -/
def Fit.jacobianV (repaired : Bool) (F : Fit) (g : List Rat) : List (List Rat) :=
  let uniq := F.table.map (·.1)
  (F.models.map fun m => jacobianOf (condsVariant repaired m uniq) polySens uniq.length g).flatten

/-! ### protocol -/
open Verif.Proto

/-- strings travel as `s` followed by their code points joined by `.` (`s` alone = empty string) -/
def str? (tok : String) : Option String :=
  if tok.startsWith "s" then
    let body := (tok.drop 1).toString
    if body == "" then some ""
    else ((body.splitOn ".").mapM fun (p : String) => p.toNat?).map fun cps => String.ofList (cps.map Char.ofNat)
  else none

def showStr (s : String) : String := "s" ++ ".".intercalate (s.toList.map fun c => toString c.toNat)

def optRat? (s : String) : Option (Option Rat) := if s == "N" then some none else (rat? s).map some
def showOptRat : Option Rat → String
  | none => "N"
  | some r => showRat r

def showParam (e : String × Param) : String :=
  showStr e.1 ++ ":" ++ showRat e.2.value ++ ":" ++ showOptRat e.2.lb ++ ":" ++ showOptRat e.2.ub ++ ":" ++
    showBool e.2.fixed

def showOptRatE : Option Rat → String
  | none => "IndexError"
  | some r => showRat r

/-- The observation of a query: the parameter table, for every model and dataset (insertion order) the local
    vector by the index route (`Condition.get_local_params` of the dataset's condition) and by the name route
    (`FitData.get_params`), the samples every dataset holds (`fit[model].data[name].x / .y`), and the length of the
    residual vector the fit evaluates (`Fit._calculate_residual` allocates `n_residuals` entries: one per valid data
    point of every dataset of every model). -/
def Fit.observe (repaired : Bool) (F : Fit) : String :=
  let uniq := F.table.map (·.1)
  let g := F.values
  let perModel := F.models.map fun m =>
    let byIdx := localsByIndexVariant repaired m uniq g
    "{" ++ " ".intercalate (m.data.map fun d =>
      showStr d.name ++ "=" ++ (match byIdx.lookup d.name with
        | some v => showRatList v
        | none => "missing") ++ "=" ++ showList showOptRatE (getParams d F.table)) ++ "}"
  let perData := F.models.map fun m =>
    "{" ++ " ".intercalate (m.data.map fun d =>
      showStr d.name ++ "=" ++ showNatList d.x ++ "=" ++ showNatList d.y) ++ "}"
  "T" ++ showList showParam F.table ++ " L" ++ "".intercalate perModel ++ " D" ++ "".intercalate perData ++
    " R" ++ toString F.nResiduals

inductive Action where
  | add (mi : Nat) (name : String) (ov : List (String × Target)) (nanx nany : List Bool) (xs ys : List Nat)
  | set (name : String) (f : Field)
  | fit (o : OptOut)
  | query
  | jac (mi : Nat) (name : String) (sens : List Rat)
deriving Repr

def showFitOutcome : FitOutcome → String
  | .raised e => "fit:" ++ e
  | .optRaised lb ub x0 e => "fit:" ++ e ++ ":" ++ showRatList x0 ++ ":" ++ showList showOptRat lb ++ ":" ++
      showList showOptRat ub
  | .done lb ub x0 x => "fit:ok:" ++ showRatList x0 ++ ":" ++ showList showOptRat lb ++ ":" ++
      showList showOptRat ub ++ ":" ++ showRatList x

def showErr : Option Err → String
  | none => "ok"
  | some e => e.str

/-- One row of the global Jacobian for dataset `name` of model `mi` given the model's local sensitivities (after a
    rebuild): what the code's scatter gives, and the chain-rule sum. -/
def Fit.jacRow (F : Fit) (mi : Nat) (name : String) (sens : List Rat) : Option (List Rat × List Rat) := do
  let m ← F.models[mi]?
  let uniq := F.table.map (·.1)
  let cd ← (generateConditions m uniq).find? fun cd => cd.2.any fun d => d.name == name
  let zero := uniq.map fun _ => (0 : Rat)
  some (scatterRow cd.1 zero sens, scatterRowSum cd.1 zero sens)

def step (repaired : Bool) (F : Fit) : Action → Fit × String
  | .add mi name ov nx ny xs ys => let r := F.addData mi name ov nx ny xs ys; (r.1, "add:" ++ showErr r.2)
  | .set name f => let r := F.setField repaired name f; (r.1, "set:" ++ showErr r.2)
  | .fit o => let r := F.fit repaired (fun _ _ _ => o); (r.1, showFitOutcome r.2)
  | .query => let F' := F.rebuild repaired; (F', F'.observe repaired)
  | .jac mi name sens =>
    let F' := F.rebuild repaired
    (F', match F'.jacRow mi name sens with
      | some (a, b) => "J" ++ showRatList a ++ (if a == b then "" else "!" ++ showRatList b)
      | none => "J:missing")

def run (repaired : Bool) (F : Fit) : List Action → List String
  | [] => []
  | a :: as => let r := step repaired F a; r.2 :: run repaired r.1 as

/-- the fit object after a script of actions (the state `run` threads through) -/
def exec (repaired : Bool) (F : Fit) : List Action → Fit
  | [] => F
  | a :: as => exec repaired (step repaired F a).1 as

def showResid (p : List Rat × List Rat) : String := showRatList p.1 ++ "~" ++ showRatList p.2

/-- The residual vectors a script makes the fit evaluate (all models are the polynomial toys): at every query the
    residual at the current values; at every fit that reaches its optimiser what the function handed to the optimiser
    answers at the start point and (when the optimiser answered) at the answer. Each with the magnitudes after `~`. -/
def runResid (repaired : Bool) (F : Fit) : List Action → List String
  | [] => []
  | a :: as =>
    let r := step repaired F a
    let out : List String := match a with
      | .query => ["q" ++ showResid (r.1.residualV repaired r.1.values)]
      | .fit o =>
        let G := F.rebuild repaired
        match (F.fit repaired (fun _ _ _ => o)).2 with
        | .raised _ => ["f-"]
        | .optRaised _ _ x0 _ => ["f" ++ showResid (G.residualV repaired (writeBack G.fitted x0 G.values))]
        | .done _ _ x0 x => ["f" ++ showResid (G.residualV repaired (writeBack G.fitted x0 G.values)) ++ ">" ++
            showResid (G.residualV repaired (writeBack G.fitted x G.values))]
      | _ => []
    out ++ runResid repaired r.1 as

/-- The Jacobians a script makes the fit evaluate (polynomial toys): at every query the full Jacobian at the current
    values (all columns); at every fit that reaches its optimiser what the `jac` callable answers at the start point
    (the fitted columns). -/
def runJac (repaired : Bool) (F : Fit) : List Action → List String
  | [] => []
  | a :: as =>
    let r := step repaired F a
    let out : List String := match a with
      | .query => ["q" ++ showList showRatList (r.1.jacobianV repaired r.1.values)]
      | .fit o =>
        let G := F.rebuild repaired
        match (F.fit repaired (fun _ _ _ => o)).2 with
        | .raised _ => ["f-"]
        | .optRaised _ _ x0 _ | .done _ _ x0 _ =>
          ["f" ++ showList showRatList ((G.jacobianV repaired (writeBack G.fitted x0 G.values)).map (maskSel G.fitted))]
      | _ => []
    out ++ runJac repaired r.1 as

/-! parsing of one op line -/

def target? : List String → Option (Target × List String)
  | "n" :: s :: rest => do let s ← str? s; some (.name s, rest)
  | "c" :: v :: r :: rest => do let v ← rat? v; let r ← str? r; some (.const v r, rest)
  | _ => none

def overrides? : Nat → List String → Option (List (String × Target) × List String)
  | 0, rest => some ([], rest)
  | n + 1, k :: rest => do
    let k ← str? k
    let (t, rest) ← target? rest
    let (more, rest) ← overrides? n rest
    some ((k, t) :: more, rest)
  | _, _ => none

def default? : List String → Option (Option Param × List String)
  | "N" :: rest => some (none, rest)
  | "P" :: v :: l :: u :: f :: rest => do
    let v ← rat? v; let l ← optRat? l; let u ← optRat? u; let f ← bool? f
    some (some ⟨v, l, u, f⟩, rest)
  | _ => none

def params? : Nat → List String → Option (List (String × Option Param) × List String)
  | 0, rest => some ([], rest)
  | n + 1, k :: rest => do
    let k ← str? k
    let (d, rest) ← default? rest
    let (more, rest) ← params? n rest
    some ((k, d) :: more, rest)
  | _, _ => none

def models? : Nat → List String → Option (List ModelData × List String)
  | 0, rest => some ([], rest)
  | n + 1, "M" :: np :: rest => do
    let np ← nat? np
    let (ps, rest) ← params? np rest
    let (more, rest) ← models? n rest
    some (⟨ps, [], false⟩ :: more, rest)
  | _, _ => none

def field? : List String → Option (Field × List String)
  | "v" :: x :: rest => do let x ← rat? x; some (.value x, rest)
  | "l" :: x :: rest => do let x ← optRat? x; some (.lb x, rest)
  | "u" :: x :: rest => do let x ← optRat? x; some (.ub x, rest)
  | "f" :: x :: rest => do let x ← bool? x; some (.fixed x, rest)
  | _ => none

def action? : List String → Option (Action × List String)
  | "A" :: mi :: name :: nov :: rest => do
    let mi ← nat? mi; let name ← str? name; let nov ← nat? nov
    let (ov, rest) ← overrides? nov rest
    match rest with
    | nx :: ny :: xs :: ys :: rest => do
      let nx ← listOf? bool? nx; let ny ← listOf? bool? ny
      let xs ← natList? xs; let ys ← natList? ys
      some (.add mi name ov nx ny xs ys, rest)
    | _ => none
  | "S" :: name :: rest => do
    let name ← str? name
    let (f, rest) ← field? rest
    some (.set name f, rest)
  | "F" :: "ok" :: x :: rest => do let x ← ratList? x; some (.fit (.ok x), rest)
  | "F" :: "err" :: e :: rest => some (.fit (.err e), rest)
  | "Q" :: rest => some (.query, rest)
  | "J" :: mi :: name :: s :: rest => do
    let mi ← nat? mi; let name ← str? name; let s ← ratList? s
    some (.jac mi name s, rest)
  | _ => none

def actions? : Nat → List String → Option (List Action)
  | _, [] => some []
  | 0, _ => none
  | fuel + 1, toks => do
    let (a, rest) ← action? toks
    let more ← actions? fuel rest
    some (a :: more)

/- ops:
  `c14.run <nmodels> {M <nparams> {<name> (N | P value lb ub fixed)}} <actions…>`
     actions: `A mi dsname nov {key (n name | c value repr)} [nan-x] [nan-y] [x bits] [y bits]` | `S name (v|l|u|f) x` |
              `F ok [x…]` | `F err Name` | `Q` | `J mi dsname [sens…]`
     answers the observations of all actions joined by `;`; when the repaired variant (aligned defaults in
     `_build_fit`, condition groups keyed by the target lists) would answer differently, that answer follows after
     ` || `; a Jacobian probe answers the row the code's scatter gives and, after `!`, the chain-rule row when it
     differs.
  `c14.resid <same arguments as c14.run>` (polynomial toy models only) → for every `Q` `q[residual]~[magnitudes]`,
     for every `F` `f-` (optimiser not reached) | `f[residual at start]~[..]` | `f[at start]~[..]>[at answer]~[..]`,
     joined by `;` (as-is / repaired variants as for `c14.run`)
  `c14.fjac <same arguments as c14.run>` (polynomial toy models only) → for every `Q` `q[[row]…]` (full Jacobian at the
     table values), for every `F` `f-` | `f[[row]…]` (the `jac` callable at the start point: fitted columns)
  `c14.unique [..names..]`  → unique list and inverse indices -/
def handle : List String → Option String
  | "c14.run" :: nm :: rest => do
    let nm ← nat? nm
    let (ms, rest) ← models? nm rest
    let acts ← actions? (rest.length + 1) rest
    let F : Fit := ⟨ms, [], false⟩
    let a := ";".intercalate (run false F acts)
    let b := ";".intercalate (run true F acts)
    some (if a == b then a else a ++ " || " ++ b)
  | "c14.resid" :: nm :: rest => do
    let nm ← nat? nm
    let (ms, rest) ← models? nm rest
    let acts ← actions? (rest.length + 1) rest
    let F : Fit := ⟨ms, [], false⟩
    let a := ";".intercalate (runResid false F acts)
    let b := ";".intercalate (runResid true F acts)
    some (if a == b then a else a ++ " || " ++ b)
  | "c14.fjac" :: nm :: rest => do
    let nm ← nat? nm
    let (ms, rest) ← models? nm rest
    let acts ← actions? (rest.length + 1) rest
    let F : Fit := ⟨ms, [], false⟩
    let a := ";".intercalate (runJac false F acts)
    let b := ";".intercalate (runJac true F acts)
    some (if a == b then a else a ++ " || " ++ b)
  | "c14.unique" :: toks => do
    let names ← toks.mapM str?
    let r := uniqueIdx names
    some (showList showStr r.1 ++ " " ++ showNatList r.2)
  | _ => none

end Verif.C14
