/-
  C06 — derived kymograph / scan views.
  Executable model of `Kymo.__getitem__` (searchsorted on line starts), `crop_by_distance`, `flip`,
  `downsampled_by`, `calibrate_to_kbp` (lumicks/pylake/kymo.py) and of `Scan.__getitem__`,
  `_scan_with_sliced_factories`, `crop_by_pixels`, `FrameIndex._time_to_frame_index`
  (scan.py, detail/imaging_mixins.py).  A view holds one colour plane as a list of rows.
-/
import Verif.Py
import Verif.Proto
import Verif.Model.C01

namespace Verif.C06
open Verif.Py

/-- a pixel: photon count, timestamp of its first and of its last used sample (0/0 for a pixel of an
    unfinished line that was never acquired) -/
structure Pix where
  v : Int
  tmin : Int
  tmax : Int
deriving Repr, DecidableEq

abbrev Img := List (List Pix)          -- rows (position) × columns (scan lines)

/-- the timestamp a pixel is given (`timestamp_mean`): smallest sample timestamp plus the floored mean offset;
    for the evenly spaced samples of a pixel that is half the span -/
def Pix.tmean (p : Pix) : Int := p.tmin + (p.tmax - p.tmin) / 2


inductive Err where
  | notImplemented | indexError | valueError | runtimeError
deriving Repr, DecidableEq

/-! ### helpers on images -/

/-- the photon-count plane -/
def values (img : Img) : List (List Int) := img.map fun r => r.map (·.v)

/-- columns `i ≤ c < j` of every row -/
def takeCols {α} (img : List (List α)) (i j : Nat) : List (List α) := img.map fun row => (row.take j).drop i

def numCols {α} (img : List (List α)) : Nat := (img.head?.map List.length).getD 0

/-- `chunks k l`: consecutive full blocks of `k` elements; a trailing incomplete block is dropped. -/
def chunks {α} (k : Nat) (l : List α) : List (List α) :=
  if h : k = 0 then [] else
  if l.length < k then [] else l.take k :: chunks k (l.drop k)
termination_by l.length
decreasing_by simp; omega

/-- reduction of two pixels of a block: counts add, timestamps take min / max (`reduce=np.sum` for the
    image, `np.min` / `np.max` for the timestamps that the line ranges are made of) -/
def Pix.add (a b : Pix) : Pix := ⟨a.v + b.v, min a.tmin b.tmin, max a.tmax b.tmax⟩

def sumPix : List Pix → Pix
  | [] => ⟨0, 0, 0⟩
  | p :: ps => ps.foldl Pix.add p

/-- element-wise reduction of a non-empty list of equally long rows -/
def addRows (rows : List (List Pix)) : List Pix :=
  match rows with
  | [] => []
  | r :: rs => rs.foldl (fun acc x => List.zipWith Pix.add acc x) r

/-- `block_reduce(img, (pf, tf), sum)[: P//pf, : L//tf]` -/
def blockReduce (img : Img) (pf tf : Nat) : Img :=
  (chunks pf img).map fun rowBlock =>
    (chunks tf (addRows rowBlock)).map sumPix

def maxList (l : List Int) : Int := l.foldl max (l.headD 0)
def minList (l : List Int) : Int := l.foldl min (l.headD 0)

/-- column `j` of an image -/
def column {α} (img : List (List α)) (j : Nat) : List α := img.filterMap fun r => r[j]?

/-! ### kymograph views -/

structure KView where
  img : Img
  /-- line ranges are defined (not after time-downsampling, where the code raises) -/
  rangesDefined : Bool
  /-- one sample period as the code adds it (`int(1e9 / sample_rate)`) -/
  delta : Int
  /-- calibrated pixel size (`pixelsize[0]`) -/
  px : Rat
  /-- calibration unit: 0 = um, 1 = kbp, 2 = pixel -/
  unit : Nat
  /-- `pixelsize_um[0]`; `none` for a kymograph without a physical pixel size -/
  pxUm : Option Rat
  /-- line time in ns as reported by `line_time_seconds`, for views with ≥ 2 lines or processed views -/
  lineTimeNs : Rat
  /-- duration of the used part of one line (line time of a single-line unprocessed kymograph) -/
  scanTimeNs : Rat
  /-- custom factories installed: slicing in time is refused -/
  processed : Bool
  /-- position offset in calibrated units -/
  offset : Rat
  /-- pixel dwell time of the source in ns (samples per pixel × sample period), what an unprocessed kymograph
      reads off its info wave -/
  pixelTimeNs : Int := 0
  /-- the calibrated pixel size as the DOUBLE the code holds (`_calibration.value`): products and quotients are
      rounded where the code rounds them, so that `int(lower / px)` can be executed as the code executes it -/
  pxF : Float := 0.0
  /-- the kymograph's own time window `[start, stop)` (`Kymo.start`, `Kymo.stop`): what `None` bounds default to and
      what time strings are relative to; a time slice narrows it, the other operations copy it -/
  tStart : Int := 0
  tStop : Int := 0
deriving Repr

def KView.numLines (v : KView) : Nat := numCols v.img
def KView.pixelsPerLine (v : KView) : Nat := v.img.length

/-- `line_timestamp_ranges(include_dead_time=False)`: per line, from the (minimum) timestamp of the
    pixel in the first row to one period past the largest (maximum) timestamp in the line. -/
def lineRanges (img : Img) (delta : Int) : List (Int × Int) :=
  (List.range (numCols img)).map fun j =>
    ((((img.head?.bind (·[j]?)).map (·.tmin)).getD 0), maxList ((column img j).map (·.tmax)) + delta)

def KView.ranges (v : KView) : Option (List (Int × Int)) :=
  if v.rangesDefined then some (lineRanges v.img v.delta) else none

/-- Result of an operation: a view, the empty kymograph, or an error. -/
inductive KRes where
  | view (v : KView)
  | empty
  | err (e : Err)
deriving Repr

/-- `Kymo.__getitem__` with integer timestamps already resolved. `searchsorted(starts, ·, "left")`. -/
def KView.sliceTime (v : KView) (a b : Int) : KRes :=
  if v.processed then .err .notImplemented else
  match v.ranges with
  | none => .err .notImplemented
  | some rs =>
    let starts := rs.map (·.1)
    let n := starts.length
    let iMin := searchsortedLeft starts a
    let iMax := searchsortedLeft starts b
    if iMin = n then .empty
    else if iMin ≥ iMax then .empty
    else
      let kept := (rs.take iMax).drop iMin
      let img := takeCols v.img iMin iMax
      -- the slice's own line time: period of its first two lines, or the bare scan time for one line
      let lt : Rat := match kept with
        | r0 :: r1 :: _ => ((r1.1 - r0.1 : Int) : Rat)
        | _ => v.scanTimeNs
      -- the slice's own window: from the start of its first line to the start of the first line after it; when it
      -- runs to the last line, to the requested stop — but not beyond the parent's stop and not before the end of
      -- the last line
      let newStart := (starts[iMin]?).getD 0
      let newStop := if iMax < n then (starts[iMax]?).getD 0
        else max (min b v.tStop) ((rs.getLast?.map (·.2)).getD 0)
      .view { v with img := img, lineTimeNs := lt, tStart := newStart, tStop := newStop }

/-- a bound of `kymo[a:b]` as the user writes it: `None`, an integer timestamp, or a time string -/
inductive KBound where
  | none
  | ts (t : Int)
  | str (s : String)
deriving Repr, DecidableEq

/-- what is written between the brackets: a scalar (`kymo[5]`), or a slice with or without a step -/
inductive KItem where
  | scalar
  | window (a b : KBound) (step : Bool)
deriving Repr, DecidableEq

/-- `to_timestamp(value, self.start, self.stop)` with `None` replaced by the default first: a time string is parsed
    by `Timeindex` (`C01.parseTime`; `none` = `RuntimeError("Invalid time string")`) and counted from `start`
    (non-negative) or back from `stop` (negative) -/
def KView.resolve (v : KView) (dflt : Int) : KBound → Option Int
  | .none => some dflt
  | .ts t => some t
  | .str s => (C01.parseTime s).map fun ns => C01.resolve v.tStart v.tStop dflt (.rel ns)

/-- `Kymo.__getitem__` as the user calls it: the item is validated first (scalar / step: `IndexError`, before anything
    else), then `_check_is_sliceable`, then the bounds are resolved, then the lines are selected (`sliceTime`) -/
def KView.getitem (v : KView) : KItem → KRes
  | .scalar => .err .indexError
  | .window a b step =>
    if step then .err .indexError
    else if v.processed then .err .notImplemented
    else match v.resolve v.tStart a, v.resolve v.tStop b with
      | some a', some b' => v.sliceTime a' b'
      | _, _ => .err .runtimeError

/-- `crop_by_distance(lower, upper)` (both already known to be exact rationals). -/
def KView.crop (v : KView) (lo hi : Rat) : KRes :=
  if lo < 0 ∨ hi < 0 then .err .valueError else
  let lower : Int := (lo / v.px).floor          -- int() of a non-negative quotient
  let upper : Int := (hi / v.px).ceil
  let rows := pySlice v.img lower upper
  if rows.length = 0 then .err .indexError
  else .view { v with img := rows, processed := true, offset := v.offset + (lower : Rat) * v.px }

/-- a double that holds an integer, as that integer -/
def f2i (x : Float) : Int := if x < 0 then -(((-x).toUInt64.toNat : Nat) : Int) else ((x.toUInt64.toNat : Nat) : Int)

/-- a rational as the nearest double (numerator and denominator below 2⁵³: one correctly rounded division) -/
def ratToFloat (r : Rat) : Float := Float.ofInt r.num / Float.ofNat r.den

/-- `crop_by_distance(lower, upper)` **as executed in binary floating point**: the row indices are
    `int(lower / px)` and `int(ceil(upper / px))` with the IEEE quotient of the two doubles — which, for a pixel size
    that is not a binary fraction, can differ from the floor of the exact quotient (`1.0 / 0.1` is `10.0`).  Same row
    selection as `KView.crop`. -/
def KView.cropF (v : KView) (lo hi : Float) : KRes :=
  if lo < 0 || hi < 0 then .err .valueError else
  let lower : Int := f2i (Float.floor (lo / v.pxF))
  let upper : Int := f2i (Float.ceil (hi / v.pxF))
  let rows := pySlice v.img lower upper
  if rows.length = 0 then .err .indexError
  else .view { v with img := rows, processed := true, offset := v.offset + (lower : Rat) * v.px }

/-- `flip()`: the image rows are reversed; per-pixel timestamps are left as they are (observation O1),
    so the model flips the counts only. -/
def KView.flip (v : KView) : KRes :=
  .view { v with
    img := List.zipWith (fun (cnt : List Pix) (ts : List Pix) =>
      List.zipWith (fun (c t : Pix) => (⟨c.v, t.tmin, t.tmax⟩ : Pix)) cnt ts) v.img.reverse v.img,
    processed := true }

/-- `downsampled_by(time_factor, position_factor)` with `reduce = np.sum`. -/
def KView.down (v : KView) (tf pf : Nat) : KRes :=
  if tf = 0 ∨ pf = 0 then .err .valueError else
  .view { v with
    img := blockReduce v.img pf tf,
    rangesDefined := v.rangesDefined && tf == 1,
    px := if v.unit = 2 then v.px else v.px * pf,
    pxF := if v.unit = 2 then v.pxF else v.pxF * pf.toFloat,
    pxUm := v.pxUm.map (· * pf),
    lineTimeNs := v.lineTimeNs * tf,
    processed := true }

/-- other reducers a user may pass as `reduce=`: `np.max`, `np.min`, `np.ptp` (max − min; it does NOT factor into
    a reduction over position followed by one over time) -/
inductive Red where
  | max | min | ptp
deriving Repr, DecidableEq

def Red.apply : Red → List Int → Int
  | .max, l => maxList l
  | .min, l => minList l
  | .ptp, l => maxList l - minList l

/-- the `pf × tf` block number `j` (in time) of a band of `pf` rows, row-major -/
def block2d (band : List (List Pix)) (tf j : Nat) : List Pix := band.flatMap fun r => (r.drop (j * tf)).take tf

/-- `block_reduce(img, (pf, tf), func=red)[: P//pf, : L//tf]`: every output pixel is `red` over ALL pixels of its
    two-dimensional block (timestamps: the block's smallest / largest) -/
def blockReduceWith (red : Red) (img : Img) (pf tf : Nat) : Img :=
  (chunks pf img).map fun band =>
    (List.range (numCols band / tf)).map fun j =>
      let b := block2d band tf j
      ⟨red.apply (b.map (·.v)), minList (b.map (·.tmin)), maxList (b.map (·.tmax))⟩

/-- `downsampled_by(time_factor, position_factor, reduce=red)` -/
def KView.downWith (v : KView) (red : Red) (tf pf : Nat) : KRes :=
  if tf = 0 ∨ pf = 0 then .err .valueError else
  .view { v with
    img := blockReduceWith red v.img pf tf,
    rangesDefined := v.rangesDefined && tf == 1,
    px := if v.unit = 2 then v.px else v.px * pf,
    pxF := if v.unit = 2 then v.pxF else v.pxF * pf.toFloat,
    pxUm := v.pxUm.map (· * pf),
    lineTimeNs := v.lineTimeNs * tf,
    processed := true }

/-- `calibrate_to_kbp(length_kbp)` -/
def KView.kbp (v : KView) (len : Rat) : KRes :=
  if v.unit = 1 then .err .runtimeError
  else if v.pixelsPerLine = 0 then .err .valueError
  else .view { v with px := len / v.pixelsPerLine, unit := 1, pxF := ratToFloat len / v.pixelsPerLine.toFloat }

inductive KOp where
  | slice (a b : Int)
  | crop (lo hi : Rat)
  | cropF (lo hi : Float)
  | flip
  | down (tf pf : Nat)
  | downWith (red : Red) (tf pf : Nat)
  | kbp (len : Rat)
  | get (item : KItem)
deriving Repr

def KView.apply (v : KView) : KOp → KRes
  | .slice a b => v.sliceTime a b
  | .get item => v.getitem item
  | .crop lo hi => v.crop lo hi
  | .flip => v.flip
  | .cropF lo hi => v.cropF lo hi
  | .down tf pf => v.down tf pf
  | .downWith red tf pf => v.downWith red tf pf
  | .kbp len => v.kbp len

/-- run a program; stops at the first error / empty result, and at a view without pixel rows
    (a position factor larger than the pixel count leaves nothing to operate on) -/
def runK (v : KView) : List KOp → KRes
  | [] => .view v
  | op :: ops =>
    match v.apply op with
    | .view v' => if v'.img.length = 0 then .view v' else runK v' ops
    | r => r

/-! ### scan views -/

abbrev Frame := List (List Pix)         -- rows × columns in image orientation

structure SView where
  /-- frames in image orientation; a single-frame scan has one frame -/
  frames : List Frame
  /-- one sample period as the code adds it to the last timestamp (`int(1e9 / sample_rate)`) -/
  delta : Int
  /-- the fast scan axis runs along image axis −2 (down the rows): `scan_order[0] > scan_order[1]` -/
  fastRows : Bool := false
  /-- the scan's own time window (`Scan.start`, `Scan.stop`): what time strings are relative to; stamped anew by every
      `__getitem__` (not by `crop_by_pixels`) -/
  tStart : Int := 0
  tStop : Int := 0
deriving Repr

inductive SRes where
  | view (v : SView)
  | empty
  | err (e : Err)
deriving Repr

def SView.numFrames (v : SView) : Nat := v.frames.length

/-- `frame_timestamp_ranges(include_dead_time=False)`: per frame, from the timestamp of pixel `[0,0]`
    to one period past the largest pixel timestamp (the single-frame branch used the smallest pixel
    timestamp of the zero-padded image before finding F11 was repaired). -/
def SView.ranges (v : SView) : List (Int × Int) :=
  v.frames.map fun f =>
    (((f.head?.bind List.head?).map (·.tmin)).getD 0, maxList (f.flatten.map (·.tmax)) + v.delta)

def numColsF (f : Frame) : Nat := (f.head?.map List.length).getD 0

/-- `Scan.timestamps`: per-pixel timestamps, same shape as the image -/
def SView.timestamps (v : SView) : List (List (List Int)) := v.frames.map fun f => f.map fun r => r.map Pix.tmean

/-- `pixel_time_seconds` of a DERIVED scan (ns): timestamp of the second pixel along the FAST axis of the first
    frame minus that of pixel `[0,0]`; `none` (IndexError) when there is no second pixel along that axis -/
def SView.pixelTime (v : SView) : Option Int := do
  let f ← v.frames.head?
  let a ← (f[0]?).bind (·[0]?)
  let b ← if v.fastRows then (f[1]?).bind (·[0]?) else (f[0]?).bind (·[1]?)
  some (b.tmean - a.tmean)

/-- `pixels_per_line`: the number of pixels along the fast axis -/
def SView.pixelsPerLine (v : SView) : Nat :=
  match v.frames.head? with
  | some f => if v.fastRows then f.length else numColsF f
  | none => 0

/-- `lines_per_frame`: the number of pixels along the slow axis -/
def SView.linesPerFrame (v : SView) : Nat :=
  match v.frames.head? with
  | some f => if v.fastRows then numColsF f else f.length
  | none => 0

/-- rows `[y0:y1]`, columns `[x0:x1]` of one frame, Python slicing with optional bounds -/
def cropFrame (f : Frame) (y0 y1 x0 x1 : Option Int) : Frame :=
  (pySliceOpt f y0 y1).map fun row => pySliceOpt row x0 x1

def emptyAxis (f : Frame) : Bool := f.length = 0 || numColsF f = 0

/-- `_scan_with_sliced_factories(frame_axis = integer i, spatial_axes)` -/
def SView.index (v : SView) (i : Int) (y0 y1 x0 x1 : Option Int) : SRes :=
  let n : Int := v.numFrames
  let j := if i ≥ 0 then i else n + i
  if j < 0 ∨ j ≥ n then .err .indexError else
  match v.frames[j.toNat]? with
  | some f =>
    let c := cropFrame f y0 y1 x0 x1
    if emptyAxis c then .err .notImplemented else .view { v with frames := [c] }
  | none => .err .indexError

/-- `_scan_with_sliced_factories(frame_axis = slice(a, b), spatial_axes)` -/
def SView.slice (v : SView) (a b : Option Int) (y0 y1 x0 x1 : Option Int) : SRes :=
  let fs := pySliceOpt v.frames a b
  if fs.length = 0 then .empty else
  let cs := fs.map fun f => cropFrame f y0 y1 x0 x1
  if cs.any emptyAxis then .err .notImplemented else .view { v with frames := cs }

/-- `_time_to_frame_index` for a timestamp (≥ the first-timestamp threshold): `searchsorted` on the
    frame starts (start bound) or frame stops (stop bound), side left. -/
def SView.timeToFrame (v : SView) (t : Int) (isStart : Bool) : Int :=
  if isStart then searchsortedLeft (v.ranges.map (·.1)) t else searchsortedLeft (v.ranges.map (·.2)) t

/-- `_FIRST_TIMESTAMP`: integers below it are frame indices, integers from it on are timestamps -/
def firstTimestamp : Int := 1388534400000000000

/-- `frame_timestamp_ranges(include_dead_time=True)` of a view with several frames: every frame lasts one frame
    period (start of the second frame minus start of the first) -/
def SView.deadRanges (v : SView) : List (Int × Int) :=
  match v.ranges.map (·.1) with
  | s0 :: s1 :: rest => (s0 :: s1 :: rest).map fun t => (t, t + (s1 - s0))
  | _ => v.ranges

/-- what `Scan.__getitem__` does to its result before returning it: start and stop become the start of the first and the
    stop of the last frame range (dead time included iff there is more than one frame) -/
def SView.stamp (w : SView) : SView :=
  let rs := if w.numFrames > 1 then w.deadRanges else w.ranges
  { w with tStart := (rs.head?.map (·.1)).getD 0, tStop := (rs.getLast?.map (·.2)).getD 0 }

def SRes.stamp : SRes → SRes
  | .view w => .view w.stamp
  | r => r

/-- a bound of the frame slice as the user writes it: `None`, an integer (frame index or timestamp), a time string -/
inductive SBound where
  | none
  | num (n : Int)
  | str (s : String)
  /-- a list, a tuple, … : comparing it with `_FIRST_TIMESTAMP` is a `TypeError`, reported as `IndexError` -/
  | other
deriving Repr, DecidableEq

/-- `_time_to_frame_index`: `None` stays `None`; a time string is resolved against the scan's own start / stop
    (`RuntimeError` if `Timeindex` rejects it); an integer below `_FIRST_TIMESTAMP` is a frame index already, anything
    else is looked up in the frame starts (start bound) or frame stops (stop bound) -/
def SView.timeToFrameB (v : SView) (isStart : Bool) : SBound → Except Err (Option Int)
  | .none => .ok none
  | .num n => .ok (some (if n < firstTimestamp then n else v.timeToFrame n isStart))
  | .other => .error .indexError
  | .str s =>
    match C01.parseTime s with
    | none => .error .runtimeError
    | some ns =>
      let t := C01.resolve v.tStart v.tStop 0 (.rel ns)
      .ok (some (if t < firstTimestamp then t else v.timeToFrame t isStart))

/-- the frame item of `scan[item]` -/
inductive SFrameItem where
  | int (i : Int)
  | slice (a b : SBound) (step : Bool)
  /-- a float, a list, … -/
  | other
deriving Repr, DecidableEq

/-- a spatial item of `scan[frames, rows, columns]` -/
inductive SAxisItem where
  | slice (a b : Option Int) (step : Bool)
  | int
  | other
deriving Repr, DecidableEq

/-- `check_item(item, slicing_frames=False)` -/
def SAxisItem.check : SAxisItem → Except Err (Option Int × Option Int)
  | .slice a b step => if step then .error .indexError else .ok (a, b)
  | .int => .error .indexError
  | .other => .error .indexError

/-- `Scan.__getitem__`: the frame item is checked and converted first, then the spatial items from left to right, then
    the frames / pixels are selected, and a non-empty result gets its start / stop stamped -/
def SView.getitem (v : SView) (fi : SFrameItem) (sp : List SAxisItem) : SRes :=
  let frame : Except Err (Sum Int (Option Int × Option Int)) :=
    match fi with
    | .int i => .ok (.inl i)
    | .other => .error .indexError
    | .slice a b step =>
      if step then .error .indexError else
      match v.timeToFrameB true a with
      | .error e => .error e
      | .ok a' => match v.timeToFrameB false b with
        | .error e => .error e
        | .ok b' => .ok (.inr (a', b'))
  match frame with
  | .error e => .err e
  | .ok fr =>
    match sp.mapM SAxisItem.check with
    | .error e => .err e
    | .ok axes =>
      let (y0, y1) := axes.getD 0 (none, none)
      let (x0, x1) := axes.getD 1 (none, none)
      match fr with
      | .inl i => (v.index i y0 y1 x0 x1).stamp
      | .inr (a', b') => (v.slice a' b' y0 y1 x0 x1).stamp

inductive SOp where
  /-- `crop_by_pixels`: no `__getitem__`, start / stop are copied -/
  | cropxy (y0 y1 x0 x1 : Option Int)
  | get (fi : SFrameItem) (sp : List SAxisItem)
  | index (i : Int) (y0 y1 x0 x1 : Option Int)
  | slice (a b : Option Int) (y0 y1 x0 x1 : Option Int)
  /-- slice by timestamps (`none` = open) -/
  | sliceT (a b : Option Int)
deriving Repr

def SView.apply (v : SView) : SOp → SRes
  | .index i y0 y1 x0 x1 => (v.index i y0 y1 x0 x1).stamp
  | .slice a b y0 y1 x0 x1 => (v.slice a b y0 y1 x0 x1).stamp
  | .sliceT a b =>
    (v.slice (a.map fun t => v.timeToFrame t true) (b.map fun t => v.timeToFrame t false) none none none none).stamp
  | .cropxy y0 y1 x0 x1 => v.slice none none y0 y1 x0 x1
  | .get fi sp => v.getitem fi sp

def runS (v : SView) : List SOp → SRes
  | [] => .view v
  | op :: ops =>
    match v.apply op with
    | .view v' => runS v' ops
    | r => r

/-! ### protocol -/
open Verif.Proto

def pix? (tok : String) : Option Pix :=
  match tok.splitOn ":" with
  | [v, a, b] => do let v ← v.toInt?; let a ← a.toInt?; let b ← b.toInt?; some ⟨v, a, b⟩
  | _ => none

def showErr : Err → String
  | .notImplemented => "NotImplementedError"
  | .indexError => "IndexError"
  | .valueError => "ValueError"
  | .runtimeError => "RuntimeError"

def showImg (img : Img) : String := showListList showInt (values img)

def showRanges (rs : List (Int × Int)) : String :=
  showList (fun (r : Int × Int) => toString r.1 ++ ":" ++ toString r.2) rs

def ranges? (s : String) : Option (List (Int × Int)) :=
  listOf? (fun tok => match tok.splitOn ":" with
    | [a, b] => do let a ← a.toInt?; let b ← b.toInt?; some (a, b)
    | _ => none) s

/-- `Kymo.pixel_time_seconds` in ns: from the info wave while the factories are the default ones; for a processed
    kymograph the difference of the per-pixel timestamps `[1,0]` and `[0,0]` — `NotImplementedError` once the
    timestamps are gone (time-downsampled), `IndexError` when there is no second pixel -/
def KView.pixelTime (v : KView) : Except Err Int :=
  if !v.processed then .ok v.pixelTimeNs
  else if !v.rangesDefined then .error .notImplemented
  else match (v.img[0]?).bind (·[0]?), (v.img[1]?).bind (·[0]?) with
    | some a, some b => .ok (b.tmean - a.tmean)
    | _, _ => .error .indexError

def showKRes : KRes → String
  | .err e => showErr e
  | .empty => "empty"
  | .view v =>
    if v.img.length = 0 then "degenerate"
    -- a view of one pixel in one line: pylake reads pixel/line time from the second pixel/line and raises
    -- (finding F21 territory); nothing is compared beyond the image itself
    else if v.img.length = 1 ∧ numCols v.img = 1 then "single-pixel " ++ showImg v.img else
    "view img=" ++ showImg v.img ++ " ranges=" ++ (match v.ranges with | some r => showRanges r | none => "undefined")
      ++ " px=" ++ showRat v.px ++ " unit=" ++ toString v.unit
      ++ " pxum=" ++ (match v.pxUm with | some r => showRat r | none => "N")
      ++ " linetime=" ++ showRat v.lineTimeNs ++ " ppl=" ++ toString v.pixelsPerLine
      ++ " offset=" ++ showRat v.offset
      -- a colour without photon data is a zero image of the same shape
      ++ " absent=" ++ toString v.img.length ++ "x" ++ toString (numCols v.img)
      ++ " pt=" ++ (match v.pixelTime with | .ok t => toString t | .error e => showErr e)
      ++ " start=" ++ toString v.tStart ++ " stop=" ++ toString v.tStop

/-- `N`, an integer, or `s` followed by the dot-separated code points of a time string -/
def kbound? (s : String) : Option KBound :=
  if s == "N" then some .none
  else if s.startsWith "s" then do
    let body := (s.drop 1).toString
    let cps ← if body == "" then some [] else (body.splitOn ".").mapM String.toNat?
    some (.str (String.ofList (cps.map Char.ofNat)))
  else (s.toInt?).map .ts

def kop? (s : String) : Option KOp :=
  match s.splitOn ":" with
  | ["slice", a, b] => do let a ← a.toInt?; let b ← b.toInt?; some (.slice a b)
  | ["crop", lo, hi] => do let lo ← rat? (lo.replace "_" "/"); let hi ← rat? (hi.replace "_" "/"); some (.crop lo hi)
  | ["flip"] => some .flip
  | ["cropf", lo, hi] => do let lo ← float? lo; let hi ← float? hi; some (.cropF lo hi)
  | ["down", tf, pf] => do let tf ← tf.toNat?; let pf ← pf.toNat?; some (.down tf pf)
  | ["downr", red, tf, pf] => do
    let red ← (match red with | "max" => some Red.max | "min" => some Red.min | "ptp" => some Red.ptp | _ => none)
    let tf ← tf.toNat?; let pf ← pf.toNat?; some (.downWith red tf pf)
  | ["kbp", len] => do let len ← rat? (len.replace "_" "/"); some (.kbp len)
  | ["get", a, b] => do let a ← kbound? a; let b ← kbound? b; some (.get (.window a b false))
  | ["getstep", a, b] => do let a ← kbound? a; let b ← kbound? b; some (.get (.window a b true))
  | ["scalar"] => some (.get .scalar)
  | _ => none

def oi? (s : String) : Option (Option Int) := optInt? s

def sbound? (s : String) : Option SBound :=
  if s = "O" then some .other else
  match kbound? s with
  | some .none => some .none
  | some (.ts t) => some (.num t)
  | some (.str x) => some (.str x)
  | none => none

def sop? (s : String) : Option SOp :=
  match s.splitOn ":" with
  | ["index", i, y0, y1, x0, x1] => do
    let i ← i.toInt?; let y0 ← oi? y0; let y1 ← oi? y1; let x0 ← oi? x0; let x1 ← oi? x1
    some (.index i y0 y1 x0 x1)
  | ["slice", a, b, y0, y1, x0, x1] => do
    let a ← oi? a; let b ← oi? b; let y0 ← oi? y0; let y1 ← oi? y1; let x0 ← oi? x0; let x1 ← oi? x1
    some (.slice a b y0 y1 x0 x1)
  | ["slicet", a, b] => do let a ← oi? a; let b ← oi? b; some (.sliceT a b)
  | ["cropxy", y0, y1, x0, x1] => do
    let y0 ← oi? y0; let y1 ← oi? y1; let x0 ← oi? x0; let x1 ← oi? x1
    some (.cropxy y0 y1 x0 x1)
  | "get" :: fi :: sp => do
    let fi ← (match fi.splitOn "," with
      | ["i", i] => (i.toInt?).map SFrameItem.int
      | ["s", a, b] => do let a ← sbound? a; let b ← sbound? b; some (.slice a b false)
      | ["sstep", a, b] => do let a ← sbound? a; let b ← sbound? b; some (.slice a b true)
      | ["o"] => some .other
      | _ => none)
    let sp ← sp.mapM fun t => (match t.splitOn "," with
      | ["s", a, b] => do let a ← oi? a; let b ← oi? b; some (SAxisItem.slice a b false)
      | ["sstep", a, b] => do let a ← oi? a; let b ← oi? b; some (SAxisItem.slice a b true)
      | ["i"] => some .int
      | ["o"] => some .other
      | _ => none)
    some (.get fi sp)
  | _ => none

def showSRes : SRes → String
  | .err e => showErr e
  | .empty => "empty"
  | .view v => "view frames=" ++ "|".intercalate (v.frames.map showImg)
      ++ " ranges=" ++ showRanges v.ranges
      ++ " absent=" ++ "|".intercalate (v.frames.map fun f => toString f.length ++ "x" ++ toString (numColsF f))
      ++ " ts=" ++ "|".intercalate (v.timestamps.map fun f => "[" ++ ";".intercalate (f.map fun r => ",".intercalate (r.map toString)) ++ "]")
      ++ " pt=" ++ (match v.pixelTime with | some t => toString t | none => "U")
      ++ " ppl=" ++ toString v.pixelsPerLine ++ " lpf=" ++ toString v.linesPerFrame
      ++ " start=" ++ toString v.tStart ++ " stop=" ++ toString v.tStop


/-- timing of a regularly acquired kymograph: `P` pixels of `k` samples per line, `dead` unused samples between lines,
    sample period `dt`, first used sample at `t0`: pixel `r` of line `l` spans samples
    `l·(P·k + dead) + r·k … + k − 1` (what the reconstruction of pylake assigns; compared with real objects by `c06.regular`) -/
def regPix (t0 : Int) (P k dead : Nat) (dt : Int) (r l : Nat) : Pix :=
  ⟨0, t0 + ((l * (P * k + dead) + r * k : Nat) : Int) * dt, t0 + ((l * (P * k + dead) + r * k + (k - 1) : Nat) : Int) * dt⟩

def regularImg (t0 : Int) (P L k dead : Nat) (dt : Int) : Img :=
  (List.range P).map fun r => (List.range L).map fun l => regPix t0 P k dead dt r l

/-- ops:
  `c06.regular <t0> <P> <L> <k> <dead> <dt>`   line ranges and per-pixel timestamps of the regular kymograph
  `c06.kymo <img rows of v:tmin:tmax> <delta> <px p/q> <unit> <pxum p/q|N> <linetime p/q> <scantime p/q> <pixeltime ns> <start> <stop> op…`
  `c06.scan <frames: rows of v:tmin:tmax pixels, frames separated by |> <delta> <fastRows 0|1> <start> <stop> op…` -/
def handle : List String → Option String
  | "c06.kymo" :: img :: delta :: px :: unit :: pxum :: lt :: st :: pt :: t0 :: t1 :: ops => do
    let img ← listListOf? pix? img
    let delta ← int? delta
    let px ← rat? px; let unit ← nat? unit
    let pxum ← if pxum == "N" then some none else (rat? pxum).map some
    let lt ← rat? lt; let st ← rat? st
    let ops ← ops.mapM kop?
    let pt ← int? pt
    let t0 ← int? t0; let t1 ← int? t1
    let v : KView := ⟨img, true, delta, px, unit, pxum, lt, st, false, 0, pt, ratToFloat px, t0, t1⟩
    some (showKRes (runK v ops))
  | ["c06.regular", t0, P, L, k, dead, dt] => do
    let t0 ← int? t0; let P ← nat? P; let L ← nat? L; let k ← nat? k; let dead ← nat? dead; let dt ← int? dt
    let img := regularImg t0 P L k dead dt
    some ("ranges=" ++ showRanges (lineRanges img dt) ++ " ts=" ++
      showListList showInt (img.map fun r => r.map Pix.tmean))
  | "c06.scan" :: frames :: delta :: fastRows :: t0 :: t1 :: ops => do
    let frames ← (frames.splitOn "|").mapM (listListOf? pix?)
    let delta ← int? delta
    let fastRows ← nat? fastRows
    let ops ← ops.mapM sop?
    let t0 ← int? t0; let t1 ← int? t1
    some (showSRes (runS ⟨frames, delta, fastRows == 1, t0, t1⟩ ops))
  | _ => none

end Verif.C06
