/-
  C20 — physical models of the force calibration (executable model, Mathlib-free).

  Every formula is written ONCE, generic over `[RealLike α]` (plus `[RPow α]` where the code raises to a
  real power), mirroring the arithmetic of

    lumicks/pylake/force_calibration/detail/power_models.py   lorentzian, g_diode, sinc/motion blur, aliasing
    lumicks/pylake/force_calibration/detail/hydrodynamics.py  complex drag (as real/imaginary pairs), hydro PSD
    lumicks/pylake/force_calibration/detail/drag_models.py    Faxén, Brenner, Goldman–Cox–Brenner
    lumicks/pylake/force_calibration/detail/salty_water.py    Kestin et al. viscosity / density of NaCl solutions
    lumicks/pylake/force_calibration/calibration_models.py    viscosity_of_water, PassiveCalibrationModel

  It is executed at `Float` by the driver (`handle`) and reasoned about at `ℝ` in `Props/C20.lean`.
-/
import Verif.Proto
import Verif.Num

namespace Verif.C20
open Verif

/-- real powers `x ** y` (C `pow`): the one operation `RealLike` lacks (viscosity terms `x^b`, `10 ** x`). -/
class RPow (α : Type) where
  rpow : α → α → α

instance : RPow Float where
  rpow := Float.pow

section formulas
variable {α : Type} [RealLike α]
open RealLike

/-! ### small numeric helpers -/

/-- a natural number as a number (`float(n)`) -/
def ofNat (n : Nat) : α := OfScientific.ofScientific n false 0
/-- an integer as a number (`float(i)`) -/
def ofInt (i : Int) : α := if i < 0 then -(ofNat (-i).toNat) else ofNat i.toNat
/-- `x ** k` for an integer exponent (`k < 0`: the reciprocal of the natural power) -/
def ipow (x : α) (k : Int) : α := if k < 0 then 1.0 / npow x (-k).toNat else npow x k.toNat
/-- `x == 0` as the code decides it -/
def isZero (x : α) : Bool := le x 0.0 && le 0.0 x

/-- `salty_water._poly(variable, powers, coefficients)` for integer powers: `Σ cᵢ · v^pᵢ`, summed in order. -/
def poly (v : α) (powers : List Int) (coeffs : List α) : α :=
  (List.zipWith (fun p c => c * ipow v p) powers coeffs).foldl (· + ·) 0.0

/-! ### power_models.py -/

/-- `passive_power_spectrum_model(f, fc, D) = (D / π²) / (f² + fc²)` -/
def lorentzian (f fc D : α) : α := (D / (pi * pi)) / (f * f + fc * fc)

/-- `g_diode(f, f_diode, alpha) = α² + (1 − α²) / (1 + (f / f_diode)²)` -/
def gDiode (f fd a : α) : α := a * a + (1.0 - a * a) / (1.0 + (f / fd) * (f / fd))

/-- `sphere_friction_coefficient(eta, d) = 3 π η d` -/
def sphereFriction (eta d : α) : α := 3.0 * pi * eta * d

/-- `theoretical_driving_power_lorentzian` -/
def drivenLorentzian (fc fd A : α) : α := A * A / (2.0 * (1.0 + (fc / fd) * (fc / fd)))

/-- `np.sinc(x)`: `y = π · where(x == 0, 1e-20, x); sin(y) / y` -/
def sinc (x : α) : α :=
  let y := pi * (if isZero x then 1.0e-20 else x)
  sin y / y

/-- `motion_blur_spectrum(psd, T)(f) = psd(f) · sinc(f T)²` -/
def motionBlur (psd : α → α) (T : α) (f : α) : α := psd f * (sinc (f * T) * sinc (f * T))

/-- `motion_blur_peak(peak, f_drive, T)(fc) = peak(fc) · sinc(f_drive T)²` -/
def motionBlurPeak (peak : α) (fd T : α) : α := peak * (sinc (fd * T) * sinc (fd * T))

/-- `range(-n, n + 1)` -/
def aliasShifts (n : Nat) : List Int := (List.range (2 * n + 1)).map fun (k : Nat) => (k : Int) - (n : Int)

/-- `alias_spectrum(psd, fs, n)(f) = sum(psd(f + i·fs) for i in range(-n, n+1))` (Python `sum`: left fold from 0). -/
def aliasSpectrum (psd : α → α) (fs : α) (n : Nat) (f : α) : α :=
  (aliasShifts n).foldl (fun acc i => acc + psd (f + ofInt i * fs)) 0.0

/-! ### hydrodynamics.py (complex numbers as pairs) -/

/-- complex division `(a + bi) / (c + di)` -/
def cdiv (a b c d : α) : α × α :=
  let n := c * c + d * d
  ((a * c + b * d) / n, (b * c - a * d) / n)

/-- `frequency_nu = ν / (π R²)`, `ν = γ₀ / (6 π ρ R)` -/
def frequencyNu (gamma0 rho R : α) : α :=
  let nu := gamma0 / (6.0 * pi * rho * R)
  nu / (pi * (R * R))

/-- `calculate_dissipation_frequency = γ₀ / (2π m)`, `m = (4/3) π R³ ρ_bead` -/
def frequencyM (gamma0 R rhoBead : α) : α :=
  let m := (4.0 / 3.0) * pi * (R * R * R) * rhoBead
  gamma0 / (2.0 * pi * m)

/-- `np.sqrt` of the complex number `r + 0i` (`np.asarray(f / frequency_nu, dtype=complex)`): the principal root,
    real for `r ≥ 0`, `+i√(-r)` for `r < 0` (negative frequencies are reached through `alias_spectrum`). -/
def csqrtReal (r : α) : α × α := if lt r 0.0 then (0.0, sqrt (-r)) else (sqrt r, 0.0)

/-- Stokes part, Eq. D4: `1 + (1 − i)s − (2i/9) r`, `s = √r` (complex), `r = f / f_ν` -/
def stokesDrag (r : α) : α × α :=
  let s := csqrtReal r
  -- (1 − i)(s₁ + i s₂) = (s₁ + s₂) + i (s₂ − s₁)
  (1.0 + (s.1 + s.2), (s.2 - s.1) - (2.0 / 9.0) * r)

/-- denominator of Eq. D6 at ratio `r`, bead radius `R`, distance `l` -/
def surfaceDen (r R l : α) : α × α :=
  let s := csqrtReal r
  -- epsilon = (2l − R) · s / R
  let er := (2.0 * l - R) * s.1 / R
  let ei := (2.0 * l - R) * s.2 / R
  let q := (9.0 / 16.0) * (R / l)
  -- exp(−(1 − i) ε) = exp(−er − ei) · (cos(er − ei) + i sin(er − ei))
  let e := exp (-er - ei)
  let Er := e * cos (er - ei)
  let Ei := e * sin (er - ei)
  let innerRe := 1.0 - (s.1 + s.2) / 3.0 - (4.0 / 3.0) * (1.0 - Er)
  let innerIm := -((s.2 - s.1) / 3.0) + (2.0 / 9.0) * r + (4.0 / 3.0) * Ei
  (1.0 - q * innerRe, -(q * innerIm))

/-- `calculate_complex_drag(f, γ₀, ρ, R, l)`; `l = none`: bulk -/
def complexDrag (f gamma0 rho R : α) (l : Option α) : α × α :=
  let r := f / frequencyNu gamma0 rho R
  let st := stokesDrag r
  match l with
  | none => st
  | some l =>
    let d := surfaceDen r R l
    cdiv st.1 st.2 d.1 d.2

/-- `passive_power_spectrum_model_hydro`, Eq. D2 -/
def hydroPsd (f fc D gamma0 R rhoS rhoB : α) (l : Option α) : α :=
  let g := complexDrag f gamma0 rhoS R l
  let fm := frequencyM gamma0 R rhoB
  let a := fc + f * (g.2 - f / fm)
  let b := f * g.1
  D / (pi * pi) * g.1 / (a * a + b * b)

/-- `theoretical_driving_power_hydrodynamics`, Eq. D3 -/
def drivenHydro (fc fd A gamma0 R rhoS rhoB : α) (l : Option α) : α :=
  let g := complexDrag fd gamma0 rhoS R l
  let fm := frequencyM gamma0 R rhoB
  let a := fc + fd * g.2 - fd * fd / fm
  let b := fd * g.1
  let den := 2.0 * (a * a + b * b)
  (A * fd) * (A * fd) * (g.1 * g.1 + g.2 * g.2) / den

/-! ### drag_models.py -/

/-- denominator of `faxen_factor` in `x = R / h` -/
def faxenDen (x : α) : α :=
  1.0 - 9.0 / 16.0 * x + 1.0 / 8.0 * npow x 3 - 45.0 / 256.0 * npow x 4 - 1.0 / 16.0 * npow x 5

/-- `faxen_factor(h, R)` -/
def faxen (h R : α) : α := 1.0 / faxenDen (R / h)

/-- denominator of `brenner_axial` in `x = R / h` -/
def brennerDen (x : α) : α :=
  1.0 - (9.0 / 8.0) * x + 0.5 * npow x 3 - (57.0 / 100.0) * npow x 4 + (1.0 / 5.0) * npow x 5
    + (7.0 / 200.0) * npow x 11 - (1.0 / 25.0) * npow x 12

/-- `brenner_axial(h, R)` -/
def brenner (h R : α) : α := 1.0 / brennerDen (R / h)

/-- the factor list of `coupling_correction_factor_goldmann` at `x = R / d` -/
def goldmanFactors (x : α) (rot : Bool) : List α :=
  if rot then [1.0, -(3.0 / 4.0), 9.0 / 16.0, -(59.0 / 64.0), 273.0 / 256.0, -(1107.0 / 1024.0), 1.0 / (1.0 + x)]
  else [1.0, -(3.0 / 4.0), 9.0 / 16.0, -(59.0 / 64.0), 465.0 / 256.0, -(15813.0 / 7168.0), 2.0 / (1.0 + x)]

/-- `coupling_correction_factor_goldmann(R, d, allow_rotation) = Σ_k factors[k] · (R/d)^k` -/
def goldman (R d : α) (rot : Bool) : α :=
  let x := R / d
  ((goldmanFactors x rot).zipIdx.map fun (c, k) => c * npow x k).foldl (· + ·) 0.0

/-! ### viscosity / density of water and NaCl solutions -/

/-- coefficients `aᵢ` and exponents `bᵢ` of Huber et al. (2009), section 3.7 -/
def huberA : List α := [280.68, 511.45, 61.131, 0.45903]
def huberB : List α := [-1.9, -7.7, -19.6, -40.0]

/-- `viscosity_of_water(T)` without salt/pressure: `Σ aᵢ x^{bᵢ} · 1e-6`, `x = (T + 273.15) / 300` [Pa·s] -/
def viscosityWater [RPow α] (T : α) : α :=
  let x := (T + 273.15) / 300.0
  (List.zipWith (fun b a => a * RPow.rpow x b) huberB (huberA : List α)).foldl (· + ·) 0.0 * 1.0e-6

/-- `np.log10` -/
def log10 (x : α) : α := log x / log 10.0

/-- Kestin Eq. 3: viscosity of water `μ_w(t)` in µPa·s -/
def muW [RPow α] (t : α) : α :=
  let p := poly (20.0 - t) [1, 2, 3, 4] [1.2378, -1.303e-3, 3.06e-6, 2.55e-8]
  1002.0 * RPow.rpow 10.0 (p / (96.0 + t))

/-- `zero_pressure_viscosity(t, m)` (Eq. 2, 4, 5) -/
def zeroPressureViscosity [RPow α] (t m : α) : α :=
  let an := poly m [1, 2, 3] [3.324e-2, 3.624e-3, -1.879e-4]
  let bn := poly m [1, 2, 3] [-3.96e-2, 1.02e-2, -7.02e-4]
  let vw := muW t
  vw * RPow.rpow 10.0 (an + bn * log10 (vw / 1002.0))

def betaW (t : α) : α := poly t [0, 1, 2, 3, 4] [-1.297, 5.74e-2, -6.97e-4, 4.47e-6, -1.05e-8]

/-- `pressure_factor(t, m)` (Eq. 8–10) -/
def pressureFactor (t m : α) : α :=
  let bse := 0.545 + 2.8e-3 * t - betaW t
  let ms := poly t [0, 1, 2] [6.044, 2.8e-3, 3.6e-5]
  let bstar := poly (m / ms) [1, 2, 3] [2.5, -2.0, 0.5]
  bse * bstar + betaW t

/-- the salt branch of `viscosity_of_water` after the molarity→molality conversion [Pa·s] -/
def saltViscosity [RPow α] (t m p : α) : α :=
  1.0e-6 * zeroPressureViscosity t m * (1.0 + pressureFactor t m * p / 1000.0)

/-- `_density_of_salt_solution(t, m, p)` [kg/m³] -/
def saltDensity (t m p : α) : α :=
  let tk := t + 273.15
  let massNaCl := m * 58.4428 / 1000.0
  let w := massNaCl / (1.0 + massNaCl)
  let pab : List Int := [-2, -1, 0, 1, 2]
  let po : List Int := [0, 1, 2]
  let terms : List α := [
    poly tk pab [1.006741e2, -1.127522, 5.916365e-3, -1.035794e-5, 9.270048e-9],
    -(poly tk pab [1.042948, -1.1933677e-2, 5.307535e-5, -1.0688768e-7, 8.492739e-11]) * p,
    -(poly tk po [1.23268e-9, -6.861928e-12, 0.0]) * (p * p),
    w * poly tk po [-2.5166e-3, 1.11766e-5, -1.70552e-8],
    (w * w) * poly tk po [2.84851e-3, -1.54305e-5, 2.23982e-8],
    -w * poly tk po [-1.5106e-5, 8.4605e-8, -1.2715e-10] * p,
    -(w * w) * poly tk po [2.7676e-5, -1.5694e-7, 2.3102e-10] * p,
    -0.5 * poly tk po [6.4633e-8, -4.1671e-10, 6.8599e-13] * (p * p)]
  1.0 / terms.foldl (· + ·) 0.0

/-- `_check_salt_model_validity`: `20 ≤ T < 150`, `p ≤ 35`, `m ≤ 6` -/
def saltValid (t m p : α) : Bool := le 20.0 t && lt t 150.0 && le p 35.0 && le m 6.0

/-- `molality_to_molarity(m, t, p, 58.4428)` -/
def molalityToMolarity (t m p : α) : α :=
  let massSalt := 58.4428 * m * 1.0e-3
  let massSolution := 1.0 + massSalt
  let vol := 1.0e3 * massSolution / saltDensity t m p
  m / vol

inductive Err | value | notImplemented
deriving DecidableEq, Repr

/-! ### the public water functions: molarity → molality, validity, formula -/

/-- `implicit_equation(molality)` inside `molarity_to_molality(c, t, p, 58.4428)`: zero where a solution of molality
    `m` has molarity `c` (1 L of solution weighs `ρ·1e-3` kg, of which `M c 1e-3` kg is salt). -/
def molalityResidual (t c p m : α) : α :=
  let massSolution := saltDensity t m p * 1.0e-3
  let massSalt := 58.4428 * c * 1.0e-3
  c / (massSolution - massSalt) - m

/-- the sign change of `g` between `lo` and `hi` (`0 ≤ g lo`, `g hi ≤ 0`) bracketed by `k` halvings; the answer is
    the midpoint of the last bracket.  (The code calls `scipy.optimize.brentq` on the same bracket `[0, 6]`; both
    converge to the root of the same function, the comparison tolerance absorbs the difference.) -/
def bisect (g : α → α) : Nat → α → α → α
  | 0, lo, hi => (lo + hi) / 2.0
  | k + 1, lo, hi =>
    let mid := (lo + hi) / 2.0
    if lt 0.0 (g mid) then bisect g k mid hi else bisect g k lo mid

/-- `molarity_to_molality(c, t, p, 58.4428)`: the density at both ends of the bracket must be defined (validity of
    `t`, `p`), the residual must change sign over `[0, 6]` (else `ValueError`: molarity outside the model), and the
    root is returned (`brentq` answers an end point whose residual is exactly zero, e.g. `c = 0`). -/
def molarityToMolality (t c p : α) : Except Err α :=
  if !(saltValid t 0.0 p) then .error .value else
  let g := molalityResidual t c p
  let g0 := g 0.0
  let g6 := g 6.0
  if (lt 0.0 g0 && lt 0.0 g6) || (lt g0 0.0 && lt g6 0.0) then .error .value else
  if isZero g0 then .ok 0.0 else if isZero g6 then .ok 6.0 else .ok (bisect g 100 0.0 6.0)

/-- Python truthiness of an optional number (`None` and `0` are falsy) -/
def truthy (o : Option α) : Bool := match o with | some x => !isZero x | none => false

/-- `viscosity_of_water(T, molarity_nacl, pressure)` for one temperature: the Kestin salt model when a pressure
    and/or a molarity is given (`if pressure or molarity_nacl:`), else Huber et al.  A pure function of its three
    arguments: nothing is remembered between calls.  `molarity_nacl=None` together with a pressure is 0 M (F23). -/
def viscosityOfWater [RPow α] (T : α) (c p : Option α) : Option (Except Err α) :=
  if truthy p || truthy c then
    let c := c.getD 0.0
    let p := p.getD 0.101325
    some do
      let m ← molarityToMolality T c p
      if saltValid T m p then .ok (saltViscosity T m p) else .error .value
  else
    some (if le (-20.0) T && lt T 110.0 then .ok (viscosityWater T) else .error .value)

/-- `density_of_water(T, molarity, pressure=0.101325)` for one temperature -/
def densityOfWater (T c : α) (p : Option α) : Except Err α := do
  let p := p.getD 0.101325
  let m ← molarityToMolality T c p
  if saltValid T m p then .ok (saltDensity T m p) else .error .value

/-! ### PassiveCalibrationModel -/

structure PassiveCfg (α : Type) where
  diameter : α
  viscosity : Option α
  temperature : α
  hydro : Bool
  distance : Option α
  rhoSample : Option α
  rhoBead : α
  fastSensor : Bool
  axial : Bool

/-- what `PassiveCalibrationModel.__init__` derives -/
structure Passive (α : Type) where
  cfg : PassiveCfg α
  viscosity : α
  dragCoeff : α
  dragCorrection : α
  toLocalDrag : α
  /-- the bulk drag coefficient bound into the hydrodynamic spectrum when the model is built
      (`partial(passive_power_spectrum_model_hydro, gamma0=self.drag_coeff, …)`); `_set_drag` does not rebind it -/
  spectrumGamma0 : α

/-- `PassiveCalibrationModel.__init__`: the validation chain in the code's order, then the derived numbers. -/
def Passive.init [RPow α] (c : PassiveCfg α) : Except Err (Passive α) :=
  if lt c.diameter 1.0e-2 then .error .value else
  if (match c.distance with | some l => lt l (c.diameter / 2.0) | none => false) then .error .value else
  if (match c.viscosity with | some v => le v 0.0003 | none => false) then .error .value else
  if !(lt 5.0 c.temperature && lt c.temperature 90.0) then .error .value else
  let eta := match c.viscosity with | some v => v | none => viscosityWater c.temperature
  let drag := sphereFriction eta (c.diameter * 1.0e-6)
  let rhoS := match c.rhoSample with | some r => r | none => 997.0
  if c.hydro then
    if c.axial then .error .notImplemented else
    if (match c.distance with | some l => lt (l / (c.diameter / 2.0)) 1.5 | none => false) then .error .value else
    if (match c.rhoSample with | some r => lt r 100.0 | none => false) then .error .value else
    if lt c.rhoBead 100.0 then .error .value else
    let R := c.diameter * 1.0e-6 / 2.0
    let l := c.distance.map (· * 1.0e-6)
    .ok ⟨c, eta, drag, 1.0, (complexDrag 0.0 1.0 rhoS R l).1, drag⟩
  else
    let corr := match c.distance with
      | some l =>
        -- `if distance_to_surface:` (0 is falsy, but 0 < diameter/2 was rejected above)
        if isZero l then 1.0
        else if c.axial then brenner (l * 1.0e-6) (c.diameter * 1.0e-6 / 2.0)
        else faxen (l * 1.0e-6) (c.diameter * 1.0e-6 / 2.0)
      | none => 1.0
    .ok ⟨c, eta, drag, corr, 1.0, drag⟩

/-- the physical spectrum selected by `__init__` -/
def Passive.physical (m : Passive α) (f fc D : α) : α :=
  if m.cfg.hydro then
    let rhoS := match m.cfg.rhoSample with | some r => r | none => 997.0
    hydroPsd f fc D m.spectrumGamma0 (m.cfg.diameter * 1.0e-6 / 2.0) rhoS m.cfg.rhoBead (m.cfg.distance.map (· * 1.0e-6))
  else lorentzian f fc D

/-- `PassiveCalibrationModel.__call__(f, fc, D, f_diode, alpha)` (`fast_sensor`: no filter parameters, factor 1) -/
def Passive.call (m : Passive α) (f fc D fd a : α) : α :=
  m.physical f fc D * (if m.cfg.fastSensor then 1.0 else gDiode f fd a)

/-- `model._drag = drag_coeff · _drag_correction_factor` -/
def Passive.drag (m : Passive α) : α := m.dragCoeff * m.dragCorrection

/-- `model._set_drag(drag)` (what `calibrate_force(..., drag=…)` does to carry a bulk drag coefficient over from another
    calibration): the model reports the new coefficient; the spectrum it was built with — bead radius, densities,
    distance to the surface in metres, the bulk drag bound at construction — stays as it is. -/
def Passive.setDrag (m : Passive α) (g : α) : Passive α := { m with dragCoeff := g }

/-! ### wrappers composed on a model object (`model._motion_blur(T)._alias_model(fs, n)` …) -/

/-- one step of the camera chain -/
inductive Wrapper (α : Type) where
  /-- `_motion_blur(acquisition_time)` -/
  | blur (T : α)
  /-- `_alias_model(sample_rate, num_aliases)` -/
  | aliasing (fs : α) (n : Nat)

/-- the function a step installs as `_calculate_power_spectral_density` of the copy, around the one it finds there -/
def Wrapper.apply (w : Wrapper α) (psd : α → α) : α → α :=
  match w with
  | .blur T => motionBlur psd T
  | .aliasing fs n => aliasSpectrum psd fs n

/-- Every step copies the model and wraps the copy's CURRENT `_calculate_power_spectral_density`, which already
    carries the wrappers installed by the earlier steps: a left fold over the steps, innermost first. -/
def wrapChain (ws : List (Wrapper α)) (psd : α → α) : α → α := ws.foldl (fun p w => w.apply p) psd

/-- the spectral density of the model after every prefix of the chain (the unwrapped model first): each step returns
    a new object and leaves the one it was derived from as it was -/
def chainStages (ws : List (Wrapper α)) (psd : α → α) (f : α) : List α :=
  (List.range (ws.length + 1)).map fun k => wrapChain (ws.take k) psd f

/-- number of evaluations of the innermost spectrum one evaluation of the chain costs (driver guard) -/
def chainCost : List (Wrapper α) → Nat
  | [] => 1
  | .blur _ :: ws => chainCost ws
  | .aliasing _ n :: ws => (2 * n + 1) * chainCost ws

/-! ### FixedDiodeModel (the filter `calibrate_force(..., fixed_diode=…, fixed_alpha=…)` installs on the model) -/

/-- `FixedDiodeModel.__init__`: a fixed relaxation factor lies in `[0, 1]` (both ends allowed), a fixed roll-off
    frequency is positive; `None` leaves the parameter free. -/
def fixedDiodeValid (fixFd fixA : Option α) : Bool :=
  (match fixA with | some a => le 0.0 a && le a 1.0 | none => true) &&
  (match fixFd with | some fd => lt 0.0 fd | none => true)

/-- `self._parameters[self._fitted_idx] = pars`: the slots that were given `None` are filled, in order, from the
    parameters of the call; a slot fixed at a number keeps that number — whatever it is (`0` is a value, not
    "absent").  `none` when the call brings another number of parameters than there are free slots (not generated). -/
def fillFree : List (Option α) → List α → Option (List α)
  | [], [] => some []
  | [], _ :: _ => none
  | some x :: slots, ps => (fillFree slots ps).map (x :: ·)
  | none :: _, [] => none
  | none :: slots, p :: ps => (fillFree slots ps).map (p :: ·)

/-- `FixedDiodeModel(diode_frequency, diode_alpha)(f, *pars) = g_diode(f, *self._parameters)`.  A pure function of
    the fixed values and of THIS call's parameters: nothing of an earlier call is kept. -/
def fixedDiode (fixFd fixA : Option α) (pars : List α) (f : α) : Option α :=
  match fillFree [fixFd, fixA] pars with
  | some [fd, a] => some (gDiode f fd a)
  | _ => none

/-- the filter parameters a caller passes (`model(f, fc, D, *pars)`): a value for every parameter that is not fixed,
    roll-off frequency first -/
def freePars (fixFd fixA : Option α) (fd a : α) : List α :=
  (match fixFd with | none => [fd] | some _ => []) ++ (match fixA with | none => [a] | some _ => [])

/-- `PassiveCalibrationModel.__call__(f, fc, D, *pars)` of a model whose `_filter` is a `FixedDiodeModel` -/
def Passive.callFixed (m : Passive α) (fixFd fixA : Option α) (pars : List α) (f fc D : α) : Option α :=
  (fixedDiode fixFd fixA pars f).map (m.physical f fc D * ·)

/-! ### coupling_correction_2d: the 2-D decomposition for ONE bead pair (the code maps it over arrays of pairs) -/

/-- `coupling_correction_2d` for the pair at `(dx, dy)`, given the factor along the bead-bead axis (`ca`,
    Stimson–Jeffery) and perpendicular to it (`cp`, Goldman–Cox–Brenner) AT THIS PAIR'S distance: unit vectors along /
    across the axis (each pair divided by its own distance), the oscillation direction projected on both, scaled,
    projected back. -/
def coupling2d (dx dy ca cp : α) (isY : Bool) : α :=
  let dist := sqrt (dx * dx + dy * dy)
  let ex : α := if isY then 0.0 else 1.0
  let ey : α := if isY then 1.0 else 0.0
  -- dir_aligned = [dx, dy] / distances ; dir_perp = [dy, -dx] / distances
  let da := dx / dist * ex + dy / dist * ey
  let dp := dy / dist * ex + -dx / dist * ey
  let vAligned := da * ca
  let vPerp := dp * cp
  vAligned * da + vPerp * dp

/-- the array call: pair `i` of the answer is the factor of pair `i` alone (its own distance, its own 1-D factors) -/
def coupling2dList (dxs dys cas cps : List α) (isY : Bool) : List α :=
  List.zipWith (fun (p : α × α) (c : α × α) => coupling2d p.1 p.2 c.1 c.2 isY) (dxs.zip dys) (cas.zip cps)

/-! ### Stimson–Jeffery: two beads moving along their line of centres (`coupling_correction_factor_stimson`) -/

/-- hyperbolic functions through `exp` / `log` / `sqrt` (what `RealLike` offers; `np.sinh`, `np.cosh`, `np.arccosh`
    agree with these to rounding, which the comparison tolerance of the `c20.stimson` op absorbs) -/
def sinhE (x : α) : α := (exp x - exp (-x)) / 2.0
def coshE (x : α) : α := (exp x + exp (-x)) / 2.0
def arccoshE (x : α) : α := log (x + sqrt ((x - 1.0) * (x + 1.0)))

/-- `np.isfinite(x)`: `x − x` is zero exactly for finite numbers (`inf − inf` and `nan − nan` are `nan`) -/
def isFiniteE (x : α) : Bool := isZero (x - x)

/-- `to_curvilinear_coordinates(r1, r2, distance)`: bispherical coordinates `(a, α, β)` with the origin on the radical
    plane of the two spheres; `ValueError` when the beads overlap (`r1 + r2 > distance`) -/
def toCurvilinear (r1 r2 d : α) : Except Err (α × α × α) :=
  if lt d (r1 + r2) then .error .value else
  let d1 := (r1 * r1 - r2 * r2 + d * d) / (2.0 * d)
  let d2 := d - d1
  let x1 := d1 / r1
  let x2 := d2 / r2
  let al := arccoshE x1
  let be := -(arccoshE x2)
  let a := d / (x1 / sinhE al - x2 / sinhE be)
  .ok (a, al, be)

/-- `calculate_k(n, a)`, Eq. 25 -/
def stimsonK (n a : α) : α :=
  (a * a * n * (n + 1.0)) / (sqrt 2.0 * (2.0 * n - 1.0) * (2.0 * n + 1.0) * (2.0 * n + 3.0))

/-- `calculate_delta(n, α, β)`, Eq. 27, in `m = α − β` -/
def stimsonDelta (n m : α) : α :=
  4.0 * (sinhE ((n + 0.5) * m) * sinhE ((n + 0.5) * m)) - (2.0 * n + 1.0) * (2.0 * n + 1.0) * (sinhE m * sinhE m)

/-- `calculate_an`, Eq. 28 (`m = α − β`, `p = α + β`) -/
def stimsonAn (n k m p delta : α) : α :=
  (2.0 * n + 3.0) * k *
    (4.0 * exp (-((n + 0.5) * m)) * sinhE ((n + 0.5) * m)
      + (2.0 * n + 1.0) * (2.0 * n + 1.0) * exp m * sinhE m
      + 2.0 * (2.0 * n - 1.0) * sinhE ((n + 0.5) * m) * coshE ((n + 0.5) * p)
      + -(2.0 * (2.0 * n + 1.0)) * sinhE ((n + 1.5) * m) * coshE ((n - 0.5) * p)
      + -((2.0 * n + 1.0) * (2.0 * n - 1.0)) * sinhE m * coshE p) / delta

/-- `calculate_bn`, Eq. 29 -/
def stimsonBn (n k m p delta : α) : α :=
  -((2.0 * n + 3.0) * k) *
    (2.0 * (2.0 * n - 1.0) * sinhE ((n + 0.5) * m) * sinhE ((n + 0.5) * p)
      + -(2.0 * (2.0 * n + 1.0)) * sinhE ((n + 1.5) * m) * sinhE ((n - 0.5) * p)
      + (2.0 * n + 1.0) * (2.0 * n - 1.0) * sinhE m * sinhE p) / delta

/-- `calculate_cn`, Eq. 30 -/
def stimsonCn (n k m p delta : α) : α :=
  -((2.0 * n - 1.0) * k) *
    (4.0 * exp (-((n + 0.5) * m)) * sinhE ((n + 0.5) * m)
      + -((2.0 * n + 1.0) * (2.0 * n + 1.0)) * exp (-m) * sinhE m
      + 2.0 * (2.0 * n + 1.0) * sinhE ((n - 0.5) * m) * coshE ((n + 1.5) * p)
      + -(2.0 * (2.0 * n + 3.0)) * sinhE ((n + 0.5) * m) * coshE ((n + 0.5) * p)
      + (2.0 * n + 1.0) * (2.0 * n + 3.0) * sinhE m * coshE p) / delta

/-- `calculate_dn`, Eq. 31 -/
def stimsonDn (n k m p delta : α) : α :=
  (2.0 * n - 1.0) * k *
    (2.0 * (2.0 * n + 1.0) * sinhE ((n - 0.5) * m) * sinhE ((n + 1.5) * p)
      + -(2.0 * (2.0 * n + 3.0)) * sinhE ((n + 0.5) * m) * sinhE ((n + 0.5) * p)
      + (2.0 * n + 1.0) * (2.0 * n + 3.0) * sinhE m * sinhE p) / delta

/-- summand `n` of both series: `(2n+1)(aₙ + bₙ + cₙ + dₙ)`, `(2n+1)(aₙ − bₙ + cₙ − dₙ)`; all four coefficients are
    taken as zero when `Δₙ` overflowed (their limit) -/
def stimsonTerm (a m p : α) (n : Nat) : α × α :=
  let nn : α := ofNat n
  let k := stimsonK nn a
  let delta := stimsonDelta nn m
  if isFiniteE delta then
    let an := stimsonAn nn k m p delta
    let bn := stimsonBn nn k m p delta
    let cn := stimsonCn nn k m p delta
    let dn := stimsonDn nn k m p delta
    ((2.0 * nn + 1.0) * (an + bn + cn + dn), (2.0 * nn + 1.0) * (an - bn + cn - dn))
  else ((2.0 * nn + 1.0) * 0.0, (2.0 * nn + 1.0) * 0.0)

/-- the summation loop `for n in range(1, max_summands + 1)`: add summand `n` to both sums, stop after the first
    summand that is below the tolerance for BOTH beads (`fuel` = summands left) -/
def stimsonLoop (a m p tol1 tol2 : α) : Nat → Nat → α → α → α × α
  | 0, _, c1, c2 => (c1, c2)
  | fuel + 1, n, c1, c2 =>
    let e := stimsonTerm a m p n
    if lt (abs e.1) tol1 && lt (abs e.2) tol2 then (c1 + e.1, c2 + e.2)
    else stimsonLoop a m p tol1 tol2 fuel (n + 1) (c1 + e.1) (c2 + e.2)

/-- `coupling_correction_factor_stimson(radius1, radius2, distance, max_summands=maxN, tol=1e-10)`: the factor of
    bead 1 and of bead 2 -/
def stimson (r1 r2 d : α) (maxN : Nat) : Except Err (α × α) :=
  match toCurvilinear r1 r2 d with
  | .error e => .error e
  | .ok (a, al, be) =>
    let pre := -(1.0 / 3.0) * sqrt 2.0 / a
    let tol1 := 1.0e-10 / abs (pre / r1)
    let tol2 := 1.0e-10 / abs (pre / r2)
    let c := stimsonLoop a (al - be) (al + be) tol1 tol2 maxN 1 0.0 0.0
    .ok (pre * c.1 / r1, pre * c.2 / r2)

end formulas

/-! ### protocol -/
open Verif.Proto

def optFloat? (s : String) : Option (Option Float) :=
  if s == "N" then some none else (float? s).map some

def showErr : Err → String
  | .value => "ValueError"
  | .notImplemented => "NotImplementedError"

def showPair (p : Float × Float) : String := showFloatList [p.1, p.2]

def cfg? : List String → Option (PassiveCfg Float)
  | [d, v, t, h, l, rs, rb, fast, ax] => do
    some ⟨← float? d, ← optFloat? v, ← float? t, ← bool? h, ← optFloat? l, ← optFloat? rs, ← float? rb,
      ← bool? fast, ← bool? ax⟩
  | _ => none

/-- the steps of a wrapper chain: `B T` (motion blur) or `A fs n` (aliasing), in the order they are applied -/
def chain? : List String → Option (List (Wrapper Float))
  | [] => some []
  | "B" :: T :: rest => do
    let T ← float? T
    let ws ← chain? rest
    some (.blur T :: ws)
  | "A" :: fs :: n :: rest => do
    let fs ← float? fs
    let n ← nat? n
    let ws ← chain? rest
    some (.aliasing fs n :: ws)
  | _ => none

/-- ops (all numbers are IEEE bit patterns `b…`, `N` = None, `T`/`F` booleans):
  `c20.lor f fc D` · `c20.diode f fd α` · `c20.sinc x` · `c20.blur f T fc D` · `c20.blurpeak peak fd T`
  `c20.alias f fs n fc D fd α` (aliased Lorentzian·diode) · `c20.drivenlor fc fd A`
  `c20.drag f γ₀ ρ R l|N` · `c20.hydro f fc D γ₀ R ρs ρb l|N` · `c20.drivenhydro fc fd A γ₀ R ρs ρb l|N`
  `c20.faxen h R` · `c20.brenner h R` · `c20.goldman R d T|F`
  `c20.visc T` · `c20.zpv t m` · `c20.pf t m` · `c20.saltvisc t m p` · `c20.saltdens t m p` · `c20.molarity t m p`
  `c20.passive <cfg 9 tokens> f fc D fd α`  -> `[psd, drag_coeff, drag_correction, to_local_drag, viscosity]` or an error name
  `c20.passiveblur <cfg> T f fc D fd α` · `c20.passivealias <cfg> fs n f fc D fd α`
  `c20.passivechain <cfg> f fc D fd α <steps: B T | A fs n …>` -> the spectral density after every prefix of the chain
  `c20.passivesetdrag <cfg> f fc D fd α γ <steps>` -> `[psd before, psd after _set_drag(γ), after every further step…, drag_coeff, _drag]`
  `c20.passivefixed <cfg> fixed_f_diode|N fixed_alpha|N f fc D [f_diode,…] [alpha,…] <steps>` -> one model object whose filter is
      `FixedDiodeModel(fixed_f_diode, fixed_alpha)`, called once per (f_diode, alpha) pair (only the free ones are passed):
      `[filter, psd, psd behind the wrapper steps, …]` (three numbers per call) or an error name
  `c20.couple2d is_y rot R [dx,…] [dy,…] [aligned factor,…]` -> `coupling_correction_2d(dx, dy, 2R, is_y, rot)`, one factor per pair
  `c20.stimson r1 r2 d [1|2]` -> `coupling_correction_factor_stimson(r1, r2, d)`: `[factor of bead 1, factor of bead 2]` (or the one asked for) or an error name
  `c20.stimsonlist R [d,…]` -> the first factor of `coupling_correction_factor_stimson(R, R, d)` for every `d`, or an error name
  `c20.bispherical r1 r2 d` -> `to_curvilinear_coordinates(r1, r2, d)`: `[a, alpha, beta]` or an error name
  `c20.water V|D [T,…] c|N p|N` -> `viscosity_of_water` / `density_of_water` at each temperature, or an error name -/
def handle : List String → Option String
  | ["c20.lor", f, fc, D] => do
    some (showFloat (lorentzian (← float? f) (← float? fc) (← float? D)))
  | ["c20.diode", f, fd, a] => do
    some (showFloat (gDiode (← float? f) (← float? fd) (← float? a)))
  | ["c20.sinc", x] => do some (showFloat (sinc (← float? x)))
  | ["c20.blur", f, T, fc, D] => do
    let fc ← float? fc; let D ← float? D
    some (showFloat (motionBlur (fun f => lorentzian f fc D) (← float? T) (← float? f)))
  | ["c20.blurpeak", pk, fd, T] => do
    some (showFloat (motionBlurPeak (← float? pk) (← float? fd) (← float? T)))
  | ["c20.alias", f, fs, n, fc, D, fd, a] => do
    let fc ← float? fc; let D ← float? D; let fd ← float? fd; let a ← float? a
    let n ← nat? n
    if n > 100000 then none
    else some (showFloat (aliasSpectrum (fun f => lorentzian f fc D * gDiode f fd a) (← float? fs) n (← float? f)))
  | ["c20.drivenlor", fc, fd, A] => do
    some (showFloat (drivenLorentzian (← float? fc) (← float? fd) (← float? A)))
  | ["c20.drag", f, g0, rho, R, l] => do
    some (showPair (complexDrag (← float? f) (← float? g0) (← float? rho) (← float? R) (← optFloat? l)))
  | ["c20.hydro", f, fc, D, g0, R, rs, rb, l] => do
    some (showFloat (hydroPsd (← float? f) (← float? fc) (← float? D) (← float? g0) (← float? R) (← float? rs)
      (← float? rb) (← optFloat? l)))
  | ["c20.drivenhydro", fc, fd, A, g0, R, rs, rb, l] => do
    some (showFloat (drivenHydro (← float? fc) (← float? fd) (← float? A) (← float? g0) (← float? R) (← float? rs)
      (← float? rb) (← optFloat? l)))
  | ["c20.faxen", h, R] => do some (showFloat (faxen (← float? h) (← float? R)))
  | ["c20.brenner", h, R] => do some (showFloat (brenner (← float? h) (← float? R)))
  | ["c20.goldman", R, d, rot] => do some (showFloat (goldman (← float? R) (← float? d) (← bool? rot)))
  | ["c20.visc", T] => do
    let T ← float? T
    -- `viscosity_of_water`: only valid for -20 ≤ T < 110
    if RealLike.le (-20.0) T && RealLike.lt T 110.0 then some (showFloat (viscosityWater T)) else some "ValueError"
  | ["c20.zpv", t, m] => do some (showFloat (zeroPressureViscosity (← float? t) (← float? m)))
  | ["c20.pf", t, m] => do some (showFloat (pressureFactor (← float? t) (← float? m)))
  | ["c20.saltvisc", t, m, p] => do
    let t ← float? t; let m ← float? m; let p ← float? p
    if saltValid t m p then some (showFloat (saltViscosity t m p)) else some "ValueError"
  | ["c20.saltdens", t, m, p] => do
    let t ← float? t; let m ← float? m; let p ← float? p
    if saltValid t m p then some (showFloat (saltDensity t m p)) else some "ValueError"
  | ["c20.molarity", t, m, p] => do
    let t ← float? t; let m ← float? m; let p ← float? p
    if saltValid t m p then some (showFloat (molalityToMolarity t m p)) else some "ValueError"
  | ["c20.outside", tag] =>
    -- observables no model reaches (judged by the harness oracle only); anything else is `bad-op`
    if tag ∈ ["equipartition", "stimson", "couple2d", "geometry", "brentq", "saltapi"] then some "outside-model" else none
  | "c20.passive" :: rest =>
    if rest.length ≠ 14 then none else do
    let c ← cfg? (rest.take 9)
    match rest.drop 9 with
    | [f, fc, D, fd, a] =>
      let f ← float? f; let fc ← float? fc; let D ← float? D; let fd ← float? fd; let a ← float? a
      match Passive.init c with
      | .error e => some (showErr e)
      | .ok m => some (showFloatList [m.call f fc D fd a, m.dragCoeff, m.dragCorrection, m.toLocalDrag, m.viscosity])
    | _ => none
  | "c20.passiveblur" :: rest =>
    if rest.length ≠ 15 then none else do
    let c ← cfg? (rest.take 9)
    match rest.drop 9 with
    | [T, f, fc, D, fd, a] =>
      let T ← float? T
      let f ← float? f; let fc ← float? fc; let D ← float? D; let fd ← float? fd; let a ← float? a
      match Passive.init c with
      | .error e => some (showErr e)
      | .ok m => some (showFloat (motionBlur (fun f => m.call f fc D fd a) T f))
    | _ => none
  | "c20.passivealias" :: rest =>
    if rest.length ≠ 16 then none else do
    let c ← cfg? (rest.take 9)
    match rest.drop 9 with
    | [fs, n, f, fc, D, fd, a] =>
      let fs ← float? fs; let n ← nat? n
      let f ← float? f; let fc ← float? fc; let D ← float? D; let fd ← float? fd; let a ← float? a
      if n > 100000 then none else
      match Passive.init c with
      | .error e => some (showErr e)
      | .ok m => some (showFloat (aliasSpectrum (fun f => m.call f fc D fd a) fs n f))
    | _ => none
  | "c20.passivechain" :: rest =>
    if rest.length < 14 then none else do
    let c ← cfg? (rest.take 9)
    match (rest.drop 9).take 5 with
    | [f, fc, D, fd, a] =>
      let f ← float? f; let fc ← float? fc; let D ← float? D; let fd ← float? fd; let a ← float? a
      let ws ← chain? (rest.drop 14)
      if chainCost ws > 200000 then none else
      match Passive.init c with
      | .error e => some (showErr e)
      | .ok m => some (showFloatList (chainStages ws (fun f => m.call f fc D fd a) f))
    | _ => none
  | "c20.passivesetdrag" :: rest =>
    if rest.length < 15 then none else do
    let c ← cfg? (rest.take 9)
    match (rest.drop 9).take 6 with
    | [f, fc, D, fd, a, g] =>
      let f ← float? f; let fc ← float? fc; let D ← float? D; let fd ← float? fd; let a ← float? a; let g ← float? g
      let ws ← chain? (rest.drop 15)
      if chainCost ws > 200000 then none else
      match Passive.init c with
      | .error e => some (showErr e)
      | .ok m =>
        let m' := m.setDrag g
        some (showFloatList (m.call f fc D fd a :: chainStages ws (fun f => m'.call f fc D fd a) f ++ [m'.dragCoeff, m'.drag]))
    | _ => none
  | "c20.passivefixed" :: rest =>
    if rest.length < 16 then none else do
    let c ← cfg? (rest.take 9)
    match (rest.drop 9).take 7 with
    | [xfd, xa, f, fc, D, fds, as] =>
      let xfd ← optFloat? xfd; let xa ← optFloat? xa
      let f ← float? f; let fc ← float? fc; let D ← float? D
      let fds ← floatList? fds; let as ← floatList? as
      let ws ← chain? (rest.drop 16)
      if fds.length ≠ as.length || c.fastSensor then none else
      if chainCost ws * fds.length > 200000 then none else
      match Passive.init c with
      | .error e => some (showErr e)
      | .ok m =>
        if !fixedDiodeValid xfd xa then some "ValueError" else do
        -- one object, called once per (f_diode, alpha) in order: filter alone, the model, the model behind the wrappers
        let per ← (fds.zip as).mapM fun ((fd, a) : Float × Float) => do
          let pars := freePars xfd xa fd a
          let g ← fixedDiode xfd xa pars f
          let p ← m.callFixed xfd xa pars f fc D
          let w := wrapChain ws (fun x => (m.callFixed xfd xa pars x fc D).getD 0.0) f
          some [g, p, w]
        some (showFloatList per.flatten)
    | _ => none
  | ["c20.couple2d", isY, rot, R, dxs, dys, sts] => do
    let isY ← bool? isY; let rot ← bool? rot; let R ← float? R
    let dxs ← floatList? dxs; let dys ← floatList? dys; let sts ← floatList? sts
    if dxs.length ≠ dys.length || dxs.length ≠ sts.length then none else
    -- the perpendicular factor at each pair's own distance (`np.sqrt(dx**2 + dy**2)`); the aligned one is handed in
    let cps := (dxs.zip dys).map fun ((dx, dy) : Float × Float) => goldman R (Float.sqrt (dx * dx + dy * dy)) rot
    some (showFloatList (coupling2dList dxs dys sts cps isY))
  | ["c20.stimson", r1, r2, d] => do
    match stimson (← float? r1) (← float? r2) (← float? d) 100000 with
    | .error e => some (showErr e)
    | .ok (c1, c2) => some (showFloatList [c1, c2])
  | ["c20.stimson", r1, r2, d, which] => do
    if which != "1" && which != "2" then none else
    match stimson (← float? r1) (← float? r2) (← float? d) 100000 with
    | .error e => some (showErr e)
    | .ok (c1, c2) => some (showFloat (if which == "1" then c1 else c2))
  | ["c20.stimsonlist", R, ds] => do
    -- the factor along the line of centres for equal beads at each of the given distances (what `coupling_correction_2d`
    -- asks `coupling_correction_factor_stimson` for, pair by pair)
    let R ← float? R; let ds ← floatList? ds
    let rs := ds.map fun d => (stimson R R d 100000).map (·.1)
    match rs.mapM id with
    | .error e => some (showErr e)
    | .ok vs => some (showFloatList vs)
  | ["c20.bispherical", r1, r2, d] => do
    match toCurvilinear (← float? r1) (← float? r2) (← float? d) with
    | .error e => some (showErr e)
    | .ok (a, al, be) => some (showFloatList [a, al, be])
  | ["c20.water", fn, ts, c, p] => do
    let ts ← floatList? ts; let c ← optFloat? c; let p ← optFloat? p
    let one (T : Float) : Option (Except Err Float) :=
      if fn == "V" then viscosityOfWater T c p
      else if fn == "D" then c.map fun c => densityOfWater T c p
      else none
    let rs ← ts.mapM one
    match rs.mapM id with
    | .error e => some (showErr e)
    | .ok vs => some (showFloatList vs)
  | _ => none

end Verif.C20
