/-
  C10 — power spectra.
  Executable model of `PowerSpectrum.__init__` (global mean removal, squared `rfft` per window, mean over
  windows, scaling `(2/fs)/N_w`, `rfftfreq`), `frequency_bin_width`, `downsampled_by` →
  `utilities.downsample`, `in_range`, `_exclude_range`, `identify_peaks`, `with_spectrum`
  (lumicks/pylake/force_calibration/power_spectrum.py) and `calculate_power_spectrum`
  (power_spectrum_calibration.py).  Mirrors the algorithm of the code (masks applied to the two arrays
  separately, `logical_and.reduce`, `reshape(-1,k)`, `diff`/`nonzero`/`cumsum` look-ups), not the
  specification.

  * list-level functions are generic over an ordered type (executed at `Rat` on the implementation's own
    doubles sent as exact rationals);
  * the DFT / PSD formulas are generic over `[RealLike α]` (executed at `Float`, proved at `ℝ`).
-/
import Verif.Py
import Verif.Proto
import Verif.Num

namespace Verif.C10
open Verif

/-! ## boolean masks (`a[mask]`) -/

/-- `a[mask]` for a boolean mask of the same length. -/
def maskSelect {β} (l : List β) (m : List Bool) : List β :=
  (l.zip m).filterMap fun (x, k) => if k then some x else none

section ordered
variable {α : Type} [LT α] [LE α] [DecidableLT α] [DecidableLE α]

/-- `(frequency > f_min) & (frequency <= f_max)` -/
def inRangeMask (lo hi : α) (f : List α) : List Bool :=
  f.map fun x => decide (lo < x) && decide (x ≤ hi)

/-- `in_range`: the same mask applied to `frequency` and to `power`. -/
def inRangeLists {β} (lo hi : α) (f : List α) (p : List β) : List α × List β :=
  let m := inRangeMask lo hi f
  (maskSelect f m, maskSelect p m)

/-- one term of `_exclude_range`: `(frequency < f_min) | (frequency >= f_max)` -/
def outsideMask (r : α × α) (f : List α) : List Bool :=
  f.map fun x => decide (x < r.1) || decide (r.2 ≤ x)

/-- `np.logical_and.reduce([...masks...])` (identity: all true). -/
def andReduce (n : Nat) (masks : List (List Bool)) : List Bool :=
  masks.foldl (fun acc m => List.zipWith (· && ·) acc m) (List.replicate n true)

def excludeMask (ranges : List (α × α)) (f : List α) : List Bool :=
  andReduce f.length (ranges.map fun r => outsideMask r f)

/-- `_exclude_range`: an empty list of ranges returns a copy. -/
def excludeLists {β} (ranges : List (α × α)) (f : List α) (p : List β) : List α × List β :=
  if ranges.isEmpty then (f, p)
  else
    let m := excludeMask ranges f
    (maskSelect f m, maskSelect p m)

end ordered

/-! ## block averaging (`utilities.downsample` with `np.mean`) -/

/-- `round_down(size, n)` -/
def roundDown (size k : Nat) : Nat := (size / k) * k

/-- `data.reshape(-1, k)` of a list whose length is a multiple of `k`: row `i` is `data[i*k:(i+1)*k]`. -/
def reshapeRows {β} (k : Nat) (l : List β) : List (List β) :=
  (List.range (l.length / k)).map fun i => (l.drop (i * k)).take k

/-- `downsample(data, k, np.mean)`; `k ≥ 1` (the code divides by zero otherwise). -/
def downsampleMean (k : Nat) (l : List Rat) : List Rat :=
  (reshapeRows k (l.take (roundDown l.length k))).map fun row => row.sum / (k : Rat)

/-! ## `identify_peaks` -/

def boolInt (b : Bool) : Int := if b then 1 else 0

/-- `np.diff` -/
def diff : List Int → List Int
  | a :: b :: r => (b - a) :: diff (b :: r)
  | _ => []

/-- `np.nonzero(a)[0]` -/
def nonzeroFrom (i : Nat) : List Int → List Nat
  | [] => []
  | x :: xs => if x ≠ 0 then i :: nonzeroFrom (i + 1) xs else nonzeroFrom (i + 1) xs

/-- `.reshape((-1, 2))` of an even-length index vector. -/
def pairUp : List Nat → List (Nat × Nat)
  | a :: b :: r => (a, b) :: pairUp r
  | _ => []

/-- `grab_contiguous_ranges(mask)`: `diff(mask, prepend=0, append=0)`, `nonzero`, `reshape(-1,2)`,
    `ranges[:,1] -= 1`. -/
def grabContiguousRanges (mask : List Bool) : List (Nat × Nat) :=
  let capped := diff (0 :: (mask.map boolInt ++ [0]))
  (pairUp (nonzeroFrom 0 capped)).map fun r => (r.1, r.2 - 1)

/-- `np.cumsum` (running total carried forward). -/
def cumsumFrom (acc : Int) : List Int → List Int
  | [] => []
  | x :: xs => (acc + x) :: cumsumFrom (acc + x) xs

/-- `np.cumsum(np.diff(baseline_mask, prepend=0) > 0) - 1` -/
def baselineIndices (mask : List Bool) : List Int :=
  let startPoints := (diff (0 :: mask.map boolInt)).map fun d => boolInt (decide (d > 0))
  (cumsumFrom 0 startPoints).map (· - 1)

/-- insertion into a strictly increasing list (no duplicates) -/
def insertUniq (x : Int) : List Int → List Int
  | [] => [x]
  | y :: ys => if x < y then x :: y :: ys else if x = y then y :: ys else y :: insertUniq x ys

/-- `np.unique`: the sorted distinct values. -/
def unique (l : List Int) : List Int := l.foldr insertUniq []

/-- The index ranges (first bin, last bin) `identify_peaks` reports; `flat` is the normalised spectrum
    `power / model_fun(frequency)`.  `none` = `IndexError` of a look-up (proved impossible). -/
def identifyPeaksIdx {α : Type} [LT α] [LE α] [DecidableLT α] [DecidableLE α]
    (flat : List α) (baseline cutoff : α) : Option (List (Nat × Nat)) :=
  let baselineMask := flat.map fun x => decide (baseline ≤ x)
  let peakMask := flat.map fun x => decide (cutoff < x)
  let peakRanges := grabContiguousRanges peakMask
  if peakRanges.isEmpty then some []
  else
    let baselineRanges := grabContiguousRanges baselineMask
    let bIdx := baselineIndices baselineMask
    -- `baseline_indices[peak_position] for peak_position in peak_ranges[:, 0]`
    (peakRanges.mapM fun r => Py.pyIndex bIdx r.1).bind fun excl =>
      (unique excl).mapM fun i => Py.pyIndex baselineRanges i

/-- the exclusive upper edge of a reported range (after the fix of finding F-C10-1): the NEXT frequency bin when there
    is one, else `frequency[x1] + df` (`upper_edge` in `identify_peaks`) -/
def upperEdge (freq : List Rat) (df : Rat) (x1 : Nat) (b : Rat) : Rat :=
  match freq[x1 + 1]? with
  | some c => c
  | none => b + df

/-- `(frequency[x0], upper_edge(x1))`; `none` = `IndexError` -/
def edgeOf (freq : List Rat) (df : Rat) (r : Nat × Nat) : Option (Rat × Rat) :=
  match freq[r.1]?, freq[r.2]? with
  | some a, some b => some (a, upperEdge freq df r.2 b)
  | _, _ => none

/-- `df = frequency[1] - frequency[0]`; `[(frequency[x[0]], upper_edge(x[1])) for x in ranges]`
    (nothing is looked up when there is no peak). -/
def rangesToFreq (freq : List Rat) (rs : List (Nat × Nat)) : Option (List (Rat × Rat)) :=
  if rs.isEmpty then some []
  else
    match freq[0]?, freq[1]? with
    | some f0, some f1 => rs.mapM (edgeOf freq (f1 - f0))
    | _, _ => none

/-- the rule BEFORE the fix of finding F-C10-1: `(frequency[x0], frequency[x1] + df)` — the sum can exceed
    `frequency[x1 + 1]` (kept for the witness of the defect; not used by the model) -/
def edgeOfUnfixed (freq : List Rat) (df : Rat) (r : Nat × Nat) : Option (Rat × Rat) :=
  match freq[r.1]?, freq[r.2]? with
  | some a, some b => some (a, b + df)
  | _, _ => none

def rangesToFreqUnfixed (freq : List Rat) (rs : List (Nat × Nat)) : Option (List (Rat × Rat)) :=
  if rs.isEmpty then some []
  else
    match freq[0]?, freq[1]? with
    | some f0, some f1 => rs.mapM (edgeOfUnfixed freq (f1 - f0))
    | _, _ => none

/-! ## the spectrum object -/

structure Spec where
  freq : List Rat
  power : List Rat
  /-- `num_points_per_block` -/
  nppb : Nat
  sampleRate : Rat
  /-- `total_sampled_used` -/
  totalSampledUsed : Nat
  /-- `_fit_range` -/
  fitLo : Rat
  fitHi : Rat
  /-- `_excluded_ranges` -/
  excluded : List (Rat × Rat)
deriving Repr, DecidableEq

/-- Python's `max(a, b)` / `min(a, b)` (first argument on ties; equal values anyway) -/
def pyMax (a b : Rat) : Rat := if b > a then b else a
def pyMin (a b : Rat) : Rat := if b < a then b else a

def Spec.inRange (s : Spec) (lo hi : Rat) : Spec :=
  let r := inRangeLists lo hi s.freq s.power
  { s with freq := r.1, power := r.2, fitLo := pyMax s.fitLo lo, fitHi := pyMin s.fitHi hi }

def Spec.excludeRange (s : Spec) (ranges : List (Rat × Rat)) : Spec :=
  let r := excludeLists ranges s.freq s.power
  { s with freq := r.1, power := r.2, excluded := s.excluded ++ ranges }

/-- `downsampled_by(k)` with the default `reduce=np.mean`. -/
def Spec.downsampledBy (s : Spec) (k : Nat) : Spec :=
  { s with freq := downsampleMean k s.freq, power := downsampleMean k s.power, nppb := s.nppb * k }

/-- `frequency_bin_width` -/
def Spec.binWidth (s : Spec) : Rat := s.sampleRate / (s.totalSampledUsed : Rat) * (s.nppb : Rat)

/-- `with_spectrum(power, num_points_per_block)`; `none` = `ValueError` (length mismatch). -/
def Spec.withSpectrum (s : Spec) (power : List Rat) (nppb : Nat) : Option Spec :=
  if power.length ≠ s.power.length then none else some { s with power := power, nppb := nppb }

/-- `identify_peaks` on the normalised spectrum `flat` (one value per bin).
    `Except` carries the name of the Python exception. -/
def Spec.identifyPeaks (s : Spec) (flat : List Rat) (baseline cutoff : Rat) :
    Except String (List (Nat × Nat) × List (Rat × Rat)) :=
  if s.nppb ≠ 1 then .error "ValueError"
  else if cutoff ≤ baseline then .error "ValueError"
  else if baseline < 0 then .error "ValueError"
  else match identifyPeaksIdx flat baseline cutoff with
    | none => .error "IndexError"
    | some rs => match rangesToFreq s.freq rs with
      | none => .error "IndexError"
      | some fr => .ok (rs, fr)

/-- `ps._exclude_range(ps.identify_peaks(model_fun, …))`: the ranges `identify_peaks` reports handed to the exclusion
    (what they are for) -/
def Spec.excludePeaks (s : Spec) (flat : List Rat) (baseline cutoff : Rat) : Except String Spec :=
  match s.identifyPeaks flat baseline cutoff with
  | .error e => .error e
  | .ok (_, fr) => .ok (s.excludeRange fr)

/-- `calculate_power_spectrum` after the raw spectrum has been computed:
    `in_range(*fit_range)._exclude_range(excluded).downsampled_by(k)`. -/
def Spec.pipeline (s : Spec) (lo hi : Rat) (ranges : List (Rat × Rat)) (k : Nat) : Spec :=
  ((s.inRange lo hi).excludeRange ranges).downsampledBy k

/-! ## chains of derived spectra (derive → derive → query) -/

/-- one derivation step: `in_range(lo, hi)`, `_exclude_range(ranges)`, `downsampled_by(k)` -/
inductive Step where
  | inRange (lo hi : Rat)
  | exclude (ranges : List (Rat × Rat))
  | block (k : Nat)
deriving Repr, DecidableEq

def Spec.step (s : Spec) : Step → Spec
  | .inRange lo hi => s.inRange lo hi
  | .exclude rs => s.excludeRange rs
  | .block k => s.downsampledBy k

/-- the object at the end of a chain of method calls, each applied to what the previous one returned -/
def Spec.run (s : Spec) (steps : List Step) : Spec := steps.foldl Spec.step s

/-! ## the constructor's bookkeeping -/

/-- `(frequency.min(), frequency.max())` (the initial `_fit_range`); `none` = `ValueError` of an empty reduction -/
def fitInit {α : Type} [LT α] [DecidableLT α] : List α → Option (α × α)
  | [] => none
  | x :: xs => some (xs.foldl (fun m y => if y < m then y else m) x, xs.foldl (fun m y => if m < y then y else m) x)

/-- `(total_sampled_used, num_points_per_block)` of a spectrum of `n` samples in windows of `npw` points:
    `len(squared_fft_chunks) = len(data) // npw` windows, `npw * that` samples used -/
def psdMeta (n npw : Nat) : Nat × Nat := (npw * (n / npw), n / npw)

/-- the spectrum object as `__init__` leaves it (arrays given): metadata from `psdMeta`, `_fit_range` from `fitInit`,
    nothing excluded -/
def Spec.initial (f p : List Rat) (fs : Rat) (n npw : Nat) : Spec :=
  { freq := f, power := p, nppb := (psdMeta n npw).2, sampleRate := fs, totalSampledUsed := (psdMeta n npw).1,
    fitLo := ((fitInit f).getD (0, 0)).1, fitHi := ((fitInit f).getD (0, 0)).2, excluded := [] }

/-! ## DFT and the one-sided power spectral density (`RealLike`) -/

section real
variable {α : Type} [RealLike α]
open RealLike

/-- a natural number as an element of `α` (exact at `Float` below 2^53; `(n : ℝ)` at `ℝ`) -/
def ofNat' (n : Nat) : α := OfScientific.ofScientific n false 0

def rsum : List α → α
  | [] => 0.0
  | x :: xs => x + rsum xs

/-- `np.mean` -/
def mean (x : List α) : α := rsum x / ofNat' x.length

/-- `data - np.mean(data)` -/
def demean (x : List α) : List α :=
  let m := mean x
  x.map fun v => v - m

/-- `2π·k·n/N` -/
def angle (k n N : Nat) : α := 2.0 * pi * ofNat' (k * n) / ofNat' N

/-- real part of the `k`-th DFT coefficient of the samples `n, n+1, …` (length-`N` transform) -/
def dftReFrom (k N : Nat) : Nat → List α → α
  | _, [] => 0.0
  | n, v :: vs => v * cos (angle k n N) + dftReFrom k N (n + 1) vs

/-- minus the imaginary part -/
def dftImFrom (k N : Nat) : Nat → List α → α
  | _, [] => 0.0
  | n, v :: vs => v * sin (angle k n N) + dftImFrom k N (n + 1) vs

/-- `|rfft(x)[k]|²` -/
def dftSq (x : List α) (k : Nat) : α :=
  sq (dftReFrom k x.length 0 x) + sq (dftImFrom k x.length 0 x)

/-- `np.square(np.abs(np.fft.rfft(d)))`: bins `0 … ⌊N/2⌋` -/
def rfftSq (x : List α) : List α := (List.range (x.length / 2 + 1)).map (dftSq x)

/-- `data[c*npw:(c+1)*npw] for c in range(len(data) // npw)` -/
def chunks {β} (x : List β) (npw : Nat) : List (List β) :=
  (List.range (x.length / npw)).map fun c => (x.drop (c * npw)).take npw

/-- `np.mean(rows, axis=0)` for rows of length `width` -/
def meanRows (rows : List (List α)) (width : Nat) : List α :=
  (List.range width).map fun k => rsum (rows.map fun r => r.getD k 0.0) / ofNat' rows.length

/-- `scaling_factor = (2.0 / sample_rate) / num_points_per_window` -/
def scaling (fs : α) (npw : Nat) : α := (2.0 / fs) / ofNat' npw

/-- `PowerSpectrum(data, fs, window).power` for a window of `npw` points (`npw = len(data)` without
    windowing). -/
def psdPower (x : List α) (fs : α) (npw : Nat) : List α :=
  let d := demean x
  let sqs := (chunks d npw).map rfftSq
  (meanRows sqs (npw / 2 + 1)).map fun v => scaling fs npw * v

/-- `np.fft.rfftfreq(n, d)`: `val = 1.0/(n*d)`, `arange(0, n//2+1) * val` -/
def rfftfreq (n : Nat) (d : α) : List α :=
  let val := 1.0 / (ofNat' n * d)
  (List.range (n / 2 + 1)).map fun k => ofNat' k * val

/-- `PowerSpectrum(...).frequency` -/
def psdFreq (fs : α) (npw : Nat) : List α := rfftfreq npw (1.0 / fs)

end real

/-! ## decisions taken on doubles (`Float` only) -/

/-- `np.round` (round half to even) for `0 ≤ x < 2^52` -/
def npRound (x : Float) : Float :=
  let r := x.floor
  let d := x - r
  if d < 0.5 then r
  else if d > 0.5 then r + 1.0
  else if (r / 2.0).floor * 2.0 == r then r else r + 1.0

/-- `int(np.round(window_seconds * sample_rate)) if window_seconds else len(data)`, clamped to the data
    length (the code warns and does not window). -/
def numPointsPerWindow (ws : Option Float) (fs : Float) (n : Nat) : Nat :=
  match ws with
  | none => n
  | some w =>
    let k := (npRound (w * fs)).toUInt64.toNat
    if k > n then n else k

/-! ## protocol -/
open Verif.Proto

def ratPair? (s : String) : Option (Rat × Rat) :=
  match s.splitOn ":" with
  | [a, b] => do let a ← rat? a; let b ← rat? b; some (a, b)
  | _ => none

def ratPairList? : String → Option (List (Rat × Rat)) := listOf? ratPair?

def optFloat? (s : String) : Option (Option Float) :=
  if s == "N" then some none else (float? s).map some

def showRatPairs (l : List (Rat × Rat)) : String :=
  showList (fun (p : Rat × Rat) => showRat p.1 ++ ":" ++ showRat p.2) l

def showNatPairs (l : List (Nat × Nat)) : String :=
  showList (fun (p : Nat × Nat) => toString p.1 ++ ":" ++ toString p.2) l

/-- one step token: `i:lo:hi`, `e:[lo:hi,…]`, `b:k` -/
def step? (s : String) : Option Step :=
  match s.splitOn ":" with
  | ["i", a, b] => do let a ← rat? a; let b ← rat? b; some (.inRange a b)
  | ["b", k] => (nat? k).map .block
  | "e" :: rest => (ratPairList? (":".intercalate rest)).map .exclude
  | _ => none

/-- `calculate_power_spectrum` computes only on a one-dimensional numpy array (`isinstance(data, np.ndarray)` and
`data.ndim == 1`); anything else is refused with `TypeError` before a spectrum is made. -/
def pipelineDataOk (isArray : Bool) (ndim : Nat) : Bool := isArray && ndim == 1

def mkSpec (f p : List Rat) (nppb : Nat) : Spec :=
  { freq := f, power := p, nppb := nppb, sampleRate := 1, totalSampledUsed := 1,
    fitLo := 0, fitHi := 0, excluded := [] }

def showFP (s : Spec) : String := showRatList s.freq ++ " " ++ showRatList s.power

/-- ops (rationals `p/q`, doubles as bit patterns):
  `c10.psd ndim fs ws|N [x…]`            → `tsu nppb [freq…] [power…]` (doubles) or an exception name
  `c10.inrange lo hi fitlo fithi [f…] [p…]` → `[f…] [p…] fitlo fithi`
  `c10.exclude [lo:hi,…] [f…] [p…]`      → `[f…] [p…]`
  `c10.block k nppb [f…] [p…]`           → `[f…] [p…] nppb`
  `c10.pipeline lo hi [lo:hi,…] k [f…] [p…]` → `[f…] [p…] nppb`
  `c10.pipelinearg isarray(0|1) ndim`    → `ok` or `TypeError` (the data argument of calculate_power_spectrum)
  `c10.binwidth fs tsu nppb`             → rational
  `c10.withspec n m nppb`                → `nppb` or `ValueError`
  `c10.peaks nppb baseline cutoff [flat…] [f…]` → `[i:j,…] [lo:hi,…]` or an exception name
  `c10.peaksexclude nppb baseline cutoff [flat…] [f…] [p…]` → `[f…] [p…]` (identify_peaks, then _exclude_range of its answer)
  `c10.chain nppb fitlo fithi [f…] [p…] step…` (steps `i:lo:hi`, `e:[lo:hi,…]`, `b:k`) → `[f…] [p…] nppb fitlo fithi [excluded…]`
  `c10.initial fs(rat) fs(double) ws|N n k` → `tsu nppb binwidth binwidth-after-block-k fitlo fithi` -/
def handle : List String → Option String
  | ["c10.psd", ndim, fs, ws, xs] => do
    let ndim ← nat? ndim
    let fs ← float? fs
    let ws ← optFloat? ws
    let xs ← floatList? xs
    match ws with
    | some w => if w ≤ 0.0 then return "ValueError"
    | none => pure ()
    if ndim ≠ 1 then return "ValueError"
    let npw := numPointsPerWindow ws fs xs.length
    if npw = 0 then return "Error:ZeroDivisionError"
    let md := psdMeta xs.length npw
    some (toString md.1 ++ " " ++ toString md.2 ++ " " ++
      showFloatList (psdFreq fs npw) ++ " " ++ showFloatList (psdPower xs fs npw))
  | ["c10.inrange", lo, hi, flo, fhi, f, p] => do
    let lo ← rat? lo; let hi ← rat? hi; let flo ← rat? flo; let fhi ← rat? fhi
    let f ← ratList? f; let p ← ratList? p
    if f.length ≠ p.length then none
    let s := ({ mkSpec f p 1 with fitLo := flo, fitHi := fhi }).inRange lo hi
    some (showFP s ++ " " ++ showRat s.fitLo ++ " " ++ showRat s.fitHi)
  | ["c10.exclude", rs, f, p] => do
    let rs ← ratPairList? rs
    let f ← ratList? f; let p ← ratList? p
    if f.length ≠ p.length then none
    some (showFP ((mkSpec f p 1).excludeRange rs))
  | ["c10.block", k, nppb, f, p] => do
    let k ← nat? k; let nppb ← nat? nppb
    let f ← ratList? f; let p ← ratList? p
    if f.length ≠ p.length then none
    if k = 0 then return "Error:ZeroDivisionError"
    let s := (mkSpec f p nppb).downsampledBy k
    some (showFP s ++ " " ++ toString s.nppb)
  | ["c10.pipeline", lo, hi, rs, k, f, p] => do
    let lo ← rat? lo; let hi ← rat? hi
    let rs ← ratPairList? rs
    let k ← nat? k
    let f ← ratList? f; let p ← ratList? p
    if f.length ≠ p.length then none
    if k = 0 then return "Error:ZeroDivisionError"
    let s := (mkSpec f p 1).pipeline lo hi rs k
    some (showFP s ++ " " ++ toString s.nppb)
  | ["c10.pipelinearg", isarr, ndim] => do
    let isarr ← nat? isarr; let ndim ← nat? ndim
    some (if pipelineDataOk (isarr ≠ 0) ndim then "ok" else "TypeError")
  | ["c10.binwidth", fs, tsu, nppb] => do
    let fs ← rat? fs; let tsu ← nat? tsu; let nppb ← nat? nppb
    if tsu = 0 then none
    some (showRat ({ mkSpec [] [] nppb with sampleRate := fs, totalSampledUsed := tsu }).binWidth)
  | ["c10.withspec", n, m, nppb] => do
    let n ← nat? n; let m ← nat? m; let nppb ← nat? nppb
    match (mkSpec (List.replicate n 0) (List.replicate n 0) 1).withSpectrum (List.replicate m 1) nppb with
    | none => some "ValueError"
    | some s => some (toString s.nppb ++ " " ++ toString s.power.length)
  | ["c10.peaks", nppb, baseline, cutoff, flat, f] => do
    let nppb ← nat? nppb
    let baseline ← rat? baseline; let cutoff ← rat? cutoff
    let flat ← ratList? flat; let f ← ratList? f
    if f.length ≠ flat.length then none
    match (mkSpec f flat nppb).identifyPeaks flat baseline cutoff with
    | .error e => some e
    | .ok (rs, fr) => some (showNatPairs rs ++ " " ++ showRatPairs fr)
  | ["c10.peaksexclude", nppb, baseline, cutoff, flat, f, p] => do
    let nppb ← nat? nppb
    let baseline ← rat? baseline; let cutoff ← rat? cutoff
    let flat ← ratList? flat; let f ← ratList? f; let p ← ratList? p
    if f.length ≠ flat.length ∨ f.length ≠ p.length then none
    match (mkSpec f p nppb).excludePeaks flat baseline cutoff with
    | .error e => some e
    | .ok s => some (showFP s)
  | "c10.chain" :: nppb :: flo :: fhi :: f :: p :: steps => do
    let nppb ← nat? nppb; let flo ← rat? flo; let fhi ← rat? fhi
    let f ← ratList? f; let p ← ratList? p
    if f.length ≠ p.length then none
    let steps ← steps.mapM step?
    if steps.any (fun st => st == Step.block 0) then return "Error:ZeroDivisionError"
    let s := ({ mkSpec f p nppb with fitLo := flo, fitHi := fhi }).run steps
    some (showFP s ++ " " ++ toString s.nppb ++ " " ++ showRat s.fitLo ++ " " ++ showRat s.fitHi ++ " " ++
      showRatPairs s.excluded)
  | ["c10.initial", fsr, fs, ws, n, k] => do
    let fsr ← rat? fsr; let fs ← float? fs; let ws ← optFloat? ws; let n ← nat? n; let k ← nat? k
    match ws with
    | some w => if w ≤ 0.0 then return "ValueError"
    | none => pure ()
    let npw := numPointsPerWindow ws fs n
    if npw = 0 then return "Error:ZeroDivisionError"
    let s := Spec.initial [] [] fsr n npw
    let fit := (fitInit (psdFreq fs npw)).getD (0.0, 0.0)
    some (toString s.totalSampledUsed ++ " " ++ toString s.nppb ++ " " ++ showRat s.binWidth ++ " " ++
      showRat (s.downsampledBy k).binWidth ++ " " ++ showFloat fit.1 ++ " " ++ showFloat fit.2)
  | _ => none

end Verif.C10
