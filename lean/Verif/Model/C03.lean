/-
  C03 — pixel timestamps and line/frame time ranges index the raw sample stream.
  Executable model of
    * `timestamp_mean` / `_int_mean` (lumicks/pylake/detail/confocal.py) with the int64 tests
      `could_sum_overflow` / `will_mul_overflow` (detail/utilities.py),
    * `reconstruct_image(reduce=…)`, `reshape_reconstructed_image`, `first_pixel_sample_indices`
      (detail/image.py), `Kymo._to_spatial`, `Scan._to_spatial`,
    * `_default_line_timestamp_ranges_factory`, `_default_line_time_factory`,
      `pixel_time_seconds`, `duration` (kymo.py), `Scan.frame_timestamp_ranges` (scan.py),
    * `Slice.downsampled_over(ranges, reduce=np.sum)` on a continuous channel (channel.py; the
      slicing itself is the C01 model).
  Mirrors the algorithm of the code (constant pixel size `argmax(subset)+1`, zero padding, reshape,
  transposition, min/max reductions, `int(1e9 / sample_rate)`), not the specification.
-/
import Verif.Py
import Verif.Proto
import Verif.Model.C01

namespace Verif.C03
open Verif.Py

/-! ### int64 -/

def I64MAX : Int := 9223372036854775807
def I64MIN : Int := -9223372036854775808
def fitsI64 (x : Int) : Bool := decide (I64MIN ≤ x) && decide (x ≤ I64MAX)

/-- `np.max` of a non-empty list (`0` for the empty list, which the code never reduces). -/
def listMax : List Int → Int
  | [] => 0
  | [x] => x
  | x :: y :: ys => max x (listMax (y :: ys))

/-- `np.min` of a non-empty list. -/
def listMin : List Int → Int
  | [] => 0
  | [x] => x
  | x :: y :: ys => min x (listMin (y :: ys))

/-! ### `timestamp_mean` -/

/-- `will_mul_overflow(a, b)`: `b > 0 and a > int_max // b`. -/
def willMulOverflow (a b : Int) : Bool := decide (0 < b) && decide (I64MAX / b < a)

/-- `could_sum_overflow(a)`: `will_mul_overflow(np.max(a), a.size)`. -/
def couldSumOverflow (a : List Int) : Bool := willMulOverflow (listMax a) a.length

/-- `_int_mean(a, total_size, axis=None)` on a 1-D array: sum and floor-divide when the conservative
    test says the sum cannot overflow, otherwise split the block in two halves and add the two
    (floored) partial means.  The guard `2 ≤ a.length` is never the deciding one for int64 data
    (`couldSumOverflow_length`): a block of one element never needs splitting; it is what makes the
    recursion total on unbounded integers. -/
def intMean (a : List Int) (total : Int) : Int :=
  if _h : couldSumOverflow a = true ∧ 2 ≤ a.length then
    intMean (a.take (a.length / 2)) total + intMean (a.drop (a.length / 2)) total
  else a.sum / total
termination_by a.length
decreasing_by
  all_goals simp only [List.length_take, List.length_drop]
  all_goals omega

/-- Number of splits `_int_mean` performs. -/
def intMeanSplits (a : List Int) : Nat :=
  if _h : couldSumOverflow a = true ∧ 2 ≤ a.length then
    intMeanSplits (a.take (a.length / 2)) + intMeanSplits (a.drop (a.length / 2)) + 1
  else 0
termination_by a.length
decreasing_by
  all_goals simp only [List.length_take, List.length_drop]
  all_goals omega

/-- Every integer `_int_mean` computes on the way: per leaf block its sum and quotient, per split
    the sum of the two partial means. -/
def intMeanTrace (a : List Int) (total : Int) : List Int :=
  if _h : couldSumOverflow a = true ∧ 2 ≤ a.length then
    intMeanTrace (a.take (a.length / 2)) total ++ intMeanTrace (a.drop (a.length / 2)) total ++
      [intMean (a.take (a.length / 2)) total + intMean (a.drop (a.length / 2)) total]
  else [a.sum, a.sum / total]
termination_by a.length
decreasing_by
  all_goals simp only [List.length_take, List.length_drop]
  all_goals omega

/-- `timestamp_mean(a)` for a 1-D array; `none` = `ValueError` (`np.min` of an empty array). -/
def tsMean (a : List Int) : Option Int :=
  if a = [] then none
  else
    let m := listMin a
    some (m + intMean (a.map (· - m)) a.length)

/-- All intermediate integers of `timestamp_mean(a)`: the shifted array, everything `_int_mean`
    computes, the final sum. -/
def tsMeanTrace (a : List Int) : List Int :=
  let m := listMin a
  a.map (· - m) ++ intMeanTrace (a.map (· - m)) a.length ++ [m + intMean (a.map (· - m)) a.length]

/-- `could_sum_overflow(a, axis)` for a 2-D array reduced along rows of width `w`. -/
def anyCould (rows : List (List Int)) (w : Nat) : Bool :=
  rows.any fun r => willMulOverflow (listMax r) w

/-- `_int_mean(a, total_size, axis=1)` on a 2-D array given by its rows (all of width `w`): the
    split decision is taken for all rows at once. -/
def intMeanRows (rows : List (List Int)) (w : Nat) (total : Int) : List Int :=
  if _h : anyCould rows w = true ∧ 2 ≤ w then
    List.zipWith (· + ·) (intMeanRows (rows.map (·.take (w / 2))) (w / 2) total)
      (intMeanRows (rows.map (·.drop (w / 2))) (w - w / 2) total)
  else rows.map fun r => r.sum / total
termination_by w
decreasing_by all_goals omega

/-- `timestamp_mean(a, axis=1)`: the minimum is taken over the whole array. `none` = `ValueError`. -/
def tsMeanRows (rows : List (List Int)) (w : Nat) : Option (List Int) :=
  if rows.flatten = [] then none
  else
    let m := listMin rows.flatten
    some ((intMeanRows (rows.map fun r => r.map (· - m)) w w).map (m + ·))

/-- Number of splits `_int_mean(axis=1)` performs along the reduced axis (the same for every row). -/
def intMeanRowsSplits (rows : List (List Int)) (w : Nat) : Nat :=
  if _h : anyCould rows w = true ∧ 2 ≤ w then
    intMeanRowsSplits (rows.map (·.take (w / 2))) (w / 2) +
      intMeanRowsSplits (rows.map (·.drop (w / 2))) (w - w / 2) + 1
  else 0
termination_by w
decreasing_by all_goals omega

/-- Every integer `_int_mean(axis=1)` computes on the way: per leaf block the row sums and the
    quotients, per split the element-wise sums of the two partial means. -/
def intMeanRowsTrace (rows : List (List Int)) (w : Nat) (total : Int) : List Int :=
  if _h : anyCould rows w = true ∧ 2 ≤ w then
    intMeanRowsTrace (rows.map (·.take (w / 2))) (w / 2) total ++
      intMeanRowsTrace (rows.map (·.drop (w / 2))) (w - w / 2) total ++
      List.zipWith (· + ·) (intMeanRows (rows.map (·.take (w / 2))) (w / 2) total)
        (intMeanRows (rows.map (·.drop (w / 2))) (w - w / 2) total)
  else (rows.map List.sum) ++ (rows.map fun r => r.sum / total)
termination_by w
decreasing_by all_goals omega

/-- All intermediate integers of `timestamp_mean(a, axis=1)`. -/
def tsMeanRowsTrace (rows : List (List Int)) (w : Nat) : List Int :=
  let m := listMin rows.flatten
  let sh := rows.map fun r => r.map (· - m)
  sh.flatten ++ intMeanRowsTrace sh w w ++ (intMeanRows sh w w).map (m + ·)

/-! ### info wave → pixels -/

/-- A continuous info wave: sample `i` has timestamp `start + i·dt` and code `iw[i]`
    (0 discard, 1 use, 2 use + pixel boundary). -/
structure Wave where
  start : Int
  dt : Int
  iw : List Nat
deriving Repr, DecidableEq

/-- `np.arange(start, start + n·dt, dt)`. -/
def times (t0 dt : Int) : Nat → List Int
  | 0 => []
  | n + 1 => t0 :: times (t0 + dt) dt n

/-- `x[infowave != 0]`. -/
def usedOf {α} : List Nat → List α → List α
  | c :: cs, x :: xs => if c = 0 then usedOf cs xs else x :: usedOf cs xs
  | _, _ => []

def Wave.allTs (w : Wave) : List Int := times w.start w.dt w.iw.length
/-- timestamps of the used samples -/
def Wave.usedTs (w : Wave) : List Int := usedOf w.iw w.allTs
/-- `subset` of `discard_zeros` -/
def Wave.subset (w : Wave) : List Nat := w.iw.filter (· ≠ 0)

/-- `pixel_size = np.argmax(subset) + 1`; `none` = `ValueError` (empty subset). -/
def Wave.pixelSize (w : Wave) : Option Nat :=
  (argmaxFirst (w.subset.map Int.ofNat)).map (· + 1)

/-- the first `m` rows of width `k` of a flat array -/
def takeRows {α} (k : Nat) : Nat → List α → List (List α)
  | 0, _ => []
  | m + 1, l => l.take k :: takeRows k m (l.drop k)

/-- `data[: round_down(size, k)].reshape(-1, k)` -/
def rowsOf {α} (k : Nat) (l : List α) : List (List α) := takeRows k (l.length / k) l

/-- the per-pixel sample timestamps, as the code cuts them: rows of `pixelSize` used samples -/
def Wave.pixelRows (w : Wave) : Option (List (List Int)) :=
  w.pixelSize.map fun k => rowsOf k w.usedTs

/-- `reconstruct_image(timestamps, infowave, shape, reduce)` before the reshape, for a reduction
    that works row by row (`np.min`, `np.max`). -/
def Wave.pixReduce (w : Wave) (f : List Int → Int) : Option (List Int) :=
  w.pixelRows.map fun rows => rows.map f

/-- the same with `reduce = timestamp_mean` (one call for all rows). -/
def Wave.pixMean (w : Wave) : Option (List Int) :=
  match w.pixelSize with
  | none => none
  | some k => tsMeanRows (rowsOf k w.usedTs) k

/-- number of blocks of `n` pixels needed for `size` pixels: `round_up(size, n) / n` -/
def numBlocks (size n : Nat) : Nat := (size + n - 1) / n

/-- `reshape_reconstructed_image(pixels, (n,))`: zero padding up to a multiple of `n`, rows of `n`. -/
def padRows (n : Nat) (pix : List Int) : List (List Int) :=
  takeRows n (numBlocks pix.length n) (pix ++ List.replicate (numBlocks pix.length n * n - pix.length) 0)

/-- transposition of a list of rows of width `n` (`ndarray.T`) -/
def transposeN (n : Nat) (rows : List (List Int)) : List (List Int) :=
  (List.range n).map fun r => rows.map fun row => row.getD r 0

/-- `Kymo._to_spatial(reshape_reconstructed_image(pixels, (P,)))`: image[r][ℓ]. -/
def kymoImage (P : Nat) (pix : List Int) : List (List Int) := transposeN P (padRows P pix)

/-- `Kymo.timestamps`. -/
def Wave.kymoTimestamps (w : Wave) (P : Nat) : Option (List (List Int)) :=
  w.pixMean.map (kymoImage P)

/-! ### IEEE-754 binary64 division, exactly (for `int(1e9 / (1e9 / dt))`) -/

/-- round-half-to-even of the fraction `A / B` -/
def roundHalfEven (A B : Nat) : Nat :=
  let q := A / B
  let r := A % B
  if 2 * r < B then q else if B < 2 * r then q + 1 else if q % 2 = 0 then q else q + 1

/-- the exponent of the `(c+1)`-bit float nearest to `p / q`, as a pair `(u, v)`: the unit in the last
    place is `2^u / 2^v` (one of the two is `2^0`), chosen so that `2^c ≤ (p/q)·2^v/2^u < 2^(c+1)`: first
    guess from the bit lengths (`Nat.log2`), one more when the scaled quotient reaches `2^(c+1)`. -/
def rnExp (c p q : Nat) : Nat × Nat :=
  if q * 2 ^ (p.log2 - (q.log2 + (c + 1))) * 2 ^ (c + 1) ≤ p * 2 ^ ((q.log2 + (c + 1)) - p.log2) then
    (p.log2 - (q.log2 + c), (q.log2 + c) - p.log2)
  else (p.log2 - (q.log2 + (c + 1)), (q.log2 + (c + 1)) - p.log2)

/-- `p / q` in IEEE-754 binary64 with round-to-nearest-even, as an exact fraction (numerator,
    denominator); `p`, `q` positive, quotient in the normal range (no subnormals, no overflow). -/
def rnDiv (p q : Nat) : Nat × Nat :=
  let uv := rnExp 52 p q
  (roundHalfEven (p * 2 ^ uv.2) (q * 2 ^ uv.1) * 2 ^ uv.1, 2 ^ uv.2)

/-- `int(1e9 / infowave.sample_rate)` with `sample_rate = 1e9 / dt` computed exactly as IEEE doubles do:
    `rate = RN(10⁹/dt)`, `RN(10⁹/rate)`, truncation. -/
def deltaSoft (dt : Nat) : Nat :=
  let rate := rnDiv 1000000000 dt
  let back := rnDiv (1000000000 * rate.2) rate.1
  back.1 / back.2

/-- `delta_ts = int(1e9 / infowave.sample_rate)` as the code computes it (`dt − 1` for dt = 55, 57,
    110, …): the exact binary64 model above, so that the kernel can compute with it. -/
def deltaTs (dt : Int) : Int := Int.ofNat (deltaSoft dt.toNat)

/-- The same through Lean's hardware `Float` (opaque to the kernel) — only a cross-check of `rnDiv`,
    printed next to `deltaTs` by op `c03.delta`. -/
def deltaTsFloat (dt : Int) : Int :=
  let rate : Float := 1e9 / Float.ofInt dt
  Int.ofNat (1e9 / rate).toUInt64.toNat

/-- `float(N) * 1e-9` as the code computes it in binary64: the integer is converted (rounded when it
    needs more than 53 bits), the literal `1e-9` is the double nearest to 10⁻⁹, the product is rounded. -/
def secondsOf (N : Nat) : Nat × Nat :=
  if N = 0 then (0, 1)
  else
    let f := rnDiv N 1
    let c := rnDiv 1 1000000000
    rnDiv (f.1 * c.1) (f.2 * c.2)

/-- `x * n` in binary64 for a double `x` (as a fraction) and an integer `n`. -/
def timesNat (x : Nat × Nat) (n : Nat) : Nat × Nat :=
  if x.1 = 0 ∨ n = 0 then (0, 1)
  else
    let f := rnDiv n 1
    rnDiv (x.1 * f.1) (x.2 * f.2)

/-- `image.max(axis=0)`: maximum of every column of an image with `n` columns. -/
def colMax (img : List (List Int)) (n : Nat) : List Int :=
  (List.range n).map fun c => listMax (img.map fun row => row.getD c 0)

/-- `_default_line_timestamp_ranges_factory(kymo, exclude=True)`:
    `ts_min = timestamps(np.min)[0]`, `ts_max = timestamps(np.max).max(axis=0) + δ`. -/
def Wave.lineRangesExcl (w : Wave) (P : Nat) (δ : Int) : Option (List (Int × Int)) :=
  match w.pixReduce listMin, w.pixReduce listMax with
  | some mn, some mx =>
    let tsMin := (kymoImage P mn).headD []
    let tsMax := (colMax (kymoImage P mx) (numBlocks mx.length P)).map (· + δ)
    some (tsMin.zip tsMax)
  | _, _ => none

/-- `exclude=False`: `line_time = ts_min[1] − ts_min[0]`, `ts_max = ts_min + line_time`.
    Outer `none` = `ValueError`, inner `none` = `IndexError` (fewer than two lines). -/
def Wave.lineRangesIncl (w : Wave) (P : Nat) : Option (Option (List (Int × Int))) :=
  match w.pixReduce listMin with
  | none => none
  | some mn =>
    let tsMin := (kymoImage P mn).headD []
    match tsMin with
    | a :: b :: _ => some (some (tsMin.map fun t => (t, t + (b - a))))
    | _ => some none

/-- `line_timestamp_ranges(include_dead_time=True)` after the repair of finding F22: a kymograph with a
    single line has no line period, so its range is the exclusive one (its own exposure) instead of an
    `IndexError`; with two or more lines nothing changes. -/
def Wave.lineRangesInclFixed (w : Wave) (P : Nat) (δ : Int) : Option (Option (List (Int × Int))) :=
  match w.lineRangesIncl P with
  | some none => (w.lineRangesExcl P δ).map some
  | r => r

/-- `np.argmax(mask)`: index of the first `true`, `0` when there is none. -/
def argmaxBool (p : Nat → Bool) (l : List Nat) : Nat :=
  let i := l.findIdx p
  if i < l.length then i else 0

/-- `first_pixel_sample_indices`; `none` = `RuntimeError("No completed pixel found")`. -/
def firstPixelIdx (iw : List Nat) : Option (Nat × Nat) :=
  if iw = [] then some (0, 0)
  else
    let pb := argmaxBool (· == 2) iw
    if iw.getD pb 0 ≠ 2 then none
    else some (argmaxBool (· != 0) iw, pb)

/-- `pixel_time_seconds` in integer nanoseconds: `(stop − start + 1)·dt`. -/
def Wave.pixelTimeNs (w : Wave) : Option Int :=
  (firstPixelIdx w.iw).map fun (s, e) => ((e : Int) - s + 1) * w.dt

/-- `_default_line_time_factory` in integer nanoseconds. -/
def Wave.lineTimeNs (w : Wave) (P : Nat) : Option Int :=
  (firstPixelIdx w.iw).map fun (s, e) =>
    let pixelSamples : Int := (e : Int) - s + 1
    let scanTime : Int := P * pixelSamples
    let beyond := w.iw.drop (s + scanTime.toNat)
    if beyond.length = 0 then scanTime * w.dt
    else (scanTime + argmaxBool (· != 0) beyond) * w.dt

/-- number of pixels of the photon-count image: one per pixel-boundary code -/
def Wave.numBoundaries (w : Wave) : Nat := (w.iw.filter (· == 2)).length

/-- `Kymo.duration` in nanoseconds: line time × number of image lines.
    Outer `none` = `RuntimeError` (no pixel), inner `none` = `IndexError` (image of no pixel). -/
def Wave.durationNs (w : Wave) (P : Nat) : Option Int :=
  (w.lineTimeNs P).map fun lt => lt * numBlocks w.numBoundaries P

/-- `pixel_time_seconds`, `line_time_seconds`, `duration` as binary64 values (exact fractions). -/
def Wave.pixelTimeSec (w : Wave) : Option (Nat × Nat) := w.pixelTimeNs.map fun ns => secondsOf ns.toNat
def Wave.lineTimeSec (w : Wave) (P : Nat) : Option (Nat × Nat) :=
  (w.lineTimeNs P).map fun ns => secondsOf ns.toNat
def Wave.durationSec (w : Wave) (P : Nat) : Option (Nat × Nat) :=
  (w.lineTimeNs P).map fun ns => timesNat (secondsOf ns.toNat) (numBlocks w.numBoundaries P)

/-! ### the C02 kymograph geometries (the domain the theorems `kymo_geometry_ranges` quantify over) -/

/-- one pixel of `k` samples: `k − 1` codes 1, then the boundary code 2 -/
def geomPixel (k : Nat) : List Nat := List.replicate (k - 1) 1 ++ [2]
/-- one line: `P` pixels, then `dead` discarded samples -/
def geomLine (k P dead : Nat) : List Nat := (List.replicate P (geomPixel k)).flatten ++ List.replicate dead 0
/-- a kymograph info wave as in C02: lead-in, `lines` lines, tail; `take n` of it is a truncated one -/
def geomKymo (lead k P dead lines tail : Nat) : List Nat :=
  List.replicate lead 0 ++ ((List.replicate lines (geomLine k P dead)).flatten ++ List.replicate tail 0)

/-! ### scans -/

/-- `Scan.timestamps`: frames of `L` lines of `P` pixels; `flip` = the fast axis has the higher
    physical axis number, so the two image axes are swapped. (`P, L ≥ 2`; a single frame is
    squeezed by the caller.) -/
def scanFrames (P L : Nat) (flip : Bool) (pix : List Int) : List (List (List Int)) :=
  (padRows (L * P) pix).map fun fr =>
    let lines := takeRows P L fr
    if flip then transposeN P lines else lines

def Wave.scanTimestamps (w : Wave) (P L : Nat) (flip : Bool) : Option (List (List (List Int))) :=
  w.pixMean.map (scanFrames P L flip)

/-- `Scan.frame_timestamp_ranges(include_dead_time)` as written (pinned behaviour): with one frame
    in the reconstructed image the start is `np.min` over the whole zero-padded frame — so `0`
    for a frame that is not complete (finding F9).  With several frames the start of frame `f` is
    its first pixel and the formulas are those of the kymograph lines with `L·P` pixels per block.
    Outer `none` = `ValueError`. -/
def Wave.frameRangesPinned (w : Wave) (P L : Nat) (incl : Bool) (δ : Int) :
    Option (Option (List (Int × Int))) :=
  match w.pixReduce listMin, w.pixReduce listMax with
  | some mn, some mx =>
    let fmn := padRows (L * P) mn
    let fmx := padRows (L * P) mx
    if fmn.length = 1 then
      some (some [(listMin fmn.flatten, listMax fmx.flatten + δ)])
    else if incl then w.lineRangesIncl (L * P)
    else (w.lineRangesExcl (L * P) δ).map some
  | _, _ => none

/-- The repaired single-frame start: the first pixel of the frame (`ts_min[0, 0]`). -/
def Wave.frameRanges (w : Wave) (P L : Nat) (incl : Bool) (δ : Int) :
    Option (Option (List (Int × Int))) :=
  match w.pixReduce listMin, w.pixReduce listMax with
  | some mn, some mx =>
    let fmn := padRows (L * P) mn
    let fmx := padRows (L * P) mx
    if fmn.length = 1 then
      some (some [(fmn.flatten.headD 0, listMax fmx.flatten + δ)])
    else if incl then w.lineRangesIncl (L * P)
    else (w.lineRangesExcl (L * P) δ).map some
  | _, _ => none

/-! ### reducing a channel over the ranges (uses the C01 and C02 models) -/

/-- `Slice.downsampled_over(ranges, reduce=np.sum)` on a continuous channel, data only: ranges not
    fully covered by the channel are dropped, empty windows are skipped, every other window is
    sliced (C01) and summed. -/
def sumOver (c : C01.Cont) (ranges : List (Int × Int)) : List Int :=
  (ranges.filter fun r => decide (c.start ≤ r.1) && decide (r.2 ≤ c.stop)).filterMap fun r =>
    let s := (c.slice r.1 r.2).samples
    if s.isEmpty then none else some (s.map (·.2)).sum

/-- The pixels of the photon-count image as C02 specifies them: accumulate the used samples, emit
    at every pixel-boundary code (counts after the last boundary are dropped). -/
def pixelSums : List Nat → List Int → Int → List Int
  | c :: cs, x :: xs, acc =>
    if c = 0 then pixelSums cs xs acc
    else if c = 2 then (acc + x) :: pixelSums cs xs 0
    else pixelSums cs xs (acc + x)
  | _, _, _ => []

/-- column totals of the kymograph image (`image.sum(axis=0)`): totals of blocks of `P` pixels -/
def lineTotals (P : Nat) (pix : List Int) : List Int := (padRows P pix).map List.sum

/-! ### derived kymographs (strengthening round H): one object, a sequence of operations

  `Kymo.__getitem__` (time slicing), `crop_by_distance`, `flip`, `copy`/`calibrate_to_kbp`, and the
  start repair `seek_timestamp_next_line` / `Kymo._fix_incorrect_start` of a kymograph whose photon
  streams begin after the info wave.  The state mirrors what the code keeps: the info wave between
  `start` and `stop`, the rows of the reconstructed timestamp image the timestamp factory hands out,
  the rows of the reconstructed photon image the image factory hands out (`flip` reverses only the
  latter), whether the factories are still the default ones, and where the line time comes from. -/

/-- `np.argmax(mask)` over any list: index of the first element satisfying `p`, `0` when none does. -/
def argmaxMask {α} (p : α → Bool) (l : List α) : Nat :=
  let i := l.findIdx p
  if i < l.length then i else 0

/-- `seek_timestamp_next_line(infowave)`: the starts of the pixels after the first one, their
    differences, the first difference above the midpoint of the shortest and the longest one; the
    start of the pixel after it.  `none` = `ValueError` (`np.max` of an empty array: fewer than
    three completed pixels). -/
def Wave.seekNextLine (w : Wave) : Option Int :=
  let sub := w.subset
  let ts := w.usedTs
  let ends := (List.range sub.length).filter fun i => sub.getD i 0 == 2
  let pstart := ends.dropLast.map fun i => ts.getD (i + 1) 0
  let dts := List.zipWith (fun a b => b - a) pstart (pstart.drop 1)
  if dts = [] then none
  else
    let idx := argmaxMask (fun d => decide (listMax dts + listMin dts < 2 * d)) dts
    pstart[idx + 1]?

/-- rows `rows` (indices) of an image given by its rows -/
def pickRows (rows : List Nat) (img : List (List Int)) : List (List Int) := rows.map fun r => img.getD r []

/-- `_default_line_timestamp_ranges_factory` on the rows the timestamp factory hands out: exclusive
    ranges, or (`incl`, at least two lines) `ts_min + (ts_min[1] − ts_min[0])`. -/
def Wave.lineRangesRows (w : Wave) (P : Nat) (rows : List Nat) (δ : Int) (incl : Bool) :
    Option (List (Int × Int)) :=
  match w.pixReduce listMin, w.pixReduce listMax with
  | some mn, some mx =>
    let tsMin := (pickRows rows (kymoImage P mn)).headD []
    let tsMax := (colMax (pickRows rows (kymoImage P mx)) (numBlocks mx.length P)).map (· + δ)
    match incl, tsMin with
    | true, a :: b :: _ => some (tsMin.map fun t => (t, t + (b - a)))
    | _, _ => some (tsMin.zip tsMax)
  | _, _ => none

/-- a derived kymograph -/
structure DK where
  w : Wave                 -- the info wave between `Kymo.start` and `Kymo.stop`
  stop : Int               -- `Kymo.stop`
  cnt : List Int           -- the photon counts of the same samples
  tsRows : List Nat        -- rows of the reconstructed timestamp image that `timestamps` shows
  imgRows : List Nat       -- rows of the reconstructed photon image that `get_image` shows
  dflt : Bool              -- `_has_default_factories()`
  ltTs : Bool              -- the line time is read from the timestamps of the flipped source

inductive Step where
  | slice (a b : Option Int)
  | crop (lo hi : Nat)
  | flip
  | copy

/-- `file.infowave[a:b]` and the photon counts of the same window (the C01 slicing model) -/
def DK.cut (d : DK) (a b : Int) : DK :=
  let ci := (⟨d.w.start, d.w.dt, d.w.iw.map Int.ofNat⟩ : C01.Cont).slice a b
  let cc := (⟨d.w.start, d.w.dt, d.cnt⟩ : C01.Cont).slice a b
  { d with w := ⟨ci.start, d.w.dt, ci.data.map Int.toNat⟩, cnt := cc.data, stop := b }

/-- a kymograph as constructed; `pcut > 0`: the photon streams start `pcut` samples after the info
    wave, the first access repairs the start (`_fix_incorrect_start`).  `"unsettled"`: the repaired
    start still lies before the photon streams (outside the generated scope). -/
def DK.init (w : Wave) (cnt : List Int) (P pcut : Nat) : Except String DK :=
  let d0 : DK := ⟨w, w.start + w.iw.length * w.dt, cnt, List.range P, List.range P, true, false⟩
  if pcut = 0 then .ok d0
  else
    match w.seekNextLine with
    | none => .error "ValueError"
    | some t => if t < w.start + pcut * w.dt then .error "unsettled" else .ok (d0.cut t d0.stop)

def DK.step (d : DK) (P : Nat) (δ : Int) : Step → Except String DK
  | .copy => .ok d
  | .flip => .ok { d with imgRows := d.imgRows.reverse, ltTs := if d.dflt then true else d.ltTs, dflt := false }
  | .crop lo hi =>
    let ts := (d.tsRows.take hi).drop lo
    if ts = [] then .error "IndexError"
    else .ok { d with tsRows := ts, imgRows := (d.imgRows.take hi).drop lo, dflt := false }
  | .slice a b =>
    if !d.dflt then .error "NotImplementedError"
    else
      let start := a.getD d.w.start
      let stop := b.getD d.stop
      match d.w.lineRangesRows P d.tsRows δ false with
      | none => .error "ValueError"
      | some rs =>
        let starts := rs.map (·.1)
        let imin := searchsortedLeft starts start
        let imax := searchsortedLeft starts stop
        if starts = [] then .error "IndexError"
        else if imin = starts.length ∨ imin ≥ imax then .error "Empty"
        else
          let stop' := if imax < starts.length then starts.getD imax 0
            else max (min stop d.stop) ((rs.getLast?.map (·.2)).getD 0)
          .ok (d.cut (starts.getD imin 0) stop')

def DK.run (d : DK) (P : Nat) (δ : Int) : List Step → Except String DK
  | [] => .ok d
  | s :: ss => match d.step P δ s with
    | .ok d' => d'.run P δ ss
    | .error e => .error e

/-- `Kymo.timestamps` of the derived object -/
def DK.timestamps (d : DK) (P : Nat) : Option (List (List Int)) :=
  (d.w.kymoTimestamps P).map (pickRows d.tsRows)

/-- `pixel_time_seconds` in ns: from the info wave, or `timestamps[1, 0] − timestamps[0, 0]`.
    Outer `none` = `RuntimeError`/`ValueError`, inner `none` = `IndexError`. -/
def DK.pixelTimeNs (d : DK) (P : Nat) : Option (Option Int) :=
  if d.dflt then d.w.pixelTimeNs.map some
  else (d.timestamps P).map fun ts =>
    match ts with
    | (a :: _) :: (b :: _) :: _ => some (b - a)
    | _ => none

/-- `line_time_seconds` in ns: `_default_line_time_factory` on the source the factory refers to. -/
def DK.lineTimeNs (d : DK) (P : Nat) : Option (Option Int) :=
  if !d.ltTs then (d.w.lineTimeNs P).map some
  else (d.w.kymoTimestamps P).map fun ts =>
    match ts with
    | (a :: b :: _) :: _ => some (b - a)
    | (a :: _) :: (b :: _) :: _ => some (P * (b - a))
    | _ => none

/-- column totals of the image the derived object shows -/
def DK.totals (d : DK) (P : Nat) : List Int :=
  let pix := pixelSums d.w.iw d.cnt 0
  let img := pickRows d.imgRows (kymoImage P pix)
  (List.range (numBlocks pix.length P)).map fun c => (img.map fun row => row.getD c 0).sum

/-! ### protocol -/
open Verif.Proto

def showErr {α} (f : α → String) (err : String) : Option α → String
  | some a => f a
  | none => err

def showRanges (l : List (Int × Int)) : String :=
  showList (fun (r : Int × Int) => toString r.1 ++ ":" ++ toString r.2) l

def showRanges2 : Option (Option (List (Int × Int))) → String
  | none => "ValueError"
  | some none => "IndexError"
  | some (some l) => showRanges l

def show3 (l : List (List (List Int))) : String :=
  "|".intercalate (l.map (showListList showInt))

/-- the argument checks of `downsampled_over` that come before the reduction -/
def downsampledOver (c : C01.Cont) (ranges : List (Int × Int)) : Except String (List Int) :=
  match ranges.head?, ranges.getLast? with
  | some r0, some rl =>
    if c.start ≥ rl.2 ∨ c.stop ≤ r0.1 then .error "RuntimeError" else .ok (sumOver c ranges)
  | _, _ => .error "ValueError"

/-- `"<sums over the ranges> <image block totals>"` -/
def sumAnswer (w : Wave) (c : C01.Cont) (rs : List (Int × Int)) (block : Nat) (data : List Int) : String :=
  match downsampledOver c rs with
  | .error e => e
  | .ok sums =>
    if w.numBoundaries = 0 then "IndexError"
    else showIntList sums ++ " " ++ showIntList (lineTotals block (pixelSums w.iw data 0))

/-- `_default_timestamp_factory`: with no photon-count samples at all the code raises
    `RuntimeError("Can't get pixel timestamps if there are no pixels")` before reconstructing. -/
def guardEmpty (w : Wave) (ans : String) : String := if w.iw = [] then "RuntimeError" else ans

/-- `" T/F #splits"` for the per-pixel mean of a wave: every intermediate integer of
    `timestamp_mean(pixel rows, axis=1)` fits int64, and the number of splits along a row. -/
def pixSuffix (w : Wave) : String :=
  match w.pixelSize with
  | none => ""
  | some k =>
    let rows := rowsOf k w.usedTs
    " " ++ showBool ((tsMeanRowsTrace rows k).all fitsI64) ++ " " ++
      toString (intMeanRowsSplits (rows.map fun r => r.map (· - listMin rows.flatten)) k)

def showFrac (x : Nat × Nat) : String := toString x.1 ++ "/" ++ toString x.2

/-- `"<integer ns> <binary64 seconds as an exact fraction>"` -/
def showTime : Option Int → Option (Nat × Nat) → String
  | some ns, some s => showInt ns ++ " " ++ showFrac s
  | _, _ => "RuntimeError"

def mkWave? (st dt iw : String) : Option Wave := do
  let st ← int? st; let dt ← int? dt; let iw ← natList? iw
  if dt ≤ 0 then none
  else if iw.any (· > 2) then none
  else some ⟨st, dt, iw⟩

def step? (s : String) : Option Step :=
  match s.splitOn ":" with
  | ["s", a, b] => do let a ← optInt? a; let b ← optInt? b; some (.slice a b)
  | ["c", lo, hi] => do let lo ← nat? lo; let hi ← nat? hi; some (.crop lo hi)
  | ["f"] => some .flip
  | ["y"] => some .copy
  | ["k"] => some .copy
  | _ => none

/-- `-` = no step, else steps separated by `,`: `s:a:b` (time slice, `N` = open), `c:lo:hi` (crop to
    pixel rows), `f` (flip), `y` (copy), `k` (calibrate_to_kbp: a copy as far as timing goes) -/
def steps? (s : String) : Option (List Step) :=
  if s == "-" then some [] else (s.splitOn ",").mapM step?

def showTime2 : Option (Option Int) → String
  | some (some ns) => showInt ns ++ " " ++ showFrac (secondsOf ns.toNat)
  | some none => "IndexError"
  | none => "RuntimeError"

/-- the observables of a derived kymograph: `ts` timestamps, `rex`/`rin` line ranges, `lt`/`pt` line
    and pixel time, `sum` channel reduced over the ranges + image column totals, `st` start, stop and the image shape -/
def dkAnswer (d : DK) (p : Nat) (δ : Int) (what : String) (c : C01.Cont) : Option String :=
  match what with
  | "ts" => some (showErr (showListList showInt) "ValueError" (d.timestamps p))
  | "rex" => some (showErr showRanges "ValueError" (d.w.lineRangesRows p d.tsRows δ false))
  | "rin" => some (showErr showRanges "ValueError" (d.w.lineRangesRows p d.tsRows δ true))
  | "lt" => some (showTime2 (d.lineTimeNs p))
  | "pt" => some (showTime2 (d.pixelTimeNs p))
  | "st" => some (toString d.w.start ++ " " ++ toString d.stop ++ " " ++ toString d.imgRows.length ++ " " ++
      toString (numBlocks d.w.numBoundaries p))
  | "sum" =>
    match d.w.lineRangesRows p d.tsRows δ false with
    | none => some "ValueError"
    | some rs =>
      match downsampledOver c rs with
      | .error e => some e
      | .ok sums => some (showIntList sums ++ " " ++ showIntList (d.totals p))
  | _ => none

/-- ops (a wave is `start dt [codes]`):
  `c03.mean [a…]`                 `timestamp_mean`, then `T/F` = every intermediate fits int64, then #splits
  `c03.meanrows w [r;r;…]`        `timestamp_mean(axis=1)`, then `T/F` = every intermediate fits int64, then #splits
  `c03.geom lead k P dead lines tail n`  the info wave of that kymograph geometry, truncated after `n` samples
  `c03.delta dt`                  `int(1e9 / sample_rate)`: exact binary64 model, then Lean's `Float`
  `c03.kts   <wave> P`            `Kymo.timestamps`, then `T/F` = every intermediate of the per-pixel mean fits int64, then #splits
  `c03.krex  <wave> P`            `line_timestamp_ranges()` followed by the δ used
  `c03.krin  <wave> P`            `line_timestamp_ranges(include_dead_time=True)`
  `c03.klt / c03.kdur <wave> P`   line time / duration: integer ns, then the binary64 seconds the code returns as an
                                  exact fraction `num/den`;  `c03.pt <wave>` pixel time, the same
  `c03.ksum  <wave> P [counts] cstart [cdata]`  `channel.downsampled_over(line ranges, np.sum)` then the image column totals
  `c03.sts   <wave> P L flip`     `Scan.timestamps` (frames separated by `|`)
  `c03.srng  <wave> P L incl`     `frame_timestamp_ranges`: pinned answer, then the repaired one
  `c03.ssum  <wave> P L [counts] cstart [cdata]` the same over the (repaired) frame ranges, frame totals
  `c03.seek  <wave>`              `seek_timestamp_next_line`
  `c03.dk what <wave> P pcut steps [counts] cstart [cdata]`  observable `what` of the kymograph after the steps -/
def handle : List String → Option String
  | ["c03.mean", a] => do
    let a ← intList? a
    match tsMean a with
    | none => some "ValueError"
    | some v =>
      some (toString v ++ " " ++ showBool ((tsMeanTrace a).all fitsI64) ++ " " ++
        toString (intMeanSplits (a.map (· - listMin a))))
  | ["c03.meanrows", w, rows] => do
    let w ← nat? w
    let rows ← intListList? rows
    if rows.any (·.length ≠ w) then none
    else
      match tsMeanRows rows w with
      | none => some "ValueError"
      | some v =>
        some (showIntList v ++ " " ++ showBool ((tsMeanRowsTrace rows w).all fitsI64) ++ " " ++
          toString (intMeanRowsSplits (rows.map fun r => r.map (· - listMin rows.flatten)) w))
  | ["c03.geom", lead, k, p, dead, lines, tail, trunc] => do
    let lead ← nat? lead; let k ← nat? k; let p ← nat? p; let dead ← nat? dead
    let lines ← nat? lines; let tail ← nat? tail; let trunc ← nat? trunc
    if k = 0 then none else some (showList toString ((geomKymo lead k p dead lines tail).take trunc))
  | ["c03.delta", dt] => do
    let dt ← int? dt
    if dt ≤ 0 then none else some (toString (deltaTs dt) ++ " " ++ toString (deltaTsFloat dt))
  | ["c03.kts", st, dt, iw, p] => do
    let w ← mkWave? st dt iw; let p ← nat? p
    if p = 0 then none
    else
      match w.kymoTimestamps p with
      | none => some (guardEmpty w "ValueError")
      | some img => some (guardEmpty w (showListList showInt img ++ pixSuffix w))
  | ["c03.krex", st, dt, iw, p] => do
    let w ← mkWave? st dt iw; let p ← nat? p
    if p = 0 then none
    else some (guardEmpty w (showErr showRanges "ValueError" (w.lineRangesExcl p (deltaTs w.dt))) ++ " " ++ toString (deltaTs w.dt))
  | ["c03.krin", st, dt, iw, p] => do
    let w ← mkWave? st dt iw; let p ← nat? p
    if p = 0 then none else some (guardEmpty w (showRanges2 (w.lineRangesInclFixed p (deltaTs w.dt))))
  | ["c03.klt", st, dt, iw, p] => do
    let w ← mkWave? st dt iw; let p ← nat? p
    if p = 0 then none else some (showTime (w.lineTimeNs p) (w.lineTimeSec p))
  | ["c03.kdur", st, dt, iw, p] => do
    let w ← mkWave? st dt iw; let p ← nat? p
    if p = 0 then none
    else if w.numBoundaries = 0 ∧ (w.lineTimeNs p).isSome then some "IndexError"
    else some (showTime (w.durationNs p) (w.durationSec p))
  | ["c03.pt", st, dt, iw] => do
    let w ← mkWave? st dt iw
    some (showTime w.pixelTimeNs w.pixelTimeSec)
  | ["c03.ksum", st, dt, iw, p, data, cst, cdata] => do
    let w ← mkWave? st dt iw; let p ← nat? p; let data ← intList? data
    let cst ← int? cst; let cdata ← intList? cdata
    if p = 0 ∨ data.length ≠ w.iw.length then none
    else
      match w.lineRangesExcl p (deltaTs w.dt) with
      | none => some (guardEmpty w "ValueError")
      | some rs => some (guardEmpty w (sumAnswer w ⟨cst, w.dt, cdata⟩ rs p data))
  | ["c03.sts", st, dt, iw, p, l, flip] => do
    let w ← mkWave? st dt iw; let p ← nat? p; let l ← nat? l; let flip ← bool? flip
    if p < 2 ∨ l < 2 then none else some (guardEmpty w (showErr show3 "ValueError" (w.scanTimestamps p l flip)))
  | ["c03.srng", st, dt, iw, p, l, incl] => do
    let w ← mkWave? st dt iw; let p ← nat? p; let l ← nat? l; let incl ← bool? incl
    if p < 2 ∨ l < 2 then none
    else some (guardEmpty w (showRanges2 (w.frameRangesPinned p l incl (deltaTs w.dt))) ++ " " ++
      guardEmpty w (showRanges2 (w.frameRanges p l incl (deltaTs w.dt))))
  | ["c03.ssum", st, dt, iw, p, l, data, cst, cdata] => do
    let w ← mkWave? st dt iw; let p ← nat? p; let l ← nat? l; let data ← intList? data
    let cst ← int? cst; let cdata ← intList? cdata
    if p < 2 ∨ l < 2 ∨ data.length ≠ w.iw.length then none
    else
      match w.frameRanges p l false (deltaTs w.dt) with
      | some (some rs) => some (guardEmpty w (sumAnswer w ⟨cst, w.dt, cdata⟩ rs (l * p) data))
      | some none => some "IndexError"
      | none => some (guardEmpty w "ValueError")
  | ["c03.seek", st, dt, iw] => do
    let w ← mkWave? st dt iw
    some (showErr showInt "ValueError" w.seekNextLine)
  | ["c03.dk", what, st, dt, iw, p, pcut, steps, data, cst, cdata] => do
    let w ← mkWave? st dt iw; let p ← nat? p; let pcut ← nat? pcut; let steps ← steps? steps
    let data ← intList? data; let cst ← int? cst; let cdata ← intList? cdata
    if p = 0 ∨ data.length ≠ w.iw.length ∨ w.iw = [] then none
    else
      let δ := deltaTs w.dt
      match (DK.init w data p pcut).bind (·.run p δ steps) with
      | .error e => some e
      | .ok d => dkAnswer d p δ what ⟨cst, w.dt, cdata⟩
  | _ => none

end Verif.C03
