/-
  C08 — tracking invariants: executable model (Mathlib-free).

  Mirrors the ALGORITHM of
    lumicks/pylake/kymotracker/detail/trace_line_2d.py   points_to_line_segments / extend_line /
                                                        append_next_point  (greedy linker)
    lumicks/pylake/kymotracker/detail/scoring_functions.py  kymo_diff_score / build_score_matrix
    lumicks/pylake/kymotracker/detail/peakfinding.py     KymoPeaks.__init__ (grouping into frames),
                                                        the `rect` mask of find_kymograph_peaks,
                                                        _sum_track_signal
    lumicks/pylake/kymotracker/kymotracker.py            _to_pixel_rect, parameter conversion and
                                                        validation of track_greedy
    lumicks/pylake/kymotracker/kymotrack.py              seconds / position / coordinate_idx / duration

  The linker is a state machine over per-frame `unassigned` flag arrays.  It is generic over the
  peak type `P`, the score type `α` (`none` = `-inf` = "not a candidate") and the key type `κ` used
  to order the starting points; the driver executes it at `Float` with the cone score of
  `build_score_matrix`.
-/
import Verif.Py
import Verif.Proto
import Verif.Num

namespace Verif.C08
open Verif.Py

/-- a detected peak is addressed by (frame index, index inside the frame's arrays) -/
abbrev Node := Nat × Nat

/-- everything the linker is parametrised by -/
structure Params (P α κ : Type) where
  /-- `score tipFrame tip candFrame cand`: one entry of `build_score_matrix([line], times, coords)`;
      `none` stands for `-inf` -/
  score : Nat → P → Nat → P → Option α
  /-- strict "greater than" used by `np.argmax` (first maximum wins) -/
  gt : α → α → Bool
  /-- `-frame.peak_amplitudes * frame.unassigned` for one peak -/
  key : P → Bool → κ
  /-- `≤` on keys used by `np.argsort` -/
  kle : κ → κ → Bool
  /-- `window` (a Python int; values ≤ 0 are not rejected by the code) -/
  window : Int

/-! ### the `unassigned` flags -/

/-- `peaks.frames[f].unassigned[j]` (out of range reads as "not available") -/
def isUn (un : List (List Bool)) (f j : Nat) : Bool := (un.getD f []).getD j false

/-- `peaks.frames[f].unassigned[j] = False` -/
def assign (un : List (List Bool)) (f j : Nat) : List (List Bool) := un.modify f (fun fr => fr.set j false)

/-- `peaks.frames[f].coordinates[j]` etc. -/
def peakAt {P} (peaks : List (List P)) (n : Node) : Option P := (peaks.getD n.1 [])[n.2]?

/-! ### append_next_point -/

/-- `candidate_idx = np.where(frame.unassigned)` with the peaks at those indices -/
def candidates {P} (frP : List P) (frU : List Bool) : List (Nat × P) :=
  (frP.zipIdx.filter (fun x => frU.getD x.2 false)).map (fun x => (x.2, x.1))

/-- `np.argmax` over the score row followed by `not np.isinf(score[selected])`:
    the first candidate with the largest finite score, `none` when every entry is `-inf`. -/
def argmaxFirst {P α} (gt : α → α → Bool) :
    List (Nat × P × Option α) → Option (Nat × P × α) → Option (Nat × P × α)
  | [], best => best
  | (_, _, none) :: rest, best => argmaxFirst gt rest best
  | (j, p, some s) :: rest, none => argmaxFirst gt rest (some (j, p, s))
  | (j, p, some s) :: rest, some (bj, bp, bs) =>
    if gt s bs then argmaxFirst gt rest (some (j, p, s)) else argmaxFirst gt rest (some (bj, bp, bs))

/-- `append_next_point(line, frame, score_fun)`: the index (and peak) that is appended, if any -/
def appendNext {P α κ} (pr : Params P α κ) (tipF : Nat) (tip : P) (fi : Nat) (frP : List P)
    (frU : List Bool) : Option (Nat × P × α) :=
  argmaxFirst pr.gt ((candidates frP frU).map fun c => (c.1, c.2, pr.score tipF tip fi c.2)) none

/-! ### extend_line -/

/-- `extend_line`: walk over the frames `fis` (= `peaks.frames[starting_frame:]`), `miss` is
    `frames_without_peak`; the line is kept latest-first. -/
def extend {P α κ} (pr : Params P α κ) (peaks : List (List P)) :
    List Nat → List (List Bool) → Nat → P → Int → List Node → List (List Bool) × List Node
  | [], un, _, _, _, line => (un, line)
  | fi :: fis, un, tipF, tip, miss, line =>
    match appendNext pr tipF tip fi (peaks.getD fi []) (un.getD fi []) with
    | some (j, p, _) =>
      -- found: frames_without_peak = 0, then the `>= window` test
      if (0 : Int) ≥ pr.window then (assign un fi j, (fi, j) :: line)
      else extend pr peaks fis (assign un fi j) fi p 0 ((fi, j) :: line)
    | none =>
      if miss + 1 ≥ pr.window then (un, line)
      else extend pr peaks fis un tipF tip (miss + 1) line

/-! ### points_to_line_segments -/

/-- insertion into a sorted list, before the first element that is not smaller -/
def insertBy {β} (le : β → β → Bool) (x : β) : List β → List β
  | [] => [x]
  | y :: ys => if le x y then x :: y :: ys else y :: insertBy le x ys

/-- stable insertion sort (structural recursion, so that `decide` can evaluate the linker) -/
def isort {β} (le : β → β → Bool) (l : List β) : List β := l.foldr (insertBy le) []

/-- `np.argsort(keys)` (stable; NumPy's default sort is not, generators keep keys distinct) -/
def argsort {κ} (kle : κ → κ → Bool) (keys : List κ) : List Nat :=
  (isort (fun a b => kle a.1 b.1) keys.zipIdx).map (·.2)

/-- the loop `for starting_point in np.argsort(...)` of one frame; finished lines are pushed
    (in time order) on `acc`, latest line first -/
def startLoop {P α κ} (pr : Params P α κ) (peaks : List (List P)) (fi : Nat) :
    List Nat → List (List Bool) → List (List Node) → List (List Bool) × List (List Node)
  | [], un, acc => (un, acc)
  | j :: js, un, acc =>
    match (peaks.getD fi [])[j]? with
    | some p =>
      if isUn un fi j then
        let r := extend pr peaks (List.range' (fi + 1) (peaks.length - (fi + 1))) (assign un fi j) fi p 0 [(fi, j)]
        startLoop pr peaks fi js r.1 (r.2.reverse :: acc)
      else startLoop pr peaks fi js un acc
    | none => startLoop pr peaks fi js un acc

/-- the order in which the peaks of frame `fi` are tried as starting points -/
def startOrder {P α κ} (pr : Params P α κ) (peaks : List (List P)) (un : List (List Bool)) (fi : Nat) :
    List Nat :=
  argsort pr.kle ((peaks.getD fi []).zipIdx.map fun x => pr.key x.1 (isUn un fi x.2))

/-- the outer loop `for frame in peaks.frames` -/
def linkFrom {P α κ} (pr : Params P α κ) (peaks : List (List P)) :
    List Nat → List (List Bool) → List (List Node) → List (List Bool) × List (List Node)
  | [], un, acc => (un, acc)
  | fi :: fis, un, acc =>
    let r := startLoop pr peaks fi (startOrder pr peaks un fi) un acc
    linkFrom pr peaks fis r.1 r.2

/-- `peaks.reset_assignment()` -/
def allUn {P} (peaks : List (List P)) : List (List Bool) := peaks.map (·.map fun _ => true)

/-- `points_to_line_segments(peaks, model, window, sigma_cutoff)`: the tracks in the order they are
    returned, each a list of (frame, peak index) in time order -/
def link {P α κ} (pr : Params P α κ) (peaks : List (List P)) : List (List Node) :=
  (linkFrom pr peaks (List.range peaks.length) (allUn peaks) []).2.reverse

/-! ### KymoPeaks.__init__: grouping detections into frames -/

/-- `for current_frame in arange(max_frame + 1): where(time >= f and time < f + 1)` for integer times -/
def toFrames {P} (dets : List (Nat × P)) : List (List P) :=
  match (dets.map (·.1)).max? with
  | none => []
  | some m => (List.range (m + 1)).map fun f => (dets.filter (fun d => d.1 == f)).map (·.2)

/-! ### the cone score (generic over `RealLike`, executed at `Float`) -/
section cone
variable {α : Type} [RealLike α]

/-- `kymo_diff_score` + one entry of `build_score_matrix`:
    `mu = x + vel·dt`, `sigma_t = sigma + sd·sqrt(dt)`; inside the open cone
    `mu − cutoff·sigma_t < c < mu + cutoff·sigma_t` the score is `−((c − mu)/sigma_t)²`, else `-inf`. -/
def coneScore (vel sigma sd cutoff x dt c : α) : Option α :=
  let mu := x + vel * dt
  let sg := sigma + sd * RealLike.sqrt dt
  if RealLike.lt (mu - cutoff * sg) c && RealLike.lt c (mu + cutoff * sg) then
    some (-(RealLike.sq ((c - mu) / sg)))
  else none

/-- `kymo_score(vel, sigma, diffusion)`: `sigma_diffusion = sqrt(2·diffusion)` -/
def sigmaDiffusion (diffusion : α) : α := RealLike.sqrt (2.0 * diffusion)

/-- parameter conversion of `track_greedy` (physical units → pixels/lines) -/
def velocityPixels (velocity lineTime pixelSize : α) : α := velocity * lineTime / pixelSize
def diffusionPixels (diffusion lineTime pixelSize : α) : α := diffusion / (pixelSize * pixelSize / lineTime)
def sigmaPixels (sigma pixelSize : α) : α := sigma / pixelSize
end cone

structure FPeak where
  coord : Float
  amp : Float

def floatParams (window : Int) (vel sigma diffusion cutoff : Float) : Params FPeak Float Float where
  score := fun tf tip cf cand =>
    coneScore vel sigma (sigmaDiffusion diffusion) cutoff tip.coord (Float.ofNat cf - Float.ofNat tf) cand.coord
  gt := fun a b => a > b
  key := fun p u => (-p.amp) * (if u then 1.0 else 0.0)
  kle := fun a b => a ≤ b
  window := window

/-! ### rectangle (`_to_pixel_rect` and the mask in `find_kymograph_peaks`) -/

/-- Python `int(x)` on an exact rational: truncation toward zero -/
def pyInt (r : Rat) : Int := if r < 0 then -((-r).floor) else r.floor

structure PixelRect where
  t0 : Int
  p0 : Int
  t1 : Int
  p1 : Int
deriving DecidableEq, Repr

/-- `_to_pixel_rect(((s0,x0),(s1,x1)), pixelsize, line_time_seconds)` -/
def toPixelRect (lineTime pixelSize s0 x0 s1 x1 : Rat) : PixelRect :=
  ⟨pyInt (s0 / lineTime), pyInt (x0 / pixelSize), pyInt (s1 / lineTime), pyInt (x1 / pixelSize)⟩

/-- one entry of `mask = (position >= p0) & (position < p1) & (time >= t0) & (time < t1)` -/
def rectMask (r : PixelRect) (d : Nat × Rat) : Bool :=
  decide ((r.p0 : Rat) ≤ d.2) && decide (d.2 < (r.p1 : Rat)) && decide (r.t0 ≤ (d.1 : Int)) && decide ((d.1 : Int) < r.t1)

/-- boolean-mask indexing `a[mask]` -/
def applyMask {β} : List β → List Bool → List β
  | x :: xs, m :: ms => if m then x :: applyMask xs ms else applyMask xs ms
  | _, _ => []

/-- `position[mask], time[mask]` with `mask` computed from the whole arrays -/
def rectFilter (r : PixelRect) (dets : List (Nat × Rat)) : List (Nat × Rat) :=
  applyMask dets (dets.map (rectMask r))

/-! ### photon counts: `_sum_track_signal` -/

/-- `np.sum(image[max(int(c + offset) - w, 0) : int(c + offset) + w + 1, t])` for one column -/
def sumWindowAt (col : List Int) (w k : Int) : Int := (pySlice col (max (k - w) 0) (k + w + 1)).sum

def sumWindow (col : List Int) (w : Int) (c offset : Rat) : Int := sumWindowAt col w (pyInt (c + offset))

/-! ### units (`KymoTrack.seconds/position/coordinate_idx/duration`) -/

def seconds (lineTime : Rat) (timeIdx : List Int) : List Rat := timeIdx.map fun (i : Int) => lineTime * (i : Rat)
def position (pixelSize : Rat) (coordIdx : List Rat) : List Rat := coordIdx.map fun c => c * pixelSize
def coordinateIdx (pixelSize : Rat) (pos : List Rat) : List Rat := pos.map fun x => x / pixelSize
/-- `seconds[-1] - seconds[0]` (IndexError on an empty track) -/
def duration (lineTime : Rat) (timeIdx : List Int) : Option Rat :=
  match (seconds lineTime timeIdx).getLast?, (seconds lineTime timeIdx).head? with
  | some l, some f => some (l - f)
  | _, _ => none

/-! ### parameter validation of `track_greedy` (in the order of the code) -/

/-- `some err` for the first failing check, `none` when tracking proceeds.
    `bound = np.nextafter(3·pixelsize, 0)` is computed by the caller (a double). -/
def validate (trackWidth bound pixelThreshold diffusion : Rat) : Option String :=
  if trackWidth < bound then some "ValueError"
  else if pixelThreshold ≤ 0 then some "ValueError"
  else if diffusion < 0 then some "ValueError"
  else none

/-- `_to_half_kernel_size`: `np.ceil(width / pixelsize).astype(int) // 2` — a decision the code takes on
    doubles, so the model takes it on the same doubles -/
def halfKernelSize (width pixelSize : Float) : Int :=
  Py.floorDiv (Float.ceil (width / pixelSize)).toInt64.toInt 2

/-! ### editing tracks: `KymoTrack.interpolate`, `KymoTrack._split`, `KymoTrackGroup._split_track`,
    `KymoTrackGroup._merge_tracks`, `filter_tracks`

  A track is its list of (scan-line index, pixel coordinate) points; a group is a list of tracks. -/

abbrev Track := List (Int × Rat)

/-- `track.time_idx` -/
def timesOf (tr : Track) : List Int := tr.map (·.1)

/-- `np.interp(x, xp, fp)` for one abscissa: the segment `xp[j] ≤ x < xp[j+1]` is found by walking over the
    points; left of the first point `fp[0]`, right of (and at) the last point `fp[-1]`, exactly on a point its
    value, inside a segment `slope·(x − xp[j]) + fp[j]` with `slope = (fp[j+1] − fp[j])/(xp[j+1] − xp[j])`. -/
def interpAt (x : Int) : Int × Rat → Track → Rat
  | p, [] => p.2
  | p, q :: rest =>
    if x < q.1 then
      (if x ≤ p.1 then p.2 else (q.2 - p.2) / ((q.1 - p.1 : Int) : Rat) * ((x - p.1 : Int) : Rat) + p.2)
    else interpAt x q rest

/-- `KymoTrack.interpolate`: `arange(int(min(time_idx)), int(max(time_idx)) + 1)` and `np.interp` at those lines
    (`np.min` of an empty track raises; the protocol answers `ValueError` there) -/
def interpolate : Track → Track
  | [] => []
  | p :: rest =>
    let lo := (timesOf rest).foldl min p.1
    let hi := (timesOf rest).foldl max p.1
    (List.range (hi - lo + 1).toNat).map fun (k : Nat) => (lo + (k : Int), interpAt (lo + (k : Int)) p rest)

/-- `KymoTrack._split(node)`: `node = clip(node, 0, len)`, `[:node]` and `[node:]`, refused when one is empty -/
def splitAt (tr : Track) (node : Int) : Except String (Track × Track) :=
  let n := (min (max node 0) (tr.length : Int)).toNat
  if (tr.take n).isEmpty || (tr.drop n).isEmpty then .error "ValueError" else .ok (tr.take n, tr.drop n)

/-- `KymoTrackGroup._split_track(track, split_node, min_length)` with the track given by its index in the group:
    the halves that are long enough are appended, the track is removed -/
def splitTrack (g : List Track) (i : Nat) (node minLen : Int) : Except String (List Track) :=
  match g[i]? with
  | none => .error "ValueError"
  | some tr =>
    match splitAt tr node with
    | .error e => .error e
    | .ok (a, b) => .ok (g.eraseIdx i ++ [a, b].filter fun t => decide (minLen ≤ (t.length : Int)))

/-- `KymoTrackGroup._merge_tracks(starting_track, starting_node, ending_track, ending_node)` with the tracks given
    by their indices in the group and nodes `0 ≤ node < len`: refused for equal line indices; the earlier node
    becomes the start; `first_half = [: start + 1]`, `last_half = [end :]`; the result replaces the starting track,
    the ending track is removed when it is another one -/
def mergeTracks (g : List Track) (i sn j en : Nat) : Except String (List Track) :=
  match g[i]?, g[j]? with
  | some a, some b =>
    match a[sn]?, b[en]? with
    | some ps, some pe =>
      if ps.1 = pe.1 then .error "ValueError"
      else if ps.1 > pe.1 then
        let g' := g.set j (b.take (en + 1) ++ a.drop sn)
        .ok (if j = i then g' else g'.eraseIdx i)
      else
        let g' := g.set i (a.take (sn + 1) ++ b.drop en)
        .ok (if i = j then g' else g'.eraseIdx j)
    | _, _ => .error "IndexError"
  | _, _ => .error "RuntimeError"

/-- the test of `filter_tracks`: `len(track) >= minimum_length and track.duration >= minimum_duration`
    (the line time is that of the track's own kymograph) -/
def keepTrack (minLen : Int) (minDur lt : Rat) (tr : Track) : Bool :=
  decide (minLen ≤ (tr.length : Int)) &&
    (match duration lt (timesOf tr) with
     | some d => decide (minDur ≤ d)
     | none => false)

/-- `filter_tracks(tracks, minimum_length, minimum_duration=…)`: the list comprehension -/
def filterTracks (minLen : Int) (minDur : Rat) (g : List (Rat × Track)) : List (Rat × Track) :=
  g.filter fun x => keepTrack minLen minDur x.1 x.2

/-- one editing step on a group whose tracks come from one kymograph -/
inductive EditOp where
  /-- `[t.interpolate() for t in group]`, except the tracks whose index is listed in `skip` -/
  | interpolate (skip : List Nat)
  | split (i : Nat) (node minLen : Int)
  | merge (i sn j en : Nat)
  | filter (minLen : Int) (minDur : Rat)
deriving Repr

def applyOp (lt : Rat) (g : List Track) : EditOp → Except String (List Track)
  | .interpolate skip => .ok (g.zipIdx.map fun x => if skip.contains x.2 then x.1 else interpolate x.1)
  | .split i node minLen => splitTrack g i node minLen
  | .merge i sn j en => mergeTracks g i sn j en
  | .filter minLen minDur => .ok ((filterTracks minLen minDur (g.map fun t => (lt, t))).map (·.2))

/-- a program of editing steps; a refused step (the code raises before it modifies the group) leaves the group as it is -/
def runProgram (lt : Rat) : List EditOp → List Track → List Track
  | [], g => g
  | op :: ops, g =>
    match applyOp lt g op with
    | .ok g' => runProgram lt ops g'
    | .error _ => runProgram lt ops g

/-- the track (line index, coordinate) that the linker's list of nodes stands for -/
def trackOf (peaks : List (List Rat)) (t : List Node) : Track :=
  t.filterMap fun n => (peakAt peaks n).map fun c => ((n.1 : Int), c)

/-! ### centroid refinement without bias correction: `refine_peak_based_on_moment` (the pixel walk with its clamps)
    and `refine_tracks_centroid(..., bias_correction=False)` around it

  The image is given by its scan lines (`cols[t] = image[:, t]`), `n` is the number of pixel rows. -/

/-- a pixel of a scan line, zero outside (`convolve2d(…, "same")` pads with zeros) -/
def pxAt (col : List Int) (i : Int) : Int := if i < 0 then 0 else col.getD i.toNat 0

/-- `m0 = convolve2d(data, ones((2h+1, 1)), "same")[c, t]` -/
def m0At (col : List Int) (h : Nat) (c : Int) : Int :=
  ((List.range (2 * h + 1)).map fun (k : Nat) => pxAt col (c + ((k : Int) - (h : Int)))).sum

/-- `convolve2d(data, dir_kernel, "same")[c, t] = Σ_d d · data[c + d, t]`, `d = −h … h` -/
def m1At (col : List Int) (h : Nat) (c : Int) : Int :=
  ((List.range (2 * h + 1)).map fun (k : Nat) => ((k : Int) - (h : Int)) * pxAt col (c + ((k : Int) - (h : Int)))).sum

/-- `subpixel_offset[c, t] = m1 / (m0 + eps)` -/
def offsetAt (eps : Rat) (col : List Int) (h : Nat) (c : Int) : Rat :=
  (m1At col h c : Rat) / ((m0At col h c : Rat) + eps)

/-- one point of one pass: `coordinates[out_of_bounds] += sign(offsets[out_of_bounds])` where `abs(offset) > 0.5`;
    the flag says whether the point was moved -/
def movePt (eps : Rat) (cols : List (List Int)) (h : Nat) (p : Int × Nat) : Int × Nat × Bool :=
  let off := offsetAt eps (cols.getD p.2 []) h p.1
  if off > 1/2 then (p.1 + 1, p.2, true) else if off < -(1/2) then (p.1 - 1, p.2, true) else (p.1, p.2, false)

/-- the edge cases: `coordinates[coordinates < 0] = 0; coordinates[coordinates >= max] = max − 1` -/
def clampPt (n : Int) (c : Int) : Int := if c < 0 then 0 else if c ≥ n then n - 1 else c

/-- one pass over all points and the number the loop tests: `out_of_bounds.size − sum(low) − sum(high)` -/
def refineIter (eps : Rat) (cols : List (List Int)) (h : Nat) (n : Int) (pts : List (Int × Nat)) :
    List (Int × Nat) × Int :=
  let moved := pts.map (movePt eps cols h)
  let nMoved := (moved.filter fun m => m.2.2).length
  let low := (moved.filter fun m => decide (m.1 < 0)).length
  let high := (moved.filter fun m => decide (m.1 ≥ n)).length
  (moved.map fun m => (clampPt n m.1, m.2.1), (nMoved : Int) - (low : Int) - (high : Int))

/-- `for _ in range(max_iter): … if … == 0: break  else: raise RuntimeError` -/
def refineLoop (eps : Rat) (cols : List (List Int)) (h : Nat) (n : Int) : Nat → List (Int × Nat) → Option (List (Int × Nat))
  | 0, _ => none
  | fuel + 1, pts =>
    let r := refineIter eps cols h n pts
    if r.2 = 0 then some r.1 else refineLoop eps cols h n fuel r.1

/-- `refine_peak_based_on_moment(data, coordinates, time_points, half_kernel_size, bias_correction=False)`:
    refined coordinate, time point and window sum `m0` of every point -/
def refineMoment (eps : Rat) (cols : List (List Int)) (h : Nat) (n : Int) (pts : List (Int × Nat)) :
    Except String (List (Rat × Nat × Int)) :=
  if h < 1 then .error "ValueError"
  else match refineLoop eps cols h n 100 pts with
    | none => .error "RuntimeError"
    | some ps => .ok (ps.map fun p =>
        ((p.1 : Rat) + offsetAt eps (cols.getD p.2 []) h p.1, p.2, m0At (cols.getD p.2 []) h p.1))

/-- `np.round` (halves to the even neighbour) -/
def roundHalfEven (r : Rat) : Int :=
  let f := r.floor
  if r - (f : Rat) < 1/2 then f else if r - (f : Rat) > 1/2 then f + 1 else if f % 2 = 0 then f else f + 1

/-- cut a flat list back into pieces of the given lengths (`coordinate_idx[track_ids == j]`) -/
def regroup {β} : List Nat → List β → List (List β)
  | [], _ => []
  | k :: ks, l => l.take k :: regroup ks (l.drop k)

/-- `refine_tracks_centroid(tracks, track_width, bias_correction=False)` for the tracks of one kymograph:
    interpolate, round to pixels, one joint pixel walk over all points, cut back into tracks -/
def refineTracks (eps : Rat) (cols : List (List Int)) (h : Nat) (n : Int) (g : List Track) : Except String (List Track) :=
  let ig := g.map interpolate
  let pts := ig.flatten.map fun p => (roundHalfEven p.2, p.1.toNat)
  match refineMoment eps cols h n pts with
  | .error e => .error e
  | .ok ps => .ok (regroup (ig.map List.length) (ps.map fun q => ((q.2.1 : Int), q.1)))

/-! ### programs that also refine -/

/-- a step of a program that also refines: an editing step or `refine_tracks_centroid(track_width, bias_correction=False)` -/
inductive Step where
  | edit (op : EditOp)
  | refine (h : Nat)
deriving Repr

def applyStep (eps lt : Rat) (cols : List (List Int)) (n : Int) (g : List Track) : Step → Except String (List Track)
  | .edit op => applyOp lt g op
  | .refine h => refineTracks eps cols h n g

/-- a program of steps; a refused step leaves the group as it is -/
def runSteps (eps lt : Rat) (cols : List (List Int)) (n : Int) : List Step → List Track → List Track
  | [], g => g
  | st :: sts, g =>
    match applyStep eps lt cols n g st with
    | .ok g' => runSteps eps lt cols n sts g'
    | .error _ => runSteps eps lt cols n sts g


/-! ### `merge_close_peaks` (per frame) -/

def absRat (r : Rat) : Rat := if r < 0 then -r else r

/-- `merge_close_peaks`, one frame of (coordinate, amplitude): the indices (into the frame's arrays) that are masked out.
    `sort_order = argsort(coordinates)`; `too_close = where(abs(diff(sorted coordinates)) < minimum_distance)`; of the two
    neighbours the right one goes when it is strictly lower, else the left one; `mask[sort_order[too_close]] = False`. -/
def mergeCloseRemoved (minDist : Rat) (fr : List (Rat × Rat)) : List Nat :=
  let order := argsort (fun (a b : Rat) => decide (a ≤ b)) (fr.map (·.1))
  let sorted := order.filterMap fun i => fr[i]?
  let removeSorted := (sorted.zip sorted.tail).zipIdx.filterMap fun x =>
    if absRat (x.1.2.1 - x.1.1.1) < minDist then some (if x.1.2.2 < x.1.1.2 then x.2 + 1 else x.2) else none
  removeSorted.filterMap fun r => order[r]?

/-- the frame after `merge_close_peaks`: `coordinates[mask]`, `peak_amplitudes[mask]` -/
def mergeCloseFrame (minDist : Rat) (fr : List (Rat × Rat)) : List (Rat × Rat) :=
  (fr.zipIdx.filter fun x => !(mergeCloseRemoved minDist fr).contains x.2).map (·.1)


/-! ### protocol -/
open Verif.Proto

def showTracks (ts : List (List Node)) : String :=
  showListList (fun (n : Node) => toString n.1 ++ ":" ++ toString n.2) ts

def mkFrames (coords amps : List (List Float)) : Option (List (List FPeak)) :=
  if coords.length ≠ amps.length then none
  else (coords.zip amps).mapM fun (c, a) =>
    if c.length ≠ a.length then none else some ((c.zip a).map fun (x, y) => ⟨x, y⟩)

def detPair? (s : String) : Option (Nat × Rat) :=
  match s.splitOn ":" with
  | [t, p] => do
    let t ← nat? t; let p ← rat? p
    some (t, p)
  | _ => none

def showDet (d : Nat × Rat) : String := toString d.1 ++ ":" ++ showRat d.2

def mkGroup (times : List (List Int)) (coords : List (List Rat)) : Option (List Track) :=
  if times.length ≠ coords.length then none
  else (times.zip coords).mapM fun (t, c) => if t.length ≠ c.length then none else some (t.zip c)

def showGroup (g : List Track) : String :=
  showListList showInt (g.map timesOf) ++ " " ++ showListList showRat (g.map fun t => t.map (·.2))

/-- `interp:` / `interp:0,2` (indices left as they are), `split:i:node:minLen`, `merge:i:sn:j:en`, `filter:minLen:minDur` -/
def editOp? (s : String) : Option EditOp :=
  match s.splitOn ":" with
  | ["interp", skip] => do
    let skip ← if skip = "" then some [] else (skip.splitOn ",").mapM nat?
    some (.interpolate skip)
  | ["split", i, node, minLen] => do
    let i ← nat? i; let node ← int? node; let minLen ← int? minLen
    some (.split i node minLen)
  | ["merge", i, sn, j, en] => do
    let i ← nat? i; let sn ← nat? sn; let j ← nat? j; let en ← nat? en
    some (.merge i sn j en)
  | ["filter", minLen, minDur] => do
    let minLen ← int? minLen; let minDur ← rat? minDur
    some (.filter minLen minDur)
  | _ => none

/-- ops:
  `c08.link window vel sigma diffusion cutoff [coords per frame] [amps per frame]`   tracks `[f:j,…;…]`
  `c08.params velocity diffusion sigma lineTime pixelSize`   `[vel_px, diff_px, sigma_px]` (doubles)
  `c08.rect lineTime pixelSize s0 x0 s1 x1`                  `[t0,p0,t1,p1]`
  `c08.rectfilter t0 p0 t1 p1 [t:pos,…]`                     kept detections
  `c08.frames [t:pos,…]`                                     per-frame positions
  `c08.sumwin w [col] c offset`                              `k s(k-1) s(k) s(k+1)`
  `c08.units lineTime pixelSize [idx] [coords]`              seconds | positions | coordinate_idx | duration
  `c08.validate trackWidth bound threshold diffusion`        `ok` or the error
  `c08.halfwidth width pixelSize`
  `c08.edit lineTime <step> [[idx]] [[coords]]`              the group after one editing step, or the error
  `c08.editprog lineTime <step|step|…> [[idx]] [[coords]]`   the group after the program (refused steps skipped)
  `c08.trackof [[coords per frame]] [f:j,…;…]`               the tracks of a linker result as (idx, coordinate)
  `c08.refine eps h n [[scan lines]] [[idx]] [[coords]]`     `refine_tracks_centroid(bias_correction=False)`: the group, or the error
  `c08.steps eps lineTime n [[scan lines]] <step|…> [[idx]] [[coords]]`   program of editing steps and `refine:h` steps
  `c08.mergeclose minDist [[coords per frame]] [[amps per frame]]`   the frames after `merge_close_peaks`
  `c08.moment eps h n [[scan lines]] [c:t,…]`                 pixel walk: `[refined,…] [m0,…]` or the error -/
def handle : List String → Option String
  | ["c08.link", w, vel, sigma, diff, cutoff, coords, amps] => do
    let w ← int? w
    let vel ← float? vel; let sigma ← float? sigma; let diff ← float? diff; let cutoff ← float? cutoff
    let coords ← listListOf? float? coords
    let amps ← listListOf? float? amps
    let frames ← mkFrames coords amps
    some (showTracks (link (floatParams w vel sigma diff cutoff) frames))
  | ["c08.params", velocity, diffusion, sigma, lt, ps] => do
    let velocity ← float? velocity; let diffusion ← float? diffusion; let sigma ← float? sigma
    let lt ← float? lt; let ps ← float? ps
    some (showFloatList [velocityPixels velocity lt ps, diffusionPixels diffusion lt ps, sigmaPixels sigma ps])
  | ["c08.rect", lt, ps, s0, x0, s1, x1] => do
    let lt ← rat? lt; let ps ← rat? ps
    let s0 ← rat? s0; let x0 ← rat? x0; let s1 ← rat? s1; let x1 ← rat? x1
    if lt = 0 ∨ ps = 0 then none
    else
      let r := toPixelRect lt ps s0 x0 s1 x1
      some (showIntList [r.t0, r.p0, r.t1, r.p1])
  | ["c08.rectfilter", t0, p0, t1, p1, dets] => do
    let t0 ← int? t0; let p0 ← int? p0; let t1 ← int? t1; let p1 ← int? p1
    let dets ← listOf? detPair? dets
    some (showList showDet (rectFilter ⟨t0, p0, t1, p1⟩ dets))
  | ["c08.frames", dets] => do
    let dets ← listOf? detPair? dets
    some (showListList showRat (toFrames dets))
  | ["c08.sumwin", w, col, c, off] => do
    let w ← int? w; let col ← intList? col; let c ← rat? c; let off ← rat? off
    let k := pyInt (c + off)
    some (toString k ++ " " ++ toString (sumWindowAt col w (k - 1)) ++ " " ++ toString (sumWindowAt col w k)
      ++ " " ++ toString (sumWindowAt col w (k + 1)))
  | ["c08.units", lt, ps, idx, coords] => do
    let lt ← rat? lt; let ps ← rat? ps; let idx ← intList? idx; let coords ← ratList? coords
    if ps = 0 then none
    else
      let pos := position ps coords
      some (showRatList (seconds lt idx) ++ " " ++ showRatList pos ++ " " ++ showRatList (coordinateIdx ps pos)
        ++ " " ++ (match duration lt idx with | some d => showRat d | none => "IndexError"))
  | ["c08.validate", tw, bound, thr, diff] => do
    let tw ← rat? tw; let bound ← rat? bound; let thr ← rat? thr; let diff ← rat? diff
    some ((validate tw bound thr diff).getD "ok")
  | ["c08.halfwidth", width, ps] => do
    let width ← float? width; let ps ← float? ps
    some (toString (halfKernelSize width ps))
  | ["c08.edit", lt, step, times, coords] => do
    let lt ← rat? lt; let op ← editOp? step
    let times ← listListOf? int? times; let coords ← listListOf? rat? coords
    let g ← mkGroup times coords
    if g.any (·.isEmpty) then some "ValueError"
    else
      match applyOp lt g op with
      | .ok g' => some (showGroup g')
      | .error e => some e
  | ["c08.editprog", lt, steps, times, coords] => do
    let lt ← rat? lt; let ops ← (steps.splitOn "|").mapM editOp?
    let times ← listListOf? int? times; let coords ← listListOf? rat? coords
    let g ← mkGroup times coords
    if g.any (·.isEmpty) then some "ValueError"
    else some (showGroup (runProgram lt ops g))
  | ["c08.trackof", coords, nodes] => do
    let coords ← listListOf? rat? coords
    let nodes ← listListOf? (fun s => match s.splitOn ":" with
      | [f, j] => do let f ← nat? f; let j ← nat? j; some (f, j)
      | _ => none) nodes
    some (showGroup (nodes.map (trackOf coords)))
  | ["c08.refine", eps, h, n, cols, times, coords] => do
    let eps ← rat? eps; let h ← nat? h; let n ← int? n
    let cols ← listListOf? int? cols
    let times ← listListOf? int? times; let coords ← listListOf? rat? coords
    let g ← mkGroup times coords
    if g.any (·.isEmpty) then some "ValueError"
    else
      match refineTracks eps cols h n g with
      | .ok g' => some (showGroup g')
      | .error e => some e
  | ["c08.steps", eps, lt, n, cols, steps, times, coords] => do
    let eps ← rat? eps; let lt ← rat? lt; let n ← int? n
    let cols ← listListOf? int? cols
    let sts ← (steps.splitOn "|").mapM fun s =>
      match s.splitOn ":" with
      | ["refine", h] => (nat? h).map Step.refine
      | _ => (editOp? s).map Step.edit
    let times ← listListOf? int? times; let coords ← listListOf? rat? coords
    let g ← mkGroup times coords
    if g.any (·.isEmpty) then some "ValueError"
    else some (showGroup (runSteps eps lt cols n sts g))
  | ["c08.mergeclose", md, coords, amps] => do
    let md ← rat? md
    let coords ← listListOf? rat? coords; let amps ← listListOf? rat? amps
    if coords.length ≠ amps.length then none
    else
      let frames ← (coords.zip amps).mapM fun (c, a) => if c.length ≠ a.length then none else some (c.zip a)
      let out := frames.map (mergeCloseFrame md)
      some (showListList showRat (out.map fun f => f.map (·.1)) ++ " " ++ showListList showRat (out.map fun f => f.map (·.2)))
  | ["c08.moment", eps, h, n, cols, pts] => do
    let eps ← rat? eps; let h ← nat? h; let n ← int? n
    let cols ← listListOf? int? cols
    let pts ← listOf? (fun s => match s.splitOn ":" with
      | [c, t] => do let c ← int? c; let t ← nat? t; some (c, t)
      | _ => none) pts
    match refineMoment eps cols h n pts with
    | .ok ps => some (showRatList (ps.map (·.1)) ++ " " ++ showIntList (ps.map (·.2.2)))
    | .error e => some e
  | _ => none

end Verif.C08
