/-
  C07 — image-stack frame and ROI indexing.
  Executable model of `ImageStack.__getitem__/_handle_cropping/from_dataset/crop_by_pixels/define_tether/
  num_frames/_get_frame/frame_timestamp_ranges/start/stop` (lumicks/pylake/image_stack.py),
  `TiffStack.get_frame/with_roi/with_tether`, `Roi.crop`, `Tether`, `_frame_timestamps_from_exposure_timestamps`
  (lumicks/pylake/detail/widefield.py), `FrameIndex._time_to_frame_index` (detail/imaging_mixins.py) and the
  window arithmetic of `_kymo_from_image_stack` (kymo.py).
  Mirrors the algorithm of the code — the `(start, stop, step)` triple over the underlying TIFF pages, the
  `slice.indices` normalisation, the sign tests, the ROI re-cropping with negative indices and clipping, the
  cumulative-length page lookup — not the specification (`frames[a:b:c]`, `array[y0:y1, x0:x1]`).
-/
import Verif.Py
import Verif.Proto
import Verif.Num

namespace Verif.C07
open Verif.Py

/-! ### errors -/

/-- The exceptions the anchored code raises.  `empty`/`reverse` are both `NotImplementedError`
    ("Slice is empty" / "Reverse slicing is not supported"). -/
inductive Err where
  | empty
  | reverse
  | index
  | value
deriving Repr, DecidableEq

deriving instance DecidableEq for Except

def Err.show : Err → String
  | .empty => "NotImplementedError/empty"
  | .reverse => "NotImplementedError/reverse"
  | .index => "IndexError"
  | .value => "ValueError"

/-! ### ROI (`Roi`, `Roi.crop`, `Roi.__call__`) -/

/-- Corner coordinates in the raw image: columns `xMin ≤ x < xMax`, rows `yMin ≤ y < yMax`. -/
structure Roi where
  xMin : Int
  xMax : Int
  yMin : Int
  yMax : Int
deriving Repr, DecidableEq

def Roi.width (r : Roi) : Int := r.xMax - r.xMin
def Roi.height (r : Roi) : Int := r.yMax - r.yMin

/-- `Roi(...)` with `__post_init__`: negative corner or `max ≤ min` is a `ValueError`. -/
def Roi.make (x0 x1 y0 y1 : Int) : Except Err Roi :=
  if x0 < 0 ∨ x1 < 0 ∨ y0 < 0 ∨ y1 < 0 then .error .value
  else if x1 ≤ x0 ∨ y1 ≤ y0 then .error .value
  else .ok ⟨x0, x1, y0, y1⟩

/-- One bound of `Roi.crop`: default for `None`, one wrap for a negative value, `np.clip(·, 0, dim)`. -/
def cropBound (dim dflt : Int) (p : Option Int) : Int :=
  let v := p.getD dflt
  let v := if v < 0 then v + dim else v
  min (max v 0) dim

/-- `Roi.crop([x_min, x_max, y_min, y_max])`: crop again, relative to the current ROI. -/
def Roi.crop (r : Roi) (x0 x1 y0 y1 : Option Int) : Except Err Roi :=
  let w := r.width
  let h := r.height
  Roi.make (cropBound w 0 x0 + r.xMin) (cropBound w w x1 + r.xMin)
           (cropBound h 0 y0 + r.yMin) (cropBound h h y1 + r.yMin)

/-- `Roi.__call__`: `data[y_min:y_max, x_min:x_max]` on a raw image given as a list of rows. -/
def Roi.apply {α} (r : Roi) (raw : List (List α)) : List (List α) :=
  (pySlice raw r.yMin r.yMax).map fun row => pySlice row r.xMin r.xMax

/-- NumPy `img[y0:y1, x0:x1]` (either bound may be `None`). -/
def pySlice2 {α} (img : List (List α)) (x0 x1 y0 y1 : Option Int) : List (List α) :=
  (pySliceOpt img y0 y1).map fun row => pySliceOpt row x0 x1

/-! ### the frame triple -/

/-- `ImageStack` as far as indexing is concerned: `_start_idx, _stop_idx, _step` over the pages of the
    underlying `TiffStack`, and the ROI of that `TiffStack`. -/
structure Stack where
  s0 : Int
  s1 : Int
  st : Int
  roi : Roi
deriving Repr, DecidableEq

/-- `ImageStack.num_frames`: `max(-1, stop - start - 1) // step + 1` (the step is positive in every stack
    the code builds, so `//` is `Int./`). -/
def Stack.numFrames (s : Stack) : Int := (max (-1) (s.s1 - s.s0 - 1)) / s.st + 1

/-- Underlying page index of every visible frame: `__iter__`/`_get_frame` visit
    `_start_idx + i * _step` for `i < num_frames`. -/
def Stack.frames (s : Stack) : List Int :=
  (List.range s.numFrames.toNat).map fun (i : Nat) => s.s0 + (i : Int) * s.st

/-- One bound of `slice.indices(n)` (CPython `PySlice_AdjustIndices`): `lo = 0, hi = n` for a positive
    step and `lo = -1, hi = n - 1` for a negative one. -/
def adjustIndex (n lo hi : Int) (v : Int) : Int :=
  if v < 0 then max (v + n) lo else min v hi

/-- `slice(a, b, c).indices(n)` for `c ≠ 0`: `(start, stop)`. -/
def sliceIndices (a b : Option Int) (c n : Int) : Int × Int :=
  if c > 0 then
    ((a.map (adjustIndex n 0 n)).getD 0, (b.map (adjustIndex n 0 n)).getD n)
  else
    ((a.map (adjustIndex n (-1) (n - 1))).getD (n - 1), (b.map (adjustIndex n (-1) (n - 1))).getD (-1))

/-- `ImageStack.__getitem__` for a slice of frame indices. -/
def Stack.sliceFrames (s : Stack) (a b c : Option Int) : Except Err Stack :=
  let step := c.getD 1
  if step = 0 then .error .value  -- `slice.indices`: "slice step cannot be zero"
  else
    let n := s.numFrames
    let (start, stop) := sliceIndices a b step n
    let ns := s.s0 + s.st * start
    let ne := s.s0 + s.st * stop
    let nstep := s.st * step
    if ne = ns ∨ (ne - ns).sign ≠ nstep.sign then .error .empty
    else if nstep < 0 then .error .reverse
    else .ok { s with s0 := ns, s1 := ne, st := nstep }

/-- `ImageStack.__getitem__` for an integer. -/
def Stack.index (s : Stack) (i : Int) : Except Err Stack :=
  let idx := if i ≥ 0 then i else i + s.numFrames
  let ns := s.s0 + s.st * idx
  if ns < s.s0 ∨ ns ≥ s.s1 then .error .index
  else .ok { s with s0 := ns, s1 := ns + s.st }

/-- `ImageStack.crop_by_pixels` (after the repair of finding F2: the step is passed on). -/
def Stack.cropPixels (s : Stack) (x0 x1 y0 y1 : Option Int) : Except Err Stack :=
  (s.roi.crop x0 x1 y0 y1).map fun r => { s with roi := r }

/-- `crop_by_pixels`/`define_tether` as in the pinned snapshot (finding F2): `from_dataset` is called
    without the step, which therefore falls back to 1. -/
def Stack.cropPixelsUnfixed (s : Stack) (x0 x1 y0 y1 : Option Int) : Except Err Stack :=
  (s.roi.crop x0 x1 y0 y1).map fun r => { s with roi := r, st := 1 }

/-- One entry of an index tuple. -/
inductive Item where
  | int (i : Int)
  | slice (a b c : Option Int)
deriving Repr, DecidableEq

/-- `interpret_crop` of `_handle_cropping`. -/
def interpretCrop : Item → Except Err (Option Int × Option Int)
  | .slice a b c => if c.isSome then .error .index else .ok (a, b)
  | .int i => .ok (some i, some (i + 1))

/-- The frame part of `__getitem__` (after time-like bounds have been turned into indices). -/
def Stack.frameItem (s : Stack) : Item → Except Err Stack
  | .slice a b c => s.sliceFrames a b c
  | .int i => s.index i

/-- `ImageStack.__getitem__` with a tuple `(frames[, rows[, columns]])`: the ROI is cropped first
    (`_handle_cropping`), then the frame arithmetic runs on the original triple. -/
def Stack.getitemTuple (s : Stack) (items : List Item) : Except Err Stack :=
  match items with
  | [] => .error .index
  | f :: rest =>
    if rest.length > 2 then .error .index
    else do
      let rows ← match rest[0]? with
        | some it => interpretCrop it
        | none => pure (none, none)
      let cols ← match rest[1]? with
        | some it => interpretCrop it
        | none => pure (none, none)
      let r ← s.roi.crop cols.1 cols.2 rows.1 rows.2
      let t ← s.frameItem f
      pure { t with roi := r }

/-! ### what the stack shows -/

/-- `ImageStack.get_image()` for one colour channel: `np.stack([frame.data[...] for frame in self])`; frame `i` is page
    `_start_idx + i·_step` (`_get_frame`), cut by `Roi.__call__`.  `raw p` is the stored image of page `p`. -/
def Stack.image {α} (s : Stack) (raw : Int → List (List α)) : List (List (List α)) :=
  s.frames.map fun p => s.roi.apply (raw p)

/-- `ImageStack.shape` without the colour axis: `(num_frames, *self._src._shape)`, `Roi.shape = (y_max - y_min,
    x_max - x_min)`. -/
def Stack.shape (s : Stack) : Int × Int × Int := (s.numFrames, s.roi.height, s.roi.width)

/-! ### pages: files, timestamps -/

/-- `TiffStack.get_frame`: `cumulative_len = cumsum([0] + lens)`, `file = argmax(frame < cumulative_len) - 1`,
    `page = frame - cumulative_len[file]`.  `none` where NumPy's negative indexing would wrap (`file = -1`,
    i.e. `frame` beyond the last page or negative `frame - …`; `ImageStack._get_frame` excludes it). -/
def getFrame (lens : List Nat) (frame : Int) : Option (Nat × Int) :=
  let cum := cumsum (0 :: lens.map Int.ofNat)
  match argmaxFirst (cum.map fun c => if frame < c then 1 else 0) with
  | none => none
  | some k =>
    if k = 0 then none
    else (cum[k - 1]?).map fun c => (k - 1, frame - c)

/-- Timestamps of one TIFF page: the DateTime tag `start:stop` and the stop of the exposure
    (`start + round(1e6 * "Exposure time (ms)")`, or the DateTime stop when the key is absent). -/
structure Page where
  start : Int
  stop : Int
  expStop : Int
deriving Repr, DecidableEq

def pageAt (pages : List Page) (p : Int) : Option Page :=
  if p < 0 then none else pages[p.toNat]?

/-- `_frame_timestamps_from_exposure_timestamps` (legacy Pylake exports); the code raises on an empty
    list (`none`). -/
def legacyRanges (ts : List (Int × Int)) : Option (List (Int × Int)) :=
  match ts.getLast? with
  | none => none
  | some last =>
    let body := (ts.zip (ts.drop 1)).map fun (lead, trail) => (lead.1, trail.1)
    let stop :=
      if ts.length ≥ 2 then
        match ts[ts.length - 2]? with
        | some prev => last.1 + (last.1 - prev.1)
        | none => last.2
      else last.2
    some (body ++ [(last.1, stop)])

/-- `ImageStack.frame_timestamp_ranges(include_dead_time=dead)`; `legacy` = `_legacy_exposure`. -/
def Stack.ranges (s : Stack) (pages : List Page) (dead legacy : Bool) : Option (List (Int × Int)) :=
  let ps := s.frames.filterMap (pageAt pages)
  if ps.length ≠ s.frames.length then none
  else if dead then
    let r := ps.map fun p => (p.start, p.stop)
    if legacy then legacyRanges r else some r
  else some (ps.map fun p => (p.start, p.expStop))

/-- `ImageStack.start` / `.stop`: DateTime start of the first frame, exposure stop of the last. -/
def Stack.start (s : Stack) (pages : List Page) : Option Int :=
  (s.frames.head?.bind (pageAt pages)).map (·.start)
def Stack.stop (s : Stack) (pages : List Page) : Option Int :=
  (s.frames.getLast?.bind (pageAt pages)).map (·.expStop)

/-- First value pylake treats as a timestamp instead of a frame index (2014-01-01 in ns). -/
def firstTimestamp : Int := 1388534400000000000

/-- A bound of a frame slice: `None`, an integer (frame index or timestamp), or the total ns of a time
    string (non-negative: from `start`, negative: from `stop`). -/
inductive Bound where
  | none
  | int (v : Int)
  | rel (ns : Int)
deriving Repr, DecidableEq

/-- `FrameIndex._time_to_frame_index`. -/
def Stack.timeToIndex (s : Stack) (pages : List Page) (isStart : Bool) : Bound → Option (Option Int)
  | .none => some none
  | b => do
    let t ← match b with
      | .int v => some v
      | .rel ns => if ns ≥ 0 then (s.start pages).map (· + ns) else (s.stop pages).map (· + ns)
      | .none => none
    if t < firstTimestamp then some (some t)
    else
      let r ← s.ranges pages false false
      let col := r.map fun x => if isStart then x.1 else x.2
      some (some (searchsortedLeft col t : Nat))

/-- `stack[a:b:c]` with time-like bounds. -/
def Stack.sliceTime (s : Stack) (pages : List Page) (a b : Bound) (c : Option Int) : Option (Except Err Stack) := do
  let a' ← s.timeToIndex pages true a
  let b' ← s.timeToIndex pages false b
  some (s.sliceFrames a' b' c)

/-! ### programs of indexing operations -/

/-- One indexing operation on a stack (the tether lives beside the stack, see `TStack`). -/
inductive Op where
  | frame (f : Item)
  | crop (x0 x1 y0 y1 : Option Int)
  | tuple (items : List Item)
  | time (a b : Bound) (c : Option Int)
deriving Repr, DecidableEq

/-- `none`: a time-like bound could not be resolved (a visible frame that is not a page — never for a stack the code builds). -/
def Stack.applyOp (pages : List Page) (s : Stack) : Op → Option (Except Err Stack)
  | .frame f => some (s.frameItem f)
  | .crop x0 x1 y0 y1 => some (s.cropPixels x0 x1 y0 y1)
  | .tuple items => some (s.getitemTuple items)
  | .time a b c => s.sliceTime pages a b c

/-- A program: the operations one after the other, stopping at the first exception. -/
def Stack.runOps (pages : List Page) : Stack → List Op → Option (Except Err Stack)
  | s, [] => some (.ok s)
  | s, op :: rest =>
    match s.applyOp pages op with
    | none => none
    | some (.error e) => some (.error e)
    | some (.ok s') => Stack.runOps pages s' rest

/-! ### tether geometry (generic over the number type: executed at `Float`, proved at `ℝ`) -/

section tether
variable {α : Type} [RealLike α]

structure Pt (α : Type) where
  x : α
  y : α

/-- `Tether`: the ROI origin (`offsets`) and the end points in raw-image coordinates (`_ends`). -/
structure Tether (α : Type) where
  offX : α
  offY : α
  ends : Option (Pt α × Pt α)

/-- Direction cosines of the tether, its length and centre.  pylake computes
    `theta = arctan2(dy, dx)` and a rotation by `-theta` about the centre; written here with the
    normalised direction `(dx/r, dy/r) = (cos theta, sin theta)`. -/
def tLen (e : Pt α × Pt α) : α :=
  RealLike.sqrt ((e.2.x - e.1.x) * (e.2.x - e.1.x) + (e.2.y - e.1.y) * (e.2.y - e.1.y))
def tCos (e : Pt α × Pt α) : α := (e.2.x - e.1.x) / tLen e
def tSin (e : Pt α × Pt α) : α := (e.2.y - e.1.y) / tLen e
def tCx (e : Pt α × Pt α) : α := (e.1.x + e.2.x) / 2.0
def tCy (e : Pt α × Pt α) : α := (e.1.y + e.2.y) / 2.0

/-- `rot_matrix.warp_coordinates`: rotation by `-theta` about the centre. -/
def rotate (e : Pt α × Pt α) (p : Pt α) : Pt α :=
  ⟨tCx e + tCos e * (p.x - tCx e) + tSin e * (p.y - tCy e),
   tCy e - tSin e * (p.x - tCx e) + tCos e * (p.y - tCy e)⟩

/-- `rot_matrix.invert().warp_coordinates`. -/
def unrotate (e : Pt α × Pt α) (p : Pt α) : Pt α :=
  ⟨tCx e + tCos e * (p.x - tCx e) - tSin e * (p.y - tCy e),
   tCy e + tSin e * (p.x - tCx e) + tCos e * (p.y - tCy e)⟩

/-- `Tether(offsets, points)`: the points are given relative to the ROI origin. -/
def Tether.new (ox oy : α) (pts : Option (Pt α × Pt α)) : Tether α :=
  ⟨ox, oy, pts.map fun (p, q) => (⟨p.x + ox, p.y + oy⟩, ⟨q.x + ox, q.y + oy⟩)⟩

/-- `Tether.ends`: end points in the processed (rotated, cropped) image. -/
def Tether.endsProcessed (t : Tether α) : Option (Pt α × Pt α) :=
  t.ends.map fun e =>
    let a := rotate e e.1
    let b := rotate e e.2
    (⟨a.x - t.offX, a.y - t.offY⟩, ⟨b.x - t.offX, b.y - t.offY⟩)

/-- `Tether.with_new_offsets` (called by `TiffStack.with_roi`). -/
def Tether.withNewOffsets (t : Tether α) (ox oy : α) : Tether α :=
  match t.ends with
  | none => Tether.new ox oy none
  | some e => Tether.new ox oy (some (⟨e.1.x - ox, e.1.y - oy⟩, ⟨e.2.x - ox, e.2.y - oy⟩))

/-- `TiffStack.with_tether`: points are given in the current processed image; an existing tether is
    un-rotated first. -/
def Tether.withTether (t : Tether α) (p q : Pt α) : Tether α :=
  match t.ends with
  | none => Tether.new t.offX t.offY (some (p, q))
  | some e =>
    let un (p : Pt α) : Pt α :=
      let r := unrotate e ⟨p.x + t.offX, p.y + t.offY⟩
      ⟨r.x - t.offX, r.y - t.offY⟩
    Tether.new t.offX t.offY (some (un p, un q))

/-- `ImageStack.define_tether(point1, point2)` on a pixel-calibrated stack: the points are given in image units (µm)
    and divided by `_pixel_calibration_factors` (`cal` µm per pixel on both axes) before `TiffStack.with_tether`. -/
def Tether.defineCal (t : Tether α) (cal : α) (p q : Pt α) : Tether α :=
  t.withTether ⟨p.x / cal, p.y / cal⟩ ⟨q.x / cal, q.y / cal⟩

/-- `plot_tether`: the processed ends in image units (`ends * _pixel_calibration_factors`). -/
def Tether.endsCal (t : Tether α) (cal : α) : Option (Pt α × Pt α) :=
  t.endsProcessed.map fun (a, b) => (⟨a.x * cal, a.y * cal⟩, ⟨b.x * cal, b.y * cal⟩)

/-! ### affine maps (`TransformMatrix`): colour alignment and tether rotation of the pixel data

  `TiffFrame._align_image` warps channel `c` of the raw page with `tether.rot_matrix * alignment_c⁻¹`
  (`TransformMatrix.__mul__` is `np.matmul`, `warp_image(M)` shows the content of raw point `r` at `M r`);
  without alignment the whole page is warped with `tether.rot_matrix` alone; `Roi.__call__` then cuts the window. -/

/-- The 2×3 part `[[a, b, c], [d, e, f]]` of an affine 3×3 matrix with last row `0 0 1`. -/
structure Aff (α : Type) where
  a : α
  b : α
  c : α
  d : α
  e : α
  f : α

/-- `TransformMatrix.warp_coordinates` on one point. -/
def Aff.apply (m : Aff α) (p : Pt α) : Pt α :=
  ⟨m.a * p.x + m.b * p.y + m.c, m.d * p.x + m.e * p.y + m.f⟩

/-- `TransformMatrix.__mul__`: `np.matmul(self.matrix, mat.matrix)`. -/
def Aff.mul (m n : Aff α) : Aff α :=
  ⟨m.a * n.a + m.b * n.d, m.a * n.b + m.b * n.e, m.a * n.c + m.b * n.f + m.c,
   m.d * n.a + m.e * n.d, m.d * n.b + m.e * n.e, m.d * n.c + m.e * n.f + m.f⟩

/-- `TransformMatrix.invert` (`np.linalg.inv` of the 3×3 matrix, written out). -/
def Aff.inv (m : Aff α) : Aff α :=
  let det := m.a * m.e - m.b * m.d
  ⟨m.e / det, (-m.b) / det, (m.b * m.f - m.c * m.e) / det,
   (-m.d) / det, m.a / det, (m.c * m.d - m.a * m.f) / det⟩

def Aff.one : Aff α := ⟨1.0, 0.0, 0.0, 0.0, 1.0, 0.0⟩
def Aff.translation (x y : α) : Aff α := ⟨1.0, 0.0, x, 0.0, 1.0, y⟩

/-- `TransformMatrix.from_alignment(alignment, x_offset, y_offset)`: the Bluelake matrix re-expressed for a ROI whose
    origin differs from the alignment ROI by `(xo, yo)`: `back_translation · original · translation`. -/
def Aff.fromAlignment (m : Aff α) (xo yo : α) : Aff α :=
  (Aff.translation (m.a * xo) (m.e * yo)).mul (m.mul (Aff.translation (-xo) (-yo)))

/-- `TransformMatrix.rotation(theta, center)` for the tether with raw ends `e` (same map as `rotate e`). -/
def rotAff (e : Pt α × Pt α) : Aff α :=
  ⟨tCos e, tSin e, tCx e - tCos e * tCx e - tSin e * tCy e,
   -tSin e, tCos e, tCy e + tSin e * tCx e - tCos e * tCy e⟩

/-- `Tether.rot_matrix` -/
def Tether.rotMatrix (t : Tether α) : Aff α :=
  match t.ends with
  | none => Aff.one
  | some e => rotAff e

/-- The matrix one colour channel of a page is warped with; `alignInv` is `_alignment_matrices[channel]`
    (already inverted), `none` when no alignment is applied (grey data, no metadata, `align=False`). -/
def Tether.frameMatrix (t : Tether α) (alignInv : Option (Aff α)) : Aff α :=
  match alignInv with
  | none => t.rotMatrix
  | some m => t.rotMatrix.mul m

/-- Where the un-tethered, un-cropped image shows the content of raw point `r` of a channel. -/
def shownAt (alignInv : Option (Aff α)) (r : Pt α) : Pt α :=
  match alignInv with
  | none => r
  | some m => m.apply r

/-- The same with the operands of the product swapped (seeded change C07d-m2): rotate the raw channel first, align
    afterwards.  Not used by the model; kept for the witness `align_then_rotate_order_matters`. -/
def Tether.frameMatrixSwapped (t : Tether α) (alignInv : Option (Aff α)) : Aff α :=
  match alignInv with
  | none => t.rotMatrix
  | some m => m.mul t.rotMatrix

/-- Where the content of raw point `r` of a channel shows up in the processed (rotated, cropped) image. -/
def Tether.land (t : Tether α) (alignInv : Option (Aff α)) (r : Pt α) : Pt α :=
  let p := (t.frameMatrix alignInv).apply r
  ⟨p.x - t.offX, p.y - t.offY⟩

end tether

/-! ### kymograph window (`_kymo_from_image_stack`), on the floors of the processed tether ends -/

/-- `x1 y1 x2 y2` are `floor` of the processed tether ends, `w` the half window, `h` the image height:
    the arguments `(xmin, xmax, ymin, ymax)` handed to `crop_by_pixels`, or `ValueError`. -/
def kymoWindowUnfixed (x1 y1 x2 y2 w h : Int) : Except Err (Int × Int × Int × Int) :=
  if y1 ≠ y2 then .error .value
  else if w < 0 then .error .value
  else
    let ymin := y1 - w
    let ymax := y2 + w + 1
    if ymin < 0 ∨ ymax > h then .error .value
    else .ok (x1, x2 + 1, ymin, ymax)

/-- the same after the repair of finding F20 (`/repo` commit "clamp the left edge of the tether window"):
    `xmin = max(floor(x1), 0)` — the code as pinned now.  A tether whose RIGHT end lies left of the (cropped) image too
    still hands a negative `xmax` to `crop_by_pixels` (finding F20b, witness `F20b_witness`). -/
def kymoWindowPinned (x1 y1 x2 y2 w h : Int) : Except Err (Int × Int × Int × Int) :=
  if y1 ≠ y2 then .error .value
  else if w < 0 then .error .value
  else
    let ymin := y1 - w
    let ymax := y2 + w + 1
    if ymin < 0 ∨ ymax > h then .error .value
    else .ok (max x1 0, x2 + 1, ymin, ymax)

/-- the window with both ends kept from wrapping (`xmax = max(floor(x2) + 1, 0)`, proposed repair of F20b); identical to
    `kymoWindowPinned` whenever the right tether end is not left of the image (`kymoWindow_eq_pinned`). -/
def kymoWindow (x1 y1 x2 y2 w h : Int) : Except Err (Int × Int × Int × Int) :=
  if y1 ≠ y2 then .error .value
  else if w < 0 then .error .value
  else
    let ymin := y1 - w
    let ymax := y2 + w + 1
    if ymin < 0 ∨ ymax > h then .error .value
    else .ok (max x1 0, max (x2 + 1) 0, ymin, ymax)

/-- All consecutive differences equal the first one (`np.all(np.diff(x) == np.diff(x)[0])`). -/
def constDiffs : List Int → Bool
  | a :: b :: rest => ((b :: rest).zip rest).all fun (x, y) => y - x == b - a
  | _ => true

/-- The timing checks at the head of `_kymo_from_image_stack` on the exposure ranges: fewer than two frames
    is an (undocumented) `IndexError` of `line_times[0]`; a non-constant frame rate or exposure a `ValueError`. -/
def kymoTiming (ranges : List (Int × Int)) : Except Err Unit :=
  if ranges.length < 2 then .error .index
  else if !constDiffs (ranges.map (·.1)) then .error .value
  else if !(ranges.map fun r => r.2 - r.1).all (· == (ranges.head?.map fun r => r.2 - r.1).getD 0) then .error .value
  else .ok ()

/-- `to_kymo` as far as indexing goes: the stack whose frames/ROI give the kymograph's pixels. -/
def Stack.kymoStack (s : Stack) (x1 y1 x2 y2 w : Int) : Except Err Stack := do
  let (a, b, c, d) ← kymoWindow x1 y1 x2 y2 w s.roi.height
  s.cropPixels (some a) (some b) (some c) (some d)

/-- the pinned code (finding F20): the negative `xmin` wraps around in `crop_by_pixels` -/
def Stack.kymoStackUnfixed (s : Stack) (x1 y1 x2 y2 w : Int) : Except Err Stack := do
  let (a, b, c, d) ← kymoWindowUnfixed x1 y1 x2 y2 w s.roi.height
  s.cropPixels (some a) (some b) (some c) (some d)

/-- the code as pinned now (finding F20b): a negative `xmax` wraps around in `crop_by_pixels` -/
def Stack.kymoStackPinned (s : Stack) (x1 y1 x2 y2 w : Int) : Except Err Stack := do
  let (a, b, c, d) ← kymoWindowPinned x1 y1 x2 y2 w s.roi.height
  s.cropPixels (some a) (some b) (some c) (some d)

/-! ### kymograph content (`_kymo_from_image_stack` after the window has been cut) -/

/-- The head of `_kymo_from_image_stack` on the exposure ranges `frame_timestamp_ranges()`, in the order of the code:
    `line_time = np.diff(starts)[0]` (fewer than two frames: the undocumented `IndexError`), all differences equal to
    it, `exp_time = (stops - starts)[0]`, all exposures equal to it, `start = starts[0]`.
    Answers `(line_time, exposure, start)` in ns. -/
def kymoTimes (ranges : List (Int × Int)) : Except Err (Int × Int × Int) :=
  match ranges with
  | a :: b :: _ =>
    let lt := b.1 - a.1
    if !((ranges.zip (ranges.drop 1)).all fun (x, y) => y.1 - x.1 == lt) then .error .value
    else
      let ex := a.2 - a.1
      if !(ranges.all fun r => r.2 - r.1 == ex) then .error .value
      else .ok (lt, ex, a.1)
  | _ => .error .index

/-- The `reduce` argument of `to_kymo` for the NumPy reducers that combine the rows one after the other:
    `np.sum` (the default), `np.max`, `np.min`. -/
inductive Reduce where
  | sum
  | max
  | min
deriving Repr, DecidableEq

def Reduce.op : Reduce → Int → Int → Int
  | .sum, a, b => a + b
  | .max, a, b => if a < b then b else a
  | .min, a, b => if b < a then b else a

/-- `reduce(window, axis=0)` of the rows of one frame's window: the rows are combined one after the other. -/
def foldRows (red : Reduce) : List (List Int) → List Int
  | [] => []
  | r :: rs => rs.foldl (List.zipWith red.op) r

/-- One line of the kymograph from the window of one frame: `reduce(image, axis=1)` when `half_window > 0`; for
    `half_window = 0` nothing is reduced, the single row is what `get_image()`'s `squeeze` leaves. -/
def kymoLine (red : Reduce) (w : Int) (win : List (List Int)) : List Int :=
  if w > 0 then foldRows red win else win.headD []

/-- `np.swapaxes(image, 0, 1)`: `(time, x) → (x, time)` for `n` positions. -/
def swapAxes (n : Nat) (lines : List (List Int)) : List (List Int) :=
  (List.range n).map fun x => lines.map fun l => l.getD x 0

/-- What `to_kymo` hands to `_kymo_from_array`, for one colour channel. -/
structure Kymo where
  lineTime : Int
  exposure : Int
  start : Int
  image : List (List Int)
deriving Repr, DecidableEq

/-- `ImageStack.to_kymo(half_window = w, reduce = red)` for one colour channel.  `raw p` is the stored image of page `p`,
    `ends` the floors of the processed tether ends (`none`: no tether); `none` = a visible frame is not a page. -/
def Stack.toKymo (s : Stack) (pages : List Page) (raw : Int → List (List Int))
    (ends : Option (Int × Int × Int × Int)) (w : Int) (red : Reduce := .sum) : Option (Except Err Kymo) := do
  let r ← s.ranges pages false false
  match kymoTimes r with
  | .error e => some (.error e)
  | .ok (lt, ex, st) =>
    match ends with
    | none => some (.error .value)
    | some (x1, y1, x2, y2) =>
      match s.kymoStack x1 y1 x2 y2 w with
      | .error e => some (.error e)
      | .ok ks =>
        let lines := ks.frames.map fun p => kymoLine red w (ks.roi.apply (raw p))
        some (.ok ⟨lt, ex, st, swapAxes ks.roi.width.toNat lines⟩)

/-- The synthetic pages of the harness (`builders_tiff.pixel_value`): sample `ch` of `C` of pixel `(row, col)` of page
    `p` of `h × w` pixels is `1 + (((p·h + row)·w + col)·C + ch)`. -/
def encPage (h w C ch : Nat) (p : Int) : List (List Int) :=
  (List.range h).map fun (r : Nat) => (List.range w).map fun (c : Nat) =>
    1 + (((p * (h : Int) + (r : Int)) * (w : Int) + (c : Int)) * (C : Int) + (ch : Int))

/-! ### protocol -/
open Verif.Proto

def showRoi (r : Roi) : String :=
  toString r.xMin ++ "," ++ toString r.xMax ++ "," ++ toString r.yMin ++ "," ++ toString r.yMax

def showRanges (l : List (Int × Int)) : String :=
  showList (fun (p : Int × Int) => toString p.1 ++ ":" ++ toString p.2) l

/-- A tethered stack: indexing state and tether (executed at `Float`). -/
structure TStack where
  stk : Stack
  teth : Tether Float
  /-- `pixelsize_um` once a tether was defined in image units (step `U`): the tether is then reported as `plot_tether`
      draws it, in image units -/
  cal : Option Float := none

def showPt (p : Pt Float) : String := showFloat p.x ++ "," ++ showFloat p.y

def showTether (t : Tether Float) (cal : Option Float := none) : String :=
  match (match cal with | none => t.endsProcessed | some c => t.endsCal c) with
  | none => "none"
  | some (a, b) => showPt a ++ "," ++ showPt b

/-- `ok <frames> <roi> <exposure ranges> <frame ranges> <start> <stop> <tether> nf=<num_frames> shape=<n>x<rows>x<cols>` -/
def showState (t : TStack) (pages : List Page) (legacy : Bool) : String :=
  let s := t.stk
  "ok " ++ showIntList s.frames ++ " " ++ showRoi s.roi ++ " "
    ++ (match s.ranges pages false legacy with | some r => showRanges r | none => "?") ++ " "
    ++ (match s.ranges pages true legacy with | some r => showRanges r | none => "?") ++ " "
    ++ (match s.start pages with | some v => toString v | none => "?") ++ " "
    ++ (match s.stop pages with | some v => toString v | none => "?") ++ " "
    ++ showTether t.teth t.cal
    ++ " nf=" ++ toString s.shape.1 ++ " shape=" ++ toString s.shape.1 ++ "x" ++ toString s.shape.2.1 ++ "x" ++ toString s.shape.2.2

def splitColon (s : String) : List String := s.splitOn ":"

def item? (s : String) : Option Item :=
  match splitColon s with
  | [i] => (int? i).map .int
  | [a, b] => do let a ← optInt? a; let b ← optInt? b; some (.slice a b none)
  | [a, b, c] => do let a ← optInt? a; let b ← optInt? b; let c ← optInt? c; some (.slice a b c)
  | _ => none

def bound? (s : String) : Option Bound :=
  if s == "N" then some .none
  else if s.startsWith "r" then ((s.drop 1).toString.toInt?).map .rel
  else (s.toInt?).map .int

def ofInt (i : Int) : Float := Float.ofInt i
def floorInt (x : Float) : Int := (Float.floor x).toInt64.toInt

def withRoi (t : TStack) (r : Except Err Stack) : Except Err TStack :=
  r.map fun s => ⟨s, t.teth.withNewOffsets (ofInt s.roi.xMin) (ofInt s.roi.yMin), t.cal⟩

/-- The indexing operations of a program token (`s`, `i`, `c`, `g`, `t` of `step`). -/
def op? (tok : String) : Option Op :=
  match tok.splitOn "," with
  | ["s", a, b, c] => do
    let a ← optInt? a; let b ← optInt? b; let c ← optInt? c
    some (.frame (.slice a b c))
  | ["i", k] => (int? k).map fun k => .frame (.int k)
  | ["c", a, b, c, d] => do
    let a ← optInt? a; let b ← optInt? b; let c ← optInt? c; let d ← optInt? d
    some (.crop a b c d)
  | "g" :: items => (items.mapM item?).map .tuple
  | ["t", a, b, c] => do
    let a ← bound? a; let b ← bound? b; let c ← optInt? c
    some (.time a b c)
  | _ => none

/-- One step of a program.
  `s,a,b,c`       frame slice (`N` = None)        `i,k`   integer index
  `c,x0,x1,y0,y1` `crop_by_pixels`                 `u,…`   the same with the pinned (F2) arithmetic
  `g,<item>,<item>,…`   tuple index, items `k` or `a:b` or `a:b:c`
  `t,a,b,c`       frame slice with time-like bounds (`r<ns>` = time string of that many ns)
  `T,x1,y1,x2,y2` `define_tether` (doubles as bit patterns)
  `U,nm,x1,y1,x2,y2` `define_tether` on a stack calibrated with `nm` nm per pixel: points in µm; the tether is reported in µm
  `k,w`           the stack behind `to_kymo(w)` (timing checks, floors of the processed tether ends, window) -/
def step (pages : List Page) (t : TStack) (op : String) : Option (Except Err TStack) :=
  match op.splitOn "," with
  | ["u", a, b, c, d] => do
    let a ← optInt? a; let b ← optInt? b; let c ← optInt? c; let d ← optInt? d
    some (withRoi t (t.stk.cropPixelsUnfixed a b c d))
  | ["T", x1, y1, x2, y2] => do
    let x1 ← float? x1; let y1 ← float? y1; let x2 ← float? x2; let y2 ← float? y2
    some (.ok { t with teth := t.teth.withTether ⟨x1, y1⟩ ⟨x2, y2⟩ })
  | ["U", nm, x1, y1, x2, y2] => do
    let nm ← float? nm; let x1 ← float? x1; let y1 ← float? y1; let x2 ← float? x2; let y2 ← float? y2
    let cal := nm / 1000.0   -- `float(json["Pixel calibration (nm/pix)"]) / 1000`
    some (.ok { t with teth := t.teth.defineCal cal ⟨x1, y1⟩ ⟨x2, y2⟩, cal := some cal })
  | ["k", w] => do
    let w ← int? w
    let r ← t.stk.ranges pages false false
    match kymoTiming r with
    | .error e => some (.error e)
    | .ok () =>
      match t.teth.endsProcessed with
      | none => some (.error .value)
      | some (a, b) =>
        some (withRoi t (t.stk.kymoStack (floorInt a.x) (floorInt a.y) (floorInt b.x) (floorInt b.y) w))
  | _ => do
    -- the indexing operations go through the typed `Op` / `Stack.applyOp`; the ROI-changing ones move the tether origin
    let o ← op? op
    let r ← t.stk.applyOp pages o
    match o with
    | .crop .. => some (withRoi t r)
    | .tuple _ => some (withRoi t r)
    | _ => some (r.map fun s => { t with stk := s })

def runProg (pages : List Page) : TStack → List String → Option (Except Err TStack)
  | t, [] => some (.ok t)
  | t, op :: rest =>
    match step pages t op with
    | none => none
    | some (.error e) => some (.error e)
    | some (.ok t') => runProg pages t' rest

def pages? (starts stops exps : String) : Option (List Page) := do
  let a ← intList? starts; let b ← intList? stops; let c ← intList? exps
  if a.length = b.length ∧ b.length = c.length then
    some ((a.zip (b.zip c)).map fun (x, y, z) => ⟨x, y, z⟩)
  else none

/-- `-` (channel not aligned) or `a00,a01,a02,a10,a11,a12,xoff,yoff`: the Bluelake alignment matrix of a channel and
    the offset of the alignment ROI; answers `_alignment_matrices[channel]` = `from_alignment(…).invert()`. -/
def alignment? (s : String) : Option (Option (Aff Float)) :=
  if s == "-" then some none
  else do
    match ← (s.splitOn ",").mapM float? with
    | [a, b, c, d, e, f, xo, yo] => some (some ((Aff.fromAlignment ⟨a, b, c, d, e, f⟩ xo yo).inv))
    | _ => none

/-- `x,y;x,y;…` -/
def points? (s : String) : Option (List (Pt Float)) :=
  (s.splitOn ";").mapM fun p => do
    match ← (p.splitOn ",").mapM float? with
    | [x, y] => some ⟨x, y⟩
    | _ => none

/-- ops:
  `c07.land <m|m|…> <pts|pts|…> <h> <w> [starts] [stops] [expStops] <legacy> op…`   as `c07.run`; additionally, per
      colour channel (alignment `m`, see `alignment?`), where the content of the raw points `pts` of that channel
      shows up in the final image: `<state> x,y;x,y|x,y;x,y|…`
  `c07.run <h> <w> [starts] [stops] [expStops] <legacy T/F> op…`   run a program on a fresh stack of
      `len starts` pages of `h × w` pixels, answer the final state (or the first error)
  `c07.ops <h> <w> [starts] [stops] [expStops] op…`   a program of indexing operations only (`s`, `i`, `c`, `g`, `t`) through
      the typed `Stack.runOps`: `ok <frames> <roi>` or the first error
  `c07.image <C> <h> <w> [starts] [stops] [expStops] <legacy> op…`   the program as for `c07.run` on pages of the
      harness encoding; answers the pixel values of `get_image()` per stored sample: `image <frame/frame/…>|<sample 1>|…`
  `c07.kymo <C> <h> <w> [starts] [stops] [expStops] <legacy> op… k,<hw>[,sum|max|min]`   the program as for `c07.run` (pages of the
      harness encoding `encPage`, `C` samples per pixel), then `to_kymo(half_window = hw)`:
      `kymo <line time ns> <exposure ns> <start> <image[x][t] of sample 0>|<sample 1>|…` or the error
  `c07.indices a b c n`     `slice(a,b,c).indices(n)` start/stop (self-test of the Python description)
  `c07.page [lens] frame`   `TiffStack.get_frame`: file and page within the file
  `c07.legacy [s…] [e…]`    `_frame_timestamps_from_exposure_timestamps`
  `c07.roi x0,x1,y0,y1 a b c d`   `Roi.crop` on its own -/
def handle : List String → Option String
  | "c07.run" :: h :: w :: starts :: stops :: exps :: legacy :: prog => do
    let h ← nat? h; let w ← nat? w
    let pages ← pages? starts stops exps
    let legacy ← bool? legacy
    let t0 : TStack := ⟨⟨0, pages.length, 1, ⟨0, w, 0, h⟩⟩, Tether.new 0.0 0.0 none, none⟩
    match ← runProg pages t0 prog with
    | .ok t => some (showState t pages legacy)
    | .error e => some e.show
  | "c07.land" :: mats :: pts :: h :: w :: starts :: stops :: exps :: legacy :: prog => do
    let mats ← (mats.splitOn "|").mapM alignment?
    let pts ← (pts.splitOn "|").mapM points?
    if mats.length ≠ pts.length then none
    let h ← nat? h; let w ← nat? w
    let pages ← pages? starts stops exps
    let legacy ← bool? legacy
    let t0 : TStack := ⟨⟨0, pages.length, 1, ⟨0, w, 0, h⟩⟩, Tether.new 0.0 0.0 none, none⟩
    match ← runProg pages t0 prog with
    | .ok t =>
      let landed := (mats.zip pts).map fun (m, ps) => ps.map fun r => t.teth.land m r
      some (showState t pages legacy ++ " " ++ "|".intercalate (landed.map fun ps => ";".intercalate (ps.map showPt)))
    | .error e => some e.show
  | "c07.ops" :: h :: w :: starts :: stops :: exps :: prog => do
    let h ← nat? h; let w ← nat? w
    let pages ← pages? starts stops exps
    let ops ← prog.mapM op?
    match ← Stack.runOps pages ⟨0, pages.length, 1, ⟨0, w, 0, h⟩⟩ ops with
    | .ok s => some ("ok " ++ showIntList s.frames ++ " " ++ showRoi s.roi)
    | .error e => some e.show
  | "c07.image" :: nch :: h :: w :: starts :: stops :: exps :: legacy :: prog => do
    let nch ← nat? nch; let h ← nat? h; let w ← nat? w
    let pages ← pages? starts stops exps
    let _ ← bool? legacy
    let t0 : TStack := ⟨⟨0, pages.length, 1, ⟨0, w, 0, h⟩⟩, Tether.new 0.0 0.0 none, none⟩
    match ← runProg pages t0 prog with
    | .error e => some e.show
    | .ok t =>
      some ("image " ++ "|".intercalate ((List.range nch).map fun ch =>
        "/".intercalate ((t.stk.image (encPage h w nch ch)).map (showListList showInt))))
  | "c07.kymo" :: nch :: h :: w :: starts :: stops :: exps :: legacy :: prog => do
    let nch ← nat? nch; let h ← nat? h; let w ← nat? w
    let pages ← pages? starts stops exps
    let _ ← bool? legacy
    let (hw, red) ← match (prog.getLast?).map (·.splitOn ",") with
      | some ["k", hw] => (int? hw).map fun v => (v, Reduce.sum)
      | some ["k", hw, "sum"] => (int? hw).map fun v => (v, Reduce.sum)
      | some ["k", hw, "max"] => (int? hw).map fun v => (v, Reduce.max)
      | some ["k", hw, "min"] => (int? hw).map fun v => (v, Reduce.min)
      | _ => none
    let t0 : TStack := ⟨⟨0, pages.length, 1, ⟨0, w, 0, h⟩⟩, Tether.new 0.0 0.0 none, none⟩
    match ← runProg pages t0 prog.dropLast with
    | .error e => some e.show
    | .ok t =>
      let ends := t.teth.endsProcessed.map fun (a, b) => (floorInt a.x, floorInt a.y, floorInt b.x, floorInt b.y)
      let ks ← (List.range nch).mapM fun ch => t.stk.toKymo pages (encPage h w nch ch) ends hw red
      match ks with
      | [] => none
      | .error e :: _ => some e.show
      | .ok k :: _ =>
        let imgs := ks.map fun r => match r with
          | .ok k => showListList showInt k.image
          | .error e => e.show
        some ("kymo " ++ toString k.lineTime ++ " " ++ toString k.exposure ++ " " ++ toString k.start ++ " "
          ++ "|".intercalate imgs)
  | ["c07.indices", a, b, c, n] => do
    let a ← optInt? a; let b ← optInt? b; let c ← int? c; let n ← nat? n
    if c = 0 then some "ValueError"
    else
      let (x, y) := sliceIndices a b c n
      some (toString x ++ " " ++ toString y)
  | ["c07.page", lens, frame] => do
    let lens ← natList? lens; let frame ← int? frame
    match getFrame lens frame with
    | some (f, p) => some (toString f ++ " " ++ toString p)
    | none => some "wrap"
  | ["c07.legacy", s, e] => do
    let s ← intList? s; let e ← intList? e
    if s.length ≠ e.length then none
    else match legacyRanges (s.zip e) with
      | some r => some (showRanges r)
      | none => some "IndexError"
  | ["c07.roi", r, a, b, c, d] => do
    let r ← (r.splitOn ",").mapM int?
    let a ← optInt? a; let b ← optInt? b; let c ← optInt? c; let d ← optInt? d
    match r with
    | [x0, x1, y0, y1] =>
      match (Roi.mk x0 x1 y0 y1).crop a b c d with
      | .ok r' => some (showRoi r')
      | .error e => some e.show
    | _ => none
  | _ => none

end Verif.C07
