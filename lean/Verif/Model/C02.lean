/-
  C02 — confocal image reconstruction conserves photon counts.
  Executable model of `reconstruct_image_sum`, `reshape_reconstructed_image`, `round_up`,
  `reconstruct_num_frames` (lumicks/pylake/detail/image.py), `_get_confocal_data`,
  `_default_image_factory`, `ScanMetaData.ordered_axes/scan_order` (detail/confocal.py),
  `Kymo._to_spatial/_reconstruction_shape/shape` (kymo.py) and
  `Scan._to_spatial/_reconstruction_shape/shape/num_frames/lines_per_frame` (scan.py).
  Mirrors the algorithm of the code (cumulative sum of the used samples, differenced at the pixel
  boundaries; zero padding to a whole number of lines/frames; reshape; transpose), not the
  specification.  The specification side (`pixelsSpecAux`, `carry`, `usedSum`) is at the end.
-/
import Verif.Py
import Verif.Proto

namespace Verif.C02
open Verif.Py

/-! ### info-wave codes (`InfowaveCode`) -/

/-- `infowave != InfowaveCode.discard` -/
def isUsed (c : Nat) : Bool := c != 0
/-- `infowave == InfowaveCode.pixel_boundary` -/
def isBoundary (c : Nat) : Bool := c == 2

/-! ### `reconstruct_image_sum` -/

/-- `data[valid_idx]` with `valid_idx = infowave != 0`. -/
def usedData (data : List Int) (iw : List Nat) : List Int :=
  (data.zip iw).filterMap fun x => if isUsed x.2 then some x.1 else none

/-- `subset = infowave[valid_idx]`. -/
def subset (iw : List Nat) : List Nat := iw.filter isUsed

/-- `cumulative[subset == 2]` with `cumulative = np.cumsum(data[valid_idx])`. -/
def pixelEnds (data : List Int) (iw : List Nat) : List Int :=
  ((cumsum (usedData data iw)).zip (subset iw)).filterMap fun x =>
    if isBoundary x.2 then some x.1 else none

/-- `np.diff`. -/
def diff (l : List Int) : List Int := List.zipWith (fun b a => b - a) l.tail l

/-- `np.hstack((pixel_ends[0], np.diff(pixel_ends)))`; `none` = `IndexError` (no pixel boundary). -/
def pixelsCumsum (data : List Int) (iw : List Nat) : Option (List Int) :=
  match pixelEnds data iw with
  | [] => none
  | e :: es => some (e :: diff (e :: es))

/-- Result of a reconstruction: a value or the Python exception the code raises. -/
inductive Res (α : Type) where
  | ok (a : α)
  | err (e : String)
deriving Repr, DecidableEq

/-- The pixel list computed by `reconstruct_image_sum` (size check, cumulative sums). -/
def reconstructSum (data : List Int) (iw : List Nat) : Res (List Int) :=
  if data.length ≠ iw.length then .err "ValueError"
  else match pixelsCumsum data iw with
    | none => .err "IndexError"
    | some px => .ok px

/-! ### `reshape_reconstructed_image` -/

/-- `round_up(size, n) = ceil(size / n) * n`. -/
def roundUp (size n : Nat) : Nat := (size + n - 1) / n * n

/-- `resized = zeros(m); resized[: pixels.size] = pixels`. -/
def padTo (l : List Int) (m : Nat) : List Int := l ++ List.replicate (m - l.length) 0

/-- `reshape(-1, n)` of a flat list: consecutive rows of `n` entries (structural on a fuel that
    starts at the length, so that the kernel can evaluate it). -/
def chunksAux {α} (n : Nat) : Nat → List α → List (List α)
  | 0, _ => []
  | fuel + 1, l => if l.length = 0 then [] else l.take n :: chunksAux n fuel (l.drop n)

def chunks {α} (n : Nat) (l : List α) : List (List α) :=
  if n = 0 then [] else chunksAux n l.length l

/-- `reshape_reconstructed_image(pixels, (P,))`: lines of `P` pixels. -/
def reshapeLines (P : Nat) (px : List Int) : List (List Int) :=
  chunks P (padTo px (roundUp px.length P))

/-- `reshape_reconstructed_image(pixels, (L, P))`: frames of `L` lines of `P` pixels. -/
def reshapeFrames (L P : Nat) (px : List Int) : List (List (List Int)) :=
  chunks L (chunks P (padTo px (roundUp px.length (L * P))))

/-- Transpose of a matrix whose rows have `n` entries. -/
def transposeN (n : Nat) (rows : List (List Int)) : List (List Int) :=
  (List.range n).map fun r => rows.map fun row => row.getD r 0

/-- `Kymo._to_spatial(reshape(pixels, (P,)))`: position as rows, lines (time) as columns. -/
def kymoImage (P : Nat) (px : List Int) : List (List Int) := transposeN P (reshapeLines P px)

/-- `Scan._to_spatial(reshape(pixels, (L, P)))` before the squeeze: the last two axes are swapped
    when the fast axis has the higher physical axis number. -/
def scanFrames (L P : Nat) (flip : Bool) (px : List Int) : List (List (List Int)) :=
  let raw := reshapeFrames L P px
  if flip then raw.map (transposeN P) else raw

/-- `ndarray.squeeze()` on a shape. -/
def squeezeShape (s : List Nat) : List Nat := s.filter (· != 1)

/-! ### `_get_confocal_data` / `_default_image_factory` -/

/-- `photon_count[start:stop]` for a photon stream on the info wave's sample grid that starts `lead`
    samples before it (time-window slicing is the subject of C01). -/
def overlap (n lead : Nat) (data : List Int) : List Int := (data.drop lead).take n

/-- `BaseScan._get_photon_count` for a photon stream on the info wave's grid whose first sample lies
    `lead` samples before (`lead ≥ 0`) or `-lead` samples after (`lead < 0`) the first info-wave sample.
    `none` = the stream starts inside the scan: the code calls `_fix_incorrect_start` (a `Scan` raises
    `RuntimeError`; a `Kymo` drops its first line — that repair is the subject of C19, not modelled here). -/
def photonCount (n : Nat) (lead : Int) (data : List Int) : Option (List Int) :=
  if lead ≥ 0 then some (overlap n lead.toNat data)
  else if (data.take (n - lead.natAbs)).length = 0 then some [] else none

/-- `_get_confocal_data`: when the sizes differ both streams are cut at the earlier stop. -/
def align (data : List Int) (iw : List Nat) : List Int × List Nat :=
  if data.length ≠ iw.length then
    let m := min data.length iw.length
    (data.take m, iw.take m)
  else (data, iw)

/-- The pixels `_default_image_factory` hands to `_to_spatial`; an empty channel is replaced by
    zeros of the info wave's size. -/
def channelPixels (iw : List Nat) (chan : List Int) : Res (List Int) :=
  if chan.length = 0 then reconstructSum (List.replicate iw.length 0) iw
  else reconstructSum (align chan iw).1 (align chan iw).2

/-! ### `ScanMetaData` -/

/-- Stable insertion by key (`sorted(..., key=...)`, `np.argsort`). -/
def insertKey (a : Nat × Nat) : List (Nat × Nat) → List (Nat × Nat)
  | [] => [a]
  | b :: r => if a.1 ≤ b.1 then a :: b :: r else b :: insertKey a r

def sortByKey (l : List (Nat × Nat)) : List (Nat × Nat) := l.foldr insertKey []

/-- Scan axes in scan order (fast first): `(axis number, number of pixels)`. -/
abbrev Axes := List (Nat × Nat)

/-- `_num_pixels = [ax.num_pixels for ax in ordered_axes]`. -/
def numPixels (axes : Axes) : List Nat := (sortByKey axes).map (·.2)

/-- `scan_order = np.argsort([x.axis for x in scan_axes])`. -/
def scanOrder (axes : Axes) : List Nat :=
  (sortByKey (axes.zipIdx.map fun x => (x.1.1, x.2))).map (·.2)

/-- `pixels_per_line = _num_pixels[scan_order[0]]`. -/
def pixelsPerLine (axes : Axes) : Nat := (numPixels axes).getD ((scanOrder axes).getD 0 0) 0
/-- `lines_per_frame = _num_pixels[scan_order[1]]`. -/
def linesPerFrame (axes : Axes) : Nat := (numPixels axes).getD ((scanOrder axes).getD 1 0) 0
/-- `scan_order[0] > scan_order[1]` (the test in `Scan._to_spatial`). -/
def flipAxes (axes : Axes) : Bool := decide ((scanOrder axes).getD 0 0 > (scanOrder axes).getD 1 0)

/-- `reconstruct_num_frames`. -/
def reconstructNumFrames (iw : List Nat) (P L : Nat) : Nat :=
  (iw.count 2 + P * L - 1) / (P * L)

/-- `Scan.num_frames`: the metadata value, or the reconstruction when the metadata says 0. -/
def numFrames (mf : Nat) (iw : List Nat) (P L : Nat) : Nat :=
  if mf = 0 then reconstructNumFrames iw P L else mf

/-- `Scan.shape`. -/
def scanShape (axes : Axes) (mf : Nat) (iw : List Nat) : List Nat :=
  let nf := numFrames mf iw (pixelsPerLine axes) (linesPerFrame axes)
  (if nf > 1 then [nf] else []) ++ (numPixels axes).reverse ++ [3]

/-! ### whole images -/

structure Image where
  shape : List Nat
  flat : List Int
deriving Repr, DecidableEq

def rowLen (rows : List (List Int)) : Nat := (rows.head?.map (·.length)).getD 0

/-- `Kymo.get_image(colour)`. -/
def kymoGetImage (P : Nat) (iw : List Nat) (chan : List Int) : Res Image :=
  match channelPixels iw chan with
  | .err e => .err e
  | .ok px =>
    let img := kymoImage P px
    .ok ⟨[img.length, rowLen img], img.flatten⟩

/-- `Scan.get_image(colour)` (for `P, L ≥ 2`: only the frame axis can be squeezed away). -/
def scanGetImage (axes : Axes) (iw : List Nat) (chan : List Int) : Res Image :=
  let P := pixelsPerLine axes
  let L := linesPerFrame axes
  match channelPixels iw chan with
  | .err e => .err e
  | .ok px =>
    let fr := scanFrames L P (flipAxes axes) px
    let rows := (fr.head?.map (·.length)).getD 0
    let cols := (fr.head?.map rowLen).getD 0
    .ok ⟨squeezeShape [fr.length, rows, cols], fr.flatten.flatten⟩

/-! ### sequences of queries on ONE object: `self.start` and `self._cache`

`BaseScan._get_photon_count` (detail/confocal.py) slices the colour's photon stream with the object's
current `[start, stop)`; an empty slice is "no data".  When the slice starts after `self.start` the
object is repaired (`Kymo._fix_incorrect_start`: `self.start = seek_timestamp_next_line(...)` and
`self._cache = {}`; a `Scan` raises `RuntimeError`).  `ConfocalImage._image` is memoised per colour
through `method_cache` (`cachetools.cachedmethod`: the result is stored in the dict object fetched
BEFORE the method ran, so an image computed by the call that replaced `_cache` is not kept). -/

/-- the used samples of an info wave with their positions: `(code, index)` -/
def usedIdx (iw : List Nat) : List (Nat × Nat) := iw.zipIdx.filter fun x => isUsed x.1

/-- positions of the used samples that directly follow a pixel boundary (`time[pixel_ends + 1]`) -/
def afterBoundary : List (Nat × Nat) → List Nat
  | x :: y :: rest => if x.1 = 2 then y.2 :: afterBoundary (y :: rest) else afterBoundary (y :: rest)
  | _ => []

/-- `pixel_start = time[pixel_ends[:-1] + 1]`: the follower of every boundary but the last one. -/
def pixelStarts (iw : List Nat) : List Nat :=
  let used := usedIdx iw
  let a := afterBoundary used
  match used.getLast? with
  | some (2, _) => a
  | _ => a.dropLast

def diffsI : List Nat → List Int
  | a :: b :: rest => ((b : Int) - (a : Int)) :: diffsI (b :: rest)
  | _ => []

/-- `seek_timestamp_next_line` (detail/image.py) as a sample index into the window it is given:
    the pixel start that follows the first pixel-start distance above `(max + min) / 2`;
    `none` = `ValueError` (`np.max` of an empty array: fewer than three pixel boundaries). -/
def seekNextLine (iw : List Nat) : Option Nat :=
  let ps := pixelStarts iw
  let ds := diffsI ps
  if ds.isEmpty then none
  else
    let thr2 := ds.foldl max (ds.headD 0) + ds.foldl min (ds.headD 0)
    let idx := (ds.findIdx? fun d => decide (2 * d > thr2)).getD 0
    ps[idx + 1]?

/-- Kymograph with `P` pixels per line, or scan with the given axes. -/
inductive Kind
  | kymo (P : Nat)
  | scan (axes : Axes)
deriving Repr

/-- `_to_spatial(reshape_reconstructed_image(pixels, _reconstruction_shape))` with its shape. -/
def imageOfPixels : Kind → Res (List Int) → Res Image
  | _, .err e => .err e
  | .kymo P, .ok px =>
    let img := kymoImage P px
    .ok ⟨[img.length, rowLen img], img.flatten⟩
  | .scan axes, .ok px =>
    let fr := scanFrames (linesPerFrame axes) (pixelsPerLine axes) (flipAxes axes) px
    let rows := (fr.head?.map (·.length)).getD 0
    let cols := (fr.head?.map rowLen).getD 0
    .ok ⟨squeezeShape [fr.length, rows, cols], fr.flatten.flatten⟩

/-- A colour's photon stream on the info wave's sample grid: its first sample lies `lead` samples
    before (`lead ≥ 0`) or `-lead` samples after the first info-wave sample; `data = []` = no channel. -/
structure Stream where
  lead : Int
  data : List Int
deriving Repr, DecidableEq

/-- The mutable part of a confocal object. -/
structure ObjState where
  off : Nat                     -- `self.start` as a sample index into the file's info wave
  gen : Nat                     -- identity of the `_cache` dict (bumped when it is replaced)
  cache : List (Nat × Image)    -- colour ↦ memoised image
deriving Repr, DecidableEq

def ObjState.fresh : ObjState := ⟨0, 0, []⟩

/-- `file.<colour>_photon_count[self.start : self.stop]` for `self.start` = sample `off` of an info wave
    of `n` samples: (distance of the slice's first sample from `self.start`, the samples). -/
def chanSlice (n off : Nat) (s : Stream) : Nat × List Int :=
  let rel : Int := s.lead + (off : Int)
  if rel ≥ 0 then (0, (s.data.drop rel.toNat).take (n - off))
  else (rel.natAbs, s.data.take (n - off - rel.natAbs))

/-- `_get_confocal_data` + `reconstruct_image_sum` for a photon slice whose first sample lies `a` samples
    after the first sample of the info-wave window: both are cut at the earlier stop, never at the
    start, so a slice that starts late (`a > 0`) meets the size check of `reconstruct_image_sum`. -/
def channelPixelsAt (iw : List Nat) (a : Nat) (chan : List Int) : Res (List Int) :=
  if a = 0 ∨ chan.length = 0 then channelPixels iw chan
  else reconstructSum chan (iw.take (a + chan.length))

/-- The image the default factory builds for a colour when `self.start` is sample `off`. -/
def freshImage (k : Kind) (iw : List Nat) (s : Stream) (off : Nat) : Res Image :=
  imageOfPixels k (channelPixelsAt (iw.drop off) (chanSlice iw.length off s).1 (chanSlice iw.length off s).2)

/-- Does the colour's slice start after `self.start` (`timeline_start > self.start`)? -/
def startsLate (n off : Nat) (s : Stream) : Bool :=
  (chanSlice n off s).2.length != 0 && (chanSlice n off s).1 != 0

def isScan : Kind → Bool
  | .scan _ => true
  | .kymo _ => false

/-- `_get_photon_count`: the state it leaves behind, or the exception of `_fix_incorrect_start`. -/
def photonAccess (k : Kind) (iw : List Nat) (s : Stream) (st : ObjState) : Except String ObjState :=
  if startsLate iw.length st.off s then
    if isScan k then .error "RuntimeError"
    else match seekNextLine (iw.drop st.off) with
      | none => .error "ValueError"
      | some d => .ok ⟨st.off + d, st.gen + 1, []⟩
  else .ok st

def lookupImage (c : Nat) (cache : List (Nat × Image)) : Option Image := (cache.find? (·.1 == c)).map (·.2)

/-- `obj.get_image(colour)` = `obj._image(colour)` with its memoisation. -/
def queryColour (k : Kind) (iw : List Nat) (s : Stream) (c : Nat) (st : ObjState) : ObjState × Res Image :=
  match lookupImage c st.cache with
  | some im => (st, .ok im)
  | none =>
    match photonAccess k iw s st with
    | .error e => (st, .err e)
    | .ok st' =>
      match freshImage k iw s st'.off with
      | .err e => (st', .err e)
      | .ok im => (if st'.gen = st.gen then { st' with cache := (c, im) :: st'.cache } else st', .ok im)

abbrev Streams := List Stream

def streamOf (ss : Streams) (c : Nat) : Stream := ss.getD c ⟨0, []⟩

/-- `np.stack([...], axis=-1)` of three images. -/
def stack3 (a b c : Image) : Res Image :=
  if a.shape = b.shape ∧ b.shape = c.shape then
    .ok ⟨a.shape ++ [3], ((a.flat.zip (b.flat.zip c.flat)).map fun x => [x.1, x.2.1, x.2.2]).flatten⟩
  else .err "ValueError"

/-- `get_image("rgb")`: the three colours in turn (the first exception propagates), then the stack. -/
def queryRgb (k : Kind) (iw : List Nat) (ss : Streams) (st : ObjState) : ObjState × Res Image :=
  match queryColour k iw (streamOf ss 0) 0 st with
  | (st, .err e) => (st, .err e)
  | (st, .ok r) =>
    match queryColour k iw (streamOf ss 1) 1 st with
    | (st, .err e) => (st, .err e)
    | (st, .ok g) =>
      match queryColour k iw (streamOf ss 2) 2 st with
      | (st, .err e) => (st, .err e)
      | (st, .ok b) => (st, stack3 r g b)

/-- `Kymo.shape`: the shape of the first colour whose image has a non-zero size (else of the last). -/
def queryShape (k : Kind) (iw : List Nat) (ss : Streams) : List Nat → ObjState → ObjState × Res (List Nat)
  | [], st => (st, .err "UnboundLocalError")
  | c :: cs, st =>
    match queryColour k iw (streamOf ss c) c st with
    | (st, .err e) => (st, .err e)
    | (st, .ok im) =>
      if im.flat.length ≠ 0 ∨ cs.isEmpty then (st, .ok (im.shape ++ [3])) else queryShape k iw ss cs st

/-- One query (`0,1,2` = red, green, blue; `3` = rgb; `4` = `Kymo.shape`) and its printed answer. -/
def query (k : Kind) (iw : List Nat) (ss : Streams) (st : ObjState) (q : Nat) : ObjState × String :=
  if q < 3 then
    let r := queryColour k iw (streamOf ss q) q st
    (r.1, match r.2 with | .err e => e | .ok im => Verif.Proto.showNatList im.shape ++ " " ++ Verif.Proto.showIntList im.flat)
  else if q = 3 then
    let r := queryRgb k iw ss st
    (r.1, match r.2 with | .err e => e | .ok im => Verif.Proto.showNatList im.shape ++ " " ++ Verif.Proto.showIntList im.flat)
  else
    let r := queryShape k iw ss [0, 1, 2] st
    (r.1, match r.2 with | .err e => e | .ok sh => Verif.Proto.showNatList sh)

/-- The state a sequence of queries leaves behind. -/
def stateAfter (k : Kind) (iw : List Nat) (ss : Streams) : ObjState → List Nat → ObjState
  | st, [] => st
  | st, q :: qs => stateAfter k iw ss (query k iw ss st q).1 qs

/-- The answers of a sequence of queries on one object. -/
def runSeq (k : Kind) (iw : List Nat) (ss : Streams) : ObjState → List Nat → List String
  | _, [] => []
  | st, q :: qs => (query k iw ss st q).2 :: runSeq k iw ss (query k iw ss st q).1 qs

/-! ### scans: `Scan.shape` and `Scan.num_frames` among the image queries (round H)

`Scan.num_frames` reads `self._metadata.num_frames`; when that is 0 (continuous scan) it reconstructs the
number of frames from the info wave and STORES it (`self._metadata = self._metadata.with_num_frames(…)`),
so the metadata frame count is part of the object's mutable state.  `Scan.shape` evaluates
`Scan.num_frames`; `get_image` does not. -/

/-- The mutable part of a scan: the metadata frame count (0 = not known yet) and the confocal state. -/
structure ScanState where
  mf : Nat
  obj : ObjState
deriving Repr, DecidableEq

/-- `Scan.num_frames`: (the metadata frame count it leaves behind, the answer). -/
def queryNumFrames (axes : Axes) (iw : List Nat) (mf : Nat) : Nat × Nat :=
  if mf = 0 then
    let nf := reconstructNumFrames iw (pixelsPerLine axes) (linesPerFrame axes)
    (nf, nf)
  else (mf, mf)

/-- `Scan.shape`: `(num_frames, *reversed(_num_pixels), 3)` without the frame axis for a single frame. -/
def queryScanShape (axes : Axes) (iw : List Nat) (mf : Nat) : Nat × List Nat :=
  let r := queryNumFrames axes iw mf
  (r.1, (if r.2 > 1 then [r.2] else []) ++ (numPixels axes).reverse ++ [3])

/-- One query on a scan (`0…3` as `query`; `4` = `Scan.shape`; `5` = `Scan.num_frames`) and its printed answer. -/
def scanQuery (axes : Axes) (iw : List Nat) (ss : Streams) (st : ScanState) (q : Nat) : ScanState × String :=
  if q = 4 then
    let r := queryScanShape axes iw st.mf
    (⟨r.1, st.obj⟩, Verif.Proto.showNatList r.2)
  else if q = 5 then
    let r := queryNumFrames axes iw st.mf
    (⟨r.1, st.obj⟩, toString r.2)
  else
    let r := query (.scan axes) iw ss st.obj q
    (⟨st.mf, r.1⟩, r.2)

/-- The state a sequence of queries leaves behind (scan). -/
def scanStateAfter (axes : Axes) (iw : List Nat) (ss : Streams) : ScanState → List Nat → ScanState
  | st, [] => st
  | st, q :: qs => scanStateAfter axes iw ss (scanQuery axes iw ss st q).1 qs

/-- The answers of a sequence of queries on one scan. -/
def runScanSeq (axes : Axes) (iw : List Nat) (ss : Streams) : ScanState → List Nat → List String
  | _, [] => []
  | st, q :: qs => (scanQuery axes iw ss st q).2 :: runScanSeq axes iw ss (scanQuery axes iw ss st q).1 qs

/-! ### specification side (independent of the cumulative-sum algorithm) -/

/-- One timeline sample: (photon count, info-wave code). -/
abbrev Sample := Int × Nat

/-- Walk the stream once: add used samples to the running pixel, emit it at each boundary. -/
def pixelsSpecAux (acc : Int) : List Sample → List Int
  | [] => []
  | x :: rest =>
    if x.2 = 0 then pixelsSpecAux acc rest
    else if x.2 = 2 then (acc + x.1) :: pixelsSpecAux 0 rest
    else pixelsSpecAux (acc + x.1) rest

def pixelsSpec (data : List Int) (iw : List Nat) : List Int := pixelsSpecAux 0 (data.zip iw)

/-- Counts collected since the last boundary (the unfinished pixel). -/
def carry (acc : Int) : List Sample → Int
  | [] => acc
  | x :: rest =>
    if x.2 = 0 then carry acc rest
    else if x.2 = 2 then carry 0 rest
    else carry (acc + x.1) rest

/-- Total count of the samples that are not flagged as discard. -/
def usedSum (s : List Sample) : Int := ((s.filter fun x => x.2 ≠ 0).map (·.1)).sum

/-- Entry of a 2-D image (0 outside). -/
def at2 (img : List (List Int)) (r c : Nat) : Int := (img.getD r []).getD c 0
/-- Entry of a 3-D image (0 outside). -/
def at3 (img : List (List (List Int))) (f r c : Nat) : Int := at2 (img.getD f []) r c

/-- The samples up to and including the last pixel boundary (trailing samples that are no boundary are
    stripped) — written without reference to the walk. -/
def uptoLastBoundary (s : List Sample) : List Sample :=
  (s.reverse.dropWhile fun x => x.2 != 2).reverse

/-- What the property says the pixel list of a colour is, for ANY photon slice `chan` of the item (absent,
    shorter or longer than the info wave): the walk over the span the two streams share (`zip` stops at the
    earlier end); zeros, one per boundary, for a colour without data; `none` = no pixel boundary there. -/
def colourPixelsSpec (iw : List Nat) (chan : List Int) : Option (List Int) :=
  if chan.length = 0 then (if iw.count 2 = 0 then none else some (List.replicate (iw.count 2) 0))
  else if ((chan.zip iw).map (·.2)).count 2 = 0 then none
  else some (pixelsSpecAux 0 (chan.zip iw))

/-- The image total the property promises (`c02.total`): the total count of the used samples of the shared
    span up to its last boundary; the exception where no image exists. -/
def expectedTotal (iw : List Nat) (chan : List Int) : Res Int :=
  match colourPixelsSpec iw chan with
  | none => .err "IndexError"
  | some _ => .ok (usedSum (uptoLastBoundary (chan.zip iw)))

/-! ### the property's own wording: which samples make up pixel `j` (index form) -/

/-- number of pixel boundaries strictly before sample `i` = the number of the pixel sample `i` lies in -/
def pixelOfSample (iw : List Nat) (i : Nat) : Nat := (iw.take i).count 2

/-- total count of the samples that are not flagged discard and lie in pixel `j` -/
def assignedRaw (data : List Int) (iw : List Nat) (j : Nat) : Int :=
  ((List.range iw.length).map fun i =>
    if iw.getD i 0 ≠ 0 ∧ pixelOfSample iw i = j then data.getD i 0 else 0).sum

/-- pixel `j` in the property's words: the sum of the photon counts of exactly the samples the info wave assigns to
    it (not discarded, `j` boundaries before them), provided the pixel is completed (`j` < number of boundaries) -/
def assignedSum (data : List Int) (iw : List Nat) (j : Nat) : Int :=
  if j < iw.count 2 then assignedRaw data iw j else 0


/-! ### answers computed from scratch (no object state) -/

/-- `get_image("rgb")` as a function of the three colour images. -/
def pureRgb (r g b : Res Image) : Res Image :=
  match r with
  | .err e => .err e
  | .ok r => match g with
    | .err e => .err e
    | .ok g => match b with
      | .err e => .err e
      | .ok b => stack3 r g b

/-- `Kymo.shape` as a function of the colour images. -/
def pureShape (F : Nat → Res Image) : List Nat → Res (List Nat)
  | [] => .err "UnboundLocalError"
  | c :: cs =>
    match F c with
    | .err e => .err e
    | .ok im => if im.flat.length ≠ 0 ∨ cs.isEmpty then .ok (im.shape ++ [3]) else pureShape F cs

def showAnswer : Res Image → String
  | .err e => e
  | .ok im => Verif.Proto.showNatList im.shape ++ " " ++ Verif.Proto.showIntList im.flat

/-- The printed answer to query `q` of an object whose start is sample `off`, computed from scratch:
    what a NEW object with that start answers when `q` is the first thing it is asked. -/
def pureAnswer (k : Kind) (iw : List Nat) (ss : Streams) (off : Nat) (q : Nat) : String :=
  let F := fun c => freshImage k iw (streamOf ss c) off
  if q < 3 then showAnswer (F q)
  else if q = 3 then showAnswer (pureRgb (F 0) (F 1) (F 2))
  else match pureShape F [0, 1, 2] with | .err e => e | .ok sh => Verif.Proto.showNatList sh

/-- The printed answer of a NEW scan (metadata frame count `mf`) to query `q` asked first: the metadata queries are
    answered from the metadata and the info wave alone (`scanShape`, `numFrames`). -/
def scanPureAnswer (axes : Axes) (mf : Nat) (iw : List Nat) (ss : Streams) (q : Nat) : String :=
  if q = 4 then Verif.Proto.showNatList (scanShape axes mf iw)
  else if q = 5 then toString (numFrames mf iw (pixelsPerLine axes) (linesPerFrame axes))
  else pureAnswer (.scan axes) iw ss 0 q

/-! ### regular info waves (input family of the first-line-repair theorems; `builders_confocal.infowave`) -/

/-- one pixel: `k - 1` samples `use`, then the boundary sample -/
def regPixel (k : Nat) : List Nat := List.replicate (k - 1) 1 ++ [2]
/-- one line of `P` pixels -/
def regLine (k : Nat) : Nat → List Nat
  | 0 => []
  | P + 1 => regPixel k ++ regLine k P
/-- `n` lines, each followed by `d` discarded samples -/
def regLines (k d P : Nat) : Nat → List Nat
  | 0 => []
  | n + 1 => regLine k P ++ (List.replicate d 0 ++ regLines k d P n)
/-- lead-in, then the lines -/
def regWave (lead k d P n : Nat) : List Nat := List.replicate lead 0 ++ regLines k d P n


/-! ### protocol -/
open Verif.Proto

def showImage : Res Image → String
  | .err e => e
  | .ok im => showNatList im.shape ++ " " ++ showIntList im.flat

/-- `N` = no channel (empty slice); otherwise the counts. -/
def chan? (s : String) : Option (List Int) := if s == "N" then some [] else intList? s

def axes? (fa fp sa sp : String) : Option Axes := do
  let fa ← nat? fa; let fp ← nat? fp; let sa ← nat? sa; let sp ← nat? sp
  some [(fa, fp), (sa, sp)]

/-- ops:
  `c02.sum [data] [iw] [shape…]`         `reconstruct_image_sum` called directly: shape + flat pixels
  `c02.spec [data] [iw]`                 the specification walk (cross-check of the oracle)
  `c02.kymo P [iw] lead [counts]|N`      `Kymo.get_image(colour)`
  `c02.kymometa P [iw] lead [red]|N`     `Kymo.shape`, `pixels_per_line`
  `c02.scan fa fp sa sp [iw] lead [counts]|N`   `Scan.get_image(colour)`
  `c02.scanmeta fa fp sa sp meta [iw]`   `num_frames pixels_per_line lines_per_frame shape`
  `c02.kymoseq P [iw] lr [r]|N lg [g]|N lb [b]|N [queries]`          answers (joined by `;`) of a sequence of
  `c02.scanseq fa fp sa sp [iw] lr [r]|N lg [g]|N lb [b]|N [queries]` queries on ONE object: 0,1,2 = `get_image` of
                                         red, green, blue; 3 = `get_image("rgb")`; 4 = `Kymo.shape`
  `c02.kymoseqoff …` / `c02.scanseqoff …` (arguments of `kymoseq` / `scanseq`) the object's start after the sequence, as
                                         a sample index into the info wave (`ObjState.off` of `stateAfter`)
  `c02.assigned [data] [iw] [shape…]`    like `c02.sum`, every pixel computed by the index formula `assignedSum`
  `c02.regwave lead k d P n`             the regular info wave (`regWave`) and where `seek_timestamp_next_line` lands on it
  `c02.regafter lead k d P n [red]`      the image of a colour covering the whole wave, minus its first line of pixels
                                         (right-hand side of `fresh_after_repair`)
  `c02.total k|s [iw] lead [counts]|N`   the image total the property promises for that colour (specification side:
                                         used samples of the shared span up to its last boundary)
  `c02.kymopure …` / `c02.scanpure …`    (arguments of `kymoseq` / `scanseq`) every query answered from scratch
                                         (`pureAnswer` at start 0): what a NEW object answers to it
  `c02.scanmseq fa fp sa sp meta [iw] lr [r]|N lg [g]|N lb [b]|N [queries]`  like `scanseq` for a scan whose metadata
                                         frame count is `meta` (0 = continuous), with the queries 4 = `Scan.shape` and
                                         5 = `Scan.num_frames` as well (`runScanSeq`)
  `c02.scanmseqoff …` / `c02.scanmpure …` (arguments of `scanmseq`) the start after the sequence / every query answered
                                         by a NEW scan (`scanPureAnswer`) -/
def handle : List String → Option String
  | ["c02.sum", data, iw, shape] => do
    let data ← intList? data; let iw ← natList? iw; let shape ← natList? shape
    let prod := shape.foldl (· * ·) 1
    if prod = 0 then none
    else match reconstructSum data iw with
      | .err e => some e
      | .ok px =>
        let m := roundUp px.length prod
        some (showNatList ((m / prod) :: shape) ++ " " ++ showIntList (padTo px m))
  | ["c02.spec", data, iw] => do
    let data ← intList? data; let iw ← natList? iw
    if data.length ≠ iw.length then none else some (showIntList (pixelsSpec data iw))
  | ["c02.kymo", p, iw, lead, ch] => do
    let p ← nat? p; let iw ← natList? iw; let lead ← int? lead; let ch ← chan? ch
    if p = 0 then none
    else
      let pc ← photonCount iw.length lead ch
      some (showImage (kymoGetImage p iw pc))
  | ["c02.kymometa", ax, p, iw, lead, ch] => do
    let ax ← nat? ax; let p ← nat? p; let iw ← natList? iw; let lead ← int? lead; let ch ← chan? ch
    if p = 0 then none
    else
      let ppl := pixelsPerLine [(ax, p)]
      let pc ← photonCount iw.length lead ch
      match kymoGetImage ppl iw pc with
      | .err e => some e
      | .ok im => some (showNatList (im.shape ++ [3]) ++ " " ++ toString ppl)
  | ["c02.scan", fa, fp, sa, sp, iw, lead, ch] => do
    let axes ← axes? fa fp sa sp
    let iw ← natList? iw; let lead ← int? lead; let ch ← chan? ch
    if pixelsPerLine axes < 2 ∨ linesPerFrame axes < 2 then none
    else match photonCount iw.length lead ch with
      | none => some "RuntimeError"
      | some pc => some (showImage (scanGetImage axes iw pc))
  | ["c02.scanmeta", fa, fp, sa, sp, m, iw] => do
    let axes ← axes? fa fp sa sp
    let m ← nat? m; let iw ← natList? iw
    let P := pixelsPerLine axes
    let L := linesPerFrame axes
    if P * L = 0 then none
    else some (toString (numFrames m iw P L) ++ " " ++ toString P ++ " " ++ toString L ++ " " ++
      showNatList (scanShape axes m iw))
  | ["c02.kymoseq", p, iw, lr, cr, lg, cg, lb, cb, qs] => do
    let p ← nat? p; let iw ← natList? iw; let qs ← natList? qs
    let lr ← int? lr; let cr ← chan? cr; let lg ← int? lg; let cg ← chan? cg; let lb ← int? lb; let cb ← chan? cb
    if p = 0 ∨ qs.any (· > 4) then none
    else some (";".intercalate (runSeq (.kymo p) iw [⟨lr, cr⟩, ⟨lg, cg⟩, ⟨lb, cb⟩] ObjState.fresh qs))
  | ["c02.scanseq", fa, fp, sa, sp, iw, lr, cr, lg, cg, lb, cb, qs] => do
    let axes ← axes? fa fp sa sp
    let iw ← natList? iw; let qs ← natList? qs
    let lr ← int? lr; let cr ← chan? cr; let lg ← int? lg; let cg ← chan? cg; let lb ← int? lb; let cb ← chan? cb
    if pixelsPerLine axes < 2 ∨ linesPerFrame axes < 2 ∨ qs.any (· > 3) then none
    else some (";".intercalate (runSeq (.scan axes) iw [⟨lr, cr⟩, ⟨lg, cg⟩, ⟨lb, cb⟩] ObjState.fresh qs))
  | ["c02.kymoseqoff", p, iw, lr, cr, lg, cg, lb, cb, qs] => do
    let p ← nat? p; let iw ← natList? iw; let qs ← natList? qs
    let lr ← int? lr; let cr ← chan? cr; let lg ← int? lg; let cg ← chan? cg; let lb ← int? lb; let cb ← chan? cb
    if p = 0 ∨ qs.any (· > 4) then none
    else some (toString (stateAfter (.kymo p) iw [⟨lr, cr⟩, ⟨lg, cg⟩, ⟨lb, cb⟩] ObjState.fresh qs).off)
  | ["c02.scanseqoff", fa, fp, sa, sp, iw, lr, cr, lg, cg, lb, cb, qs] => do
    let axes ← axes? fa fp sa sp
    let iw ← natList? iw; let qs ← natList? qs
    let lr ← int? lr; let cr ← chan? cr; let lg ← int? lg; let cg ← chan? cg; let lb ← int? lb; let cb ← chan? cb
    if pixelsPerLine axes < 2 ∨ linesPerFrame axes < 2 ∨ qs.any (· > 3) then none
    else some (toString (stateAfter (.scan axes) iw [⟨lr, cr⟩, ⟨lg, cg⟩, ⟨lb, cb⟩] ObjState.fresh qs).off)
  | ["c02.assigned", data, iw, shape] => do
    let data ← intList? data; let iw ← natList? iw; let shape ← natList? shape
    let prod := shape.foldl (· * ·) 1
    if prod = 0 then none
    else if data.length ≠ iw.length then some "ValueError"
    else if iw.count 2 = 0 then some "IndexError"
    else
      let px := (List.range (iw.count 2)).map (assignedSum data iw)
      let m := roundUp px.length prod
      some (showNatList ((m / prod) :: shape) ++ " " ++ showIntList (padTo px m))
  | ["c02.regwave", lead, k, d, p, n] => do
    let lead ← nat? lead; let k ← nat? k; let d ← nat? d; let p ← nat? p; let n ← nat? n
    let iw := regWave lead k d p n
    some (showNatList iw ++ " " ++ (match seekNextLine iw with | none => "ValueError" | some v => toString v))
  | ["c02.regafter", lead, k, d, p, n, red] => do
    let lead ← nat? lead; let k ← nat? k; let d ← nat? d; let p ← nat? p; let n ← nat? n
    let red ← intList? red
    let iw := regWave lead k d p n
    if p = 0 ∨ red.length ≠ iw.length then none
    else some (showImage (imageOfPixels (.kymo p) (.ok ((pixelsSpec red iw).drop p))))
  | ["c02.total", kind, iw, lead, ch] => do
    let iw ← natList? iw; let lead ← int? lead; let ch ← chan? ch
    if kind != "k" && kind != "s" then none
    else match photonCount iw.length lead ch with
      | none => if kind == "s" then some "RuntimeError" else none
      | some pc => match expectedTotal iw pc with
        | .err e => some e
        | .ok v => some (toString v)
  | ["c02.kymopure", p, iw, lr, cr, lg, cg, lb, cb, qs] => do
    let p ← nat? p; let iw ← natList? iw; let qs ← natList? qs
    let lr ← int? lr; let cr ← chan? cr; let lg ← int? lg; let cg ← chan? cg; let lb ← int? lb; let cb ← chan? cb
    if p = 0 ∨ qs.any (· > 4) then none
    else some (";".intercalate (qs.map (pureAnswer (.kymo p) iw [⟨lr, cr⟩, ⟨lg, cg⟩, ⟨lb, cb⟩] 0)))
  | ["c02.scanpure", fa, fp, sa, sp, iw, lr, cr, lg, cg, lb, cb, qs] => do
    let axes ← axes? fa fp sa sp
    let iw ← natList? iw; let qs ← natList? qs
    let lr ← int? lr; let cr ← chan? cr; let lg ← int? lg; let cg ← chan? cg; let lb ← int? lb; let cb ← chan? cb
    if pixelsPerLine axes < 2 ∨ linesPerFrame axes < 2 ∨ qs.any (· > 3) then none
    else some (";".intercalate (qs.map (pureAnswer (.scan axes) iw [⟨lr, cr⟩, ⟨lg, cg⟩, ⟨lb, cb⟩] 0)))
  | ["c02.scanmseq", fa, fp, sa, sp, m, iw, lr, cr, lg, cg, lb, cb, qs] => do
    let axes ← axes? fa fp sa sp
    let m ← nat? m; let iw ← natList? iw; let qs ← natList? qs
    let lr ← int? lr; let cr ← chan? cr; let lg ← int? lg; let cg ← chan? cg; let lb ← int? lb; let cb ← chan? cb
    if pixelsPerLine axes < 2 ∨ linesPerFrame axes < 2 ∨ qs.any (· > 5) then none
    else some (";".intercalate (runScanSeq axes iw [⟨lr, cr⟩, ⟨lg, cg⟩, ⟨lb, cb⟩] ⟨m, ObjState.fresh⟩ qs))
  | ["c02.scanmseqoff", fa, fp, sa, sp, m, iw, lr, cr, lg, cg, lb, cb, qs] => do
    let axes ← axes? fa fp sa sp
    let m ← nat? m; let iw ← natList? iw; let qs ← natList? qs
    let lr ← int? lr; let cr ← chan? cr; let lg ← int? lg; let cg ← chan? cg; let lb ← int? lb; let cb ← chan? cb
    if pixelsPerLine axes < 2 ∨ linesPerFrame axes < 2 ∨ qs.any (· > 5) then none
    else some (toString (scanStateAfter axes iw [⟨lr, cr⟩, ⟨lg, cg⟩, ⟨lb, cb⟩] ⟨m, ObjState.fresh⟩ qs).obj.off)
  | ["c02.scanmpure", fa, fp, sa, sp, m, iw, lr, cr, lg, cg, lb, cb, qs] => do
    let axes ← axes? fa fp sa sp
    let m ← nat? m; let iw ← natList? iw; let qs ← natList? qs
    let lr ← int? lr; let cr ← chan? cr; let lg ← int? lg; let cg ← chan? cg; let lb ← int? lb; let cb ← chan? cb
    if pixelsPerLine axes < 2 ∨ linesPerFrame axes < 2 ∨ qs.any (· > 5) then none
    else some (";".intercalate (qs.map (scanPureAnswer axes m iw [⟨lr, cr⟩, ⟨lg, cg⟩, ⟨lb, cb⟩])))
  | _ => none

end Verif.C02
