/-
  C12 — force-extension model pairs are mutual inverses of their published equations.
  Executable model of lumicks/pylake/fitting/detail/model_implementation.py (Odijk, (extensible)
  Marko–Siggia, eFJC, tWLC, `calc_cubic_root` with its Cardano / trigonometric branches),
  lumicks/pylake/fitting/models.py (constructors, DNA parametrisations) and
  lumicks/pylake/fitting/model.py (`CompositeModel`, `InverseModel`, `SubtractIndependentOffset`:
  parameter routing by index into the ordered, de-duplicated parameter dictionary).

  Every closed-form function is written ONCE, generic over `[RealLike α] [Ops α]`, in the order of
  operations of the Python source.  It is executed at `Float` (driver), at `EF` (a `Float` with a
  running forward-error bound: the conditioning-aware comparison scale of DESIGN §2.2) and reasoned
  about at `ℝ` (Lemmas/Props).  The SciPy inversions are a parameter (`Solver`).
-/
import Verif.Proto
import Verif.Num

namespace Verif.C12
open Verif RealLike

/-! ### operations the formulas need beyond `RealLike` -/

/-- `np.cosh`, `np.sinh`, `np.clip` and the branch `mask = det >= 0` of `calc_cubic_root`.
    At `Float` and `ℝ` `selGe0 det A B` is literally `if 0 ≤ det then A else B`; at `EF` it also
    accounts for an undecidable sign of `det` in the error bound. -/
class Ops (α : Type) where
  cosh : α → α
  sinh : α → α
  clip : α → α → α → α
  selGe0 : α → α → α → α

instance : Ops Float where
  cosh := Float.cosh
  sinh := Float.sinh
  clip := RealLike.clip
  selGe0 det A B := if RealLike.le (0.0 : Float) det then A else B

section formulas
variable {α : Type} [RealLike α] [Ops α]
open Ops

/-! ### closed-form models with distance as the dependent variable -/

/-- `ewlc_odijk_distance` -/
def odijkDistance (f Lp Lc St kT : α) : α :=
  Lc * (1.0 - 1.0 / 2.0 * sqrt (kT / (f * Lp)) + f / St)

/-- `wlc_marko_siggia_force` : `(kT/Lp) * (0.25 * (1 - d/Lc)**(-2) + d/Lc - 0.25)` -/
def msForce (d Lp Lc kT : α) : α :=
  let x := d / Lc
  (kT / Lp) * (0.25 * (1.0 / ((1.0 - x) * (1.0 - x))) + x - 0.25)

/-- the `g` array of `twlc_distance`: `g[f < Fc] = g0 + g1*Fc ; g[f >= Fc] = g0 + g1*f` (zeros otherwise) -/
def twlcG (f g0 g1 Fc : α) : α :=
  if lt f Fc then g0 + g1 * Fc else if le Fc f then g0 + g1 * f else 0.0

/-- `twlc_distance` -/
def twlcDistance (f Lp Lc St C g0 g1 Fc kT : α) : α :=
  let g := twlcG f g0 g1 Fc
  Lc * (1.0 - 1.0 / 2.0 * sqrt (kT / (f * Lp)) + (C / (-g * g + St * C)) * f)

/-- `f_max` of `twlc_solve_force`: above this force the model loses its validity -/
def twlcFmax (St C g0 g1 : α) : α := (-g0 + sqrt (St * C)) / g1

/-- `coth` with the "crude overflow protection" (`abs(x) < -500` never holds: dead code) -/
def coth (x : α) : α := if lt (abs x) 500.0 then cosh x / sinh x else 1.0

/-- `efjc_distance` -/
def efjcDistance (f Lp Lc St kT : α) : α :=
  Lc * (coth (2.0 * f * Lp / kT) - kT / (2.0 * f * Lp)) * (1.0 + f / St)

/-! ### `calc_cubic_root` -/

def depP (a b : α) : α := b - a * a / 3.0
def depQ (a b c : α) : α := 2.0 * a * a * a / 27.0 - a * b / 3.0 + c
def disc (p q : α) : α := q * q / 4.0 + p * p * p / 27.0

/-- the `det ≥ 0` branch: `cbrt(-q/2 + sqrt det) + cbrt(-q/2 - sqrt det)` -/
def cardano (q det : α) : α :=
  let s := sqrt det
  cbrt (-q * 0.5 + s) + cbrt (-q * 0.5 - s)

/-- `np.clip(3*sqrt(3)*q / (2*sqrt(-p)**3), -1, 1)` -/
def asinArgRaw (p q : α) : α :=
  let s := sqrt (-p)
  3.0 * sqrt 3.0 * q / (2.0 * (s * s * s))

def asinArg (p q : α) : α := Ops.clip (asinArgRaw p q) (-1.0) 1.0

/-- the `det < 0` branch for `selected_root = k` (0, 1, anything else = 2) -/
def trigRoot (p q : α) (k : Nat) : α :=
  let s := sqrt (-p)
  let t := 1.0 / 3.0 * arcsin (asinArg p q)
  match k with
  | 0 => 2.0 / sqrt 3.0 * s * sin t
  | 1 => -2.0 / sqrt 3.0 * s * sin (t + pi / 3.0)
  | _ => 2.0 / sqrt 3.0 * s * cos (t + pi / 6.0)

/-- root of the depressed cubic `t³ + p t + q` chosen by the code -/
def depressedRoot (p q : α) (k : Nat) : α :=
  let det := disc p q
  selGe0 det (cardano q det) (trigRoot p q k)

/-- `calc_cubic_root(a, b, c, selected_root)` (`selected_root ∈ {0,1,2}`; the code raises otherwise) -/
def calcCubicRoot (a b c : α) (k : Nat) : α :=
  depressedRoot (depP a b) (depQ a b c) k - a / 3.0

/-! ### `calc_cubic_root` as the code runs it: whole arrays, boolean masks

  `mask = det >= 0`, `sol[mask] = cbrt(t1) + cbrt(t2)` computed from `det[mask]`, `q[mask]`,
  `sol[~mask] = …` computed from `p[~mask]`, `q[~mask]`, finally `sol - a / 3`.
  `gather`/`scatter` are NumPy's boolean-mask read and write. -/

/-- `xs[mask]` -/
def gather {β : Type} : List Bool → List β → List β
  | true :: m, x :: xs => x :: gather m xs
  | false :: m, _ :: xs => gather m xs
  | _, _ => []

/-- `sol[mask] = vals`: the positions where the mask is set take the values in order -/
def scatter {β : Type} : List Bool → List β → List β → List β
  | true :: m, v :: vals, _ :: sol => v :: scatter m vals sol
  | false :: m, vals, s :: sol => s :: scatter m vals sol
  | _, _, sol => sol

def zipWith3' {β γ δ ε : Type} (f : β → γ → δ → ε) : List β → List γ → List δ → List ε
  | x :: xs, y :: ys, z :: zs => f x y z :: zipWith3' f xs ys zs
  | _, _, _ => []

/-- `calc_cubic_root(a, b, c, selected_root)` on arrays of equal length -/
def calcCubicRootVec (as bs cs : List α) (k : Nat) : List α :=
  let p := List.zipWith depP as bs
  let q := zipWith3' depQ as bs cs
  let det := List.zipWith disc p q
  let sol : List α := det.map fun _ => 0.0
  let mask := det.map fun d => le 0.0 d
  let sol := scatter mask (List.zipWith cardano (gather mask q) (gather mask det)) sol
  let nmask := mask.map not
  let sol := scatter nmask (List.zipWith (fun p q => trigRoot p q k) (gather nmask p) (gather nmask q)) sol
  List.zipWith (fun s a => s - a / 3.0) sol as

/-! ### cubic coefficients of the analytically inverted models -/

/-- `ewlc_odijk_force`: `alpha = d/Lc - 1, gamma = kT/Lp` -/
def odijkForceCoeffs (d Lp Lc St kT : α) : α × α × α :=
  let alpha := d / Lc - 1.0
  let gamma := kT / Lp
  (-2.0 * alpha * St, (alpha * alpha) * (St * St), -0.25 * gamma * (St * St))

def odijkForce (d Lp Lc St kT : α) : α :=
  let (a, b, c) := odijkForceCoeffs d Lp Lc St kT
  calcCubicRoot a b c 2

/-- `wlc_marko_siggia_distance_coefficients` -/
def msDistanceCoeffs (f Lp Lc kT : α) : α × α × α :=
  (-Lc * (f * Lp / kT + 2.25),
   (Lc * Lc) * (2.0 * f * Lp / kT + 1.5),
   -f * (Lc * Lc * Lc) * Lp / kT)

def msDistance (f Lp Lc kT : α) : α :=
  let (a, b, c) := msDistanceCoeffs f Lp Lc kT
  calcCubicRoot a b c 1

/-- coefficients of `ewlc_marko_siggia_force` (cubic in the force) -/
def emsForceCoeffs (d Lp Lc St kT : α) : α × α × α :=
  let St2 := St * St
  let St3 := St * St * St
  let Lc2 := Lc * Lc
  let Lc3 := Lc * Lc * Lc
  let d2 := d * d
  let c := -St3 * d * kT * (1.5 * Lc2 - 2.25 * Lc * d + d2) / (Lc3 * (Lp * St + kT))
  let b := St2 * (Lc2 * Lp * St + 1.5 * Lc2 * kT - 2.0 * Lc * Lp * St * d - 4.5 * Lc * d * kT
                  + Lp * St * d2 + 3.0 * d2 * kT) / (Lc2 * (Lp * St + kT))
  let a := St * (2.0 * Lc * Lp * St + 2.25 * Lc * kT - 2.0 * Lp * St * d - 3.0 * d * kT)
             / (Lc * (Lp * St + kT))
  (a, b, c)

def emsForce (d Lp Lc St kT : α) : α :=
  let (a, b, c) := emsForceCoeffs d Lp Lc St kT
  calcCubicRoot a b c 2

/-- coefficients of `ewlc_marko_siggia_distance` (cubic in the distance) -/
def emsDistanceCoeffs (f Lp Lc St kT : α) : α × α × α :=
  let St2 := St * St
  let St3 := St * St * St
  let Lc2 := Lc * Lc
  let Lc3 := Lc * Lc * Lc
  let f2 := f * f
  let c := -f * Lc3 * (f2 * Lp * St + f2 * kT + 2.0 * f * Lp * St2 + 2.25 * f * St * kT
                        + Lp * St3 + 1.5 * St2 * kT) / (St3 * kT)
  let b := Lc2 * (2.0 * f2 * Lp * St + 3.0 * f2 * kT + 2.0 * f * Lp * St2 + 4.5 * f * St * kT
                  + 1.5 * St2 * kT) / (St2 * kT)
  let a := -f * Lc * Lp / kT - 3.0 * f * Lc / St - 2.25 * Lc
  (a, b, c)

def emsDistance (f Lp Lc St kT : α) : α :=
  let (a, b, c) := emsDistanceCoeffs f Lp Lc St kT
  calcCubicRoot a b c 1

/-- the published extensible Marko–Siggia relation, as a residual:
    `F Lp/kT = ¼ (1 - d/Lc + F/St)^(-2) - ¼ + d/Lc - F/St` -/
def emsResidual (f d Lp Lc St kT : α) : α :=
  let y := 1.0 - d / Lc + f / St
  0.25 * (1.0 / (y * y)) - 0.25 + d / Lc - f / St - f * Lp / kT

/-! ### DNA convenience parametrisations (`dsdna_ewlc_odijk_distance`, `ssdna_efjc_distance`) -/

/-- Boltzmann constant, J/K (`scipy.constants.k`, exact SI value) -/
def kB : α := 1.380649e-23
/-- `1e21 * constants.k * convert_temperature(T, "C", "K")` in pN·nm -/
def dnaKT (tempC : α) : α := 1.0e21 * kB * (tempC + 273.15)
/-- `dna_length_kbp * um_per_kbp` -/
def dnaLc (kbp umPerKbp : α) : α := kbp * umPerKbp

end formulas

/-! ### the model algebra: constructors, `+`, `subtract_independent_offset`, `invert` -/

inductive Kind
  | fOff | dOff | emsF | emsD | msF | msD
  | odijkD | odijkF | efjcD | twlcD | twlcF
deriving DecidableEq, Repr

/-- names of the arguments of the model function after the independent variable -/
def Kind.args : Kind → List String
  | .fOff => ["f_offset"]
  | .dOff => ["d_offset"]
  | .msF | .msD => ["Lp", "Lc", "kT"]
  | .emsF | .emsD | .odijkD | .odijkF | .efjcD => ["Lp", "Lc", "St", "kT"]
  | .twlcD | .twlcF => ["Lp", "Lc", "St", "C", "g0", "g1", "Fc", "kT"]

/-- `true`: the independent variable is the force (`distance_model_vars`) -/
def Kind.indepForce : Kind → Bool
  | .dOff | .emsD | .msD | .odijkD | .efjcD | .twlcD => true
  | _ => false

inductive Err | value | key | type | runtime
deriving DecidableEq, Repr

def Err.show : Err → String
  | .value => "ValueError" | .key => "KeyError" | .type => "TypeError" | .runtime => "RuntimeError"

/-- the SciPy inversion as a parameter: `solve interpolate f lo hi y` returns `x` with `f x ≈ y` -/
abbrev Solver (α : Type) := Bool → (α → α) → α → α → α → α

section algebra
variable {α : Type} [RealLike α] [Ops α]

def anyLe0 (l : List α) : Bool := l.any fun x => le x 0.0

/-- `scipy.optimize.least_squares(…, x0 = 1.0, bounds = (lo, hi))` as called by `invert_function*`:
    the initial guess is the constant `1.0`; SciPy raises `ValueError` when `lo ≥ hi` or when the
    guess is outside `[lo, hi]` (finding F9: limits that do not contain 1.0 cannot be used). -/
def guessOutside (lo hi : α) : Option Err :=
  if le hi lo || lt 1.0 lo || lt hi 1.0 then some .value else none

/-- `Model.invert()` after the repair of finding F19 (`/repo` 8e6b126): the initial guess is clipped
    into `[lo, hi]`, so SciPy refuses only empty limits (`lo ≥ hi`). -/
def limitsEmpty (lo hi : α) : Option Err :=
  if le hi lo then some .value else none

/-- the `if Lp <= 0 or … : raise ValueError` guards -/
def Kind.check : Kind → List α → Option Err
  | .fOff, _ | .dOff, _ => none
  | .msF, [Lp, Lc, kT] | .msD, [Lp, Lc, kT] =>
      if anyLe0 [Lp, Lc, kT] then some .value else none
  | .emsF, [Lp, Lc, St, kT] | .emsD, [Lp, Lc, St, kT] | .odijkD, [Lp, Lc, St, kT]
  | .odijkF, [Lp, Lc, St, kT] | .efjcD, [Lp, Lc, St, kT] =>
      if anyLe0 [Lp, Lc, St, kT] then some .value else none
  | .twlcD, [Lp, Lc, St, _, _, _, _, kT] =>
      if anyLe0 [Lp, Lc, St, kT] then some .value else none
  | .twlcF, [Lp, Lc, St, C, g0, g1, _, kT] =>
      if anyLe0 [Lp, Lc, St, kT] then some .value
      else guessOutside (0.0 : α) (twlcFmax St C g0 g1)
  | _, _ => some .type

def Kind.val (S : Solver α) : Kind → α → List α → α
  | .fOff, _, [o] | .dOff, _, [o] => o
  | .msF, d, [Lp, Lc, kT] => msForce d Lp Lc kT
  | .msD, f, [Lp, Lc, kT] => msDistance f Lp Lc kT
  | .emsF, d, [Lp, Lc, St, kT] => emsForce d Lp Lc St kT
  | .emsD, f, [Lp, Lc, St, kT] => emsDistance f Lp Lc St kT
  | .odijkD, f, [Lp, Lc, St, kT] => odijkDistance f Lp Lc St kT
  | .odijkF, d, [Lp, Lc, St, kT] => odijkForce d Lp Lc St kT
  | .efjcD, f, [Lp, Lc, St, kT] => efjcDistance f Lp Lc St kT
  | .twlcD, f, [Lp, Lc, St, C, g0, g1, Fc, kT] => twlcDistance f Lp Lc St C g0 g1 Fc kT
  | .twlcF, d, [Lp, Lc, St, C, g0, g1, Fc, kT] =>
      S true (fun f => twlcDistance f Lp Lc St C g0 g1 Fc kT) 0.0 (twlcFmax St C g0 g1) d
  | _, _, _ => 0.0

/-- `det ≥ 0` at every cubic the evaluation solves (for the evidence: which branch a case took) -/
def Kind.branch : Kind → α → List α → List Bool
  | .msD, f, [Lp, Lc, kT] =>
      let (a, b, c) := msDistanceCoeffs f Lp Lc kT; [le 0.0 (disc (depP a b) (depQ a b c))]
  | .emsF, d, [Lp, Lc, St, kT] =>
      let (a, b, c) := emsForceCoeffs d Lp Lc St kT; [le 0.0 (disc (depP a b) (depQ a b c))]
  | .emsD, f, [Lp, Lc, St, kT] =>
      let (a, b, c) := emsDistanceCoeffs f Lp Lc St kT; [le 0.0 (disc (depP a b) (depQ a b c))]
  | .odijkF, d, [Lp, Lc, St, kT] =>
      let (a, b, c) := odijkForceCoeffs d Lp Lc St kT; [le 0.0 (disc (depP a b) (depQ a b c))]
  | _, _, _ => []

end algebra

/-- model expressions: what the public API can build -/
inductive M (α : Type)
  | base (k : Kind) (name : String)
  | add (l r : M α)
  | off (m : M α)
  | inv (m : M α) (lo hi : α) (interp : Bool)

/-- position of the first occurrence (`list.index`) -/
def idxOf (p : String) : List String → Nat
  | [] => 0
  | x :: xs => if x = p then 0 else idxOf p xs + 1

/-- insertion order of an `OrderedDict` filled with the keys in this order -/
def dedup : List String → List String
  | [] => []
  | x :: xs => x :: (dedup xs).filter (fun y => decide (y ≠ x))

/-- shared parameters (`Parameter(shared=True)`, only `Defaults.kT`) keep their bare name -/
def formatName (model arg : String) : String :=
  if arg = "kT" then "kT" else model ++ "/" ++ arg

namespace M
variable {α : Type}

def name : M α → String
  | base _ n => n
  | add l r => l.name ++ "_with_" ++ r.name
  | off m => m.name ++ "(x-d)"
  | inv m _ _ _ => "inv(" ++ m.name ++ ")"

def indepForce : M α → Bool
  | base k _ => k.indepForce
  | add l _ => l.indepForce
  | off m => m.indepForce
  | inv m _ _ _ => !m.indepForce

def indep (m : M α) : String := if m.indepForce then "f" else "d"
def dep (m : M α) : String := if m.indepForce then "d" else "f"

def offsetName (m : M α) : String := m.name ++ "/" ++ m.indep ++ "_offset"

/-- `Model.parameter_names` -/
def params : M α → List String
  | base k n => k.args.map (formatName n)
  | add l r => dedup (l.params ++ r.params)
  | off m => dedup (m.offsetName :: m.params)
  | inv m _ _ _ => m.params

/-- `CompositeModel.__init__` raises `ValueError` for different (in)dependent variables -/
def wf : M α → Bool
  | base _ _ => true
  | add l r => l.wf && r.wf && (l.indepForce == r.indepForce)
  | off m => m.wf
  | inv m _ _ _ => m.wf

variable [RealLike α] [Ops α]

/-- `[param_vector[x] for x in self.lhs_params]` with `lhs_params = [params_all.index(p) for p in params_lhs]` -/
def route (all sub : List String) (v : List α) : List α :=
  sub.map fun p => v.getD (idxOf p all) 0.0

def check : M α → List α → Option Err
  | base k _, v => k.check v
  | add l r, v =>
      let all := (add l r).params
      match l.check (route all l.params v) with
      | some e => some e
      | none => r.check (route all r.params v)
  | off m, v => m.check (route (off m).params m.params v)
  | inv m lo hi _, v =>
      match m.check v with
      | some e => some e
      | none => limitsEmpty lo hi

/-- `Model._raw_call(independent, param_vector)` -/
def val (S : Solver α) : M α → α → List α → α
  | base k _, x, v => k.val S x v
  | add l r, x, v =>
      let all := (add l r).params
      l.val S x (route all l.params v) + r.val S x (route all r.params v)
  | off m, x, v =>
      let all := (off m).params
      m.val S (x - v.getD (idxOf m.offsetName all) 0.0) (route all m.params v)
  | inv m lo hi interp, x, v => S interp (fun f => m.val S f v) lo hi x

/-- the same evaluation written from the property text: every part looks its own parameters up by
    NAME in the dictionary, a composite is the sum of its parts, an offset model evaluates its
    parent at `x - offset`, an inverse is whatever the solver answers for the parent's function -/
def spec (S : Solver α) (env : String → α) : M α → α → α
  | base k n, x => k.val S x ((k.args.map (formatName n)).map env)
  | add l r, x => l.spec S env x + r.spec S env x
  | off m, x => m.spec S env (x - env m.offsetName)
  | inv m lo hi interp, x => S interp (fun f => m.spec S env f) lo hi x

/-- the validation written by NAME: every part is checked on its own parameters, left part first; an inverse
    then checks its limits -/
def checkSpec (env : String → α) : M α → Option Err
  | base k n => k.check ((k.args.map (formatName n)).map env)
  | add l r =>
      match l.checkSpec env with
      | some e => some e
      | none => r.checkSpec env
  | off m => m.checkSpec env
  | inv m lo hi _ =>
      match m.checkSpec env with
      | some e => some e
      | none => limitsEmpty lo hi

def branches : M α → α → List α → List Bool
  | base k _, x, v => k.branch x v
  | add l r, x, v =>
      let all := (add l r).params
      l.branches x (route all l.params v) ++ r.branches x (route all r.params v)
  | off m, x, v =>
      let all := (off m).params
      m.branches (x - v.getD (idxOf m.offsetName all) 0.0) (route all m.params v)
  | inv _ _ _ _, _, _ => []

/-- does evaluation involve the numerical solver? -/
def usesSolver : M α → Bool
  | base k _ => k == .twlcF
  | add l r => l.usesSolver || r.usesSolver
  | off m => m.usesSolver
  | inv _ _ _ _ => true

end M

/-! ### `EF`: a double with a running absolute error bound (comparison scale of the tie) -/

def uRound : Float := 2.220446049250313e-16
def fInf : Float := 1.0 / 0.0

/-- maximum that treats NaN as "unknown" (= +∞) -/
def fmaxE (a b : Float) : Float := if a.isNaN || b.isNaN then fInf else if a < b then b else a

def fminE (a b : Float) : Float := if b < a then b else a

structure EF where
  v : Float
  e : Float

namespace EF

def ofFloat (x : Float) : EF := ⟨x, 0.0⟩
/-- result of one rounded operation: propagated error + one ulp of the result -/
def rnd (v e : Float) : EF := ⟨v, fmaxE e 0.0 + uRound * v.abs⟩

/-- monotone (non-decreasing) library function on `[lo, hi]`: interval image + 4 ulp -/
def mono (f : Float → Float) (lo hi : Float) (a : EF) : EF :=
  let v := f a.v
  let xu := if a.v + a.e > hi then hi else a.v + a.e
  let xl := if a.v - a.e < lo then lo else a.v - a.e
  ⟨v, fmaxE (f xu - v) (v - f xl) + 4.0 * uRound * v.abs + 1.0e-300⟩

def add (a b : EF) : EF := rnd (a.v + b.v) (a.e + b.e)
def sub (a b : EF) : EF := rnd (a.v - b.v) (a.e + b.e)
def mul (a b : EF) : EF := rnd (a.v * b.v) (a.v.abs * b.e + b.v.abs * a.e + a.e * b.e)
def div (a b : EF) : EF :=
  let v := a.v / b.v
  if b.v.abs > b.e then rnd v ((a.e + v.abs * b.e) / (b.v.abs - b.e)) else ⟨v, fInf⟩
def neg (a : EF) : EF := ⟨-a.v, a.e⟩

/-- 1-Lipschitz functions (`sin`, `cos`, `tanh`, `arctan`): error carried over + 4 ulp -/
def lip1 (f : Float → Float) (a : EF) : EF := ⟨f a.v, fmaxE a.e 0.0 + 4.0 * uRound * (fmaxE (f a.v).abs 1.0)⟩

instance : RealLike EF where
  add := add
  sub := sub
  mul := mul
  div := div
  neg := neg
  ofScientific m s e := let x : Float := OfScientific.ofScientific m s e; ⟨x, uRound * x.abs⟩
  sqrt := mono Float.sqrt 0.0 fInf
  cbrt := mono Float.cbrt (-fInf) fInf
  exp := mono Float.exp (-fInf) fInf
  log := mono Float.log 0.0 fInf
  sin := lip1 Float.sin
  cos := lip1 Float.cos
  tanh := lip1 Float.tanh
  arcsin := mono Float.asin (-1.0) 1.0
  arctan := lip1 Float.atan
  abs a := ⟨a.v.abs, a.e⟩
  pi := ⟨3.141592653589793, 4.0e-16⟩
  lt a b := a.v < b.v
  le a b := a.v ≤ b.v

instance : Ops EF where
  -- |cosh' x| = |sinh x| ≤ cosh x : first-order bound with the derivative at the far end
  cosh a := ⟨Float.cosh a.v, Float.cosh (a.v.abs + a.e) * a.e + 4.0 * uRound * (Float.cosh a.v)⟩
  sinh := mono Float.sinh (-fInf) fInf
  -- `clip` is 1-Lipschitz in its first argument: the error bound of the argument carries over
  clip x lo hi :=
    if x.v < lo.v then ⟨lo.v, fmaxE x.e lo.e⟩ else if hi.v < x.v then ⟨hi.v, fmaxE x.e hi.e⟩ else x
  -- the sign of `det` is decided on the value; when the bound does not determine it the other
  -- branch is a possible answer too
  selGe0 det A B :=
    let r := if (0.0 : Float) ≤ det.v then A else B
    if det.v.abs ≤ det.e || det.e.isNaN then ⟨r.v, fmaxE (fmaxE A.e B.e + (A.v - B.v).abs) fInf⟩ else r

end EF

/-! ### a concrete solver for the driver: bisection (the models are increasing on their domain) -/

def bisectLoop (f : Float → Float) (y : Float) : Nat → Float → Float → Float
  | 0, lo, hi => 0.5 * (lo + hi)
  | n + 1, lo, hi =>
      let mid := 0.5 * (lo + hi)
      if f mid < y then bisectLoop f y n mid hi else bisectLoop f y n lo mid

def expandHi (f : Float → Float) (y : Float) : Nat → Float → Float
  | 0, hi => hi
  | n + 1, hi => if f hi < y then expandHi f y n (2.0 * hi) else hi

/-- `x ∈ [lo, hi]` with `f x = y` for increasing `f` (200 halvings; an infinite `hi` is first
    replaced by the first `2^k · max(lo, 1)` with `f ≥ y`) -/
def bisect (f : Float → Float) (lo hi y : Float) : Float :=
  let hi' := if hi.isFinite then hi else expandHi f y 1100 (if lo < 1.0 then 1.0 else lo)
  bisectLoop f y 200 lo hi'

def floatSolver : Solver Float := fun _ f lo hi y => bisect f lo hi y

/-- What the tie assumes about SciPy (explored, not proved; see ASSUMPTIONS of harness/c12.py):
    `least_squares(method="trf", ftol=xtol=gtol=1e-8)` stops at the latest when the scaled gradient
    `|f'(x)·r|·min(1, x-lo, hi-x)` drops below `1e-8`, i.e. `|x - x*| ≲ 1e-8 / (f'² · min(1, x-lo, hi-x))`;
    the spline variant (`dx = 0.01`) adds an interpolation error that is largest where the curve
    bends most (small forces). Factors of 10 are margin. -/
def solverTol (interp : Bool) (x slope lo hi : Float) : Float :=
  let room := fmaxE 1.0e-3 (fminE 1.0 (fminE (x - lo).abs (hi - x).abs))
  let ls := 1.0e-6 * x.abs + 1.0e-7 / (slope * slope * room)
  if interp then ls + (if x.abs < 0.2 then 5.0e-3 else 2.0e-4) * x.abs else ls

def efSolver : Solver EF := fun interp f lo hi y =>
  let g : Float → Float := fun x => (f ⟨x, 0.0⟩).v
  let x := bisect g lo.v hi.v y.v
  let h := 1.0e-4 * (fmaxE x.abs 1.0e-6)
  let slope := (g (x + h) - g (x - h)) / (2.0 * h)
  -- the error of the target AND the rounding noise of the parent's own evaluation (an optimiser
  -- cannot resolve below it) propagate through the inverse function with 1/slope
  ⟨x, solverTol interp x slope lo.v hi.v + (y.e + 2.0 * (f ⟨x, 0.0⟩).e) / slope.abs⟩

/-! ### line protocol -/

open Proto

def kind? : String → Option Kind
  | "force_offset" => some .fOff
  | "distance_offset" => some .dOff
  | "ewlc_marko_siggia_force" => some .emsF
  | "ewlc_marko_siggia_distance" => some .emsD
  | "wlc_marko_siggia_force" => some .msF
  | "wlc_marko_siggia_distance" => some .msD
  | "ewlc_odijk_distance" => some .odijkD
  | "ewlc_odijk_force" => some .odijkF
  | "efjc_distance" => some .efjcD
  | "twlc_distance" => some .twlcD
  | "twlc_force" => some .twlcF
  | _ => none

/-- reverse Polish: `b:<kind>:<name>`, `add`, `off`, `inv:<lo>:<hi>:<T|F>` separated by `;`.
    `efjc_force` is `InverseModel(efjc_distance(name))` with the default limits. -/
def parseExpr (s : String) : Option (M Float) :=
  let step (st : Option (List (M Float))) (tok : String) : Option (List (M Float)) := do
    let stack ← st
    match tok.splitOn ":", stack with
    | ["b", "efjc_force", n], _ => some (.inv (.base .efjcD n) 0.0 fInf false :: stack)
    | ["b", k, n], _ => do let k ← kind? k; some (.base k n :: stack)
    | ["add"], r :: l :: rest => some (.add l r :: rest)
    | ["off"], m :: rest => some (.off m :: rest)
    | ["inv", lo, hi, i], m :: rest => do
        let lo ← float? lo; let hi ← float? hi; let i ← bool? i
        some (.inv m lo hi i :: rest)
    | _, _ => none
  match (s.splitOn ";").foldl step (some []) with
  | some [m] => some m
  | _ => none

def toEF : M Float → M EF
  | .base k n => .base k n
  | .add l r => .add (toEF l) (toEF r)
  | .off m => .off (toEF m)
  | .inv m lo hi i => .inv (toEF m) (.ofFloat lo) (.ofFloat hi) i

/-- `InverseModel.__init__`: interpolation needs finite limits -/
def finiteLimits : M Float → Bool
  | .base _ _ => true
  | .add l r => finiteLimits l && finiteLimits r
  | .off m => finiteLimits m
  | .inv m lo hi i => finiteLimits m && (!i || (lo.isFinite && hi.isFinite))

def binding? (s : String) : Option (String × Float) :=
  match s.splitOn "=" with
  | [n, v] => (float? v).map fun x => (n, x)
  | _ => none

def lookupAll (names : List String) (env : List (String × Float)) : Option (List Float) :=
  names.mapM fun n => env.lookup n

def showBranches (l : List Bool) : String := String.ofList (l.map fun b => if b then 'C' else 'T')

def handle : List String → Option String
  | ["c12.names", e] => do
      let m ← parseExpr e
      if !(m.wf && finiteLimits m) then some "ValueError"
      else some (m.indep ++ " " ++ m.dep ++ " " ++ ",".intercalate m.params)
  | ["c12.eval", e, env, xs] => do
      let m ← parseExpr e
      let env ← listOf? binding? env
      if !(m.wf && finiteLimits m) then some "ValueError"
      else if xs.startsWith "[[" then
        -- `independent.ndim > 1` is rejected before anything else is looked at
        (listListOf? float? ((xs.drop 1).dropEnd 1).toString).map fun _ => "TypeError"
      else
      let xs ← floatList? xs
      match lookupAll m.params env with
        | none => some "KeyError"
        | some v =>
          match m.check v with
          | some err => some err.show
          | none =>
            let me := toEF m
            let ve := v.map EF.ofFloat
            some (showList (fun x =>
              let r := me.val efSolver (EF.ofFloat x) ve
              showFloat r.v ++ ":" ++ showFloat r.e ++ ":" ++ showBranches (m.branches x v)) xs)
  | ["c12.evalf", e, env, xs] => do
      -- plain `Float` evaluation (no error bound), the instance the theorems' formulas run at
      let m ← parseExpr e
      let env ← listOf? binding? env
      let xs ← floatList? xs
      if !(m.wf && finiteLimits m) then some "ValueError"
      else match lookupAll m.params env with
        | none => some "KeyError"
        | some v =>
          match m.check v with
          | some err => some err.show
          | none => some (showFloatList (xs.map fun x => m.val floatSolver x v))
  | ["c12.cubic", a, b, c, k] => do
      let a ← float? a; let b ← float? b; let c ← float? c; let k ← nat? k
      if k > 2 then some "RuntimeError"
      else
        let r : EF := calcCubicRoot (EF.ofFloat a) (EF.ofFloat b) (EF.ofFloat c) k
        let det : Float := disc (depP a b) (depQ a b c)
        some (showFloat r.v ++ ":" ++ showFloat r.e ++ ":" ++ (if (0.0 : Float) ≤ det then "C" else "T"))
  | ["c12.cubicvec", as, bs, cs, k] => do
      -- the masked array algorithm at `Float`; the error bound next to each value is the scalar one
      let as ← floatList? as; let bs ← floatList? bs; let cs ← floatList? cs; let k ← nat? k
      if as.length != bs.length || as.length != cs.length then none
      else if k > 2 then some "RuntimeError"
      else
        let vs := calcCubicRootVec as bs cs k
        let es := zipWith3' (fun a b c =>
          let r : EF := calcCubicRoot (EF.ofFloat a) (EF.ofFloat b) (EF.ofFloat c) k
          let det : Float := disc (depP a b) (depQ a b c)
          (r.e, if (0.0 : Float) ≤ det then "C" else "T")) as bs cs
        some (showList (fun (v, e, br) => showFloat v ++ ":" ++ showFloat e ++ ":" ++ br) (vs.zip es))
  | ["c12.dna", kbp, um, t] => do
      let kbp ← float? kbp; let um ← float? um; let t ← float? t
      some (showFloatList [dnaLc kbp um, dnaKT t])
  | ["c12.fmax", st, c, g0, g1] => do
      let st ← float? st; let c ← float? c; let g0 ← float? g0; let g1 ← float? g1
      some (showFloat (twlcFmax st c g0 g1))
  | _ => none

end Verif.C12
