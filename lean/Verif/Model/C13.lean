/-
  C13 — analytic model derivatives (Jacobians w.r.t. parameters, derivatives w.r.t. the independent
  variable) of the built-in F,d models of `lumicks/pylake/fitting`.

  Executable model of
    * the closed forms `*_jac` / `*_derivative` of `detail/model_implementation.py`,
    * `calc_cubic_root`, `calc_cubic_root_derivatives`, `calc_first_root` (with its `1e-5` clamps),
      `calc_triple_root` and the coefficient tables `da_dLc, db_dSt, …` of the four cubic models,
    * `invert_jacobian` / `invert_derivative` (`detail/derivative_manipulation.py`),
    * the parameter-index routing of `CompositeModel.jacobian`, `SubtractIndependentOffset.jacobian`,
      `InverseModel.jacobian` (`model.py`),
    * `Condition` (`p_external`, `p_indices`, `get_local_params`, `localize_sensitivities`),
      `generate_conditions`, `Model._calculate_jacobian`, `Fit._build_fit/_calculate_jacobian`.

  Every formula is written once, generic over `[RealLike α]`: executed at `Float` by the driver,
  reasoned about at `ℝ` in `Verif/Lemmas/C13.lean` and `Verif/Props/C13.lean`.
  The model mirrors the algorithm of the code (Cardano/trigonometric chain rule, clamps, NumPy fancy
  index `+=` / `-=` semantics), not the specification.  Mathlib-free.
-/
import Verif.Py
import Verif.Proto
import Verif.Num

namespace Verif.C13
open Verif.RealLike

/-- `RealLike` plus the two hyperbolic functions the eFJC model needs (`np.sinh`, `np.cosh`). -/
class RealLikeH (α : Type) extends RealLike α where
  sinh : α → α
  cosh : α → α

instance : RealLikeH Float where
  sinh := Float.sinh
  cosh := Float.cosh

section formulas
variable {α : Type} [RealLike α]

/-- a NumPy boolean mask used as a number (`f * (f > Fc)`) -/
def ind (b : Bool) : α := if b then 1.0 else 0.0

/-! ## Closed forms -/

/-- `ewlc_odijk_distance` -/
def odijkDistance (f Lp Lc St kT : α) : α :=
  Lc * (1.0 - 1.0 / 2.0 * sqrt (kT / (f * Lp)) + f / St)

/-- `ewlc_odijk_distance_jac` rows `Lp, Lc, St, kT` -/
def odijkDistanceJac (f Lp Lc St kT : α) : List α :=
  let s := sqrt (kT / (f * Lp))
  [0.25 * Lc * s / Lp, f / St - 0.5 * s + 1.0, (-f) * Lc / (St * St), (-0.25) * Lc * s / kT]

/-- `ewlc_odijk_distance_derivative` -/
def odijkDistanceDeriv (f Lp Lc St kT : α) : α :=
  let x0 := 1.0 / f
  Lc * (0.25 * x0 * sqrt (kT * x0 / Lp) + 1.0 / St)

/-- `wlc_marko_siggia_force` (`x ** (-2)` written as `1/(x*x)`) -/
def msForce (d Lp Lc kT : α) : α :=
  let r := d / Lc
  (kT / Lp) * (0.25 * (1.0 / sq (1.0 - r)) + r - 0.25)

/-- `wlc_marko_siggia_force_jac` rows `Lp, Lc, kT` -/
def msForceJac (d Lp Lc kT : α) : List α :=
  [ (-0.25) * sq Lc * kT / (sq Lp * sq (Lc - d)) + 0.25 * kT / sq Lp - d * kT / (Lc * sq Lp),
    (-0.5) * Lc * d * kT / (Lp * cube (Lc - d)) - d * kT / (sq Lc * Lp),
    0.25 * sq Lc / (Lp * sq (Lc - d)) - 0.25 / Lp + d / (Lc * Lp) ]

/-- `wlc_marko_siggia_force_derivative` -/
def msForceDeriv (d Lp Lc kT : α) : α :=
  0.5 * sq Lc * kT / (Lp * cube (Lc - d)) + kT / (Lc * Lp)

/-- `force_offset_model` / `distance_offset_model` -/
def offsetVal (_x off : α) : α := off
/-- `offset_model_jac` -/
def offsetJac (_x _off : α) : List α := [1.0]
/-- `offset_model_derivative` -/
def offsetDeriv (_x _off : α) : α := 0.0

/-- `twlc_distance` (`g` is continuous across `f = Fc`; `g = np.zeros` stays 0 when neither mask holds, i.e. NaN) -/
def twlcDistance (f Lp Lc St C g0 g1 Fc kT : α) : α :=
  let g := if lt f Fc then g0 + g1 * Fc else if le Fc f then g0 + g1 * f else 0.0
  Lc * (1.0 - 1.0 / 2.0 * sqrt (kT / (f * Lp)) + (C / ((-g) * g + St * C)) * f)

/-- `twlc_distance_jac` rows `Lp, Lc, St, C, g0, g1, Fc, kT` -/
def twlcDistanceJac (f Lp Lc St C g0 g1 Fc kT : α) : List α :=
  let x0 := 1.0 / Lp
  let x1 := sqrt (kT * x0 / f)
  let x2 := 0.25 * Lc * x1
  let x3 := C * f
  let x4 := C * St
  let x5 : α := ind (lt Fc f)
  let x6 : α := ind (le f Fc)
  let x7 := f * x5 + Fc * x6
  let x8 := g0 + g1 * x7
  let x9 := x8 * x8
  let x10 := x4 - x9
  let x11 := 1.0 / x10
  let x12 := 1.0 / (x10 * x10)
  let x13 := 2.0 * Lc * x3
  let x14 := 1.0 / x8
  let x15 := x11 * x11
  [ x0 * x2,
    (-0.5) * x1 + x11 * x3 + 1.0,
    (-C) * C * f * Lc * x12,
    Lc * (f * x11 - f * x12 * x4),
    x15 * x13 * x8,
    x15 * x13 * x14 * x7 * x9,
    g1 * x15 * x13 * x14 * x9 * x6,
    (-x2) / kT ]

/-- `twlc_distance_derivative` (the code deliberately drops the Dirac terms at the kink) -/
def twlcDistanceDeriv (f Lp Lc St C g0 g1 Fc kT : α) : α :=
  let x0 := 1.0 / f
  let x1 : α := ind (lt Fc f)
  let x2 : α := ind (le f Fc)
  let x3 := g0 + g1 * (f * x1 + Fc * x2)
  let x4 := x3 * x3
  let x5 := 1.0 / (C * St - x4)
  Lc * (2.0 * C * f * g1 * x4 * x5 * x5 * x1 / x3 + C * x5 + 0.25 * x0 * sqrt (kT * x0 / Lp))

/-! ## The cubic `y³ + a y² + b y + c = 0` -/

/-- `p, q, det` of the depressed cubic -/
def cubP (a b : α) : α := b - a * a / 3.0
def cubQ (a b c : α) : α := 2.0 * a * a * a / 27.0 - a * b / 3.0 + c
def cubDet (a b c : α) : α :=
  let p := cubP a b
  let q := cubQ a b c
  q * q / 4.0 + p * p * p / 27.0

/-- the `arcsin` argument `F = 3√3 q / (2 (√−p)³)` of the trigonometric form -/
def trigArg (p q : α) : α :=
  let smp := sqrt (-p)
  3.0 * sqrt 3.0 * q / (2.0 * (smp * smp * smp))

/-- `calc_cubic_root(a, b, c, selected_root)`: Cardano for `det ≥ 0`, trigonometric form otherwise. -/
def calcCubicRoot (a b c : α) (k : Nat) : α :=
  let p := cubP a b
  let q := cubQ a b c
  let det := cubDet a b c
  let sol :=
    if le 0.0 det then
      let s := sqrt det
      cbrt ((-q) * 0.5 + s) + cbrt ((-q) * 0.5 - s)
    else
      let smp := sqrt (-p)
      let arg := clip (trigArg p q) (-1.0) 1.0
      match k with
      | 0 => 2.0 / sqrt 3.0 * smp * sin ((1.0 / 3.0) * arcsin arg)
      | 1 => (-2.0) / sqrt 3.0 * smp * sin ((1.0 / 3.0) * arcsin arg + pi / 3.0)
      | _ => 2.0 / sqrt 3.0 * smp * cos ((1.0 / 3.0) * arcsin arg + pi / 6.0)
  sol - a / 3.0

/-- `t[abs(t) < 1e-5] = 1e-5` -/
def clampLo (x : α) : α := if lt (abs x) 1.0e-5 then 1.0e-5 else x

/-- `calc_first_root` (`det > 0`): chain rule through Cardano's formula with the three clamps.
    `np.abs(t) ** (2/3)` is written `cbrt(|t|)²`. -/
def calcFirstRoot (det p q dp_da dq_da dq_db : α) : α × α × α :=
  let s0 := sqrt det
  let term1 := abs (s0 - 0.5 * q)
  let term2 := abs ((-s0) - 0.5 * q)
  let t1 := clampLo (sq (cbrt term1))
  let t2 := clampLo (sq (cbrt term2))
  let s := clampLo s0
  let dy_ddet := 1.0 / (6.0 * s * t1) - 1.0 / (6.0 * s * t2)
  let dy_dq := (-1.0) / (6.0 * t1) - 1.0 / (6.0 * t2)
  let dy_da : α := -(1.0 / 3.0)
  let ddet_dp := p * p / 9.0
  let ddet_dq := 0.5 * q
  ( dy_ddet * ddet_dp * dp_da + dy_ddet * ddet_dq * dq_da + dy_dq * dq_da + dy_da,
    dy_ddet * ddet_dp + dy_ddet * ddet_dq * dq_db + dy_dq * dq_db,
    dy_ddet * ddet_dq + dy_dq )

/-- `calc_triple_root` (`det ≤ 0`): chain rule through the trigonometric form (no clip here). -/
def calcTripleRoot (p q dp_da dq_da dq_db : α) (root : Nat) : α × α × α :=
  let smp := sqrt (-p)
  let F := 3.0 * sqrt 3.0 * q / (2.0 * (smp * smp * smp))
  let dF_dsqmp := (-9.0) * sqrt 3.0 * q / (2.0 * (smp * smp * smp * smp))
  let dF_dq := 3.0 * sqrt 3.0 / (2.0 * (smp * smp * smp))
  let dsqmp_dp := (-1.0) / (2.0 * smp)
  let dy_da : α := (-1.0) / 3.0
  let (dy_dsqmp, dy_dF) : α × α :=
    match root with
    | 0 =>
      let arg := arcsin F / 3.0
      (2.0 * sqrt 3.0 * sin arg / 3.0, 2.0 * sqrt 3.0 * smp * cos arg / (9.0 * sqrt (1.0 - F * F)))
    | 1 =>
      let arg := arcsin F / 3.0 + pi / 3.0
      ((-2.0) * sqrt 3.0 * sin arg / 3.0, (-2.0) * sqrt 3.0 * smp * cos arg / (9.0 * sqrt (1.0 - F * F)))
    | _ =>
      let arg := arcsin F / 3.0 + pi / 6.0
      (2.0 * sqrt 3.0 * cos arg / 3.0, (-2.0) * sqrt 3.0 * smp * sin arg / (9.0 * sqrt (1.0 - F * F)))
  ( dy_dsqmp * dsqmp_dp * dp_da + dy_dF * (dF_dsqmp * dsqmp_dp * dp_da + dF_dq * dq_da) + dy_da,
    dy_dsqmp * dsqmp_dp + dy_dF * (dF_dsqmp * dsqmp_dp + dF_dq * dq_db),
    dy_dF * dF_dq )

/-- `calc_cubic_root_derivatives`: `(∂y/∂a, ∂y/∂b, ∂y/∂c)` as the code computes them. -/
def calcCubicRootDerivs (a b c : α) (k : Nat) : α × α × α :=
  let p := cubP a b
  let q := cubQ a b c
  let det := cubDet a b c
  let dp_da := (-2.0) * a / 3.0
  let dq_da := 2.0 * (a * a) / 9.0 - b / 3.0
  let dq_db := (-a) / 3.0
  if lt 0.0 det then calcFirstRoot det p q dp_da dq_da dq_db
  else calcTripleRoot p q dp_da dq_da dq_db k

/-- The band in which the code's derivative is regularised / singular, from the coefficients only:
    for `det > 0` one of the three clamps of `calc_first_root` is active; for `det ≤ 0` the
    trigonometric chain rule divides by `√(1 − F²)` with `|F| ≥ 1` (or `F` undefined). -/
def regularised (a b c : α) : Bool :=
  let p := cubP a b
  let q := cubQ a b c
  let det := cubDet a b c
  if lt 0.0 det then
    let s0 := sqrt det
    lt (abs (sq (cbrt (abs (s0 - 0.5 * q))))) 1.0e-5
      || lt (abs (sq (cbrt (abs ((-s0) - 0.5 * q))))) 1.0e-5
      || lt (abs s0) 1.0e-5
  else
    !(lt (abs (trigArg p q)) 1.0)

/-- `P(y) = y³ + a y² + b y + c` and `P'(y)` -/
def cubicPoly (a b c y : α) : α := y * y * y + a * (y * y) + b * y + c
def cubicPoly' (a b y : α) : α := 3.0 * y * y + 2.0 * a * y + b

/-- the implicit-function value of the three root derivatives: `−y²/P'(y), −y/P'(y), −1/P'(y)` -/
def implicitDerivs (a b y : α) : α × α × α :=
  let dP := cubicPoly' a b y
  ((-(y * y)) / dP, (-y) / dP, (-1.0) / dP)

/-! ### Odijk force: `a, b, c` and the tables `da_dLc, …` -/
namespace OF
def a (d _Lp Lc St _kT : α) : α := (-2.0) * ((d / Lc) - 1.0) * St
def b (d _Lp Lc St _kT : α) : α := (((d / Lc) - 1.0) * ((d / Lc) - 1.0)) * (St * St)
def c (_d Lp _Lc St kT : α) : α := (-0.25) * (kT / Lp) * (St * St)
def da_dLc (d _Lp Lc St _kT : α) : α := 2.0 * St * d / sq Lc
def da_dSt (d _Lp Lc _St _kT : α) : α := (-2.0) * ((d / Lc) - 1.0)
def db_dLc (d _Lp Lc St _kT : α) : α := (-2.0) * sq St * d * ((d / Lc) - 1.0) / sq Lc
def db_dSt (d _Lp Lc St _kT : α) : α := 2.0 * St * sq ((d / Lc) - 1.0)
def dc_dLp (_d Lp _Lc St kT : α) : α := 0.25 * (St * St) * kT / sq Lp
def dc_dSt (_d Lp _Lc St kT : α) : α := (-0.5) * St * (kT / Lp)
def dc_dkT (_d Lp _Lc St _kT : α) : α := (-0.25) * (St * St) / Lp
def da_dd (_d _Lp Lc St _kT : α) : α := (-2.0) * St / Lc
def db_dd (d _Lp Lc St _kT : α) : α := 2.0 * sq St * ((-1.0) + d / Lc) / Lc

/-- `ewlc_odijk_force` -/
def val (d Lp Lc St kT : α) : α := calcCubicRoot (a d Lp Lc St kT) (b d Lp Lc St kT) (c d Lp Lc St kT) 2
/-- the Jacobian rows assembled from given root derivatives `(∂y/∂a, ∂y/∂b, ∂y/∂c)` -/
def jacWith (r : α × α × α) (d Lp Lc St kT : α) : List α :=
  let (ya, yb, yc) := r
  [ yc * dc_dLp d Lp Lc St kT,
    ya * da_dLc d Lp Lc St kT + yb * db_dLc d Lp Lc St kT,
    ya * da_dSt d Lp Lc St kT + yb * db_dSt d Lp Lc St kT + yc * dc_dSt d Lp Lc St kT,
    yc * dc_dkT d Lp Lc St kT ]
/-- `ewlc_odijk_force_jac` rows `Lp, Lc, St, kT` (terms the code omits because they are zero are omitted) -/
def jac (d Lp Lc St kT : α) : List α :=
  jacWith (calcCubicRootDerivs (a d Lp Lc St kT) (b d Lp Lc St kT) (c d Lp Lc St kT) 2) d Lp Lc St kT
/-- the derivative assembled from given root derivatives -/
def derWith (r : α × α × α) (d Lp Lc St kT : α) : α :=
  let (ya, yb, _) := r
  ya * da_dd d Lp Lc St kT + yb * db_dd d Lp Lc St kT
/-- `ewlc_odijk_force_derivative` -/
def der (d Lp Lc St kT : α) : α :=
  derWith (calcCubicRootDerivs (a d Lp Lc St kT) (b d Lp Lc St kT) (c d Lp Lc St kT) 2) d Lp Lc St kT
end OF

/-! ### Marko–Siggia WLC distance (`wlc_marko_siggia_distance_coefficients`) -/
namespace WD
def a (f Lp Lc kT : α) : α := (-Lc) * (f * Lp / kT + 2.25)
def b (f Lp Lc kT : α) : α := sq Lc * (2.0 * f * Lp / kT + 1.5)
def c (f Lp Lc kT : α) : α := (-f) * cube Lc * Lp / kT
def dc_dLc (f Lp Lc kT : α) : α := (-3.0) * f * sq Lc * Lp / kT
def dc_dLp (f _Lp Lc kT : α) : α := (-f) * cube Lc / kT
def dc_dkT (f Lp Lc kT : α) : α := f * cube Lc * Lp / sq kT
def db_dLc (f Lp Lc kT : α) : α := Lc * (4.0 * f * Lp / kT + 3.0)
def db_dLp (f _Lp Lc kT : α) : α := 2.0 * f * sq Lc / kT
def db_dkT (f Lp Lc kT : α) : α := (-2.0) * f * sq Lc * Lp / sq kT
def da_dLc (f Lp _Lc kT : α) : α := (-f) * Lp / kT - 2.25
def da_dLp (f _Lp Lc kT : α) : α := (-f) * Lc / kT
def da_dkT (f Lp Lc kT : α) : α := f * Lc * Lp / sq kT
def da_df (_f Lp Lc kT : α) : α := (-Lc) * Lp / kT
def db_df (_f Lp Lc kT : α) : α := 2.0 * sq Lc * Lp / kT
def dc_df (_f Lp Lc kT : α) : α := (-(cube Lc)) * Lp / kT

/-- `wlc_marko_siggia_distance` -/
def val (f Lp Lc kT : α) : α := calcCubicRoot (a f Lp Lc kT) (b f Lp Lc kT) (c f Lp Lc kT) 1
/-- the Jacobian rows assembled from given root derivatives `(∂y/∂a, ∂y/∂b, ∂y/∂c)` -/
def jacWith (r : α × α × α) (f Lp Lc kT : α) : List α :=
  let (ya, yb, yc) := r
  [ ya * da_dLp f Lp Lc kT + yb * db_dLp f Lp Lc kT + yc * dc_dLp f Lp Lc kT,
    ya * da_dLc f Lp Lc kT + yb * db_dLc f Lp Lc kT + yc * dc_dLc f Lp Lc kT,
    ya * da_dkT f Lp Lc kT + yb * db_dkT f Lp Lc kT + yc * dc_dkT f Lp Lc kT ]
/-- `wlc_marko_siggia_distance_jac` rows `Lp, Lc, kT` -/
def jac (f Lp Lc kT : α) : List α :=
  jacWith (calcCubicRootDerivs (a f Lp Lc kT) (b f Lp Lc kT) (c f Lp Lc kT) 1) f Lp Lc kT
/-- the derivative assembled from given root derivatives -/
def derWith (r : α × α × α) (f Lp Lc kT : α) : α :=
  let (ya, yb, yc) := r
  ya * da_df f Lp Lc kT + yb * db_df f Lp Lc kT + yc * dc_df f Lp Lc kT
/-- `wlc_marko_siggia_distance_derivative` -/
def der (f Lp Lc kT : α) : α :=
  derWith (calcCubicRootDerivs (a f Lp Lc kT) (b f Lp Lc kT) (c f Lp Lc kT) 1) f Lp Lc kT
end WD

/-! ### Extensible Marko–Siggia force (`ewlc_marko_siggia_force`) -/
namespace EF
def c (d Lp Lc St kT : α) : α :=
  (-(cube St)) * d * kT * (1.5 * sq Lc - 2.25 * Lc * d + sq d) / (cube Lc * (Lp * St + kT))
def b (d Lp Lc St kT : α) : α :=
  sq St
    * (sq Lc * Lp * St + 1.5 * sq Lc * kT - 2.0 * Lc * Lp * St * d - 4.5 * Lc * d * kT
        + Lp * St * sq d + 3.0 * sq d * kT)
    / (sq Lc * (Lp * St + kT))
def a (d Lp Lc St kT : α) : α :=
  St * (2.0 * Lc * Lp * St + 2.25 * Lc * kT - 2.0 * Lp * St * d - 3.0 * d * kT) / (Lc * (Lp * St + kT))

def denom1 (_d Lp Lc St kT : α) : α := cube Lc * sq (Lp * St + kT)
def denom2 (_d Lp Lc St kT : α) : α := Lc * (sq Lp * sq St + 2.0 * Lp * St * kT + sq kT)
def quad (d Lc : α) : α := 1.5 * sq Lc - 2.25 * Lc * d + sq d

def dc_dLc (d Lp Lc St kT : α) : α :=
  cube St * (d * kT) * (1.5 * sq Lc - 4.5 * Lc * d + 3.0 * sq d) / (sq (sq Lc) * (Lp * St + kT))
def dc_dSt (d Lp Lc St kT : α) : α :=
  (-(sq St)) * (d * kT) * (2.0 * Lp * St + 3.0 * kT) * quad d Lc / denom1 d Lp Lc St kT
def dc_dLp (d Lp Lc St kT : α) : α := sq (sq St) * (d * kT) * quad d Lc / denom1 d Lp Lc St kT
def dc_dkT (d Lp Lc St kT : α) : α := (-Lp) * sq (sq St) * d * quad d Lc / denom1 d Lp Lc St kT
def db_dLc (d Lp Lc St kT : α) : α :=
  sq St * d * (2.0 * Lc * Lp * St + 4.5 * Lc * kT - 2.0 * Lp * St * d - 6.0 * d * kT)
    / (cube Lc * (Lp * St + kT))
def db_dSt (d Lp Lc St kT : α) : α :=
  St
    * (2.0 * sq Lc * sq Lp * sq St + 4.5 * sq Lc * Lp * St * kT + 3.0 * sq Lc * sq kT
        - 4.0 * Lc * sq Lp * sq St * d - 10.5 * Lc * Lp * St * d * kT - 9.0 * Lc * d * sq kT
        + 2.0 * sq Lp * sq St * sq d + 6.0 * Lp * St * sq d * kT + 6.0 * sq d * sq kT)
    / (Lc * denom2 d Lp Lc St kT)
def db_dLp (d Lp Lc St kT : α) : α :=
  (-(cube St)) * kT * (0.5 * sq Lc - 2.5 * Lc * d + 2.0 * sq d) / (Lc * denom2 d Lp Lc St kT)
def db_dkT (d Lp Lc St kT : α) : α :=
  Lp * cube St * (0.5 * sq Lc - 2.5 * Lc * d + 2.0 * sq d) / (Lc * denom2 d Lp Lc St kT)
def da_dLc (d Lp Lc St kT : α) : α := St * d * (2.0 * Lp * St + 3.0 * kT) / (sq Lc * (Lp * St + kT))
def da_dSt (d Lp Lc St kT : α) : α :=
  ((-Lp) * St * (2.0 * Lc * Lp * St + 2.25 * Lc * kT - 2.0 * Lp * St * d - 3.0 * d * kT)
      + (Lp * St + kT)
        * (2.0 * Lc * Lp * St + 2.25 * Lc * kT - 2.0 * Lp * St * d + 2.0 * Lp * St * (Lc - d) - 3.0 * d * kT))
    / (Lc * sq (Lp * St + kT))
def da_dLp (d Lp Lc St kT : α) : α := (-(sq St)) * kT * (0.25 * Lc - d) / denom2 d Lp Lc St kT
def da_dkT (d Lp Lc St kT : α) : α := Lp * sq St * (0.25 * Lc - d) / denom2 d Lp Lc St kT
def dc_dd (d Lp Lc St kT : α) : α :=
  (-(cube St)) * kT * (1.5 * sq Lc - 4.5 * Lc * d + 3.0 * sq d) / (Lc * Lc * (Lc * (Lp * St + kT)))
def db_dd (d Lp Lc St kT : α) : α :=
  sq St * ((-2.0) * Lc * Lp * St - 4.5 * Lc * kT + 2.0 * Lp * St * d + 6.0 * d * kT)
    / (Lc * (Lc * (Lp * St + kT)))
def da_dd (_d Lp Lc St kT : α) : α := (-St) * (2.0 * Lp * St + 3.0 * kT) / (Lc * (Lp * St + kT))

/-- `ewlc_marko_siggia_force` -/
def val (d Lp Lc St kT : α) : α := calcCubicRoot (a d Lp Lc St kT) (b d Lp Lc St kT) (c d Lp Lc St kT) 2
/-- the Jacobian rows assembled from given root derivatives `(∂y/∂a, ∂y/∂b, ∂y/∂c)` -/
def jacWith (r : α × α × α) (d Lp Lc St kT : α) : List α :=
  let (ya, yb, yc) := r
  [ ya * da_dLp d Lp Lc St kT + yb * db_dLp d Lp Lc St kT + yc * dc_dLp d Lp Lc St kT,
    ya * da_dLc d Lp Lc St kT + yb * db_dLc d Lp Lc St kT + yc * dc_dLc d Lp Lc St kT,
    ya * da_dSt d Lp Lc St kT + yb * db_dSt d Lp Lc St kT + yc * dc_dSt d Lp Lc St kT,
    ya * da_dkT d Lp Lc St kT + yb * db_dkT d Lp Lc St kT + yc * dc_dkT d Lp Lc St kT ]
/-- `ewlc_marko_siggia_force_jac` rows `Lp, Lc, St, kT` -/
def jac (d Lp Lc St kT : α) : List α :=
  jacWith (calcCubicRootDerivs (a d Lp Lc St kT) (b d Lp Lc St kT) (c d Lp Lc St kT) 2) d Lp Lc St kT
/-- the derivative assembled from given root derivatives -/
def derWith (r : α × α × α) (d Lp Lc St kT : α) : α :=
  let (ya, yb, yc) := r
  ya * da_dd d Lp Lc St kT + yb * db_dd d Lp Lc St kT + yc * dc_dd d Lp Lc St kT
/-- `ewlc_marko_siggia_force_derivative` -/
def der (d Lp Lc St kT : α) : α :=
  derWith (calcCubicRootDerivs (a d Lp Lc St kT) (b d Lp Lc St kT) (c d Lp Lc St kT) 2) d Lp Lc St kT
end EF

/-! ### Extensible Marko–Siggia distance (`ewlc_marko_siggia_distance`) -/
namespace ED
def cpoly (f Lp St kT : α) : α :=
  sq f * Lp * St + sq f * kT + 2.0 * f * Lp * sq St + 2.25 * f * St * kT + Lp * cube St + 1.5 * sq St * kT
def bpoly (f Lp St kT : α) : α :=
  2.0 * sq f * Lp * St + 3.0 * sq f * kT + 2.0 * f * Lp * sq St + 4.5 * f * St * kT + 1.5 * sq St * kT
def c (f Lp Lc St kT : α) : α := (-f) * cube Lc * cpoly f Lp St kT / (cube St * kT)
def b (f Lp Lc St kT : α) : α := sq Lc * bpoly f Lp St kT / (sq St * kT)
def a (f Lp Lc St kT : α) : α := (-f) * Lc * Lp / kT - 3.0 * f * Lc / St - 2.25 * Lc

def dc_dLc (f Lp Lc St kT : α) : α := (-3.0) * f * sq Lc * cpoly f Lp St kT / (cube St * kT)
def dc_dSt (f Lp Lc St kT : α) : α := f * cube Lc * bpoly f Lp St kT / (sq (sq St) * kT)
def dc_dLp (f _Lp Lc St kT : α) : α := (-f) * cube Lc * (sq f + 2.0 * f * St + sq St) / (sq St * kT)
def dc_dkT (f Lp Lc St kT : α) : α := f * cube Lc * Lp * (sq f + 2.0 * f * St + sq St) / (sq St * sq kT)
def db_dLc (f Lp Lc St kT : α) : α :=
  4.0 * sq f * Lc * Lp / (St * kT) + 6.0 * sq f * Lc / sq St + 4.0 * f * Lc * Lp / kT + 9.0 * f * Lc / St
    + 3.0 * Lc
def db_dSt (f Lp Lc St kT : α) : α :=
  (-f) * sq Lc * (2.0 * f * Lp * St + 6.0 * f * kT + 4.5 * St * kT) / (cube St * kT)
def db_dLp (f _Lp Lc St kT : α) : α := 2.0 * f * sq Lc * (f + St) / (St * kT)
def db_dkT (f Lp Lc St kT : α) : α := (-2.0) * f * sq Lc * Lp * (f + St) / (St * sq kT)
def da_dLc (f Lp _Lc St kT : α) : α := (-f) * Lp / kT - 3.0 * f / St - 2.25
def da_dSt (f _Lp Lc St _kT : α) : α := 3.0 * f * Lc / sq St
def da_dLp (f _Lp Lc _St kT : α) : α := (-f) * Lc / kT
def da_dkT (f Lp Lc _St kT : α) : α := f * Lc * Lp / sq kT
def dc_df (f Lp Lc St kT : α) : α :=
  (-(cube Lc))
    * (3.0 * (f * f) * Lp * St + 3.0 * (f * f) * kT + 4.0 * f * Lp * sq St + 4.5 * f * St * kT + Lp * cube St
        + 1.5 * sq St * kT)
    / (cube St * kT)
def db_df (f Lp Lc St kT : α) : α :=
  sq Lc * (4.0 * f * Lp * St + 6.0 * f * kT + 2.0 * Lp * sq St + 4.5 * St * kT) / (sq St * kT)
def da_df (_f Lp Lc St kT : α) : α := (-Lc) * Lp / kT - 3.0 * Lc / St

/-- `ewlc_marko_siggia_distance` -/
def val (f Lp Lc St kT : α) : α := calcCubicRoot (a f Lp Lc St kT) (b f Lp Lc St kT) (c f Lp Lc St kT) 1
/-- the Jacobian rows assembled from given root derivatives `(∂y/∂a, ∂y/∂b, ∂y/∂c)` -/
def jacWith (r : α × α × α) (f Lp Lc St kT : α) : List α :=
  let (ya, yb, yc) := r
  [ ya * da_dLp f Lp Lc St kT + yb * db_dLp f Lp Lc St kT + yc * dc_dLp f Lp Lc St kT,
    ya * da_dLc f Lp Lc St kT + yb * db_dLc f Lp Lc St kT + yc * dc_dLc f Lp Lc St kT,
    ya * da_dSt f Lp Lc St kT + yb * db_dSt f Lp Lc St kT + yc * dc_dSt f Lp Lc St kT,
    ya * da_dkT f Lp Lc St kT + yb * db_dkT f Lp Lc St kT + yc * dc_dkT f Lp Lc St kT ]
/-- `ewlc_marko_siggia_distance_jac` rows `Lp, Lc, St, kT` -/
def jac (f Lp Lc St kT : α) : List α :=
  jacWith (calcCubicRootDerivs (a f Lp Lc St kT) (b f Lp Lc St kT) (c f Lp Lc St kT) 1) f Lp Lc St kT
/-- the derivative assembled from given root derivatives -/
def derWith (r : α × α × α) (f Lp Lc St kT : α) : α :=
  let (ya, yb, yc) := r
  ya * da_df f Lp Lc St kT + yb * db_df f Lp Lc St kT + yc * dc_df f Lp Lc St kT
/-- `ewlc_marko_siggia_distance_derivative` -/
def der (f Lp Lc St kT : α) : α :=
  derWith (calcCubicRootDerivs (a f Lp Lc St kT) (b f Lp Lc St kT) (c f Lp Lc St kT) 1) f Lp Lc St kT
end ED

/-! ## Inversion rules (`invert_jacobian`, `invert_derivative`) -/

/-- `invert_derivative`: `1 / f'(F)` with `F` the inverted model's value at `d` -/
def invertDerivative (fwdDeriv : α) : α := 1.0 / fwdDeriv
/-- `invert_jacobian`: `−J(F) · (1 / f'(F))`, row by row -/
def invertJacobian (fwdJac : List α) (fwdDeriv : α) : List α :=
  let inverse := 1.0 / fwdDeriv
  fwdJac.map fun j => (-j) * inverse

end formulas

section efjc
variable {α : Type} [RealLikeH α]
open RealLikeH

/-- `coth` with the code's crude overflow protection (the `abs(x) < -500` mask is dead code) -/
def coth (x : α) : α := if lt (abs x) 500.0 then cosh x / sinh x else 1.0

/-- `efjc_distance` -/
def efjcDistance (f Lp Lc St kT : α) : α :=
  Lc * (coth (2.0 * f * Lp / kT) - kT / (2.0 * f * Lp)) * (1.0 + f / St)

/-- `efjc_distance_jac` rows `Lp, Lc, St, kT` -/
def efjcDistanceJac (f Lp Lc St kT : α) : List α :=
  let x0 := 0.5 / f
  let x1 := 2.0 * f / kT
  let x2 := Lp * x1
  let x3 : α := if lt (abs x2) 300.0 then 1.0 / (sinh x2 * sinh x2) else 0.0
  let x4 := f / St + 1.0
  let x5 := Lc * x4
  let x6 := x0 / Lp
  let x7 := (-kT) * x6 + coth x2
  [ x5 * ((-x1) * x3 + kT * x0 / (Lp * Lp)),
    x4 * x7,
    (-f) * Lc * x7 / (St * St),
    x5 * (2.0 * f * Lp * x3 / (kT * kT) - x6) ]

/-- `efjc_distance_derivative` -/
def efjcDistanceDeriv (f Lp Lc St kT : α) : α :=
  let x0 := 1.0 / St
  let x1 := 2.0 * Lp / kT
  let x2 := f * x1
  let x3 := 0.5 * kT / Lp
  let sinhTerm : α := if lt x2 300.0 then 1.0 / (sinh x2 * sinh x2) else 0.0
  Lc * x0 * (coth x2 - x3 / f) + Lc * (f * x0 + 1.0) * ((-x1) * sinhTerm + x3 / (f * f))
end efjc

/-! ## Index routing (generic in the entry type, so that it can be run at `Float`, reasoned about at
    `ℝ` and decided at `Int`) -/
section routing
variable {β : Type}

/-- Python `list.index` -/
def indexOf (names : List String) (n : String) : Option Nat :=
  let i := names.findIdx (· == n)
  if i < names.length then some i else none

/-- `[v[i] for i in idx]` -/
def pick (idx : List Nat) (v : List β) : Option (List β) := idx.mapM fun i => v[i]?

/-- NumPy `a[idx] op= vals` for an integer index list: the right-hand side `a[idx] op vals` is
    computed from the ORIGINAL `a`, then assigned element by element — for a repeated index the last
    assignment wins (no accumulation). -/
def scatterOp (op : β → β → β) (base : List β) (idx : List Nat) (vals : List β) : List β :=
  (idx.zip vals).foldl (fun acc (iv : Nat × β) =>
    match base[iv.1]? with
    | some b0 => acc.set iv.1 (op b0 iv.2)
    | none => acc) base

/-- the accumulating variant (`np.add.at` / `np.subtract.at`) — what the repaired code does -/
def scatterAcc (op : β → β → β) (base : List β) (idx : List Nat) (vals : List β) : List β :=
  (idx.zip vals).foldl (fun acc (iv : Nat × β) =>
    match acc[iv.1]? with
    | some b0 => acc.set iv.1 (op b0 iv.2)
    | none => acc) base

/-- `np.flatnonzero(mask)` -/
def flatnonzero (mask : List Bool) : List Nat :=
  (mask.zipIdx.filter (·.1)).map (·.2)

end routing

/-! ## Model trees (`Model`, `CompositeModel`, `SubtractIndependentOffset`, `InverseModel`) -/

inductive Kind where
  | odijkD | odijkF | msF | msD | emsF | emsD | efjcD | twlcD | offset
deriving DecidableEq, Repr

def Kind.ofString? : String → Option Kind
  | "odijk_d" => some .odijkD | "odijk_f" => some .odijkF | "ms_f" => some .msF | "ms_d" => some .msD
  | "ems_f" => some .emsF | "ems_d" => some .emsD | "efjc_d" => some .efjcD | "twlc_d" => some .twlcD
  | "offset" => some .offset | _ => none

inductive M where
  | base (k : Kind) (names : List String)
  | add (l r : M)
  | off (name : String) (m : M)
  | inv (m : M)
deriving Repr

/-- keys of the ordered parameter dictionary (`OrderedDict` insertion order, later duplicates merge) -/
def M.params : M → List String
  | .base _ names => names
  | .add l r => l.params ++ r.params.filter (fun n => !l.params.contains n)
  | .off name m => name :: m.params.filter (· != name)
  | .inv m => m.params

def M.countInv : M → Nat
  | .base _ _ => 0
  | .add l r => l.countInv + r.countInv
  | .off _ m => m.countInv
  | .inv m => 1 + m.countInv

section eval
variable {α : Type} [RealLikeH α]

def baseVal : Kind → α → List α → Option α
  | .odijkD, x, [Lp, Lc, St, kT] => some (odijkDistance x Lp Lc St kT)
  | .odijkF, x, [Lp, Lc, St, kT] => some (OF.val x Lp Lc St kT)
  | .msF, x, [Lp, Lc, kT] => some (msForce x Lp Lc kT)
  | .msD, x, [Lp, Lc, kT] => some (WD.val x Lp Lc kT)
  | .emsF, x, [Lp, Lc, St, kT] => some (EF.val x Lp Lc St kT)
  | .emsD, x, [Lp, Lc, St, kT] => some (ED.val x Lp Lc St kT)
  | .efjcD, x, [Lp, Lc, St, kT] => some (efjcDistance x Lp Lc St kT)
  | .twlcD, x, [Lp, Lc, St, C, g0, g1, Fc, kT] => some (twlcDistance x Lp Lc St C g0 g1 Fc kT)
  | .offset, x, [o] => some (offsetVal x o)
  | _, _, _ => none

def baseJac : Kind → α → List α → Option (List α)
  | .odijkD, x, [Lp, Lc, St, kT] => some (odijkDistanceJac x Lp Lc St kT)
  | .odijkF, x, [Lp, Lc, St, kT] => some (OF.jac x Lp Lc St kT)
  | .msF, x, [Lp, Lc, kT] => some (msForceJac x Lp Lc kT)
  | .msD, x, [Lp, Lc, kT] => some (WD.jac x Lp Lc kT)
  | .emsF, x, [Lp, Lc, St, kT] => some (EF.jac x Lp Lc St kT)
  | .emsD, x, [Lp, Lc, St, kT] => some (ED.jac x Lp Lc St kT)
  | .efjcD, x, [Lp, Lc, St, kT] => some (efjcDistanceJac x Lp Lc St kT)
  | .twlcD, x, [Lp, Lc, St, C, g0, g1, Fc, kT] => some (twlcDistanceJac x Lp Lc St C g0 g1 Fc kT)
  | .offset, x, [o] => some (offsetJac x o)
  | _, _, _ => none

def baseDer : Kind → α → List α → Option α
  | .odijkD, x, [Lp, Lc, St, kT] => some (odijkDistanceDeriv x Lp Lc St kT)
  | .odijkF, x, [Lp, Lc, St, kT] => some (OF.der x Lp Lc St kT)
  | .msF, x, [Lp, Lc, kT] => some (msForceDeriv x Lp Lc kT)
  | .msD, x, [Lp, Lc, kT] => some (WD.der x Lp Lc kT)
  | .emsF, x, [Lp, Lc, St, kT] => some (EF.der x Lp Lc St kT)
  | .emsD, x, [Lp, Lc, St, kT] => some (ED.der x Lp Lc St kT)
  | .efjcD, x, [Lp, Lc, St, kT] => some (efjcDistanceDeriv x Lp Lc St kT)
  | .twlcD, x, [Lp, Lc, St, C, g0, g1, Fc, kT] => some (twlcDistanceDeriv x Lp Lc St C g0 g1 Fc kT)
  | .offset, x, [o] => some (offsetDeriv x o)
  | _, _, _ => none

/-- cubic coefficients of the four cubic models (for the branch / band report) -/
def baseCoef : Kind → α → List α → Option (α × α × α)
  | .odijkF, x, [Lp, Lc, St, kT] => some (OF.a x Lp Lc St kT, OF.b x Lp Lc St kT, OF.c x Lp Lc St kT)
  | .msD, x, [Lp, Lc, kT] => some (WD.a x Lp Lc kT, WD.b x Lp Lc kT, WD.c x Lp Lc kT)
  | .emsF, x, [Lp, Lc, St, kT] => some (EF.a x Lp Lc St kT, EF.b x Lp Lc St kT, EF.c x Lp Lc St kT)
  | .emsD, x, [Lp, Lc, St, kT] => some (ED.a x Lp Lc St kT, ED.b x Lp Lc St kT, ED.c x Lp Lc St kT)
  | _, _, _ => none

/-- indices of a sub-model's parameters inside the parent's parameter list
    (`[params_all.index(par) for par in params_sub]`) -/
def subIdx (all sub : List String) : Option (List Nat) := sub.mapM (indexOf all)

/-- `Model.derivative(x, param_vector)` through a model tree.  `sols` are the values the numerical
    inversion returned for the `inv` nodes of the tree, in pre-order. -/
def M.der : M → α → List α → List α → Option α
  | .base k _, x, p, _ => baseDer k x p
  | .add l r, x, p, sols => do
    let all := (M.add l r).params
    let li ← subIdx all l.params
    let ri ← subIdx all r.params
    let pl ← pick li p
    let pr ← pick ri p
    let dl ← l.der x pl (sols.take l.countInv)
    let dr ← r.der x pr (sols.drop l.countInv)
    some (dl + dr)
  | .off name m, x, p, sols => do
    let all := (M.off name m).params
    let mi ← subIdx all m.params
    let oi ← indexOf all name
    let o ← p[oi]?
    let pm ← pick mi p
    m.der (x - o) pm sols
  | .inv m, _x, p, sols =>
    match sols with
    | [] => none
    | F :: rest => do
      let d ← m.der F p rest
      some (invertDerivative d)

/-- `Model.__call__(x, params)` through a model tree: the sum of the two sides, the wrapped model at the shifted
    abscissa, and for an inverted model the value the numerical inversion returned (`sols`, as for `M.der`).
    This is the function `M.der` / `M.jac` claim to differentiate (deepening round D). -/
def M.val : M → α → List α → List α → Option α
  | .base k _, x, p, _ => baseVal k x p
  | .add l r, x, p, sols => do
    let all := (M.add l r).params
    let li ← subIdx all l.params
    let ri ← subIdx all r.params
    let pl ← pick li p
    let pr ← pick ri p
    let vl ← l.val x pl (sols.take l.countInv)
    let vr ← r.val x pr (sols.drop l.countInv)
    some (vl + vr)
  | .off name m, x, p, sols => do
    let all := (M.off name m).params
    let mi ← subIdx all m.params
    let oi ← indexOf all name
    let o ← p[oi]?
    let pm ← pick mi p
    m.val (x - o) pm sols
  | .inv _, _x, _p, sols => sols.head?

/-- `Model.jacobian(x, param_vector)` through a model tree: one entry per parameter. -/
def M.jac : M → α → List α → List α → Option (List α)
  | .base k _, x, p, _ => baseJac k x p
  | .add l r, x, p, sols => do
    let all := (M.add l r).params
    let li ← subIdx all l.params
    let ri ← subIdx all r.params
    let pl ← pick li p
    let pr ← pick ri p
    let jl ← l.jac x pl (sols.take l.countInv)
    let jr ← r.jac x pr (sols.drop l.countInv)
    let zeros : List α := p.map fun _ => 0.0
    let j1 := scatterOp (· + ·) zeros li jl
    some (scatterOp (· + ·) j1 ri jr)
  | .off name m, x, p, sols => do
    let all := (M.off name m).params
    let mi ← subIdx all m.params
    let oi ← indexOf all name
    let o ← p[oi]?
    let pm ← pick mi p
    let jm ← m.jac (x - o) pm sols
    let dm ← m.der (x - o) pm sols
    let zeros : List α := p.map fun _ => 0.0
    let j1 := scatterOp (· + ·) zeros mi jm
    some (j1.set oi (-dm))
  | .inv m, _x, p, sols =>
    match sols with
    | [] => none
    | F :: rest => do
      let j ← m.jac F p rest
      let d ← m.der F p rest
      some (invertJacobian j d)

end eval

/-! ## Fit-level assembly (`Fit._build_fit`, `generate_conditions`, `Condition`,
    `Model._calculate_jacobian`, `Fit._calculate_jacobian`) -/

/-- one entry of a data set's parameter transformation: the model parameter is mapped to a global
    name (`inl`) or pinned to a number (`inr`); `key` is `str(value)` used for the condition string -/
structure Tr (α : Type) where
  key : String
  val : String ⊕ α

structure DataSet (α : Type) where
  xs : List α
  trans : List (Tr α)
  /-- per point of `xs`: the values the numerical inversions returned for the `inv` nodes of the model
      tree at that point (pre-order, as for `M.jac`); missing rows count as `[]` (a tree without
      inversions needs none) -/
  sols : List (List α) := []

/-- the points of a data set, each with its row of inversion values -/
def withSols {α} : List α → List (List α) → List (α × List α)
  | [], _ => []
  | x :: xs, [] => (x, []) :: withSols xs []
  | x :: xs, s :: ss => (x, s) :: withSols xs ss

def DataSet.points {α} (d : DataSet α) : List (α × List α) := withSols d.xs d.sols

def Tr.name? {α} (t : Tr α) : Option String := match t.val with | .inl n => some n | .inr _ => none

/-- `FitData.parameter_names` -/
def DataSet.parameterNames {α} (d : DataSet α) : List String := d.trans.filterMap Tr.name?

/-- `Fit._build_fit`: ordered, de-duplicated global parameter names over all models and data sets -/
def globalNames {α} (models : List (M × List (DataSet α))) : List String :=
  (models.flatMap fun md => md.2.flatMap DataSet.parameterNames).eraseDups

/-- `generate_conditions`: data sets with the same condition string share a condition; conditions in
    order of first occurrence, data sets inside a condition in their own order -/
def groupConditions {α} (ds : List (DataSet α)) : List (List (DataSet α)) :=
  let keyOf (d : DataSet α) : List String := d.trans.map (·.key)
  let keys := (ds.map keyOf).eraseDups
  keys.map fun k => ds.filter fun d => keyOf d == k

section fit
variable {α : Type} [RealLikeH α]

/-- `Condition._p_global_indices` -/
def pGlobalIndices (trans : List (Tr α)) (names : List String) : List (Option Nat) :=
  trans.map fun t => match t.val with | .inl n => indexOf names n | .inr _ => none

/-- `Condition.get_local_params` -/
def getLocalParams (trans : List (Tr α)) (names : List String) (g : List α) : Option (List α) :=
  trans.mapM fun t =>
    match t.val with
    | .inl n => do let i ← indexOf names n; g[i]?
    | .inr v => some v

/-- `Condition.p_external = flatnonzero(isinstance(x, str))` and `localize_sensitivities` -/
def pExternal (trans : List (Tr α)) : List Nat := flatnonzero (trans.map fun t => t.name?.isSome)
def localizeSensitivities (trans : List (Tr α)) (row : List α) : Option (List α) := pick (pExternal trans) row

/-- one row of `Model._calculate_jacobian`: `jacobian[r, p_indices] -= sensitivities[r, :]`
    (`fixed = false`: NumPy buffered fancy-index semantics as in the code;
     `fixed = true`: accumulating, the proposed repair).  `sols` = what the numerical inversions of the
    model tree returned at this point and these local parameters (inputs of the inversion rule, as in
    `M.jac`).  The row is a function of the point, the data set's transformation and the global vector
    only: no other data set, no earlier evaluation enters. -/
def jacRowS (fixed : Bool) (m : M) (trans : List (Tr α)) (names : List String) (g : List α) (x : α)
    (sols : List α) : Option (List α) := do
  let pl ← getLocalParams trans names g
  let j ← m.jac x pl sols
  let sens ← localizeSensitivities trans j
  let pidx := (pGlobalIndices trans names).filterMap id
  let zeros : List α := g.map fun _ => 0.0
  some ((if fixed then scatterAcc else scatterOp) (· - ·) zeros pidx sens)

/-- the row of a model without inversions (`sols = []`) -/
def jacRow (fixed : Bool) (m : M) (trans : List (Tr α)) (names : List String) (g : List α) (x : α) :
    Option (List α) := jacRowS fixed m trans names g x []

/-- `Fit._calculate_jacobian`: rows in the order models → conditions → data sets → points -/
def fitJacobian (fixed : Bool) (models : List (M × List (DataSet α))) (g : List α) :
    Option (List String × List (List α)) := do
  let names := globalNames models
  if names.length != g.length then none
  let rows ← (models.flatMap fun md =>
      (groupConditions md.2).flatMap fun grp =>
        grp.flatMap fun d => d.points.map fun xs => jacRowS fixed md.1 d.trans names g xs.1 xs.2).mapM id
  some (names, rows)

end fit

/-! ## Protocol -/
open Verif.Proto

/-- `base <kind> <n> name*n | add T T | off <name> T | inv T` (fuel = number of tokens) -/
def parseTreeF : Nat → List String → Option (M × List String)
  | 0, _ => none
  | fuel + 1, toks =>
    match toks with
    | "base" :: k :: n :: rest => do
      let k ← Kind.ofString? k
      let n ← nat? n
      if rest.length < n then none
      some (.base k (rest.take n), rest.drop n)
    | "add" :: rest => do
      let (l, rest) ← parseTreeF fuel rest
      let (r, rest) ← parseTreeF fuel rest
      some (.add l r, rest)
    | "off" :: name :: rest => do
      let (m, rest) ← parseTreeF fuel rest
      some (.off name m, rest)
    | "inv" :: rest => do
      let (m, rest) ← parseTreeF fuel rest
      some (.inv m, rest)
    | _ => none

def parseTree (toks : List String) : Option (M × List String) := parseTreeF (toks.length + 1) toks

def flt? (s : String) : Option Float := if s == "nan" then some (0.0 / 0.0) else float? s
def fltList? : String → Option (List Float) := listOf? flt?

/-- `s:<name>` or `c:<float bits>` -/
def parseTr (tok : String) : Option (Tr Float) :=
  if tok.startsWith "s:" then some ⟨tok, .inl (tok.drop 2).toString⟩
  else if tok.startsWith "c:" then (flt? (tok.drop 2).toString).map fun v => ⟨tok, .inr v⟩
  else none

/-- `xs [S<per-point inversion values, [a,b;c,d]>] n tr*n` -/
def parseData : List String → Option (DataSet Float × List String)
  | xs :: s :: rest => do
    let xs ← fltList? xs
    let (sols, rest) ← (if s.startsWith "S" then
        (listListOf? flt? (s.drop 1).toString).map fun ss => (ss, rest)
      else some ([], s :: rest) : Option (List (List Float) × List String))
    if !sols.isEmpty && sols.length != xs.length then none
    match rest with
    | n :: rest => do
      let n ← nat? n
      if rest.length < n then none
      let trs ← (rest.take n).mapM parseTr
      some (⟨xs, trs, sols⟩, rest.drop n)
    | [] => none
  | _ => none

def parseMany {γ} (p : List String → Option (γ × List String)) : Nat → List String → Option (List γ × List String)
  | 0, rest => some ([], rest)
  | n + 1, rest => do
    let (x, rest) ← p rest
    let (xs, rest) ← parseMany p n rest
    some (x :: xs, rest)

def parseModelData (toks : List String) : Option ((M × List (DataSet Float)) × List String) := do
  let (m, rest) ← parseTree toks
  match rest with
  | n :: rest => do
    let n ← nat? n
    let (ds, rest) ← parseMany parseData n rest
    some ((m, ds), rest)
  | [] => none

/-- `k n1 v1 … nk vk rest` -/
def parseAssoc : List String → Option (List (String × Float) × List String)
  | k :: rest => do
    let k ← nat? k
    if rest.length < 2 * k then none
    let rec go : Nat → List String → Option (List (String × Float))
      | 0, _ => some []
      | n + 1, name :: v :: more => do
        let v ← flt? v
        let tl ← go n more
        some ((name, v) :: tl)
      | _, _ => none
    let l ← go k rest
    some (l, rest.drop (2 * k))
  | [] => none

def lookupAll (assoc : List (String × Float)) (names : List String) : Option (List Float) :=
  names.mapM fun n => (assoc.find? (·.1 == n)).map (·.2)

/-- the `ValueError` guard of the model functions (`Lp <= 0 or Lc <= 0 or …`) -/
def positiveGuard (k : Kind) (p : List Float) : Bool :=
  match k, p with
  | .offset, _ => true
  | .twlcD, [Lp, Lc, St, _, _, _, _, kT] => !(Lp <= 0.0 || Lc <= 0.0 || St <= 0.0 || kT <= 0.0)
  | _, p => p.all fun v => !(v <= 0.0)

/-- branch (`C`ardano / `T`rigonometric), band (`R`egularised / `N`ot) and the amplification of
    rounding errors of the coefficients by the cancellations inside `det = q²/4 + p³/27` and inside
    `∓√det − q/2` (the arguments of the cube roots) -/
def cubicReport (a b c : Float) : String :=
  let p := cubP a b
  let q := cubQ a b c
  let det := cubDet a b c
  let ampDet := (q * q / 4.0 + Float.abs (p * p * p) / 27.0) / Float.abs det
  let s0 := Float.sqrt det
  let tmin := min (Float.abs (s0 - 0.5 * q)) (Float.abs ((-s0) - 0.5 * q))
  let ampT := if det > 0.0 then (Float.abs q * 0.5 + s0) / tmin else 1.0
  let amp := if ampT > ampDet then ampT else ampDet
  (if RealLike.lt (0.0 : Float) det then "C" else "T") ++ (if regularised a b c then "R" else "N")
    ++ ":" ++ showFloat amp

def branchOf (k : Kind) (x : Float) (p : List Float) : String :=
  match baseCoef k x p with
  | none => "-"
  | some (a, b, c) => cubicReport a b c

def handle : List String → Option String
  | ["c13.val", k, x, p] => do
    let k ← Kind.ofString? k; let x ← flt? x; let p ← fltList? p
    let v ← baseVal k x p
    if !positiveGuard k p then some "ValueError" else some (branchOf k x p ++ " " ++ showFloat v)
  | ["c13.jac", k, x, p] => do
    let k ← Kind.ofString? k; let x ← flt? x; let p ← fltList? p
    let j ← baseJac k x p
    some (branchOf k x p ++ " " ++ showFloatList j)
  | ["c13.der", k, x, p] => do
    let k ← Kind.ofString? k; let x ← flt? x; let p ← fltList? p
    let d ← baseDer k x p
    some (branchOf k x p ++ " " ++ showFloat d)
  | ["c13.cubic", a, b, c, k] => do
    let a ← flt? a; let b ← flt? b; let c ← flt? c; let k ← nat? k
    if k > 2 then none
    let (ya, yb, yc) := calcCubicRootDerivs a b c k
    let y := calcCubicRoot a b c k
    let (ia, ib, ic) := implicitDerivs a b y
    some (cubicReport a b c ++ " " ++ showFloatList [y, ya, yb, yc, ia, ib, ic])
  | "c13.tree" :: what :: x :: sols :: rest => do
    let x ← flt? x; let sols ← fltList? sols
    let (assoc, rest) ← parseAssoc rest
    let (m, rest) ← parseTree rest
    if !rest.isEmpty then none
    if m.countInv != sols.length then none
    let p ← lookupAll assoc m.params
    match what with
    | "names" => some (" ".intercalate m.params)
    | "jac" => (m.jac x p sols).map showFloatList
    | "der" => (m.der x p sols).map showFloat
    | "val" => (m.val x p sols).map showFloat
    | _ => none
  | "c13.fit" :: variant :: rest => do
    let (assoc, rest) ← parseAssoc rest
    match rest with
    | n :: rest => do
      let n ← nat? n
      let (models, rest) ← parseMany parseModelData n rest
      if !rest.isEmpty then none
      let g ← lookupAll assoc (globalNames models)
      let (names, rowsCode) ← fitJacobian false models g
      let (_, rowsFixed) ← fitJacobian true models g
      match variant with
      | "code" => some (" ".intercalate names ++ " | " ++ showListList showFloat rowsCode)
      | "fixed" => some (" ".intercalate names ++ " | " ++ showListList showFloat rowsFixed)
      | "both" => some (" ".intercalate names ++ " | " ++ showListList showFloat rowsCode ++ " | "
          ++ showListList showFloat rowsFixed)
      | _ => none
    | [] => none
  | _ => none

end Verif.C13
