/-
  Line-protocol driver: one op per input line, one answer per output line.
  Unknown or ill-formed ops answer `bad-op` (never a default value).
  Imports the executable models only (Mathlib-free) so that it compiles to a native executable.
-/
import Verif.Proto
import Verif.Model.C01

open Verif

def handlers : List (List String → Option String) :=
  [C01.handle]

def answer (line : String) : String :=
  let toks := Proto.splitTokens line
  match handlers.findSome? (fun h => h toks) with
  | some r => r
  | none => "bad-op"

partial def loop (hin hout : IO.FS.Stream) : IO Unit := do
  let line ← hin.getLine
  if line.isEmpty then return ()
  hout.putStrLn (answer line)
  loop hin hout

def main : IO Unit := do
  let hin ← IO.getStdin
  let hout ← IO.getStdout
  loop hin hout
  hout.flush
