/-
  Specification theorems for the Python/NumPy semantics prelude (`Verif/Py.lean`).

  The prelude is part of the trusted base: models use CPython/NumPy behaviour only through it, and every run tests it
  against CPython/NumPy (`py.*` ops).  These theorems shrink what has to be trusted about it: each executable
  definition is proved equal to its *declarative* reading (element-by-element, for all lists and all integers), so the
  remaining assumption is "Python's `l[i:j:c]`, `//`, `%`, `cumsum`, `searchsorted`, `argmax` mean what their
  documentation says", not "the recursion in Py.lean is right".  Core Lean only.
-/
import Verif.Py

namespace Verif.PyProps
open Verif.Py

/-! ### `//` and `%` -/

/-- Division identity of Python's `//` and `%`, any divisor. -/
theorem floorDiv_mod_identity (a b : Int) : floorDiv a b * b + pyMod a b = a := by
  unfold pyMod; omega

/-- Python's `%` takes the sign of the divisor: positive divisor. -/
theorem pyMod_range_pos (a b : Int) (h : 0 < b) : 0 ≤ pyMod a b ∧ pyMod a b < b := by
  rw [pyMod_pos a b h]
  exact ⟨Int.emod_nonneg a (by omega), Int.emod_lt_of_pos a h⟩

/-- Python's `%` takes the sign of the divisor: negative divisor. -/
theorem pyMod_range_neg (a b : Int) (h : b < 0) : b < pyMod a b ∧ pyMod a b ≤ 0 := by
  unfold pyMod floorDiv
  rw [if_pos h]
  have h1 := Int.emod_nonneg (-a) (show -b ≠ 0 by omega)
  have h2 := Int.emod_lt_of_pos (-a) (show 0 < -b by omega)
  have h3 := Int.emod_add_mul_ediv (-a) (-b)
  have h4 : (-a) / (-b) * b = -((-b) * ((-a) / (-b))) := by
    rw [Int.mul_comm]; simp [Int.neg_mul]
  omega

/-- `//` is the floor of the exact quotient: the unique `q` with `q*b ≤ a < (q+1)*b` (positive divisor). -/
theorem floorDiv_is_floor_pos (a b q : Int) (h : 0 < b) : floorDiv a b = q ↔ q * b ≤ a ∧ a < (q + 1) * b := by
  rw [floorDiv_pos a b h]
  constructor
  · intro hq; subst hq
    have h1 := Int.emod_nonneg a (show b ≠ 0 by omega)
    have h2 := Int.emod_lt_of_pos a h
    have h3 := Int.emod_add_mul_ediv a b
    have h4 : a / b * b = b * (a / b) := Int.mul_comm _ _
    have h5 : (a / b + 1) * b = b * (a / b) + b := by rw [Int.add_mul, Int.mul_comm]; simp
    omega
  · intro ⟨h1, h2⟩
    have h5 : (q + 1) * b = q * b + b := by rw [Int.add_mul]; simp
    have h6 : b * q = q * b := Int.mul_comm _ _
    exact ((Int.ediv_emod_unique (a := a) (b := b) (r := a - q * b) (q := q) h).mpr ⟨by omega, by omega, by omega⟩).1

/-! ### bounds of `l[i:j]` -/

theorem pyNorm_le (n : Nat) (i : Int) : pyNorm n i ≤ n := by
  unfold pyNorm; split
  · split <;> omega
  · omega

/-- The four regimes of a slice bound: clamp below, wrap once, identity, clamp above. -/
theorem pyNorm_spec (n : Nat) (i : Int) :
    (i < -(n : Int) → pyNorm n i = 0) ∧
    (-(n : Int) ≤ i → i < 0 → (pyNorm n i : Int) = i + n) ∧
    (0 ≤ i → i ≤ n → (pyNorm n i : Int) = i) ∧
    ((n : Int) < i → pyNorm n i = n) := by
  unfold pyNorm
  refine ⟨?_, ?_, ?_, ?_⟩
  · intro h; rw [if_pos (by omega), if_pos (by omega)]
  · intro h1 h2; rw [if_pos h2, if_neg (by omega)]; omega
  · intro h1 h2; rw [if_neg (by omega)]; omega
  · intro h; rw [if_neg (by omega)]; omega

/-- Element `k` of `l[i:j]` is element `lo + k` of `l` while `lo + k < hi` (normalised bounds), nothing after. -/
theorem pySlice_getElem? {α} (l : List α) (i j : Int) (k : Nat) :
    (pySlice l i j)[k]? =
      if pyNorm l.length i + k < pyNorm l.length j then l[pyNorm l.length i + k]? else none := by
  unfold pySlice
  rw [List.getElem?_drop, List.getElem?_take]

theorem pySlice_length {α} (l : List α) (i j : Int) :
    (pySlice l i j).length = pyNorm l.length j - pyNorm l.length i := by
  unfold pySlice
  have := pyNorm_le l.length j
  simp [List.length_drop, List.length_take]
  omega

/-- `l[i:j]` is a contiguous piece of `l`. -/
theorem pySlice_infix {α} (l : List α) (i j : Int) : pySlice l i j <:+: l := by
  unfold pySlice
  exact List.IsInfix.trans (List.drop_suffix _ _).isInfix (List.take_prefix _ _).isInfix

/-- Python `l[i]` for an index in range `-n ≤ i < n` is element `i mod n`; everything else is an `IndexError`. -/
theorem pyIndex_spec {α} (l : List α) (i : Int) :
    (-(l.length : Int) ≤ i → i < l.length → pyIndex l i = l[(i % l.length).toNat]?) ∧
    ((i < -(l.length : Int) ∨ (l.length : Int) ≤ i) → pyIndex l i = none) := by
  unfold pyIndex
  constructor
  · intro h1 h2
    by_cases hi : i < 0
    · rw [if_pos hi, if_neg (by omega)]
      have : i % (l.length : Int) = i + l.length := by
        have hpos : (0 : Int) < l.length := by omega
        rw [← Int.add_mul_emod_self_left i (l.length) 1]
        rw [Int.mul_one, Int.emod_eq_of_lt (by omega) (by omega)]
      rw [this]
    · rw [if_neg hi]
      rw [Int.emod_eq_of_lt (by omega) h2]
  · intro h
    by_cases hi : i < 0
    · rw [if_pos hi]
      rcases h with h | h
      · rw [if_pos (by omega)]
      · omega
    · rw [if_neg hi]
      rcases h with h | h
      · omega
      · exact List.getElem?_eq_none (by omega)

/-! ### strided slices -/

theorem everyNth_getElem? {α} (c : Nat) (hc : 1 ≤ c) (l : List α) (k : Nat) :
    (everyNth c l)[k]? = l[k * c]? := by
  induction k generalizing l with
  | zero =>
    cases l with
    | nil => simp [everyNth]
    | cons x xs => simp [everyNth]
  | succ k ih =>
    cases l with
    | nil => simp [everyNth]
    | cons x xs =>
      rw [everyNth, List.getElem?_cons_succ, ih]
      rw [List.getElem?_drop]
      have : (k + 1) * c = (c - 1 + k * c) + 1 := by
        rw [Nat.add_mul]; omega
      rw [this, List.getElem?_cons_succ]

theorem everyNth_length {α} (c : Nat) (hc : 1 ≤ c) (l : List α) :
    (everyNth c l).length = (l.length + c - 1) / c := by
  generalize hn : l.length = n
  induction n using Nat.strongRecOn generalizing l with
  | _ n ih =>
    cases l with
    | nil =>
      subst hn
      simp [everyNth]
      exact (Nat.div_eq_of_lt (by omega)).symm
    | cons x xs =>
      rw [everyNth, List.length_cons]
      simp only [List.length_cons] at hn
      rw [ih (xs.length - (c - 1)) (by omega) (xs.drop (c - 1)) (by simp)]
      subst hn
      by_cases hlt : xs.length < c
      · have h1 : (xs.length - (c - 1) + c - 1) / c = 0 := Nat.div_eq_of_lt (by omega)
        have h2 : (xs.length + 1 + c - 1) / c = 1 := by
          apply Nat.div_eq_of_lt_le <;> omega
        omega
      · have hge : c ≤ xs.length := by omega
        have e : xs.length + 1 + c - 1 = (xs.length - (c - 1) + c - 1) + c := by omega
        rw [e, Nat.add_div_right _ (by omega)]

/-- Element `k` of `l[a:b:c]` (`c ≥ 1`) is element `lo + k*c` of `l` while that index is below `hi`. -/
theorem pySliceStep_getElem? {α} (l : List α) (a b : Option Int) (c : Nat) (hc : 1 ≤ c) (k : Nat) :
    (pySliceStep l a b c)[k]? =
      if (sliceIndicesPos a b l.length).1 + k * c < (sliceIndicesPos a b l.length).2
      then l[(sliceIndicesPos a b l.length).1 + k * c]? else none := by
  unfold pySliceStep
  simp only
  rw [everyNth_getElem? c hc, List.getElem?_drop, List.getElem?_take]

/-! ### `numpy.cumsum` -/

private theorem cumsum_fold (l : List Int) (s : Int) (acc : List Int) :
    (l.foldl (fun (a : Int × List Int) x => (a.1 + x, (a.1 + x) :: a.2)) (s, acc)).2.reverse
      = acc.reverse ++ (List.range l.length).map (fun k => s + (l.take (k + 1)).sum) := by
  induction l generalizing s acc with
  | nil => simp
  | cons x xs ih =>
    rw [List.foldl_cons, ih]
    simp only [List.reverse_cons, List.append_assoc, List.length_cons]
    congr 1
    rw [List.range_succ_eq_map, List.map_cons, List.map_map]
    simp only [List.singleton_append, List.take_succ_cons, List.sum_cons, List.take_zero, List.sum_nil]
    congr 1
    · omega
    · apply List.map_congr_left
      intro k _
      simp [Function.comp]
      omega

/-- `cumsum l` has the length of `l` and its entry `k` is the sum of the first `k+1` elements. -/
theorem cumsum_spec (l : List Int) :
    cumsum l = (List.range l.length).map (fun k => (l.take (k + 1)).sum) := by
  unfold cumsum
  rw [cumsum_fold]
  simp

theorem cumsum_length (l : List Int) : (cumsum l).length = l.length := by
  rw [cumsum_spec]; simp

theorem cumsum_getElem? (l : List Int) (k : Nat) (hk : k < l.length) :
    (cumsum l)[k]? = some ((l.take (k + 1)).sum) := by
  rw [cumsum_spec]; simp [hk]

/-! ### `numpy.searchsorted` on a sorted array -/

private theorem takeWhile_eq_filter_of_sorted (p : Int → Bool) (a : List Int)
    (hmono : ∀ x y, x ≤ y → p y = true → p x = true) (hs : a.Pairwise (· ≤ ·)) :
    a.takeWhile p = a.filter p := by
  induction a with
  | nil => rfl
  | cons x xs ih =>
    rw [List.pairwise_cons] at hs
    by_cases hx : p x = true
    · rw [List.takeWhile_cons_of_pos hx, List.filter_cons_of_pos hx, ih hs.2]
    · rw [List.takeWhile_cons_of_neg hx, List.filter_cons_of_neg hx]
      symm
      rw [List.filter_eq_nil_iff]
      intro y hy hpy
      exact hx (hmono x y (hs.1 y hy) hpy)

/-- `searchsorted(a, v, "left")` on a sorted array is the number of entries `< v`. -/
theorem searchsortedLeft_count (a : List Int) (v : Int) (hs : a.Pairwise (· ≤ ·)) :
    searchsortedLeft a v = (a.filter (· < v)).length := by
  unfold searchsortedLeft
  rw [takeWhile_eq_filter_of_sorted (fun x => decide (x < v)) a _ hs]
  intro x y hxy hy
  simp only [decide_eq_true_eq] at *
  omega

/-- `searchsorted(a, v, "right")` on a sorted array is the number of entries `≤ v`. -/
theorem searchsortedRight_count (a : List Int) (v : Int) (hs : a.Pairwise (· ≤ ·)) :
    searchsortedRight a v = (a.filter (· ≤ v)).length := by
  unfold searchsortedRight
  rw [takeWhile_eq_filter_of_sorted (fun x => decide (x ≤ v)) a _ hs]
  intro x y hxy hy
  simp only [decide_eq_true_eq] at *
  omega

private theorem take_length_takeWhile (p : Int → Bool) (a : List Int) :
    a.take (a.takeWhile p).length = a.takeWhile p := by
  induction a with
  | nil => rfl
  | cons x xs ih =>
    by_cases hx : p x = true
    · rw [List.takeWhile_cons_of_pos hx]; simp [ih]
    · rw [List.takeWhile_cons_of_neg hx]; simp

private theorem all_takeWhile (p : Int → Bool) (a : List Int) : ∀ x ∈ a.takeWhile p, p x = true := by
  induction a with
  | nil => simp
  | cons y ys ih =>
    by_cases hy : p y = true
    · rw [List.takeWhile_cons_of_pos hy]
      intro x hx
      rcases List.mem_cons.mp hx with rfl | hx
      · exact hy
      · exact ih x hx
    · rw [List.takeWhile_cons_of_neg hy]; simp

/-- The insertion point splits a sorted array: everything before it is `< v`, everything from it on is `≥ v`. -/
theorem searchsortedLeft_split (a : List Int) (v : Int) (hs : a.Pairwise (· ≤ ·)) :
    (∀ x ∈ a.take (searchsortedLeft a v), x < v) ∧ (∀ x ∈ a.drop (searchsortedLeft a v), v ≤ x) := by
  unfold searchsortedLeft
  constructor
  · intro x hx
    rw [take_length_takeWhile] at hx
    have := all_takeWhile _ _ x hx
    simpa using this
  · intro x hx
    induction a with
    | nil => simp at hx
    | cons y ys ih =>
      rw [List.pairwise_cons] at hs
      by_cases hy : y < v
      · rw [List.takeWhile_cons_of_pos (by simpa using hy)] at hx
        simp only [List.length_cons, List.drop_succ_cons] at hx
        exact ih hs.2 hx
      · rw [List.takeWhile_cons_of_neg (by simpa using hy)] at hx
        simp only [List.length_nil, List.drop_zero, List.mem_cons] at hx
        rcases hx with rfl | hx
        · omega
        · have := hs.1 x hx; omega

/-! ### `numpy.argmax` -/

private theorem argmax_fold (xs : List Int) (pre : List Int) (best : Nat) (bv : Int)
    (hb : best < pre.length) (hbv : pre[best]? = some bv)
    (hmax : ∀ y ∈ pre, y ≤ bv) (hfirst : ∀ j, j < best → ∀ y, pre[j]? = some y → y < bv) :
    let r := (xs.foldl (fun (st : Nat × Nat × Int) y =>
      let (best, i, bv) := st
      if y > bv then (i, i + 1, y) else (best, i + 1, bv)) (best, pre.length, bv)).1
    ∃ rv, (pre ++ xs)[r]? = some rv ∧ (∀ y ∈ pre ++ xs, y ≤ rv) ∧
      (∀ j, j < r → ∀ y, (pre ++ xs)[j]? = some y → y < rv) := by
  induction xs generalizing pre best bv with
  | nil =>
    simp only [List.foldl_nil, List.append_nil]
    exact ⟨bv, hbv, hmax, hfirst⟩
  | cons x xs ih =>
    simp only [List.foldl_cons]
    by_cases hx : x > bv
    · simp only [hx, if_true]
      have := ih (pre ++ [x]) pre.length x (by simp) (by simp)
        (by
          intro y hy
          rw [List.mem_append] at hy
          rcases hy with hy | hy
          · have := hmax y hy; omega
          · simp at hy; omega)
        (by
          intro j hj y hy
          rw [List.getElem?_append_left hj] at hy
          have := hmax y (List.mem_of_getElem? hy); omega)
      simpa [List.append_assoc] using this
    · simp only [hx, if_false]
      have := ih (pre ++ [x]) best bv (by simp; omega)
        (by rw [List.getElem?_append_left hb]; exact hbv)
        (by
          intro y hy
          rw [List.mem_append] at hy
          rcases hy with hy | hy
          · exact hmax y hy
          · simp at hy; omega)
        (by
          intro j hj y hy
          rw [List.getElem?_append_left (by omega)] at hy
          exact hfirst j hj y hy)
      simpa [List.append_assoc] using this

/-- `argmax` of a non-empty list: an index holding a maximum, and the FIRST such index. -/
theorem argmaxFirst_spec (l : List Int) (hl : l ≠ []) :
    ∃ i v, argmaxFirst l = some i ∧ l[i]? = some v ∧ (∀ y ∈ l, y ≤ v) ∧
      (∀ j, j < i → ∀ y, l[j]? = some y → y < v) := by
  cases l with
  | nil => exact absurd rfl hl
  | cons x xs =>
    have := argmax_fold xs [x] 0 x (by simp) (by simp) (by simp) (by intro j hj; omega)
    simp only [List.length_cons, List.length_nil, Nat.zero_add, List.singleton_append] at this
    obtain ⟨rv, h1, h2, h3⟩ := this
    exact ⟨_, rv, rfl, h1, h2, h3⟩

theorem argmaxFirst_nil : argmaxFirst ([] : List Int) = none := rfl

end Verif.PyProps
