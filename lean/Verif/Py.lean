/-
  Python / NumPy semantics prelude (part of the trusted base, self-tested against CPython/NumPy by
  the `py.*` protocol ops on every run).  Mathlib-free so the driver can be compiled.
-/
namespace Verif.Py

/-- Python `//` for a positive divisor is `Int.ediv`; for a negative divisor it is floor division. -/
def floorDiv (a b : Int) : Int := if b < 0 then (-a) / (-b) else a / b
/-- Python `%` (sign of the divisor). -/
def pyMod (a b : Int) : Int := a - floorDiv a b * b

/-- Normalisation of one bound of `l[i:j]` (step 1): negative wraps once, then clamps to `[0,n]`. -/
def pyNorm (n : Nat) (i : Int) : Nat :=
  if i < 0 then (if i + n < 0 then 0 else (i + n).toNat) else min i.toNat n

/-- Python `l[i:j]`. -/
def pySlice {α} (l : List α) (i j : Int) : List α :=
  (l.take (pyNorm l.length j)).drop (pyNorm l.length i)

/-- Python `l[i:j]` with `None` allowed on either side. -/
def pySliceOpt {α} (l : List α) (i j : Option Int) : List α :=
  pySlice l (i.getD 0) (j.getD l.length)

/-- Python `l[i]` (negative index wraps once; out of range is an `IndexError` = `none`). -/
def pyIndex {α} (l : List α) (i : Int) : Option α :=
  if i < 0 then (if i + l.length < 0 then none else l[(i + l.length).toNat]?) else l[i.toNat]?

/-- `slice(start, stop, step).indices(n)` for a positive step: the normalised `(start, stop)`. -/
def sliceIndicesPos (start stop : Option Int) (n : Nat) : Nat × Nat :=
  (match start with | none => 0 | some s => pyNorm n s,
   match stop with | none => n | some s => pyNorm n s)

/-- Every `step`-th element starting with the head (`l[::step]`, `step ≥ 1`; `step = 0` is not Python). -/
def everyNth {α} (step : Nat) : List α → List α
  | [] => []
  | x :: xs => x :: everyNth step (xs.drop (step - 1))
termination_by l => l.length
decreasing_by simp; omega

/-- Python `l[a:b:c]` for `c ≥ 1`. -/
def pySliceStep {α} (l : List α) (a b : Option Int) (c : Nat) : List α :=
  let (i, j) := sliceIndicesPos a b l.length
  everyNth c ((l.take j).drop i)

/-- `numpy.cumsum`. -/
def cumsum (l : List Int) : List Int :=
  (l.foldl (fun (acc : Int × List Int) x => (acc.1 + x, (acc.1 + x) :: acc.2)) (0, [])).2.reverse

/-- `numpy.searchsorted(a, v, side="left")`: number of elements `< v` in a sorted list. -/
def searchsortedLeft (a : List Int) (v : Int) : Nat := (a.takeWhile (· < v)).length
/-- `numpy.searchsorted(a, v, side="right")`: number of leading elements `≤ v`. -/
def searchsortedRight (a : List Int) (v : Int) : Nat := (a.takeWhile (· ≤ v)).length

/-- `numpy.argmax` (first maximum); `none` on an empty list (NumPy raises). -/
def argmaxFirst (l : List Int) : Option Nat :=
  match l with
  | [] => none
  | x :: xs =>
    some ((xs.foldl (fun (st : Nat × Nat × Int) y =>
      let (best, i, bv) := st
      if y > bv then (i, i + 1, y) else (best, i + 1, bv)) (0, 1, x)).1)

theorem floorDiv_pos (a b : Int) (h : 0 < b) : floorDiv a b = a / b := by
  unfold floorDiv; split
  · omega
  · rfl

theorem pyMod_pos (a b : Int) (h : 0 < b) : pyMod a b = a % b := by
  unfold pyMod; rw [floorDiv_pos a b h]
  have := Int.emod_add_mul_ediv a b
  have h2 : a / b * b = b * (a / b) := Int.mul_comm _ _
  omega

end Verif.Py
